module verifharness

go 1.23

require github.com/gopcua/opcua v0.0.0

require github.com/google/uuid v1.6.0 // indirect

replace github.com/gopcua/opcua => /repo
