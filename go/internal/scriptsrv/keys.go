package scriptsrv

import (
	"crypto/ecdsa"
	"crypto/elliptic"
	"crypto/rand"
	"crypto/rsa"
	"crypto/x509"
	"crypto/x509/pkix"
	"math/big"
	"net"
	"net/url"
	"os"
	"path/filepath"
	"time"
)

// KeyPair returns an RSA key of the given size and a self-signed certificate (DER) for it, cached under dir
// (work/keys) so that repeated runs do not pay for key generation. Keys are generated at run time, never committed.
func KeyPair(dir, name string, bits int) ([]byte, *rsa.PrivateKey, error) {
	os.MkdirAll(dir, 0o755)
	kf := filepath.Join(dir, name+".key")
	cf := filepath.Join(dir, name+".crt")
	if kb, err := os.ReadFile(kf); err == nil {
		if cb, err := os.ReadFile(cf); err == nil {
			if k, err := x509.ParsePKCS1PrivateKey(kb); err == nil && k.N.BitLen() == bits {
				if c, err := x509.ParseCertificate(cb); err == nil && time.Now().Before(c.NotAfter.Add(-time.Hour)) {
					return cb, k, nil
				}
			}
		}
	}
	k, err := rsa.GenerateKey(rand.Reader, bits)
	if err != nil {
		return nil, nil, err
	}
	der, err := selfSigned(name, &k.PublicKey, k)
	if err != nil {
		return nil, nil, err
	}
	os.WriteFile(kf, x509.MarshalPKCS1PrivateKey(k), 0o600)
	os.WriteFile(cf, der, 0o644)
	return der, k, nil
}

func selfSigned(name string, pub, priv interface{}) ([]byte, error) {
	u, _ := url.Parse("urn:verif:" + name)
	serial, _ := rand.Int(rand.Reader, big.NewInt(1<<62))
	tpl := &x509.Certificate{
		SerialNumber:          serial,
		Subject:               pkix.Name{CommonName: name, Organization: []string{"verif"}},
		NotBefore:             time.Now().Add(-time.Hour),
		NotAfter:              time.Now().Add(30 * 24 * time.Hour),
		KeyUsage:              x509.KeyUsageDigitalSignature | x509.KeyUsageKeyEncipherment | x509.KeyUsageDataEncipherment | x509.KeyUsageCertSign | x509.KeyUsageContentCommitment,
		ExtKeyUsage:           []x509.ExtKeyUsage{x509.ExtKeyUsageServerAuth, x509.ExtKeyUsageClientAuth},
		BasicConstraintsValid: true,
		IsCA:                  true,
		URIs:                  []*url.URL{u},
		IPAddresses:           []net.IP{net.ParseIP("127.0.0.1")},
		DNSNames:              []string{"localhost"},
	}
	return x509.CreateCertificate(rand.Reader, tpl, tpl, pub, priv)
}

// ECCert returns a self-signed certificate (DER) whose public key is ECDSA P-256 (not RSA).
func ECCert(name string) ([]byte, error) {
	k, err := ecdsa.GenerateKey(elliptic.P256(), rand.Reader)
	if err != nil {
		return nil, err
	}
	return selfSigned(name, &k.PublicKey, k)
}
