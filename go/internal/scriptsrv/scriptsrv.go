// Package scriptsrv is a scripted OPC-UA server built only from the public API of /repo
// (uacp.Listen + uasc.NewServerSecureChannel + Receive / SendResponseWithContext): every request is handed to a
// script callback that decides the exact response (any shape, any status, withheld, connection closed).
// It is used by the client-side engines (C21, C22, C25, C26, C27) and can be reused by others.
package scriptsrv

import (
	"context"
	"crypto/rand"
	"crypto/rsa"
	"fmt"
	"io"
	"net"
	"sync"
	"sync/atomic"
	"time"

	"github.com/gopcua/opcua/ua"
	"github.com/gopcua/opcua/uacp"
	"github.com/gopcua/opcua/uasc"
)

// Handler decides the response to one request. handled=false -> the Default behaviour is used.
// handled=true and resp=nil -> no response is sent (withheld); the script may send it later with Conn.Send.
type Handler func(c *Conn, reqID uint32, req ua.Request) (resp ua.Response, handled bool)

// Event is one request seen by the server (for traces).
type Event struct {
	Conn  int
	ReqID uint32
	Req   ua.Request
}

type Server struct {
	URL     string
	L       *uacp.Listener
	Cert    []byte          // DER; nil for None
	Key     *rsa.PrivateKey // nil for None
	Handler Handler

	// Behaviour of the default session handling.
	Namespaces []string
	// SignCreate produces the CreateSessionResponse signature; nil = the correct one (sc.NewSessionSignature).
	SignCreate func(c *Conn, req *ua.CreateSessionRequest) (sig []byte, alg string, cert []byte)

	// CreateSig, when set, decides the whole ServerSignature of the CreateSessionResponse (may return nil) and the certificate.
	CreateSig func(c *Conn, req *ua.CreateSessionRequest) (sd *ua.SignatureData, cert []byte)

	mu     sync.Mutex
	conns  []*Conn
	events []Event
	nconn  int32
	chanID uint32
	closed chan struct{}
	// OnRequest is called for every decoded request before the handler (may be nil).
	OnRequest func(c *Conn, reqID uint32, req ua.Request)
	// OnAccept is called when a connection has been accepted (after HEL/ACK).
	OnAccept func(c *Conn)
	// RefuseAccept, when it returns true, makes the server close a freshly accepted TCP connection at once.
	sessions int32
}

type Conn struct {
	ID   int
	SC   *uasc.SecureChannel
	UACP *uacp.Conn
	Srv  *Server
	once sync.Once
}

// Hdr builds a response header.
func Hdr(req ua.Request, status ua.StatusCode) *ua.ResponseHeader {
	var h uint32
	if req != nil && req.Header() != nil {
		h = req.Header().RequestHandle
	}
	return &ua.ResponseHeader{
		Timestamp:          time.Now(),
		RequestHandle:      h,
		ServiceResult:      status,
		ServiceDiagnostics: &ua.DiagnosticInfo{},
		StringTable:        []string{},
		AdditionalHeader:   ua.NewExtensionObject(nil),
	}
}

// Fault builds a ServiceFault with the given status.
func Fault(req ua.Request, status ua.StatusCode) ua.Response {
	return &ua.ServiceFault{ResponseHeader: Hdr(req, status)}
}

// New starts a scripted server on a free loopback port.
func New(cert []byte, key *rsa.PrivateKey, h Handler) (*Server, error) {
	nl, err := net.Listen("tcp", "127.0.0.1:0")
	if err != nil {
		return nil, err
	}
	port := nl.Addr().(*net.TCPAddr).Port
	nl.Close()
	return NewAt(port, cert, key, h)
}

// NewAt starts a scripted server on the given loopback port.
func NewAt(port int, cert []byte, key *rsa.PrivateKey, h Handler) (*Server, error) {
	url := fmt.Sprintf("opc.tcp://127.0.0.1:%d", port)
	var l *uacp.Listener
	var err error
	for i := 0; i < 50; i++ {
		l, err = uacp.Listen(context.Background(), url, nil)
		if err == nil {
			break
		}
		time.Sleep(20 * time.Millisecond)
	}
	if err != nil {
		return nil, err
	}
	s := &Server{URL: url, L: l, Cert: cert, Key: key, Handler: h, closed: make(chan struct{}),
		Namespaces: []string{"http://opcfoundation.org/UA/", "urn:scriptsrv"}}
	go s.acceptLoop()
	return s, nil
}

func (s *Server) Port() int { return s.L.Addr().(*net.TCPAddr).Port }

func (s *Server) acceptLoop() {
	for {
		c, err := s.L.Accept(context.Background())
		if err != nil {
			select {
			case <-s.closed:
				return
			default:
			}
			if ne, ok := err.(net.Error); ok && !ne.Timeout() {
				// listener closed or handshake failure; keep accepting unless closed
			}
			select {
			case <-s.closed:
				return
			case <-time.After(5 * time.Millisecond):
			}
			continue
		}
		go s.serve(c)
	}
}

func (s *Server) serve(uc *uacp.Conn) {
	id := int(atomic.AddInt32(&s.nconn, 1))
	cfg := &uasc.Config{
		SecurityPolicyURI: ua.SecurityPolicyURINone,
		SecurityMode:      ua.MessageSecurityModeNone,
		Lifetime:          uint32(time.Hour / time.Millisecond),
		Certificate:       s.Cert,
		LocalKey:          s.Key,
	}
	errch := make(chan error, 8)
	go func() {
		for range errch {
		}
	}()
	chanID := atomic.AddUint32(&s.chanID, 1)
	sc, err := uasc.NewServerSecureChannel("", uc, cfg, errch, chanID, 1, chanID)
	if err != nil {
		uc.Close()
		return
	}
	c := &Conn{ID: id, SC: sc, UACP: uc, Srv: s}
	s.mu.Lock()
	s.conns = append(s.conns, c)
	s.mu.Unlock()
	if s.OnAccept != nil {
		s.OnAccept(c)
	}
	defer c.Close()
	ctx := context.Background()
	for {
		msg := sc.Receive(ctx)
		if msg.Err == io.EOF {
			return
		}
		if msg.Err != nil {
			return
		}
		req := msg.Request()
		if req == nil {
			continue // OPN handled inside Receive, or a response type
		}
		s.mu.Lock()
		s.events = append(s.events, Event{Conn: id, ReqID: msg.RequestID, Req: req})
		s.mu.Unlock()
		if s.OnRequest != nil {
			s.OnRequest(c, msg.RequestID, req)
		}
		if _, ok := req.(*ua.CloseSecureChannelRequest); ok {
			return
		}
		var resp ua.Response
		handled := false
		if s.Handler != nil {
			resp, handled = s.Handler(c, msg.RequestID, req)
		}
		if !handled {
			resp = s.Default(c, req)
		}
		if resp == nil {
			continue
		}
		if err := c.Send(msg.RequestID, resp); err != nil {
			return
		}
	}
}

// Send sends a response for the given request id on this connection.
func (c *Conn) Send(reqID uint32, resp ua.Response) error {
	return c.SC.SendResponseWithContext(context.Background(), reqID, resp)
}

// Close drops the TCP connection.
func (c *Conn) Close() {
	c.once.Do(func() { c.UACP.Close() })
}

// Events returns a copy of the requests seen so far.
func (s *Server) Events() []Event {
	s.mu.Lock()
	defer s.mu.Unlock()
	return append([]Event(nil), s.events...)
}

// Conns returns the accepted connections.
func (s *Server) Conns() []*Conn {
	s.mu.Lock()
	defer s.mu.Unlock()
	return append([]*Conn(nil), s.conns...)
}

// DropAll closes every open connection (the listener stays).
func (s *Server) DropAll() {
	for _, c := range s.Conns() {
		c.Close()
	}
}

// Close stops the listener and every connection.
func (s *Server) Close() {
	select {
	case <-s.closed:
	default:
		close(s.closed)
	}
	s.L.Close()
	s.DropAll()
}

// NamespaceValue is the Read result the client expects from UpdateNamespaces.
func (s *Server) NamespaceValue() *ua.DataValue {
	return &ua.DataValue{EncodingMask: ua.DataValueValue, Value: ua.MustVariant(s.Namespaces)}
}

// Default is a minimal, well-behaved server: sessions, namespace array, empty-but-well-shaped answers.
func (s *Server) Default(c *Conn, r ua.Request) ua.Response {
	switch req := r.(type) {
	case *ua.CreateSessionRequest:
		nonce := make([]byte, 32)
		rand.Read(nonce)
		var sig []byte
		var alg string
		cert := s.Cert
		if s.SignCreate != nil {
			sig, alg, cert = s.SignCreate(c, req)
		} else {
			var err error
			sig, alg, err = c.SC.NewSessionSignature(req.ClientCertificate, req.ClientNonce)
			if err != nil {
				return Fault(req, ua.StatusBadInternalError)
			}
		}
		sd := &ua.SignatureData{Signature: sig, Algorithm: alg}
		if s.CreateSig != nil {
			sd, cert = s.CreateSig(c, req)
		}
		n := atomic.AddInt32(&s.sessions, 1)
		return &ua.CreateSessionResponse{
			ResponseHeader:        Hdr(req, ua.StatusOK),
			SessionID:             ua.NewNumericNodeID(1, uint32(1000+n)),
			AuthenticationToken:   ua.NewNumericNodeID(1, uint32(2000+n)),
			RevisedSessionTimeout: 60000,
			ServerSignature:       sd,
			ServerCertificate:     cert,
			ServerNonce:           nonce,
			ServerEndpoints:       []*ua.EndpointDescription{},
		}
	case *ua.ActivateSessionRequest:
		nonce := make([]byte, 32)
		rand.Read(nonce)
		return &ua.ActivateSessionResponse{ResponseHeader: Hdr(req, ua.StatusOK), ServerNonce: nonce,
			Results: []ua.StatusCode{}, DiagnosticInfos: []*ua.DiagnosticInfo{}}
	case *ua.CloseSessionRequest:
		return &ua.CloseSessionResponse{ResponseHeader: Hdr(req, ua.StatusOK)}
	case *ua.ReadRequest:
		res := make([]*ua.DataValue, len(req.NodesToRead))
		for i, n := range req.NodesToRead {
			if n.NodeID != nil && n.NodeID.Namespace() == 0 && n.NodeID.IntID() == 2255 {
				res[i] = s.NamespaceValue()
			} else {
				res[i] = &ua.DataValue{EncodingMask: ua.DataValueValue | ua.DataValueStatusCode, Value: ua.MustVariant(int32(0)), Status: ua.StatusOK}
			}
		}
		return &ua.ReadResponse{ResponseHeader: Hdr(req, ua.StatusOK), Results: res, DiagnosticInfos: []*ua.DiagnosticInfo{}}
	case *ua.GetEndpointsRequest:
		return &ua.GetEndpointsResponse{ResponseHeader: Hdr(req, ua.StatusOK), Endpoints: []*ua.EndpointDescription{}}
	}
	return Fault(r, ua.StatusBadServiceUnsupported)
}
