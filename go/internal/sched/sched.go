// Package sched is the scheduling controller for the verif build of gopcua/opcua.
//
// The library calls verifhook.Point(name) at its synchronisation boundaries. With the controller installed
// (uasc.VerifSetSchedHook(c.Hook)) a goroutine that belongs to a *controlled* thread parks at every point until
// the harness releases it; all other goroutines pass through (their passage is only logged).
//
// Threads are told apart by goroutine id: a harness goroutine calls Bind("sender1") before it enters the
// library; background goroutines of the library (dispatcher, renewal timer) are named by the points they hit.
package sched

import (
	"bytes"
	"fmt"
	"runtime"
	"strconv"
	"strings"
	"sync"
	"time"
)

type Pass struct {
	Thread string `json:"t"`
	Point  string `json:"p"`
}

type parked struct {
	point   string
	release chan struct{}
}

type Controller struct {
	mu         sync.Mutex
	cond       *sync.Cond
	names      map[int64]string
	controlled map[string]bool
	parked     map[string]*parked
	done       map[string]bool
	log        []Pass
	// BgName names an unbound goroutine from the point it hits ("" = ignore).
	BgName func(point string) string
}

func New() *Controller {
	c := &Controller{names: map[int64]string{}, controlled: map[string]bool{}, parked: map[string]*parked{}, done: map[string]bool{}}
	c.cond = sync.NewCond(&c.mu)
	c.BgName = func(p string) string {
		if strings.HasPrefix(p, "sc.disp.") {
			return "disp"
		}
		if strings.HasPrefix(p, "sc.recv.") {
			return "recv" // a goroutine inside Receive (the client's dispatcher unless bound otherwise)
		}
		return ""
	}
	return c
}

func goid() int64 {
	var buf [64]byte
	n := runtime.Stack(buf[:], false)
	// "goroutine 123 [running]:"
	f := bytes.Fields(buf[:n])
	if len(f) < 2 {
		return -1
	}
	id, _ := strconv.ParseInt(string(f[1]), 10, 64)
	return id
}

// Bind names the calling goroutine.
func (c *Controller) Bind(name string) {
	c.mu.Lock()
	c.names[goid()] = name
	delete(c.done, name)
	c.mu.Unlock()
}

// GoID returns the id of the calling goroutine.
func GoID() int64 { return goid() }

// BindID names the goroutine with the given id.
func (c *Controller) BindID(id int64, name string) {
	c.mu.Lock()
	c.names[id] = name
	c.mu.Unlock()
}

// Done marks the calling goroutine's thread as finished (its API call returned).
func (c *Controller) Done() {
	c.mu.Lock()
	id := goid()
	if n, ok := c.names[id]; ok {
		c.done[n] = true
		delete(c.names, id)
	}
	c.cond.Broadcast()
	c.mu.Unlock()
}

// Control makes the named threads park at every point from now on.
func (c *Controller) Control(names ...string) {
	c.mu.Lock()
	for _, n := range names {
		c.controlled[n] = true
	}
	c.mu.Unlock()
}

// Free stops controlling the thread and releases it if it is parked.
func (c *Controller) Free(name string) {
	c.mu.Lock()
	delete(c.controlled, name)
	if p := c.parked[name]; p != nil {
		delete(c.parked, name)
		close(p.release)
	}
	c.mu.Unlock()
}

// FreeAll stops controlling every thread.
func (c *Controller) FreeAll() {
	c.mu.Lock()
	c.controlled = map[string]bool{}
	for n, p := range c.parked {
		delete(c.parked, n)
		close(p.release)
	}
	c.mu.Unlock()
}

// Hook is the function to install with uasc.VerifSetSchedHook.
func (c *Controller) Hook(point string) {
	id := goid()
	c.mu.Lock()
	name, ok := c.names[id]
	if !ok {
		name = c.BgName(point)
	}
	if name == "" {
		c.mu.Unlock()
		return
	}
	if !c.controlled[name] {
		c.log = append(c.log, Pass{name, point})
		c.mu.Unlock()
		return
	}
	p := &parked{point: point, release: make(chan struct{})}
	c.parked[name] = p
	c.cond.Broadcast()
	c.mu.Unlock()
	<-p.release
	c.mu.Lock()
	c.log = append(c.log, Pass{name, point})
	c.mu.Unlock()
}

// ParkedAt returns the point the thread is parked at ("" if it is not parked).
func (c *Controller) ParkedAt(name string) string {
	c.mu.Lock()
	defer c.mu.Unlock()
	if p := c.parked[name]; p != nil {
		return p.point
	}
	return ""
}

func (c *Controller) IsDone(name string) bool {
	c.mu.Lock()
	defer c.mu.Unlock()
	return c.done[name]
}

// WaitParked waits until the thread is parked (at `point`, or anywhere if point == "") or finished.
// It returns the point ("" when the thread finished or the timeout expired).
func (c *Controller) WaitParked(name, point string, timeout time.Duration) string {
	deadline := time.Now().Add(timeout)
	for {
		c.mu.Lock()
		p := c.parked[name]
		d := c.done[name]
		c.mu.Unlock()
		if p != nil && (point == "" || p.point == point) {
			return p.point
		}
		if d || time.Now().After(deadline) {
			return ""
		}
		time.Sleep(200 * time.Microsecond)
	}
}

// Release lets a parked thread continue to its next point. It returns the point it was released from.
func (c *Controller) Release(name string) (string, error) {
	c.mu.Lock()
	p := c.parked[name]
	if p == nil {
		c.mu.Unlock()
		return "", fmt.Errorf("thread %s is not parked", name)
	}
	delete(c.parked, name)
	close(p.release)
	c.mu.Unlock()
	return p.point, nil
}

// Step releases the thread from its current point and waits until it parks again, finishes, or `settle`
// elapses (the thread is then taken to be blocked on a lock or on the network).
// It returns (point released from, where it is now: a point, "done", or "blocked").
func (c *Controller) Step(name string, wait, settle time.Duration) (string, string, error) {
	if c.WaitParked(name, "", wait) == "" {
		if c.IsDone(name) {
			return "", "done", fmt.Errorf("thread %s already finished", name)
		}
		return "", "blocked", fmt.Errorf("thread %s did not reach a point within %s", name, wait)
	}
	from, err := c.Release(name)
	if err != nil {
		return "", "", err
	}
	_ = settle
	return from, c.WaitSettled(name, 5*time.Second), nil
}

// goroutineState returns the scheduler state of goroutine id as printed by runtime.Stack ("running", "runnable",
// "semacquire", "sync.Mutex.Lock", "sync.Cond.Wait", "sync.WaitGroup.Wait", "select", "chan receive", "IO wait" ...).
func goroutineState(id int64) string {
	buf := make([]byte, 1<<20)
	n := runtime.Stack(buf, true)
	pat := []byte(fmt.Sprintf("goroutine %d [", id))
	i := bytes.Index(buf[:n], pat)
	if i < 0 {
		return "gone"
	}
	rest := buf[i+len(pat) : n]
	j := bytes.IndexAny(rest, "],")
	if j < 0 {
		return "?"
	}
	return string(rest[:j])
}

func (c *Controller) goidOf(name string) int64 {
	c.mu.Lock()
	defer c.mu.Unlock()
	for id, n := range c.names {
		if n == name {
			return id
		}
	}
	return -1
}

func blockingState(st string) bool {
	switch st {
	case "semacquire", "sync.Mutex.Lock", "sync.RWMutex.Lock", "sync.Cond.Wait", "sync.WaitGroup.Wait", "select", "chan receive", "chan send", "IO wait", "sleep":
		return true
	}
	return false
}

// WaitSettled waits until the thread is parked at a point (returned), has finished ("done") or is blocked
// inside the library ("blocked": its goroutine is waiting on a lock, a condition, a channel or the network).
// It does not guess from elapsed time: the goroutine's scheduler state is read from runtime.Stack.
func (c *Controller) WaitSettled(name string, max time.Duration) string {
	deadline := time.Now().Add(max)
	seen := 0
	for {
		if p := c.ParkedAt(name); p != "" {
			return p
		}
		if c.IsDone(name) {
			return "done"
		}
		id := c.goidOf(name)
		if id >= 0 {
			if blockingState(goroutineState(id)) {
				// make sure it is not the hook's own channel receive in the instant before ParkedAt is set
				if p := c.ParkedAt(name); p != "" {
					return p
				}
				seen++
				if seen >= 3 {
					return "blocked"
				}
			} else {
				seen = 0
			}
		}
		if time.Now().After(deadline) {
			return "timeout" // neither parked, nor finished, nor seen blocked: the schedule could not be established
		}
		time.Sleep(300 * time.Microsecond)
	}
}

// Log returns a copy of the passes recorded so far.
func (c *Controller) Log() []Pass {
	c.mu.Lock()
	defer c.mu.Unlock()
	return append([]Pass(nil), c.log...)
}
