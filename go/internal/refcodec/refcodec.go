// Package refcodec is a reference sender/receiver for secured OPC UA MessageChunks written from the
// specification (Part 6, 6.7.2 chunk structure and footer, 6.7.2.5 padding, 6.7.5 key derivation; Part 7
// security policy profiles) with the Go standard library only. It shares no code with gopcua/opcua.
// The layout functions Send/Receive are the Go twin of coq/Model/Part6Spec.v (spec_send / spec_receive) and are
// generic in the primitives, so that they can be run with real crypto and with the toy primitives.
package refcodec

import (
	"bytes"
	"crypto"
	"crypto/aes"
	"crypto/cipher"
	"crypto/hmac"
	"crypto/rand"
	"crypto/rsa"
	"crypto/sha1"
	"crypto/sha256"
	"encoding/binary"
	"errors"
	"hash"
)

// Keys mirrors spec_keys.
type Keys struct {
	Signed, Encrypted, Extra bool
	PlainBlock, CipherBlock  int
	SigLen                   int
	Enc, Dec, Sign           func([]byte) ([]byte, error)
	Verify                   func(msg, sig []byte) error
}

// Content mirrors `content`: type+IsFinal (4 bytes), SecureChannelId+SecurityHeader, sequence header, body.
type Content struct {
	T4, H8   []byte
	Seq, Req uint32
	Body     []byte
}

// MinPadding is the smallest admissible padding length for a body; add multiples of PlainBlock for other choices.
func MinPadding(k Keys, bodyLen int) int {
	if !k.Encrypted {
		return 0
	}
	extra := 0
	if k.Extra {
		extra = 1
	}
	total := 8 + bodyLen + 1 + extra + k.SigLen
	return (k.PlainBlock - total%k.PlainBlock) % k.PlainBlock
}

func le32(v uint32) []byte { b := make([]byte, 4); binary.LittleEndian.PutUint32(b, v); return b }

// Send secures x with n padding bytes.
func Send(k Keys, n int, x Content) ([]byte, error) {
	inner := append(append(le32(x.Seq), le32(x.Req)...), x.Body...)
	if k.Encrypted {
		inner = append(inner, byte(n))
		for i := 0; i < n; i++ {
			inner = append(inner, byte(n))
		}
		if k.Extra {
			inner = append(inner, byte(n>>8))
		}
	}
	siglen := 0
	if k.Signed {
		siglen = k.SigLen
	}
	after := len(inner) + siglen
	if k.Encrypted {
		if after%k.PlainBlock != 0 {
			return nil, errors.New("refcodec: inadmissible padding length")
		}
		after = after / k.PlainBlock * k.CipherBlock
	}
	hdr := append(append(append([]byte{}, x.T4...), le32(uint32(8+len(x.H8)+after))...), x.H8...)
	var sig []byte
	if k.Signed {
		var err error
		if sig, err = k.Sign(append(append([]byte{}, hdr...), inner...)); err != nil {
			return nil, err
		}
	}
	plain := append(inner, sig...)
	if k.Encrypted {
		c, err := k.Enc(plain)
		if err != nil {
			return nil, err
		}
		return append(hdr, c...), nil
	}
	return append(hdr, plain...), nil
}

// Receive verifies, decrypts and parses a chunk whose headers (message + security header) are hl bytes long.
func Receive(k Keys, hl int, chunk []byte) (*Content, error) {
	if len(chunk) < hl || hl < 8 {
		return nil, errors.New("refcodec: short chunk")
	}
	hdr := chunk[:hl]
	if int(binary.LittleEndian.Uint32(hdr[4:])) != len(chunk) {
		return nil, errors.New("refcodec: MessageSize differs from the chunk length")
	}
	plain := chunk[hl:]
	if k.Encrypted {
		var err error
		if plain, err = k.Dec(plain); err != nil {
			return nil, err
		}
	}
	siglen := 0
	if k.Signed {
		siglen = k.SigLen
	}
	if len(plain) < siglen {
		return nil, errors.New("refcodec: no room for the signature")
	}
	signed, sig := plain[:len(plain)-siglen], plain[len(plain)-siglen:]
	if k.Signed {
		if err := k.Verify(append(append([]byte{}, hdr...), signed...), sig); err != nil {
			return nil, err
		}
	}
	inner := signed
	if k.Encrypted {
		L := len(signed)
		var n, strip int
		var low byte
		if k.Extra {
			if L < 2 {
				return nil, errors.New("refcodec: no padding size")
			}
			low = signed[L-2]
			n = int(signed[L-1])<<8 | int(low)
			strip = n + 2
		} else {
			if L < 1 {
				return nil, errors.New("refcodec: no padding size")
			}
			low = signed[L-1]
			n = int(low)
			strip = n + 1
		}
		if L-strip < 0 {
			return nil, errors.New("refcodec: padding longer than the chunk")
		}
		end := L
		if k.Extra {
			end = L - 1
		}
		for _, b := range signed[L-strip : end] {
			if b != low {
				return nil, errors.New("refcodec: padding byte differs from PaddingSize")
			}
		}
		inner = signed[:L-strip]
	}
	if len(inner) < 8 {
		return nil, errors.New("refcodec: no sequence header")
	}
	return &Content{T4: hdr[:4], H8: hdr[8:], Seq: binary.LittleEndian.Uint32(inner), Req: binary.LittleEndian.Uint32(inner[4:]), Body: inner[8:]}, nil
}

// ---------------------------------------------------------------------------------------------
// real primitives per security policy profile (Part 7)

type Profile struct {
	Name              string
	Hash              func() hash.Hash // key derivation and symmetric signature
	SigKeyLen, EncKey int              // DerivedSignatureKeyLength, AES key length (bytes)
	SymSigLen         int
	AsymEnc           string // pkcs1 | oaep-sha1 | oaep-sha256
	AsymSig           string // pkcs1-sha1 | pkcs1-sha256 | pss-sha256
}

var Profiles = map[string]Profile{
	"http://opcfoundation.org/UA/SecurityPolicy#Basic128Rsa15":         {"Basic128Rsa15", sha1.New, 16, 16, 20, "pkcs1", "pkcs1-sha1"},
	"http://opcfoundation.org/UA/SecurityPolicy#Basic256":              {"Basic256", sha1.New, 24, 32, 20, "oaep-sha1", "pkcs1-sha1"},
	"http://opcfoundation.org/UA/SecurityPolicy#Basic256Sha256":        {"Basic256Sha256", sha256.New, 32, 32, 32, "oaep-sha1", "pkcs1-sha256"},
	"http://opcfoundation.org/UA/SecurityPolicy#Aes128_Sha256_RsaOaep": {"Aes128_Sha256_RsaOaep", sha256.New, 32, 16, 32, "oaep-sha1", "pkcs1-sha256"},
	"http://opcfoundation.org/UA/SecurityPolicy#Aes256_Sha256_RsaPss":  {"Aes256_Sha256_RsaPss", sha256.New, 32, 32, 32, "oaep-sha256", "pss-sha256"},
}

// PSHA is P_hash of RFC 5246 section 5.
func PSHA(h func() hash.Hash, secret, seed []byte, n int) []byte {
	var out []byte
	a := seed
	for len(out) < n {
		m := hmac.New(h, secret)
		m.Write(a)
		a = m.Sum(nil)
		m = hmac.New(h, secret)
		m.Write(a)
		m.Write(seed)
		out = append(out, m.Sum(nil)...)
	}
	return out[:n]
}

// SymKeys derives the keys one side uses to SEND: secret = the peer's nonce, seed = its own nonce (Part 6, 6.7.5).
func (p Profile) SendKeys(ownNonce, peerNonce []byte) (sign, enc, iv []byte) {
	k := PSHA(p.Hash, peerNonce, ownNonce, p.SigKeyLen+p.EncKey+16)
	return k[:p.SigKeyLen], k[p.SigKeyLen : p.SigKeyLen+p.EncKey], k[p.SigKeyLen+p.EncKey:]
}

// Symmetric returns the keys for chunks sent by the side owning senderNonce to the side owning receiverNonce.
func (p Profile) Symmetric(encrypt bool, senderNonce, receiverNonce []byte) Keys {
	sk, ek, iv := p.SendKeys(senderNonce, receiverNonce)
	mac := func(m []byte) []byte { h := hmac.New(p.Hash, sk); h.Write(m); return h.Sum(nil) }
	return Keys{Signed: true, Encrypted: encrypt, PlainBlock: 16, CipherBlock: 16, SigLen: p.SymSigLen,
		Sign: func(m []byte) ([]byte, error) { return mac(m), nil },
		Verify: func(m, s []byte) error {
			if !hmac.Equal(mac(m), s) {
				return errors.New("refcodec: bad HMAC")
			}
			return nil
		},
		Enc: func(pt []byte) ([]byte, error) {
			b, err := aes.NewCipher(ek)
			if err != nil || len(pt)%16 != 0 {
				return nil, errors.New("refcodec: aes")
			}
			out := make([]byte, len(pt))
			cipher.NewCBCEncrypter(b, iv).CryptBlocks(out, pt)
			return out, nil
		},
		Dec: func(ct []byte) ([]byte, error) {
			b, err := aes.NewCipher(ek)
			if err != nil || len(ct)%16 != 0 || len(ct) == 0 {
				return nil, errors.New("refcodec: aes")
			}
			out := make([]byte, len(ct))
			cipher.NewCBCDecrypter(b, iv).CryptBlocks(out, ct)
			return out, nil
		},
	}
}

func (p Profile) overhead() int {
	switch p.AsymEnc {
	case "pkcs1":
		return 11
	case "oaep-sha1":
		return 2*20 + 2
	default:
		return 2*32 + 2
	}
}

// Asymmetric returns the keys for OPN chunks from the owner of sender to the owner of receiver. Whichever of the
// private keys is nil cannot be used (a sender needs sender's private key, a receiver the receiver's).
func (p Profile) Asymmetric(senderPriv *rsa.PrivateKey, senderPub *rsa.PublicKey, receiverPriv *rsa.PrivateKey, receiverPub *rsa.PublicKey) Keys {
	ks := receiverPub.Size()
	k := Keys{Signed: true, Encrypted: true, Extra: ks*8 > 2048, PlainBlock: ks - p.overhead(), CipherBlock: ks, SigLen: senderPub.Size()}
	digest := func(m []byte) (crypto.Hash, []byte) {
		if p.AsymSig == "pkcs1-sha1" {
			d := sha1.Sum(m)
			return crypto.SHA1, d[:]
		}
		d := sha256.Sum256(m)
		return crypto.SHA256, d[:]
	}
	k.Sign = func(m []byte) ([]byte, error) {
		h, d := digest(m)
		if p.AsymSig == "pss-sha256" {
			return rsa.SignPSS(rand.Reader, senderPriv, h, d, &rsa.PSSOptions{SaltLength: rsa.PSSSaltLengthEqualsHash})
		}
		return rsa.SignPKCS1v15(rand.Reader, senderPriv, h, d)
	}
	k.Verify = func(m, s []byte) error {
		h, d := digest(m)
		if p.AsymSig == "pss-sha256" {
			return rsa.VerifyPSS(senderPub, h, d, s, nil)
		}
		return rsa.VerifyPKCS1v15(senderPub, h, d, s)
	}
	enc1 := func(b []byte) ([]byte, error) {
		switch p.AsymEnc {
		case "pkcs1":
			return rsa.EncryptPKCS1v15(rand.Reader, receiverPub, b)
		case "oaep-sha1":
			return rsa.EncryptOAEP(sha1.New(), rand.Reader, receiverPub, b, nil)
		}
		return rsa.EncryptOAEP(sha256.New(), rand.Reader, receiverPub, b, nil)
	}
	dec1 := func(b []byte) ([]byte, error) {
		switch p.AsymEnc {
		case "pkcs1":
			return rsa.DecryptPKCS1v15(rand.Reader, receiverPriv, b)
		case "oaep-sha1":
			return rsa.DecryptOAEP(sha1.New(), rand.Reader, receiverPriv, b, nil)
		}
		return rsa.DecryptOAEP(sha256.New(), rand.Reader, receiverPriv, b, nil)
	}
	k.Enc = func(pt []byte) ([]byte, error) {
		var out []byte
		for len(pt) > 0 {
			n := min(k.PlainBlock, len(pt))
			c, err := enc1(pt[:n])
			if err != nil {
				return nil, err
			}
			out, pt = append(out, c...), pt[n:]
		}
		return out, nil
	}
	k.Dec = func(ct []byte) ([]byte, error) {
		if len(ct)%ks != 0 {
			return nil, errors.New("refcodec: ciphertext is not a whole number of blocks")
		}
		var out []byte
		for len(ct) > 0 {
			b, err := dec1(ct[:ks])
			if err != nil {
				return nil, err
			}
			out, ct = append(out, b...), ct[ks:]
		}
		return out, nil
	}
	return k
}

// Equal compares two contents.
func Equal(a, b *Content) bool {
	return a != nil && b != nil && bytes.Equal(a.T4, b.T4) && bytes.Equal(a.H8, b.H8) && a.Seq == b.Seq && a.Req == b.Req && bytes.Equal(a.Body, b.Body)
}
