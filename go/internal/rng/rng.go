// Package rng is the single seeded PRNG all harnesses draw from (splitmix64), so runs replay exactly.
package rng

type R struct{ s uint64 }

func New(seed uint64) *R { return &R{s: seed*0x9E3779B97F4A7C15 + 0x1234567} }

func (r *R) U64() uint64 {
	r.s += 0x9E3779B97F4A7C15
	z := r.s
	z = (z ^ (z >> 30)) * 0xBF58476D1CE4E5B9
	z = (z ^ (z >> 27)) * 0x94D049BB133111EB
	return z ^ (z >> 31)
}

// Intn returns a value in [0,n).
func (r *R) Intn(n int) int {
	if n <= 0 {
		return 0
	}
	return int(r.U64() % uint64(n))
}

// Range returns a value in [lo,hi].
func (r *R) Range(lo, hi int) int { return lo + r.Intn(hi-lo+1) }

func (r *R) Bool() bool { return r.U64()&1 == 1 }

func (r *R) Bytes(n int) []byte {
	b := make([]byte, n)
	for i := 0; i < n; i += 8 {
		v := r.U64()
		for j := 0; j < 8 && i+j < n; j++ {
			b[i+j] = byte(v >> (8 * j))
		}
	}
	return b
}

// Pick returns one of the given ints.
func (r *R) Pick(xs ...int) int { return xs[r.Intn(len(xs))] }
