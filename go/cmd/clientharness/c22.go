package main

// C22: a session is established only after the server proves its identity.
// A scripted server over a REAL secured channel (self-signed certificates generated at run time) answers
// CreateSession with a signature that is valid, corrupted, empty, all-zero, truncated, made with another key, made
// over other data, or accompanied by a certificate that is not RSA / not a certificate / another certificate.
// The client (child process) calls Connect; observed: outcome class, state afterwards, whether a session is set,
// and (server side) whether ActivateSession was ever sent.

import (
	"context"
	"crypto/rsa"
	"crypto/x509"
	"encoding/json"
	"fmt"
	"os"
	"strings"
	"sync"
	"time"

	"github.com/gopcua/opcua"
	"github.com/gopcua/opcua/ua"
	"github.com/gopcua/opcua/uapolicy"

	"verifharness/internal/rng"
	"verifharness/internal/scriptsrv"
)

var c22Policies = []string{"Basic128Rsa15", "Basic256", "Basic256Sha256", "Aes128_Sha256_RsaOaep", "Aes256_Sha256_RsaPss"}
var c22Sigs = []string{"valid", "corrupt", "empty", "zero", "truncated", "wrongkey", "wrongnonce", "wrongcert_data", "eccert", "garbagecert", "othercert_valid", "nilcert",
	// the Algorithm label of the SignatureData: empty, unknown, the URI of another policy's algorithm - with a valid,
	// garbage, absent or wrong-key signature - and no SignatureData at all
	"alg_empty_valid", "alg_empty_garbage", "alg_empty_nosig", "alg_empty_wrongkey",
	"alg_unknown_valid", "alg_unknown_garbage", "alg_unknown_nosig",
	"alg_foreign_valid", "alg_foreign_garbage", "alg_foreign_wrongkey", "nil_sigdata"}

const (
	algSha1   = "http://www.w3.org/2000/09/xmldsig#rsa-sha1"
	algSha256 = "http://www.w3.org/2001/04/xmldsig-more#rsa-sha256"
	algPss    = "http://opcfoundation.org/UA/security/rsa-pss-sha2-256"
)

func pubOf(der []byte) *rsa.PublicKey {
	c, err := x509.ParseCertificate(der)
	if err != nil {
		return nil
	}
	k, _ := c.PublicKey.(*rsa.PublicKey)
	return k
}

func c22Main(seed uint64, n int, keys, replay string) {
	r := rng.New(seed)
	srvCert, srvKey, err := scriptsrv.KeyPair(keys, "server", 2048)
	if err != nil {
		fmt.Fprintln(os.Stderr, err)
		os.Exit(3)
	}
	othCert, othKey, _ := scriptsrv.KeyPair(keys, "other", 2048)
	cliCert, _, _ := scriptsrv.KeyPair(keys, "client", 2048)
	ecCert, _ := scriptsrv.ECCert("ec")
	_ = cliCert

	type cfg struct {
		policy string
		mode   int
		sig    string
		chain  int
		sr     int // ServiceResult of the CreateSessionResponse: 0 Good(0), 1 non-zero Good, 2 Uncertain, 3 Bad
	}
	var cfgs []cfg
	if replay != "" {
		b, _ := os.ReadFile(replay)
		var rp struct {
			Case *Case `json:"case"`
		}
		if json.Unmarshal(b, &rp) != nil || rp.Case == nil {
			fmt.Fprintln(os.Stderr, "replay file has no case")
			os.Exit(2)
		}
		cfgs = append(cfgs, cfg{rp.Case.S["policy"], rp.Case.P["mode"], rp.Case.S["sig"], rp.Case.P["chain"], rp.Case.P["sr"]})
	} else {
		// the full matrix policies x {Sign, SignAndEncrypt} x signature variants, then None, then seeded repeats
		for _, p := range c22Policies {
			for m := 2; m <= 3; m++ {
				for _, s := range c22Sigs {
					cfgs = append(cfgs, cfg{p, m, s, 0, 0})
				}
			}
		}
		// the client presents a certificate chain (leaf + issuer): every variant, two policies
		for _, p := range []string{"Basic256Sha256", "Aes256_Sha256_RsaPss"} {
			for m := 2; m <= 3; m++ {
				for _, s := range c22Sigs {
					cfgs = append(cfgs, cfg{p, m, s, 1, 0})
				}
			}
		}
		for _, s := range c22Sigs {
			cfgs = append(cfgs, cfg{"None", 1, s, 0, 0})
		}
		// the CreateSessionResponse itself carries a non-zero ServiceResult (non-zero Good, Uncertain, Bad): every variant
		for sr := 1; sr <= 3; sr++ {
			for i, s := range c22Sigs {
				cfgs = append(cfgs, cfg{c22Policies[(i+sr)%len(c22Policies)], 2 + (i+sr)%2, s, 0, sr})
			}
		}
		for len(cfgs) < n {
			cfgs = append(cfgs, cfg{c22Policies[r.Intn(len(c22Policies))], r.Range(2, 3), c22Sigs[r.Intn(len(c22Sigs))], r.Intn(2), r.Pick(0, 0, 1, 2, 3)})
		}
		if n < len(cfgs) && n > 0 {
			// quick tier: a seeded sample that still contains every signature variant and every policy
			var sel []cfg
			seen := map[string]bool{}
			perm := make([]int, len(cfgs))
			for i := range perm {
				perm[i] = i
			}
			for i := len(perm) - 1; i > 0; i-- {
				j := r.Intn(i + 1)
				perm[i], perm[j] = perm[j], perm[i]
			}
			for _, i := range perm {
				c := cfgs[i]
				k1, k2 := "s:"+c.sig+fmt.Sprint(c.mode == 1, c.chain, c.sr), "p:"+c.policy+fmt.Sprint(c.mode)
				if !seen[k1] || !seen[k2] || len(sel) < n {
					seen[k1], seen[k2] = true, true
					sel = append(sel, c)
				}
			}
			cfgs = sel
		}
	}

	const workers = 4
	var wg sync.WaitGroup
	ch := make(chan *Case)
	for w := 0; w < workers; w++ {
		wg.Add(1)
		go func() {
			defer wg.Done()
			var p *childProc
			for c := range ch {
				policy, sigKind := c.S["policy"], c.S["sig"]
				activates, creates := 0, 0
				var mu sync.Mutex
				var cert []byte
				var key *rsa.PrivateKey
				if c.P["mode"] != 1 {
					cert, key = srvCert, srvKey
				}
				srv, err := scriptsrv.New(cert, key, func(cn *scriptsrv.Conn, reqID uint32, r ua.Request) (ua.Response, bool) {
					mu.Lock()
					defer mu.Unlock()
					switch r.(type) {
					case *ua.ActivateSessionRequest:
						activates++
					case *ua.CreateSessionRequest:
						creates++
						if sr := c.P["sr"]; sr != 0 {
							resp := cn.Srv.Default(cn, r)
							resp.Header().ServiceResult = []ua.StatusCode{0, ua.StatusGoodCompletesAsynchronously, ua.StatusUncertainNotAllNodesAvailable, ua.StatusBadInternalError}[sr]
							return resp, true
						}
					}
					return nil, false
				})
				if err != nil {
					emit(map[string]interface{}{"case": c, "outcome": "harness-error", "err": err.Error()})
					continue
				}
				srv.SignCreate = func(cn *scriptsrv.Conn, req *ua.CreateSessionRequest) ([]byte, string, []byte) {
					respCert := srvCert
					signKey := srvKey
					data := append(append([]byte{}, req.ClientCertificate...), req.ClientNonce...)
					switch sigKind {
					case "wrongkey", "alg_empty_wrongkey", "alg_foreign_wrongkey":
						signKey = othKey
					case "wrongnonce":
						data = append(append([]byte{}, req.ClientCertificate...), make([]byte, len(req.ClientNonce))...)
					case "wrongcert_data":
						data = append(append([]byte{}, srvCert...), req.ClientNonce...)
					case "othercert_valid":
						respCert, signKey = othCert, othKey
					case "eccert":
						respCert = ecCert
					case "garbagecert":
						respCert = []byte{0x30, 0x03, 0x01, 0x02, 0x03}
					case "nilcert":
						respCert = nil
					}
					uri := ua.FormatSecurityPolicyURI(policy)
					var sig []byte
					alg := ""
					if policy != "None" {
						remote := pubOf(req.ClientCertificate)
						enc, err := uapolicy.Asymmetric(uri, signKey, remote)
						if err == nil {
							sig, err = enc.Signature(data)
							alg = enc.SignatureURI()
						}
						if err != nil {
							sig = nil
						}
					} else {
						sig = []byte{1, 2, 3, 4}
					}
					switch sigKind {
					case "alg_empty_garbage", "alg_unknown_garbage", "alg_foreign_garbage":
						sig = []byte("this is not a signature")
					case "alg_empty_nosig", "alg_unknown_nosig":
						sig = nil
					}
					switch {
					case strings.HasPrefix(sigKind, "alg_empty"):
						alg = ""
					case strings.HasPrefix(sigKind, "alg_unknown"):
						alg = "urn:verif:no-such-algorithm"
					case strings.HasPrefix(sigKind, "alg_foreign"):
						// the signature algorithm of a policy other than the channel's
						if alg == algSha1 {
							alg = algSha256
						} else {
							alg = algSha1
						}
					}
					switch sigKind {
					case "corrupt":
						if len(sig) > 0 {
							sig = append([]byte{}, sig...)
							sig[len(sig)/2] ^= 0x40
						}
					case "empty":
						sig = nil
					case "zero":
						sig = make([]byte, 256)
					case "truncated":
						if len(sig) > 8 {
							sig = sig[:len(sig)-7]
						}
					}
					return sig, alg, respCert
				}
				if sigKind == "nil_sigdata" {
					// a nil *SignatureData does not encode (the message would be undecodable): the wire form of "no
					// signature" is a SignatureData whose two fields are null
					srv.CreateSig = func(cn *scriptsrv.Conn, req *ua.CreateSessionRequest) (*ua.SignatureData, []byte) {
						return &ua.SignatureData{}, srvCert
					}
				}
				c.URL = srv.URL
				if p == nil {
					p, err = startChild()
					if err != nil {
						fmt.Fprintln(os.Stderr, "cannot start child:", err)
						os.Exit(3)
					}
				}
				res, alive := p.run(c, 30*time.Second)
				if !alive {
					p = nil
				}
				time.Sleep(20 * time.Millisecond)
				mu.Lock()
				a, cr := activates, creates
				mu.Unlock()
				srv.Close()
				emit(map[string]interface{}{"case": c, "outcome": res.Outcome, "err": res.Err, "obs": res.Obs, "panic": res.Panic, "where": res.Where,
					"activates": a, "creates": cr})
			}
			if p != nil {
				p.kill()
			}
		}()
	}
	for i, c := range cfgs {
		ch <- &Case{ID: i, Op: "c22", P: map[string]int{"mode": c.mode, "chain": c.chain, "sr": c.sr}, S: map[string]string{"policy": c.policy, "sig": c.sig, "keys": keys}}
	}
	close(ch)
	wg.Wait()
}

// child side
func runC22(cs *Case) (res Result) {
	res.ID = cs.ID
	keys := cs.S["keys"]
	srvCert, _, _ := scriptsrv.KeyPair(keys, "server", 2048)
	cliCert, cliKey, err := scriptsrv.KeyPair(keys, "client", 2048)
	if err != nil {
		res.Outcome, res.Err = "harness-error", err.Error()
		return
	}
	mode := ua.MessageSecurityMode(cs.P["mode"])
	opts := []opcua.Option{
		opcua.AutoReconnect(false),
		opcua.RequestTimeout(3 * time.Second),
		opcua.DialTimeout(2 * time.Second),
		opcua.SecurityMode(mode),
		opcua.SecurityPolicy(cs.S["policy"]),
		opcua.AuthAnonymous(),
	}
	if mode != ua.MessageSecurityModeNone {
		cert := cliCert
		if cs.P["chain"] == 1 {
			// the application instance certificate followed by its issuer: a chain of two DER certificates
			ca, _, _ := scriptsrv.KeyPair(keys, "other", 2048)
			cert = append(append([]byte{}, cliCert...), ca...)
		}
		opts = append(opts, opcua.Certificate(cert), opcua.PrivateKey(cliKey), opcua.RemoteCertificate(srvCert))
	}
	var states []int
	var mu sync.Mutex
	opts = append(opts, opcua.StateChangedFunc(func(s opcua.ConnState) {
		mu.Lock()
		states = append(states, int(s))
		mu.Unlock()
	}))
	c, err := opcua.NewClient(cs.URL, opts...)
	if err != nil {
		res.Outcome, res.Err = "harness-error", err.Error()
		return
	}
	ctx, cancel := context.WithTimeout(context.Background(), 15*time.Second)
	defer cancel()
	err = c.Connect(ctx)
	st := c.State()
	sess := c.Session() != nil
	mu.Lock()
	res.Obs = []string{fmt.Sprintf("state=%d", int(st)), fmt.Sprintf("session=%v", sess), fmt.Sprintf("states=%v", states)}
	mu.Unlock()
	if err != nil {
		res.Outcome, res.Err = "error", err.Error()
	} else {
		res.Outcome = "value"
		c.Close(ctx)
	}
	return
}
