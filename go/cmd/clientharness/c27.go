package main

// C27: subscription API calls and the publish loop never deadlock.
// A program = API operations (Subscribe id / Forget id / Cancel id) started concurrently with seeded delays against a
// scripted server that answers publish requests according to a script (ok / error / withheld). One child process per
// program (blocked goroutines cannot be recovered). Observation at quiescence: which operations returned, whether a
// publish request is outstanding, which subscription ids the client holds (if subMux can still be taken).

import (
	"context"
	"encoding/json"
	"fmt"
	"os"
	"sort"
	"strings"
	"sync"
	"sync/atomic"
	"time"

	"github.com/gopcua/opcua"
	"github.com/gopcua/opcua/ua"

	"verifharness/internal/rng"
	"verifharness/internal/scriptsrv"
)

// Case.L = ops: pairs (kind, id): 0 Subscribe, 1 Forget, 2 Cancel (Forget + DeleteSubscriptions) ; Case.P["nscript"], script in S["script"] as "oe" letters
// (o = answered with a keep-alive, e = answered with a ServiceFault); P["delay<i>"] start delay of op i (ms), P["pdelay<k>"] answer delay of publish k.

type c27srv struct {
	mu        sync.Mutex
	script    string
	pubs      int
	answered  int
	held      int
	delays    []int
	releaseCh chan struct{}
}

func (s *c27srv) handle(c *scriptsrv.Conn, reqID uint32, r ua.Request) (ua.Response, bool) {
	hdr := func() *ua.ResponseHeader { return scriptsrv.Hdr(r, ua.StatusOK) }
	switch req := r.(type) {
	case *ua.CreateSubscriptionRequest:
		id := uint32(req.RequestedPublishingInterval) - 1000
		return &ua.CreateSubscriptionResponse{ResponseHeader: hdr(), SubscriptionID: id, RevisedPublishingInterval: 100, RevisedLifetimeCount: 100, RevisedMaxKeepAliveCount: 10}, true
	case *ua.DeleteSubscriptionsRequest:
		return &ua.DeleteSubscriptionsResponse{ResponseHeader: hdr(), Results: statuses(len(req.SubscriptionIDs), 0), DiagnosticInfos: []*ua.DiagnosticInfo{}}, true
	case *ua.PublishRequest:
		s.mu.Lock()
		k := s.pubs
		s.pubs++
		if k >= len(s.script) {
			s.held++
			s.mu.Unlock()
			return nil, true // withheld for the rest of the case
		}
		kind := s.script[k]
		d := 0
		if k < len(s.delays) {
			d = s.delays[k]
		}
		s.mu.Unlock()
		go func() {
			if kind == 'O' || kind == 'E' || kind == 'B' || kind == 'D' {
				<-s.releaseCh // answered only when the harness says so (after the API calls have been issued)
			} else {
				time.Sleep(time.Duration(d) * time.Millisecond)
			}
			var resp ua.Response
			if kind == 'd' || kind == 'D' {
				// a data change notification for subscription 1
				resp = &ua.PublishResponse{ResponseHeader: hdr(), SubscriptionID: 1, AvailableSequenceNumbers: []uint32{},
					NotificationMessage: &ua.NotificationMessage{SequenceNumber: uint32(k + 1), PublishTime: time.Now(), NotificationData: []*ua.ExtensionObject{dataChange()}},
					Results:             []ua.StatusCode{}, DiagnosticInfos: []*ua.DiagnosticInfo{}}
			} else if kind == 'o' || kind == 'O' {
				resp = &ua.PublishResponse{ResponseHeader: hdr(), SubscriptionID: 1, AvailableSequenceNumbers: []uint32{},
					NotificationMessage: &ua.NotificationMessage{SequenceNumber: uint32(k + 1), PublishTime: time.Now(), NotificationData: []*ua.ExtensionObject{}},
					Results:             []ua.StatusCode{}, DiagnosticInfos: []*ua.DiagnosticInfo{}}
			} else if kind == 'B' {
				// a PublishResponse (not a fault) with a Bad ServiceResult that publish() does not special-case and
				// SubscriptionID 0: the error concerns all subscriptions (notifyAllSubscriptionsOfError)
				h := hdr()
				h.ServiceResult = ua.StatusBadInternalError
				resp = &ua.PublishResponse{ResponseHeader: h, SubscriptionID: 0, AvailableSequenceNumbers: []uint32{},
					NotificationMessage: &ua.NotificationMessage{PublishTime: time.Now(), NotificationData: []*ua.ExtensionObject{}},
					Results:             []ua.StatusCode{}, DiagnosticInfos: []*ua.DiagnosticInfo{}}
			} else {
				resp = scriptsrv.Fault(r, ua.StatusBadInternalError)
			}
			c.Send(reqID, resp)
			s.mu.Lock()
			s.answered++
			s.mu.Unlock()
		}()
		return nil, true
	}
	return nil, false
}

type c27obs struct {
	Case        *Case  `json:"case"`
	Done        []bool `json:"done"`
	APIDone     []bool `json:"api_done"` // the API call of the operation returned (a consumer may still wait for a notification)
	Outstanding bool   `json:"outstanding"`
	Subs        []int  `json:"subs"`
	SubsBlocked bool   `json:"subs_blocked"`
	Pubs        int    `json:"pubs"`
	Err         string `json:"err,omitempty"`
}

// c27Stress: many subscriptions, several goroutines that keep write-locking subMux (ForgetSubscription of ids that
// are not registered), and a publish answer that concerns ALL subscriptions arriving in the middle. Every call must
// keep returning. Done[i] = writer i returned after it was told to stop.
func c27Stress(cs *Case, c *opcua.Client, sv *c27srv, ob *c27obs) {
	ctx := context.Background()
	notifs := make(chan *opcua.PublishNotificationData, 4096)
	go func() {
		for range notifs {
		}
	}()
	for id := 1; id <= cs.P["nsubs"]; id++ {
		if _, err := c.Subscribe(ctx, &opcua.SubscriptionParameters{Interval: time.Duration(1000+id) * time.Millisecond}, notifs); err != nil {
			ob.Err = err.Error()
			return
		}
	}
	time.Sleep(200 * time.Millisecond) // the publish request is out
	nw := cs.P["writers"]
	done := make([]bool, nw)
	var mu sync.Mutex
	var stop int32
	for w := 0; w < nw; w++ {
		go func(w int) {
			for atomic.LoadInt32(&stop) == 0 {
				c.ForgetSubscription(ctx, uint32(100000+w))
			}
			mu.Lock()
			done[w] = true
			mu.Unlock()
		}(w)
	}
	time.Sleep(50 * time.Millisecond)
	close(sv.releaseCh)
	time.Sleep(400 * time.Millisecond)
	atomic.StoreInt32(&stop, 1)
	time.Sleep(1500 * time.Millisecond)
	mu.Lock()
	ob.Done = append([]bool(nil), done...)
	mu.Unlock()
	sv.mu.Lock()
	ob.Pubs = sv.pubs
	ob.Outstanding = sv.held > 0
	sv.mu.Unlock()
	idsCh := make(chan []uint32, 1)
	go func() { idsCh <- c.SubscriptionIDs() }()
	select {
	case ids := <-idsCh:
		for _, x := range ids {
			ob.Subs = append(ob.Subs, int(x))
		}
		sort.Ints(ob.Subs)
	case <-time.After(1500 * time.Millisecond):
		ob.SubsBlocked = true
	}
	if ob.Subs == nil {
		ob.Subs = []int{}
	}
}

// c27Run executes one program in THIS process (the caller runs it in a child).
func c27Run(cs *Case) c27obs {
	ob := c27obs{Case: cs}
	script := cs.S["script"]
	sv := &c27srv{script: script, releaseCh: make(chan struct{})}
	for k := 0; k < len(script); k++ {
		sv.delays = append(sv.delays, cs.P[fmt.Sprintf("pdelay%d", k)])
	}
	srv, err := scriptsrv.New(nil, nil, sv.handle)
	if err != nil {
		ob.Err = err.Error()
		return ob
	}
	c, err := opcua.NewClient(srv.URL, opcua.SecurityMode(ua.MessageSecurityModeNone), opcua.AutoReconnect(false),
		opcua.RequestTimeout(60*time.Second), opcua.DialTimeout(2*time.Second))
	if err != nil {
		ob.Err = err.Error()
		return ob
	}
	ctx := context.Background()
	if err := c.Connect(ctx); err != nil {
		ob.Err = err.Error()
		return ob
	}
	if cs.S["kind"] == "stress" {
		c27Stress(cs, c, sv, &ob)
		return ob
	}
	nops := len(cs.L) / 2
	done := make([]bool, nops)
	var mu sync.Mutex
	subsByID := map[int]*opcua.Subscription{}
	// the application reads Notifs only in its consumer operations (kind 3): the channel is unbuffered then
	nbuf := 1024
	if strings.ContainsAny(script, "dD") {
		nbuf = 0
	}
	notifs := make(chan *opcua.PublishNotificationData, nbuf)
	apiDone := make([]bool, nops)
	var wg sync.WaitGroup
	runOp := func(i int) {
		kind, id := cs.L[2*i], cs.L[2*i+1]
		time.Sleep(time.Duration(cs.P[fmt.Sprintf("delay%d", i)]) * time.Millisecond)
		switch kind {
		case 0:
			sub, err := c.Subscribe(ctx, &opcua.SubscriptionParameters{Interval: time.Duration(1000+id) * time.Millisecond}, notifs)
			if err == nil {
				mu.Lock()
				subsByID[id] = sub
				mu.Unlock()
			}
		case 1:
			c.ForgetSubscription(ctx, uint32(id))
		case 2:
			mu.Lock()
			sub := subsByID[id]
			mu.Unlock()
			if sub != nil {
				sub.Cancel(ctx)
			} else {
				c.ForgetSubscription(ctx, uint32(id))
			}
		case 3:
			// the consumer: it first asks the client which subscriptions it holds, then receives
			c.SubscriptionIDs()
			mu.Lock()
			apiDone[i] = true
			mu.Unlock()
			<-notifs
		}
		mu.Lock()
		done[i] = true
		apiDone[i] = true
		mu.Unlock()
	}
	// sequential prefix: ops before the marker P["seq"] run one after the other (set-up), the rest concurrently
	seq := cs.P["seq"]
	for i := 0; i < seq && i < nops; i++ {
		runOp(i)
	}
	if seq > 0 {
		time.Sleep(150 * time.Millisecond) // let the publish loop send its request
	}
	for i := seq; i < nops; i++ {
		wg.Add(1)
		go func(i int) { defer wg.Done(); runOp(i) }(i)
	}
	// give the concurrent calls time to run (or block), then release the answers that were held back
	time.Sleep(time.Duration(300+cs.P["settle"]) * time.Millisecond)
	close(sv.releaseCh)
	// quiescence: nothing changes for 500 ms
	last := ""
	stable := 0
	for stable < 5 {
		time.Sleep(100 * time.Millisecond)
		mu.Lock()
		sv.mu.Lock()
		cur := fmt.Sprint(done, sv.pubs, sv.answered)
		sv.mu.Unlock()
		mu.Unlock()
		if cur == last {
			stable++
		} else {
			stable, last = 0, cur
		}
	}
	mu.Lock()
	ob.Done = append([]bool(nil), done...)
	ob.APIDone = append([]bool(nil), apiDone...)
	mu.Unlock()
	sv.mu.Lock()
	ob.Pubs = sv.pubs
	ob.Outstanding = sv.held > 0
	sv.mu.Unlock()
	idsCh := make(chan []uint32, 1)
	go func() { idsCh <- c.SubscriptionIDs() }()
	select {
	case ids := <-idsCh:
		for _, x := range ids {
			ob.Subs = append(ob.Subs, int(x))
		}
		sort.Ints(ob.Subs)
	case <-time.After(700 * time.Millisecond):
		ob.SubsBlocked = true
	}
	if ob.Subs == nil {
		ob.Subs = []int{}
	}
	return ob
}

func c27Gen(r *rng.R, i int) *Case {
	c := &Case{ID: i, Op: "c27", P: map[string]int{}, S: map[string]string{}}
	// set-up: Subscribe 1 (sequential), then 2..4 concurrent operations over ids {1,2}
	c.L = []int{0, 1}
	c.P["seq"] = 1
	n := r.Range(2, 3)
	if i%3 == 0 {
		n = r.Range(1, 2) // a consumer goroutine is added below
	}
	for k := 0; k < n; k++ {
		kind := r.Pick(0, 1, 1, 2)
		c.L = append(c.L, kind, r.Pick(1, 1, 2))
		c.P[fmt.Sprintf("delay%d", k+1)] = r.Intn(40)
	}
	// the first publish answer is held until the calls have been issued (O/E), later ones are answered after a delay
	sc := ""
	m := r.Range(0, 2)
	for k := 0; k < m; k++ {
		if k == 0 {
			sc += "O"
		} else {
			sc += "o"
		}
		c.P[fmt.Sprintf("pdelay%d", k)] = r.Intn(60)
	}
	// one program in three has a consumer goroutine and data notifications
	if i%3 == 0 {
		c.L = append(c.L, 3, 0)
		c.P[fmt.Sprintf("delay%d", len(c.L)/2-1)] = r.Intn(40)
		if sc == "" {
			sc = "D"
		} else {
			sc = "D" + strings.Repeat("d", len(sc)-1)
		}
	}
	c.S["script"] = sc
	c.P["settle"] = r.Intn(100)
	return c
}

func c27Main(seed uint64, n int, replay string) {
	if os.Getenv("C27_CHILD") == "1" {
		var cs Case
		if err := json.NewDecoder(os.Stdin).Decode(&cs); err != nil {
			os.Exit(2)
		}
		ob := c27Run(&cs)
		json.NewEncoder(os.Stdout).Encode(ob)
		os.Exit(0)
	}
	r := rng.New(seed)
	var cases []*Case
	if replay != "" {
		b, _ := os.ReadFile(replay)
		var rp struct {
			Case *Case `json:"case"`
		}
		if json.Unmarshal(b, &rp) != nil || rp.Case == nil {
			fmt.Fprintln(os.Stderr, "replay file has no case")
			os.Exit(2)
		}
		cases = []*Case{rp.Case}
	} else {
		// the witness of the (fixed) deadlock first: Subscribe 1; three Cancels of it while the publish answer is held
		cases = append(cases, &Case{ID: 0, Op: "c27", L: []int{0, 1, 2, 1, 2, 1, 2, 1}, P: map[string]int{"seq": 1, "delay2": 30, "delay3": 60}, S: map[string]string{"script": "O"}})
		cases = append(cases, &Case{ID: 1, Op: "c27", L: []int{0, 1, 0, 2, 0, 3, 0, 4}, P: map[string]int{"seq": 1}, S: map[string]string{"script": "O"}})
		// the consumer calls the API while the loop wants to hand it a notification
		cases = append(cases, &Case{ID: len(cases), Op: "c27", L: []int{0, 1, 3, 0}, P: map[string]int{"seq": 1, "settle": 300}, S: map[string]string{"script": "D"}})
		cases = append(cases, &Case{ID: len(cases), Op: "c27", L: []int{0, 1, 3, 0, 1, 1}, P: map[string]int{"seq": 1, "settle": 300, "delay2": 10}, S: map[string]string{"script": "D"}})
		// a publish error for all subscriptions while several goroutines keep write-locking subMux
		for k := 0; k < 3; k++ {
			cases = append(cases, &Case{ID: len(cases), Op: "c27", P: map[string]int{"nsubs": 48, "writers": 4}, S: map[string]string{"script": "B", "kind": "stress"}})
		}
		for i := len(cases); i < n; i++ {
			cases = append(cases, c27Gen(r, i))
		}
	}
	exe, _ := os.Executable()
	const workers = 6
	var wg sync.WaitGroup
	ch := make(chan *Case)
	for w := 0; w < workers; w++ {
		wg.Add(1)
		go func() {
			defer wg.Done()
			for c := range ch {
				b, _ := json.Marshal(c)
				p := startCmd(exe, []string{"c27"}, []string{"C27_CHILD=1"}, b, 60*time.Second)
				var ob c27obs
				if err := json.Unmarshal(p.stdout, &ob); err != nil {
					msg, where := parsePanic(string(p.stderr))
					emit(map[string]interface{}{"case": c, "err": "child failed", "panic": msg, "where": where})
					continue
				}
				emit(ob)
			}
		}()
	}
	for _, c := range cases {
		ch <- c
	}
	close(ch)
	wg.Wait()
}
