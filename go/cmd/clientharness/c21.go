package main

// C21: client calls never panic on any well-formed (decodable) server response.
// The parent generates response SHAPES (array lengths, nil-ness, variant kinds, status codes, response kinds),
// hosts a scripted server per case that answers with exactly that shape, and runs the client operation in a child
// process. Observation = shape + outcome class {value, error, panic, hang}.

import (
	"context"
	"encoding/json"
	"fmt"
	"os"
	"sync"
	"sync/atomic"
	"time"

	"github.com/gopcua/opcua"
	"github.com/gopcua/opcua/id"
	"github.com/gopcua/opcua/monitor"
	"github.com/gopcua/opcua/ua"

	"verifharness/internal/rng"
	"verifharness/internal/scriptsrv"
)

// ---------------------------------------------------------------------------------------------------------
// response construction from shapes

func eoNil() *ua.ExtensionObject { return ua.NewExtensionObject(nil) }

func variantOf(vk int) *ua.Variant {
	switch vk {
	case 0:
		return &ua.Variant{} // Null variant: decodes to a non-nil *Variant whose Value() is nil
	case 1:
		return ua.MustVariant(&ua.QualifiedName{NamespaceIndex: 1, Name: "bn"})
	case 2:
		return ua.MustVariant(ua.NewLocalizedText("text"))
	case 3:
		return ua.MustVariant(uint8(3))
	case 4:
		return ua.MustVariant(int32(2))
	case 5:
		return ua.MustVariant([]string{"http://opcfoundation.org/UA/", "urn:x"})
	case 6:
		return ua.MustVariant([]int32{})
	case 7:
		return ua.MustVariant([]int32{1, 2})
	case 8:
		return ua.MustVariant("str")
	case 9:
		return ua.MustVariant([]*ua.ExtensionObject{eoNil(), eoNil()})
	}
	return ua.MustVariant(int32(0))
}

const nVK = 10

func dataValue(hasval, vk, stbad int) *ua.DataValue {
	dv := &ua.DataValue{}
	if hasval == 1 {
		dv.EncodingMask |= ua.DataValueValue
		dv.Value = variantOf(vk)
	}
	if stbad == 1 {
		dv.EncodingMask |= ua.DataValueStatusCode
		dv.Status = ua.StatusBadNodeIDUnknown
	}
	return dv
}

func refDesc(i int) *ua.ReferenceDescription {
	return &ua.ReferenceDescription{
		ReferenceTypeID: ua.NewNumericNodeID(0, id.HasComponent),
		IsForward:       true,
		NodeID:          ua.NewExpandedNodeID(ua.NewNumericNodeID(1, uint32(100+i)), "", 0),
		BrowseName:      &ua.QualifiedName{Name: "n"},
		DisplayName:     ua.NewLocalizedText("n"),
		NodeClass:       ua.NodeClassVariable,
		TypeDefinition:  ua.NewExpandedNodeID(ua.NewNumericNodeID(0, 63), "", 0),
	}
}

func browseResults(n, cp int) []*ua.BrowseResult {
	r := make([]*ua.BrowseResult, n)
	for i := range r {
		r[i] = &ua.BrowseResult{StatusCode: ua.StatusOK, References: []*ua.ReferenceDescription{refDesc(i)}}
		if cp == 1 {
			r[i].ContinuationPoint = []byte{1, 2, 3}
		}
	}
	return r
}

// wrap applies the response kind: 0 expected, 1 ServiceFault, 2 expected type with a bad ServiceResult,
// 3 a response of another type (status Good).
func wrap(kind int, req ua.Request, resp ua.Response) ua.Response {
	switch kind {
	case 1:
		return scriptsrv.Fault(req, ua.StatusBadInternalError)
	case 2:
		resp.Header().ServiceResult = ua.StatusBadInternalError
		return resp
	case 3:
		if _, ok := resp.(*ua.WriteResponse); ok {
			return &ua.RegisterNodesResponse{ResponseHeader: scriptsrv.Hdr(req, ua.StatusOK), RegisteredNodeIDs: []*ua.NodeID{}}
		}
		return &ua.WriteResponse{ResponseHeader: scriptsrv.Hdr(req, ua.StatusOK), Results: []ua.StatusCode{}, DiagnosticInfos: []*ua.DiagnosticInfo{}}
	}
	return resp
}

func statuses(n int, badmask int) []ua.StatusCode {
	r := make([]ua.StatusCode, n)
	for i := range r {
		if badmask&(1<<i) != 0 {
			r[i] = ua.StatusBadInternalError
		}
	}
	return r
}

func createResults(n, badmask, base int) []*ua.MonitoredItemCreateResult {
	r := make([]*ua.MonitoredItemCreateResult, n)
	for i := range r {
		r[i] = &ua.MonitoredItemCreateResult{MonitoredItemID: uint32(base + i + 1), RevisedQueueSize: 1, FilterResult: eoNil()}
		if badmask&(1<<i) != 0 {
			r[i].StatusCode = ua.StatusBadNodeIDUnknown
		}
	}
	return r
}

func dataChange() *ua.ExtensionObject {
	return ua.NewExtensionObject(&ua.DataChangeNotification{
		MonitoredItems:  []*ua.MonitoredItemNotification{{ClientHandle: 1, Value: dataValue(1, 4, 0)}},
		DiagnosticInfos: []*ua.DiagnosticInfo{},
	})
}

func notifData(kind int) *ua.ExtensionObject {
	switch kind {
	case 0:
		return dataChange()
	case 1:
		return ua.NewExtensionObject(&ua.StatusChangeNotification{Status: ua.StatusGoodSubscriptionTransferred, DiagnosticInfo: &ua.DiagnosticInfo{}})
	case 2:
		return eoNil() // ExtensionObject without a body: Value == nil
	case 3:
		return ua.NewExtensionObject(&ua.Argument{Name: "a", DataType: ua.NewNumericNodeID(0, 1), ArrayDimensions: []uint32{}, Description: ua.NewLocalizedText("")}) // registered type, not a notification
	}
	return dataChange()
}

// ---------------------------------------------------------------------------------------------------------
// the scripted server for one case

type c21srv struct {
	c        *Case
	srv      *scriptsrv.Server
	mu       sync.Mutex
	reads    int
	nexts    int
	pubs     int32
	creates  int
	subs     uint32
	armed    bool
	sessions int
	pubHold  []pubReq
}

type pubReq struct {
	conn  *scriptsrv.Conn
	reqID uint32
	req   ua.Request
}

func (s *c21srv) p(k string) int { return s.c.P[k] }

func (s *c21srv) handle(c *scriptsrv.Conn, reqID uint32, r ua.Request) (ua.Response, bool) {
	s.mu.Lock()
	defer s.mu.Unlock()
	op := s.c.Op
	hdr := func() *ua.ResponseHeader { return scriptsrv.Hdr(r, ua.StatusOK) }
	switch req := r.(type) {
	case *ua.ReadRequest:
		// harness control channel: namespace 9
		if len(req.NodesToRead) == 1 && req.NodesToRead[0].NodeID.Namespace() == 9 {
			switch req.NodesToRead[0].NodeID.IntID() {
			case 1: // how many publish requests has the server seen
				return &ua.ReadResponse{ResponseHeader: hdr(), Results: []*ua.DataValue{{EncodingMask: ua.DataValueValue, Value: ua.MustVariant(int32(atomic.LoadInt32(&s.pubs)))}}}, true
			case 2: // drop every connection now
				go func() { time.Sleep(20 * time.Millisecond); s.srv.DropAll() }()
				s.armed = true
				return &ua.ReadResponse{ResponseHeader: hdr(), Results: []*ua.DataValue{{EncodingMask: ua.DataValueValue, Value: ua.MustVariant(int32(0))}}}, true
			}
		}
		s.reads++
		shaped := (op == "attr" && s.reads >= 2) || (op == "connect" && s.reads == 1) || (op == "simple" && (s.p("which") == 0 || s.p("which") == 9) && s.reads >= 2)
		if !shaped {
			return nil, false
		}
		n := s.p("nres")
		res := make([]*ua.DataValue, n)
		for i := range res {
			if i == 0 {
				res[i] = dataValue(s.p("hasval"), s.p("vk"), s.p("stbad"))
			} else {
				res[i] = dataValue(1, 4, 0)
			}
		}
		return wrap(s.p("kind"), r, &ua.ReadResponse{ResponseHeader: hdr(), Results: res, DiagnosticInfos: []*ua.DiagnosticInfo{}}), true

	case *ua.BrowseRequest:
		if op == "refs" {
			return wrap(s.c.L[0], r, &ua.BrowseResponse{ResponseHeader: hdr(), Results: browseResults(s.c.L[1], s.c.L[2]), DiagnosticInfos: []*ua.DiagnosticInfo{}}), true
		}
		return wrap(s.p("kind"), r, &ua.BrowseResponse{ResponseHeader: hdr(), Results: browseResults(s.p("nres"), 0), DiagnosticInfos: []*ua.DiagnosticInfo{}}), true

	case *ua.BrowseNextRequest:
		if op == "refs" {
			s.nexts++
			k := 3 * s.nexts
			if k+2 >= len(s.c.L) {
				return scriptsrv.Fault(r, ua.StatusBadContinuationPointInvalid), true
			}
			return wrap(s.c.L[k], r, &ua.BrowseNextResponse{ResponseHeader: hdr(), Results: browseResults(s.c.L[k+1], s.c.L[k+2]), DiagnosticInfos: []*ua.DiagnosticInfo{}}), true
		}
		return wrap(s.p("kind"), r, &ua.BrowseNextResponse{ResponseHeader: hdr(), Results: browseResults(s.p("nres"), 0), DiagnosticInfos: []*ua.DiagnosticInfo{}}), true

	case *ua.CallRequest:
		res := make([]*ua.CallMethodResult, s.p("nres"))
		for i := range res {
			res[i] = &ua.CallMethodResult{InputArgumentResults: []ua.StatusCode{}, InputArgumentDiagnosticInfos: []*ua.DiagnosticInfo{}, OutputArguments: []*ua.Variant{}}
		}
		return wrap(s.p("kind"), r, &ua.CallResponse{ResponseHeader: hdr(), Results: res, DiagnosticInfos: []*ua.DiagnosticInfo{}}), true

	case *ua.TranslateBrowsePathsToNodeIDsRequest:
		res := make([]*ua.BrowsePathResult, s.p("nres"))
		for i := range res {
			res[i] = &ua.BrowsePathResult{Targets: []*ua.BrowsePathTarget{}}
			if i == 0 {
				if s.p("stbad") == 1 {
					res[i].StatusCode = ua.StatusBadNoMatch
				}
				for j := 0; j < s.p("ntargets"); j++ {
					res[i].Targets = append(res[i].Targets, &ua.BrowsePathTarget{TargetID: ua.NewExpandedNodeID(ua.NewNumericNodeID(1, 7), "", 0)})
				}
			}
		}
		return wrap(s.p("kind"), r, &ua.TranslateBrowsePathsToNodeIDsResponse{ResponseHeader: hdr(), Results: res, DiagnosticInfos: []*ua.DiagnosticInfo{}}), true

	case *ua.WriteRequest:
		return wrap(s.p("kind"), r, &ua.WriteResponse{ResponseHeader: hdr(), Results: statuses(s.p("nres"), 0), DiagnosticInfos: []*ua.DiagnosticInfo{}}), true
	case *ua.RegisterNodesRequest:
		return wrap(s.p("kind"), r, &ua.RegisterNodesResponse{ResponseHeader: hdr(), RegisteredNodeIDs: []*ua.NodeID{}}), true
	case *ua.UnregisterNodesRequest:
		return wrap(s.p("kind"), r, &ua.UnregisterNodesResponse{ResponseHeader: hdr()}), true
	case *ua.HistoryReadRequest:
		return wrap(s.p("kind"), r, &ua.HistoryReadResponse{ResponseHeader: hdr(), Results: []*ua.HistoryReadResult{}, DiagnosticInfos: []*ua.DiagnosticInfo{}}), true
	case *ua.FindServersRequest:
		return wrap(s.p("kind"), r, &ua.FindServersResponse{ResponseHeader: hdr(), Servers: []*ua.ApplicationDescription{}}), true
	case *ua.GetEndpointsRequest:
		return wrap(s.p("kind"), r, &ua.GetEndpointsResponse{ResponseHeader: hdr(), Endpoints: []*ua.EndpointDescription{}}), true

	case *ua.CreateSessionRequest:
		s.sessions++
		if op == "connect" && s.p("cskind") != 0 {
			return wrap(s.p("cskind"), r, s.srv.Default(c, r)), true
		}
		return nil, false
	case *ua.ActivateSessionRequest:
		if op == "transfer" && s.armed && s.sessions == 1 {
			// the old session is gone after the drop: the client must create a new one
			return scriptsrv.Fault(r, ua.StatusBadSessionIDInvalid), true
		}
		return nil, false

	case *ua.CreateSubscriptionRequest:
		s.subs++
		sid := s.subs
		resp := &ua.CreateSubscriptionResponse{ResponseHeader: hdr(), SubscriptionID: sid, RevisedPublishingInterval: 100, RevisedLifetimeCount: 100, RevisedMaxKeepAliveCount: 10}
		if op == "simple" && s.p("which") == 10 {
			if s.p("subid0") == 1 {
				resp.SubscriptionID = 0
			}
			return wrap(s.p("kind"), r, resp), true
		}
		return resp, true
	case *ua.ModifySubscriptionRequest:
		return wrap(s.p("kind"), r, &ua.ModifySubscriptionResponse{ResponseHeader: hdr(), RevisedPublishingInterval: 100, RevisedLifetimeCount: 100, RevisedMaxKeepAliveCount: 10}), true
	case *ua.DeleteSubscriptionsRequest:
		if op == "cancel" {
			return wrap(s.p("kind"), r, &ua.DeleteSubscriptionsResponse{ResponseHeader: hdr(), Results: statuses(s.p("nres"), s.p("stbad")), DiagnosticInfos: []*ua.DiagnosticInfo{}}), true
		}
		return &ua.DeleteSubscriptionsResponse{ResponseHeader: hdr(), Results: statuses(len(req.SubscriptionIDs), 0), DiagnosticInfos: []*ua.DiagnosticInfo{}}, true

	case *ua.CreateMonitoredItemsRequest:
		s.creates++
		shaped := op == "monitor" || op == "monadd" || (op == "transfer" && s.armed)
		if shaped {
			return wrap(s.p("kind"), r, &ua.CreateMonitoredItemsResponse{ResponseHeader: hdr(), Results: createResults(s.p("nres"), s.p("stmask"), 10*s.creates), DiagnosticInfos: []*ua.DiagnosticInfo{}}), true
		}
		return &ua.CreateMonitoredItemsResponse{ResponseHeader: hdr(), Results: createResults(len(req.ItemsToCreate), 0, 0), DiagnosticInfos: []*ua.DiagnosticInfo{}}, true
	case *ua.ModifyMonitoredItemsRequest:
		res := make([]*ua.MonitoredItemModifyResult, s.p("nres"))
		for i := range res {
			res[i] = &ua.MonitoredItemModifyResult{RevisedQueueSize: 2, FilterResult: eoNil()}
			if s.p("stmask")&(1<<i) != 0 {
				res[i].StatusCode = ua.StatusBadMonitoredItemIDInvalid
			}
		}
		return wrap(s.p("kind"), r, &ua.ModifyMonitoredItemsResponse{ResponseHeader: hdr(), Results: res, DiagnosticInfos: []*ua.DiagnosticInfo{}}), true
	case *ua.DeleteMonitoredItemsRequest:
		return wrap(s.p("kind"), r, &ua.DeleteMonitoredItemsResponse{ResponseHeader: hdr(), Results: statuses(s.p("nres"), 0), DiagnosticInfos: []*ua.DiagnosticInfo{}}), true
	case *ua.SetMonitoringModeRequest:
		return wrap(s.p("kind"), r, &ua.SetMonitoringModeResponse{ResponseHeader: hdr(), Results: statuses(s.p("nres"), 0), DiagnosticInfos: []*ua.DiagnosticInfo{}}), true
	case *ua.SetTriggeringRequest:
		return wrap(s.p("kind"), r, &ua.SetTriggeringResponse{ResponseHeader: hdr(), AddResults: []ua.StatusCode{}, AddDiagnosticInfos: []*ua.DiagnosticInfo{}, RemoveResults: []ua.StatusCode{}, RemoveDiagnosticInfos: []*ua.DiagnosticInfo{}}), true

	case *ua.TransferSubscriptionsRequest:
		res := make([]*ua.TransferResult, s.p("tnres"))
		for i := range res {
			// AvailableSequenceNumbers relative to the client's next expected number (2 after one notification, else 1):
			// 0 empty, 1 contains it, 2 all lower, 3 all higher, 4 lower and higher without it
			avail := [][]uint32{{}, {1, 2, 3}, {1}, {5, 6}, {1, 5}}[s.p("avail")%5]
			res[i] = &ua.TransferResult{AvailableSequenceNumbers: avail}
			if s.p("tinvalid")&(1<<i) != 0 {
				res[i].StatusCode = ua.StatusBadSubscriptionIDInvalid
			}
		}
		k := s.p("tkind")
		if k == 4 {
			return scriptsrv.Fault(r, ua.StatusBadServiceUnsupported), true
		}
		return wrap(k, r, &ua.TransferSubscriptionsResponse{ResponseHeader: hdr(), Results: res, DiagnosticInfos: []*ua.DiagnosticInfo{}}), true
	case *ua.RepublishRequest:
		return scriptsrv.Fault(r, ua.StatusBadMessageNotAvailable), true

	case *ua.PublishRequest:
		n := int(atomic.AddInt32(&s.pubs, 1))
		if op == "transfer" && s.p("predata") == 1 && n == 1 {
			// one data notification for subscription 1 before the connection is dropped: the client expects number 2 next
			return &ua.PublishResponse{ResponseHeader: hdr(), SubscriptionID: 1, AvailableSequenceNumbers: []uint32{},
				NotificationMessage: &ua.NotificationMessage{SequenceNumber: 1, PublishTime: time.Now(), NotificationData: []*ua.ExtensionObject{dataChange()}},
				Results:             []ua.StatusCode{}, DiagnosticInfos: []*ua.DiagnosticInfo{}}, true
		}
		if op != "publish" {
			return nil, true // withheld: the publish loop stays parked in its request
		}
		// script: L = [kind, known, nacks, ndata, dkind, ...] per response
		k := 5 * (n - 1)
		if k+4 >= len(s.c.L) {
			return nil, true
		}
		kind, known, nacks, ndata, dkind := s.c.L[k], s.c.L[k+1], s.c.L[k+2], s.c.L[k+3], s.c.L[k+4]
		// nacks >= 10: the acknowledgement results are all a retryable status (the client keeps the acknowledgements)
		ackBad := 0
		if nacks >= 10 {
			nacks -= 10
			ackBad = 1<<30 - 1
		}
		sid := uint32(1)
		if known == 0 {
			sid = 77
		}
		nm := &ua.NotificationMessage{SequenceNumber: uint32(n), PublishTime: time.Now(), NotificationData: []*ua.ExtensionObject{}}
		for i := 0; i < ndata; i++ {
			nm.NotificationData = append(nm.NotificationData, notifData(dkind))
		}
		return wrap(kind, r, &ua.PublishResponse{ResponseHeader: hdr(), SubscriptionID: sid, AvailableSequenceNumbers: []uint32{}, NotificationMessage: nm,
			Results: statuses(nacks, ackBad), DiagnosticInfos: []*ua.DiagnosticInfo{}}), true
	}
	return nil, false
}

// ---------------------------------------------------------------------------------------------------------
// case generation

func c21Gen(r *rng.R, i int) *Case {
	c := &Case{ID: i, P: map[string]int{}}
	kind := func() int {
		if r.Intn(10) < 6 {
			return 0
		}
		return r.Range(1, 3)
	}
	ops := []string{"attr", "attr", "attr", "refs", "refs", "call", "translate", "monitor", "monitor", "monadd", "modify", "modify", "cancel", "simple", "publish", "publish", "transfer", "connect"}
	c.Op = ops[i%len(ops)]
	switch c.Op {
	case "attr":
		c.P["helper"] = r.Intn(9)
		c.P["kind"] = kind()
		c.P["nres"] = r.Pick(0, 1, 1, 1, 2)
		c.P["hasval"] = r.Pick(0, 1, 1, 1)
		c.P["vk"] = r.Intn(nVK)
		c.P["stbad"] = r.Pick(0, 0, 0, 1)
	case "connect":
		c.P["cskind"] = r.Pick(0, 0, 0, 1, 3)
		c.P["kind"] = kind()
		c.P["nres"] = r.Pick(0, 1, 1, 1, 2)
		c.P["hasval"] = r.Pick(0, 1, 1)
		c.P["vk"] = r.Pick(5, 5, 0, 4, 8, 6)
		c.P["stbad"] = r.Pick(0, 0, 0, 1)
	case "refs":
		c.L = []int{kind(), r.Pick(0, 1, 1, 2), r.Intn(2)}
		for k := r.Intn(4); k > 0; k-- {
			c.L = append(c.L, kind(), r.Pick(0, 1, 1, 2), r.Intn(2))
		}
	case "call":
		c.P["kind"] = kind()
		c.P["nres"] = r.Intn(3)
	case "translate":
		c.P["kind"] = kind()
		c.P["nres"] = r.Intn(3)
		c.P["stbad"] = r.Pick(0, 0, 1)
		c.P["ntargets"] = r.Intn(3)
	case "monitor", "monadd":
		c.P["kind"] = kind()
		c.P["nitems"] = r.Range(1, 3)
		c.P["nres"] = r.Intn(5)
		c.P["stmask"] = r.Pick(0, 0, r.Intn(8))
	case "modify":
		c.P["kind"] = kind()
		c.P["nhave"] = r.Range(1, 3)
		c.P["nmod"] = r.Range(1, c.P["nhave"])
		c.P["nres"] = r.Intn(5)
		c.P["stmask"] = r.Pick(0, 0, r.Intn(16))
	case "cancel":
		c.P["kind"] = kind()
		c.P["nres"] = r.Intn(3)
		c.P["stbad"] = r.Pick(0, 0, 1)
	case "simple":
		c.P["which"] = r.Intn(14)
		c.P["kind"] = kind()
		c.P["nres"] = r.Intn(3)
		c.P["subid0"] = r.Pick(0, 0, 1)
		if c.P["which"] == 0 {
			c.P["hasval"], c.P["vk"], c.P["stbad"] = r.Intn(2), r.Intn(nVK), r.Intn(2)
		}
	case "publish":
		for k := r.Range(1, 4); k > 0; k-- {
			kd := 0
			if k == 1 {
				kd = kind()
			}
			c.L = append(c.L, kd, r.Pick(1, 1, 1, 0), r.Intn(3)+r.Pick(0, 0, 10), r.Intn(3), r.Intn(4))
		}
	case "transfer":
		c.P["nsubs"] = r.Range(1, 2)
		c.P["nitems"] = r.Range(1, 2)
		c.P["tkind"] = r.Pick(0, 0, 0, 1, 3, 4)
		c.P["tnres"] = r.Intn(4)
		c.P["tinvalid"] = r.Intn(4)
		c.P["kind"] = kind()
		c.P["nres"] = r.Intn(4)
		c.P["stmask"] = r.Pick(0, 0, r.Intn(4))
		c.P["avail"] = r.Intn(5)
		c.P["predata"] = r.Intn(2)
	}
	return c
}

// c21Directed: boundary shapes that random generation reaches only with small probability: a well-shaped first
// response followed by an empty / short / long one at every later position of a multi-response operation.
func c21Directed() []*Case {
	var cs []*Case
	add := func(op string, p map[string]int, l []int) {
		if p == nil {
			p = map[string]int{}
		}
		cs = append(cs, &Case{ID: len(cs), Op: op, P: p, L: l})
	}
	// Browse with a continuation point, then k well-shaped BrowseNext answers, then one with n results (0, 1, 2)
	for k := 0; k <= 2; k++ {
		for _, n := range []int{0, 1, 2} {
			l := []int{0, 1, 1}
			for j := 0; j < k; j++ {
				l = append(l, 0, 1, 1)
			}
			l = append(l, 0, n, 0)
			add("refs", nil, l)
		}
	}
	add("refs", nil, []int{0, 0, 0})
	add("refs", nil, []int{0, 2, 1, 0, 0, 1})
	// result arrays one short / one long / empty against 1..3 requested items
	for ni := 1; ni <= 3; ni++ {
		for _, nr := range []int{0, ni - 1, ni, ni + 1} {
			if nr < 0 {
				continue
			}
			add("monitor", map[string]int{"nitems": ni, "nres": nr}, nil)
			add("monadd", map[string]int{"nitems": ni, "nres": nr}, nil)
			add("modify", map[string]int{"nhave": 3, "nmod": ni, "nres": nr}, nil)
			add("transfer", map[string]int{"nsubs": 1, "nitems": ni, "tkind": 0, "tnres": 1, "tinvalid": 1, "nres": nr}, nil)
		}
	}
	for _, nr := range []int{0, 1, 2} {
		add("cancel", map[string]int{"nres": nr}, nil)
		add("call", map[string]int{"nres": nr}, nil)
		for nt := 0; nt <= 1; nt++ {
			add("translate", map[string]int{"nres": nr, "ntargets": nt}, nil)
		}
		for ns := 1; ns <= 2; ns++ {
			add("transfer", map[string]int{"nsubs": ns, "nitems": 1, "tkind": 0, "tnres": nr + ns - 1, "tinvalid": 0, "nres": 1}, nil)
		}
	}
	// a transferred subscription is republished: AvailableSequenceNumbers empty / containing / all lower / all higher /
	// around the number the client expects next, after no or one received notification
	for pre := 0; pre <= 1; pre++ {
		for av := 0; av < 5; av++ {
			add("transfer", map[string]int{"nsubs": 1, "nitems": 1, "tkind": 0, "tnres": 1, "tinvalid": 0, "nres": 1, "avail": av, "predata": pre}, nil)
		}
	}
	// every helper on an absent value, a null value and an empty array
	for h := 0; h < 9; h++ {
		add("attr", map[string]int{"helper": h, "nres": 1, "hasval": 0}, nil)
		add("attr", map[string]int{"helper": h, "nres": 1, "hasval": 1, "vk": 0}, nil)
		add("attr", map[string]int{"helper": h, "nres": 1, "hasval": 1, "vk": 6}, nil)
		add("attr", map[string]int{"helper": h, "nres": 0}, nil)
	}
	// publish: acknowledgement results longer / shorter than the pending list, after a data notification
	add("publish", nil, []int{0, 1, 0, 1, 0, 0, 1, 0, 1, 0})
	add("publish", nil, []int{0, 1, 0, 1, 0, 0, 1, 2, 1, 0})
	add("publish", nil, []int{0, 1, 0, 2, 0, 0, 1, 3, 0, 0, 0, 1, 0, 1, 2})
	// two and three pending acknowledgements (an earlier one answered with a retryable status), then a result list
	// that is shorter but not empty / longer / empty
	for _, n := range []int{0, 1, 2, 3} {
		add("publish", nil, []int{0, 1, 0, 1, 0, 0, 1, 11, 1, 0, 0, 1, n, 1, 0, 0, 1, 0, 0, 0})
		add("publish", nil, []int{0, 1, 0, 1, 0, 0, 1, 11, 1, 0, 0, 1, 12, 1, 0, 0, 1, n, 1, 0, 0, 1, 0, 0, 0})
	}
	return cs
}

func c21Main(seed uint64, n int, replay string) {
	r := rng.New(seed)
	var cases []*Case
	if replay != "" {
		b, err := os.ReadFile(replay)
		if err != nil {
			fmt.Fprintln(os.Stderr, err)
			os.Exit(2)
		}
		var rp struct {
			Case *Case `json:"case"`
		}
		if err := json.Unmarshal(b, &rp); err != nil || rp.Case == nil {
			fmt.Fprintln(os.Stderr, "replay file has no case")
			os.Exit(2)
		}
		cases = []*Case{rp.Case}
	} else {
		cases = append(cases, c21Directed()...)
		for i := len(cases); i < n; i++ {
			cases = append(cases, c21Gen(r, i))
		}
	}
	// several children in parallel; each case has its own server
	const workers = 6
	var wg sync.WaitGroup
	ch := make(chan *Case)
	for w := 0; w < workers; w++ {
		wg.Add(1)
		go func() {
			defer wg.Done()
			var p *childProc
			for c := range ch {
				cs := &c21srv{c: c}
				srv, err := scriptsrv.New(nil, nil, cs.handle)
				if err != nil {
					emit(map[string]interface{}{"case": c, "outcome": "harness-error", "err": err.Error()})
					continue
				}
				cs.srv = srv
				c.URL = srv.URL
				if p == nil {
					p, err = startChild()
					if err != nil {
						fmt.Fprintln(os.Stderr, "cannot start child:", err)
						os.Exit(3)
					}
				}
				res, alive := p.run(c, 40*time.Second)
				if !alive {
					p = nil
				}
				srv.Close()
				// a set-up step (Connect / Subscribe / first Monitor) timing out on a loaded machine is not an observation
				// of the operation under test: run the case once more
				for try := 0; try < 2 && (res.Outcome == "setup-error" || res.Outcome == "hang"); try++ {
					cs = &c21srv{c: c}
					srv, err = scriptsrv.New(nil, nil, cs.handle)
					if err != nil {
						break
					}
					cs.srv = srv
					c.URL = srv.URL
					if p == nil {
						if p, err = startChild(); err != nil {
							break
						}
					}
					res, alive = p.run(c, 60*time.Second)
					if !alive {
						p = nil
					}
					srv.Close()
				}
				emit(map[string]interface{}{"case": c, "outcome": res.Outcome, "err": res.Err, "obs": res.Obs, "panic": res.Panic, "where": res.Where})
			}
			if p != nil {
				p.kill()
			}
		}()
	}
	for _, c := range cases {
		ch <- c
	}
	close(ch)
	wg.Wait()
}

// ---------------------------------------------------------------------------------------------------------
// child: the real client

func newClient(url string, reconnect bool, extra ...opcua.Option) (*opcua.Client, error) {
	opts := []opcua.Option{
		opcua.SecurityMode(ua.MessageSecurityModeNone),
		opcua.AutoReconnect(reconnect),
		opcua.ReconnectInterval(30 * time.Millisecond),
		opcua.RequestTimeout(4 * time.Second),
		opcua.DialTimeout(2 * time.Second),
	}
	opts = append(opts, extra...)
	return opcua.NewClient(url, opts...)
}

func ctlRead(ctx context.Context, c *opcua.Client, what uint32) (int, error) {
	res, err := c.Read(ctx, &ua.ReadRequest{NodesToRead: []*ua.ReadValueID{{NodeID: ua.NewNumericNodeID(9, what), AttributeID: ua.AttributeIDValue}}})
	if err != nil {
		return 0, err
	}
	if len(res.Results) == 1 && res.Results[0].Value != nil {
		if v, ok := res.Results[0].Value.Value().(int32); ok {
			return int(v), nil
		}
	}
	return 0, fmt.Errorf("bad control answer")
}

func itemsReq(n int) []*ua.MonitoredItemCreateRequest {
	var r []*ua.MonitoredItemCreateRequest
	for i := 0; i < n; i++ {
		r = append(r, opcua.NewMonitoredItemCreateRequestWithDefaults(ua.NewNumericNodeID(1, uint32(50+i)), ua.AttributeIDValue, uint32(i+1)))
	}
	return r
}

func runCase(cs *Case) (res Result) {
	res.ID = cs.ID
	ctx, cancel := context.WithTimeout(context.Background(), 20*time.Second)
	defer cancel()
	fin := func(err error) Result {
		if err != nil {
			res.Outcome, res.Err = "error", err.Error()
		} else {
			res.Outcome = "value"
		}
		return res
	}
	p := func(k string) int { return cs.P[k] }

	if cs.Op == "connect" {
		c, err := newClient(cs.URL, false)
		if err != nil {
			return fin(err)
		}
		err = c.Connect(ctx)
		if err == nil {
			c.Close(ctx)
		}
		return fin(err)
	}

	var states []opcua.ConnState
	var stMu sync.Mutex
	stateCh := make(chan opcua.ConnState, 64)
	c, err := newClient(cs.URL, cs.Op == "transfer", opcua.StateChangedFunc(func(s opcua.ConnState) {
		stMu.Lock()
		states = append(states, s)
		stMu.Unlock()
		select {
		case stateCh <- s:
		default:
		}
	}))
	if err != nil {
		res.Outcome, res.Err = "setup-error", err.Error()
		return
	}
	if err := c.Connect(ctx); err != nil {
		res.Outcome, res.Err = "setup-error", err.Error()
		return
	}
	defer c.Close(ctx)
	node := c.Node(ua.NewNumericNodeID(1, 5))

	switch cs.Op {
	case "attr":
		switch p("helper") {
		case 0:
			_, err = node.NodeClass(ctx)
		case 1:
			_, err = node.BrowseName(ctx)
		case 2:
			_, err = node.Description(ctx)
		case 3:
			_, err = node.DisplayName(ctx)
		case 4:
			_, err = node.AccessLevel(ctx)
		case 5:
			_, err = node.UserAccessLevel(ctx)
		case 6:
			_, err = node.Value(ctx)
		case 7:
			_, err = c.NamespaceArray(ctx)
		case 8:
			var sub *opcua.Subscription
			sub, err = c.Subscribe(ctx, nil, make(chan *opcua.PublishNotificationData, 16))
			if err != nil {
				res.Outcome, res.Err = "setup-error", err.Error()
				return
			}
			_, err = sub.Stats(ctx)
		}
		return fin(err)
	case "refs":
		_, err = node.ReferencedNodes(ctx, 0, ua.BrowseDirectionForward, ua.NodeClassAll, true)
		return fin(err)
	case "call":
		_, err = c.Call(ctx, &ua.CallMethodRequest{ObjectID: ua.NewNumericNodeID(1, 1), MethodID: ua.NewNumericNodeID(1, 2), InputArguments: []*ua.Variant{}})
		return fin(err)
	case "translate":
		_, err = node.TranslateBrowsePathInNamespaceToNodeID(ctx, 1, "a.b")
		return fin(err)
	case "simple":
		switch p("which") {
		case 0:
			_, err = c.Read(ctx, &ua.ReadRequest{NodesToRead: []*ua.ReadValueID{{NodeID: node.ID}}})
		case 1:
			_, err = c.Write(ctx, &ua.WriteRequest{NodesToWrite: []*ua.WriteValue{{NodeID: node.ID, AttributeID: ua.AttributeIDValue, Value: dataValue(1, 4, 0)}}})
		case 2:
			_, err = c.Browse(ctx, &ua.BrowseRequest{NodesToBrowse: []*ua.BrowseDescription{{NodeID: node.ID}}})
		case 3:
			_, err = c.BrowseNext(ctx, &ua.BrowseNextRequest{ContinuationPoints: [][]byte{{1}}})
		case 4:
			_, err = c.RegisterNodes(ctx, &ua.RegisterNodesRequest{NodesToRegister: []*ua.NodeID{node.ID}})
		case 5:
			_, err = c.UnregisterNodes(ctx, &ua.UnregisterNodesRequest{NodesToUnregister: []*ua.NodeID{node.ID}})
		case 6:
			_, err = c.HistoryReadRawModified(ctx, []*ua.HistoryReadValueID{{NodeID: node.ID, DataEncoding: &ua.QualifiedName{}}}, &ua.ReadRawModifiedDetails{})
		case 7:
			_, err = c.FindServers(ctx)
		case 8:
			_, err = c.GetEndpoints(ctx)
		case 9:
			_, err = node.Attributes(ctx, ua.AttributeIDValue, ua.AttributeIDBrowseName)
		case 10:
			_, err = c.Subscribe(ctx, nil, make(chan *opcua.PublishNotificationData, 16))
		default:
			var sub *opcua.Subscription
			sub, err = c.Subscribe(ctx, nil, make(chan *opcua.PublishNotificationData, 16))
			if err != nil {
				res.Outcome, res.Err = "setup-error", err.Error()
				return
			}
			switch p("which") {
			case 11:
				_, err = sub.Unmonitor(ctx, 1, 2)
			case 12:
				_, err = sub.SetTriggering(ctx, 1, []uint32{2}, nil)
			case 13:
				_, err = sub.ModifySubscription(ctx, opcua.SubscriptionParameters{})
			}
		}
		return fin(err)
	}

	notifs := make(chan *opcua.PublishNotificationData, 64)
	switch cs.Op {
	case "monitor", "modify", "cancel", "publish":
		sub, err := c.Subscribe(ctx, nil, notifs)
		if err != nil {
			res.Outcome, res.Err = "setup-error", err.Error()
			return
		}
		switch cs.Op {
		case "monitor":
			_, err = sub.Monitor(ctx, ua.TimestampsToReturnBoth, itemsReq(p("nitems"))...)
		case "modify":
			if _, err = sub.Monitor(ctx, ua.TimestampsToReturnBoth, itemsReq(p("nhave"))...); err != nil {
				res.Outcome, res.Err = "setup-error", err.Error()
				return
			}
			var mods []*ua.MonitoredItemModifyRequest
			for i := 0; i < p("nmod"); i++ {
				mods = append(mods, &ua.MonitoredItemModifyRequest{MonitoredItemID: uint32(i + 1), RequestedParameters: &ua.MonitoringParameters{ClientHandle: uint32(i + 1), QueueSize: 2, Filter: eoNil()}})
			}
			_, err = sub.ModifyMonitoredItems(ctx, ua.TimestampsToReturnBoth, mods...)
		case "cancel":
			err = sub.Cancel(ctx)
		case "publish":
			want := len(cs.L)/5 + 1
			deadline := time.Now().Add(6 * time.Second)
			for time.Now().Before(deadline) {
				n, e := ctlRead(ctx, c, 1)
				if e != nil {
					err = e
					break
				}
				if n >= want {
					break
				}
				// the loop pauses itself after an error response: then no further request will come
				if n >= 1 && cs.L[5*(n-1)] != 0 {
					break
				}
				time.Sleep(20 * time.Millisecond)
			}
			nv, ne := 0, 0
			// notifications of publish errors are delivered by a goroutine of their own: give them time on a loaded machine
			wait := 400 * time.Millisecond
			if cs.L[len(cs.L)-5] == 2 {
				wait = 2500 * time.Millisecond
			}
			idle := time.NewTimer(wait)
		drain:
			for {
				select {
				case d := <-notifs:
					if d.Error != nil {
						ne++
					} else {
						nv++
					}
					if !idle.Stop() {
						<-idle.C
					}
					idle.Reset(wait)
				case <-idle.C:
					break drain
				}
			}
			res.Obs = []string{fmt.Sprintf("values=%d", nv), fmt.Sprintf("errors=%d", ne)}
		}
		return fin(err)

	case "monadd":
		m, _ := monitor.NewNodeMonitor(c)
		ch := make(chan *monitor.DataChangeMessage, 16)
		sub, err := m.ChanSubscribe(ctx, nil, ch)
		if err != nil {
			res.Outcome, res.Err = "setup-error", err.Error()
			return
		}
		var reqs []monitor.Request
		for i := 0; i < p("nitems"); i++ {
			reqs = append(reqs, monitor.Request{NodeID: ua.NewNumericNodeID(1, uint32(50+i)), MonitoringMode: ua.MonitoringModeReporting})
		}
		_, err = sub.AddMonitorItems(ctx, reqs...)
		return fin(err)

	case "transfer":
		for i := 0; i < p("nsubs"); i++ {
			sub, err := c.Subscribe(ctx, nil, notifs)
			if err == nil {
				_, err = sub.Monitor(ctx, ua.TimestampsToReturnBoth, itemsReq(p("nitems"))...)
			}
			if err != nil {
				res.Outcome, res.Err = "setup-error", err.Error()
				return
			}
		}
		if p("predata") == 1 {
			select {
			case <-notifs:
			case <-time.After(5 * time.Second):
			}
		}
		// drain the state channel, then ask the server to drop the connection
		for len(stateCh) > 0 {
			<-stateCh
		}
		ctlRead(ctx, c, 2)
		deadline := time.After(12 * time.Second)
		sawDisc := false
		for {
			select {
			case s := <-stateCh:
				if s == opcua.Disconnected {
					sawDisc = true
				}
				if sawDisc && (s == opcua.Connected || s == opcua.Closed) {
					time.Sleep(100 * time.Millisecond)
					stMu.Lock()
					for _, x := range states {
						res.Obs = append(res.Obs, fmt.Sprint(int(x)))
					}
					stMu.Unlock()
					if s == opcua.Closed {
						return fin(fmt.Errorf("closed"))
					}
					return fin(nil)
				}
			case <-deadline:
				res.Outcome = "hang"
				return
			}
		}
	}
	res.Outcome, res.Err = "harness-error", "unknown op "+cs.Op
	return
}

func childMain() {
	// keep the client's logging out of the protocol stream
	dec := json.NewDecoder(os.Stdin)
	enc := json.NewEncoder(os.Stdout)
	for {
		var cs Case
		if err := dec.Decode(&cs); err != nil {
			return
		}
		var res Result
		switch cs.Op {
		case "c22":
			res = runC22(&cs)
		default:
			res = runCase(&cs)
		}
		enc.Encode(res)
	}
}
