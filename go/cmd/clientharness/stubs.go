package main

func c25Main(seed uint64, n int, replay string)      {}
