package main

func c26Main(seed uint64, n int, replay string)      {}
func c25Main(seed uint64, n int, replay string)      {}
