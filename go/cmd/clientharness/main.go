// clientharness drives the real gopcua client (client.go, client_sub.go, subscription.go, node.go,
// monitor/subscription.go) against the scripted server of internal/scriptsrv.
//
//	clientharness c21 -seed S -n N     parent: generates response shapes, hosts the scripted servers, runs the client
//	                                   in child processes (a panic in any goroutine kills the child) and prints one
//	                                   JSON observation per case
//	clientharness child                child: reads cases (JSON lines) on stdin, runs the client operation, prints the outcome
//	clientharness c22|c25|c26|c27 ...  see the respective files
package main

import (
	"bufio"
	"encoding/json"
	"flag"
	"fmt"
	"io"
	"os"
	"os/exec"
	"strings"
	"sync"
	"time"
)

var out = json.NewEncoder(os.Stdout)
var outMu sync.Mutex

func emit(v interface{}) {
	outMu.Lock()
	defer outMu.Unlock()
	out.Encode(v)
}

// Case is what the parent sends to the child.
type Case struct {
	ID  int               `json:"id"`
	Op  string            `json:"op"`
	URL string            `json:"url"`
	P   map[string]int    `json:"p"`
	L   []int             `json:"l,omitempty"`
	S   map[string]string `json:"s,omitempty"`
}

// Result is what the child answers.
type Result struct {
	ID      int      `json:"id"`
	Outcome string   `json:"outcome"` // value | error | panic | hang
	Err     string   `json:"err,omitempty"`
	Obs     []string `json:"obs,omitempty"`
	Panic   string   `json:"panic,omitempty"`
	Where   string   `json:"where,omitempty"`
}

// childProc runs cases in a child process, restarting it when it dies.
type childProc struct {
	cmd    *exec.Cmd
	in     io.WriteCloser
	out    *bufio.Reader
	errbuf *strings.Builder
	errMu  sync.Mutex
	done   chan struct{}
}

func startChild() (*childProc, error) {
	exe, err := os.Executable()
	if err != nil {
		return nil, err
	}
	c := exec.Command(exe, "child")
	c.Env = append(os.Environ(), "GOTRACEBACK=all")
	in, _ := c.StdinPipe()
	so, _ := c.StdoutPipe()
	se, _ := c.StderrPipe()
	if err := c.Start(); err != nil {
		return nil, err
	}
	p := &childProc{cmd: c, in: in, out: bufio.NewReaderSize(so, 1<<20), errbuf: &strings.Builder{}, done: make(chan struct{})}
	go func() {
		b := make([]byte, 65536)
		for {
			n, err := se.Read(b)
			if n > 0 {
				p.errMu.Lock()
				if p.errbuf.Len() < 1<<20 {
					p.errbuf.Write(b[:n])
				}
				p.errMu.Unlock()
			}
			if err != nil {
				close(p.done)
				return
			}
		}
	}()
	return p, nil
}

func (p *childProc) kill() {
	p.in.Close()
	p.cmd.Process.Kill()
	p.cmd.Wait()
}

// run executes one case; on child death the panic message and the first frame inside /repo are extracted.
func (p *childProc) run(c *Case, timeout time.Duration) (Result, bool) {
	b, _ := json.Marshal(c)
	p.in.Write(append(b, '\n'))
	type lr struct {
		line string
		err  error
	}
	ch := make(chan lr, 1)
	go func() {
		for {
			l, err := p.out.ReadString('\n')
			if err != nil {
				ch <- lr{"", err}
				return
			}
			if strings.HasPrefix(l, "{") {
				ch <- lr{l, nil}
				return
			}
		}
	}()
	select {
	case r := <-ch:
		if r.err != nil {
			select {
			case <-p.done:
			case <-time.After(2 * time.Second):
			}
			p.cmd.Wait()
			p.errMu.Lock()
			txt := p.errbuf.String()
			p.errMu.Unlock()
			res := Result{ID: c.ID, Outcome: "panic"}
			res.Panic, res.Where = parsePanic(txt)
			if res.Panic == "" {
				res.Outcome = "died"
				if len(txt) > 400 {
					txt = txt[len(txt)-400:]
				}
				res.Err = txt
			}
			return res, false
		}
		var res Result
		json.Unmarshal([]byte(r.line), &res)
		return res, true
	case <-time.After(timeout):
		p.kill()
		return Result{ID: c.ID, Outcome: "hang"}, false
	}
}

func parsePanic(txt string) (string, string) {
	msg, where := "", ""
	lines := strings.Split(txt, "\n")
	for i, l := range lines {
		if msg == "" && (strings.HasPrefix(l, "panic: ") || strings.HasPrefix(l, "fatal error: ")) {
			msg = l
			// the panicking goroutine's stack follows; first frame in the repository (not runtime, not harness)
			for j := i + 1; j < len(lines); j++ {
				t := strings.TrimSpace(lines[j])
				if strings.HasPrefix(t, "/") && !strings.Contains(t, "/go/src/") && !strings.Contains(t, "clientharness") && !strings.Contains(t, "/usr/") && !strings.Contains(t, "GOROOT") {
					if k := strings.Index(t, " +0x"); k > 0 {
						t = t[:k]
					}
					parts := strings.Split(t, "/")
					if len(parts) >= 2 {
						t = strings.Join(parts[len(parts)-2:], "/")
					}
					where = t
					break
				}
			}
			break
		}
	}
	if len(msg) > 200 {
		msg = msg[:200]
	}
	return msg, where
}

func main() {
	if len(os.Args) < 2 {
		fmt.Fprintln(os.Stderr, "usage: clientharness c21|c22|c25|c26|c27|child [flags]")
		os.Exit(2)
	}
	sub := os.Args[1]
	fs := flag.NewFlagSet(sub, flag.ExitOnError)
	seed := fs.Uint64("seed", 1, "PRNG seed")
	n := fs.Int("n", 100, "number of generated cases")
	keys := fs.String("keys", "/verif/work/keys", "key cache directory")
	replay := fs.String("replay", "", "replay file (JSON with a case)")
	fs.Parse(os.Args[2:])
	switch sub {
	case "child":
		childMain()
	case "c21":
		c21Main(*seed, *n, *replay)
	case "c22":
		c22Main(*seed, *n, *keys, *replay)
	case "c27":
		c27Main(*seed, *n, *replay)
	case "c26":
		c26Main(*seed, *n, *replay)
	case "c25":
		c25Main(*seed, *n, *replay)
	default:
		fmt.Fprintln(os.Stderr, "unknown subcommand", sub)
		os.Exit(2)
	}
}

type cmdResult struct {
	stdout, stderr []byte
	timedOut       bool
}

// startCmd runs exe with args, feeding stdin, with a timeout.
func startCmd(exe string, args, env []string, stdin []byte, timeout time.Duration) cmdResult {
	c := exec.Command(exe, args...)
	c.Env = append(os.Environ(), env...)
	c.Stdin = strings.NewReader(string(stdin))
	var so, se strings.Builder
	c.Stdout, c.Stderr = &so, &se
	if err := c.Start(); err != nil {
		return cmdResult{stderr: []byte(err.Error())}
	}
	done := make(chan struct{})
	go func() { c.Wait(); close(done) }()
	select {
	case <-done:
		return cmdResult{stdout: []byte(so.String()), stderr: []byte(se.String())}
	case <-time.After(timeout):
		c.Process.Kill()
		<-done
		return cmdResult{stdout: []byte(so.String()), stderr: []byte(se.String()), timedOut: true}
	}
}
