package main

// C26: acknowledgement bookkeeping and subscription bookkeeping across reconnects.
//   kind "acks":      Subscribe 1 and 2, then the scripted server answers the publish requests with a generated history
//                     (subscription known/unknown, data/keep-alive, per-acknowledgement statuses, conforming or not) and
//                     records the SubscriptionAcknowledgements of EVERY PublishRequest.
//   kind "reconnect": one subscription with items, connection dropped; scripted outcomes for ActivateSession (session
//                     kept / lost), TransferSubscriptions, Republish (one retransmitted notification or none),
//                     CreateSubscription and CreateMonitoredItems while recreating. Observed: reported states, ids the
//                     client still holds, whether publishing resumes, acknowledgements sent afterwards.

import (
	"context"
	"encoding/json"
	"fmt"
	"os"
	"sort"
	"sync"
	"time"

	"github.com/gopcua/opcua"
	"github.com/gopcua/opcua/ua"

	"verifharness/internal/rng"
	"verifharness/internal/scriptsrv"
)

var ackStatus = []ua.StatusCode{ua.StatusOK, ua.StatusBadSubscriptionIDInvalid, ua.StatusBadSequenceNumberUnknown, ua.StatusBadInternalError}

type c26obs struct {
	Case        *Case      `json:"case"`
	Acks        [][][2]int `json:"acks"` // per PublishRequest, in order
	States      []int      `json:"states"`
	Subs        []int      `json:"subs"`
	PubsAfter   int        `json:"pubs_after"` // publish requests seen after the reconnect
	Values      int        `json:"values"`
	Errors      int        `json:"errors"`
	Err         string     `json:"err,omitempty"`
	Republished int        `json:"republished"` // republish requests answered with a notification
	Creates     int        `json:"creates"`
	ItemsRound  []int      `json:"items_round"` // monitored items the client asked to create in each reconnect round
}

// acks history: Case.L = per response 5 ints: sub (1,2 or 77), data(0/1), nresultsDelta (-1,0,1), statusIndexBase, unused
func c26Run(cs *Case) c26obs {
	ob := c26obs{Case: cs}
	var mu sync.Mutex
	pubs := 0
	phase := 0 // 0 before drop, 1 after
	sessions := 0
	republishes := 0
	connAtDrop := 0
	sessionsAtDrop := 0
	nextItemID := uint32(0)
	subID := uint32(0)
	readyCh := make(chan struct{}) // closed when both subscriptions are registered in the client
	var srv *scriptsrv.Server
	handler := func(c *scriptsrv.Conn, reqID uint32, r ua.Request) (ua.Response, bool) {
		mu.Lock()
		defer mu.Unlock()
		hdr := func() *ua.ResponseHeader { return scriptsrv.Hdr(r, ua.StatusOK) }
		switch req := r.(type) {
		case *ua.ReadRequest:
			if len(req.NodesToRead) == 1 && req.NodesToRead[0].NodeID.Namespace() == 9 {
				go func() { time.Sleep(20 * time.Millisecond); srv.DropAll() }()
				phase++
				connAtDrop = c.ID
				sessionsAtDrop = sessions
				ob.ItemsRound = append(ob.ItemsRound, 0)
				return &ua.ReadResponse{ResponseHeader: hdr(), Results: []*ua.DataValue{{EncodingMask: ua.DataValueValue, Value: ua.MustVariant(int32(0))}}}, true
			}
			return nil, false
		case *ua.CreateSessionRequest:
			sessions++
			return nil, false
		case *ua.ActivateSessionRequest:
			if phase >= 1 && sessions == sessionsAtDrop && cs.P["session_lost"] == 1 {
				return scriptsrv.Fault(r, ua.StatusBadSessionIDInvalid), true
			}
			return nil, false
		case *ua.CreateSubscriptionRequest:
			subID++
			if phase >= 1 {
				ob.Creates++
				if cs.P["create_ok"] == 0 {
					return scriptsrv.Fault(r, ua.StatusBadTooManySubscriptions), true
				}
				return &ua.CreateSubscriptionResponse{ResponseHeader: hdr(), SubscriptionID: 10 + subID, RevisedPublishingInterval: 100, RevisedLifetimeCount: 100, RevisedMaxKeepAliveCount: 10}, true
			}
			return &ua.CreateSubscriptionResponse{ResponseHeader: hdr(), SubscriptionID: subID, RevisedPublishingInterval: 100, RevisedLifetimeCount: 100, RevisedMaxKeepAliveCount: 10}, true
		case *ua.DeleteSubscriptionsRequest:
			return &ua.DeleteSubscriptionsResponse{ResponseHeader: hdr(), Results: statuses(len(req.SubscriptionIDs), 0), DiagnosticInfos: []*ua.DiagnosticInfo{}}, true
		case *ua.CreateMonitoredItemsRequest:
			bad := 0
			if phase >= 1 && cs.P["items_ok"] == 0 {
				bad = 1
			}
			if phase >= 1 {
				ob.ItemsRound[phase-1] += len(req.ItemsToCreate)
			}
			base := int(nextItemID) // item ids are unique across requests, as on a real server
			nextItemID += uint32(len(req.ItemsToCreate))
			return &ua.CreateMonitoredItemsResponse{ResponseHeader: hdr(), Results: createResults(len(req.ItemsToCreate), bad, base), DiagnosticInfos: []*ua.DiagnosticInfo{}}, true
		case *ua.TransferSubscriptionsRequest:
			if cs.P["transfer_failed"] == 1 {
				return scriptsrv.Fault(r, ua.StatusBadServiceUnsupported), true
			}
			res := make([]*ua.TransferResult, len(req.SubscriptionIDs))
			for i := range res {
				res[i] = &ua.TransferResult{AvailableSequenceNumbers: []uint32{}}
				if cs.P["mixed"] == 1 {
					// per subscription: bit (id-1) of tinvalid
					if id := req.SubscriptionIDs[i]; id >= 1 && id <= 8 && cs.P["tinvalid"]&(1<<(id-1)) != 0 {
						res[i].StatusCode = ua.StatusBadSubscriptionIDInvalid
					}
				} else if cs.P["transfer_ok"] == 0 {
					res[i].StatusCode = ua.StatusBadSubscriptionIDInvalid
				}
			}
			return &ua.TransferSubscriptionsResponse{ResponseHeader: hdr(), Results: res, DiagnosticInfos: []*ua.DiagnosticInfo{}}, true
		case *ua.RepublishRequest:
			republishes++
			if cs.P["republish_ok"] == 0 {
				return scriptsrv.Fault(r, ua.StatusBadSubscriptionIDInvalid), true
			}
			if cs.P["mixed"] == 1 {
				if req.SubscriptionID == 1 && cs.P["republish_msgs"] == 1 && ob.Republished == 0 {
					ob.Republished++
					return &ua.RepublishResponse{ResponseHeader: hdr(), NotificationMessage: &ua.NotificationMessage{SequenceNumber: req.RetransmitSequenceNumber, PublishTime: time.Now(),
						NotificationData: []*ua.ExtensionObject{dataChange()}}}, true
				}
				return scriptsrv.Fault(r, ua.StatusBadMessageNotAvailable), true
			}
			if republishes == 1 && cs.P["republish_msgs"] == 1 {
				ob.Republished++
				return &ua.RepublishResponse{ResponseHeader: hdr(), NotificationMessage: &ua.NotificationMessage{SequenceNumber: req.RetransmitSequenceNumber, PublishTime: time.Now(),
					NotificationData: []*ua.ExtensionObject{dataChange()}}}, true
			}
			return scriptsrv.Fault(r, ua.StatusBadMessageNotAvailable), true
		case *ua.PublishRequest:
			var al [][2]int
			for _, a := range req.SubscriptionAcknowledgements {
				al = append(al, [2]int{int(a.SubscriptionID), int(a.SequenceNumber)})
			}
			if al == nil {
				al = [][2]int{}
			}
			if phase >= 1 && c.ID > connAtDrop {
				ob.PubsAfter++
			}
			if cs.S["kind"] != "acks" {
				if cs.P["mixed"] == 1 {
					// every PublishRequest is recorded; the first one is answered with a data notification of
					// subscription 1 (sequence number 1), all later ones are withheld: the acknowledgement stays queued
					ob.Acks = append(ob.Acks, al)
					pubs++
					if pubs == 1 {
						resp := &ua.PublishResponse{ResponseHeader: hdr(), SubscriptionID: 1, AvailableSequenceNumbers: []uint32{},
							NotificationMessage: &ua.NotificationMessage{SequenceNumber: 1, PublishTime: time.Now(), NotificationData: []*ua.ExtensionObject{dataChange()}},
							Results:             []ua.StatusCode{}, DiagnosticInfos: []*ua.DiagnosticInfo{}}
						go func() {
							<-readyCh
							c.Send(reqID, resp)
						}()
					}
					return nil, true
				}
				if phase >= 1 && c.ID > connAtDrop {
					ob.Acks = append(ob.Acks, al)
				}
				return nil, true
			}
			ob.Acks = append(ob.Acks, al)
			k := 5 * pubs
			pubs++
			if k+4 >= len(cs.L) {
				return nil, true
			}
			sub, data, delta, stbase := cs.L[k], cs.L[k+1], cs.L[k+2], cs.L[k+3]
			n := len(al) + delta
			if n < 0 {
				n = 0
			}
			res := make([]ua.StatusCode, n)
			for i := range res {
				res[i] = ackStatus[(stbase+i*cs.L[k+4])%4]
			}
			nm := &ua.NotificationMessage{SequenceNumber: uint32(pubs), PublishTime: time.Now(), NotificationData: []*ua.ExtensionObject{}}
			if data == 1 {
				nm.NotificationData = append(nm.NotificationData, dataChange())
			}
			resp := &ua.PublishResponse{ResponseHeader: hdr(), SubscriptionID: uint32(sub), AvailableSequenceNumbers: []uint32{}, NotificationMessage: nm,
				Results: res, DiagnosticInfos: []*ua.DiagnosticInfo{}}
			go func() {
				<-readyCh
				c.Send(reqID, resp)
			}()
			return nil, true
		}
		return nil, false
	}
	var err error
	srv, err = scriptsrv.New(nil, nil, handler)
	if err != nil {
		ob.Err = err.Error()
		return ob
	}
	defer srv.Close()
	var states []int
	var stMu sync.Mutex
	stateCh := make(chan opcua.ConnState, 64)
	c, err := newClient(srv.URL, cs.S["kind"] == "reconnect", opcua.RequestTimeout(8*time.Second), opcua.StateChangedFunc(func(s opcua.ConnState) {
		stMu.Lock()
		states = append(states, int(s))
		stMu.Unlock()
		select {
		case stateCh <- s:
		default:
		}
	}))
	if err != nil {
		ob.Err = err.Error()
		return ob
	}
	ctx, cancel := context.WithTimeout(context.Background(), 40*time.Second)
	defer cancel()
	if err := c.Connect(ctx); err != nil {
		ob.Err = err.Error()
		return ob
	}
	notifs := make(chan *opcua.PublishNotificationData, 256)
	nsubs := 2
	if cs.S["kind"] == "reconnect" {
		nsubs = 1
		if cs.P["nsubs"] > 0 {
			nsubs = cs.P["nsubs"]
		}
	}
	for i := 0; i < nsubs; i++ {
		sub, err := c.Subscribe(ctx, nil, notifs)
		if err == nil && cs.S["kind"] == "reconnect" {
			_, err = sub.Monitor(ctx, ua.TimestampsToReturnBoth, itemsReq(2)...)
			if err == nil && cs.P["groups"] >= 2 {
				// a second group of items with another TimestampsToReturn
				_, err = sub.Monitor(ctx, ua.TimestampsToReturnSource, opcua.NewMonitoredItemCreateRequestWithDefaults(ua.NewNumericNodeID(1, 70), ua.AttributeIDValue, 9))
			}
			if err == nil && cs.P["groups"] >= 3 {
				_, err = sub.Monitor(ctx, ua.TimestampsToReturnServer, opcua.NewMonitoredItemCreateRequestWithDefaults(ua.NewNumericNodeID(1, 71), ua.AttributeIDValue, 10))
			}
		}
		if err != nil {
			ob.Err = err.Error()
			return ob
		}
	}
	close(readyCh)
	if cs.S["kind"] == "acks" {
		want := len(cs.L)/5 + 1
		deadline := time.Now().Add(25 * time.Second)
		for time.Now().Before(deadline) {
			mu.Lock()
			n := len(ob.Acks)
			mu.Unlock()
			if n >= want {
				break
			}
			time.Sleep(20 * time.Millisecond)
		}
	} else {
		if cs.P["mixed"] == 1 {
			// wait until the acknowledgement of the notification is on its way (second PublishRequest, withheld)
			deadline := time.Now().Add(15 * time.Second)
			for time.Now().Before(deadline) {
				mu.Lock()
				n := len(ob.Acks)
				mu.Unlock()
				if n >= 2 {
					break
				}
				time.Sleep(20 * time.Millisecond)
			}
		}
		rounds := cs.P["rounds"]
		if rounds < 1 {
			rounds = 1
		}
		for round := 0; round < rounds && ob.Err == ""; round++ {
			for len(stateCh) > 0 {
				<-stateCh
			}
			ctlRead(ctx, c, 2)
			deadline := time.After(20 * time.Second)
			sawDisc := false
		wait:
			for {
				select {
				case s := <-stateCh:
					if s == opcua.Disconnected {
						sawDisc = true
					}
					if sawDisc && (s == opcua.Connected || s == opcua.Closed) {
						break wait
					}
				case <-deadline:
					ob.Err = "timeout waiting for the reconnect"
					break wait
				}
			}
			time.Sleep(1200 * time.Millisecond) // publishing (if any) shows up now
		}
	}
	mu.Lock()
	defer mu.Unlock()
	stMu.Lock()
	ob.States = append([]int(nil), states...)
	stMu.Unlock()
	idsCh := make(chan []uint32, 1)
	go func() { idsCh <- c.SubscriptionIDs() }()
	select {
	case ids := <-idsCh:
		for _, x := range ids {
			ob.Subs = append(ob.Subs, int(x))
		}
		sort.Ints(ob.Subs)
	case <-time.After(time.Second):
		ob.Err += " subMux blocked"
	}
	if ob.Subs == nil {
		ob.Subs = []int{}
	}
drain:
	for {
		select {
		case d := <-notifs:
			if d.Error != nil {
				ob.Errors++
			} else {
				ob.Values++
			}
		default:
			break drain
		}
	}
	if ob.Acks == nil {
		ob.Acks = [][][2]int{}
	}
	return ob
}

func c26Gen(r *rng.R, i int) *Case {
	c := &Case{ID: i, Op: "c26", P: map[string]int{}, S: map[string]string{}}
	if i%3 != 2 {
		c.S["kind"] = "acks"
		for k := r.Range(2, 7); k > 0; k-- {
			delta := 0
			if r.Intn(8) == 0 {
				delta = r.Pick(-1, 1)
			}
			c.L = append(c.L, r.Pick(1, 1, 2, 2, 77), r.Pick(1, 1, 1, 0), delta, r.Pick(0, 0, 0, r.Intn(4)), r.Pick(0, 0, 1))
		}
		return c
	}
	c.S["kind"] = "reconnect"
	c.P["session_lost"] = r.Intn(2)
	c.P["transfer_failed"] = r.Pick(0, 0, 1)
	c.P["transfer_ok"] = r.Intn(2)
	c.P["republish_ok"] = r.Pick(1, 1, 0)
	c.P["republish_msgs"] = r.Intn(2)
	c.P["create_ok"] = r.Pick(1, 1, 0)
	c.P["items_ok"] = r.Pick(1, 1, 0)
	c.P["groups"] = r.Range(1, 3)
	c.P["rounds"] = r.Pick(1, 2)
	return c
}

func c26Main(seed uint64, n int, replay string) {
	if os.Getenv("C26_CHILD") == "1" {
		var cs Case
		if err := json.NewDecoder(os.Stdin).Decode(&cs); err != nil {
			os.Exit(2)
		}
		ob := c26Run(&cs)
		json.NewEncoder(os.Stdout).Encode(ob)
		os.Exit(0)
	}
	r := rng.New(seed)
	var cases []*Case
	if replay != "" {
		b, _ := os.ReadFile(replay)
		var rp struct {
			Case *Case `json:"case"`
		}
		if json.Unmarshal(b, &rp) != nil || rp.Case == nil {
			fmt.Fprintln(os.Stderr, "replay file has no case")
			os.Exit(2)
		}
		cases = []*Case{rp.Case}
	} else {
		// the three known findings first
		cases = append(cases,
			&Case{ID: 0, Op: "c26", S: map[string]string{"kind": "reconnect"}, P: map[string]int{"session_lost": 1, "transfer_ok": 1, "republish_ok": 1, "republish_msgs": 1, "create_ok": 1, "items_ok": 1}},
			&Case{ID: 1, Op: "c26", S: map[string]string{"kind": "reconnect"}, P: map[string]int{"session_lost": 1, "transfer_ok": 0, "republish_ok": 1, "create_ok": 0, "items_ok": 1}},
			&Case{ID: 2, Op: "c26", S: map[string]string{"kind": "reconnect"}, P: map[string]int{"session_lost": 0, "transfer_ok": 1, "republish_ok": 1, "create_ok": 1, "items_ok": 1}})
		// two consecutive recreating reconnects of a subscription whose items use 2 and 3 TimestampsToReturn values
		for g := 2; g <= 3; g++ {
			cases = append(cases, &Case{ID: len(cases), Op: "c26", S: map[string]string{"kind": "reconnect"}, P: map[string]int{"session_lost": 1, "transfer_ok": 0, "republish_ok": 1, "create_ok": 1, "items_ok": 1, "groups": g, "rounds": 2}})
		}
		// mixed outcomes over 2..3 subscriptions: subscription 1 has an un-acknowledged notification queued and survives
		// (transfer Good, with and without a retransmitted message), another one must be recreated
		for _, m := range []map[string]int{
			{"nsubs": 2, "tinvalid": 2, "republish_msgs": 1}, {"nsubs": 2, "tinvalid": 2, "republish_msgs": 0},
			{"nsubs": 3, "tinvalid": 4, "republish_msgs": 1}, {"nsubs": 3, "tinvalid": 6, "republish_msgs": 0},
			{"nsubs": 2, "tinvalid": 0, "republish_msgs": 1}, {"nsubs": 2, "tinvalid": 3, "republish_msgs": 0},
		} {
			p := map[string]int{"mixed": 1, "session_lost": 1, "republish_ok": 1, "create_ok": 1, "items_ok": 1, "groups": 1, "rounds": 1}
			for k, v := range m {
				p[k] = v
			}
			cases = append(cases, &Case{ID: len(cases), Op: "c26", S: map[string]string{"kind": "reconnect"}, P: p})
		}
		// the server has dropped the subscription (Republish answers BadSubscriptionIDInvalid) while the session was kept,
		// and after a successful transfer: it must be recreated
		cases = append(cases,
			&Case{ID: len(cases), Op: "c26", S: map[string]string{"kind": "reconnect"}, P: map[string]int{"session_lost": 0, "transfer_ok": 1, "republish_ok": 0, "create_ok": 1, "items_ok": 1, "groups": 2, "rounds": 1}},
			&Case{ID: len(cases) + 1, Op: "c26", S: map[string]string{"kind": "reconnect"}, P: map[string]int{"session_lost": 1, "transfer_ok": 1, "republish_ok": 0, "create_ok": 1, "items_ok": 1, "groups": 1, "rounds": 1}})
		for i := len(cases); i < n; i++ {
			cases = append(cases, c26Gen(r, i))
		}
	}
	exe, _ := os.Executable()
	const workers = 6
	var wg sync.WaitGroup
	ch := make(chan *Case)
	for w := 0; w < workers; w++ {
		wg.Add(1)
		go func() {
			defer wg.Done()
			for c := range ch {
				b, _ := json.Marshal(c)
				p := startCmd(exe, []string{"c26"}, []string{"C26_CHILD=1"}, b, 90*time.Second)
				var ob c26obs
				if err := json.Unmarshal(p.stdout, &ob); err != nil {
					msg, where := parsePanic(string(p.stderr))
					emit(map[string]interface{}{"case": c, "err": "child failed", "panic": msg, "where": where})
					continue
				}
				emit(ob)
			}
		}()
	}
	for _, c := range cases {
		ch <- c
	}
	close(ch)
	wg.Wait()
}
