package main

// C25: connection state follows the documented lifecycle under faults.
// The scripted server injects one fault while the client is Connected (connection drop = EOF, or a ServiceFault whose
// status selects the reconnect action) and then decides the outcome of every Dial (a refused dial = the connection is
// closed right after the handshake, so OpenSecureChannel fails), ActivateSession, CreateSession and namespace read
// from scripted lists, exactly like the environment of Model.ClientMonitor. Observed: the sequence of reported states
// and the sequence of calls the server sees after the fault; optionally Close at the end.

import (
	"context"
	"encoding/json"
	"fmt"
	"os"
	"runtime"
	"sort"
	"strings"
	"sync"
	"time"

	"github.com/gopcua/opcua"
	"github.com/gopcua/opcua/ua"

	"verifharness/internal/rng"
	"verifharness/internal/scriptsrv"
)

var c25Status = map[string]ua.StatusCode{
	"channel": ua.StatusBadSecureChannelIDInvalid, "session": ua.StatusBadSessionIDInvalid, "subscription": ua.StatusBadSubscriptionIDInvalid,
	"nosub": ua.StatusBadNoSubscription, "cert": ua.StatusBadCertificateInvalid, "other": ua.StatusBadInternalError,
}

type c25obs struct {
	Case   *Case    `json:"case"`
	States []int    `json:"states"`
	Calls  []string `json:"calls"`
	Late   int      `json:"late_calls"` // calls seen after Close
	Leaks  []string `json:"leaks"`      // goroutines still inside the opcua packages after Close (client process)
	Works  int      `json:"works"`      // a request sent after the states settled: 1 answered, 0 failed, -1 not tried
	Err    string   `json:"err,omitempty"`
}

// what the child (the client process) reports
type c25child struct {
	States    []int    `json:"states"`
	CloseNano int64    `json:"close_nano"`
	Leaks     []string `json:"leaks"`
	Works     int      `json:"works"`
	Err       string   `json:"err,omitempty"`
}

func popb(s *string) bool {
	return popc(s) == '1'
}

// popc pops the next scripted outcome: '1' success (also when the list is exhausted), '0' the call is answered with a
// fault, '2' the connection is dropped instead of answering.
func popc(s *string) byte {
	if len(*s) == 0 {
		return '1'
	}
	b := (*s)[0]
	*s = (*s)[1:]
	return b
}

// Case.S: err = eof|channel|session|subscription|nosub|cert|other ; dials/activates/creates/namespaces = strings of 0/1 ;
// Case.P: auto (0/1), close (0/1)
func c25Run(cs *Case) c25obs {
	ob := c25obs{Case: cs, Calls: []string{}}
	var mu sync.Mutex
	injected, closed := false, false
	dials, activates, creates, namespaces := cs.S["dials"], cs.S["activates"], cs.S["creates"], cs.S["namespaces"]
	var srv *scriptsrv.Server
	type stamped struct {
		c string
		t int64
	}
	var calls []stamped
	rec := func(c string) { calls = append(calls, stamped{c, time.Now().UnixNano()}) }
	_ = closed
	handler := func(c *scriptsrv.Conn, reqID uint32, r ua.Request) (ua.Response, bool) {
		mu.Lock()
		defer mu.Unlock()
		hdr := func() *ua.ResponseHeader { return scriptsrv.Hdr(r, ua.StatusOK) }
		switch req := r.(type) {
		case *ua.ReadRequest:
			if len(req.NodesToRead) == 1 && req.NodesToRead[0].NodeID.Namespace() == 9 {
				injected = true
				if cs.S["err"] == "eof" {
					go func() { time.Sleep(10 * time.Millisecond); c.Close() }()
					return &ua.ReadResponse{ResponseHeader: hdr(), Results: []*ua.DataValue{{EncodingMask: ua.DataValueValue, Value: ua.MustVariant(int32(0))}}}, true
				}
				return scriptsrv.Fault(r, c25Status[cs.S["err"]]), true
			}
			if injected && len(req.NodesToRead) == 1 && req.NodesToRead[0].NodeID.IntID() == 2255 {
				rec("N")
				switch popc(&namespaces) {
				case '0':
					return scriptsrv.Fault(r, ua.StatusBadNodeIDUnknown), true
				case '2':
					// the connection dies while the client waits for this answer
					go c.Close()
					return nil, true
				}
			}
			return nil, false
		case *ua.ActivateSessionRequest:
			if injected {
				rec("A")
				if !popb(&activates) {
					return scriptsrv.Fault(r, ua.StatusBadIdentityTokenRejected), true
				}
			}
			return nil, false
		case *ua.CreateSessionRequest:
			if injected {
				rec("C")
				if !popb(&creates) {
					return scriptsrv.Fault(r, ua.StatusBadTooManySessions), true
				}
			}
			return nil, false
		case *ua.TransferSubscriptionsRequest:
			return &ua.TransferSubscriptionsResponse{ResponseHeader: hdr(), Results: []*ua.TransferResult{}, DiagnosticInfos: []*ua.DiagnosticInfo{}}, true
		case *ua.CloseSessionRequest:
			return nil, false
		}
		return nil, false
	}
	var err error
	srv, err = scriptsrv.New(nil, nil, handler)
	if err != nil {
		ob.Err = err.Error()
		return ob
	}
	defer srv.Close()
	srv.OnAccept = func(c *scriptsrv.Conn) {
		mu.Lock()
		defer mu.Unlock()
		if !injected {
			return
		}
		rec("D")
		if !popb(&dials) {
			c.Close()
		}
	}
	// the client runs in a process of its own: after Close its goroutines can be listed without the server's
	cs.URL = srv.URL
	b, _ := json.Marshal(cs)
	exe, _ := os.Executable()
	p := startCmd(exe, []string{"c25"}, []string{"C25_CHILD=1"}, b, 120*time.Second)
	var ch c25child
	if err := json.Unmarshal(p.stdout, &ch); err != nil {
		msg, where := parsePanic(string(p.stderr))
		ob.Err = "client process failed: " + msg + " " + where
		return ob
	}
	time.Sleep(100 * time.Millisecond)
	mu.Lock()
	for _, c := range calls {
		if ch.CloseNano != 0 && c.t > ch.CloseNano {
			ob.Late++
		} else {
			ob.Calls = append(ob.Calls, c.c)
		}
	}
	mu.Unlock()
	ob.States, ob.Leaks, ob.Err, ob.Works = ch.States, ch.Leaks, ch.Err, ch.Works
	if ob.Leaks == nil {
		ob.Leaks = []string{}
	}
	return ob
}

// c25Client is the client process: Connect, trigger the fault, wait until the reported states settle, optionally Close,
// then list the goroutines that are still inside the opcua packages.
func c25Client(cs *Case) c25child {
	var ob c25child
	var states []int
	var stMu sync.Mutex
	c, err := newClient(cs.URL, cs.P["auto"] == 1, opcua.RequestTimeout(3*time.Second), opcua.StateChangedFunc(func(s opcua.ConnState) {
		stMu.Lock()
		states = append(states, int(s))
		stMu.Unlock()
	}))
	if err != nil {
		ob.Err = err.Error()
		return ob
	}
	ctx, cancel := context.WithTimeout(context.Background(), 60*time.Second)
	defer cancel()
	if err := c.Connect(ctx); err != nil {
		ob.Err = err.Error()
		return ob
	}
	ctlRead(ctx, c, 3)
	// quiescence: the state sequence does not change for 800 ms
	last, stable := "", 0
	for i := 0; i < 400 && stable < 8; i++ {
		time.Sleep(100 * time.Millisecond)
		stMu.Lock()
		cur := fmt.Sprint(states)
		stMu.Unlock()
		if cur == last {
			stable++
		} else {
			stable, last = 0, cur
		}
	}
	// "returns to Connected with working requests": once the states have settled on Connected a request must be answered
	ob.Works = -1
	stMu.Lock()
	lastState := -1
	if len(states) > 0 {
		lastState = states[len(states)-1]
	}
	stMu.Unlock()
	if lastState == int(opcua.Connected) {
		pctx, pcancel := context.WithTimeout(ctx, 4*time.Second)
		_, err := c.Read(pctx, &ua.ReadRequest{NodesToRead: []*ua.ReadValueID{{NodeID: ua.NewNumericNodeID(8, 1), AttributeID: ua.AttributeIDValue}}})
		pcancel()
		ob.Works = 0
		if err == nil {
			ob.Works = 1
		}
	}
	if cs.P["close"] == 1 {
		c.Close(ctx)
		ob.CloseNano = time.Now().UnixNano()
		// settling delay, then: which goroutines are still running code of the library?
		for try := 0; try < 15; try++ {
			time.Sleep(200 * time.Millisecond)
			ob.Leaks = opcuaGoroutines()
			if len(ob.Leaks) == 0 {
				break
			}
		}
	}
	stMu.Lock()
	ob.States = append([]int(nil), states...)
	stMu.Unlock()
	return ob
}

// opcuaGoroutines returns, for every goroutine (other than the caller) whose stack contains a frame of
// github.com/gopcua/opcua, the innermost such function.
func opcuaGoroutines() []string {
	buf := make([]byte, 1<<22)
	buf = buf[:runtime.Stack(buf, true)]
	var out []string
	for i, g := range strings.Split(string(buf), "\n\n") {
		if i == 0 {
			continue // the calling goroutine
		}
		for _, l := range strings.Split(g, "\n") {
			if strings.HasPrefix(l, "github.com/gopcua/opcua") {
				if k := strings.LastIndex(l, "("); k > 0 {
					l = l[:k]
				}
				out = append(out, strings.TrimPrefix(l, "github.com/gopcua/opcua"))
				break
			}
		}
	}
	sort.Strings(out)
	return out
}

func c25Gen(r *rng.R, i int) *Case {
	c := &Case{ID: i, Op: "c25", P: map[string]int{}, S: map[string]string{}}
	errs := []string{"eof", "eof", "channel", "session", "subscription", "nosub", "cert", "other"}
	c.S["err"] = errs[i%len(errs)]
	c.P["auto"] = r.Pick(1, 1, 1, 0)
	c.P["close"] = r.Pick(0, 1)
	bits := func(maxn int) string {
		s := ""
		for k := r.Intn(maxn + 1); k > 0; k-- {
			s += string("01"[r.Pick(0, 1, 1)])
		}
		return s
	}
	c.S["dials"], c.S["activates"], c.S["creates"], c.S["namespaces"] = bits(2), bits(2), bits(2), bits(2)
	// one case in four: the connection dies during a namespace read of the reconnect
	if r.Intn(4) == 0 {
		ns := []byte(c.S["namespaces"] + "0")
		ns[r.Intn(len(ns))] = '2'
		c.S["namespaces"] = string(ns)
	}
	return c
}

func c25Main(seed uint64, n int, replay string) {
	if os.Getenv("C25_CHILD") == "1" {
		var cs Case
		if err := json.NewDecoder(os.Stdin).Decode(&cs); err != nil {
			os.Exit(2)
		}
		ob := c25Client(&cs)
		json.NewEncoder(os.Stdout).Encode(ob)
		os.Exit(0)
	}
	r := rng.New(seed)
	var cases []*Case
	if replay != "" {
		b, _ := os.ReadFile(replay)
		var rp struct {
			Case *Case `json:"case"`
		}
		if json.Unmarshal(b, &rp) != nil || rp.Case == nil {
			fmt.Fprintln(os.Stderr, "replay file has no case")
			os.Exit(2)
		}
		cases = []*Case{rp.Case}
	} else {
		// the witness of the refuted transition first
		cases = append(cases, &Case{ID: 0, Op: "c25", P: map[string]int{"auto": 1}, S: map[string]string{"err": "subscription"}})
		// a second drop exactly during the NamespaceArray read of the reconnect, session kept and session lost
		cases = append(cases, &Case{ID: 1, Op: "c25", P: map[string]int{"auto": 1}, S: map[string]string{"err": "eof", "namespaces": "2"}})
		cases = append(cases, &Case{ID: 2, Op: "c25", P: map[string]int{"auto": 1, "close": 1}, S: map[string]string{"err": "eof", "activates": "0", "namespaces": "21"}})
		cases = append(cases, &Case{ID: 3, Op: "c25", P: map[string]int{"auto": 1}, S: map[string]string{"err": "eof", "namespaces": "0"}})
		for i := len(cases); i < n; i++ {
			cases = append(cases, c25Gen(r, i))
		}
	}
	const workers = 6
	var wg sync.WaitGroup
	ch := make(chan *Case)
	for w := 0; w < workers; w++ {
		wg.Add(1)
		go func() {
			defer wg.Done()
			for c := range ch {
				ob := c25Run(c)
				c.URL = ""
				emit(ob)
			}
		}()
	}
	for _, c := range cases {
		ch <- c
	}
	close(ch)
	wg.Wait()
}
