package main

// C25: connection state follows the documented lifecycle under faults.
// The scripted server injects one fault while the client is Connected (connection drop = EOF, or a ServiceFault whose
// status selects the reconnect action) and then decides the outcome of every Dial (a refused dial = the connection is
// closed right after the handshake, so OpenSecureChannel fails), ActivateSession, CreateSession and namespace read
// from scripted lists, exactly like the environment of Model.ClientMonitor. Observed: the sequence of reported states
// and the sequence of calls the server sees after the fault; optionally Close at the end.

import (
	"context"
	"encoding/json"
	"fmt"
	"os"
	"sync"
	"time"

	"github.com/gopcua/opcua"
	"github.com/gopcua/opcua/ua"

	"verifharness/internal/rng"
	"verifharness/internal/scriptsrv"
)

var c25Status = map[string]ua.StatusCode{
	"channel": ua.StatusBadSecureChannelIDInvalid, "session": ua.StatusBadSessionIDInvalid, "subscription": ua.StatusBadSubscriptionIDInvalid,
	"nosub": ua.StatusBadNoSubscription, "cert": ua.StatusBadCertificateInvalid, "other": ua.StatusBadInternalError,
}

type c25obs struct {
	Case   *Case    `json:"case"`
	States []int    `json:"states"`
	Calls  []string `json:"calls"`
	Late   int      `json:"late_calls"` // calls seen after Close
	Err    string   `json:"err,omitempty"`
}

func popb(s *string) bool {
	if len(*s) == 0 {
		return true
	}
	b := (*s)[0] == '1'
	*s = (*s)[1:]
	return b
}

// Case.S: err = eof|channel|session|subscription|nosub|cert|other ; dials/activates/creates/namespaces = strings of 0/1 ;
// Case.P: auto (0/1), close (0/1)
func c25Run(cs *Case) c25obs {
	ob := c25obs{Case: cs, Calls: []string{}}
	var mu sync.Mutex
	injected, closed := false, false
	dials, activates, creates, namespaces := cs.S["dials"], cs.S["activates"], cs.S["creates"], cs.S["namespaces"]
	var srv *scriptsrv.Server
	rec := func(c string) {
		if closed {
			ob.Late++
			return
		}
		ob.Calls = append(ob.Calls, c)
	}
	handler := func(c *scriptsrv.Conn, reqID uint32, r ua.Request) (ua.Response, bool) {
		mu.Lock()
		defer mu.Unlock()
		hdr := func() *ua.ResponseHeader { return scriptsrv.Hdr(r, ua.StatusOK) }
		switch req := r.(type) {
		case *ua.ReadRequest:
			if len(req.NodesToRead) == 1 && req.NodesToRead[0].NodeID.Namespace() == 9 {
				injected = true
				if cs.S["err"] == "eof" {
					go func() { time.Sleep(10 * time.Millisecond); c.Close() }()
					return &ua.ReadResponse{ResponseHeader: hdr(), Results: []*ua.DataValue{{EncodingMask: ua.DataValueValue, Value: ua.MustVariant(int32(0))}}}, true
				}
				return scriptsrv.Fault(r, c25Status[cs.S["err"]]), true
			}
			if injected && len(req.NodesToRead) == 1 && req.NodesToRead[0].NodeID.IntID() == 2255 {
				rec("N")
				if !popb(&namespaces) {
					return scriptsrv.Fault(r, ua.StatusBadNodeIDUnknown), true
				}
			}
			return nil, false
		case *ua.ActivateSessionRequest:
			if injected {
				rec("A")
				if !popb(&activates) {
					return scriptsrv.Fault(r, ua.StatusBadIdentityTokenRejected), true
				}
			}
			return nil, false
		case *ua.CreateSessionRequest:
			if injected {
				rec("C")
				if !popb(&creates) {
					return scriptsrv.Fault(r, ua.StatusBadTooManySessions), true
				}
			}
			return nil, false
		case *ua.TransferSubscriptionsRequest:
			return &ua.TransferSubscriptionsResponse{ResponseHeader: hdr(), Results: []*ua.TransferResult{}, DiagnosticInfos: []*ua.DiagnosticInfo{}}, true
		case *ua.CloseSessionRequest:
			return nil, false
		}
		return nil, false
	}
	var err error
	srv, err = scriptsrv.New(nil, nil, handler)
	if err != nil {
		ob.Err = err.Error()
		return ob
	}
	defer srv.Close()
	srv.OnAccept = func(c *scriptsrv.Conn) {
		mu.Lock()
		defer mu.Unlock()
		if !injected {
			return
		}
		rec("D")
		if !popb(&dials) {
			c.Close()
		}
	}
	var states []int
	var stMu sync.Mutex
	c, err := newClient(srv.URL, cs.P["auto"] == 1, opcua.RequestTimeout(3*time.Second), opcua.StateChangedFunc(func(s opcua.ConnState) {
		stMu.Lock()
		states = append(states, int(s))
		stMu.Unlock()
	}))
	if err != nil {
		ob.Err = err.Error()
		return ob
	}
	ctx, cancel := context.WithTimeout(context.Background(), 40*time.Second)
	defer cancel()
	if err := c.Connect(ctx); err != nil {
		ob.Err = err.Error()
		return ob
	}
	ctlRead(ctx, c, 3)
	// quiescence: the state sequence and the call sequence do not change for 600 ms
	last, stable := "", 0
	for i := 0; i < 300 && stable < 6; i++ {
		time.Sleep(100 * time.Millisecond)
		mu.Lock()
		stMu.Lock()
		cur := fmt.Sprint(states, ob.Calls)
		stMu.Unlock()
		mu.Unlock()
		if cur == last {
			stable++
		} else {
			stable, last = 0, cur
		}
	}
	if cs.P["close"] == 1 {
		c.Close(ctx)
		mu.Lock()
		closed = true
		mu.Unlock()
		time.Sleep(500 * time.Millisecond)
	}
	mu.Lock()
	stMu.Lock()
	ob.States = append([]int(nil), states...)
	stMu.Unlock()
	mu.Unlock()
	return ob
}

func c25Gen(r *rng.R, i int) *Case {
	c := &Case{ID: i, Op: "c25", P: map[string]int{}, S: map[string]string{}}
	errs := []string{"eof", "eof", "channel", "session", "subscription", "nosub", "cert", "other"}
	c.S["err"] = errs[i%len(errs)]
	c.P["auto"] = r.Pick(1, 1, 1, 0)
	c.P["close"] = r.Pick(0, 1)
	bits := func(maxn int) string {
		s := ""
		for k := r.Intn(maxn + 1); k > 0; k-- {
			s += string("01"[r.Pick(0, 1, 1)])
		}
		return s
	}
	c.S["dials"], c.S["activates"], c.S["creates"], c.S["namespaces"] = bits(2), bits(2), bits(2), bits(2)
	return c
}

func c25Main(seed uint64, n int, replay string) {
	if os.Getenv("C25_CHILD") == "1" {
		var cs Case
		if err := json.NewDecoder(os.Stdin).Decode(&cs); err != nil {
			os.Exit(2)
		}
		ob := c25Run(&cs)
		json.NewEncoder(os.Stdout).Encode(ob)
		os.Exit(0)
	}
	r := rng.New(seed)
	var cases []*Case
	if replay != "" {
		b, _ := os.ReadFile(replay)
		var rp struct {
			Case *Case `json:"case"`
		}
		if json.Unmarshal(b, &rp) != nil || rp.Case == nil {
			fmt.Fprintln(os.Stderr, "replay file has no case")
			os.Exit(2)
		}
		cases = []*Case{rp.Case}
	} else {
		// the witness of the refuted transition first
		cases = append(cases, &Case{ID: 0, Op: "c25", P: map[string]int{"auto": 1}, S: map[string]string{"err": "subscription"}})
		for i := len(cases); i < n; i++ {
			cases = append(cases, c25Gen(r, i))
		}
	}
	exe, _ := os.Executable()
	const workers = 6
	var wg sync.WaitGroup
	ch := make(chan *Case)
	for w := 0; w < workers; w++ {
		wg.Add(1)
		go func() {
			defer wg.Done()
			for c := range ch {
				b, _ := json.Marshal(c)
				p := startCmd(exe, []string{"c25"}, []string{"C25_CHILD=1"}, b, 90*time.Second)
				var ob c25obs
				if err := json.Unmarshal(p.stdout, &ob); err != nil {
					msg, where := parsePanic(string(p.stderr))
					emit(map[string]interface{}{"case": c, "err": "child failed", "panic": msg, "where": where})
					continue
				}
				emit(ob)
			}
		}()
	}
	for _, c := range cases {
		ch <- c
	}
	close(ch)
	wg.Wait()
}
