// nodeidharness drives the real text form of ua.NodeID (String, ParseNodeID, ParseExpandedNodeID, Equal) on seeded,
// boundary-heavy inputs and prints one JSON observation per line. Three kinds of observation:
//
//	"id":    a NodeID n (public constructor or raw fields) -> String(), ParseNodeID(String()), n.Equal(parsed)
//	"parse": an arbitrary string and a namespace table     -> ParseExpandedNodeID(s, tbl), ParseNodeID(s)
//	"pair":  two NodeIDs a, b                              -> a.Equal(b)
//
// All strings are hex in the JSON (arbitrary bytes). `-cases file` re-runs the input part of observations exactly.
package main

import (
	"bufio"
	"encoding/base64"
	"encoding/hex"
	"encoding/json"
	"flag"
	"fmt"
	"os"
	"strings"

	"github.com/gopcua/opcua/ua"

	"verifharness/internal/rng"
)

// ---------------------------------------------------------------------------------------------- JSON shapes

type gview struct {
	D1 uint32 `json:"d1"`
	D2 uint16 `json:"d2"`
	D3 uint16 `json:"d3"`
	D4 string `json:"d4"` // hex
}

// view is the exact state of a NodeID (through the verif hook).
type view struct {
	Mask int     `json:"mask"`
	Ns   int     `json:"ns"`
	Nid  int64   `json:"nid"`
	Bid  *string `json:"bid"` // hex, null = nil slice
	Gid  *gview  `json:"gid"`
}

type xview struct {
	ID  *view  `json:"id"`
	Nsu string `json:"nsu"` // hex
	Idx uint32 `json:"idx"`
}

// spec says how to build a NodeID: a public constructor call or raw fields.
type spec struct {
	Ctor string  `json:"ctor"`          // NewTwoByteNodeID .. NewByteStringNodeID | raw
	Ns   uint64  `json:"ns"`            // constructor argument (ignored by NewTwoByteNodeID)
	ID   uint64  `json:"id"`            // numeric constructors
	Str  *string `json:"str,omitempty"` // hex: the string / GUID text / bytes argument; null = "" or nil slice
	Raw  *view   `json:"raw,omitempty"` // ctor == "raw"
	// Via: the id is not used as constructed but as it comes out of the ExpandedNodeID API, which sets the NamespaceURI (0x80) /
	// ServerIndex (0x40) flags in the embedded NodeID's mask: x-uri | x-idx | x-both (NewExpandedNodeID(n, uri, idx).NodeID),
	// x-decode (ExpandedNodeID encoded and decoded again), parse-nsu (ParseExpandedNodeID("nsu=<uri>;<id part>", table).NodeID)
	Via string `json:"via,omitempty"`
}

const viaURI = "urn:verif:ns"

var viaTable = []string{"http://opcfoundation.org/UA/", "urn:a", viaURI}
var viaKinds = []string{"x-uri", "x-idx", "x-both", "x-decode", "parse-nsu"}

// build constructs the id of a spec and then passes it through the ExpandedNodeID API when sp.Via is set.
func build(sp *spec) (n *ua.NodeID, wf bool, how string) {
	n, wf, how = build0(sp)
	if sp.Via == "" || sp.Ctor == "raw" || n == nil {
		return
	}
	defer func() {
		if r := recover(); r != nil { // the detour itself failed: keep the plain id
			n, wf, how = build0(sp)
		}
	}()
	switch sp.Via {
	case "x-uri":
		return ua.NewExpandedNodeID(n, viaURI, 0).NodeID, wf, "NewExpandedNodeID(" + how + ", uri, 0).NodeID"
	case "x-idx":
		return ua.NewExpandedNodeID(n, "", 3).NodeID, wf, "NewExpandedNodeID(" + how + ", \"\", 3).NodeID"
	case "x-both":
		return ua.NewExpandedNodeID(n, viaURI, 3).NodeID, wf, "NewExpandedNodeID(" + how + ", uri, 3).NodeID"
	case "x-decode":
		if !wf {
			return
		}
		b, err := ua.NewExpandedNodeID(n, viaURI, 2).Encode()
		if err != nil {
			return build0(sp)
		}
		var d ua.ExpandedNodeID
		if _, err := d.Decode(b); err != nil || d.NodeID == nil {
			return build0(sp)
		}
		return d.NodeID, wf, "decode(encode(NewExpandedNodeID(" + how + ", uri, 2))).NodeID"
	case "parse-nsu":
		if !wf {
			return
		}
		plain := *sp
		plain.Via = ""
		plain.Ns = 0
		m, _, _ := build0(&plain)
		text := "nsu=" + viaURI + ";" + m.String() // namespace 0 form: "<t>=<id>", or "ns=0;s=..." for ids with ';'
		if strings.HasPrefix(m.String(), "ns=0;") {
			text = "nsu=" + viaURI + ";" + m.String()[5:]
		}
		e, err := ua.ParseExpandedNodeID(text, viaTable)
		if err != nil {
			return build0(sp)
		}
		return e.NodeID, wf, fmt.Sprintf("ParseExpandedNodeID(%q, table).NodeID", text)
	}
	return
}

func withVia(sp *spec, via string) *spec {
	c := *sp
	c.Via = via
	return &c
}

// outcome: code 0 = ok (with the value), 1..11 = classified parse error, 98 = other error, 99 = panic.
type outcome struct {
	Code int     `json:"code"`
	ID   *view   `json:"id,omitempty"`
	X    *xview  `json:"x,omitempty"`
	B    *bool   `json:"b,omitempty"`
	S    *string `json:"s,omitempty"` // hex
	Msg  string  `json:"msg,omitempty"`
}

type kase struct {
	Kind string    `json:"kind"` // id | parse | pair
	Tag  string    `json:"tag,omitempty"`
	In   *spec     `json:"in,omitempty"`  // id
	A    *spec     `json:"a,omitempty"`   // pair
	B    *spec     `json:"b,omitempty"`   // pair
	S    *string   `json:"s,omitempty"`   // parse: hex
	Tbl  *[]string `json:"tbl,omitempty"` // parse: null = nil slice, else hex strings
}

type obs struct {
	kase
	// id
	How   string   `json:"how,omitempty"`
	Wf    *bool    `json:"wf,omitempty"`
	N     *view    `json:"n,omitempty"`
	Str   *outcome `json:"str,omitempty"`
	Parse *outcome `json:"parse,omitempty"`
	Equal *outcome `json:"equal,omitempty"`
	// parse
	Pe *outcome `json:"pe,omitempty"`
	Pn *outcome `json:"pn,omitempty"`
	// pair
	HowA string `json:"how_a,omitempty"`
	HowB string `json:"how_b,omitempty"`
	WfA  *bool  `json:"wf_a,omitempty"`
	WfB  *bool  `json:"wf_b,omitempty"`
	Va   *view  `json:"va,omitempty"`
	Vb   *view  `json:"vb,omitempty"`
}

func hx(b []byte) string  { return hex.EncodeToString(b) }
func hxs(s string) string { return hex.EncodeToString([]byte(s)) }
func phx(s string) *string {
	h := hxs(s)
	return &h
}
func unhx(s string) []byte {
	b, err := hex.DecodeString(s)
	if err != nil {
		fmt.Fprintln(os.Stderr, "bad hex in case:", s)
		os.Exit(2)
	}
	return b
}
func pb(b bool) *bool { return &b }

func clip(s string) string {
	if len(s) > 160 {
		return s[:160] + "..."
	}
	return s
}

// ---------------------------------------------------------------------------------------------- running the code

func viewOf(n *ua.NodeID) *view {
	if n == nil {
		return nil
	}
	mask, ns, nid, bid, gid := ua.VerifNodeIDFields(n)
	v := &view{Mask: int(mask), Ns: int(ns), Nid: int64(nid)}
	if bid != nil {
		s := hx(bid)
		v.Bid = &s
	}
	if gid != nil {
		v.Gid = &gview{D1: gid.Data1, D2: gid.Data2, D3: gid.Data3, D4: hx(gid.Data4)}
	}
	return v
}

// exact returns a slice with cap == len (so that slicing past len panics exactly as for a decoded value).
func exact(b []byte) []byte {
	out := make([]byte, len(b))
	copy(out, b)
	return out
}

// validGUIDText is the harness' own notion of "a 16 byte GUID in hex, dashes anywhere" (not the code under test).
func validGUIDText(s string) bool {
	h := strings.ReplaceAll(s, "-", "")
	if len(h) != 32 {
		return false
	}
	for i := 0; i < len(h); i++ {
		c := h[i]
		if !(c >= '0' && c <= '9' || c >= 'a' && c <= 'f' || c >= 'A' && c <= 'F') {
			return false
		}
	}
	return true
}

func build0(sp *spec) (n *ua.NodeID, wf bool, how string) {
	str := ""
	var raw []byte
	if sp.Str != nil {
		raw = unhx(*sp.Str)
		str = string(raw)
	}
	switch sp.Ctor {
	case "NewTwoByteNodeID":
		return ua.NewTwoByteNodeID(uint8(sp.ID)), sp.ID < 1<<8, fmt.Sprintf("NewTwoByteNodeID(%d)", sp.ID)
	case "NewFourByteNodeID":
		return ua.NewFourByteNodeID(uint8(sp.Ns), uint16(sp.ID)), sp.Ns < 1<<8 && sp.ID < 1<<16, fmt.Sprintf("NewFourByteNodeID(%d, %d)", sp.Ns, sp.ID)
	case "NewNumericNodeID":
		return ua.NewNumericNodeID(uint16(sp.Ns), uint32(sp.ID)), sp.Ns < 1<<16 && sp.ID < 1<<32, fmt.Sprintf("NewNumericNodeID(%d, %d)", sp.Ns, sp.ID)
	case "NewStringNodeID":
		return ua.NewStringNodeID(uint16(sp.Ns), str), sp.Ns < 1<<16, fmt.Sprintf("NewStringNodeID(%d, %q)", sp.Ns, str)
	case "NewGUIDNodeID":
		// any string: an invalid GUID text gives the zero GUID
		return ua.NewGUIDNodeID(uint16(sp.Ns), str), sp.Ns < 1<<16, fmt.Sprintf("NewGUIDNodeID(%d, %q)", sp.Ns, str)
	case "decode":
		// (*NodeID).Decode of arbitrary (possibly truncated) bytes, error ignored: whatever state the public API leaves behind
		n := &ua.NodeID{}
		_, err := n.Decode(raw)
		m, _, _, _, g := ua.VerifNodeIDFields(n)
		t := m & 0xf
		return n, t <= 5 && (t != 4 || g != nil), fmt.Sprintf("new(NodeID).Decode(%x) (err=%v)", raw, err)
	case "NewByteStringNodeID":
		if sp.Str == nil {
			return ua.NewByteStringNodeID(uint16(sp.Ns), nil), sp.Ns < 1<<16, fmt.Sprintf("NewByteStringNodeID(%d, nil)", sp.Ns)
		}
		return ua.NewByteStringNodeID(uint16(sp.Ns), exact(raw)), sp.Ns < 1<<16, fmt.Sprintf("NewByteStringNodeID(%d, %x)", sp.Ns, raw)
	case "raw":
		r := sp.Raw
		if r == nil {
			r = &view{}
		}
		var bid []byte
		if r.Bid != nil {
			bid = exact(unhx(*r.Bid))
		}
		var gid *ua.GUID
		gs := "nil"
		if r.Gid != nil {
			gid = &ua.GUID{Data1: r.Gid.D1, Data2: r.Gid.D2, Data3: r.Gid.D3, Data4: exact(unhx(r.Gid.D4))}
			gs = fmt.Sprintf("&GUID{%#x, %#x, %#x, %x}", r.Gid.D1, r.Gid.D2, r.Gid.D3, gid.Data4)
		}
		bs := "nil"
		if bid != nil {
			bs = fmt.Sprintf("%x", bid)
		}
		// well-formed = a value of the struct the public API can produce: valid type nibble, field ranges of that encoding,
		// a GUID id has a GUID (Data4 of ANY length: the GUID struct is exported)
		t := r.Mask & 0xf
		wfRaw := r.Mask >= 0 && r.Mask < 256 && r.Ns >= 0 && r.Ns < 1<<16 && r.Nid >= 0 && r.Nid < 1<<32 &&
			((t == 0 && r.Ns == 0 && r.Nid < 256) || (t == 1 && r.Ns < 256 && r.Nid < 1<<16) || t == 2 || t == 3 || (t == 4 && gid != nil) || t == 5)
		return ua.VerifMakeNodeID(byte(r.Mask), uint16(r.Ns), uint32(r.Nid), bid, gid), wfRaw,
			fmt.Sprintf("raw{mask:%#x, ns:%d, nid:%d, bid:%s, gid:%s}", byte(r.Mask), uint16(r.Ns), uint32(r.Nid), bs, gs)
	}
	fmt.Fprintln(os.Stderr, "unknown ctor:", sp.Ctor)
	os.Exit(2)
	return nil, false, ""
}

func classify(err error) int {
	m := strings.TrimPrefix(err.Error(), "opcua: ")
	// the messages end with the (hostile) input, so only the fixed head of each message is looked at
	switch {
	case strings.HasPrefix(m, "namespace urls require a server NamespaceArray"):
		return 1
	case strings.HasPrefix(m, "namespace uri nsu=") && strings.Contains(m, "not found in the server NamespaceArray"):
		return 2
	case strings.HasPrefix(m, "invalid namespace id"):
		return 3
	case strings.HasPrefix(m, "namespace id out of range"):
		return 4
	case strings.HasPrefix(m, "invalid numeric id"):
		return 6
	case strings.HasPrefix(m, "numeric id out of range"):
		return 7
	case strings.HasPrefix(m, "invalid guid node id"):
		return 8
	case strings.HasPrefix(m, "invalid opaque node id"):
		return 9
	case strings.HasPrefix(m, "invalid node id"):
		return 5
	case strings.HasPrefix(m, "namespace uris are not supported"):
		return 10
	case strings.HasPrefix(m, "server index is not supported"):
		return 11
	}
	return 98
}

func doString(n *ua.NodeID) (s string, o *outcome) {
	o = &outcome{}
	defer func() {
		if r := recover(); r != nil {
			o.Code, o.S, o.Msg = 99, nil, clip(fmt.Sprint(r))
		}
	}()
	s = n.String()
	o.S = phx(s)
	return
}

func doParseNodeID(s string) (n *ua.NodeID, o *outcome) {
	o = &outcome{}
	defer func() {
		if r := recover(); r != nil {
			n = nil
			o.Code, o.ID, o.Msg = 99, nil, clip(fmt.Sprint(r))
		}
	}()
	p, err := ua.ParseNodeID(s)
	switch {
	case err != nil:
		o.Code, o.Msg = classify(err), clip(err.Error())
	case p == nil:
		o.Code, o.Msg = 98, "nil NodeID without an error"
	default:
		n, o.ID = p, viewOf(p)
	}
	return
}

func doParseExpanded(s string, tbl []string) (o *outcome) {
	o = &outcome{}
	defer func() {
		if r := recover(); r != nil {
			o.Code, o.X, o.Msg = 99, nil, clip(fmt.Sprint(r))
		}
	}()
	e, err := ua.ParseExpandedNodeID(s, tbl)
	switch {
	case err != nil:
		o.Code, o.Msg = classify(err), clip(err.Error())
	case e == nil || e.NodeID == nil:
		o.Code, o.Msg = 98, "nil ExpandedNodeID without an error"
	default:
		o.X = &xview{ID: viewOf(e.NodeID), Nsu: hxs(e.NamespaceURI), Idx: e.ServerIndex}
	}
	return
}

func doEqual(a, b *ua.NodeID) (o *outcome) {
	o = &outcome{}
	defer func() {
		if r := recover(); r != nil {
			o.Code, o.B, o.Msg = 99, nil, clip(fmt.Sprint(r))
		}
	}()
	o.B = pb(a.Equal(b))
	return
}

func run(k kase) obs {
	o := obs{kase: k}
	switch k.Kind {
	case "id":
		n, wf, how := build(k.In)
		o.How, o.Wf, o.N = how, pb(wf), viewOf(n)
		s, so := doString(n)
		o.Str = so
		if so.Code != 0 {
			return o
		}
		p, po := doParseNodeID(s)
		o.Parse = po
		if p != nil {
			o.Equal = doEqual(n, p)
		}
	case "parse":
		s := string(unhx(*k.S))
		var tbl []string
		if k.Tbl != nil {
			tbl = make([]string, 0, len(*k.Tbl))
			for _, u := range *k.Tbl {
				tbl = append(tbl, string(unhx(u)))
			}
		}
		o.Pe = doParseExpanded(s, tbl)
		_, o.Pn = doParseNodeID(s)
	case "pair":
		a, wfa, howa := build(k.A)
		b, wfb, howb := build(k.B)
		o.HowA, o.HowB, o.WfA, o.WfB, o.Va, o.Vb = howa, howb, pb(wfa), pb(wfb), viewOf(a), viewOf(b)
		o.Equal = doEqual(a, b)
	default:
		fmt.Fprintln(os.Stderr, "unknown kind:", k.Kind)
		os.Exit(2)
	}
	return o
}

// ---------------------------------------------------------------------------------------------- generators

type G struct{ r *rng.R }

var nsPool = []int{0, 0, 0, 1, 1, 2, 255, 256, 65535, 7, 100}
var numPool = []uint64{0, 1, 5, 255, 256, 65534, 65535, 65536, 1<<32 - 1, 1<<32 - 2, 84, 2253}

func (g *G) ns() uint64 {
	if g.r.Intn(5) == 0 {
		return uint64(g.r.Intn(1 << 16))
	}
	return uint64(nsPool[g.r.Intn(len(nsPool))])
}

func (g *G) num() uint64 {
	switch g.r.Intn(6) {
	case 0:
		return uint64(g.r.U64() & 0xffffffff)
	case 1:
		return uint64(g.r.Intn(70000))
	}
	return numPool[g.r.Intn(len(numPool))]
}

var tokens = []string{"ns=", "nsu=", "i=", "s=", "g=", "b=", ";", "=", ";;", "0", "1", "5", "65535", "65536", "uri", "-", "+", "\n", "\r\n",
	"YQ==", "foo", "bar", " ", "a", "ns=0", "ns=1;", "i=5", "s=a;b", "\x00", "\xff", "ü", "ns=2;s=foo;bar", "nsu=uri;", "%", "ns", "svr=1;"}

// hostile identifier text for string node ids
func (g *G) hostile() string {
	r := g.r
	switch r.Intn(12) {
	case 0:
		return ""
	case 1:
		return []string{";", "=", "ns=", "nsu=", "i=", "s=", "g=", "b=", "a;b", ";a", "a;", ";;", "ns=1;i=5", "i=5", "s=x", "ns=0;s=x", "s=a;b",
			"\n", "a\nb", "\r\n", "nsu=uri;s=x", "b=YQ==", "g=", "ns=;", "ns=65536;i=1", " ", "\x00", "ns=0"}[r.Intn(28)]
	case 2, 3:
		return string(r.Bytes(r.Range(1, 12)))
	case 4:
		return string(r.Bytes(r.Range(13, 70)))
	case 5, 6, 7:
		var sb strings.Builder
		for i, n := 0, r.Range(1, 5); i < n; i++ {
			sb.WriteString(tokens[r.Intn(len(tokens))])
		}
		return sb.String()
	case 8:
		return []string{"foo", "Demo.Static.Scalar.Int32", "Objects/Server", "1", "0", "true", "http://x/y?a=b;c=d"}[r.Intn(7)]
	case 9:
		// a few printable chars around separators
		b := r.Bytes(r.Range(1, 8))
		for i := range b {
			b[i] = ";=nsuigb0159 -+\n"[int(b[i])%16]
		}
		return string(b)
	default:
		b := r.Bytes(r.Range(1, 10))
		for i := range b {
			b[i] = 0x20 + b[i]%0x5f
		}
		return string(b)
	}
}

func guidFmt(b []byte, style int, r *rng.R) string {
	up := fmt.Sprintf("%X-%X-%X-%X-%X", b[0:4], b[4:6], b[6:8], b[8:10], b[10:16])
	switch style {
	case 0:
		return up
	case 1:
		return strings.ToLower(up)
	case 2: // mixed case
		bs := []byte(up)
		for i := range bs {
			if r.Bool() {
				bs[i] = strings.ToLower(string(bs[i]))[0]
			}
		}
		return string(bs)
	case 3: // no dashes
		return strings.ReplaceAll(up, "-", "")
	case 4: // extra dashes
		return "-" + strings.ReplaceAll(up, "-", "--") + "-"
	default: // dashes in odd places
		h := strings.ReplaceAll(up, "-", "")
		p := r.Range(1, len(h)-1)
		return h[:p] + "-" + h[p:]
	}
}

func (g *G) guidBytes() []byte {
	switch g.r.Intn(6) {
	case 0:
		return make([]byte, 16)
	case 1:
		b := make([]byte, 16)
		for i := range b {
			b[i] = 0xff
		}
		return b
	case 2: // leading zero bytes in every field (the %0*X paddings matter)
		b := g.r.Bytes(16)
		b[0], b[4], b[6], b[8], b[10] = 0, 0, 0, 0, 0
		if g.r.Bool() {
			b[1], b[5], b[7], b[9], b[11] = 0, 0, 0, 0, 0x0a
		}
		return b
	}
	return g.r.Bytes(16)
}

func (g *G) guidText(valid bool) string {
	r := g.r
	if valid {
		return guidFmt(g.guidBytes(), r.Intn(6), r)
	}
	s := guidFmt(g.guidBytes(), r.Intn(4), r)
	switch r.Intn(9) {
	case 0:
		return ""
	case 1:
		return s[:len(s)-1] // odd length
	case 2:
		return s[:len(s)-2] // 15 bytes
	case 3:
		return s + "AB" // 17 bytes
	case 4:
		p := r.Intn(len(s))
		return s[:p] + "G" + s[p+1:] // a non-hex character (or a dash replaced: then 31/33 digits)
	case 5:
		return "{" + s + "}"
	case 6:
		return s + " "
	case 7:
		return string(r.Bytes(r.Range(1, 20)))
	default:
		return "not-a-guid"
	}
}

func (g *G) blob() []byte {
	r := g.r
	switch r.Intn(8) {
	case 0:
		return []byte{}
	case 1:
		return r.Bytes(r.Range(1, 4))
	case 2:
		return []byte(g.hostile())
	case 3:
		return r.Bytes(r.Range(30, 80))
	case 4: // bytes whose base64 has '+' and '/'
		return []byte{0xfb, 0xff, 0xbf, 0xfe, 0x3f}[:r.Range(1, 5)]
	}
	return r.Bytes(r.Range(1, 16))
}

func rawSpec(mask int, ns int, nid int64, bid *string, gid *gview) *spec {
	return &spec{Ctor: "raw", Raw: &view{Mask: mask, Ns: ns, Nid: nid, Bid: bid, Gid: gid}}
}

func (g *G) rawID() *spec {
	r := g.r
	flags := []int{0, 0, 0, 0x80, 0x40, 0xc0, 0x10, 0x20, 0xf0}[r.Intn(9)]
	ns := int(g.ns())
	switch r.Intn(9) {
	case 0: // invalid type nibble
		return rawSpec(r.Range(6, 15)|flags, ns, int64(g.num()), nil, nil)
	case 1: // GUID with a nil pointer
		return rawSpec(4|flags, ns, 0, nil, nil)
	case 2, 3: // GUID with a Data4 of the wrong length
		k := []int{0, 1, 2, 3, 7, 8, 9}[r.Intn(7)]
		return rawSpec(4|flags, ns, 0, nil, &gview{D1: uint32(r.U64()), D2: uint16(r.U64()), D3: uint16(r.U64()), D4: hx(r.Bytes(k))})
	case 4: // two byte id with a namespace and/or an id that does not fit
		return rawSpec(0|flags, r.Pick(1, 255, 256, 65535, ns), int64(r.Pick(0, 5, 255, 256, 65536, int(g.num()))), nil, nil)
	case 5: // four byte id out of its range
		return rawSpec(1|flags, r.Pick(0, 255, 256, 65535), int64(r.Pick(0, 65535, 65536, 1<<32-1)), nil, nil)
	case 6: // string / opaque with a nil slice, or with fields of the other types also set
		t := r.Pick(3, 5)
		if r.Bool() {
			return rawSpec(t|flags, ns, int64(g.num()), nil, nil)
		}
		return rawSpec(t|flags, ns, int64(g.num()), phx(g.hostile()), &gview{D4: hx(r.Bytes(8))})
	case 7: // numeric with a byte id set as well
		return rawSpec(2|flags, ns, int64(g.num()), phx("x"), nil)
	default: // a valid value with flag bits in the mask
		t := r.Intn(6)
		switch t {
		case 3, 5:
			return rawSpec(t|flags, ns, 0, phx(g.hostile()), nil)
		case 4:
			b := g.guidBytes()
			return rawSpec(t|flags, ns, 0, nil, &gview{D1: uint32(b[0])<<24 | uint32(b[1])<<16 | uint32(b[2])<<8 | uint32(b[3]),
				D2: uint16(b[4])<<8 | uint16(b[5]), D3: uint16(b[6])<<8 | uint16(b[7]), D4: hx(b[8:])})
		case 0:
			return rawSpec(t|flags, 0, int64(g.num()&0xff), nil, nil)
		case 1:
			return rawSpec(t|flags, ns&0xff, int64(g.num()&0xffff), nil, nil)
		}
		return rawSpec(t|flags, ns, int64(g.num()), nil, nil)
	}
}

// ctorID: a value built by a public constructor. guidValid: percentage of GUID texts that are valid.
func (g *G) ctorID(guidValid int) *spec {
	r := g.r
	switch r.Intn(12) {
	case 0:
		return &spec{Ctor: "NewTwoByteNodeID", ID: uint64(r.Pick(0, 1, 5, 254, 255, r.Intn(256)))}
	case 1:
		return &spec{Ctor: "NewFourByteNodeID", Ns: uint64(r.Pick(0, 0, 1, 255, r.Intn(256))), ID: uint64(r.Pick(0, 5, 255, 256, 65534, 65535, r.Intn(65536)))}
	case 2, 3:
		return &spec{Ctor: "NewNumericNodeID", Ns: g.ns(), ID: g.num()}
	case 4, 5, 6, 7:
		return &spec{Ctor: "NewStringNodeID", Ns: g.ns(), Str: phx(g.hostile())}
	case 8, 9:
		return &spec{Ctor: "NewGUIDNodeID", Ns: g.ns(), Str: phx(g.guidText(r.Intn(100) < guidValid))}
	default:
		if r.Intn(10) == 0 {
			return &spec{Ctor: "NewByteStringNodeID", Ns: g.ns()}
		}
		return &spec{Ctor: "NewByteStringNodeID", Ns: g.ns(), Str: phx(string(g.blob()))}
	}
}

func (g *G) genID(n int) []kase {
	var out []kase
	add := func(tag string, sp *spec) {
		if tag == "ctor" && g.r.Intn(100) < 30 {
			sp = withVia(sp, viaKinds[g.r.Intn(len(viaKinds))])
		}
		out = append(out, kase{Kind: "id", Tag: tag, In: sp})
	}
	// ids as they come out of the ExpandedNodeID API (flags in the mask)
	for _, via := range viaKinds {
		add("via", withVia(&spec{Ctor: "NewStringNodeID", Ns: 2, Str: phx("x")}, via))
		add("via", withVia(&spec{Ctor: "NewGUIDNodeID", Ns: 2, Str: phx("AAAABBBB-CCCC-DDDD-EEEE-FFFFFFFFFFFF")}, via))
		add("via", withVia(&spec{Ctor: "NewByteStringNodeID", Ns: 2, Str: phx("abc")}, via))
		add("via", withVia(&spec{Ctor: "NewNumericNodeID", Ns: 2, ID: 70000}, via))
	}
	// boundary values first
	for _, v := range []uint64{0, 1, 255} {
		add("b", &spec{Ctor: "NewTwoByteNodeID", ID: v})
	}
	for _, ns := range []uint64{0, 1, 255} {
		for _, v := range []uint64{0, 255, 256, 65534, 65535} {
			add("b", &spec{Ctor: "NewFourByteNodeID", Ns: ns, ID: v})
		}
	}
	for _, ns := range []uint64{0, 1, 255, 256, 65535} {
		for _, v := range []uint64{0, 255, 256, 65534, 65535, 65536, 1<<32 - 1} {
			add("b", &spec{Ctor: "NewNumericNodeID", Ns: ns, ID: v})
		}
	}
	for _, s := range []string{"", "a;b", ";", ";a", ";;", ";ns=2;i=5", "a;", "s=a;b", "ns=1;i=5", "i=5", "=", "nsu=uri;s=x", "a\nb", "foo", "ns=", "b=", "g=", "\x00\xff"} {
		add("b", &spec{Ctor: "NewStringNodeID", Ns: 0, Str: phx(s)})
		add("b", &spec{Ctor: "NewStringNodeID", Ns: 1, Str: phx(s)})
	}
	add("b", &spec{Ctor: "NewStringNodeID", Ns: 65535, Str: phx("x;y")})
	for _, s := range []string{"AAAABBBB-CCCC-DDDD-EEEE-FFFFFFFFFFFF", "00000000-0000-0000-0000-000000000000", "0000000a-000b-000c-000d-00000000000e",
		"72962B91FA754AE68D28B404DC7DAF63", "", "x", "AAAABBBB-CCCC-DDDD-EEEE-FFFFFFFFFF", "AAAABBBB-CCCC-DDDD-EEEE-FFFFFFFFFFFFFF"} {
		add("b", &spec{Ctor: "NewGUIDNodeID", Ns: 0, Str: phx(s)})
		add("b", &spec{Ctor: "NewGUIDNodeID", Ns: 2, Str: phx(s)})
	}
	add("b", &spec{Ctor: "NewByteStringNodeID", Ns: 0})
	for _, b := range []string{"", "a", "ab", "abc", "abcd", "\xfb\xff\xbf", "\x00", ";=;"} {
		add("b", &spec{Ctor: "NewByteStringNodeID", Ns: 0, Str: phx(b)})
		add("b", &spec{Ctor: "NewByteStringNodeID", Ns: 65535, Str: phx(b)})
	}
	for k := 0; k <= 9; k++ {
		add("b", rawSpec(4, 0, 0, nil, &gview{D1: 1, D2: 2, D3: 3, D4: hx(make([]byte, k))}))
	}
	add("b", rawSpec(4, 3, 0, nil, nil))
	// GUID node ids decoded from truncated buffers (type 4, ns, then fewer than 16 GUID bytes)
	for k := 0; k <= 16; k++ {
		b := append([]byte{4, 7, 0}, make([]byte, k)...)
		for i := 3; i < len(b); i++ {
			b[i] = byte(0x10 + i)
		}
		add("b", &spec{Ctor: "decode", Str: phx(string(b))})
	}
	add("b", &spec{Ctor: "decode", Str: phx("\x04")})
	add("b", &spec{Ctor: "decode", Str: phx("\x03\x01\x00\x02\x00\x00\x00ab")})
	for t := 6; t <= 15; t++ {
		add("b", rawSpec(t, 0, 0, nil, nil))
	}
	add("b", rawSpec(0, 7, 5, nil, nil))
	if len(out) > n {
		// keep a spread of the boundary block when few cases are asked for
		step := (len(out) + n - 1) / n
		var keep []kase
		for i := 0; i < len(out); i += step {
			keep = append(keep, out[i])
		}
		out = keep
	}
	for len(out) < n {
		if g.r.Intn(100) < 18 {
			add("raw", g.rawID())
		} else {
			add("ctor", g.ctorID(75))
		}
	}
	return out
}

func (g *G) genPair(n int) []kase {
	r := g.r
	var out []kase
	add := func(tag string, a, b *spec) {
		if r.Bool() {
			a, b = b, a
		}
		if a.Ctor != "raw" && a.Via == "" && r.Intn(100) < 35 {
			a = withVia(a, viaKinds[r.Intn(4)]) // not parse-nsu: it changes the namespace
		}
		if b.Ctor != "raw" && b.Via == "" && r.Intn(100) < 12 {
			b = withVia(b, viaKinds[r.Intn(4)])
		}
		out = append(out, kase{Kind: "pair", Tag: tag, A: a, B: b})
	}
	for _, via := range viaKinds {
		out = append(out, kase{Kind: "pair", Tag: "via", A: withVia(&spec{Ctor: "NewStringNodeID", Ns: 2, Str: phx("x")}, via), B: &spec{Ctor: "NewStringNodeID", Ns: 2, Str: phx("x")}})
		out = append(out, kase{Kind: "pair", Tag: "via", A: withVia(&spec{Ctor: "NewByteStringNodeID", Ns: 2, Str: phx("abc")}, via), B: &spec{Ctor: "NewByteStringNodeID", Ns: 2, Str: phx("abc")}})
		out = append(out, kase{Kind: "pair", Tag: "via", A: withVia(&spec{Ctor: "NewGUIDNodeID", Ns: 2, Str: phx("AAAABBBB-CCCC-DDDD-EEEE-FFFFFFFFFFFF")}, via), B: withVia(&spec{Ctor: "NewGUIDNodeID", Ns: 2, Str: phx("aaaabbbbccccddddeeeeffffffffffff")}, "x-idx")})
	}
	numEnc := func(ns, v uint64) []*spec {
		var l []*spec
		if v < 256 && (ns == 0 || r.Intn(4) == 0) {
			l = append(l, &spec{Ctor: "NewTwoByteNodeID", ID: v})
		}
		if ns < 256 && v < 65536 {
			l = append(l, &spec{Ctor: "NewFourByteNodeID", Ns: ns, ID: v})
		}
		l = append(l, &spec{Ctor: "NewNumericNodeID", Ns: ns, ID: v})
		return l
	}
	// fixed: the same number in the three encodings
	add("num", &spec{Ctor: "NewTwoByteNodeID", ID: 5}, &spec{Ctor: "NewFourByteNodeID", Ns: 0, ID: 5})
	add("num", &spec{Ctor: "NewTwoByteNodeID", ID: 5}, &spec{Ctor: "NewNumericNodeID", Ns: 0, ID: 5})
	add("num", &spec{Ctor: "NewFourByteNodeID", Ns: 0, ID: 5}, &spec{Ctor: "NewNumericNodeID", Ns: 0, ID: 5})
	add("num", &spec{Ctor: "NewTwoByteNodeID", ID: 5}, &spec{Ctor: "NewFourByteNodeID", Ns: 1, ID: 5})
	add("num", &spec{Ctor: "NewFourByteNodeID", Ns: 255, ID: 65535}, &spec{Ctor: "NewNumericNodeID", Ns: 255, ID: 65535})
	add("strbytes", &spec{Ctor: "NewStringNodeID", Ns: 1, Str: phx("YQ==")}, &spec{Ctor: "NewByteStringNodeID", Ns: 1, Str: phx("a")})
	add("strbytes", &spec{Ctor: "NewStringNodeID", Ns: 1, Str: phx("a")}, &spec{Ctor: "NewByteStringNodeID", Ns: 1, Str: phx("a")})
	add("strnum", &spec{Ctor: "NewStringNodeID", Ns: 1, Str: phx("5")}, &spec{Ctor: "NewNumericNodeID", Ns: 1, ID: 5})
	add("strns", &spec{Ctor: "NewStringNodeID", Ns: 0, Str: phx("ns=1;s=x")}, &spec{Ctor: "NewStringNodeID", Ns: 1, Str: phx("x")})
	add("strns", &spec{Ctor: "NewStringNodeID", Ns: 0, Str: phx("x;ns=1")}, &spec{Ctor: "NewStringNodeID", Ns: 1, Str: phx("x")})
	add("strns", &spec{Ctor: "NewStringNodeID", Ns: 0, Str: phx("a;b")}, &spec{Ctor: "NewStringNodeID", Ns: 0, Str: phx("a;b")})
	add("strns", &spec{Ctor: "NewStringNodeID", Ns: 1, Str: phx("0;s=a")}, &spec{Ctor: "NewStringNodeID", Ns: 10, Str: phx("a")})
	add("bytes", &spec{Ctor: "NewByteStringNodeID", Ns: 0}, &spec{Ctor: "NewByteStringNodeID", Ns: 0, Str: phx("")})
	add("guid", &spec{Ctor: "NewGUIDNodeID", Ns: 0, Str: phx("aaaabbbb-cccc-dddd-eeee-ffffffffffff")}, &spec{Ctor: "NewGUIDNodeID", Ns: 0, Str: phx("AAAABBBBCCCCDDDDEEEEFFFFFFFFFFFF")})
	add("guid", &spec{Ctor: "NewGUIDNodeID", Ns: 0, Str: phx("")}, &spec{Ctor: "NewGUIDNodeID", Ns: 0, Str: phx("zz")})
	if len(out) > n {
		out = out[:n]
	}
	for len(out) < n {
		switch r.Intn(12) {
		case 0, 1, 2: // same / neighbouring number in different numeric encodings
			ns, v := uint64(r.Pick(0, 0, 1, 255, 256, int(g.ns()))), uint64(r.Pick(0, 5, 255, 256, 65534, 65535, 65536, int(g.num())))
			ea := numEnc(ns, v)
			ns2, v2 := ns, v
			switch r.Intn(5) {
			case 0:
				ns2 = uint64(r.Pick(0, 1, int(ns)+1)) & 0xffff
			case 1:
				v2 = uint64(r.Pick(int(v)+1, int(v)^256, 0)) & 0xffffffff
			}
			eb := numEnc(ns2, v2)
			add("num", ea[r.Intn(len(ea))], eb[r.Intn(len(eb))])
		case 3: // same bytes as String and ByteString; or base64 text as string
			ns, b := g.ns(), g.blob()
			sb := &spec{Ctor: "NewByteStringNodeID", Ns: ns, Str: phx(string(b))}
			switch r.Intn(3) {
			case 0:
				add("strbytes", &spec{Ctor: "NewStringNodeID", Ns: ns, Str: phx(string(b))}, sb)
			case 1:
				add("strbytes", &spec{Ctor: "NewStringNodeID", Ns: ns, Str: phx(base64.StdEncoding.EncodeToString(b))}, sb)
			default:
				add("strbytes", &spec{Ctor: "NewByteStringNodeID", Ns: ns, Str: phx(string(b))}, sb)
			}
		case 4, 5: // strings: same ns different id, same id different ns, identical, separators moved between ns and id
			ns, s := g.ns(), g.hostile()
			a := &spec{Ctor: "NewStringNodeID", Ns: ns, Str: phx(s)}
			switch r.Intn(6) {
			case 0:
				add("str", a, &spec{Ctor: "NewStringNodeID", Ns: ns, Str: phx(s)})
			case 1:
				add("str", a, &spec{Ctor: "NewStringNodeID", Ns: g.ns(), Str: phx(s)})
			case 2:
				add("str", a, &spec{Ctor: "NewStringNodeID", Ns: ns, Str: phx(s + string(r.Bytes(1)))})
			case 3: // what a's rendering would be if read as an id in namespace 0
				add("str", a, &spec{Ctor: "NewStringNodeID", Ns: 0, Str: phx(fmt.Sprintf("ns=%d;s=%s", ns, s))})
			case 4:
				add("str", &spec{Ctor: "NewStringNodeID", Ns: 0, Str: phx(s)}, &spec{Ctor: "NewStringNodeID", Ns: 0, Str: phx("s=" + s)})
			default:
				add("str", a, &spec{Ctor: "NewStringNodeID", Ns: ns, Str: phx(g.hostile())})
			}
		case 6, 7: // GUIDs: same value in different spellings; one byte different; different ns
			b := g.guidBytes()
			ns := g.ns()
			a := &spec{Ctor: "NewGUIDNodeID", Ns: ns, Str: phx(guidFmt(b, r.Intn(6), r))}
			b2 := append([]byte(nil), b...)
			ns2 := ns
			switch r.Intn(4) {
			case 0:
				b2[r.Intn(16)] ^= byte(1 << r.Intn(8))
			case 1:
				ns2 = g.ns()
			}
			add("guid", a, &spec{Ctor: "NewGUIDNodeID", Ns: ns2, Str: phx(guidFmt(b2, r.Intn(6), r))})
		case 8: // the same spec twice
			a := g.ctorID(90)
			c := *a
			add("same", a, &c)
		case 9: // raw values (outside the property's quantifier; model correspondence only)
			if r.Bool() {
				add("raw", g.rawID(), g.rawID())
			} else {
				add("raw", g.rawID(), g.ctorID(90))
			}
		default:
			add("indep", g.ctorID(90), g.ctorID(90))
		}
	}
	return out
}

// ---- parse strings

var fixedParse = []string{
	"", "i=0", "i=255", "i=256", "i=65534", "i=65535", "i=65536", "i=4294967295", "i=4294967296", "i=18446744073709551615", "i=18446744073709551616",
	"i=+5", "i=-5", "i=", "i= 5", "i=5 ", "i=0x10", "i=007", "i=1_0", "i=5;", "i=5;i=6",
	"ns=0;i=5", "ns=1;i=5", "ns=255;i=65534", "ns=255;i=65535", "ns=256;i=5", "ns=65535;i=4294967295", "ns=65536;i=1", "ns=+5;i=1", "ns=-0;i=1", "ns=-1;i=1",
	"ns=1_0;i=1", "ns=99999999999999999999;i=1", "ns=9223372036854775807;i=1", "ns=9223372036854775808;i=1", "ns=-9223372036854775808;i=1", "ns=;i=1",
	"ns= 1;i=1", "ns=007;i=1", "ns=0x1;i=1", "ns=1;ns=2;i=3", "ns=1;", "ns=1", "ns=", "ns", "ns=1;;", ";", ";;", ";i=1", "=", "=;=",
	"nsu=uri;i=1", "nsu=uri;i=300", "nsu=uri;s=x", "nsu=;i=1", "nsu=;i=300", "nsu=nope;i=1", "nsu=uri", "nsu=", "nsu=uri;ns=1;i=1", "nsu=http://opcfoundation.org/UA/;i=2253",
	"nsu=uri;g=AAAABBBB-CCCC-DDDD-EEEE-FFFFFFFFFFFF", "nsu=uri;b=YQ==", "nsu=uri;foo", "nsu=uri;i=x", "NSU=uri;i=1", "NS=1;i=1", "svr=1;i=5", "ns=1;svr=1;i=5",
	"s=", "s=a;b", "ns=0;s=a;b", "ns=1;s=", "ns=1;s=a;b;c", "ns=1;s=ns=2;s=x", "s=s=", "S=x", "I=5",
	"foo", "foo;bar", "foo=bar", "ns=1;foo", "ns=1;x=y", "ns=0;ns=0", " i=5", "\ni=5", "i", "s", "g", "b",
	"g=AAAABBBB-CCCC-DDDD-EEEE-FFFFFFFFFFFF", "g=aaaabbbb-cccc-dddd-eeee-ffffffffffff", "g=aaaaBBBB-cCcC-DdDd-eeee-FFFFffffFFFF", "g=AAAABBBBCCCCDDDDEEEEFFFFFFFFFFFF",
	"g=-AAAA-BBBB-CCCC-DDDD-EEEE-FFFF-FFFF-FFFF-", "g=--------------------------------", "g=AAAABBBB-CCCC-DDDD-EEEE-FFFFFFFFFFF", "g=AAAABBBB-CCCC-DDDD-EEEE-FFFFFFFFFF",
	"g=AAAABBBB-CCCC-DDDD-EEEE-FFFFFFFFFFFFFF", "g=AAAABBBB-CCCC-DDDD-EEEE-FFFFFFFFFFFG", "g=", "g=-", "g=00000000-0000-0000-0000-000000000000", "ns=3;g=0000000a-000b-000c-000d-00000000000e",
	"g={AAAABBBB-CCCC-DDDD-EEEE-FFFFFFFFFFFF}", "g=AAAABBBB-CCCC-DDDD-EEEE-FFFFFFFFFFFF ", "G=AAAABBBB-CCCC-DDDD-EEEE-FFFFFFFFFFFF",
	"b=", "b=YQ==", "b=YWI=", "b=YWJj", "b=YWJjZA==", "b=YQ", "b=YQ=", "b=YQ===", "b=YQ=\n=", "b=Y\nQ\r\n==", "b=YQ==\n", "b=\nYQ==", "b=YQ==YQ==", "b=YQ==x", "b=YWJj!",
	"b=YR==", "b=YWI", "b=YWJ=", "b=====", "b==", "b=Y", "b=+/+/", "b=-_-_", "b=YW Jj", "b=\r\n", "b=YWJj\r\nZGVm", "ns=1;b=YQ==", "ns=65535;b=+/8=", "b=YQ==;", "B=YQ==",
}

func (g *G) table(want string, hasWant bool) *[]string {
	r := g.r
	if r.Intn(100) < 35 {
		return nil
	}
	pool := []string{"", "uri", "http://opcfoundation.org/UA/", "urn:a;b", "ns=1", "nope", "URI", "uri "}
	var t []string
	for i, n := 0, r.Pick(0, 1, 2, 3, 4, 5); i < n; i++ {
		if r.Intn(8) == 0 {
			t = append(t, string(r.Bytes(r.Range(1, 4))))
		} else {
			t = append(t, pool[r.Intn(len(pool))])
		}
	}
	if hasWant && r.Intn(100) < 70 {
		p := r.Intn(len(t) + 1)
		t = append(t[:p:p], append([]string{want}, t[p:]...)...)
		if r.Intn(4) == 0 {
			t = append(t, want) // duplicate: the first one wins
		}
	}
	out := make([]string, len(t))
	for i, u := range t {
		out[i] = hxs(u)
	}
	return &out
}

func b64nl(s string, r *rng.R) string {
	// base64 text with \r and \n sprinkled in (the decoder skips them)
	var sb strings.Builder
	for i := 0; i < len(s); i++ {
		if r.Intn(5) == 0 {
			sb.WriteString([]string{"\n", "\r", "\r\n"}[r.Intn(3)])
		}
		sb.WriteByte(s[i])
	}
	if r.Intn(3) == 0 {
		sb.WriteString("\n")
	}
	return sb.String()
}

// validText: a string the parser should accept. uri != "" when an nsu= prefix was used.
func (g *G) validText() (s string, uri string, hasURI bool) {
	r := g.r
	var id string
	switch r.Intn(10) {
	case 0, 1:
		id = fmt.Sprintf("i=%d", g.num())
		if r.Intn(8) == 0 {
			id = fmt.Sprintf("i=%05d", g.num())
		}
	case 2, 3:
		id = "s=" + g.hostile()
	case 4, 5:
		id = "g=" + g.guidText(true)
	case 6, 7:
		e := base64.StdEncoding.EncodeToString(g.blob())
		if r.Intn(3) == 0 {
			e = b64nl(e, r)
		}
		id = "b=" + e
	case 8:
		// no prefix: a string id in namespace 0 (or in the given namespace)
		h := g.hostile()
		for _, p := range []string{"i=", "s=", "g=", "b=", "ns="} {
			h = strings.TrimPrefix(h, p)
		}
		id = "x" + h
	default:
		id = "s=" + string(r.Bytes(r.Range(0, 40)))
	}
	switch r.Intn(10) {
	case 0, 1, 2:
		if !strings.Contains(id, ";") {
			return id, "", false
		}
		return "ns=0;" + id, "", false
	case 3:
		u := []string{"uri", "http://opcfoundation.org/UA/", "", "urn:x", "ns=1", "nsu="}[r.Intn(6)]
		return "nsu=" + u + ";" + id, u, true
	case 4:
		return fmt.Sprintf("ns=%s%d;%s", []string{"+", "00", "-0", "0"}[r.Intn(4)], r.Intn(300), id), "", false
	default:
		return fmt.Sprintf("ns=%d;%s", g.ns(), id), "", false
	}
}

func mutate(s string, r *rng.R) string {
	if s == "" {
		return string(r.Bytes(1))
	}
	p := r.Intn(len(s))
	switch r.Intn(7) {
	case 0: // drop
		return s[:p] + s[p+1:]
	case 1: // double
		return s[:p+1] + s[p:]
	case 2: // replace with a separator-ish byte
		return s[:p] + string(";=-+\n \x00nsig"[r.Intn(11)]) + s[p+1:]
	case 3: // replace with a random byte
		return s[:p] + string(r.Bytes(1)) + s[p+1:]
	case 4: // truncate
		return s[:p]
	case 5: // trailing garbage
		return s + []string{";", "=", " ", "\n", "x", ";i=1", "=="}[r.Intn(7)]
	default: // swap two neighbours
		if p+1 < len(s) {
			return s[:p] + string(s[p+1]) + string(s[p]) + s[p+2:]
		}
		return s[:p]
	}
}

func (g *G) genParse(n int) []kase {
	r := g.r
	var out []kase
	add := func(tag, s string, tbl *[]string) {
		out = append(out, kase{Kind: "parse", Tag: tag, S: phx(s), Tbl: tbl})
	}
	std := []string{hxs("http://opcfoundation.org/UA/"), hxs("uri"), hxs(""), hxs("uri")}
	empty := []string{}
	for i, s := range fixedParse {
		switch {
		case strings.HasPrefix(s, "nsu="):
			add("fixed", s, nil)
			add("fixed", s, &std)
			add("fixed", s, &empty)
		case i%3 == 0:
			add("fixed", s, &std)
		default:
			add("fixed", s, nil)
		}
	}
	if len(out) > n {
		step := (len(out) + n - 1) / n
		var keep []kase
		for i := 0; i < len(out); i += step {
			keep = append(keep, out[i])
		}
		out = keep
	}
	for len(out) < n {
		s, uri, has := g.validText()
		switch x := r.Intn(100); {
		case x < 27:
			add("valid", s, g.table(uri, has))
		case x < 65:
			// string ids swallow almost every mutation: mostly mutate the forms with a syntax of their own
			for k := 0; k < 4 && strings.Contains(s, "s=") && r.Intn(4) != 0; k++ {
				s, uri, has = g.validText()
			}
			m := mutate(s, r)
			if r.Intn(3) == 0 {
				m = mutate(m, r)
			}
			add("mutated", m, g.table(uri, has))
		case x < 73: // numbers around the limits of Atoi / ParseUint
			big := []string{"65535", "65536", "4294967295", "4294967296", "9223372036854775807", "9223372036854775808", "18446744073709551615",
				"18446744073709551616", "99999999999999999999", "-1", "-0", "+0", "+65535", "-65536", "00000000000000000000001", "٣"}
			add("limits", fmt.Sprintf("ns=%s;i=%s", big[r.Intn(len(big))], big[r.Intn(len(big))]), nil)
		default:
			var sb strings.Builder
			for i, k := 0, r.Range(1, 6); i < k; i++ {
				sb.WriteString(tokens[r.Intn(len(tokens))])
			}
			t := sb.String()
			u, hu := "", false
			if strings.HasPrefix(t, "nsu=") {
				u, hu = strings.SplitN(t[4:], ";", 2)[0], true
			}
			add("soup", t, g.table(u, hu))
		}
	}
	return out
}

// ---------------------------------------------------------------------------------------------- main

func main() {
	seed := flag.Uint64("seed", 1, "seed")
	n := flag.Int("n", 1300, "total number of generated cases (split id:parse:pair = 4:6:3)")
	file := flag.String("cases", "", "read cases (json lines: kind + inputs) from this file instead of generating")
	flag.Parse()
	w := bufio.NewWriterSize(os.Stdout, 1<<20)
	defer w.Flush()
	enc := json.NewEncoder(w)
	var ks []kase
	if *file != "" {
		f, err := os.Open(*file)
		if err != nil {
			fmt.Fprintln(os.Stderr, err)
			os.Exit(2)
		}
		sc := bufio.NewScanner(f)
		sc.Buffer(make([]byte, 1<<20), 1<<26)
		for sc.Scan() {
			if !strings.HasPrefix(sc.Text(), "{") {
				continue
			}
			var k kase
			if err := json.Unmarshal(sc.Bytes(), &k); err != nil {
				fmt.Fprintln(os.Stderr, err)
				os.Exit(2)
			}
			switch {
			case k.Kind == "id" && k.In == nil, k.Kind == "pair" && (k.A == nil || k.B == nil), k.Kind == "parse" && k.S == nil:
				fmt.Fprintln(os.Stderr, "case without its inputs:", sc.Text())
				os.Exit(2)
			}
			ks = append(ks, k)
		}
	} else {
		// one independent stream per kind, so that changing one generator does not shift the others
		ks = append(ks, (&G{rng.New(*seed)}).genID(*n*4/13)...)
		ks = append(ks, (&G{rng.New(*seed ^ 0x5eed0002)}).genParse(*n*6/13)...)
		ks = append(ks, (&G{rng.New(*seed ^ 0x5eed0003)}).genPair(*n*3/13)...)
	}
	for _, k := range ks {
		enc.Encode(run(k))
	}
}
