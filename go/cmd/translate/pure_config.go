package main

// ConfigOptions.v (C23) and go/cmd/confharness/options_gen.go: the exported Option constructors of /repo/config.go
// (go/ast), the package-level defaults they start from (by calling the code), and whether DefaultDialer() hands out the
// package-level *uacp.Acknowledge itself or a copy (go/ast).

import (
	"flag"
	"fmt"
	"go/ast"
	"go/parser"
	"go/token"
	"go/types"
	"os"
	"path/filepath"
	"sort"
	"strings"
	"time"

	"github.com/gopcua/opcua"
	"github.com/gopcua/opcua/ua"
	"github.com/gopcua/opcua/uacp"
)

type pureOpt struct {
	name   string
	pnames []string
	ptypes []string
}

// argument sources the harness knows how to draw, by Go parameter type
var pureArgMethod = map[string]string{
	"string": "String", "bool": "Bool", "time.Duration": "Duration", "uint32": "Uint32", "[]byte": "Bytes",
	"...string": "Strings", "*rsa.PrivateKey": "Key", "*uacp.Dialer": "Dialer", "chan<- ConnState": "StateCh",
	"func(ConnState)": "StateFunc", "*ua.EndpointDescription": "Endpoint", "ua.UserTokenType": "TokenType",
	"ua.MessageSecurityMode": "Mode",
}

func pureParseDir(dir string) (*token.FileSet, []*ast.File, error) {
	fset := token.NewFileSet()
	ents, err := os.ReadDir(dir)
	if err != nil {
		return nil, nil, err
	}
	var files []*ast.File
	for _, e := range ents {
		n := e.Name()
		if e.IsDir() || !strings.HasSuffix(n, ".go") || strings.HasSuffix(n, "_test.go") || strings.HasPrefix(n, "export_verif") {
			continue
		}
		f, err := parser.ParseFile(fset, filepath.Join(dir, n), nil, 0)
		if err != nil {
			return nil, nil, err
		}
		files = append(files, f)
	}
	return fset, files, nil
}

func pureCoqString(s string) string { return "\"" + strings.ReplaceAll(s, "\"", "\"\"") + "\"" }

func pureOptBytes(b []byte) string {
	if b == nil {
		return "None"
	}
	return "(Some " + pureCoqBytes(string(b)) + ")"
}

func init() {
	register("config", func(repo string) (string, string, error) {
		_, files, err := pureParseDir(repo)
		if err != nil {
			return "", "", err
		}
		var opts []pureOpt
		var defaultFuncs []string
		shares := ""
		for _, f := range files {
			if f.Name.Name != "opcua" {
				continue
			}
			for _, d := range f.Decls {
				fd, ok := d.(*ast.FuncDecl)
				if !ok || fd.Recv != nil || !fd.Name.IsExported() {
					continue
				}
				res := fd.Type.Results
				if res != nil && len(res.List) == 1 && types.ExprString(res.List[0].Type) == "Option" {
					o := pureOpt{name: fd.Name.Name}
					for _, p := range fd.Type.Params.List {
						ts := types.ExprString(p.Type)
						if len(p.Names) == 0 {
							return "", "", fmt.Errorf("option %s: unnamed parameter", o.name)
						}
						for _, n := range p.Names {
							o.pnames = append(o.pnames, n.Name)
							o.ptypes = append(o.ptypes, ts)
						}
					}
					opts = append(opts, o)
				}
				if strings.HasPrefix(fd.Name.Name, "Default") && fd.Type.Params.NumFields() == 0 && res != nil && len(res.List) == 1 {
					defaultFuncs = append(defaultFuncs, fd.Name.Name)
				}
				if fd.Name.Name == "DefaultDialer" {
					// what does the composite literal put into ClientACK?
					ast.Inspect(fd.Body, func(n ast.Node) bool {
						kv, ok := n.(*ast.KeyValueExpr)
						if !ok {
							return true
						}
						if k, ok := kv.Key.(*ast.Ident); ok && k.Name == "ClientACK" {
							switch v := kv.Value.(type) {
							case *ast.SelectorExpr:
								if types.ExprString(v) == "uacp.DefaultClientACK" {
									shares = "true"
								} else {
									shares = "?" + types.ExprString(v)
								}
							case *ast.UnaryExpr:
								// &ack where ack := *uacp.DefaultClientACK
								id, ok := v.X.(*ast.Ident)
								if v.Op == token.AND && ok && pureIsCopyOfDefault(fd.Body, id.Name) {
									shares = "false"
								} else {
									shares = "?" + types.ExprString(v)
								}
							default:
								shares = "?" + types.ExprString(kv.Value)
							}
						}
						return true
					})
				}
			}
		}
		if shares != "true" && shares != "false" {
			return "", "", fmt.Errorf("DefaultDialer: cannot tell where ClientACK points (%q); update go/cmd/translate/pure_config.go and Model/ConfigHeap.v", shares)
		}
		sort.Slice(opts, func(i, j int) bool { return opts[i].name < opts[j].name })
		sort.Strings(defaultFuncs)
		for _, o := range opts {
			for i, t := range o.ptypes {
				if _, ok := pureArgMethod[t]; !ok {
					return "", "", fmt.Errorf("option %s: parameter %s has type %s, for which the harness has no argument source", o.name, o.pnames[i], t)
				}
			}
		}

		// package-level Default* variables of uacp and uasc (pointer-typed shared state)
		type gvar struct{ pkg, name string }
		var gvars []gvar
		for _, pkg := range []string{"uacp", "uasc"} {
			_, fs, err := pureParseDir(filepath.Join(repo, pkg))
			if err != nil {
				return "", "", err
			}
			for _, f := range fs {
				for _, d := range f.Decls {
					gd, ok := d.(*ast.GenDecl)
					if !ok || gd.Tok != token.VAR {
						continue
					}
					for _, s := range gd.Specs {
						for _, n := range s.(*ast.ValueSpec).Names {
							if n.IsExported() && strings.HasPrefix(n.Name, "Default") {
								gvars = append(gvars, gvar{pkg, n.Name})
							}
						}
					}
				}
			}
		}
		sort.Slice(gvars, func(i, j int) bool { return gvars[i].pkg+gvars[i].name < gvars[j].pkg+gvars[j].name })

		// ---- the Go side: one constructor call per option, arguments drawn from the harness's argSrc
		var g strings.Builder
		g.WriteString("// Code generated by /verif/go/cmd/translate (target config) from /repo/config.go. DO NOT EDIT.\n\npackage main\n\nimport (\n\t\"github.com/gopcua/opcua\"\n")
		pk := map[string]bool{}
		for _, v := range gvars {
			pk[v.pkg] = true
		}
		for _, p := range []string{"uacp", "uasc"} {
			if pk[p] {
				fmt.Fprintf(&g, "\t\"github.com/gopcua/opcua/%s\"\n", p)
			}
		}
		g.WriteString(")\n\nfunc init() {\n\tgenOptions = []genOption{\n")
		for _, o := range opts {
			var draws, args, sig []string
			for i, t := range o.ptypes {
				draws = append(draws, fmt.Sprintf("p%d := a.%s(%q, %q)", i, pureArgMethod[t], o.name, o.pnames[i]))
				if strings.HasPrefix(t, "...") {
					args = append(args, fmt.Sprintf("p%d...", i))
				} else {
					args = append(args, fmt.Sprintf("p%d", i))
				}
				sig = append(sig, fmt.Sprintf("%q", o.pnames[i]+" "+t))
			}
			body := strings.Join(draws, "; ")
			if body != "" {
				body += "; "
			}
			fmt.Fprintf(&g, "\t\t{Name: %q, Params: []string{%s}, Make: func(a *argSrc) opcua.Option { %sreturn opcua.%s(%s) }},\n",
				o.name, strings.Join(sig, ", "), body, o.name, strings.Join(args, ", "))
		}
		g.WriteString("\t}\n\tgenDefaults = []genDefault{\n")
		for _, v := range gvars {
			fmt.Fprintf(&g, "\t\t{Name: %q, Get: func() interface{} { return %s.%s }},\n", v.pkg+"."+v.name, v.pkg, v.name)
		}
		for _, f := range defaultFuncs {
			fmt.Fprintf(&g, "\t\t{Name: %q, Get: func() interface{} { return opcua.%s() }},\n", "opcua."+f+"()", f)
		}
		g.WriteString("\t}\n}\n")
		outDir := flag.Lookup("out").Value.String()
		goFile := filepath.Join(outDir, "..", "..", "go", "cmd", "confharness", "options_gen.go")
		if err := os.MkdirAll(filepath.Dir(goFile), 0o755); err != nil {
			return "", "", err
		}
		if err := writeIfChanged(goFile, g.String()); err != nil {
			return "", "", err
		}

		// ---- the Coq side
		var b strings.Builder
		b.WriteString("(* GENERATED by go/cmd/translate (target config) from /repo/config.go (go/ast) and by calling the Default constructors. Do not edit. *)\n")
		b.WriteString("From Coq Require Import List NArith ZArith String.\nFrom Coq.Strings Require Import Byte.\nFrom Opcua Require Import Model.PureBytes Model.ConfigHeap.\nImport ListNotations.\n\n")
		b.WriteString("(* every exported func of package opcua whose result type is Option, with its parameter types *)\nDefinition option_constructors : list (string * list string) := [\n")
		for i, o := range opts {
			var ts []string
			for _, t := range o.ptypes {
				ts = append(ts, pureCoqString(t))
			}
			sep := ";"
			if i == len(opts)-1 {
				sep = ""
			}
			fmt.Fprintf(&b, "  (%s, [%s])%s\n", pureCoqString(o.name), strings.Join(ts, "; "), sep)
		}
		b.WriteString("]%string.\n\n")
		fmt.Fprintf(&b, "(* DefaultDialer(): is ClientACK the package-level pointer uacp.DefaultClientACK itself (true) or a copy of what it points to (false)? *)\nDefinition default_dialer_shares_ack : bool := %s.\n\n", shares)
		a := uacp.DefaultClientACK
		fmt.Fprintf(&b, "(* *uacp.DefaultClientACK at process start *)\nDefinition pristine_client_ack : ack := {| a_version := %d; a_rbuf := %d; a_sbuf := %d; a_maxmsg := %d; a_maxchunk := %d |}.\n\n",
			a.Version, a.ReceiveBufSize, a.SendBufSize, a.MaxMessageSize, a.MaxChunkCount)
		sc := opcua.DefaultClientConfig()
		if sc.LocalKey != nil || sc.UserKey != nil {
			return "", "", fmt.Errorf("DefaultClientConfig has keys")
		}
		fmt.Fprintf(&b, "(* opcua.DefaultClientConfig() *)\nDefinition default_sechan : sechan := {| sc_policy := %s; sc_cert := %s; sc_localkey := 0; sc_userkey := 0; sc_thumb := %s; sc_remote := %s;\n  sc_seed := %d; sc_mode := %d; sc_autorec := %v; sc_recint := %d; sc_lifetime := %d; sc_reqto := %d |}.\n\n",
			pureCoqBytes(sc.SecurityPolicyURI), pureOptBytes(sc.Certificate), pureOptBytes(sc.Thumbprint), pureOptBytes(sc.RemoteCertificate),
			sc.RequestIDSeed, uint32(sc.SecurityMode), sc.AutoReconnect, int64(sc.ReconnectInterval), sc.Lifetime, int64(sc.RequestTimeout))
		ss := opcua.DefaultSessionConfig()
		if ss.UserIdentityToken != nil || ss.ClientDescription == nil || ss.ClientDescription.ApplicationName == nil {
			return "", "", fmt.Errorf("DefaultSessionConfig: unexpected shape (token set or description missing)")
		}
		loc := "None"
		if ss.LocaleIDs != nil {
			var ls []string
			for _, l := range ss.LocaleIDs {
				ls = append(ls, pureCoqBytes(l))
			}
			loc = "(Some [" + strings.Join(ls, "; ") + "])"
		}
		fmt.Fprintf(&b, "(* opcua.DefaultSessionConfig() *)\nDefinition default_session : session := {| ss_timeout := %d; ss_appuri := %s; ss_producturi := %s;\n  ss_appname := %s;\n  ss_locales := %s; ss_name := %s; ss_token := None; ss_authpolicy := %s; ss_authpass := %s |}.\n\n",
			int64(ss.SessionTimeout), pureCoqBytes(ss.ClientDescription.ApplicationURI), pureCoqBytes(ss.ClientDescription.ProductURI),
			pureCoqBytes(ss.ClientDescription.ApplicationName.Text), loc, pureCoqBytes(ss.SessionName), pureCoqBytes(ss.AuthPolicyURI), pureCoqBytes(ss.AuthPassword))
		fmt.Fprintf(&b, "Definition default_dial_timeout : Z := %d%%Z.\n", int64(time.Duration(opcua.DefaultDialTimeout)))
		fmt.Fprintf(&b, "Definition security_policy_uri_none : list byte := %s.\n", pureCoqBytes(ua.SecurityPolicyURINone))
		return "ConfigOptions.v", b.String(), nil
	})
}

// pureIsCopyOfDefault reports whether the body contains `name := *uacp.DefaultClientACK`.
func pureIsCopyOfDefault(body *ast.BlockStmt, name string) bool {
	found := false
	ast.Inspect(body, func(n ast.Node) bool {
		as, ok := n.(*ast.AssignStmt)
		if !ok || len(as.Lhs) != 1 || len(as.Rhs) != 1 {
			return true
		}
		id, ok := as.Lhs[0].(*ast.Ident)
		if ok && id.Name == name && types.ExprString(as.Rhs[0]) == "*uacp.DefaultClientACK" {
			found = true
		}
		return true
	})
	return found
}
