package main

// Go AST -> Gallina for integer-only function bodies.
//
// Subset: short variable declarations and assignments of integer expressions, ++/--, op-assign,
// `if` (with optional else) whose branches are in the subset, `return e`; expressions over
// integer literals, identifiers, field selectors (x.f -> f), niladic method calls (x.y.M() -> M),
// + - * / % << >>, comparisons, && || !, conversions int(..)/uint32(..)/uint64(..)/int64(..),
// math.MaxUint32 and friends. Go's `/` and `%` on integers truncate toward zero: Z.quot / Z.rem.
// Arithmetic whose static type is uint32 wraps explicitly (mod 2^32).
// Anything else is an error: the tie between model and source is then reported as broken.

import (
	"fmt"
	"go/ast"
	"go/parser"
	"go/token"
	"path/filepath"
	"sort"
	"strings"
)

type fnSpec struct {
	File    string   // relative to repo
	Func    string   // function or method name
	Recv    string   // receiver type name ("" = any)
	Name    string   // Gallina name
	Params  []string // Gallina parameters (Z), in order
	U32     []string // identifiers of static type uint32
	Result  []string // variables whose final values form the result (ignored when the body returns)
	OnlyVar []string // if set: keep only statements that assign one of these variables (plus ifs that do)
	UpTo    string   // if set: stop after the statement that first defines this variable
}

type tr struct {
	spec fnSpec
	u32  map[string]bool
	free map[string]bool
	err  error
}

func (t *tr) fail(n ast.Node, fset *token.FileSet, msg string) {
	if t.err == nil {
		t.err = fmt.Errorf("%s: %s: unsupported syntax for arithmetic translation: %s", t.spec.Func, fset.Position(n.Pos()), msg)
	}
}

var mathConsts = map[string]string{
	"MaxUint32": "4294967295", "MaxUint16": "65535", "MaxInt32": "2147483647", "MaxUint8": "255",
	"MaxInt64": "9223372036854775807", "MaxInt16": "32767",
}

func selName(e ast.Expr) string {
	switch x := e.(type) {
	case *ast.Ident:
		return x.Name
	case *ast.SelectorExpr:
		return x.Sel.Name
	case *ast.ParenExpr:
		return selName(x.X)
	}
	return ""
}

// expr returns (gallina, isU32)
func (t *tr) expr(fset *token.FileSet, e ast.Expr) (string, bool) {
	switch x := e.(type) {
	case *ast.BasicLit:
		if x.Kind == token.INT {
			v := strings.ReplaceAll(x.Value, "_", "")
			if strings.HasPrefix(v, "0x") || strings.HasPrefix(v, "0X") {
				var n uint64
				fmt.Sscanf(v[2:], "%x", &n)
				v = fmt.Sprint(n)
			}
			return v, false
		}
		t.fail(e, fset, "non-integer literal "+x.Value)
	case *ast.Ident:
		t.free[x.Name] = true
		return x.Name, t.u32[x.Name]
	case *ast.ParenExpr:
		s, u := t.expr(fset, x.X)
		return "(" + s + ")", u
	case *ast.SelectorExpr:
		if id, ok := x.X.(*ast.Ident); ok && id.Name == "math" {
			if v, ok := mathConsts[x.Sel.Name]; ok {
				return v, false
			}
		}
		t.free[x.Sel.Name] = true
		return x.Sel.Name, t.u32[x.Sel.Name]
	case *ast.CallExpr:
		if id, ok := x.Fun.(*ast.Ident); ok && len(x.Args) == 1 {
			a, _ := t.expr(fset, x.Args[0])
			switch id.Name {
			case "uint32":
				return "((" + a + ") mod 4294967296)", true
			case "uint64":
				return "((" + a + ") mod 18446744073709551616)", false
			case "int", "int64":
				return "(" + a + ")", false
			}
		}
		if sel, ok := x.Fun.(*ast.SelectorExpr); ok && len(x.Args) == 0 {
			t.free[sel.Sel.Name] = true
			return sel.Sel.Name, t.u32[sel.Sel.Name]
		}
		t.fail(e, fset, "call")
	case *ast.UnaryExpr:
		a, u := t.expr(fset, x.X)
		switch x.Op {
		case token.SUB:
			return "(- " + a + ")", u
		case token.NOT:
			return "(negb " + a + ")", false
		}
		t.fail(e, fset, "unary "+x.Op.String())
	case *ast.BinaryExpr:
		a, ua := t.expr(fset, x.X)
		b, ub := t.expr(fset, x.Y)
		u := ua || ub
		wrap := func(s string) string {
			if u {
				return "((" + s + ") mod 4294967296)"
			}
			return "(" + s + ")"
		}
		switch x.Op {
		case token.ADD:
			return wrap(a + " + " + b), u
		case token.SUB:
			return wrap(a + " - " + b), u
		case token.MUL:
			return wrap(a + " * " + b), u
		case token.QUO:
			return "(Z.quot " + a + " " + b + ")", u
		case token.REM:
			return "(Z.rem " + a + " " + b + ")", u
		case token.SHL:
			return wrap("Z.shiftl " + a + " " + b), u
		case token.SHR:
			return "(Z.shiftr " + a + " " + b + ")", u
		case token.LSS:
			return "(" + a + " <? " + b + ")", false
		case token.LEQ:
			return "(" + a + " <=? " + b + ")", false
		case token.GTR:
			return "(" + a + " >? " + b + ")", false
		case token.GEQ:
			return "(" + a + " >=? " + b + ")", false
		case token.EQL:
			return "(" + a + " =? " + b + ")", false
		case token.NEQ:
			return "(negb (" + a + " =? " + b + "))", false
		case token.LAND:
			return "(" + a + " && " + b + ")", false
		case token.LOR:
			return "(" + a + " || " + b + ")", false
		}
		t.fail(e, fset, "binary "+x.Op.String())
	default:
		t.fail(e, fset, fmt.Sprintf("%T", e))
	}
	return "0", false
}

func assigned(stmts []ast.Stmt, acc map[string]bool) {
	for _, s := range stmts {
		switch x := s.(type) {
		case *ast.AssignStmt:
			for _, l := range x.Lhs {
				if n := selName(l); n != "" {
					acc[n] = true
				}
			}
		case *ast.IncDecStmt:
			if n := selName(x.X); n != "" {
				acc[n] = true
			}
		case *ast.IfStmt:
			assigned(x.Body.List, acc)
			if x.Else != nil {
				if b, ok := x.Else.(*ast.BlockStmt); ok {
					assigned(b.List, acc)
				} else {
					assigned([]ast.Stmt{x.Else}, acc)
				}
			}
		case *ast.BlockStmt:
			assigned(x.List, acc)
		}
	}
}

func endsWithReturn(stmts []ast.Stmt) bool {
	if len(stmts) == 0 {
		return false
	}
	_, ok := stmts[len(stmts)-1].(*ast.ReturnStmt)
	return ok
}

func tuple(vs []string) string {
	if len(vs) == 1 {
		return vs[0]
	}
	return "(" + strings.Join(vs, ", ") + ")"
}

func pat(vs []string) string {
	if len(vs) == 1 {
		return vs[0]
	}
	return "'" + tuple(vs)
}

func isIgnorable(s ast.Stmt) bool {
	if es, ok := s.(*ast.ExprStmt); ok {
		if c, ok := es.X.(*ast.CallExpr); ok {
			if sel, ok := c.Fun.(*ast.SelectorExpr); ok {
				if id, ok := sel.X.(*ast.Ident); ok && id.Name == "debug" {
					return true
				}
			}
		}
	}
	return false
}

// block translates stmts; `final` is the expression to yield at the end if no return is met.
func (t *tr) block(fset *token.FileSet, stmts []ast.Stmt, final string, ind string) string {
	if len(stmts) == 0 {
		return final
	}
	s, rest := stmts[0], stmts[1:]
	if isIgnorable(s) {
		return t.block(fset, rest, final, ind)
	}
	switch x := s.(type) {
	case *ast.AssignStmt:
		if len(x.Lhs) != 1 || len(x.Rhs) != 1 {
			t.fail(s, fset, "multi-assignment")
			return final
		}
		name := selName(x.Lhs[0])
		if name == "" {
			t.fail(s, fset, "assignment target")
			return final
		}
		rhs, u := t.expr(fset, x.Rhs[0])
		if x.Tok == token.DEFINE && u {
			t.u32[name] = true
		}
		switch x.Tok {
		case token.ASSIGN, token.DEFINE:
		case token.ADD_ASSIGN, token.SUB_ASSIGN, token.MUL_ASSIGN:
			op := map[token.Token]string{token.ADD_ASSIGN: "+", token.SUB_ASSIGN: "-", token.MUL_ASSIGN: "*"}[x.Tok]
			rhs = "(" + name + " " + op + " " + rhs + ")"
			if t.u32[name] {
				rhs = "(" + rhs + " mod 4294967296)"
			}
			t.free[name] = true
		default:
			t.fail(s, fset, "assignment operator "+x.Tok.String())
		}
		if t.u32[name] && !u && x.Tok != token.DEFINE {
			// untyped constant or int expression assigned to a uint32 variable: Go requires it to be representable / converted
		}
		return "let " + name + " := " + rhs + " in\n" + ind + t.block(fset, rest, final, ind)
	case *ast.IncDecStmt:
		name := selName(x.X)
		t.free[name] = true
		op := "+"
		if x.Tok == token.DEC {
			op = "-"
		}
		rhs := "(" + name + " " + op + " 1)"
		if t.u32[name] {
			rhs = "(" + rhs + " mod 4294967296)"
		}
		return "let " + name + " := " + rhs + " in\n" + ind + t.block(fset, rest, final, ind)
	case *ast.ReturnStmt:
		if len(x.Results) == 0 {
			return final
		}
		var rs []string
		for _, r := range x.Results {
			e, _ := t.expr(fset, r)
			rs = append(rs, e)
		}
		return tuple(rs)
	case *ast.IfStmt:
		if x.Init != nil {
			t.fail(s, fset, "if with init")
			return final
		}
		c, _ := t.expr(fset, x.Cond)
		var els []ast.Stmt
		if x.Else != nil {
			if b, ok := x.Else.(*ast.BlockStmt); ok {
				els = b.List
			} else {
				els = []ast.Stmt{x.Else}
			}
		}
		if endsWithReturn(x.Body.List) {
			return "if " + c + "\n" + ind + "then " + t.block(fset, x.Body.List, final, ind+"  ") + "\n" + ind + "else " + t.block(fset, append(els, rest...), final, ind+"  ")
		}
		set := map[string]bool{}
		assigned(x.Body.List, set)
		assigned(els, set)
		var vs []string
		for v := range set {
			vs = append(vs, v)
			t.free[v] = true
		}
		sort.Strings(vs)
		if len(vs) == 0 {
			return t.block(fset, rest, final, ind)
		}
		tp := tuple(vs)
		return "let " + pat(vs) + " := (if " + c + " then " + t.block(fset, x.Body.List, tp, ind+"  ") + " else " + t.block(fset, els, tp, ind+"  ") + ") in\n" + ind + t.block(fset, rest, final, ind)
	case *ast.BlockStmt:
		return t.block(fset, append(append([]ast.Stmt{}, x.List...), rest...), final, ind)
	}
	t.fail(s, fset, fmt.Sprintf("statement %T", s))
	return final
}

func mentionsOnly(s ast.Stmt, only map[string]bool) bool {
	set := map[string]bool{}
	assigned([]ast.Stmt{s}, set)
	for v := range set {
		if only[v] {
			return true
		}
	}
	return false
}

func translateFn(repo string, sp fnSpec) (string, error) {
	fset := token.NewFileSet()
	f, err := parser.ParseFile(fset, filepath.Join(repo, sp.File), nil, 0)
	if err != nil {
		return "", err
	}
	var fd *ast.FuncDecl
	for _, d := range f.Decls {
		if x, ok := d.(*ast.FuncDecl); ok && x.Name.Name == sp.Func && x.Body != nil {
			if sp.Recv != "" {
				if x.Recv == nil || len(x.Recv.List) == 0 {
					continue
				}
				rt := x.Recv.List[0].Type
				if st, ok := rt.(*ast.StarExpr); ok {
					rt = st.X
				}
				if id, ok := rt.(*ast.Ident); !ok || id.Name != sp.Recv {
					continue
				}
			}
			fd = x
		}
	}
	if fd == nil {
		return "", fmt.Errorf("function %s not found in %s", sp.Func, sp.File)
	}
	t := &tr{spec: sp, u32: map[string]bool{}, free: map[string]bool{}}
	for _, u := range sp.U32 {
		t.u32[u] = true
	}
	stmts := fd.Body.List
	if len(sp.OnlyVar) > 0 {
		only := map[string]bool{}
		for _, v := range sp.OnlyVar {
			only[v] = true
		}
		var keep []ast.Stmt
		for _, s := range stmts {
			if mentionsOnly(s, only) {
				keep = append(keep, s)
				if sp.UpTo != "" {
					set := map[string]bool{}
					assigned([]ast.Stmt{s}, set)
					if as, ok := s.(*ast.AssignStmt); ok && as.Tok == token.DEFINE && set[sp.UpTo] {
						break
					}
				}
			}
		}
		stmts = keep
	}
	body := t.block(fset, stmts, tuple(sp.Result), "  ")
	if t.err != nil {
		return "", t.err
	}
	// every free identifier must be a parameter or defined in the body before use (let-bound); we check
	// only that parameters cover the identifiers never assigned.
	set := map[string]bool{}
	assigned(stmts, set)
	params := map[string]bool{}
	for _, p := range sp.Params {
		params[p] = true
	}
	for v := range t.free {
		if !params[v] && !set[v] {
			return "", fmt.Errorf("%s: identifier %q is neither a declared parameter nor assigned in the body (source changed shape)", sp.Func, v)
		}
	}
	var b strings.Builder
	fmt.Fprintf(&b, "(* from %s, func %s *)\nDefinition %s", sp.File, sp.Func, sp.Name)
	if len(sp.Params) > 0 {
		fmt.Fprintf(&b, " (%s : Z)", strings.Join(sp.Params, " "))
	}
	fmt.Fprintf(&b, " :=\n  %s.\n\n", body)
	return b.String(), nil
}

var arithSpecs = []fnSpec{
	{File: "uasc/secure_channel_instance.go", Func: "SetMaximumBodySize", Recv: "channelInstance", Name: "go_SetMaximumBodySize",
		Params: []string{"chunkSize", "BlockSize", "PlaintextBlockSize", "SignatureLength", "RemoteSignatureLength"},
		Result: []string{"maxBodySize"}},
	{File: "uasc/secure_channel_instance.go", Func: "nextSequenceNumber", Recv: "channelInstance", Name: "go_nextSequenceNumber",
		Params: []string{"sequenceNumber"}, U32: []string{"sequenceNumber"}, Result: []string{"sequenceNumber"}},
	{File: "uasc/secure_channel.go", Func: "nextRequestID", Recv: "SecureChannel", Name: "go_nextRequestID",
		Params: []string{"requestID"}, U32: []string{"requestID"}, Result: []string{"requestID"},
		OnlyVar: []string{"requestID"}},
	{File: "uasc/message.go", Func: "EncodeChunks", Recv: "Message", Name: "go_nrChunks",
		Params: []string{"Len", "maxBodySize"}, U32: []string{"maxBodySize"}, Result: []string{"nrChunks", "maxBodySize"},
		OnlyVar: []string{"maxBodySize", "nrChunks"}, UpTo: "nrChunks"},
}

func genArith(repo string) (string, error) {
	var b strings.Builder
	b.WriteString("(* GENERATED by go/cmd/translate from /repo's working tree. Do not edit. *)\nFrom Coq Require Import ZArith Bool.\nOpen Scope Z_scope.\n\n")
	for _, sp := range arithSpecs {
		s, err := translateFn(repo, sp)
		if err != nil {
			return "", err
		}
		b.WriteString(s)
	}
	return b.String(), nil
}

func init() {
	register("arith", func(repo string) (string, string, error) {
		s, err := genArith(repo)
		return "ArithFromGo.v", s, err
	})
}
