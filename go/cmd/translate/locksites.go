package main

// LockSites.v (C36): for the shared fields named in the property, every syntactic access outside constructors and the
// mutexes held at it, extracted from the Go AST.
//
//  * held locks are tracked intra-procedurally, in statement order: X.Lock()/RLock() adds, X.Unlock()/RUnlock() removes,
//    `defer X.Unlock()` keeps the lock to the end of the function; a nested block (if/for/switch/select body, function
//    literal excluded) starts with the locks held before it and the state after it is the state before it (the code
//    base unlocks on early-return paths inside such blocks and keeps the lock on the fall-through path);
//  * a lock X.m counts for an access B.f only if X and B are the SAME expression text (x.mu guards x.f, it does not
//    guard y.f), or if the function is listed in lockAnnotations (caller holds the lock);
//  * function literals (goroutines, callbacks) start with NO lock held; a literal passed to `defer` starts with the locks
//    whose `defer X.Unlock()` was registered earlier at the top level of the function (deferred calls run LIFO, so the
//    closure runs before those unlocks); locks without a deferred unlock are not counted for it;
//  * sync/atomic calls on &B.f are atomic accesses; everything else is a read, or a write when the selector is
//    assigned, incremented, indexed-and-assigned, or passed to delete().
//
// The struct owning a field is resolved from receiver/parameter/struct-field types; when that fails and the field name
// is unique among the tracked structs of the package it is taken, otherwise the translator fails loudly.

import (
	"fmt"
	"go/ast"
	"go/parser"
	"go/printer"
	"go/token"
	"os"
	"path/filepath"
	"sort"
	"strings"
)

type lsTrack struct {
	pkgDir, strct, field string
}

// the field list of the property (narrowed where noted in Props/C36.v)
var lsTracked = []lsTrack{
	{"uasc", "SecureChannel", "instances"}, {"uasc", "SecureChannel", "activeInstance"},
	{"uasc", "SecureChannel", "handlers"}, {"uasc", "SecureChannel", "chunks"},
	{"uasc", "SecureChannel", "requestID"}, {"uasc", "SecureChannel", "openingInstance"},
	{"uasc", "channelInstance", "algo"}, {"uasc", "channelInstance", "sequenceNumber"},
	{".", "Client", "subs"}, {".", "Client", "pendingAcks"},
	{"server", "Node", "val"}, {"server", "Node", "attr"},
	{"server", "MonitoredItemService", "Items"}, {"server", "MonitoredItemService", "Nodes"}, {"server", "MonitoredItemService", "Subs"},
	{"server", "SubscriptionService", "Subs"},
	{"server", "sessionBroker", "s"}, {"server", "channelBroker", "s"},
}

// fields holding slices whose ELEMENTS (backing arrays) are tracked as a location of their own, "<Struct>.<field>[]":
// reads through an alias (a local assigned from X.f[k], or the result of a function that returns such an alias: the
// array escapes the lock), in-place writes (slices.Delete/DeleteFunc/Insert/..., sort, copy into, x[i] = ..., clear).
// append(X.f[k], v) only writes beyond the length every existing reader sees and is not an element write.
// Narrowed to SecureChannel.instances: the server's item tables hand their slices out only after unlinking them.
var lsElemTracked = map[string]string{"instances": "SecureChannel"}

var lsSliceMutators = map[string]bool{"Delete": true, "DeleteFunc": true, "Insert": true, "Replace": true, "Reverse": true,
	"Sort": true, "SortFunc": true, "SortStableFunc": true, "Compact": true, "CompactFunc": true}

// caller-holds-lock contracts: function -> locks held on entry.  lock = mutex field of the struct ("Mutex" for an
// embedded sync.Mutex); the struct is the receiver's (param == "") or that of the named parameter (argument index
// argIdx at call sites; a literal nil argument satisfies the contract: the function then takes the lock itself or
// does not touch the instance).
type lsAnn struct {
	lock   string
	excl   bool
	param  string
	argIdx int
}

var lsAnnotations = map[string][]lsAnn{
	"updatePublishTimeout_NeedsSubMuxLock": {{lock: "subMux", excl: true}},
	"registerSubscription_NeedsSubMuxLock": {{lock: "subMux", excl: true}},
	"forgetSubscription_NeedsSubMuxLock":   {{lock: "subMux", excl: true}},
	"handleAcks_NeedsSubMuxLock":           {{lock: "subMux", excl: true}},
	"handleNotification_NeedsSubMuxLock":   {{lock: "subMux", excl: true}},
	// the send path numbers and secures chunks under the lock of the channel instance it sends with
	// ("we need to get a lock on the sequence number so we are sure to send them in the correct order")
	"nextSequenceNumber": {{lock: "Mutex", excl: true}},
	"newMessage":         {{lock: "Mutex", excl: true}},
	"newRequestMessage":  {{lock: "Mutex", excl: true}},
	"writeMessageChunks": {{lock: "Mutex", excl: true, param: "instance", argIdx: 1}},
	"open":               {{lock: "Mutex", excl: true, param: "instance", argIdx: 1}},
	// helpers documented "the caller must hold s.Mu": the lock is the RECEIVER's mutex; at a call site X.owned(...) the
	// caller must hold X.Mu (same expression X), holding the Mu of another service object does not count
	"owned": {{lock: "Mu", excl: true}},
}

// every call of an annotated function, and whether the caller holds the promised locks there
type lsContract struct {
	callee, caller string
	ok             bool
}

var lsContracts []lsContract

type lsSite struct {
	loc, kind, fn, file string
	line                int
	locks               []string // "Struct.lock/X" exclusive, "Struct.lock/S" shared
}

type lsPkg struct {
	fset     *token.FileSet
	structs  map[string]map[string]string // struct -> field -> type name (pointer/slice/map stripped to the element ident)
	embeds   map[string]bool              // struct embeds sync.Mutex / sync.RWMutex
	tracked  map[string]map[string]bool   // field -> structs
	escapers map[string]string            // function name -> element location it returns an alias of
}

func lsTypeName(e ast.Expr) string {
	switch t := e.(type) {
	case *ast.Ident:
		return t.Name
	case *ast.StarExpr:
		return lsTypeName(t.X)
	case *ast.SelectorExpr:
		if x, ok := t.X.(*ast.Ident); ok {
			return x.Name + "." + t.Sel.Name
		}
	case *ast.ArrayType:
		return "[]" + lsTypeName(t.Elt)
	case *ast.MapType:
		return "map"
	}
	return ""
}

func lsText(fset *token.FileSet, e ast.Expr) string {
	var b strings.Builder
	printer.Fprint(&b, fset, e)
	return b.String()
}

func lsGen(repo string) ([]lsSite, error) {
	var all []lsSite
	dirs := map[string]bool{}
	for _, t := range lsTracked {
		dirs[t.pkgDir] = true
	}
	var dl []string
	for d := range dirs {
		dl = append(dl, d)
	}
	sort.Strings(dl)
	for _, d := range dl {
		p := &lsPkg{fset: token.NewFileSet(), structs: map[string]map[string]string{}, embeds: map[string]bool{}, tracked: map[string]map[string]bool{}}
		for _, t := range lsTracked {
			if t.pkgDir == d {
				if p.tracked[t.field] == nil {
					p.tracked[t.field] = map[string]bool{}
				}
				p.tracked[t.field][t.strct] = true
			}
		}
		ents, err := os.ReadDir(filepath.Join(repo, d))
		if err != nil {
			return nil, err
		}
		var files []*ast.File
		var names []string
		for _, e := range ents {
			n := e.Name()
			if e.IsDir() || !strings.HasSuffix(n, ".go") || strings.HasSuffix(n, "_test.go") || strings.HasPrefix(n, "export_verif") {
				continue
			}
			f, err := parser.ParseFile(p.fset, filepath.Join(repo, d, n), nil, 0)
			if err != nil {
				return nil, err
			}
			files = append(files, f)
			names = append(names, filepath.Join(d, n))
		}
		for _, f := range files {
			ast.Inspect(f, func(n ast.Node) bool {
				ts, ok := n.(*ast.TypeSpec)
				if !ok {
					return true
				}
				st, ok := ts.Type.(*ast.StructType)
				if !ok {
					return true
				}
				m := map[string]string{}
				for _, fl := range st.Fields.List {
					tn := lsTypeName(fl.Type)
					if len(fl.Names) == 0 && (tn == "sync.Mutex" || tn == "sync.RWMutex") {
						p.embeds[ts.Name.Name] = true
					}
					for _, nm := range fl.Names {
						m[nm.Name] = tn
					}
				}
				p.structs[ts.Name.Name] = m
				return true
			})
		}
		// pass 1: functions that return an alias of a tracked slice
		p.escapers = map[string]string{}
		for _, f := range files {
			for _, dcl := range f.Decls {
				fd, ok := dcl.(*ast.FuncDecl)
				if !ok || fd.Body == nil {
					continue
				}
				al := map[string]string{}
				direct := func(e ast.Expr) string {
					if ix, ok := e.(*ast.IndexExpr); ok {
						if sel, ok := ix.X.(*ast.SelectorExpr); ok {
							if st, ok := lsElemTracked[sel.Sel.Name]; ok && p.tracked[sel.Sel.Name][st] {
								return st + "." + sel.Sel.Name + "[]"
							}
						}
					}
					if id, ok := e.(*ast.Ident); ok {
						return al[id.Name]
					}
					return ""
				}
				ast.Inspect(fd.Body, func(n ast.Node) bool {
					switch x := n.(type) {
					case *ast.AssignStmt:
						if len(x.Rhs) == 1 {
							if loc := direct(x.Rhs[0]); loc != "" {
								if id, ok := x.Lhs[0].(*ast.Ident); ok {
									al[id.Name] = loc
								}
							}
						}
					case *ast.ReturnStmt:
						for _, r := range x.Results {
							if loc := direct(r); loc != "" {
								p.escapers[fd.Name.Name] = loc
							}
						}
					}
					return true
				})
			}
		}
		for fi, f := range files {
			for _, dcl := range f.Decls {
				fd, ok := dcl.(*ast.FuncDecl)
				if !ok || fd.Body == nil {
					continue
				}
				if strings.HasPrefix(fd.Name.Name, "New") || strings.HasPrefix(fd.Name.Name, "new") {
					continue // construction phase: the object is not shared yet
				}
				w := &lsWalker{p: p, fn: fd.Name.Name, file: names[fi], env: map[string]string{}, alias: map[string]lsAlias{}}
				recv := ""
				if fd.Recv != nil && len(fd.Recv.List) == 1 {
					tn := lsTypeName(fd.Recv.List[0].Type)
					for _, nm := range fd.Recv.List[0].Names {
						w.env[nm.Name] = tn
						recv = nm.Name
					}
					w.fn = tn + "." + fd.Name.Name
				}
				for _, prm := range fd.Type.Params.List {
					for _, nm := range prm.Names {
						w.env[nm.Name] = lsTypeName(prm.Type)
					}
				}
				var held []lsHeld
				if ann, ok := lsAnnotations[fd.Name.Name]; ok && recv != "" {
					for _, a := range ann {
						base := recv
						if a.param != "" {
							base = a.param
						}
						if w.env[base] != "" {
							held = append(held, lsHeld{base: base, name: w.env[base] + "." + a.lock, excl: a.excl})
						}
					}
				}
				w.block(fd.Body.List, held)
				if w.err != nil {
					return nil, w.err
				}
				all = append(all, w.sites...)
			}
		}
	}
	return all, nil
}

type lsHeld struct {
	base, name string
	excl       bool
}

type lsAlias struct{ loc, base string }

type lsWalker struct {
	depth     int      // block nesting inside the current function (1 = the function's own statement list)
	deferHeld []lsHeld // locks whose `defer X.Unlock()` has been registered at depth 1 so far: held until the function exits
	alias     map[string]lsAlias
	p         *lsPkg
	fn        string
	file      string
	env       map[string]string
	sites     []lsSite
	err       error
}

// elemSource says whether e denotes (an alias of) a tracked slice: X.f[k], an alias variable, or a call of an escaper.
func (w *lsWalker) elemSource(e ast.Expr) (lsAlias, bool) {
	switch x := e.(type) {
	case *ast.Ident:
		a, ok := w.alias[x.Name]
		return a, ok
	case *ast.ParenExpr:
		return w.elemSource(x.X)
	case *ast.IndexExpr:
		if sel, ok := x.X.(*ast.SelectorExpr); ok {
			if st, ok := lsElemTracked[sel.Sel.Name]; ok && w.p.tracked[sel.Sel.Name][st] {
				if t := w.typeOf(sel.X); t == st || t == "" {
					return lsAlias{st + "." + sel.Sel.Name + "[]", lsText(w.p.fset, sel.X)}, true
				}
			}
		}
	case *ast.CallExpr:
		if sel, ok := x.Fun.(*ast.SelectorExpr); ok {
			if loc, ok := w.p.escapers[sel.Sel.Name]; ok {
				return lsAlias{loc, lsText(w.p.fset, sel.X)}, true
			}
		}
	}
	return lsAlias{}, false
}

func (w *lsWalker) elemSite(a lsAlias, pos token.Pos, held []lsHeld, kind string) {
	var locks []string
	for _, h := range held {
		if h.base == a.base {
			m := "/X"
			if !h.excl {
				m = "/S"
			}
			locks = append(locks, h.name+m)
		}
	}
	sort.Strings(locks)
	w.sites = append(w.sites, lsSite{loc: a.loc, kind: kind, fn: w.fn, file: w.file, line: w.p.fset.Position(pos).Line, locks: locks})
}

// typeOf resolves the struct type name of an expression, "" when unknown.
func (w *lsWalker) typeOf(e ast.Expr) string {
	switch x := e.(type) {
	case *ast.Ident:
		return w.env[x.Name]
	case *ast.ParenExpr:
		return w.typeOf(x.X)
	case *ast.StarExpr:
		return w.typeOf(x.X)
	case *ast.SelectorExpr:
		if t := w.typeOf(x.X); t != "" {
			if fs, ok := w.p.structs[t]; ok {
				return strings.TrimPrefix(fs[x.Sel.Name], "[]")
			}
		}
	case *ast.IndexExpr:
		return w.typeOf(x.X)
	}
	return ""
}

// lockCall recognises X.Lock() etc. and returns (base text, lock name, op).
func (w *lsWalker) lockCall(c *ast.CallExpr) (base, name, op string, ok bool) {
	sel, isSel := c.Fun.(*ast.SelectorExpr)
	if !isSel || len(c.Args) != 0 {
		return
	}
	switch sel.Sel.Name {
	case "Lock", "Unlock", "RLock", "RUnlock":
	default:
		return
	}
	op = sel.Sel.Name
	// X.m.Lock() with m a mutex field, or X.Lock() with an embedded mutex
	if inner, isSel2 := sel.X.(*ast.SelectorExpr); isSel2 {
		if t := w.typeOf(inner.X); t != "" {
			if ft := w.p.structs[t][inner.Sel.Name]; ft == "sync.Mutex" || ft == "sync.RWMutex" {
				return lsText(w.p.fset, inner.X), t + "." + inner.Sel.Name, op, true
			}
		}
	}
	if t := w.typeOf(sel.X); t != "" && w.p.embeds[t] {
		return lsText(w.p.fset, sel.X), t + ".Mutex", op, true
	}
	// unknown receiver type: keep the text so that it can still match an access with the same base
	if inner, isSel2 := sel.X.(*ast.SelectorExpr); isSel2 {
		return lsText(w.p.fset, inner.X), "?." + inner.Sel.Name, op, true
	}
	return lsText(w.p.fset, sel.X), "?.Mutex", op, true
}

func (w *lsWalker) apply(held []lsHeld, base, name, op string) []lsHeld {
	switch op {
	case "Lock":
		return append(append([]lsHeld{}, held...), lsHeld{base, name, true})
	case "RLock":
		return append(append([]lsHeld{}, held...), lsHeld{base, name, false})
	default:
		var out []lsHeld
		for _, h := range held {
			if !(h.base == base && h.name == name) {
				out = append(out, h)
			}
		}
		return out
	}
}

func (w *lsWalker) block(stmts []ast.Stmt, held []lsHeld) []lsHeld {
	w.depth++
	for _, s := range stmts {
		held = w.stmt(s, held)
	}
	w.depth--
	return held
}

// funcLit walks the body of a function literal as a function of its own, entered with the given locks.
func (w *lsWalker) funcLit(body []ast.Stmt, held []lsHeld) {
	d, dh := w.depth, w.deferHeld
	w.depth, w.deferHeld = 0, nil
	w.block(body, held)
	w.depth, w.deferHeld = d, dh
}

func (w *lsWalker) stmt(s ast.Stmt, held []lsHeld) []lsHeld {
	switch x := s.(type) {
	case *ast.ExprStmt:
		if c, ok := x.X.(*ast.CallExpr); ok {
			if b, n, op, ok := w.lockCall(c); ok {
				return w.apply(held, b, n, op)
			}
		}
		w.expr(x.X, held, "R")
	case *ast.DeferStmt:
		if b, n, op, ok := w.lockCall(x.Call); ok && (op == "Unlock" || op == "RUnlock") {
			if w.depth == 1 { // unconditional: the lock is held until the function exits
				for _, h := range held {
					if h.base == b && h.name == n {
						w.deferHeld = append(w.deferHeld, h)
					}
				}
			}
			return held // released at function exit
		}
		if fl, ok := x.Call.Fun.(*ast.FuncLit); ok {
			// deferred calls run last-in first-out: this closure runs BEFORE every unlock that was deferred earlier,
			// i.e. with those locks still held (locks without a deferred unlock may be gone by then: not counted)
			w.funcLit(fl.Body.List, append([]lsHeld{}, w.deferHeld...))
		} else {
			w.expr(x.Call, nil, "R")
		}
	case *ast.GoStmt:
		if fl, ok := x.Call.Fun.(*ast.FuncLit); ok {
			w.funcLit(fl.Body.List, nil)
		}
		for _, a := range x.Call.Args {
			w.expr(a, held, "R")
		}
	case *ast.AssignStmt:
		if len(x.Rhs) == 1 {
			if a, ok := w.elemSource(x.Rhs[0]); ok {
				if id, ok := x.Lhs[0].(*ast.Ident); ok {
					w.alias[id.Name] = a
				}
			}
		}
		for _, r := range x.Rhs {
			w.expr(r, held, "R")
		}
		for i, l := range x.Lhs {
			w.expr(l, held, "W")
			if id, ok := l.(*ast.Ident); ok && x.Tok == token.DEFINE && i < len(x.Rhs) && len(x.Lhs) == len(x.Rhs) {
				if t := w.rhsType(x.Rhs[i]); t != "" {
					w.env[id.Name] = t
				}
			}
		}
	case *ast.IncDecStmt:
		w.expr(x.X, held, "W")
	case *ast.ReturnStmt:
		for _, r := range x.Results {
			w.expr(r, held, "R")
		}
	case *ast.BlockStmt:
		w.block(x.List, held)
	case *ast.IfStmt:
		if x.Init != nil {
			held = w.stmt(x.Init, held)
		}
		w.expr(x.Cond, held, "R")
		w.block(x.Body.List, held)
		if x.Else != nil {
			w.stmt(x.Else, held)
		}
	case *ast.ForStmt:
		if x.Init != nil {
			w.stmt(x.Init, held)
		}
		if x.Cond != nil {
			w.expr(x.Cond, held, "R")
		}
		if x.Post != nil {
			w.stmt(x.Post, held)
		}
		w.block(x.Body.List, held)
	case *ast.RangeStmt:
		if a, ok := w.elemSource(x.X); ok {
			w.elemSite(a, x.X.Pos(), held, "R")
		}
		w.expr(x.X, held, "R")
		if id, ok := x.Value.(*ast.Ident); ok && id != nil {
			if t := w.typeOf(x.X); t != "" {
				w.env[id.Name] = t
			}
		}
		w.block(x.Body.List, held)
	case *ast.SwitchStmt:
		if x.Init != nil {
			held = w.stmt(x.Init, held)
		}
		if x.Tag != nil {
			w.expr(x.Tag, held, "R")
		}
		for _, c := range x.Body.List {
			cc := c.(*ast.CaseClause)
			for _, e := range cc.List {
				w.expr(e, held, "R")
			}
			w.block(cc.Body, held)
		}
	case *ast.TypeSwitchStmt:
		for _, c := range x.Body.List {
			w.block(c.(*ast.CaseClause).Body, held)
		}
	case *ast.SelectStmt:
		for _, c := range x.Body.List {
			cc := c.(*ast.CommClause)
			if cc.Comm != nil {
				w.stmt(cc.Comm, held)
			}
			w.block(cc.Body, held)
		}
	case *ast.SendStmt:
		w.expr(x.Chan, held, "R")
		w.expr(x.Value, held, "R")
	case *ast.DeclStmt:
		if gd, ok := x.Decl.(*ast.GenDecl); ok {
			for _, sp := range gd.Specs {
				if vs, ok := sp.(*ast.ValueSpec); ok {
					for _, nm := range vs.Names {
						if vs.Type != nil {
							w.env[nm.Name] = lsTypeName(vs.Type)
						}
					}
					for _, v := range vs.Values {
						w.expr(v, held, "R")
					}
				}
			}
		}
	case *ast.LabeledStmt:
		return w.stmt(x.Stmt, held)
	}
	return held
}

func (w *lsWalker) rhsType(e ast.Expr) string {
	switch x := e.(type) {
	case *ast.UnaryExpr:
		if cl, ok := x.X.(*ast.CompositeLit); ok {
			return lsTypeName(cl.Type)
		}
	case *ast.CallExpr:
		if id, ok := x.Fun.(*ast.Ident); ok && id.Name == "newChannelInstance" {
			return "channelInstance"
		}
	}
	return w.typeOf(e)
}

// expr records accesses in e; mode is "W" when e itself is being assigned.
func (w *lsWalker) expr(e ast.Expr, held []lsHeld, mode string) {
	switch x := e.(type) {
	case nil:
	case *ast.SelectorExpr:
		if structs, ok := w.p.tracked[x.Sel.Name]; ok {
			t := w.typeOf(x.X)
			owner := ""
			if t != "" {
				if structs[t] {
					owner = t
				}
			} else if len(structs) == 1 {
				for s := range structs {
					// unique among tracked structs: accept only if no OTHER struct of the package has a field of that name
					cnt := 0
					for _, fs := range w.p.structs {
						if _, has := fs[x.Sel.Name]; has {
							cnt++
						}
					}
					if cnt == 1 {
						owner = s
					} else if w.err == nil {
						w.err = fmt.Errorf("%s: %s: cannot resolve the struct of %s (field name is ambiguous in the package)", w.file, w.fn, lsText(w.p.fset, x))
					}
				}
			}
			if owner != "" {
				base := lsText(w.p.fset, x.X)
				var locks []string
				for _, h := range held {
					if h.base == base {
						m := "/X"
						if !h.excl {
							m = "/S"
						}
						locks = append(locks, h.name+m)
					}
				}
				sort.Strings(locks)
				w.sites = append(w.sites, lsSite{loc: owner + "." + x.Sel.Name, kind: mode, fn: w.fn, file: w.file,
					line: w.p.fset.Position(x.Pos()).Line, locks: locks})
			}
		}
		w.expr(x.X, held, "R")
	case *ast.IndexExpr:
		if a, ok := w.elemSource(x.X); ok { // v[i] / X.f[k][i]: an element of the tracked slice
			w.elemSite(a, x.Pos(), held, mode)
			w.expr(x.X, held, "R")
			w.expr(x.Index, held, "R")
			return
		}
		w.expr(x.X, held, mode) // m[k] = v writes m
		w.expr(x.Index, held, "R")
	case *ast.StarExpr:
		w.expr(x.X, held, mode)
	case *ast.ParenExpr:
		w.expr(x.X, held, mode)
	case *ast.UnaryExpr:
		w.expr(x.X, held, "R")
	case *ast.BinaryExpr:
		w.expr(x.X, held, "R")
		w.expr(x.Y, held, "R")
	case *ast.CallExpr:
		if id, ok := x.Fun.(*ast.Ident); ok && (id.Name == "copy" || id.Name == "clear") && len(x.Args) >= 1 {
			if a, ok := w.elemSource(x.Args[0]); ok {
				w.elemSite(a, x.Pos(), held, "W")
			}
			if len(x.Args) == 2 {
				if a, ok := w.elemSource(x.Args[1]); ok {
					w.elemSite(a, x.Pos(), held, "R")
				}
			}
		}
		if sel, ok := x.Fun.(*ast.SelectorExpr); ok && len(x.Args) >= 1 {
			if pk, ok := sel.X.(*ast.Ident); ok && ((pk.Name == "slices" && lsSliceMutators[sel.Sel.Name]) || (pk.Name == "sort" && strings.HasPrefix(sel.Sel.Name, "S"))) {
				if a, ok := w.elemSource(x.Args[0]); ok {
					w.elemSite(a, x.Pos(), held, "W")
				}
			}
		}
		if id, ok := x.Fun.(*ast.Ident); ok && id.Name == "delete" && len(x.Args) == 2 {
			w.expr(x.Args[0], held, "W")
			w.expr(x.Args[1], held, "R")
			return
		}
		if sel, ok := x.Fun.(*ast.SelectorExpr); ok {
			if pk, ok := sel.X.(*ast.Ident); ok && pk.Name == "atomic" && len(x.Args) >= 1 {
				if u, ok := x.Args[0].(*ast.UnaryExpr); ok && u.Op == token.AND {
					w.expr(u.X, held, "A")
					for _, a := range x.Args[1:] {
						w.expr(a, held, "R")
					}
					return
				}
			}
			if ann, ok := lsAnnotations[sel.Sel.Name]; ok {
				good := true
				for _, a := range ann {
					base := lsText(w.p.fset, sel.X)
					found := false
					if a.param != "" {
						if a.argIdx >= len(x.Args) {
							good = false
							continue
						}
						base = lsText(w.p.fset, x.Args[a.argIdx])
						found = base == "nil"
					}
					for _, h := range held {
						if h.base == base && strings.HasSuffix(h.name, "."+a.lock) && (h.excl || !a.excl) {
							found = true
						}
					}
					good = good && found
				}
				lsContracts = append(lsContracts, lsContract{sel.Sel.Name, w.fn, good})
			}
			w.expr(sel.X, held, "R")
		} else if fl, ok := x.Fun.(*ast.FuncLit); ok {
			w.block(fl.Body.List, held)
		}
		for _, a := range x.Args {
			w.expr(a, held, "R")
		}
	case *ast.FuncLit:
		w.funcLit(x.Body.List, nil)
	case *ast.CompositeLit:
		for _, el := range x.Elts {
			if kv, ok := el.(*ast.KeyValueExpr); ok {
				w.expr(kv.Value, held, "R")
			} else {
				w.expr(el, held, "R")
			}
		}
	case *ast.KeyValueExpr:
		w.expr(x.Value, held, "R")
	case *ast.SliceExpr:
		w.expr(x.X, held, "R")
	case *ast.TypeAssertExpr:
		w.expr(x.X, held, "R")
	}
}

func init() {
	register("locksites", func(repo string) (string, string, error) {
		lsContracts = nil
		sites, err := lsGen(repo)
		if err != nil {
			return "", "", err
		}
		var b strings.Builder
		b.WriteString("(* GENERATED by go/cmd/translate/locksites.go from the Go AST of uasc, the root package and server. Do not edit. *)\nFrom Coq Require Import Bool List String.\nFrom Opcua Require Import Model.Lockset.\nImport ListNotations.\n\n")
		b.WriteString("(* (site, function, file, line) *)\nDefinition lock_sites : list (site * string * string * nat) := [\n")
		for i, s := range sites {
			if i > 0 {
				b.WriteString(";\n")
			}
			k := map[string]string{"R": "ARead", "W": "AWrite", "A": "AAtomic"}[s.kind]
			var ls []string
			for _, l := range s.locks {
				ls = append(ls, fmt.Sprintf("(%q%%string, %v)", strings.TrimSuffix(strings.TrimSuffix(l, "/X"), "/S"), strings.HasSuffix(l, "/X")))
			}
			fmt.Fprintf(&b, " ({| s_loc := %q%%string; s_kind := %s; s_locks := [%s] |}, %q%%string, %q%%string, %d%%nat)", s.loc, k, strings.Join(ls, "; "), s.fn, s.file, s.line)
		}
		b.WriteString("\n].\n\n(* caller-holds-lock contracts: (callee, caller, caller holds the promised lock at the call) *)\nDefinition lock_contracts : list (string * string * bool) := [\n")
		for i, c := range lsContracts {
			if i > 0 {
				b.WriteString(";\n")
			}
			fmt.Fprintf(&b, " (%q%%string, %q%%string, %v)", c.callee, c.caller, c.ok)
		}
		b.WriteString("\n].\n")
		return "LockSites.v", b.String(), nil
	})
}
