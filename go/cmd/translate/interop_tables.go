package main

// InteropTables.v (C37): facts about the connection steps that connect_ok composes, obtained by CALLING the code:
//   * sym_dir: for every policy, two algorithms built by uapolicy.Symmetric with swapped nonces (the two ends of a
//     channel) are run against each other (encrypt/decrypt, sign/verify, both directions) and their keys are compared
//     with an independent P_hash (RFC 5246 / Part 6 table 33) computed here with crypto/hmac;
//   * asym_rt: for every policy, two algorithms built by uapolicy.Asymmetric from two real RSA-2048 key pairs (the two
//     ends) are run against each other (signature/verify, encrypt/decrypt over several lengths);
//   * session nonce lengths (server const sessionNonceLength, client CreateSession literal) parsed from the AST.

import (
	"bytes"
	"crypto"
	"crypto/hmac"
	"crypto/rand"
	"crypto/rsa"
	"crypto/x509"
	"encoding/binary"
	"encoding/pem"
	"fmt"
	"go/ast"
	"go/parser"
	"go/printer"
	"go/token"
	"hash"
	"os"
	"path/filepath"
	"sort"
	"strconv"
	"strings"

	_ "crypto/sha1"
	_ "crypto/sha256"

	"github.com/gopcua/opcua/ua"
	"github.com/gopcua/opcua/uapolicy"
	"github.com/gopcua/opcua/uasc"
)

func interopPHash(h func() hash.Hash, secret, seed []byte, n int) []byte {
	mac := func(key, msg []byte) []byte {
		m := hmac.New(h, key)
		m.Write(msg)
		return m.Sum(nil)
	}
	var p []byte
	a := mac(secret, seed)
	for len(p) < n {
		p = append(p, mac(secret, append(append([]byte{}, a...), seed...))...)
		a = mac(secret, a)
	}
	return p[:n]
}

// Part 7 key derivation hash per policy (hand table: this is the specification side of the comparison)
var interopKDFHash = map[string]crypto.Hash{
	"Basic128Rsa15":         crypto.SHA1,
	"Basic256":              crypto.SHA1,
	"Basic256Sha256":        crypto.SHA256,
	"Aes128_Sha256_RsaOaep": crypto.SHA256,
	"Aes256_Sha256_RsaPss":  crypto.SHA256,
}

func interopKey(dir, name string) (*rsa.PrivateKey, error) {
	f := filepath.Join(dir, name)
	if b, err := os.ReadFile(f); err == nil {
		if blk, _ := pem.Decode(b); blk != nil {
			if k, err := x509.ParsePKCS1PrivateKey(blk.Bytes); err == nil && k.N.BitLen() == 2048 {
				return k, nil
			}
		}
	}
	k, err := rsa.GenerateKey(rand.Reader, 2048)
	if err != nil {
		return nil, err
	}
	if os.MkdirAll(dir, 0o755) == nil {
		tmp := f + ".tmp" + strconv.Itoa(os.Getpid())
		if os.WriteFile(tmp, pem.EncodeToMemory(&pem.Block{Type: "RSA PRIVATE KEY", Bytes: x509.MarshalPKCS1PrivateKey(k)}), 0o600) == nil {
			os.Rename(tmp, f)
		}
	}
	return k, nil
}

func interopSymDir(uri, name string, nl int) (consistent, spec bool) {
	n1 := make([]byte, nl)
	n2 := make([]byte, nl)
	for i := range n1 {
		n1[i] = byte(3*i + 1)
		n2[i] = byte(250 - 5*i)
	}
	a, err := uapolicy.Symmetric(uri, n1, n2)
	if err != nil {
		return false, false
	}
	b, err := uapolicy.Symmetric(uri, n2, n1)
	if err != nil {
		return false, false
	}
	msg := make([]byte, 64)
	for i := range msg {
		msg[i] = byte(i * 7)
	}
	consistent = true
	for _, pr := range [][2]*uapolicy.EncryptionAlgorithm{{a, b}, {b, a}} {
		c, err := pr[0].Encrypt(msg)
		if err != nil {
			return false, false
		}
		d, err := pr[1].Decrypt(c)
		if err != nil || !bytes.Equal(d, msg) {
			consistent = false
		}
		s, err := pr[0].Signature(msg)
		if err != nil {
			return false, false
		}
		if pr[1].VerifySignature(msg, s) != nil {
			consistent = false
		}
	}
	if name == "None" {
		return consistent, true
	}
	hh, ok := interopKDFHash[name]
	if !ok {
		return consistent, false
	}
	encKey, encIV, decKey, decIV, signKey, verifyKey := uapolicy.VerifAlgoKeys(a)
	sl, el, bl := len(signKey), len(encKey), len(encIV)
	if sl == 0 || el == 0 || bl == 0 {
		return consistent, false
	}
	// a's own (sending) keys: secret = remote nonce, seed = local nonce; receiving keys the other way round
	send := interopPHash(hh.New, n2, n1, sl+el+bl)
	recv := interopPHash(hh.New, n1, n2, sl+el+bl)
	spec = bytes.Equal(signKey, send[:sl]) && bytes.Equal(encKey, send[sl:sl+el]) && bytes.Equal(encIV, send[sl+el:]) &&
		bytes.Equal(verifyKey, recv[:sl]) && bytes.Equal(decKey, recv[sl:sl+el]) && bytes.Equal(decIV, recv[sl+el:])
	return consistent, spec
}

func interopAsymRT(uri string, k1, k2 *rsa.PrivateKey) bool {
	a, err := uapolicy.Asymmetric(uri, k1, &k2.PublicKey)
	if err != nil {
		return false
	}
	b, err := uapolicy.Asymmetric(uri, k2, &k1.PublicKey)
	if err != nil {
		return false
	}
	for _, n := range []int{1, 40, a.PlaintextBlockSize(), a.PlaintextBlockSize() + 1, 3*a.PlaintextBlockSize() - 2} {
		if n <= 0 {
			return false
		}
		msg := make([]byte, n)
		for i := range msg {
			msg[i] = byte(i*13 + n)
		}
		for _, pr := range [][2]*uapolicy.EncryptionAlgorithm{{a, b}, {b, a}} {
			s, err := pr[0].Signature(msg)
			if err != nil || len(s) != pr[0].SignatureLength() || pr[1].VerifySignature(msg, s) != nil {
				return false
			}
			bad := append([]byte{}, msg...)
			bad[0] ^= 1
			if pr[1].VerifySignature(bad, s) == nil {
				return false
			}
			// encryption works on whole plaintext blocks except for the last one in the user-token path; test both
			c, err := pr[0].Encrypt(msg)
			if err != nil {
				return false
			}
			d, err := pr[1].Decrypt(c)
			if err != nil || !bytes.Equal(d, msg) {
				return false
			}
		}
	}
	return true
}

// interopConstInt finds `const name = <int>` in a file.
func interopConstInt(file, name string) (int, error) {
	fset := token.NewFileSet()
	f, err := parser.ParseFile(fset, file, nil, 0)
	if err != nil {
		return 0, err
	}
	found, val := false, 0
	ast.Inspect(f, func(n ast.Node) bool {
		vs, ok := n.(*ast.ValueSpec)
		if !ok {
			return true
		}
		for i, id := range vs.Names {
			if id.Name == name && i < len(vs.Values) {
				if bl, ok := vs.Values[i].(*ast.BasicLit); ok {
					if v, err := strconv.Atoi(bl.Value); err == nil {
						found, val = true, v
					}
				}
			}
		}
		return true
	})
	if !found {
		return 0, fmt.Errorf("%s: integer constant %s not found", file, name)
	}
	return val, nil
}

// interopMakeLen finds, inside func fn of file, the statement `<v> := make([]byte, <int>)` and returns the int.
func interopMakeLen(file, fn, v string) (int, error) {
	fset := token.NewFileSet()
	f, err := parser.ParseFile(fset, file, nil, 0)
	if err != nil {
		return 0, err
	}
	found, val := 0, 0
	for _, d := range f.Decls {
		fd, ok := d.(*ast.FuncDecl)
		if !ok || fd.Name.Name != fn || fd.Body == nil {
			continue
		}
		ast.Inspect(fd.Body, func(n ast.Node) bool {
			as, ok := n.(*ast.AssignStmt)
			if !ok || len(as.Lhs) != 1 || len(as.Rhs) != 1 {
				return true
			}
			id, ok := as.Lhs[0].(*ast.Ident)
			if !ok || id.Name != v {
				return true
			}
			call, ok := as.Rhs[0].(*ast.CallExpr)
			if !ok || len(call.Args) != 2 {
				return true
			}
			if fid, ok := call.Fun.(*ast.Ident); !ok || fid.Name != "make" {
				return true
			}
			if bl, ok := call.Args[1].(*ast.BasicLit); ok {
				if x, err := strconv.Atoi(bl.Value); err == nil {
					found++
					val = x
				}
			}
			return true
		})
	}
	if found != 1 {
		return 0, fmt.Errorf("%s: expected exactly one `%s := make([]byte, N)` in %s, found %d", file, v, fn, found)
	}
	return val, nil
}

// ---- asymmetric chunk securing across key sizes (the OPN request and response), with a toy cipher of the right sizes

func interopToyAlgo(localKB, remoteKB int) *uapolicy.EncryptionAlgorithm {
	const minpad = 42
	mac := func(n int, m []byte) []byte {
		var sum byte
		for i, b := range m {
			sum += b * byte(i%7+1)
		}
		out := make([]byte, n)
		for i := range out {
			out[i] = sum + byte(i)
		}
		return out
	}
	return uapolicy.VerifNewAlgorithm(remoteKB, remoteKB-minpad, localKB, remoteKB, 32, uapolicy.VerifCipher{
		Enc: func(src []byte) ([]byte, error) { // each plaintext block of remoteKB-42 bytes becomes remoteKB bytes
			p := remoteKB - minpad
			var out []byte
			for i := 0; i < len(src); i += p {
				e := i + p
				if e > len(src) {
					e = len(src)
				}
				blk := append([]byte{}, src[i:e]...)
				for len(blk) < remoteKB {
					blk = append(blk, 0xEE)
				}
				out = append(out, blk...)
			}
			return out, nil
		},
		Dec: func(src []byte) ([]byte, error) { // the receiver's own key size is its local one
			if len(src)%localKB != 0 {
				return nil, fmt.Errorf("toy: ciphertext is not a whole number of %d-byte blocks", localKB)
			}
			var out []byte
			for i := 0; i < len(src); i += localKB {
				out = append(out, src[i:i+localKB-minpad]...)
			}
			return out, nil
		},
		Sign: func(m []byte) ([]byte, error) { return mac(localKB, m), nil },
		Verify: func(m, sg []byte) error {
			if !bytes.Equal(mac(remoteKB, m), sg) {
				return fmt.Errorf("toy: bad signature")
			}
			return nil
		},
	})
}

// interopChunkRT secures OPN-sized chunks on a sender holding a senderKB-byte key for a receiver holding a recvKB-byte
// key with the REAL uasc.signAndEncrypt and opens them with the REAL verifyAndDecrypt.
func interopChunkRT(senderKB, recvKB int) bool {
	uri := ua.SecurityPolicyURIBasic256Sha256
	for _, bl := range []int{0, 1, 50, 131, 132, 133, 400, 1000} {
		alice := uasc.VerifNewInstance(uri, ua.MessageSecurityModeSignAndEncrypt, interopToyAlgo(senderKB, recvKB), 7, 0, 0)
		bob := uasc.VerifNewInstance(uri, ua.MessageSecurityModeSignAndEncrypt, interopToyAlgo(recvKB, senderKB), 7, 0, 0)
		cert := make([]byte, 700)
		thumb := make([]byte, 20)
		ah := uasc.NewAsymmetricSecurityHeader(uri, cert, thumb)
		ahb, err := ah.Encode()
		if err != nil {
			return false
		}
		body := make([]byte, bl)
		for i := range body {
			body[i] = byte(i*5 + bl)
		}
		raw := make([]byte, 0, 12+len(ahb)+8+bl)
		raw = append(raw, 'O', 'P', 'N', 'F', 0, 0, 0, 0, 7, 0, 0, 0)
		raw = append(raw, ahb...)
		raw = append(raw, 1, 0, 0, 0, 1, 0, 0, 0)
		raw = append(raw, body...)
		binary.LittleEndian.PutUint32(raw[4:], uint32(len(raw)))
		msg := &uasc.Message{MessageHeader: &uasc.MessageHeader{
			Header:                   uasc.NewHeader(uasc.MessageTypeOpenSecureChannel, uasc.ChunkTypeFinal, 7),
			AsymmetricSecurityHeader: ah,
			SequenceHeader:           uasc.NewSequenceHeader(1, 1)}}
		out, err := alice.SignAndEncrypt(msg, raw)
		if err != nil {
			return false
		}
		_, dec, err := bob.VerifyAndDecrypt(out)
		if err != nil || len(dec) != 8+bl || !bytes.Equal(dec[8:], body) {
			return false
		}
	}
	return true
}

// interopCreateSessionCert reports whether func CreateSession contains a composite literal of ua.CreateSessionResponse
// whose ServerCertificate field is the selector expression <x>.srv.cfg.certificate.
func interopCreateSessionCert(file string) (bool, error) {
	fset := token.NewFileSet()
	f, err := parser.ParseFile(fset, file, nil, 0)
	if err != nil {
		return false, err
	}
	found, ok := 0, false
	for _, d := range f.Decls {
		fd, isFn := d.(*ast.FuncDecl)
		if !isFn || fd.Name.Name != "CreateSession" || fd.Body == nil {
			continue
		}
		ast.Inspect(fd.Body, func(n ast.Node) bool {
			cl, isCl := n.(*ast.CompositeLit)
			if !isCl {
				return true
			}
			if se, isSel := cl.Type.(*ast.SelectorExpr); !isSel || se.Sel.Name != "CreateSessionResponse" {
				return true
			}
			for _, el := range cl.Elts {
				kv, isKV := el.(*ast.KeyValueExpr)
				if !isKV {
					continue
				}
				if k, isID := kv.Key.(*ast.Ident); isID && k.Name == "ServerCertificate" {
					found++
					var sb strings.Builder
					printer.Fprint(&sb, fset, kv.Value)
					ok = strings.HasSuffix(sb.String(), ".srv.cfg.certificate")
				}
			}
			return true
		})
	}
	if found != 1 {
		return false, fmt.Errorf("%s: expected one CreateSessionResponse literal with a ServerCertificate field in CreateSession, found %d", file, found)
	}
	return ok, nil
}

func genInterop(repo string) (string, error) {
	var b strings.Builder
	b.WriteString("(* GENERATED by go/cmd/translate/interop_tables.go by calling uapolicy.Symmetric/Asymmetric and parsing server/session_service.go, client.go. Do not edit. *)\n")
	b.WriteString("From Coq Require Import ZArith List String Bool.\nImport ListNotations.\nOpen Scope Z_scope.\n\n")
	uris := uapolicy.SupportedPolicies()
	sort.Strings(uris)

	b.WriteString("(* policies registered in uapolicy.policies (short names) *)\nDefinition supported_policies : list string := [")
	for i, u := range uris {
		if i > 0 {
			b.WriteString("; ")
		}
		fmt.Fprintf(&b, "%q%%string", shortName(u))
	}
	b.WriteString("].\n\n")

	b.WriteString("(* (policy, (two ends built with swapped nonces understand each other in both directions,\n   keys equal the Part 6 derivation: sender keys = P_hash(secret := peer nonce, seed := own nonce))) *)\nDefinition sym_dir : list (string * (bool * bool)) := [\n")
	for i, u := range uris {
		nl := 32
		if a, err := uapolicy.Asymmetric(u, nil, nil); err == nil && a.NonceLength() > 0 {
			nl = a.NonceLength()
		}
		c, s := interopSymDir(u, shortName(u), nl)
		if i > 0 {
			b.WriteString(";\n")
		}
		fmt.Fprintf(&b, " (%q%%string, (%v, %v))", shortName(u), c, s)
	}
	b.WriteString("\n].\n\n")

	exe, _ := os.Executable()
	kdir := os.Getenv("VERIF_KEYS")
	if kdir == "" {
		kdir = filepath.Join(filepath.Dir(filepath.Dir(exe)), "keys")
	}
	k1, err := interopKey(kdir, "translate-a-2048.key.pem")
	if err != nil {
		return "", err
	}
	k2, err := interopKey(kdir, "translate-b-2048.key.pem")
	if err != nil {
		return "", err
	}
	b.WriteString("(* (policy, two ends holding real RSA-2048 keys verify each other's signatures and decrypt each other's ciphertexts) *)\nDefinition asym_rt : list (string * bool) := [\n")
	for i, u := range uris {
		ok := true
		if u != ua.SecurityPolicyURINone {
			ok = interopAsymRT(u, k1, k2)
		}
		if i > 0 {
			b.WriteString(";\n")
		}
		fmt.Fprintf(&b, " (%q%%string, %v)", shortName(u), ok)
	}
	b.WriteString("\n].\n\n")

	// constructors with different key sizes on the two ends, and the OPN chunk round trip across key sizes
	b.WriteString("(* (policy, local key bytes, remote key bytes, (Asymmetric accepts, plaintext block size, nonce length)) by calling uapolicy.Asymmetric *)\nDefinition asym_mixed : list (string * Z * Z * (bool * Z * Z)) := [\n")
	sizes := []int{128, 256, 384, 512}
	first := true
	for _, u := range uris {
		for _, l := range append([]int{0}, sizes...) { // local 0 = no local key (a client without certificate)
			for _, r := range sizes {
				var lk *rsa.PrivateKey
				if l > 0 {
					lk = fakeKey(l)
				}
				rk := fakeKey(r)
				a, err := uapolicy.Asymmetric(u, lk, &rk.PublicKey)
				if !first {
					b.WriteString(";\n")
				}
				first = false
				if err != nil {
					fmt.Fprintf(&b, " (%q%%string, %d, %d, (false, 0, 0))", shortName(u), l, r)
				} else {
					fmt.Fprintf(&b, " (%q%%string, %d, %d, (true, %d, %d))", shortName(u), l, r, a.PlaintextBlockSize(), a.NonceLength())
				}
			}
		}
	}
	b.WriteString("\n].\n\n(* (sender key bytes, receiver key bytes, an OpenSecureChannel chunk secured by uasc.signAndEncrypt is opened by the peer's verifyAndDecrypt) *)\nDefinition opn_chunk_rt : list (Z * Z * bool) := [\n")
	first = true
	for _, l := range sizes {
		for _, r := range sizes {
			if !first {
				b.WriteString(";\n")
			}
			first = false
			fmt.Fprintf(&b, " (%d, %d, %v)", l, r, interopChunkRT(l, r))
		}
	}
	b.WriteString("\n].\n\n")

	// CreateSessionResponse.ServerCertificate: the client encrypts user-name passwords with it (EncryptUserPassword),
	// also on the None/None endpoint, whose user token policies name the secured policies the server enables
	certOK, err := interopCreateSessionCert(filepath.Join(repo, "server/session_service.go"))
	if err != nil {
		return "", err
	}
	fmt.Fprintf(&b, "(* server/session_service.go CreateSession: the CreateSessionResponse literal sets ServerCertificate to s.srv.cfg.certificate itself (not to something computed under a condition) *)\nDefinition create_session_sends_certificate : bool := %v.\n\n", certOK)

	sn, err := interopConstInt(filepath.Join(repo, "server/session_service.go"), "sessionNonceLength")
	if err != nil {
		return "", err
	}
	cn, err := interopMakeLen(filepath.Join(repo, "client.go"), "CreateSession", "nonce")
	if err != nil {
		return "", err
	}
	fmt.Fprintf(&b, "(* server/session_service.go: const sessionNonceLength; client.go CreateSession: nonce := make([]byte, N) *)\nDefinition session_nonce_server : Z := %d.\nDefinition session_nonce_client : Z := %d.\n", sn, cn)
	return b.String(), nil
}

func init() {
	register("interop", func(repo string) (string, string, error) {
		s, err := genInterop(repo)
		return "InteropTables.v", s, err
	})
}
