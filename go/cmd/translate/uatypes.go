package main

// UaTypes.v: a type descriptor (universe `ty` of Model/CodecTypes.v) for every type in the service registry and
// the extension-object registry of package ua and everything reachable from them, classified with the same
// predicate order as ua.encode / ua.decode (implements BinaryEncoder/BinaryDecoder -> custom; convertible to
// time.Time -> time; otherwise by reflect.Kind), plus the registry keys, the Variant type-id table and the codec
// constants. Anything outside the modelled universe is an error (the tie is then broken, not guessed).

import (
	"fmt"
	"reflect"
	"regexp"
	"sort"
	"strconv"
	"strings"
	"time"

	"github.com/gopcua/opcua/ua"
)

var (
	uaEncoderT = reflect.TypeOf((*ua.BinaryEncoder)(nil)).Elem()
	uaDecoderT = reflect.TypeOf((*ua.BinaryDecoder)(nil)).Elem()
	uaTimeT    = reflect.TypeOf(time.Time{})
)

var uaCustoms = map[reflect.Type]string{
	reflect.TypeOf((*ua.Variant)(nil)):         "CVariant",
	reflect.TypeOf((*ua.DataValue)(nil)):       "CDataValue",
	reflect.TypeOf((*ua.DiagnosticInfo)(nil)):  "CDiagInfo",
	reflect.TypeOf((*ua.LocalizedText)(nil)):   "CLocText",
	reflect.TypeOf((*ua.NodeID)(nil)):          "CNodeID",
	reflect.TypeOf((*ua.ExpandedNodeID)(nil)):  "CExpNodeID",
	reflect.TypeOf((*ua.ExtensionObject)(nil)): "CExtObj",
	reflect.TypeOf((*ua.GUID)(nil)):            "CGUID",
}

type uaGen struct {
	defs    []string          // Coq definitions in dependency order
	names   map[reflect.Type]string
	onstack map[reflect.Type]bool
	order   []reflect.Type // named struct types in definition order
}

// UaClassify is shared with the harness through copy (see go/cmd/codecharness/classify.go): keep in sync.
func (g *uaGen) ty(t reflect.Type) (string, error) {
	enc, dec := t.Implements(uaEncoderT), t.Implements(uaDecoderT)
	if enc != dec {
		return "", fmt.Errorf("%v implements only one of BinaryEncoder/BinaryDecoder", t)
	}
	if enc {
		c, ok := uaCustoms[t]
		if !ok {
			return "", fmt.Errorf("%v has a hand-written codec that is not modelled", t)
		}
		return "(TCustom " + c + ")", nil
	}
	if t.ConvertibleTo(uaTimeT) {
		// reflect.Value.CanConvert == Type.ConvertibleTo except for slice->array conversions
		if t.Kind() != reflect.Struct {
			return "", fmt.Errorf("%v is convertible to time.Time but is not a struct", t)
		}
		return "TTime", nil
	}
	switch t.Kind() {
	case reflect.Bool:
		return "TBool", nil
	case reflect.Int8:
		return "(TInt 1 true)", nil
	case reflect.Uint8:
		return "(TInt 1 false)", nil
	case reflect.Int16:
		return "(TInt 2 true)", nil
	case reflect.Uint16:
		return "(TInt 2 false)", nil
	case reflect.Int32:
		return "(TInt 4 true)", nil
	case reflect.Uint32:
		return "(TInt 4 false)", nil
	case reflect.Int64:
		return "(TInt 8 true)", nil
	case reflect.Uint64:
		return "(TInt 8 false)", nil
	case reflect.Float32:
		return "(TFloat 4)", nil
	case reflect.Float64:
		return "(TFloat 8)", nil
	case reflect.String:
		return "TString", nil
	case reflect.Slice:
		if t.Elem().Kind() == reflect.Uint8 {
			return "TBytes", nil // fast path of writeSlice/decodeSlice
		}
		e, err := g.ty(t.Elem())
		if err != nil {
			return "", err
		}
		return "(TSlice " + e + ")", nil
	case reflect.Ptr:
		e, err := g.ty(t.Elem())
		if err != nil {
			return "", err
		}
		return "(TPtr " + e + ")", nil
	case reflect.Struct:
		return g.structTy(t)
	case reflect.Array:
		return "", fmt.Errorf("%v: fixed-size arrays do not occur in the registries and are not in the modelled universe", t)
	default:
		return "", fmt.Errorf("%v: kind %v is rejected by ua.encode (unsupported type)", t, t.Kind())
	}
}

var identRe = regexp.MustCompile(`[^A-Za-z0-9_]`)

func (g *uaGen) structTy(t reflect.Type) (string, error) {
	if n, ok := g.names[t]; ok {
		return n, nil
	}
	if g.onstack[t] {
		return "", fmt.Errorf("%v is recursive through the reflection-driven codec (not modelled)", t)
	}
	if t.Name() == "" || t.PkgPath() != "github.com/gopcua/opcua/ua" {
		return "", fmt.Errorf("struct type %v is not a named type of package ua", t)
	}
	g.onstack[t] = true
	defer delete(g.onstack, t)
	var fs []string
	for i := 0; i < t.NumField(); i++ {
		f := t.Field(i)
		if !f.IsExported() {
			return "", fmt.Errorf("%v.%s is unexported: ua.decode would panic on it", t, f.Name)
		}
		s, err := g.ty(f.Type)
		if err != nil {
			return "", fmt.Errorf("%v.%s: %w", t, f.Name, err)
		}
		fs = append(fs, fmt.Sprintf("%s (* %s *)", s, f.Name))
	}
	name := "ty_" + identRe.ReplaceAllString(t.Name(), "_")
	if len(fs) == 0 {
		g.defs = append(g.defs, fmt.Sprintf("Definition %s : ty := TStruct [].", name))
	} else {
		g.defs = append(g.defs, fmt.Sprintf("Definition %s : ty := TStruct [\n  %s\n].", name, strings.Join(fs, ";\n  ")))
	}
	g.names[t] = name
	g.order = append(g.order, t)
	return name, nil
}

var keyRe = regexp.MustCompile(`^(?:ns=(\d+);)?i=(\d+)$`)

func parseKey(k string) (ns, id uint64, err error) {
	m := keyRe.FindStringSubmatch(k)
	if m == nil {
		return 0, 0, fmt.Errorf("registry key %q is not a numeric node id (the model's registry lookup only handles numeric ids)", k)
	}
	if m[1] != "" {
		ns, _ = strconv.ParseUint(m[1], 10, 32)
	}
	id, _ = strconv.ParseUint(m[2], 10, 32)
	return ns, id, nil
}

func (g *uaGen) table(name string, es []ua.VerifRegEntry) (string, error) {
	var rows []string
	for _, e := range es {
		if e.Type.Kind() != reflect.Ptr || e.Type.Elem().Kind() != reflect.Struct {
			return "", fmt.Errorf("registry %s: %s is registered as %v, expected pointer to struct", name, e.Key, e.Type)
		}
		if e.Type.Implements(uaDecoderT) || e.Type.Implements(uaEncoderT) {
			return "", fmt.Errorf("registry %s: %v has a hand-written codec (not modelled as a registered body)", name, e.Type)
		}
		s, err := g.ty(e.Type.Elem())
		if err != nil {
			return "", err
		}
		ns, id, err := parseKey(e.Key)
		if err != nil {
			return "", err
		}
		rows = append(rows, fmt.Sprintf("  (%d, %d, %q, %s)", ns, id, e.Type.Elem().Name(), s))
	}
	sort.Strings(rows)
	return fmt.Sprintf("Definition %s : list (Z * Z * string * ty) := [\n%s\n].", name, strings.Join(rows, ";\n")), nil
}

func genUaTypes(repo string) (string, string, error) {
	g := &uaGen{names: map[reflect.Type]string{}, onstack: map[reflect.Type]bool{}}
	svc, err := g.table("svc_table", ua.VerifServiceRegistry())
	if err != nil {
		return "", "", err
	}
	eo, err := g.table("eo_table", ua.VerifExtensionObjectRegistry())
	if err != nil {
		return "", "", err
	}
	// Variant type-id table: scalar payload type for each id
	vt := ua.VerifVariantTypes()
	var ids []int
	for id := range vt {
		ids = append(ids, int(id))
	}
	sort.Ints(ids)
	var vrows []string
	for _, id := range ids {
		t := vt[ua.TypeID(id)]
		if t == nil { // TypeIDNull -> reflect.TypeOf(nil)
			continue
		}
		s, err := g.ty(t)
		if err != nil {
			return "", "", fmt.Errorf("variant type %d: %w", id, err)
		}
		vrows = append(vrows, fmt.Sprintf("  (%d, %s)", id, s))
	}
	// XMLElement body of an extension object is decoded through *XMLElement
	xml, err := g.ty(reflect.TypeOf(new(ua.XMLElement)))
	if err != nil {
		return "", "", err
	}

	var b strings.Builder
	b.WriteString("(* GENERATED by go/cmd/translate (uatypes) from package ua by reflection. Do not edit. *)\n")
	b.WriteString("From Coq Require Import NArith ZArith List String.\nFrom Opcua Require Import Model.CodecTypes.\nImport ListNotations.\nOpen Scope string_scope.\nOpen Scope Z_scope.\n\n")
	for _, d := range g.defs {
		b.WriteString(d + "\n")
	}
	b.WriteString("\n" + svc + "\n\n" + eo + "\n\n")
	fmt.Fprintf(&b, "Definition variant_types : list (Z * ty) := [\n%s\n].\n\n", strings.Join(vrows, ";\n"))
	fmt.Fprintf(&b, "Definition xml_body_ty : ty := %s.\n\n", xml)
	var all []string
	for _, t := range g.order {
		all = append(all, g.names[t])
	}
	fmt.Fprintf(&b, "Definition all_structs : list ty := [%s].\n\n", strings.Join(all, "; "))
	fmt.Fprintf(&b, "Definition go_null : Z := %d.\nDefinition go_f32qnan : Z := %d.\nDefinition go_f64qnan : Z := %d.\n", uint64(ua.VerifNull), uint64(ua.VerifF32QNaN), uint64(ua.VerifF64QNaN))
	fmt.Fprintf(&b, "Definition go_MaxVariantArrayLength : Z := %d.\n", ua.MaxVariantArrayLength)
	fmt.Fprintf(&b, "Definition go_MaxVariantArrayDimensions : Z := %d.\n", ua.MaxVariantArrayDimensions)
	fmt.Fprintf(&b, "Definition go_MaxNestingLevel : nat := %d.\n", ua.MaxNestingLevel)
	fmt.Fprintf(&b, "Definition go_variant_masks : list Z := [%d; %d].\n", ua.VariantArrayDimensions, ua.VariantArrayValues)
	fmt.Fprintf(&b, "Definition go_datavalue_masks : list Z := [%d; %d; %d; %d; %d; %d].\n", ua.DataValueValue, ua.DataValueStatusCode, ua.DataValueSourceTimestamp, ua.DataValueServerTimestamp, ua.DataValueSourcePicoseconds, ua.DataValueServerPicoseconds)
	fmt.Fprintf(&b, "Definition go_diag_masks : list Z := [%d; %d; %d; %d; %d; %d; %d].\n", ua.DiagnosticInfoSymbolicID, ua.DiagnosticInfoNamespaceURI, ua.DiagnosticInfoLocalizedText, ua.DiagnosticInfoLocale, ua.DiagnosticInfoAdditionalInfo, ua.DiagnosticInfoInnerStatusCode, ua.DiagnosticInfoInnerDiagnosticInfo)
	fmt.Fprintf(&b, "Definition go_loctext_masks : list Z := [%d; %d].\n", ua.LocalizedTextLocale, ua.LocalizedTextText)
	fmt.Fprintf(&b, "Definition go_extobj_masks : list Z := [%d; %d; %d].\n", ua.ExtensionObjectEmpty, ua.ExtensionObjectBinary, ua.ExtensionObjectXML)
	fmt.Fprintf(&b, "Definition go_nodeid_types : list Z := [%d; %d; %d; %d; %d; %d].\n", ua.NodeIDTypeTwoByte, ua.NodeIDTypeFourByte, ua.NodeIDTypeNumeric, ua.NodeIDTypeString, ua.NodeIDTypeGUID, ua.NodeIDTypeByteString)
	return "UaTypes.v", b.String(), nil
}

func init() {
	register("uatypes", genUaTypes)
}
