package main

// Handshake part of Gen/UacpFromGo.v (C06): a small symbolic executor for the straight-line limit plumbing in
//   (*Conn).Handshake     -- the Hello that is sent, and the `case "ACKF"` clause
//   (*Conn).srvhandshake  -- the `case "HELF"` clause
// and the translation of the limit conditions of the secure channel (uasc/secure_channel.go: checkPeerLimits on the
// send path, the chunk-count / message-size checks in Receive).
//
// Values are Gallina expressions over the parameters
//   l_recv l_send l_maxmsg l_maxchunks        the local configuration (c.ack before the handshake)
//   r_version r_recv r_send r_maxmsg r_maxchunks   what the peer's HEL / ACK message carries
// Supported statements: x := new(T) (fields become r_*), x := *y / y = x / y = &x (struct copy), field assignment,
// `if cond { field assignments }`, `if cond { ...; return err }` (a guard), `if err := c.Send("ACKF", x)` (records what
// is sent), calls for effect (debug.Printf, c.SendError, ...), return.  Expressions: integer literals, package
// constants, fields, min/max, comparisons, && || !.  Anything else is an error (the tie is reported broken).

import (
	"fmt"
	"go/ast"
	"go/parser"
	"go/token"
	"path/filepath"
	"sort"
	"strings"

	"github.com/gopcua/opcua/uacp"
)

var hsFields = []string{"ReceiveBufSize", "SendBufSize", "MaxMessageSize", "MaxChunkCount"}
var hsShort = map[string]string{"Version": "version", "ReceiveBufSize": "recv", "SendBufSize": "send", "MaxMessageSize": "maxmsg", "MaxChunkCount": "maxchunks"}

var hsConsts = map[string]string{
	"DefaultReceiveBufSize": fmt.Sprint(uacp.DefaultReceiveBufSize),
	"DefaultSendBufSize":    fmt.Sprint(uacp.DefaultSendBufSize),
	"DefaultMaxChunkCount":  fmt.Sprint(uacp.DefaultMaxChunkCount),
	"DefaultMaxMessageSize": fmt.Sprint(uacp.DefaultMaxMessageSize),
	"MinBufSize":            fmt.Sprint(uacp.MinBufSize),
	"hdrlen":                "8",
}

type hsState struct {
	fset    *token.FileSet
	fn      string
	structs map[string]map[string]string // variable (or "c.ack") -> field -> expression
	scalars map[string]string            // c.peerMaxMessageSize, ...
	guards  []string
	sent    map[string]string // the Acknowledge handed to c.Send("ACKF", ...)
	err     error
}

func (h *hsState) fail(n ast.Node, msg string) {
	if h.err == nil {
		h.err = fmt.Errorf("%s: %s: unsupported syntax for handshake translation: %s", h.fn, h.fset.Position(n.Pos()), msg)
	}
}

// path renders x, x.y, x.y.z as a dotted path
func path(e ast.Expr) string {
	switch x := e.(type) {
	case *ast.Ident:
		return x.Name
	case *ast.SelectorExpr:
		p := path(x.X)
		if p == "" {
			return ""
		}
		return p + "." + x.Sel.Name
	case *ast.ParenExpr:
		return path(x.X)
	case *ast.StarExpr:
		return path(x.X)
	case *ast.UnaryExpr:
		if x.Op == token.AND {
			return path(x.X)
		}
	}
	return ""
}

func copyStruct(m map[string]string) map[string]string {
	c := map[string]string{}
	for k, v := range m {
		c[k] = v
	}
	return c
}

func (h *hsState) expr(e ast.Expr) string {
	switch x := e.(type) {
	case *ast.BasicLit:
		if x.Kind == token.INT {
			return strings.ReplaceAll(x.Value, "_", "")
		}
	case *ast.ParenExpr:
		return "(" + h.expr(x.X) + ")"
	case *ast.Ident:
		if v, ok := hsConsts[x.Name]; ok {
			return v
		}
		if v, ok := h.scalars[x.Name]; ok {
			return v
		}
	case *ast.SelectorExpr:
		p := path(x)
		if i := strings.LastIndex(p, "."); i > 0 {
			if st, ok := h.structs[p[:i]]; ok {
				if v, ok := st[p[i+1:]]; ok {
					return v
				}
			}
		}
		if v, ok := h.scalars[p]; ok {
			return v
		}
	case *ast.CallExpr:
		if id, ok := x.Fun.(*ast.Ident); ok {
			switch {
			case (id.Name == "min" || id.Name == "max") && len(x.Args) == 2:
				return "(Z." + id.Name + " " + h.expr(x.Args[0]) + " " + h.expr(x.Args[1]) + ")"
			case (id.Name == "uint32" || id.Name == "uint64" || id.Name == "int") && len(x.Args) == 1:
				return h.expr(x.Args[0]) // all values handled here are below 2^32 (uint32 fields, lengths)
			case id.Name == "len" && len(x.Args) == 1:
				n := path(x.Args[0])
				if ix, ok := x.Args[0].(*ast.IndexExpr); ok {
					n = path(ix.X)
				}
				if i := strings.LastIndex(n, "."); i >= 0 {
					n = n[i+1:]
				}
				if n != "" {
					if v, ok := h.scalars["len_"+n]; ok {
						return v
					}
				}
			}
		}
		if sel, ok := x.Fun.(*ast.SelectorExpr); ok && len(x.Args) == 0 { // niladic accessor: s.c.MaxChunkCount()
			if v, ok := h.scalars[sel.Sel.Name+"()"]; ok {
				return v
			}
		}
	case *ast.UnaryExpr:
		if x.Op == token.NOT {
			return "(negb " + h.expr(x.X) + ")"
		}
	case *ast.BinaryExpr:
		a, b := h.expr(x.X), h.expr(x.Y)
		switch x.Op {
		case token.LSS:
			return "(" + a + " <? " + b + ")"
		case token.LEQ:
			return "(" + a + " <=? " + b + ")"
		case token.GTR:
			return "(" + a + " >? " + b + ")"
		case token.GEQ:
			return "(" + a + " >=? " + b + ")"
		case token.EQL:
			return "(" + a + " =? " + b + ")"
		case token.NEQ:
			return "(negb (" + a + " =? " + b + "))"
		case token.LAND:
			return "(" + a + " && " + b + ")"
		case token.LOR:
			return "(" + a + " || " + b + ")"
		case token.ADD:
			return "(" + a + " + " + b + ")"
		case token.SUB:
			return "(" + a + " - " + b + ")"
		}
	}
	h.fail(e, fmt.Sprintf("expression %T", e))
	return "0"
}

func isErrReturn(stmts []ast.Stmt) bool {
	if len(stmts) == 0 {
		return false
	}
	r, ok := stmts[len(stmts)-1].(*ast.ReturnStmt)
	if !ok || len(r.Results) != 1 {
		return false
	}
	id, isIdent := r.Results[0].(*ast.Ident)
	return !(isIdent && id.Name == "nil")
}

// assign handles one assignment; cond != "" makes it conditional
func (h *hsState) assign(x *ast.AssignStmt, cond string) {
	if len(x.Lhs) != 1 || len(x.Rhs) != 1 {
		h.fail(x, "multi-assignment")
		return
	}
	lhs, rhs := x.Lhs[0], x.Rhs[0]
	lp := path(lhs)
	// x := new(T)
	if c, ok := rhs.(*ast.CallExpr); ok {
		if id, ok := c.Fun.(*ast.Ident); ok && id.Name == "new" && len(c.Args) == 1 {
			st := map[string]string{"Version": "r_version"}
			for _, f := range hsFields {
				st[f] = "r_" + hsShort[f]
			}
			h.structs[lp] = st
			return
		}
	}
	// struct copies: x := *y, y = x, y = &x
	if rp := path(rhs); rp != "" {
		if st, ok := h.structs[rp]; ok {
			if cond != "" {
				h.fail(x, "conditional struct copy")
			}
			h.structs[lp] = copyStruct(st)
			return
		}
	}
	// composite literal &T{F: e, ...}
	var cl *ast.CompositeLit
	if u, ok := rhs.(*ast.UnaryExpr); ok && u.Op == token.AND {
		cl, _ = u.X.(*ast.CompositeLit)
	} else {
		cl, _ = rhs.(*ast.CompositeLit)
	}
	if cl != nil {
		if cond != "" {
			h.fail(x, "conditional composite literal")
		}
		st := map[string]string{"Version": "0"}
		for _, f := range hsFields {
			st[f] = "0"
		}
		for _, el := range cl.Elts {
			kv, ok := el.(*ast.KeyValueExpr)
			if !ok {
				h.fail(el, "positional composite literal")
				continue
			}
			k := path(kv.Key)
			if _, known := hsShort[k]; known {
				st[k] = h.expr(kv.Value)
			}
		}
		h.structs[lp] = st
		return
	}
	// field or scalar assignment
	v := h.expr(rhs)
	if i := strings.LastIndex(lp, "."); i > 0 {
		if st, ok := h.structs[lp[:i]]; ok {
			f := lp[i+1:]
			if cond != "" {
				v = "(if " + cond + " then " + v + " else " + st[f] + ")"
			}
			st[f] = v
			return
		}
	}
	if lp == "" {
		h.fail(x, "assignment target")
		return
	}
	if cond != "" {
		old, ok := h.scalars[lp]
		if !ok {
			old = "0"
		}
		v = "(if " + cond + " then " + v + " else " + old + ")"
	}
	h.scalars[lp] = v
}

func (h *hsState) run(stmts []ast.Stmt) {
	for _, s := range stmts {
		if h.err != nil {
			return
		}
		switch x := s.(type) {
		case *ast.ExprStmt: // calls for effect
			if _, ok := x.X.(*ast.CallExpr); !ok {
				h.fail(s, "expression statement")
			}
		case *ast.ReturnStmt:
			return
		case *ast.AssignStmt:
			h.assign(x, "")
		case *ast.DeclStmt, *ast.EmptyStmt:
		case *ast.IfStmt:
			if x.Init != nil {
				// if _, err := X.Decode(..); err != nil {..}   /   if err := c.Send("ACKF", v); err != nil {..}
				as, ok := x.Init.(*ast.AssignStmt)
				if !ok || len(as.Rhs) != 1 {
					h.fail(s, "if with init")
					continue
				}
				call, ok := as.Rhs[0].(*ast.CallExpr)
				if !ok {
					h.fail(s, "if with non-call init")
					continue
				}
				if sel, ok := call.Fun.(*ast.SelectorExpr); ok && sel.Sel.Name == "Send" && len(call.Args) == 2 {
					if lit, ok := call.Args[0].(*ast.BasicLit); ok && lit.Value == "\"ACKF\"" {
						if st, ok := h.structs[path(call.Args[1])]; ok {
							h.sent = copyStruct(st)
						} else {
							h.fail(s, "Send of an unknown value")
						}
					}
				}
				continue
			}
			if x.Else != nil {
				h.fail(s, "if/else")
				continue
			}
			cond := h.expr(x.Cond)
			if isErrReturn(x.Body.List) {
				h.guards = append(h.guards, cond)
				continue
			}
			for _, b := range x.Body.List {
				switch y := b.(type) {
				case *ast.AssignStmt:
					h.assign(y, cond)
				case *ast.ExprStmt:
				default:
					h.fail(b, fmt.Sprintf("statement %T in a conditional", b))
				}
			}
		default:
			h.fail(s, fmt.Sprintf("statement %T", s))
		}
	}
}

func caseClause(fd *ast.FuncDecl, label string) []ast.Stmt {
	var out []ast.Stmt
	ast.Inspect(fd.Body, func(n ast.Node) bool {
		if cc, ok := n.(*ast.CaseClause); ok {
			for _, e := range cc.List {
				if lit, ok := e.(*ast.BasicLit); ok && lit.Value == "\""+label+"\"" {
					out = cc.Body
				}
			}
		}
		return out == nil
	})
	return out
}

func tuple4(st map[string]string) string {
	var vs []string
	for _, f := range hsFields {
		vs = append(vs, st[f])
	}
	return "(" + strings.Join(vs, ",\n   ") + ")"
}

const hsParams = "(l_recv l_send l_maxmsg l_maxchunks r_version r_recv r_send r_maxmsg r_maxchunks : Z)"

func newHS(fset *token.FileSet, fn string) *hsState {
	h := &hsState{fset: fset, fn: fn, structs: map[string]map[string]string{}, scalars: map[string]string{}}
	st := map[string]string{"Version": "0"}
	for _, f := range hsFields {
		st[f] = "l_" + hsShort[f]
	}
	h.structs["c.ack"] = st
	h.scalars["c.peerMaxMessageSize"] = "0"
	h.scalars["c.peerMaxChunkCount"] = "0"
	return h
}

func genHandshake(repo string, fset *token.FileSet, f *ast.File) (string, error) {
	var b strings.Builder
	fmt.Fprintf(&b, "Definition go_MinBufSize : Z := %d.\n\n", uacp.MinBufSize)

	// ---- client ----------------------------------------------------------------------------------------
	fd := findMethod(f, "Conn", "Handshake")
	if fd == nil {
		return "", fmt.Errorf("uacp: method (*Conn).Handshake not found")
	}
	h := newHS(fset, "Handshake")
	// the Hello: first composite literal of type Hello
	var hello map[string]string
	ast.Inspect(fd.Body, func(n ast.Node) bool {
		if cl, ok := n.(*ast.CompositeLit); ok && hello == nil {
			if id, ok := cl.Type.(*ast.Ident); ok && id.Name == "Hello" {
				hello = map[string]string{}
				for _, el := range cl.Elts {
					if kv, ok := el.(*ast.KeyValueExpr); ok {
						if k := path(kv.Key); hsShort[k] != "" && k != "Version" {
							hello[k] = h.expr(kv.Value)
						}
					}
				}
			}
		}
		return true
	})
	if hello == nil || len(hello) != 4 {
		return "", fmt.Errorf("uacp: Handshake: &Hello{...} with the four limit fields not found (source changed shape)")
	}
	body := caseClause(fd, "ACKF")
	if body == nil {
		return "", fmt.Errorf("uacp: Handshake: case \"ACKF\" not found (source changed shape)")
	}
	h.run(body)
	if h.err != nil {
		return "", h.err
	}
	fmt.Fprintf(&b, "(* uacp/conn.go, Conn.Handshake: (ReceiveBufSize, SendBufSize, MaxMessageSize, MaxChunkCount) of the Hello *)\nDefinition go_Handshake_hello (l_recv l_send l_maxmsg l_maxchunks : Z) : Z * Z * Z * Z :=\n  %s.\n\n", tuple4(hello))
	fmt.Fprintf(&b, "(* ... case \"ACKF\": conditions under which the Acknowledge is refused, in source order *)\nDefinition go_Handshake_reject %s : list bool :=\n  [%s].\n\n", hsParams, strings.Join(h.guards, ";\n   "))
	fmt.Fprintf(&b, "(* ... c.ack afterwards: the limits this client works with *)\nDefinition go_Handshake_ack %s : Z * Z * Z * Z :=\n  %s.\n\n", hsParams, tuple4(h.structs["c.ack"]))
	fmt.Fprintf(&b, "(* ... (peerMaxMessageSize, peerMaxChunkCount) afterwards: what the server accepts *)\nDefinition go_Handshake_peer %s : Z * Z :=\n  (%s,\n   %s).\n\n", hsParams, h.scalars["c.peerMaxMessageSize"], h.scalars["c.peerMaxChunkCount"])

	// ---- server ----------------------------------------------------------------------------------------
	fd = findMethod(f, "Conn", "srvhandshake")
	if fd == nil {
		return "", fmt.Errorf("uacp: method (*Conn).srvhandshake not found")
	}
	h = newHS(fset, "srvhandshake")
	body = caseClause(fd, "HELF")
	if body == nil {
		return "", fmt.Errorf("uacp: srvhandshake: case \"HELF\" not found (source changed shape)")
	}
	h.run(body)
	if h.err != nil {
		return "", h.err
	}
	if h.sent == nil {
		return "", fmt.Errorf("uacp: srvhandshake: c.Send(\"ACKF\", ...) not found (source changed shape)")
	}
	fmt.Fprintf(&b, "(* uacp/conn.go, Conn.srvhandshake, case \"HELF\": conditions under which the Hello is refused *)\nDefinition go_srvhandshake_reject %s : list bool :=\n  [%s].\n\n", hsParams, strings.Join(h.guards, ";\n   "))
	fmt.Fprintf(&b, "(* ... the Acknowledge that is sent *)\nDefinition go_srvhandshake_sent %s : Z * Z * Z * Z :=\n  %s.\n\n", hsParams, tuple4(h.sent))
	fmt.Fprintf(&b, "(* ... c.ack afterwards: the limits this server connection works with *)\nDefinition go_srvhandshake_ack %s : Z * Z * Z * Z :=\n  %s.\n\n", hsParams, tuple4(h.structs["c.ack"]))
	fmt.Fprintf(&b, "(* ... (peerMaxMessageSize, peerMaxChunkCount) afterwards: what the client accepts *)\nDefinition go_srvhandshake_peer %s : Z * Z :=\n  (%s,\n   %s).\n\n", hsParams, h.scalars["c.peerMaxMessageSize"], h.scalars["c.peerMaxChunkCount"])

	// ---- secure channel: send-side and receive-side message limits -------------------------------------
	scFile := "uasc/secure_channel.go"
	sf, err := parser.ParseFile(fset, filepath.Join(repo, scFile), nil, 0)
	if err != nil {
		return "", err
	}
	limitConds := func(fn string, accessors map[string]string, scalars map[string]string) ([]string, error) {
		fd := findMethod(sf, "SecureChannel", fn)
		if fd == nil {
			return nil, fmt.Errorf("uasc: method (*SecureChannel).%s not found", fn)
		}
		var conds []string
		var ferr error
		ast.Inspect(fd.Body, func(n ast.Node) bool {
			x, ok := n.(*ast.IfStmt)
			if !ok || x.Init == nil || ferr != nil {
				return true
			}
			as, ok := x.Init.(*ast.AssignStmt)
			if !ok || as.Tok != token.DEFINE || len(as.Lhs) != len(as.Rhs) {
				return true
			}
			// only the ifs whose init reads one of the limit accessors
			uses := false
			for _, r := range as.Rhs {
				if c, ok := r.(*ast.CallExpr); ok {
					if sel, ok := c.Fun.(*ast.SelectorExpr); ok {
						if _, ok := accessors[sel.Sel.Name]; ok {
							uses = true
						}
					}
				}
			}
			if !uses {
				return true
			}
			h := &hsState{fset: fset, fn: fn, structs: map[string]map[string]string{}, scalars: map[string]string{}}
			for k, v := range accessors {
				h.scalars[k+"()"] = v
			}
			for k, v := range scalars {
				h.scalars[k] = v
			}
			for i := range as.Lhs {
				h.scalars[path(as.Lhs[i])] = h.expr(as.Rhs[i])
			}
			cond := h.expr(x.Cond)
			// a nested condition on the computed size (checkPeerLimits: if max > 0 { ...; if size > max {..} })
			if !isErrReturn(x.Body.List) {
				inner := ""
				for _, s := range x.Body.List {
					if y, ok := s.(*ast.IfStmt); ok && y.Init == nil && isErrReturn(y.Body.List) {
						inner = h.expr(y.Cond)
					}
				}
				if inner == "" {
					h.fail(x, "limit check that neither returns an error nor contains a check that does")
				}
				cond = "(" + cond + " && " + inner + ")"
			}
			if h.err != nil {
				ferr = h.err
			}
			conds = append(conds, cond)
			return true
		})
		return conds, ferr
	}
	send, err := limitConds("checkPeerLimits", map[string]string{"PeerMaxChunkCount": "peer_maxchunks", "PeerMaxMessageSize": "peer_maxmsg"},
		map[string]string{"len_chunks": "nchunks", "size": "size"})
	if err != nil {
		return "", err
	}
	recv, err := limitConds("Receive", map[string]string{"MaxChunkCount": "maxchunks", "MaxMessageSize": "maxmsg"},
		map[string]string{"len_chunks": "nintermediate", "len_b": "size"})
	if err != nil {
		return "", err
	}
	sort.Strings(nil)
	fmt.Fprintf(&b, "(* %s, SecureChannel.checkPeerLimits: conditions under which the sender refuses a message of `nchunks` chunks\n   and `size` body bytes, given what the peer announced (0 = no limit) *)\nDefinition go_send_refused (nchunks size peer_maxchunks peer_maxmsg : Z) : list bool :=\n  [%s].\n\n", scFile, strings.Join(send, ";\n   "))
	fmt.Fprintf(&b, "(* %s, SecureChannel.Receive: conditions under which the receiver rejects a message after `nintermediate`\n   intermediate chunks / with `size` body bytes, given its own limits (0 = no limit) *)\nDefinition go_recv_rejected (nintermediate size maxchunks maxmsg : Z) : list bool :=\n  [%s].\n\n", scFile, strings.Join(recv, ";\n   "))
	return b.String(), nil
}
