package main

import (
	"go/ast"
	"go/token"
)

// genHandshake: see below (C06).
func genHandshake(repo string, fset *token.FileSet, f *ast.File) (string, error) { return "", nil }
