package main

// ClientSites.v (engine E7, C21/C22): every expression in the client code that can panic at run time
// (slice index, slice expression, unchecked type assertion, method call on a possibly-nil *ua.Variant),
// per function, with the guard that dominates it, extracted from the type-checked AST of /repo.
// The Coq models take their guards from this table, so removing a guard or adding a new unguarded
// site changes the generated table and breaks the side conditions of the C21 theorems.

import (
	"bytes"
	"fmt"
	"go/ast"
	"go/importer"
	"go/parser"
	"go/printer"
	"go/token"
	"go/types"
	"io"
	"os"
	"os/exec"
	"path/filepath"
	"sort"
	"strconv"
	"strings"
)

type csSite struct {
	file, fn, expr, kind, guard string
	pos                         token.Pos
}

type csPkg struct {
	dir   string   // relative to repo
	path  string   // import path
	files []string // files whose functions are scanned
}

var csPkgs = []csPkg{
	{".", "github.com/gopcua/opcua", []string{"client.go", "client_sub.go", "subscription.go", "node.go"}},
	{"monitor", "github.com/gopcua/opcua/monitor", []string{"subscription.go"}},
	{"uasc", "github.com/gopcua/opcua/uasc", []string{"secure_channel_crypto.go"}},
}

func csText(fset *token.FileSet, n ast.Node) string {
	var b bytes.Buffer
	printer.Fprint(&b, fset, n)
	return strings.Join(strings.Fields(b.String()), " ")
}

func csExports(repo string) (map[string]string, error) {
	cmd := exec.Command("go", "list", "-export", "-deps", "-f", "{{.ImportPath}} {{.Export}}", "./...")
	cmd.Dir = repo
	cmd.Env = append(os.Environ(), "GOFLAGS=-mod=mod", "GOPROXY=off", "GOSUMDB=off", "GOTOOLCHAIN=local")
	out, err := cmd.Output()
	if err != nil {
		return nil, fmt.Errorf("go list -export: %v", err)
	}
	exp := map[string]string{}
	for _, l := range strings.Split(string(out), "\n") {
		f := strings.Fields(l)
		if len(f) == 2 {
			exp[f[0]] = f[1]
		}
	}
	return exp, nil
}

type csWalker struct {
	fset  *token.FileSet
	info  *types.Info
	file  string
	fn    string
	stack []ast.Node
	sites []csSite
}

func csTerminates(b *ast.BlockStmt) bool {
	if b == nil || len(b.List) == 0 {
		return false
	}
	switch s := b.List[len(b.List)-1].(type) {
	case *ast.ReturnStmt:
		return true
	case *ast.BranchStmt:
		return s.Tok == token.CONTINUE || s.Tok == token.BREAK
	case *ast.ExprStmt:
		if c, ok := s.X.(*ast.CallExpr); ok {
			if id, ok := c.Fun.(*ast.Ident); ok && id.Name == "panic" {
				return true
			}
		}
	}
	return false
}

func csFallsThrough(cc *ast.CaseClause) bool {
	if len(cc.Body) == 0 {
		return false
	}
	b, ok := cc.Body[len(cc.Body)-1].(*ast.BranchStmt)
	return ok && b.Tok == token.FALLTHROUGH
}

func csIsLenOf(fset *token.FileSet, e ast.Expr, x string) bool {
	c, ok := e.(*ast.CallExpr)
	if !ok || len(c.Args) != 1 {
		return false
	}
	id, ok := c.Fun.(*ast.Ident)
	return ok && id.Name == "len" && csText(fset, c.Args[0]) == x
}

func csFlip(op token.Token) token.Token {
	switch op {
	case token.LSS:
		return token.GTR
	case token.LEQ:
		return token.GEQ
	case token.GTR:
		return token.LSS
	case token.GEQ:
		return token.LEQ
	}
	return op
}

// csLenGuard classifies `cond` as a guard on len(x) that leaves (returns/continues) when it holds.
func csLenGuard(fset *token.FileSet, cond ast.Expr, x string) string {
	switch c := cond.(type) {
	case *ast.ParenExpr:
		return csLenGuard(fset, c.X, x)
	case *ast.BinaryExpr:
		if c.Op == token.LOR {
			if g := csLenGuard(fset, c.X, x); g != "" {
				return g
			}
			return csLenGuard(fset, c.Y, x)
		}
		op := c.Op
		var other ast.Expr
		switch {
		case csIsLenOf(fset, c.X, x):
			other = c.Y
		case csIsLenOf(fset, c.Y, x):
			other = c.X
			op = csFlip(op)
		default:
			return ""
		}
		rhs := csText(fset, other)
		n, isConst := -1, false
		if bl, ok := other.(*ast.BasicLit); ok && bl.Kind == token.INT {
			if v, err := strconv.Atoi(bl.Value); err == nil {
				n, isConst = v, true
			}
		}
		switch op {
		case token.NEQ:
			if isConst {
				return fmt.Sprintf("GLenNeConstRet %d", n)
			}
			return "GLenNeRet " + coqString(rhs)
		case token.EQL:
			if isConst && n == 0 {
				return "GLenEq0Ret"
			}
		case token.LSS:
			if isConst {
				return fmt.Sprintf("GLenLtConstRet %d", n)
			}
			return "GLenLtRet " + coqString(rhs)
		case token.LEQ:
			if isConst {
				return fmt.Sprintf("GLenLtConstRet %d", n+1)
			}
			return "GLenLeRet " + coqString(rhs)
		}
	}
	return ""
}

func csNilGuard(fset *token.FileSet, cond ast.Expr, x string) bool {
	switch c := cond.(type) {
	case *ast.ParenExpr:
		return csNilGuard(fset, c.X, x)
	case *ast.BinaryExpr:
		if c.Op == token.LOR {
			return csNilGuard(fset, c.X, x) || csNilGuard(fset, c.Y, x)
		}
		if c.Op == token.EQL {
			l, r := csText(fset, c.X), csText(fset, c.Y)
			return (l == x && r == "nil") || (r == x && l == "nil")
		}
	}
	return false
}

func csRoot(e ast.Expr) string {
	for {
		switch v := e.(type) {
		case *ast.Ident:
			return v.Name
		case *ast.SelectorExpr:
			e = v.X
		case *ast.IndexExpr:
			e = v.X
		case *ast.StarExpr:
			e = v.X
		case *ast.ParenExpr:
			e = v.X
		case *ast.CallExpr:
			return ""
		default:
			return ""
		}
	}
}

// csAssignsTo lists positions inside `scope` where `x` (exact text) or its root identifier is (re)assigned.
func (w *csWalker) csAssignsTo(scope ast.Node, x string, root string) []token.Pos {
	var out []token.Pos
	ast.Inspect(scope, func(n ast.Node) bool {
		if a, ok := n.(*ast.AssignStmt); ok {
			for _, l := range a.Lhs {
				t := csText(w.fset, l)
				if t == x || (root != "" && t == root) {
					out = append(out, a.Pos())
				}
			}
		}
		return true
	})
	return out
}

// innermost function body on the stack
func (w *csWalker) fnBody() *ast.BlockStmt {
	for i := len(w.stack) - 1; i >= 0; i-- {
		switch f := w.stack[i].(type) {
		case *ast.FuncLit:
			return f.Body
		case *ast.FuncDecl:
			return f.Body
		}
	}
	return nil
}

type csGuardHit struct {
	class string
	end   token.Pos
	pos   token.Pos
}

// csGuardsBefore finds terminating `if` statements that precede (as earlier siblings of an ancestor within the
// innermost function) the site, and classifies them with `classify`.
func (w *csWalker) csGuardsBefore(classify func(cond ast.Expr) string) []csGuardHit {
	var hits []csGuardHit
	body := w.fnBody()
	if body == nil {
		return nil
	}
	started := false
	for i := 0; i < len(w.stack)-1; i++ {
		if w.stack[i] == ast.Node(body) {
			started = true
		}
		if !started {
			continue
		}
		var list []ast.Stmt
		switch b := w.stack[i].(type) {
		case *ast.BlockStmt:
			list = b.List
			// body of a tagless switch: the conditions of the clauses before the one we are in were false
			if i > 0 && i+1 < len(w.stack) {
				if sw, ok := w.stack[i-1].(*ast.SwitchStmt); ok && sw.Tag == nil && sw.Body == b {
					for _, cl := range b.List {
						if ast.Node(cl) == w.stack[i+1] {
							break
						}
						cc, ok := cl.(*ast.CaseClause)
						if !ok || len(cc.Body) > 0 && csFallsThrough(cc) {
							continue
						}
						for _, cond := range cc.List {
							if c := classify(cond); c != "" {
								hits = append(hits, csGuardHit{class: c, end: cc.End(), pos: cc.Pos()})
							}
						}
					}
					continue
				}
			}
		case *ast.CaseClause:
			list = b.Body
		case *ast.CommClause:
			list = b.Body
		default:
			continue
		}
		child := w.stack[i+1]
		for _, s := range list {
			if ast.Node(s) == child {
				break
			}
			ifs, ok := s.(*ast.IfStmt)
			if !ok || ifs.Else != nil || !csTerminates(ifs.Body) {
				continue
			}
			if c := classify(ifs.Cond); c != "" {
				hits = append(hits, csGuardHit{class: c, end: ifs.End(), pos: ifs.Pos()})
			}
		}
	}
	return hits
}

// csValid: a guard hit is valid for a site at `at` if x is not reassigned between the guard and the site, and
// every reassignment of x later in an enclosing loop (loop-carried) is itself followed by a guard in that loop.
func (w *csWalker) csValid(h csGuardHit, at token.Pos, x string, classify func(cond ast.Expr) string) bool {
	body := w.fnBody()
	root := csRoot(mustParseExpr(x))
	for _, a := range w.csAssignsTo(body, x, root) {
		if a > h.end && a < at {
			return false
		}
	}
	for i := len(w.stack) - 1; i >= 0; i-- {
		var lb *ast.BlockStmt
		var loop ast.Node
		switch l := w.stack[i].(type) {
		case *ast.ForStmt:
			lb, loop = l.Body, l
		case *ast.RangeStmt:
			lb, loop = l.Body, l
		case *ast.FuncLit, *ast.FuncDecl:
			i = -1
			continue
		}
		if lb == nil || h.pos > loop.Pos() {
			continue // guard is inside this loop: handled by the positional rule
		}
		for _, a := range w.csAssignsTo(lb, x, root) {
			// need a terminating guard after a, directly in the loop body, with no later assignment
			ok := false
			for _, s := range lb.List {
				ifs, isIf := s.(*ast.IfStmt)
				if !isIf || ifs.Pos() < a || ifs.Else != nil || !csTerminates(ifs.Body) || classify(ifs.Cond) == "" {
					continue
				}
				later := false
				for _, a2 := range w.csAssignsTo(lb, x, root) {
					if a2 > ifs.End() {
						later = true
					}
				}
				if !later {
					ok = true
				}
			}
			if !ok {
				return false
			}
		}
	}
	return true
}

func mustParseExpr(s string) ast.Expr {
	e, err := parser.ParseExpr(s)
	if err != nil {
		return &ast.Ident{Name: "_"}
	}
	return e
}

func (w *csWalker) indexGuard(ix *ast.IndexExpr) string {
	x := csText(w.fset, ix.X)
	// (a) index variable ranges over the indexed expression itself
	if id, ok := ix.Index.(*ast.Ident); ok {
		for i := len(w.stack) - 1; i >= 0; i-- {
			if r, ok := w.stack[i].(*ast.RangeStmt); ok {
				if k, ok := r.Key.(*ast.Ident); ok && k.Name == id.Name && w.info.ObjectOf(k) == w.info.ObjectOf(id) {
					if csText(w.fset, r.X) == x {
						return "GRangeSame"
					}
					// handleAcks pattern: an earlier non-terminating `if len(R) != len(X) { R = empty }`
					rx := csText(w.fset, r.X)
					if g := w.resetGuard(r, rx, x); g != "" {
						return g
					}
					break
				}
			}
			if _, ok := w.stack[i].(*ast.FuncLit); ok {
				break
			}
		}
	}
	classify := func(c ast.Expr) string { return csLenGuard(w.fset, c, x) }
	for _, h := range w.csGuardsBefore(classify) {
		if w.csValid(h, ix.Pos(), x, classify) {
			return h.class
		}
	}
	return "GNone"
}

// resetGuard recognises: if len(R) != len(X) { ...; R = <empty literal> } placed before `for i := range R`.
func (w *csWalker) resetGuard(r *ast.RangeStmt, rx, x string) string {
	body := w.fnBody()
	if body == nil {
		return ""
	}
	for _, s := range body.List {
		if s.Pos() >= r.Pos() {
			break
		}
		ifs, ok := s.(*ast.IfStmt)
		if !ok || ifs.Else != nil {
			continue
		}
		be, ok := ifs.Cond.(*ast.BinaryExpr)
		if !ok || be.Op != token.NEQ {
			continue
		}
		if !((csIsLenOf(w.fset, be.X, rx) && csIsLenOf(w.fset, be.Y, x)) || (csIsLenOf(w.fset, be.X, x) && csIsLenOf(w.fset, be.Y, rx))) {
			continue
		}
		for _, bs := range ifs.Body.List {
			a, ok := bs.(*ast.AssignStmt)
			if !ok || len(a.Lhs) != 1 || csText(w.fset, a.Lhs[0]) != rx {
				continue
			}
			switch v := a.Rhs[0].(type) {
			case *ast.CompositeLit:
				if len(v.Elts) == 0 {
					// no reassignment of either side between the if and the loop
					ok2 := true
					for _, p := range append(w.csAssignsTo(body, rx, ""), w.csAssignsTo(body, x, "")...) {
						if p > ifs.End() && p < r.Pos() {
							ok2 = false
						}
					}
					if ok2 {
						return "GResetOnMismatch"
					}
				}
			case *ast.Ident:
				if v.Name == "nil" {
					return "GResetOnMismatch"
				}
			}
		}
	}
	return ""
}

func (w *csWalker) nilGuard(recv ast.Expr, at token.Pos) string {
	x := csText(w.fset, recv)
	classify := func(c ast.Expr) string {
		if csNilGuard(w.fset, c, x) {
			return "GNilRet"
		}
		return ""
	}
	for _, h := range w.csGuardsBefore(classify) {
		if w.csValid(h, at, x, classify) {
			return "GNilRet"
		}
	}
	return "GNone"
}

func (w *csWalker) commaOk(ta *ast.TypeAssertExpr) bool {
	if len(w.stack) < 2 {
		return false
	}
	switch p := w.stack[len(w.stack)-2].(type) {
	case *ast.AssignStmt:
		return len(p.Lhs) == 2 && len(p.Rhs) == 1 && p.Rhs[0] == ast.Expr(ta)
	case *ast.ValueSpec:
		return len(p.Names) == 2 && len(p.Values) == 1 && p.Values[0] == ast.Expr(ta)
	}
	return false
}

func (w *csWalker) add(n ast.Node, kind, guard string) {
	w.sites = append(w.sites, csSite{file: w.file, fn: w.fn, expr: csText(w.fset, n), kind: kind, guard: guard, pos: n.Pos()})
}

func (w *csWalker) Visit(n ast.Node) ast.Visitor {
	if n == nil {
		w.stack = w.stack[:len(w.stack)-1]
		return nil
	}
	w.stack = append(w.stack, n)
	switch e := n.(type) {
	case *ast.IndexExpr:
		if tv, ok := w.info.Types[e.X]; ok && tv.IsValue() {
			t := tv.Type.Underlying()
			if p, ok := t.(*types.Pointer); ok {
				t = p.Elem().Underlying()
			}
			switch t.(type) {
			case *types.Slice, *types.Array:
				w.add(e, "KIndex", w.indexGuard(e))
			case *types.Basic:
				w.add(e, "KIndex", w.indexGuard(e))
			}
		}
	case *ast.SliceExpr:
		w.add(e, "KSlice", "GNone")
	case *ast.TypeAssertExpr:
		if e.Type != nil {
			if w.commaOk(e) {
				w.add(e, "KAssert", "GCommaOk")
			} else {
				w.add(e, "KAssert", "GNone")
			}
		}
	case *ast.CallExpr:
		if sel, ok := e.Fun.(*ast.SelectorExpr); ok {
			if tv, ok := w.info.Types[sel.X]; ok && tv.IsValue() && tv.Type.String() == "*github.com/gopcua/opcua/ua.Variant" {
				// method call on a *ua.Variant that came out of a response: nil receiver dereference
				if _, isCall := sel.X.(*ast.CallExpr); !isCall {
					w.add(e, "KNilRecv", w.nilGuard(sel.X, e.Pos()))
				}
			}
		}
	}
	return w
}

func genClientSites(repo string) (string, error) {
	exp, err := csExports(repo)
	if err != nil {
		return "", err
	}
	var all []csSite
	for _, p := range csPkgs {
		fset := token.NewFileSet()
		dir := filepath.Join(repo, p.dir)
		pkgs, err := parser.ParseDir(fset, dir, func(fi os.FileInfo) bool {
			return !strings.HasSuffix(fi.Name(), "_test.go") && !strings.Contains(fi.Name(), "_verif")
		}, 0)
		if err != nil {
			return "", err
		}
		var files []*ast.File
		var names []string
		for _, pk := range pkgs {
			if strings.HasSuffix(pk.Name, "_test") || pk.Name == "main" {
				continue
			}
			for fn := range pk.Files {
				names = append(names, fn)
			}
			sort.Strings(names)
			for _, fn := range names {
				files = append(files, pk.Files[fn])
			}
			break
		}
		info := &types.Info{Types: map[ast.Expr]types.TypeAndValue{}, Defs: map[*ast.Ident]types.Object{}, Uses: map[*ast.Ident]types.Object{}}
		lookup := func(path string) (io.ReadCloser, error) {
			f, ok := exp[path]
			if !ok || f == "" {
				return nil, fmt.Errorf("no export data for %s", path)
			}
			return os.Open(f)
		}
		var terrs []string
		conf := types.Config{Importer: importer.ForCompiler(fset, "gc", lookup), Error: func(e error) { terrs = append(terrs, e.Error()) }}
		conf.Check(p.path, fset, files, info)
		if len(terrs) > 0 {
			return "", fmt.Errorf("type-checking %s: %s", p.path, strings.Join(terrs[:1], "; "))
		}
		want := map[string]bool{}
		for _, f := range p.files {
			want[f] = true
		}
		seen := map[string]bool{}
		for i, f := range files {
			base := filepath.Base(names[i])
			if !want[base] {
				continue
			}
			seen[base] = true
			for _, d := range f.Decls {
				fd, ok := d.(*ast.FuncDecl)
				if !ok || fd.Body == nil {
					continue
				}
				name := fd.Name.Name
				if fd.Recv != nil && len(fd.Recv.List) == 1 {
					t := fd.Recv.List[0].Type
					if s, ok := t.(*ast.StarExpr); ok {
						t = s.X
					}
					name = csText(fset, t) + "." + name
				}
				rel := base
				if p.dir != "." {
					rel = p.dir + "/" + base
				}
				w := &csWalker{fset: fset, info: info, file: rel, fn: name}
				ast.Walk(w, fd)
				all = append(all, w.sites...)
			}
		}
		for f := range want {
			if !seen[f] {
				return "", fmt.Errorf("file %s/%s not found", p.dir, f)
			}
		}
	}
	flags, err := csErrFlags(repo)
	if err != nil {
		return "", err
	}
	var b strings.Builder
	b.WriteString("(* GENERATED by go/cmd/translate (clientsites.go) from the type-checked AST of /repo. Do not edit. *)\n")
	b.WriteString("From Coq Require Import List String.\nFrom Opcua Require Import Model.ClientGuards.\nImport ListNotations.\nOpen Scope string_scope.\n\n")
	b.WriteString("Definition sites : list site := [\n")
	for i, s := range all {
		sep := ";"
		if i == len(all)-1 {
			sep = ""
		}
		fmt.Fprintf(&b, "  {| s_file := %q; s_func := %q; s_expr := %s; s_kind := %s; s_guard := %s |}%s\n", s.file, s.fn, coqString(s.expr), s.kind, s.guard, sep)
	}
	b.WriteString("].\n\n")
	b.WriteString("(* C22: does the error branch that follows the named call return a non-nil error? (AST of client.go) *)\n")
	b.WriteString(flags)
	return b.String(), nil
}

// csErrFlags inspects, in client.go, the `if err != nil { ... return X }` that follows
// `err := sc.VerifySessionSignature(...)` (CreateSession) and `..., err := sc.NewSessionSignature(...)`
// (ActivateSession): the flag is true iff X is not the literal nil.
func csErrFlags(repo string) (string, error) {
	fset := token.NewFileSet()
	f, err := parser.ParseFile(fset, filepath.Join(repo, "client.go"), nil, 0)
	if err != nil {
		return "", err
	}
	want := []struct{ fn, call, name string }{
		{"CreateSession", "VerifySessionSignature", "create_session_returns_verify_error"},
		{"ActivateSession", "NewSessionSignature", "activate_session_returns_signature_error"},
	}
	var b strings.Builder
	for _, wnt := range want {
		found, val := false, false
		for _, d := range f.Decls {
			fd, ok := d.(*ast.FuncDecl)
			if !ok || fd.Name.Name != wnt.fn || fd.Body == nil {
				continue
			}
			ast.Inspect(fd.Body, func(n ast.Node) bool {
				blk, ok := n.(*ast.BlockStmt)
				if !ok {
					return true
				}
				for i, st := range blk.List {
					as, ok := st.(*ast.AssignStmt)
					if !ok || len(as.Rhs) != 1 || i+1 >= len(blk.List) {
						continue
					}
					call, ok := as.Rhs[0].(*ast.CallExpr)
					if !ok {
						continue
					}
					sel, ok := call.Fun.(*ast.SelectorExpr)
					if !ok || sel.Sel.Name != wnt.call {
						continue
					}
					ifs, ok := blk.List[i+1].(*ast.IfStmt)
					if !ok || csText(fset, ifs.Cond) != "err != nil" || len(ifs.Body.List) == 0 {
						continue
					}
					ret, ok := ifs.Body.List[len(ifs.Body.List)-1].(*ast.ReturnStmt)
					if !ok || len(ret.Results) == 0 {
						continue
					}
					found = true
					last := csText(fset, ret.Results[len(ret.Results)-1])
					val = last != "nil"
				}
				return true
			})
		}
		if !found {
			return "", fmt.Errorf("client.go: cannot find the error branch after %s in %s", wnt.call, wnt.fn)
		}
		fmt.Fprintf(&b, "Definition %s : bool := %v.\n", wnt.name, val)
	}
	return b.String(), nil
}

func coqString(s string) string {
	return "\"" + strings.ReplaceAll(s, "\"", "\"\"") + "\""
}

func init() {
	register("clientsites", func(repo string) (string, string, error) {
		c, err := genClientSites(repo)
		return "ClientSites.v", c, err
	})
}
