// translate regenerates coq/Gen/*.v from /repo's working tree.
package main

import (
	"flag"
	"fmt"
	"os"
	"path/filepath"
	"sort"
)

func writeIfChanged(path, content string) error {
	old, err := os.ReadFile(path)
	if err == nil && string(old) == content {
		return nil
	}
	return os.WriteFile(path, []byte(content), 0o644)
}

// gens maps a target name to a generator returning (file name, content, error).
// Each generator registers itself from an init() in its own file.
var gens = map[string]func(repo string) (string, string, error){}

func register(name string, g func(repo string) (string, string, error)) { gens[name] = g }

func main() {
	repo := flag.String("repo", "/repo", "repository root")
	out := flag.String("out", "", "output directory (coq/Gen)")
	flag.Parse()
	rc := 0
	args := flag.Args()
	if len(args) == 1 && args[0] == "all" {
		args = nil
		for k := range gens {
			args = append(args, k)
		}
		sort.Strings(args)
	}
	for _, what := range args {
		g, ok := gens[what]
		if !ok {
			fmt.Fprintf(os.Stderr, "translate: unknown target %q\n", what)
			rc = 2
			continue
		}
		name, content, err := g(*repo)
		if err != nil {
			fmt.Fprintf(os.Stderr, "translate %s: %v\n", what, err)
			fmt.Printf("TRANSLATE-ERROR %s: %v\n", what, err)
			rc = 1
			continue
		}
		if err := writeIfChanged(filepath.Join(*out, name), content); err != nil {
			fmt.Fprintln(os.Stderr, err)
			rc = 1
		}
	}
	os.Exit(rc)
}
