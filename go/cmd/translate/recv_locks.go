package main

// recvlocks: lock/unlock balance of s.chunksMu on every path of (*SecureChannel).Receive (uasc/secure_channel.go),
// computed on the AST. Every way out of the critical section (return, continue, falling out of a block) is listed with
// the lock state it is reached in. Emits Gen/RecvLocks.v; Props/C13.v proves [receive_lock_balanced = true] by computation.

import (
	"fmt"
	"go/ast"
	"go/parser"
	"go/token"
	"path/filepath"
	"strings"
)

type lockState int

const (
	lsUnlocked lockState = iota
	lsLocked
	lsDead // after return / continue
)

type lockExit struct {
	line int
	kind string
	held bool
}

type lockWalker struct {
	fset   *token.FileSet
	mutex  string // selector text, e.g. "s.chunksMu"
	exits  []lockExit
	issues []string
}

func selText(e ast.Expr) string {
	switch x := e.(type) {
	case *ast.Ident:
		return x.Name
	case *ast.SelectorExpr:
		return selText(x.X) + "." + x.Sel.Name
	}
	return "?"
}

func (w *lockWalker) merge(a, b lockState, pos token.Pos) lockState {
	switch {
	case a == lsDead:
		return b
	case b == lsDead:
		return a
	case a == b:
		return a
	}
	w.issues = append(w.issues, fmt.Sprintf("line %d: branches join with different lock states", w.fset.Position(pos).Line))
	return lsLocked
}

func (w *lockWalker) stmts(list []ast.Stmt, st lockState) lockState {
	for _, s := range list {
		st = w.stmt(s, st)
	}
	return st
}

func (w *lockWalker) exit(pos token.Pos, kind string, st lockState) {
	if st == lsDead {
		return
	}
	w.exits = append(w.exits, lockExit{w.fset.Position(pos).Line, kind, st == lsLocked})
}

func (w *lockWalker) stmt(s ast.Stmt, st lockState) lockState {
	switch x := s.(type) {
	case *ast.ExprStmt:
		if c, ok := x.X.(*ast.CallExpr); ok {
			t := selText(c.Fun)
			if t == w.mutex+".Lock" {
				if st == lsLocked {
					w.issues = append(w.issues, fmt.Sprintf("line %d: Lock while locked", w.fset.Position(x.Pos()).Line))
				}
				return lsLocked
			}
			if t == w.mutex+".Unlock" {
				if st == lsUnlocked {
					w.issues = append(w.issues, fmt.Sprintf("line %d: Unlock while unlocked", w.fset.Position(x.Pos()).Line))
				}
				if st == lsDead {
					return lsDead
				}
				return lsUnlocked
			}
		}
		return st
	case *ast.DeferStmt:
		if strings.HasPrefix(selText(x.Call.Fun), w.mutex+".") {
			w.issues = append(w.issues, fmt.Sprintf("line %d: deferred operation on the mutex (not handled by this analysis)", w.fset.Position(x.Pos()).Line))
		}
		return st
	case *ast.ReturnStmt:
		w.exit(x.Pos(), "return", st)
		return lsDead
	case *ast.BranchStmt:
		switch x.Tok {
		case token.CONTINUE:
			w.exit(x.Pos(), "continue", st)
			return lsDead
		case token.GOTO:
			w.issues = append(w.issues, fmt.Sprintf("line %d: goto", w.fset.Position(x.Pos()).Line))
			return lsDead
		case token.BREAK:
			if x.Label != nil {
				w.exit(x.Pos(), "break "+x.Label.Name, st)
				return lsDead
			}
			return st // leaves the enclosing switch/select: handled as the end of the clause
		}
		return st
	case *ast.BlockStmt:
		return w.stmts(x.List, st)
	case *ast.LabeledStmt:
		return w.stmt(x.Stmt, st)
	case *ast.IfStmt:
		if x.Init != nil {
			st = w.stmt(x.Init, st)
		}
		a := w.stmts(x.Body.List, st)
		b := st
		if x.Else != nil {
			b = w.stmt(x.Else, st)
		}
		return w.merge(a, b, x.Pos())
	case *ast.SwitchStmt:
		return w.clauses(x.Body.List, st, x.Pos())
	case *ast.TypeSwitchStmt:
		return w.clauses(x.Body.List, st, x.Pos())
	case *ast.SelectStmt:
		return w.clauses(x.Body.List, st, x.Pos())
	case *ast.ForStmt:
		end := w.stmts(x.Body.List, st)
		if end != lsDead && end != st {
			w.issues = append(w.issues, fmt.Sprintf("line %d: loop body changes the lock state", w.fset.Position(x.Pos()).Line))
		}
		if x.Cond == nil {
			return lsDead // for { ... } is only left by return
		}
		return st
	case *ast.RangeStmt:
		end := w.stmts(x.Body.List, st)
		if end != lsDead && end != st {
			w.issues = append(w.issues, fmt.Sprintf("line %d: loop body changes the lock state", w.fset.Position(x.Pos()).Line))
		}
		return st
	}
	return st
}

func (w *lockWalker) clauses(list []ast.Stmt, st lockState, pos token.Pos) lockState {
	res := lsDead
	hasDefault := false
	for _, c := range list {
		var body []ast.Stmt
		switch cc := c.(type) {
		case *ast.CaseClause:
			body = cc.Body
			if cc.List == nil {
				hasDefault = true
			}
		case *ast.CommClause:
			body = cc.Body
			if cc.Comm == nil {
				hasDefault = true
			}
		}
		res = w.merge(res, w.stmts(body, st), pos)
	}
	if !hasDefault {
		res = w.merge(res, st, pos)
	}
	return res
}

func genRecvLocks(repo string) (string, error) {
	fset := token.NewFileSet()
	f, err := parser.ParseFile(fset, filepath.Join(repo, "uasc", "secure_channel.go"), nil, 0)
	if err != nil {
		return "", err
	}
	var fn *ast.FuncDecl
	for _, d := range f.Decls {
		if fd, ok := d.(*ast.FuncDecl); ok && fd.Name.Name == "Receive" && fd.Recv != nil {
			fn = fd
		}
	}
	if fn == nil {
		return "", fmt.Errorf("recvlocks: (*SecureChannel).Receive not found")
	}
	w := &lockWalker{fset: fset, mutex: "s.chunksMu"}
	end := w.stmts(fn.Body.List, lsUnlocked)
	w.exit(fn.Body.Rbrace, "end of function", end)
	nlock := 0
	ast.Inspect(fn.Body, func(n ast.Node) bool {
		if c, ok := n.(*ast.CallExpr); ok && selText(c.Fun) == "s.chunksMu.Lock" {
			nlock++
		}
		return true
	})
	if nlock == 0 {
		return "", fmt.Errorf("recvlocks: Receive does not lock s.chunksMu any more: the analysis does not apply")
	}
	var b strings.Builder
	b.WriteString("(* GENERATED by go/cmd/translate (recv_locks.go) from the AST of SecureChannel.Receive, uasc/secure_channel.go. Do not edit.\n")
	b.WriteString("   Every way out of Receive's loop body (return / continue) with the state of s.chunksMu it is reached in. *)\n")
	b.WriteString("From Coq Require Import ZArith List String Bool.\nImport ListNotations.\nOpen Scope Z_scope.\n\n")
	b.WriteString("(* (source line, kind, mutex still held) *)\nDefinition receive_exits : list (Z * string * bool) := [\n")
	for i, e := range w.exits {
		sep := ";"
		if i == len(w.exits)-1 {
			sep = ""
		}
		fmt.Fprintf(&b, "  (%d, \"%s\"%%string, %v)%s\n", e.line, e.kind, e.held, sep)
	}
	b.WriteString("].\n\n(* findings of the analysis itself (joins with different lock states, double lock, ...) *)\nDefinition receive_lock_issues : list string := [")
	for i, s := range w.issues {
		if i > 0 {
			b.WriteString("; ")
		}
		fmt.Fprintf(&b, "\"%s\"%%string", s)
	}
	b.WriteString("].\n\n")
	fmt.Fprintf(&b, "Definition receive_lock_sites : Z := %d.\n\n", nlock)
	b.WriteString("Definition receive_lock_balanced : bool :=\n  forallb (fun e => negb (snd e)) receive_exits && match receive_lock_issues with [] => true | _ => false end.\n")
	return b.String(), nil
}

func init() {
	register("recvlocks", func(repo string) (string, string, error) {
		s, err := genRecvLocks(repo)
		return "RecvLocks.v", s, err
	})
}
