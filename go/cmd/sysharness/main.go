package main

import (
	"flag"
	"fmt"
	"os"
	"strconv"
	"strings"
)

func main() {
	seed := flag.Uint64("seed", 1, "PRNG seed")
	n := flag.Int("n", 40, "size parameter (meaning depends on the subcommand)")
	keys := flag.String("keys", "/verif/work/keys", "directory caching RSA keys and certificates")
	ops := flag.Int("ops", 60, "operations per worker goroutine (c34)")
	sizes := flag.String("sizes", "2048", "comma separated RSA key sizes in bits (c37)")
	flag.Parse()
	var sz []int
	for _, s := range strings.Split(*sizes, ",") {
		if v, err := strconv.Atoi(s); err == nil {
			sz = append(sz, v)
		}
	}
	switch flag.Arg(0) {
	case "c37":
		c37(*keys, sz, flag.Args()[1:])
	case "c37seq":
		c37seq(*keys, *seed, *n)
	case "c34":
		c34(*seed, *n, *ops)
	case "c28":
		c28(*seed, *n, *ops)
	case "c36renew":
		c36renew(*seed, *n)
	case "c36subs":
		c36subs(*seed, *n)
	case "c36expiry":
		c36expiry(*keys)
	default:
		fmt.Fprintln(os.Stderr, "usage: sysharness [-seed N] [-n N] c37|c34|c28|c36 ...")
		os.Exit(2)
	}
}
