package main

// C37 sequence scenario: ONE long-lived server enabling several security configurations; the supported
// (policy, mode, token) cells are exercised one after the other in a seeded random order (always containing
// secured -> None transitions: the None/None endpoint and the unsecured discovery channel of GetEndpoints after a
// Sign / SignAndEncrypt channel was opened), and overlapping (a secured client stays connected while other cells
// connect).  A model that treats connections as independent predicts every cell succeeds.

import (
	"context"
	"fmt"
	"time"

	"github.com/gopcua/opcua"
	"github.com/gopcua/opcua/ua"

	"verifharness/internal/rng"
)

// c37cellOn runs one cell against a running server. When hold is true and the cell succeeded the client stays
// connected and is returned.
func c37cellOn(ts *testServer, cid *ident, o *c37obs, hold bool) (held *opcua.Client) {
	t0 := time.Now()
	defer func() {
		if r := recover(); r != nil {
			o.OK = false
			o.Err = fmt.Sprintf("PANIC: %v", r)
		}
		o.Ms = int(time.Since(t0) / time.Millisecond)
	}()
	ctx, cancel := context.WithTimeout(context.Background(), 30*time.Second)
	defer cancel()
	o.Stage = "endpoints"
	gctx, gcancel := context.WithTimeout(ctx, 6*time.Second)
	eps, err := opcua.GetEndpoints(gctx, ts.URL, opcua.RequestTimeout(4*time.Second), opcua.DialTimeout(4*time.Second))
	gcancel()
	if err != nil {
		o.Err = "GetEndpoints: " + err.Error()
		return
	}
	o.Endpoints = summarize(eps)
	o.Stage = "select"
	var ep *ua.EndpointDescription
	for _, e := range eps {
		if shortName(e.SecurityPolicyURI) == o.Policy && int(e.SecurityMode) == o.Mode {
			ep = e
			break
		}
	}
	if ep == nil {
		o.Err = "endpoint not advertised"
		return
	}
	o.EpFound = true
	tt := ua.UserTokenTypeAnonymous
	if o.Token == 1 {
		tt = ua.UserTokenTypeUserName
	}
	for _, t := range ep.UserIdentityTokens {
		if t.TokenType == tt {
			o.TokAdv = true
		}
	}
	o.Stage = "newclient"
	opts := []opcua.Option{opcua.RequestTimeout(4 * time.Second), opcua.DialTimeout(4 * time.Second), opcua.AutoReconnect(false)}
	if o.Token == 1 {
		opts = append(opts, opcua.AuthUsername("verif", "s3cret-pass"))
	} else {
		opts = append(opts, opcua.AuthAnonymous())
	}
	opts = append(opts, opcua.SecurityFromEndpoint(ep, tt))
	if o.Mode != 1 && cid != nil {
		opts = append(opts, opcua.Certificate(cid.cert), opcua.PrivateKey(cid.key))
	}
	c, err := opcua.NewClient(ts.URL, opts...)
	if err != nil {
		o.Err = err.Error()
		return
	}
	o.Stage = "connect"
	if err := c.Connect(ctx); err != nil {
		o.Err = err.Error()
		return
	}
	closeIt := true
	defer func() {
		if closeIt {
			c.Close(context.Background())
		}
	}()
	if c.Session() == nil {
		o.Err = "no session after Connect"
		return
	}
	o.Stage = "read"
	if _, st, err := readInt(ctx, c, ts.Nodes[0]); err != nil || st != ua.StatusOK {
		o.Err = fmt.Sprintf("read: status=%v err=%v", st, err)
		return
	}
	o.Stage = "write"
	want := time.Now().UnixNano()
	if st, err := writeInt(ctx, c, ts.Nodes[0], want); err != nil || st != ua.StatusOK {
		o.Err = fmt.Sprintf("write: status=%v err=%v", st, err)
		return
	}
	o.Stage = "readback"
	if v, st, err := readInt(ctx, c, ts.Nodes[0]); err != nil || st != ua.StatusOK || v != want {
		o.Err = fmt.Sprintf("readback: v=%d want=%d status=%v err=%v", v, want, st, err)
		return
	}
	o.Stage, o.OK = "ok", true
	if hold {
		closeIt = false
		return c
	}
	return nil
}

func c37seq(keydir string, seed uint64, extraCells int) {
	quietLogs()
	const bits = 2048 // within the limits of every policy
	sid, err := loadOrMakeIdent(keydir, "server", bits)
	if err != nil {
		emit(map[string]interface{}{"kind": "c37err", "err": err.Error()})
		return
	}
	cid, err := loadOrMakeIdent(keydir, "client", bits)
	if err != nil {
		emit(map[string]interface{}{"kind": "c37err", "err": err.Error()})
		return
	}
	pairs := []secPair{{"None", 1}, {"Basic256Sha256", 2}, {"Basic256Sha256", 3}, {"Aes128_Sha256_RsaOaep", 3},
		{"Basic256", 2}, {"Aes256_Sha256_RsaPss", 2}, {"Basic128Rsa15", 3}}
	var pairStr []string
	for _, p := range pairs {
		pairStr = append(pairStr, fmt.Sprintf("%s/%d", p.Policy, int(p.Mode)))
	}
	ts, err := startServer(pairs, sid, 1)
	if err != nil {
		emit(map[string]interface{}{"kind": "c37err", "err": err.Error()})
		return
	}
	defer ts.Close()
	type cell struct {
		p secPair
		t int
	}
	var cells []cell
	for _, p := range pairs {
		for t := 0; t < 2; t++ {
			cells = append(cells, cell{p, t})
		}
	}
	r := rng.New(seed)
	for i := len(cells) - 1; i > 0; i-- {
		j := r.Intn(i + 1)
		cells[i], cells[j] = cells[j], cells[i]
	}
	for i := 0; i < extraCells; i++ { // more transitions, drawn at random
		cells = append(cells, cell{pairs[r.Intn(len(pairs))], r.Intn(2)})
	}
	// make sure the order contains secured -> None and None -> secured -> None
	cells = append([]cell{{pairs[2], 0}, {pairs[0], 0}}, cells...)
	cells = append(cells, cell{pairs[1], 1}, cell{pairs[0], 1})
	var held []*opcua.Client
	for i, cl := range cells {
		o := c37obs{Kind: "c37", Policy: cl.p.Policy, Mode: int(cl.p.Mode), KeyBits: bits, SKeyBits: bits, Token: cl.t,
			Pairs: pairStr, Seq: i + 1, Stage: "setup"}
		if cl.p.Policy == "None" {
			o.KeyBits = 0
		}
		// every fourth successful secured cell stays connected while the following cells run (overlap)
		hold := cl.p.Mode != 1 && i%4 == 0
		o.Held = len(held)
		if c := c37cellOn(ts, cid, &o, hold); c != nil {
			held = append(held, c)
		}
		emit(o)
		if len(held) > 2 {
			held[0].Close(context.Background())
			held = held[1:]
		}
	}
	for _, c := range held {
		c.Close(context.Background())
	}
}
