package main

// C28: concurrent writers against the stock server, a NodeMonitor watching some of the nodes (nodes are added and
// removed while the writers run).  Every DataChangeMessage is recorded; after the writers stop and deliveries have
// ceased the current values are read back.  Each node is written by exactly one writer with increasing unique values,
// so the write order per node is known.

import (
	"context"
	"fmt"
	"sync"
	"sync/atomic"
	"time"

	"github.com/gopcua/opcua"
	"github.com/gopcua/opcua/monitor"
	"github.com/gopcua/opcua/ua"

	"verifharness/internal/rng"
)

type c28deliv struct {
	Node  int   `json:"node"` // index of the node the message names (-1: unknown NodeID, -2: error message)
	Value int64 `json:"value"`
}

type c28obs struct {
	Kind      string     `json:"kind"` // "c28"
	Run       int        `json:"run"`
	Mode      string     `json:"mode"` // callback | slowchan
	Nodes     int        `json:"nodes"`
	Writes    [][]int64  `json:"writes"`     // per node, in write order (only acknowledged writes)
	Deliv     []c28deliv `json:"deliveries"` // in delivery order
	Monitored []int      `json:"monitored"`  // nodes on the monitor at the end
	RemovedAt [][2]int   `json:"removed_at"` // (node, number of deliveries recorded when RemoveNodeIDs returned)
	AddedAt   [][2]int   `json:"added_at"`   // (node, number of deliveries recorded when AddNodeIDs was called)
	Final     []int64    `json:"final"`      // Read of every node after quiescence
	Dropped   uint64     `json:"dropped"`    // Subscription.Dropped()
	Errors    int        `json:"errors"`     // error-handler invocations + error messages
	Err       string     `json:"err,omitempty"`
}

func c28run(run int, mode string, seed uint64, writesPerNode int) (o c28obs) {
	const nn = 5
	o = c28obs{Kind: "c28", Run: run, Mode: mode, Nodes: nn, Writes: make([][]int64, nn)}
	defer func() {
		if r := recover(); r != nil {
			o.Err = fmt.Sprintf("PANIC: %v", r)
		}
	}()
	ts, err := startServer([]secPair{{"None", ua.MessageSecurityModeNone}}, nil, nn)
	if err != nil {
		o.Err = err.Error()
		return
	}
	defer ts.Close()
	ctx, cancel := context.WithTimeout(context.Background(), 90*time.Second)
	defer cancel()
	if _, err := getEndpoints(ctx, ts.URL); err != nil {
		o.Err = err.Error()
		return
	}
	mc, err := plainClient(ctx, ts.URL, opcua.RequestTimeout(10*time.Second), opcua.AutoReconnect(false))
	if err != nil {
		o.Err = err.Error()
		return
	}
	defer mc.Close(context.Background())
	idx := map[string]int{}
	for i, n := range ts.Nodes {
		idx[n.String()] = i
	}
	var mu sync.Mutex
	var errs atomic.Int64
	record := func(m *monitor.DataChangeMessage) {
		d := c28deliv{Node: -1}
		if m.Error != nil || m.NodeID == nil {
			d.Node = -2
			errs.Add(1)
		} else {
			if i, ok := idx[m.NodeID.String()]; ok {
				d.Node = i
			}
			if m.DataValue != nil && m.DataValue.Value != nil {
				if v, ok := m.DataValue.Value.Value().(int64); ok {
					d.Value = v
				} else {
					d.Value = -1
				}
			} else {
				d.Value = -1
			}
		}
		mu.Lock()
		o.Deliv = append(o.Deliv, d)
		mu.Unlock()
	}
	ndeliv := func() int { mu.Lock(); defer mu.Unlock(); return len(o.Deliv) }

	nm, err := monitor.NewNodeMonitor(mc)
	if err != nil {
		o.Err = err.Error()
		return
	}
	nm.SetErrorHandler(func(_ *opcua.Client, _ *monitor.Subscription, err error) { errs.Add(1) })
	params := &opcua.SubscriptionParameters{Interval: 10 * time.Millisecond}
	var sub *monitor.Subscription
	stopConsumer := make(chan struct{})
	var paused atomic.Bool
	if mode == "slowchan" {
		ch := make(chan *monitor.DataChangeMessage, 1)
		sub, err = nm.ChanSubscribe(ctx, params, ch, ts.Nodes[0].String(), ts.Nodes[1].String())
		go func() {
			for {
				if paused.Load() { // a consumer that stalls: the monitor's pump drops what does not fit
					time.Sleep(time.Millisecond)
					continue
				}
				select {
				case <-stopConsumer:
					return
				case m := <-ch:
					record(m)
					time.Sleep(time.Millisecond)
				}
			}
		}()
	} else {
		sub, err = nm.Subscribe(ctx, params, func(_ *monitor.Subscription, m *monitor.DataChangeMessage) {
			record(m)
			time.Sleep(150 * time.Microsecond) // a busy (not a dropping) consumer: notifications queue up behind it
		},
			ts.Nodes[0].String(), ts.Nodes[1].String())
	}
	if err != nil {
		o.Err = "subscribe: " + err.Error()
		return
	}
	defer close(stopConsumer)
	monitored := map[int]bool{0: true, 1: true}
	o.AddedAt = append(o.AddedAt, [2]int{0, 0}, [2]int{1, 0})

	// writers: writer w owns the nodes i with i%3 == w
	r := rng.New(seed)
	var wg sync.WaitGroup
	var wmu sync.Mutex
	progress := atomic.Int64{}
	for w := 0; w < 3; w++ {
		c, err := plainClient(ctx, ts.URL, opcua.RequestTimeout(10*time.Second), opcua.AutoReconnect(false))
		if err != nil {
			o.Err = err.Error()
			return
		}
		defer c.Close(context.Background())
		wg.Add(1)
		wr := rng.New(r.U64())
		go func(w int, c *opcua.Client, wr *rng.R) {
			defer wg.Done()
			var own []int
			for i := 0; i < nn; i++ {
				if i%3 == w {
					own = append(own, i)
				}
			}
			seq := make(map[int]int64)
			for k := 0; k < writesPerNode*len(own); k++ {
				i := own[wr.Intn(len(own))]
				seq[i]++
				v := int64(i+1)*1_000_000 + seq[i]
				st, err := writeInt(ctx, c, ts.Nodes[i], v)
				if err == nil && st == ua.StatusOK {
					wmu.Lock()
					o.Writes[i] = append(o.Writes[i], v)
					wmu.Unlock()
				}
				progress.Add(1)
				if wr.Intn(4) == 0 {
					time.Sleep(time.Duration(wr.Intn(2500)) * time.Microsecond)
				}
			}
		}(w, c, wr)
	}
	total := int64(writesPerNode * nn)
	waitProgress := func(frac float64) {
		for float64(progress.Load()) < frac*float64(total) {
			time.Sleep(2 * time.Millisecond)
		}
	}
	// node additions and removals while the writers run
	waitProgress(0.3)
	o.AddedAt = append(o.AddedAt, [2]int{2, ndeliv()}, [2]int{3, ndeliv()})
	if err := sub.AddNodeIDs(ctx, ts.Nodes[2], ts.Nodes[3]); err != nil {
		o.Err = "add: " + err.Error()
		return
	}
	monitored[2], monitored[3] = true, true
	// churn: a monitored node is removed and ANOTHER node is added right away, several times, while both are being
	// written and the consumer is busy (notifications of the removed node are still on their way)
	in, out := 1, 4
	for cyc := 0; cyc < 6; cyc++ {
		waitProgress(0.45 + 0.07*float64(cyc))
		if err := sub.RemoveNodeIDs(ctx, ts.Nodes[in]); err != nil {
			o.Err = "remove: " + err.Error()
			return
		}
		o.RemovedAt = append(o.RemovedAt, [2]int{in, ndeliv()})
		delete(monitored, in)
		o.AddedAt = append(o.AddedAt, [2]int{out, ndeliv()})
		if err := sub.AddNodeIDs(ctx, ts.Nodes[out]); err != nil {
			o.Err = "add: " + err.Error()
			return
		}
		monitored[out] = true
		in, out = out, in
	}
	if mode == "slowchan" {
		waitProgress(0.9)
		paused.Store(true)
	}
	wg.Wait()
	if mode == "slowchan" {
		time.Sleep(300 * time.Millisecond) // everything published meanwhile is dropped by the pump
		paused.Store(false)
	}

	// quiescence: no delivery for 15 publishing intervals (bounded)
	last, lastChange := ndeliv(), time.Now()
	deadline := time.Now().Add(5 * time.Second)
	for time.Now().Before(deadline) {
		time.Sleep(10 * time.Millisecond)
		if n := ndeliv(); n != last {
			last, lastChange = n, time.Now()
		} else if time.Since(lastChange) > 150*time.Millisecond {
			break
		}
	}
	for i := 0; i < nn; i++ {
		v, st, err := readInt(ctx, mc, ts.Nodes[i])
		if err != nil || st != ua.StatusOK {
			o.Err = fmt.Sprintf("final read %d: %v %v", i, st, err)
			return
		}
		o.Final = append(o.Final, v)
	}
	for i := 0; i < nn; i++ {
		if monitored[i] {
			o.Monitored = append(o.Monitored, i)
		}
	}
	o.Dropped = sub.Dropped()
	o.Errors = int(errs.Load())
	mu.Lock()
	o.Deliv = append([]c28deliv(nil), o.Deliv...)
	mu.Unlock()
	sub.Unsubscribe(ctx)
	return
}

// c28burst: many monitored nodes, all added in one AddNodeIDs (a burst of initial-value notifications), then the
// application updates every node back to back on the server side (NodeNameSpace.SetAttribute in a loop, a scan-cycle
// style refresh), several rounds, then silence.
func c28burst(run int, seed uint64, nn, rounds int) (o c28obs) {
	o = c28obs{Kind: "c28", Run: run, Mode: "burst", Nodes: nn, Writes: make([][]int64, nn)}
	defer func() {
		if r := recover(); r != nil {
			o.Err = fmt.Sprintf("PANIC: %v", r)
		}
	}()
	ts, err := startServer([]secPair{{"None", ua.MessageSecurityModeNone}}, nil, nn)
	if err != nil {
		o.Err = err.Error()
		return
	}
	defer ts.Close()
	ctx, cancel := context.WithTimeout(context.Background(), 90*time.Second)
	defer cancel()
	if _, err := getEndpoints(ctx, ts.URL); err != nil {
		o.Err = err.Error()
		return
	}
	mc, err := plainClient(ctx, ts.URL, opcua.RequestTimeout(20*time.Second), opcua.AutoReconnect(false))
	if err != nil {
		o.Err = err.Error()
		return
	}
	defer mc.Close(context.Background())
	idx := map[string]int{}
	for i, n := range ts.Nodes {
		idx[n.String()] = i
	}
	var mu sync.Mutex
	var errs atomic.Int64
	nm, _ := monitor.NewNodeMonitor(mc)
	nm.SetErrorHandler(func(_ *opcua.Client, _ *monitor.Subscription, err error) { errs.Add(1) })
	sub, err := nm.Subscribe(ctx, &opcua.SubscriptionParameters{Interval: 2 * time.Millisecond},
		func(_ *monitor.Subscription, m *monitor.DataChangeMessage) {
			d := c28deliv{Node: -1, Value: -1}
			if m.Error != nil || m.NodeID == nil {
				d.Node = -2
			} else {
				if i, ok := idx[m.NodeID.String()]; ok {
					d.Node = i
				}
				if m.DataValue != nil && m.DataValue.Value != nil {
					if v, ok := m.DataValue.Value.Value().(int64); ok {
						d.Value = v
					}
				}
			}
			mu.Lock()
			o.Deliv = append(o.Deliv, d)
			mu.Unlock()
		})
	if err != nil {
		o.Err = "subscribe: " + err.Error()
		return
	}
	ndeliv := func() int { mu.Lock(); defer mu.Unlock(); return len(o.Deliv) }
	quiesce := func() {
		last, lastChange := ndeliv(), time.Now()
		deadline := time.Now().Add(6 * time.Second)
		for time.Now().Before(deadline) {
			time.Sleep(10 * time.Millisecond)
			if n := ndeliv(); n != last {
				last, lastChange = n, time.Now()
			} else if time.Since(lastChange) > 200*time.Millisecond {
				return
			}
		}
	}
	for i := 0; i < nn; i++ {
		o.AddedAt = append(o.AddedAt, [2]int{i, 0})
		o.Monitored = append(o.Monitored, i)
	}
	if err := sub.AddNodeIDs(ctx, ts.Nodes...); err != nil {
		o.Err = "add: " + err.Error()
		return
	}
	quiesce()
	r := rng.New(seed)
	for round := 1; round <= rounds; round++ {
		start := r.Intn(nn)
		for k := 0; k < nn; k++ {
			i := (start + k) % nn
			v := int64(i+1)*1_000_000 + int64(round)
			dv := &ua.DataValue{EncodingMask: ua.DataValueValue, Value: ua.MustVariant(v)}
			if st := ts.NS.SetAttribute(ts.Nodes[i], ua.AttributeIDValue, dv); st == ua.StatusOK {
				o.Writes[i] = append(o.Writes[i], v)
			}
		}
		quiesce()
	}
	for i := 0; i < nn; i += 25 {
		j := i + 25
		if j > nn {
			j = nn
		}
		vs, err := readMany(ctx, mc, ts.Nodes[i:j])
		if err != nil {
			o.Err = "final read: " + err.Error()
			return
		}
		o.Final = append(o.Final, vs...)
	}
	o.Dropped = sub.Dropped()
	o.Errors = int(errs.Load())
	mu.Lock()
	o.Deliv = append([]c28deliv(nil), o.Deliv...)
	mu.Unlock()
	sub.Unsubscribe(ctx)
	return
}

// c28writeback: value histories A -> B -> A.  Every node holds a value A that has been delivered; then, round after
// round, the application writes a different value B and restores A back to back on the server side (both land before the
// subscription publishes again), then silence.  The consumer is fast (callback, nothing may be dropped).  After quiescence
// the last value delivered for a node must be the value the server holds (A).
func c28writeback(run int, seed uint64, nn, rounds int) (o c28obs) {
	o = c28obs{Kind: "c28", Run: run, Mode: "writeback", Nodes: nn, Writes: make([][]int64, nn)}
	defer func() {
		if r := recover(); r != nil {
			o.Err = fmt.Sprintf("PANIC: %v", r)
		}
	}()
	ts, err := startServer([]secPair{{"None", ua.MessageSecurityModeNone}}, nil, nn)
	if err != nil {
		o.Err = err.Error()
		return
	}
	defer ts.Close()
	ctx, cancel := context.WithTimeout(context.Background(), 90*time.Second)
	defer cancel()
	if _, err := getEndpoints(ctx, ts.URL); err != nil {
		o.Err = err.Error()
		return
	}
	mc, err := plainClient(ctx, ts.URL, opcua.RequestTimeout(20*time.Second), opcua.AutoReconnect(false))
	if err != nil {
		o.Err = err.Error()
		return
	}
	defer mc.Close(context.Background())
	idx := map[string]int{}
	for i, n := range ts.Nodes {
		idx[n.String()] = i
	}
	var mu sync.Mutex
	var errs atomic.Int64
	nm, _ := monitor.NewNodeMonitor(mc)
	nm.SetErrorHandler(func(_ *opcua.Client, _ *monitor.Subscription, err error) { errs.Add(1) })
	sub, err := nm.Subscribe(ctx, &opcua.SubscriptionParameters{Interval: 20 * time.Millisecond},
		func(_ *monitor.Subscription, m *monitor.DataChangeMessage) {
			d := c28deliv{Node: -1, Value: -1}
			if m.Error != nil || m.NodeID == nil {
				d.Node = -2
			} else {
				if i, ok := idx[m.NodeID.String()]; ok {
					d.Node = i
				}
				if m.DataValue != nil && m.DataValue.Value != nil {
					if v, ok := m.DataValue.Value.Value().(int64); ok {
						d.Value = v
					}
				}
			}
			mu.Lock()
			o.Deliv = append(o.Deliv, d)
			mu.Unlock()
		})
	if err != nil {
		o.Err = "subscribe: " + err.Error()
		return
	}
	ndeliv := func() int { mu.Lock(); defer mu.Unlock(); return len(o.Deliv) }
	quiesce := func() {
		last, lastChange := ndeliv(), time.Now()
		deadline := time.Now().Add(6 * time.Second)
		for time.Now().Before(deadline) {
			time.Sleep(10 * time.Millisecond)
			if n := ndeliv(); n != last {
				last, lastChange = n, time.Now()
			} else if time.Since(lastChange) > 250*time.Millisecond {
				return
			}
		}
	}
	write := func(i int, v int64) {
		dv := &ua.DataValue{EncodingMask: ua.DataValueValue, Value: ua.MustVariant(v)}
		if st := ts.NS.SetAttribute(ts.Nodes[i], ua.AttributeIDValue, dv); st == ua.StatusOK {
			o.Writes[i] = append(o.Writes[i], v)
		}
	}
	for i := 0; i < nn; i++ {
		o.AddedAt = append(o.AddedAt, [2]int{i, 0})
		o.Monitored = append(o.Monitored, i)
	}
	if err := sub.AddNodeIDs(ctx, ts.Nodes...); err != nil {
		o.Err = "add: " + err.Error()
		return
	}
	quiesce()
	// value A of every node, delivered before the write-back rounds start
	for i := 0; i < nn; i++ {
		write(i, int64(i+1)*1_000_000)
	}
	quiesce()
	r := rng.New(seed)
	for round := 1; round <= rounds; round++ {
		start := r.Intn(nn)
		for k := 0; k < nn; k++ {
			i := (start + k) % nn
			a := int64(i+1) * 1_000_000
			// B, then A again, back to back; every third node in a round also goes A -> B -> C -> A
			write(i, a+int64(round))
			if (i+round)%3 == 0 {
				write(i, a+500_000+int64(round))
			}
			write(i, a)
		}
		quiesce()
	}
	vs, err := readMany(ctx, mc, ts.Nodes)
	if err != nil {
		o.Err = "final read: " + err.Error()
		return
	}
	o.Final = vs
	o.Dropped = sub.Dropped()
	o.Errors = int(errs.Load())
	mu.Lock()
	o.Deliv = append([]c28deliv(nil), o.Deliv...)
	mu.Unlock()
	sub.Unsubscribe(ctx)
	return
}

func c28(seed uint64, runs, writesPerNode int) {
	quietLogs()
	r := rng.New(seed)
	for i := 0; i < runs; i++ {
		mode := "callback"
		if i == runs-1 && runs > 1 {
			mode = "slowchan"
		}
		if i%3 == 1 && mode == "callback" {
			emit(c28burst(i, r.U64(), 200, 3))
			continue
		}
		emit(c28run(i, mode, r.U64(), writesPerNode))
	}
	// one more run: A -> B -> A value histories with a fast consumer
	emit(c28writeback(runs, r.U64(), 8, 6+runs/4))
}
