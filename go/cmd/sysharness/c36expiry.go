package main

// C36 scenario "expiry" (white box, through the verif hooks of package uasc): a client channel that has been renewed
// (tokens A and B under one channel id) receives a chunk secured with the PREVIOUS token A - Part 4 5.5.2.1 tells
// servers to keep using the old token until the client uses the new one - so the dispatcher walks the instance list
// down to the older slot; the client then stays idle while token A expires and scheduleExpiration drops it from the
// list.  Nothing orders the dispatcher's walk (done after instancesMu was released) before the expiry.

import (
	"bytes"
	"encoding/binary"
	"errors"
	"net"
	"time"

	"github.com/gopcua/opcua/ua"
	"github.com/gopcua/opcua/uacp"
	"github.com/gopcua/opcua/uapolicy"
	"github.com/gopcua/opcua/uasc"
)

func xpMac(k uint32, n int, m []byte) []byte {
	h := k
	for _, x := range m {
		h = h*31 + uint32(x) + 7
	}
	o := make([]byte, n)
	for i := range o {
		o[i] = byte((h >> (8 * (uint(i) % 4))) + uint32(i))
	}
	return o
}

// a keyed toy MAC with HMAC-SHA256's signature length (mode Sign: nothing is encrypted)
func xpAlgo(key uint32) *uapolicy.EncryptionAlgorithm {
	id := func(b []byte) ([]byte, error) { return b, nil }
	return uapolicy.VerifNewAlgorithm(16, 16, 32, 32, 32, uapolicy.VerifCipher{
		Enc: id, Dec: id,
		Sign: func(b []byte) ([]byte, error) { return xpMac(key, 32, b), nil },
		Verify: func(m, s []byte) error {
			if !bytes.Equal(s, xpMac(key, len(s), m)) {
				return errors.New("toy: bad signature")
			}
			return nil
		},
	})
}

func xpPair() (*net.TCPConn, *uacp.Conn, error) {
	l, err := net.ListenTCP("tcp", &net.TCPAddr{IP: net.IPv4(127, 0, 0, 1)})
	if err != nil {
		return nil, nil, err
	}
	defer l.Close()
	ch := make(chan *net.TCPConn, 1)
	go func() {
		c, _ := l.AcceptTCP()
		ch <- c
	}()
	p, err := net.DialTCP("tcp", nil, l.Addr().(*net.TCPAddr))
	if err != nil {
		return nil, nil, err
	}
	c := <-ch
	conn, err := uacp.NewConn(c, &uacp.Acknowledge{ReceiveBufSize: 65535, SendBufSize: 65535, MaxChunkCount: 16, MaxMessageSize: 1 << 20})
	return p, conn, err
}

func c36expiry(keydir string) {
	quietLogs()
	out := map[string]interface{}{"kind": "c36", "scenario": "expiry"}
	defer func() {
		if r := recover(); r != nil {
			out["err"] = "PANIC: " + errString(r)
		}
		emit(out)
	}()
	idt, err := loadOrMakeIdent(keydir, "client", 2048)
	if err != nil {
		out["err"] = err.Error()
		return
	}
	peer, conn, err := xpPair()
	if err != nil {
		out["err"] = err.Error()
		return
	}
	defer peer.Close()
	defer conn.Close()
	const chanID = 4711
	uri := ua.SecurityPolicyURIBasic256Sha256
	cfg := &uasc.Config{SecurityPolicyURI: uri, SecurityMode: ua.MessageSecurityModeSign, LocalKey: idt.key, RequestTimeout: time.Second}
	sc, err := uasc.VerifNewChannel(conn, cfg, false, make(chan error, 64))
	if err != nil {
		out["err"] = err.Error()
		return
	}
	v := uasc.VerifChannel{S: sc}
	const lifetime = 400 * time.Millisecond
	now := time.Now()
	instA := v.AddInstance(xpAlgo(1001), chanID, 1, 0, now, lifetime) // token A: expires at now + 500 ms
	v.AddInstance(xpAlgo(2002), chanID, 2, 0, now, time.Hour)         // token B: the renewal
	expired := make(chan struct{})
	go func() { v.RunExpiration(instA); close(expired) }()

	// a chunk secured with token A arrives
	send := uasc.VerifNewInstance(uri, ua.MessageSecurityModeSign, xpAlgo(1001), chanID, 1, 0)
	body := []byte("response secured with the previous token")
	raw := make([]byte, 24+len(body))
	copy(raw, "MSGF")
	binary.LittleEndian.PutUint32(raw[4:], uint32(len(raw)))
	binary.LittleEndian.PutUint32(raw[8:], chanID)
	binary.LittleEndian.PutUint32(raw[12:], 1)
	binary.LittleEndian.PutUint32(raw[16:], 11)
	binary.LittleEndian.PutUint32(raw[20:], 6)
	copy(raw[24:], body)
	msg := &uasc.Message{MessageHeader: &uasc.MessageHeader{
		Header:                  uasc.NewHeader(uasc.MessageTypeMessage, uasc.ChunkTypeFinal, chanID),
		SymmetricSecurityHeader: uasc.NewSymmetricSecurityHeader(1),
		SequenceHeader:          uasc.NewSequenceHeader(11, 6)}}
	sec, err := send.SignAndEncrypt(msg, raw)
	if err != nil {
		out["err"] = "secure: " + err.Error()
		return
	}
	if _, err := peer.Write(sec); err != nil {
		out["err"] = err.Error()
		return
	}
	done := make(chan error, 1)
	go func() { // the dispatcher's part: read one chunk, verify it against the instance list
		_, err := v.ReadChunk()
		done <- err
	}()
	select {
	case err := <-done:
		if err != nil {
			out["read_err"] = err.Error()
		} else {
			out["accepted_under_previous_token"] = true
		}
	case <-time.After(3 * time.Second):
		out["read_err"] = "timeout"
	}
	// idle until the previous token has expired
	select {
	case <-expired:
	case <-time.After(3 * time.Second):
		out["err"] = "expiry routine did not finish"
	}
	time.Sleep(50 * time.Millisecond)
	out["instances_left"] = len(v.Instances()[chanID])
}

func errString(r interface{}) string {
	if e, ok := r.(error); ok {
		return e.Error()
	}
	if s, ok := r.(string); ok {
		return s
	}
	return "panic"
}
