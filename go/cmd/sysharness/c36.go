package main

// C36: concurrent scenarios meant to be run from a binary built with -race; the race detector's reports go to stderr
// and are parsed by engines/C36.py.
//   renew : 3 clients with a short channel lifetime (token renewal about every second), 3 goroutines per client issuing
//           reads and writes, one client with a subscription + monitored items, for a few seconds
//   (the c34 and c28 scenarios are reused as they are)

import (
	"context"
	"fmt"
	"sync"
	"time"

	"github.com/gopcua/opcua"
	"github.com/gopcua/opcua/monitor"
	"github.com/gopcua/opcua/ua"

	"verifharness/internal/rng"
)

func c36renew(seed uint64, seconds int) {
	quietLogs()
	out := map[string]interface{}{"kind": "c36", "scenario": "renew"}
	defer func() { emit(out) }()
	ts, err := startServer([]secPair{{"None", ua.MessageSecurityModeNone}}, nil, 3)
	if err != nil {
		out["err"] = err.Error()
		return
	}
	defer ts.Close()
	ctx, cancel := context.WithTimeout(context.Background(), time.Duration(seconds+60)*time.Second)
	defer cancel()
	if _, err := getEndpoints(ctx, ts.URL); err != nil {
		out["err"] = err.Error()
		return
	}
	r := rng.New(seed)
	var wg sync.WaitGroup
	stop := time.Now().Add(time.Duration(seconds) * time.Second)
	var mu sync.Mutex
	okOps, failOps, notifs := 0, 0, 0
	refused, unexpectedOK := 0, 0
	for ci := 0; ci < 3; ci++ {
		c, err := plainClient(ctx, ts.URL, opcua.RequestTimeout(10*time.Second), opcua.AutoReconnect(false), opcua.Lifetime(2500*time.Millisecond))
		if err != nil {
			out["err"] = err.Error()
			return
		}
		defer c.Close(context.Background())
		if ci == 0 {
			nm, _ := monitor.NewNodeMonitor(c)
			sub, err := nm.Subscribe(ctx, &opcua.SubscriptionParameters{Interval: 20 * time.Millisecond},
				func(_ *monitor.Subscription, m *monitor.DataChangeMessage) { mu.Lock(); notifs++; mu.Unlock() },
				ts.Nodes[0].String(), ts.Nodes[1].String())
			if err != nil {
				out["err"] = "subscribe: " + err.Error()
				return
			}
			defer sub.Unsubscribe(context.Background())
			// monitored items come and go: every creation starts a background ChangeNotification on the server
			wg.Add(1)
			go func() {
				defer wg.Done()
				for time.Now().Before(stop) {
					if err := sub.AddNodeIDs(ctx, ts.Nodes[2]); err != nil {
						return
					}
					time.Sleep(2 * time.Millisecond)
					if err := sub.RemoveNodeIDs(ctx, ts.Nodes[2]); err != nil {
						return
					}
				}
			}()
		}
		if ci == 1 {
			// requests that FAIL inside the send path before a byte is written (context already cancelled; a Write
			// larger than the peer's MaxMessageSize), concurrent with the ordinary requests of this client
			big := make([]byte, 3<<20)
			for f := 0; f < 2; f++ {
				wg.Add(1)
				go func(c *opcua.Client, f int) {
					defer wg.Done()
					dead, kill := context.WithCancel(ctx)
					kill()
					for time.Now().Before(stop) {
						var err error
						if f == 0 {
							_, _, err = readInt(dead, c, ts.Nodes[0])
						} else {
							_, err = c.Write(ctx, &ua.WriteRequest{NodesToWrite: []*ua.WriteValue{{NodeID: ts.Nodes[2], AttributeID: ua.AttributeIDValue,
								Value: &ua.DataValue{EncodingMask: ua.DataValueValue, Value: ua.MustVariant(big)}}}})
						}
						mu.Lock()
						if err != nil {
							refused++
						} else {
							unexpectedOK++
						}
						mu.Unlock()
						time.Sleep(2 * time.Millisecond)
					}
				}(c, f)
			}
		}
		for w := 0; w < 3; w++ {
			wg.Add(1)
			wr := rng.New(r.U64())
			go func(c *opcua.Client, id int, wr *rng.R) {
				defer wg.Done()
				k := int64(0)
				for time.Now().Before(stop) {
					n := ts.Nodes[wr.Intn(len(ts.Nodes))]
					var err error
					if wr.Intn(2) == 0 {
						k++
						_, err = writeInt(ctx, c, n, int64(id+1)*1_000_000+k)
					} else {
						_, _, err = readInt(ctx, c, n)
					}
					mu.Lock()
					if err != nil {
						failOps++
					} else {
						okOps++
					}
					mu.Unlock()
				}
			}(c, ci*3+w, wr)
		}
	}
	wg.Wait()
	mu.Lock()
	out["ok_ops"], out["failed_ops"], out["notifications"] = okOps, failOps, notifs
	out["refused_before_send"], out["oversized_or_cancelled_accepted"] = refused, unexpectedOK
	mu.Unlock()
}

// c36subs: subscriptions that nobody publishes for time out on their own goroutines in the server (Subscription.run ->
// DeleteSubscription) after the dispatcher has looked a subscription up for a CreateMonitoredItems request and while
// the client stays idle, so that nothing but the service mutexes orders the lookup and the removal.
func c36subs(seed uint64, rounds int) {
	quietLogs()
	out := map[string]interface{}{"kind": "c36", "scenario": "subs"}
	defer func() { emit(out) }()
	ts, err := startServer([]secPair{{"None", ua.MessageSecurityModeNone}}, nil, 3)
	if err != nil {
		out["err"] = err.Error()
		return
	}
	defer ts.Close()
	ctx, cancel := context.WithTimeout(context.Background(), 120*time.Second)
	defer cancel()
	if _, err := getEndpoints(ctx, ts.URL); err != nil {
		out["err"] = err.Error()
		return
	}
	c, err := plainClient(ctx, ts.URL, opcua.RequestTimeout(20*time.Second), opcua.AutoReconnect(false))
	if err != nil {
		out["err"] = err.Error()
		return
	}
	defer c.Close(context.Background())
	createSub := func(intervalMs float64, lifetime, keepalive uint32) (uint32, error) {
		var id uint32
		err := c.Send(ctx, &ua.CreateSubscriptionRequest{RequestedPublishingInterval: intervalMs, RequestedLifetimeCount: lifetime,
			RequestedMaxKeepAliveCount: keepalive, PublishingEnabled: true}, func(v ua.Response) error {
			if r, ok := v.(*ua.CreateSubscriptionResponse); ok {
				id = r.SubscriptionID
				return nil
			}
			return fmt.Errorf("unexpected response %T", v)
		})
		return id, err
	}
	// created with a plain request: the client does not start its publish loop, no Publish request is ever queued
	subB, err := createSub(60_000, 10_000, 10_000)
	if err != nil {
		out["err"] = "create B: " + err.Error()
		return
	}
	r := rng.New(seed)
	handle := uint32(1000)
	created, items := 0, 0
	for round := 0; round < rounds; round++ {
		for k := 0; k < 5; k++ { // expire at the first tick without a Publish request: after 250..700 ms
			if _, err := createSub(float64(250+90*k+r.Intn(40)), 0, 0); err != nil {
				out["err"] = "create: " + err.Error()
				return
			}
			created++
		}
		req := &ua.CreateMonitoredItemsRequest{SubscriptionID: subB, TimestampsToReturn: ua.TimestampsToReturnBoth}
		for i := 0; i < 40; i++ {
			handle++
			req.ItemsToCreate = append(req.ItemsToCreate, opcua.NewMonitoredItemCreateRequestWithDefaults(ts.Nodes[i%len(ts.Nodes)], ua.AttributeIDValue, handle))
		}
		err := c.Send(ctx, req, func(v ua.Response) error {
			if r, ok := v.(*ua.CreateMonitoredItemsResponse); ok {
				items += len(r.Results)
				return nil
			}
			return fmt.Errorf("unexpected response %T", v)
		})
		if err != nil {
			out["err"] = "CreateMonitoredItems: " + err.Error()
			return
		}
		time.Sleep(1100 * time.Millisecond) // idle: the short subscriptions time out now
	}
	out["subscriptions_created"], out["items_created"] = created, items
}
