// sysharness drives the stock gopcua server and stock gopcua clients end to end (C37 interop matrix,
// C34 linearizability histories, C28 monitor convergence, C36 race scenarios) and prints one JSON
// observation per line.  No hooks in /repo are needed: only the public API is used.
package main

import (
	"context"
	"crypto/rand"
	"crypto/rsa"
	"crypto/x509"
	"crypto/x509/pkix"
	"encoding/json"
	"encoding/pem"
	"fmt"
	"io"
	"log"
	"math/big"
	"net"
	"net/url"
	"os"
	"path/filepath"
	"strings"
	"sync"
	"time"

	"github.com/gopcua/opcua"
	"github.com/gopcua/opcua/id"
	"github.com/gopcua/opcua/server"
	"github.com/gopcua/opcua/ua"
)

var (
	outMu sync.Mutex
	enc   = json.NewEncoder(os.Stdout)
)

func emit(v interface{}) {
	outMu.Lock()
	enc.Encode(v)
	outMu.Unlock()
}

func quietLogs() { log.SetOutput(io.Discard) }

const policyPrefix = "http://opcfoundation.org/UA/SecurityPolicy#"

func shortName(uri string) string { return strings.TrimPrefix(uri, policyPrefix) }

// ---------------------------------------------------------------------------------------------
// keys and certificates (cached under -keys; regenerated if missing)

type ident struct {
	key  *rsa.PrivateKey
	cert []byte
}

func loadOrMakeIdent(dir, role string, bits int) (*ident, error) {
	os.MkdirAll(dir, 0o755)
	kf := filepath.Join(dir, fmt.Sprintf("%s-%d.key.pem", role, bits))
	cf := filepath.Join(dir, fmt.Sprintf("%s-%d.cert.der", role, bits))
	if kb, err := os.ReadFile(kf); err == nil {
		if cb, err := os.ReadFile(cf); err == nil {
			if blk, _ := pem.Decode(kb); blk != nil {
				if k, err := x509.ParsePKCS1PrivateKey(blk.Bytes); err == nil && k.N.BitLen() == bits {
					if c, err := x509.ParseCertificate(cb); err == nil && time.Now().Before(c.NotAfter.Add(-time.Hour)) {
						// the cached pair must belong together (two processes may have generated it at the same time)
						if pk, ok := c.PublicKey.(*rsa.PublicKey); ok && pk.N.Cmp(k.N) == 0 {
							return &ident{k, cb}, nil
						}
					}
				}
			}
		}
	}
	key, err := rsa.GenerateKey(rand.Reader, bits)
	if err != nil {
		return nil, err
	}
	uri, _ := url.Parse("urn:verif:sysharness:" + role)
	tmpl := x509.Certificate{
		SerialNumber:          big.NewInt(time.Now().UnixNano()),
		Subject:               pkix.Name{CommonName: "verif sysharness " + role},
		NotBefore:             time.Now().Add(-time.Hour),
		NotAfter:              time.Now().Add(30 * 24 * time.Hour),
		KeyUsage:              x509.KeyUsageKeyEncipherment | x509.KeyUsageDigitalSignature | x509.KeyUsageDataEncipherment | x509.KeyUsageCertSign,
		ExtKeyUsage:           []x509.ExtKeyUsage{x509.ExtKeyUsageServerAuth, x509.ExtKeyUsageClientAuth},
		BasicConstraintsValid: true,
		DNSNames:              []string{"localhost"},
		URIs:                  []*url.URL{uri},
	}
	der, err := x509.CreateCertificate(rand.Reader, &tmpl, &tmpl, &key.PublicKey, key)
	if err != nil {
		return nil, err
	}
	tmpk := kf + fmt.Sprintf(".tmp%d", os.Getpid())
	os.WriteFile(tmpk, pem.EncodeToMemory(&pem.Block{Type: "RSA PRIVATE KEY", Bytes: x509.MarshalPKCS1PrivateKey(key)}), 0o600)
	os.Rename(tmpk, kf)
	tmpc := cf + fmt.Sprintf(".tmp%d", os.Getpid())
	os.WriteFile(tmpc, der, 0o644)
	os.Rename(tmpc, cf)
	return &ident{key, der}, nil
}

// ---------------------------------------------------------------------------------------------
// server

func freePort() int {
	l, err := net.Listen("tcp", "127.0.0.1:0")
	if err != nil {
		panic(err)
	}
	p := l.Addr().(*net.TCPAddr).Port
	l.Close()
	return p
}

type secPair struct {
	Policy string                 // short name
	Mode   ua.MessageSecurityMode // 1,2,3
}

type testServer struct {
	S     *server.Server
	URL   string
	NS    *server.NodeNameSpace
	Nodes []*ua.NodeID
}

// startServer starts a stock server with the given security pairs (in this order), anonymous + username auth,
// and nvars int64 variables "v0".."v<n-1>" (initial value 0) in an own namespace.
func startServer(pairs []secPair, id_ *ident, nvars int) (*testServer, error) {
	port := freePort()
	var opts []server.Option
	for _, p := range pairs {
		opts = append(opts, server.EnableSecurity(p.Policy, p.Mode))
	}
	opts = append(opts,
		server.EnableAuthMode(ua.UserTokenTypeAnonymous),
		server.EnableAuthMode(ua.UserTokenTypeUserName),
		server.EndPoint("localhost", port),
	)
	if id_ != nil {
		opts = append(opts, server.PrivateKey(id_.key), server.Certificate(id_.cert))
	}
	s := server.New(opts...)
	ns := server.NewNodeNameSpace(s, "verif")
	root, _ := s.Namespace(0)
	root.Objects().AddRef(ns.Objects(), id.HasComponent, true)
	ts := &testServer{S: s, URL: fmt.Sprintf("opc.tcp://localhost:%d", port), NS: ns}
	for i := 0; i < nvars; i++ {
		n := ns.AddNewVariableStringNode(fmt.Sprintf("v%d", i), int64(0))
		ns.Objects().AddRef(n, id.HasComponent, true)
		ts.Nodes = append(ts.Nodes, n.ID())
	}
	if err := s.Start(context.Background()); err != nil {
		return nil, err
	}
	return ts, nil
}

func (t *testServer) Close() { t.S.Close() }

// getEndpoints polls until the listener answers.
func getEndpoints(ctx context.Context, addr string) ([]*ua.EndpointDescription, error) {
	var last error
	for i := 0; i < 100; i++ {
		eps, err := opcua.GetEndpoints(ctx, addr)
		if err == nil {
			return eps, nil
		}
		last = err
		select {
		case <-ctx.Done():
			return nil, last
		case <-time.After(30 * time.Millisecond):
		}
	}
	return nil, last
}

// plainClient connects an anonymous None/None client (used by C34/C28/C36 workers).
func plainClient(ctx context.Context, addr string, extra ...opcua.Option) (*opcua.Client, error) {
	opts := append([]opcua.Option{opcua.SecurityMode(ua.MessageSecurityModeNone)}, extra...)
	c, err := opcua.NewClient(addr, opts...)
	if err != nil {
		return nil, err
	}
	if err := c.Connect(ctx); err != nil {
		return nil, err
	}
	return c, nil
}

func readInt(ctx context.Context, c *opcua.Client, n *ua.NodeID) (int64, ua.StatusCode, error) {
	resp, err := c.Read(ctx, &ua.ReadRequest{
		NodesToRead:        []*ua.ReadValueID{{NodeID: n, AttributeID: ua.AttributeIDValue}},
		TimestampsToReturn: ua.TimestampsToReturnNeither,
	})
	if err != nil {
		return 0, 0, err
	}
	if len(resp.Results) != 1 {
		return 0, 0, fmt.Errorf("read: %d results", len(resp.Results))
	}
	r := resp.Results[0]
	if r.Status != ua.StatusOK {
		return 0, r.Status, nil
	}
	if r.Value == nil {
		return 0, ua.StatusBadNoData, nil
	}
	switch v := r.Value.Value().(type) {
	case int64:
		return v, ua.StatusOK, nil
	default:
		return 0, 0, fmt.Errorf("read: unexpected value type %T", v)
	}
}

func writeInt(ctx context.Context, c *opcua.Client, n *ua.NodeID, v int64) (ua.StatusCode, error) {
	resp, err := c.Write(ctx, &ua.WriteRequest{NodesToWrite: []*ua.WriteValue{{
		NodeID: n, AttributeID: ua.AttributeIDValue,
		Value: &ua.DataValue{EncodingMask: ua.DataValueValue, Value: ua.MustVariant(v)},
	}}})
	if err != nil {
		return 0, err
	}
	if len(resp.Results) != 1 {
		return 0, fmt.Errorf("write: %d results", len(resp.Results))
	}
	return resp.Results[0], nil
}
