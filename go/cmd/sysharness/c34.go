package main

// C34: several real clients hammer a few nodes of the stock server concurrently; every completed operation is
// recorded with its invocation and response instants (monotonic clock of this process) and the value written /
// returned.  Written values are unique.  Two kinds of runs:
//   single: every request reads or writes ONE node                       (register per node)
//   group : writers set nodes g0..g3 to one common unique value in ONE request, readers read g0..g3 in ONE request
//           (whole-request atomicity of the single dispatcher: a torn read is not linearizable)

import (
	"context"
	"encoding/binary"
	"fmt"
	"os"
	"sync"
	"sync/atomic"
	"time"

	"github.com/gopcua/opcua"
	"github.com/gopcua/opcua/id"
	"github.com/gopcua/opcua/server"
	"github.com/gopcua/opcua/ua"

	"verifharness/internal/rng"
)

type linOp struct {
	Kind   string     `json:"kind"` // "c34"
	Run    int        `json:"run"`
	Mode   string     `json:"mode"` // single | group
	Client int        `json:"client"`
	Op     string     `json:"op"` // r | w
	Args   [][2]int64 `json:"args"`
	Inv    int64      `json:"inv"`
	Res    int64      `json:"res"`
}

func readMany(ctx context.Context, c *opcua.Client, ids []*ua.NodeID) ([]int64, error) {
	req := &ua.ReadRequest{TimestampsToReturn: ua.TimestampsToReturnNeither}
	for _, n := range ids {
		req.NodesToRead = append(req.NodesToRead, &ua.ReadValueID{NodeID: n, AttributeID: ua.AttributeIDValue})
	}
	resp, err := c.Read(ctx, req)
	if err != nil {
		return nil, err
	}
	if len(resp.Results) != len(ids) {
		return nil, fmt.Errorf("read: %d results for %d nodes", len(resp.Results), len(ids))
	}
	out := make([]int64, len(ids))
	for i, r := range resp.Results {
		if r.Status != ua.StatusOK || r.Value == nil {
			return nil, fmt.Errorf("read: status %v", r.Status)
		}
		v, ok := r.Value.Value().(int64)
		if !ok {
			return nil, fmt.Errorf("read: type %T", r.Value.Value())
		}
		out[i] = v
	}
	return out, nil
}

// ---- blob mode: values are ByteStrings larger than one chunk (so requests and responses are multi-chunk); a blob
// carries one unique id repeated in every 8-byte word, so that a value assembled from two writes is recognisable

const blobLen = 80 * 1024

const smallBlobLen = 64 // "range" runs: 8 words, read whole or with IndexRange "8:15" (the second word)

func makeBlob(id int64) []byte { return makeBlobN(id, blobLen) }

func makeBlobN(id int64, n int) []byte {
	b := make([]byte, n)
	for i := 0; i < n; i += 8 {
		binary.LittleEndian.PutUint64(b[i:], uint64(id))
	}
	return b
}

var corruptCtr atomic.Int64

// blobID returns the id a blob carries; a blob whose words disagree (or of the wrong length) gets a fresh negative id,
// i.e. a value nobody ever wrote.
func blobID(v interface{}) int64 { return blobIDN(v, blobLen, false) }

// blobIDN: full = expected length of the whole value; ranged = the read asked for one word (a server may also
// ignore the range and return the whole value).
func blobIDN(v interface{}, full int, ranged bool) int64 {
	if b, ok := v.([]byte); ok && len(b) > 0 {
		if len(b) != full && !(ranged && len(b) == 8) {
			return -1_000_000_000 - corruptCtr.Add(1)
		}
		id := int64(binary.LittleEndian.Uint64(b))
		for i := 8; i+8 <= len(b); i += 8 {
			if int64(binary.LittleEndian.Uint64(b[i:])) != id {
				return -1_000_000_000 - corruptCtr.Add(1)
			}
		}
		return id
	}
	return blobIDOld(v)
}

func blobIDOld(v interface{}) int64 {
	switch b := v.(type) {
	case nil:
		return 0
	case int64:
		return b
	case []byte:
		if len(b) == 0 {
			return 0
		}
		if len(b) != blobLen {
			return -1_000_000_000 - corruptCtr.Add(1)
		}
		id := int64(binary.LittleEndian.Uint64(b))
		for i := 8; i < blobLen; i += 8 {
			if int64(binary.LittleEndian.Uint64(b[i:])) != id {
				return -1_000_000_000 - corruptCtr.Add(1)
			}
		}
		return id
	}
	return -1_000_000_000 - corruptCtr.Add(1)
}

func readBlob(ctx context.Context, c *opcua.Client, n *ua.NodeID) (int64, error) {
	return readBlobN(ctx, c, n, blobLen, "")
}

func readBlobN(ctx context.Context, c *opcua.Client, n *ua.NodeID, full int, indexRange string) (int64, error) {
	resp, err := c.Read(ctx, &ua.ReadRequest{NodesToRead: []*ua.ReadValueID{{NodeID: n, AttributeID: ua.AttributeIDValue, IndexRange: indexRange}},
		TimestampsToReturn: ua.TimestampsToReturnNeither})
	if err != nil {
		return 0, err
	}
	if len(resp.Results) != 1 || resp.Results[0].Status != ua.StatusOK {
		return 0, fmt.Errorf("read blob: bad result")
	}
	if resp.Results[0].Value == nil {
		return 0, nil
	}
	return blobIDN(resp.Results[0].Value.Value(), full, indexRange != ""), nil
}

func writeBlob(ctx context.Context, c *opcua.Client, n *ua.NodeID, id int64) error {
	return writeBlobN(ctx, c, n, id, blobLen)
}

func writeBlobN(ctx context.Context, c *opcua.Client, n *ua.NodeID, id int64, size int) error {
	resp, err := c.Write(ctx, &ua.WriteRequest{NodesToWrite: []*ua.WriteValue{{NodeID: n, AttributeID: ua.AttributeIDValue,
		Value: &ua.DataValue{EncodingMask: ua.DataValueValue, Value: ua.MustVariant(makeBlobN(id, size))}}}})
	if err != nil {
		return err
	}
	if len(resp.Results) != 1 || resp.Results[0] != ua.StatusOK {
		return fmt.Errorf("write blob: status %v", resp.Results)
	}
	return nil
}

func writeMany(ctx context.Context, c *opcua.Client, ids []*ua.NodeID, v int64) error {
	req := &ua.WriteRequest{}
	for _, n := range ids {
		req.NodesToWrite = append(req.NodesToWrite, &ua.WriteValue{NodeID: n, AttributeID: ua.AttributeIDValue,
			Value: &ua.DataValue{EncodingMask: ua.DataValueValue, Value: ua.MustVariant(v)}})
	}
	resp, err := c.Write(ctx, req)
	if err != nil {
		return err
	}
	for _, s := range resp.Results {
		if s != ua.StatusOK {
			return fmt.Errorf("write: status %v", s)
		}
	}
	return nil
}

// c34run runs one history: nclients clients x 2 worker goroutines each, opsPerWorker operations per worker.
func c34run(run int, mode string, seed uint64, nclients, opsPerWorker, nnodes int) error {
	ts, err := startServer([]secPair{{"None", ua.MessageSecurityModeNone}}, nil, nnodes)
	if err != nil {
		return err
	}
	defer ts.Close()
	if mode == "idkinds" {
		// registers whose node ids are of EVERY kind, two of each kind in the one namespace: numeric (two-byte range,
		// four-byte range, large), string (plain, with a separator, empty), GUID, opaque ByteString (incl. the empty one).
		// The namespace keys its nodes by the id; two ids must never share a slot.
		nsi := ts.NS.ID()
		ids := []*ua.NodeID{
			ua.NewNumericNodeID(nsi, 7), ua.NewNumericNodeID(nsi, 8),
			ua.NewNumericNodeID(nsi, 4242), ua.NewNumericNodeID(nsi, 65535),
			ua.NewNumericNodeID(nsi, 65536), ua.NewNumericNodeID(nsi, 4294967295),
			ua.NewStringNodeID(nsi, "alpha"), ua.NewStringNodeID(nsi, "a;b"), ua.NewStringNodeID(nsi, ""),
			ua.NewGUIDNodeID(nsi, "550E8400-E29B-41D4-A716-446655440000"), ua.NewGUIDNodeID(nsi, "550E8400-E29B-41D4-A716-446655440001"),
			ua.NewByteStringNodeID(nsi, []byte{1, 2, 3}), ua.NewByteStringNodeID(nsi, []byte{0xff, 0x00, 0x7f, 0x80}), ua.NewByteStringNodeID(nsi, []byte{}),
		}
		ts.Nodes = nil
		for i, nid := range ids {
			n := server.NewVariableNode(nid, fmt.Sprintf("k%d", i), int64(0))
			ts.NS.AddNode(n)
			ts.NS.Objects().AddRef(n, id.HasComponent, true)
			ts.Nodes = append(ts.Nodes, nid)
		}
		nnodes = len(ids)
	}
	ctx, cancel := context.WithTimeout(context.Background(), 120*time.Second)
	defer cancel()
	if _, err := getEndpoints(ctx, ts.URL); err != nil {
		return err
	}
	var clients []*opcua.Client
	for i := 0; i < nclients; i++ {
		c, err := plainClient(ctx, ts.URL, opcua.RequestTimeout(10*time.Second), opcua.AutoReconnect(false))
		if err != nil {
			return fmt.Errorf("client %d: %v", i, err)
		}
		defer c.Close(context.Background())
		clients = append(clients, c)
	}
	t0 := time.Now()
	var wg sync.WaitGroup
	var mu sync.Mutex
	var ops []linOp
	var failed atomic.Int64
	master := rng.New(seed)
	for ci, c := range clients {
		for w := 0; w < 2; w++ {
			wg.Add(1)
			wid := ci*2 + w
			r := rng.New(master.U64())
			go func(c *opcua.Client, ci, wid int, r *rng.R) {
				defer wg.Done()
				local := make([]linOp, 0, opsPerWorker)
				ctr := int64(0)
				for k := 0; k < opsPerWorker; k++ {
					o := linOp{Kind: "c34", Run: run, Mode: mode, Client: wid}
					var ids []*ua.NodeID
					var idx []int64
					if mode == "group" {
						ids = ts.Nodes
						for i := range ids {
							idx = append(idx, int64(i))
						}
					} else {
						i := r.Intn(nnodes)
						ids = []*ua.NodeID{ts.Nodes[i]}
						idx = []int64{int64(i)}
					}
					isWrite := r.Intn(100) < 45
					if mode == "group" {
						isWrite = wid%2 == 0 && r.Intn(100) < 70 || wid%2 == 1 && r.Intn(100) < 15
					}
					if isWrite {
						ctr++
						v := int64(wid+1)*1_000_000 + ctr
						o.Op = "w"
						o.Inv = int64(time.Since(t0))
						var err error
						if mode == "blob" {
							err = writeBlob(ctx, c, ids[0], v)
						} else if mode == "range" {
							err = writeBlobN(ctx, c, ids[0], v, smallBlobLen)
						} else {
							err = writeMany(ctx, c, ids, v)
						}
						o.Res = int64(time.Since(t0))
						if err != nil {
							failed.Add(1)
							continue
						}
						for _, i := range idx {
							o.Args = append(o.Args, [2]int64{i, v})
						}
					} else {
						o.Op = "r"
						o.Inv = int64(time.Since(t0))
						var vs []int64
						var err error
						if mode == "blob" {
							var v int64
							v, err = readBlob(ctx, c, ids[0])
							vs = []int64{v}
						} else if mode == "range" {
							// a third of the reads ask for the second word only: a read of the register projected on
							// the range; it must not change the register
							ir := ""
							if r.Intn(3) == 0 {
								ir = "8:15"
							}
							var v int64
							v, err = readBlobN(ctx, c, ids[0], smallBlobLen, ir)
							vs = []int64{v}
						} else {
							vs, err = readMany(ctx, c, ids)
						}
						o.Res = int64(time.Since(t0))
						if err != nil {
							failed.Add(1)
							continue
						}
						for j, i := range idx {
							o.Args = append(o.Args, [2]int64{i, vs[j]})
						}
					}
					local = append(local, o)
					if r.Intn(8) == 0 {
						time.Sleep(time.Duration(r.Intn(300)) * time.Microsecond)
					}
				}
				mu.Lock()
				ops = append(ops, local...)
				mu.Unlock()
			}(c, ci, wid, r)
		}
	}
	wg.Wait()
	if f := failed.Load(); f > 0 {
		fmt.Fprintf(os.Stderr, "c34 run %d: %d operations failed (not part of the history)\n", run, f)
	}
	for _, o := range ops {
		emit(o)
	}
	return nil
}

func c34(seed uint64, runs, opsPerWorker int) {
	quietLogs()
	r := rng.New(seed)
	for i := 0; i < runs; i++ {
		mode := "single"
		nn, ops := 3, opsPerWorker
		if i%3 == 2 {
			mode, nn = "group", 4
		} else if i%6 == 1 {
			mode, ops = "blob", opsPerWorker/3+4 // 80 KiB values: every request or response spans two chunks
		} else if i%6 == 4 {
			mode = "range" // 64-byte ByteString values, whole reads and reads with an IndexRange
		} else if i%6 == 3 {
			mode, ops = "idkinds", opsPerWorker*2 // 14 registers with node ids of every kind
		}
		if err := c34run(i, mode, r.U64(), 4, ops, nn); err != nil {
			emit(map[string]interface{}{"kind": "c34err", "run": i, "err": err.Error()})
		}
	}
}
