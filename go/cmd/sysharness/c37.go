package main

// C37: run the interoperability matrix for real: stock server (None/None + exactly one policy/mode pair,
// key of the given size) against the stock client configured from the advertised endpoint.

import (
	"context"
	"crypto/rsa"
	"fmt"
	"sort"
	"strconv"
	"strings"
	"time"

	"github.com/gopcua/opcua"
	"github.com/gopcua/opcua/ua"
	"github.com/gopcua/opcua/uapolicy"
)

type tokObs struct {
	PolicyID string `json:"policy_id"`
	Type     int    `json:"type"` // 0 anonymous 1 username
	URI      string `json:"uri"`  // short policy name
}

type epObs struct {
	Policy string   `json:"policy"`
	Mode   int      `json:"mode"`
	Level  int      `json:"level"`
	Tokens []tokObs `json:"tokens"`
}

type c37obs struct {
	Kind      string   `json:"kind"` // "c37"
	Policy    string   `json:"policy"`
	Mode      int      `json:"mode"`
	KeyBits   int      `json:"keybits"`         // client key
	SKeyBits  int      `json:"skeybits"`        // server key
	Token     int      `json:"token"`           // 0 anonymous 1 username
	Pairs     []string `json:"pairs,omitempty"` // sequence scenario: everything the long-lived server enables, in order
	Seq       int      `json:"seq,omitempty"`   // sequence scenario: position of the cell in the sequence
	Held      int      `json:"held,omitempty"`  // sequence scenario: clients of earlier cells still connected
	Extra     string   `json:"extra,omitempty"` // pairs the server enables before the pair under test: "Pol/mode+Pol/mode"
	Endpoints []epObs  `json:"endpoints"`
	EpFound   bool     `json:"ep_found"`
	TokAdv    bool     `json:"tok_advertised"` // the selected endpoint lists a token policy of the requested type
	Stage     string   `json:"stage"`          // how far it got: endpoints|select|newclient|connect|read|write|readback|ok
	OK        bool     `json:"ok"`
	Err       string   `json:"err,omitempty"`
	// nonces the real asymmetric algorithm (client side and server side) produces for this configuration
	AsymOK      bool `json:"asym_ok"`
	ClientNonce int  `json:"client_nonce"`
	ServerNonce int  `json:"server_nonce"`
	Ms          int  `json:"ms"`
}

func modeName(m int) ua.MessageSecurityMode { return ua.MessageSecurityMode(m) }

func summarize(eps []*ua.EndpointDescription) []epObs {
	var out []epObs
	for _, e := range eps {
		o := epObs{Policy: shortName(e.SecurityPolicyURI), Mode: int(e.SecurityMode), Level: int(e.SecurityLevel)}
		for _, t := range e.UserIdentityTokens {
			o.Tokens = append(o.Tokens, tokObs{t.PolicyID, int(t.TokenType), shortName(t.SecurityPolicyURI)})
		}
		out = append(out, o)
	}
	return out
}

func runC37Config(keydir, policy string, mode, bits, sbits, token int, extra string) (o c37obs) {
	t0 := time.Now()
	o = c37obs{Kind: "c37", Policy: policy, Mode: mode, KeyBits: bits, SKeyBits: sbits, Token: token, Extra: extra, Stage: "setup"}
	defer func() {
		if r := recover(); r != nil {
			o.OK = false
			o.Err = fmt.Sprintf("PANIC: %v", r)
		}
		o.Ms = int(time.Since(t0) / time.Millisecond)
	}()
	var sid, cid *ident
	if sbits > 0 {
		var err error
		if sid, err = loadOrMakeIdent(keydir, "server", sbits); err != nil {
			o.Err = "keygen: " + err.Error()
			return
		}
	}
	if bits > 0 {
		var err error
		if cid, err = loadOrMakeIdent(keydir, "client", bits); err != nil {
			o.Err = "keygen: " + err.Error()
			return
		}
	}
	// what the real asymmetric constructor says about these keys, and the nonce it would make
	{
		var lk *rsa.PrivateKey
		var rk *rsa.PublicKey
		if mode != 1 && sid != nil {
			lk, rk = cid.key, &sid.key.PublicKey
		}
		if a, err := uapolicy.Asymmetric(policyPrefix+policy, lk, rk); err == nil {
			o.AsymOK = true
			n, _ := a.MakeNonce()
			o.ClientNonce = len(n)
			if sid != nil && mode != 1 {
				if b, err := uapolicy.Asymmetric(policyPrefix+policy, sid.key, &cid.key.PublicKey); err == nil {
					o.ServerNonce = b.NonceLength()
				} else {
					o.AsymOK = false
				}
			} else {
				o.ServerNonce = a.NonceLength()
			}
		}
	}

	pairs := []secPair{{"None", ua.MessageSecurityModeNone}}
	if extra != "" {
		for _, e := range strings.Split(extra, "+") {
			f := strings.Split(e, "/")
			m, _ := strconv.Atoi(f[1])
			pairs = append(pairs, secPair{f[0], modeName(m)})
		}
	}
	if policy != "None" {
		pairs = append(pairs, secPair{policy, modeName(mode)})
	}
	ts, err := startServer(pairs, sid, 1)
	if err != nil {
		o.Err = "server: " + err.Error()
		return
	}
	defer ts.Close()

	ctx, cancel := context.WithTimeout(context.Background(), 40*time.Second)
	defer cancel()
	o.Stage = "endpoints"
	eps, err := getEndpoints(ctx, ts.URL)
	if err != nil {
		o.Err = err.Error()
		return
	}
	o.Endpoints = summarize(eps)
	o.Stage = "select"
	var ep *ua.EndpointDescription
	for _, e := range eps {
		if shortName(e.SecurityPolicyURI) == policy && int(e.SecurityMode) == mode {
			ep = e
			break
		}
	}
	if ep == nil {
		o.Err = "endpoint not advertised"
		return
	}
	o.EpFound = true
	tt := ua.UserTokenTypeAnonymous
	if token == 1 {
		tt = ua.UserTokenTypeUserName
	}
	for _, t := range ep.UserIdentityTokens {
		if t.TokenType == tt {
			o.TokAdv = true
		}
	}
	o.Stage = "newclient"
	opts := []opcua.Option{
		opcua.RequestTimeout(4 * time.Second),
		opcua.DialTimeout(4 * time.Second),
		opcua.AutoReconnect(false),
	}
	if token == 1 {
		opts = append(opts, opcua.AuthUsername("verif", "s3cret-pass"))
	} else {
		opts = append(opts, opcua.AuthAnonymous())
	}
	opts = append(opts, opcua.SecurityFromEndpoint(ep, tt))
	if mode != 1 && cid != nil {
		opts = append(opts, opcua.Certificate(cid.cert), opcua.PrivateKey(cid.key))
	}
	c, err := opcua.NewClient(ts.URL, opts...)
	if err != nil {
		o.Err = err.Error()
		return
	}
	o.Stage = "connect"
	if err := c.Connect(ctx); err != nil {
		o.Err = err.Error()
		return
	}
	defer c.Close(context.Background())
	if c.Session() == nil {
		o.Err = "no session after Connect"
		return
	}
	o.Stage = "read"
	v, st, err := readInt(ctx, c, ts.Nodes[0])
	if err != nil || st != ua.StatusOK || v != 0 {
		o.Err = fmt.Sprintf("read: v=%d status=%v err=%v", v, st, err)
		return
	}
	o.Stage = "write"
	want := int64(1000*bits + sbits + 10*mode + token + 7)
	st, err = writeInt(ctx, c, ts.Nodes[0], want)
	if err != nil || st != ua.StatusOK {
		o.Err = fmt.Sprintf("write: status=%v err=%v", st, err)
		return
	}
	o.Stage = "readback"
	v, st, err = readInt(ctx, c, ts.Nodes[0])
	if err != nil || st != ua.StatusOK || v != want {
		o.Err = fmt.Sprintf("readback: v=%d want=%d status=%v err=%v", v, want, st, err)
		return
	}
	o.Stage = "ok"
	o.OK = true
	return
}

// c37 runs the configurations given as "policy:mode:bits:token" arguments (or the whole matrix for the
// given key sizes when none are given).
func c37(keydir string, sizes []int, args []string) {
	quietLogs()
	type cfg struct {
		p          string
		m, b, s, t int
		x          string
	}
	var cfgs []cfg
	if len(args) > 0 {
		for _, a := range args {
			f := strings.Split(a, ":")
			if len(f) != 4 && len(f) != 5 {
				panic("bad config " + a)
			}
			x := ""
			if len(f) == 5 {
				x = f[4]
			}
			m, _ := strconv.Atoi(f[1])
			bs := strings.Split(f[2], "/") // client[/server] key bits
			b, _ := strconv.Atoi(bs[0])
			sb := b
			if len(bs) == 2 {
				sb, _ = strconv.Atoi(bs[1])
			}
			t, _ := strconv.Atoi(f[3])
			cfgs = append(cfgs, cfg{f[0], m, b, sb, t, x})
		}
	} else {
		uris := uapolicy.SupportedPolicies()
		sort.Strings(uris)
		for _, u := range uris {
			p := shortName(u)
			if p == "None" {
				for t := 0; t < 2; t++ {
					cfgs = append(cfgs, cfg{p, 1, 0, 0, t, ""})
				}
				continue
			}
			for _, b := range sizes {
				for _, sb := range sizes {
					for m := 2; m <= 3; m++ {
						for t := 0; t < 2; t++ {
							cfgs = append(cfgs, cfg{p, m, b, sb, t, ""})
						}
					}
				}
			}
		}
	}
	// make keys up front, sequentially (the expensive part), then run configurations with bounded parallelism
	seen := map[int]bool{}
	for _, c := range cfgs {
		for _, kb := range []int{c.b, c.s} {
			if kb > 0 && !seen[kb] {
				seen[kb] = true
				loadOrMakeIdent(keydir, "server", kb)
				loadOrMakeIdent(keydir, "client", kb)
			}
		}
	}
	sem := make(chan struct{}, 10)
	res := make([]c37obs, len(cfgs))
	done := make(chan int)
	for i, c := range cfgs {
		go func(i int, c cfg) {
			sem <- struct{}{}
			res[i] = runC37Config(keydir, c.p, c.m, c.b, c.s, c.t, c.x)
			<-sem
			done <- i
		}(i, c)
	}
	for range cfgs {
		<-done
	}
	for _, o := range res {
		emit(o)
	}
}
