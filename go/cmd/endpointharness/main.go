// endpointharness drives the real opcua.SelectEndpoint on seeded endpoint lists and prints one JSON observation
// per line: the input, ua.FormatSecurityPolicyURI(policy), the slice as the in-place sort left it (as indices
// into the input, by pointer identity), and the outcome.
package main

import (
	"bufio"
	"encoding/hex"
	"encoding/json"
	"flag"
	"fmt"
	"os"
	"sort"
	"strings"

	"github.com/gopcua/opcua"
	"github.com/gopcua/opcua/ua"

	"verifharness/internal/rng"
)

type ep struct {
	U string `json:"u"` // SecurityPolicyURI, hex
	M uint32 `json:"m"`
	L uint8  `json:"l"`
}

type kase struct {
	Eps    []*ep  `json:"eps"` // null = nil pointer in the slice
	Policy string `json:"policy"`
	Mode   uint32 `json:"mode"`
	Kind   string `json:"kind,omitempty"`
}

type obs struct {
	kase
	Formatted string `json:"formatted"`
	After     []int  `json:"after"`   // after[k] = index in Eps of the pointer now at position k
	Outcome   string `json:"outcome"` // ok | err_empty | err_nomatch | err_other | panic
	Res       int    `json:"res"`     // position in the sorted slice of the returned pointer; -1 = nil returned
	Err       string `json:"err,omitempty"`
}

func hx(s string) string { return hex.EncodeToString([]byte(s)) }
func unhx(s string) string {
	b, err := hex.DecodeString(s)
	if err != nil {
		panic(err)
	}
	return string(b)
}

func run(k kase) (o obs) {
	o.kase = k
	policy := unhx(k.Policy)
	o.Formatted = hx(ua.FormatSecurityPolicyURI(policy))
	in := make([]*ua.EndpointDescription, len(k.Eps))
	index := map[*ua.EndpointDescription]int{}
	var nils []int
	for i, e := range k.Eps {
		if e == nil {
			nils = append(nils, i)
			continue
		}
		in[i] = &ua.EndpointDescription{SecurityPolicyURI: unhx(e.U), SecurityMode: ua.MessageSecurityMode(e.M), SecurityLevel: e.L,
			EndpointURL: fmt.Sprintf("opc.tcp://h:%d", i)}
		index[in[i]] = i
	}
	work := append([]*ua.EndpointDescription(nil), in...)
	var res *ua.EndpointDescription
	var err error
	func() {
		defer func() {
			if r := recover(); r != nil {
				o.Outcome = "panic"
				o.Err = fmt.Sprint(r)
			}
		}()
		res, err = opcua.SelectEndpoint(work, policy, ua.MessageSecurityMode(k.Mode))
	}()
	o.After = make([]int, len(work))
	for p, e := range work {
		if e == nil {
			if len(nils) > 0 {
				o.After[p] = nils[0]
				nils = nils[1:]
			} else {
				o.After[p] = -1
			}
			continue
		}
		if i, ok := index[e]; ok {
			o.After[p] = i
		} else {
			o.After[p] = -1 // a pointer that was not in the input
		}
	}
	o.Res = -1
	if o.Outcome == "panic" {
		return
	}
	switch {
	case err == nil:
		o.Outcome = "ok"
		if res != nil {
			o.Res = -2 // returned pointer is not an element of the slice
			for p, e := range work {
				if e == res {
					o.Res = p
					break
				}
			}
		}
	case strings.Contains(err.Error(), "no endpoints available"):
		o.Outcome, o.Err = "err_empty", err.Error()
	case strings.Contains(err.Error(), "no matching endpoint found"):
		o.Outcome, o.Err = "err_nomatch", err.Error()
	default:
		o.Outcome, o.Err = "err_other", err.Error()
	}
	if res != nil && err != nil {
		o.Outcome = "err_other"
	}
	return
}

// shortOf returns the short name the code's table maps to uri.
func shortOf(uri string) string {
	for k, v := range ua.SecurityPolicyURIs {
		if v == uri {
			return k
		}
	}
	return ""
}

func gen(seed uint64, n int) []kase {
	r := rng.New(seed)
	var shorts, uris []string
	for k, v := range ua.SecurityPolicyURIs {
		shorts = append(shorts, k)
		uris = append(uris, v)
	}
	sort.Strings(shorts)
	sort.Strings(uris)
	randStr := func() string { return string(r.Bytes(r.Range(0, 6))) }
	epURI := func() string {
		switch r.Intn(10) {
		case 0:
			return ""
		case 1:
			return ua.SecurityPolicyURIPrefix + randStr()
		case 2:
			return randStr()
		case 3:
			return shorts[r.Intn(len(shorts))] // a short name where a URI belongs
		case 4:
			return ua.SecurityPolicyURIPrefix + "Custom"
		default:
			return uris[r.Intn(len(uris))]
		}
	}
	query := func() string {
		switch r.Intn(16) {
		case 0, 1, 12, 13, 14:
			return ""
		case 15:
			return uris[r.Intn(len(uris))]
		case 2, 3, 4:
			return shorts[r.Intn(len(shorts))]
		case 5, 6, 7:
			return uris[r.Intn(len(uris))]
		case 8:
			return "Custom"
		case 9:
			return ua.SecurityPolicyURIPrefix + "Custom"
		case 10:
			return ua.SecurityPolicyURIPrefix[:r.Range(1, len(ua.SecurityPolicyURIPrefix))]
		default:
			return randStr()
		}
	}
	var out []kase
	// boundary cases first
	out = append(out, kase{Kind: "empty", Policy: "", Mode: 0}, kase{Kind: "empty", Policy: hx("None"), Mode: 1})
	out = append(out, kase{Kind: "nil1", Eps: []*ep{nil}}, kase{Kind: "nil1", Eps: []*ep{nil}, Mode: 1},
		kase{Kind: "nil2", Eps: []*ep{{U: hx(ua.SecurityPolicyURINone), M: 1, L: 0}, nil}})
	// systematic: every registered policy queried by short name and by full URI (with and without a mode), against a list
	// that contains one endpoint per policy
	var all []*ep
	for i, u := range uris {
		all = append(all, &ep{U: hx(u), M: uint32(1 + i%3), L: uint8(10 * i)})
	}
	for i, u := range uris {
		for _, q := range []string{u, shorts[sort.SearchStrings(shorts, shortOf(u))]} {
			for _, m := range []uint32{0, uint32(1 + i%3)} {
				cp := make([]*ep, len(all))
				for j := range all {
					c := *all[j]
					cp[j] = &c
				}
				out = append(out, kase{Kind: "table", Eps: cp, Policy: hx(q), Mode: m})
			}
		}
	}
	for len(out) < n {
		var k kase
		ln := 0
		switch r.Intn(8) {
		case 0:
			ln = r.Range(0, 2)
		case 1, 2:
			ln = r.Range(13, 70) // above the insertion-sort threshold of sort.Sort: ties get reordered
		default:
			ln = r.Range(1, 12)
		}
		nlev := r.Pick(1, 2, 3, 5, 256)
		for i := 0; i < ln; i++ {
			k.Eps = append(k.Eps, &ep{U: hx(epURI()), M: uint32(r.Pick(1, 2, 3, 3, 2, 1, 3, 2, 1, 0, 4, r.Intn(1<<16))), L: uint8(r.Intn(nlev) * (256 / nlev) % 256)})
		}
		k.Kind = "valid"
		if r.Intn(25) == 0 && ln > 0 {
			k.Eps[r.Intn(ln)] = nil
			k.Kind = "nil"
		}
		k.Policy = hx(query())
		k.Mode = uint32(r.Pick(0, 0, 0, 1, 2, 3, 3, 2, 1, 0, 4, r.Intn(1<<16)))
		if ln > 0 && r.Intn(2) == 0 { // aim at an endpoint that is in the list (by URI or by its short name)
			if t := k.Eps[r.Intn(ln)]; t != nil {
				u := unhx(t.U)
				if r.Bool() {
					for sn, v := range ua.SecurityPolicyURIs {
						if v == u {
							u = sn
						}
					}
				}
				k.Policy = hx(u)
				if r.Intn(3) == 0 {
					k.Policy = ""
				}
				k.Mode = uint32(r.Pick(0, int(t.M), int(t.M)))
			}
		}
		out = append(out, k)
	}
	return out
}

func main() {
	seed := flag.Uint64("seed", 1, "seed")
	n := flag.Int("n", 500, "cases")
	file := flag.String("cases", "", "read cases (json lines: eps, policy, mode) from this file instead of generating")
	flag.Parse()
	w := bufio.NewWriter(os.Stdout)
	defer w.Flush()
	enc := json.NewEncoder(w)
	var ks []kase
	if *file != "" {
		f, err := os.Open(*file)
		if err != nil {
			fmt.Fprintln(os.Stderr, err)
			os.Exit(2)
		}
		sc := bufio.NewScanner(f)
		sc.Buffer(make([]byte, 1<<20), 1<<26)
		for sc.Scan() {
			if !strings.HasPrefix(sc.Text(), "{") {
				continue
			}
			var k kase
			if err := json.Unmarshal(sc.Bytes(), &k); err != nil {
				fmt.Fprintln(os.Stderr, err)
				os.Exit(2)
			}
			ks = append(ks, k)
		}
	} else {
		ks = gen(*seed, *n)
	}
	for _, k := range ks {
		enc.Encode(run(k))
	}
}
