package main

import (
	"crypto/ecdsa"
	"crypto/elliptic"
	"crypto/rand"
	"crypto/x509"
	"crypto/x509/pkix"
	"encoding/binary"
	"encoding/hex"
	"fmt"
	"math/big"
	"net/url"
	"strings"
	"time"

	"github.com/gopcua/opcua/ua"
	"github.com/gopcua/opcua/uapolicy"
	"github.com/gopcua/opcua/uasc"

	"verifharness/internal/rng"
)

var testCert []byte

func cert() []byte {
	if testCert == nil {
		u, _ := url.Parse("urn:verif:test")
		tpl := &x509.Certificate{SerialNumber: big.NewInt(1), Subject: pkix.Name{CommonName: "verif"},
			NotBefore: time.Now().Add(-time.Hour), NotAfter: time.Now().Add(time.Hour), URIs: []*url.URL{u},
			KeyUsage: x509.KeyUsageDigitalSignature | x509.KeyUsageKeyEncipherment}
		d, err := x509.CreateCertificate(rand.Reader, tpl, tpl, &key().PublicKey, key())
		if err != nil {
			panic(err)
		}
		testCert = d
	}
	return testCert
}

var testECCert []byte

// ecCert: a valid X.509 certificate whose key is not RSA.
func ecCert() []byte {
	if testECCert == nil {
		k, err := ecdsa.GenerateKey(elliptic.P256(), rand.Reader)
		if err != nil {
			panic(err)
		}
		tpl := &x509.Certificate{SerialNumber: big.NewInt(2), Subject: pkix.Name{CommonName: "verif-ec"},
			NotBefore: time.Now().Add(-time.Hour), NotAfter: time.Now().Add(time.Hour), KeyUsage: x509.KeyUsageDigitalSignature}
		d, err := x509.CreateCertificate(rand.Reader, tpl, tpl, &k.PublicKey, k)
		if err != nil {
			panic(err)
		}
		testECCert = d
	}
	return testECCert
}

type c13frame struct {
	B    string `json:"b"`
	K    string `json:"k"` // chunk | err | panic | uacp
	E    int    `json:"e,omitempty"`
	T    int    `json:"t,omitempty"`
	Seq  uint32 `json:"seq,omitempty"`
	Req  uint32 `json:"req,omitempty"`
	Data string `json:"data,omitempty"`
	Err  string `json:"err,omitempty"`
	Own  bool   `json:"own,omitempty"` // produced with the channel's keys
	What string `json:"what,omitempty"`
}

type c13case struct {
	Name    string      `json:"name"`
	Kind    string      `json:"kind"`
	Mode    int         `json:"mode"`
	PNone   bool        `json:"pnone"`
	Opening int         `json:"opening"` // 0 nil, 1 instance without algorithm, 2 toy algorithm
	OpenP   toyParams   `json:"openp"`
	Insts   []toyParams `json:"insts"` // instances stored under channel id 7, oldest first
	Cap     int         `json:"cap"`
	Frames  []c13frame  `json:"frames"`
	Cert    string      `json:"cert,omitempty"`
	ECCert  string      `json:"eccert,omitempty"`
}

func errClass(err error) (int, string) {
	es := err.Error()
	switch {
	case err == ua.StatusBadSecurityChecksFailed:
		return 1, ""
	case err == ua.StatusBadSequenceNumberInvalid:
		return 8, ""
	case err == ua.StatusBadCertificateInvalid:
		return 9, ""
	case strings.Contains(es, "decode chunk failed"), strings.Contains(es, "decode header failed"):
		return 2, ""
	case strings.Contains(es, "openingInstance is nil"):
		return 3, ""
	case es == "EOF":
		return 5, ""
	case strings.Contains(es, "unable to find instance"):
		return 6, ""
	case strings.Contains(es, "decode sequence header failed"):
		return 7, ""
	case strings.HasPrefix(es, "uacp"), strings.Contains(es, "i/o timeout"):
		return 100, es
	default: // certificate / policy errors of the OPN branch
		return 4, es
	}
}

func readOne(v uasc.VerifChannel) (f c13frame) {
	defer func() {
		if r := recover(); r != nil {
			f = c13frame{K: "panic", Err: fmt.Sprint(r)}
		}
	}()
	m, err := v.ReadChunk()
	if err != nil {
		e, s := errClass(err)
		if e == 100 {
			return c13frame{K: "uacp", Err: s}
		}
		return c13frame{K: "err", E: e, Err: s}
	}
	return c13frame{K: "chunk", T: int(m.Header.ChunkType), Seq: m.SequenceHeader.SequenceNumber, Req: m.SequenceHeader.RequestID, Data: hx(m.Data)}
}

func fuzzFrames(r *rng.R, c *c13case, n int) [][]byte {
	var out [][]byte
	body := svcBody(3, r.Bytes(r.Intn(12)))
	mode := ua.MessageSecurityMode(c.Mode)
	secure := func(p toyParams, raw []byte, m *uasc.Message) []byte {
		uri := ua.SecurityPolicyURIBasic256Sha256
		if c.PNone {
			uri = ua.SecurityPolicyURINone
		}
		s := uasc.VerifNewInstance(uri, mode, toyAlgo(p), chanID, tokID, 0)
		b, err := s.SignAndEncrypt(m, append([]byte(nil), raw...))
		if err != nil {
			return raw
		}
		return b
	}
	for i := 0; i < n; i++ {
		var b []byte
		ch := uint32(r.Pick(chanID, chanID, chanID, chanID, 8, 0))
		switch r.Intn(9) {
		case 0, 1: // MSG for one of the instances (or unsecured)
			raw := symChunk("MSG", byte(r.Pick('F', 'F', 'C', 'A', 'X')), ch, tokID, uint32(r.U64()), uint32(r.Intn(5)), body)
			b = raw
			if len(c.Insts) > 0 && c.Mode != 1 {
				m := symMessage(1, 1)
				b = secure(c.Insts[r.Intn(len(c.Insts))], raw, m)
			}
		case 2: // OPN, policy None
			b, _ = rawOpn(ua.SecurityPolicyURINone, nil, nil, uint32(r.U64()), uint32(r.Intn(5)), body)
		case 3: // OPN, real policy, garbage or valid certificate
			var ce []byte
			switch r.Intn(4) {
			case 0:
				ce = cert()
			case 1:
				ce = r.Bytes(r.Intn(40))
			case 2:
				ce = ecCert() // parses, but the key is not RSA
			}
			uri := []string{ua.SecurityPolicyURIBasic256Sha256, ua.SecurityPolicyURIBasic128Rsa15, "http://x/unknown", ""}[r.Intn(4)]
			b, _ = rawOpn(uri, ce, r.Bytes(r.Pick(0, 20)), 1, 1, body)
			if c.Opening == 2 && r.Bool() {
				_, m := rawOpn(uri, ce, nil, 1, 1, body)
				b = secure(c.OpenP, b, m)
			}
		case 4:
			b = symChunk("CLO", 'F', ch, tokID, 1, 1, nil)
		case 5: // short / truncated
			raw := symChunk([]string{"MSG", "OPN", "CLO"}[r.Intn(3)], 'F', ch, tokID, 1, 1, body)
			b = raw[:r.Range(8, len(raw))]
		case 6: // hostile lengths in the asymmetric header
			b, _ = rawOpn("abc", []byte{1, 2, 3}, nil, 1, 1, body)
			binary.LittleEndian.PutUint32(b[12:], uint32(r.Pick(0xffffffff, 0x7fffffff, 0, 3, 4, 200, 0xfffffffe)))
		case 7: // garbage with a plausible type
			b = append([]byte([]string{"MSGF", "OPNF", "CLOF", "XYZF", "MSGC", "ACKF", "HELF"}[r.Intn(7)]), r.Bytes(r.Range(4, 60))...)
		default: // mutate a valid chunk
			raw := symChunk("MSG", 'F', chanID, tokID, 5, 6, body)
			if len(c.Insts) > 0 && c.Mode != 1 {
				raw = secure(c.Insts[len(c.Insts)-1], raw, symMessage(5, 6))
			}
			b = raw
			p := r.Intn(len(b))
			b[p] ^= byte(1 << uint(r.Intn(8)))
		}
		if len(b) > c.Cap {
			b = b[:c.Cap]
		}
		if len(b) < 8 {
			continue
		}
		if string(b[:3]) == "ERR" {
			b[0] = 'M'
		}
		fixSize(b)
		out = append(out, b)
	}
	return out
}

func runC13(r *rng.R, c *c13case, nframes int) { runC13frames(r, c, nframes, nil) }

type namedFrame struct {
	b    []byte
	own  bool
	what string
}

func runC13frames(r *rng.R, c *c13case, nframes int, given []namedFrame) {
	peer, conn := pair(defaultAck(uint32(c.Cap), 4, 1000))
	defer peer.Close()
	defer conn.Close()
	uri := ua.SecurityPolicyURIBasic256Sha256
	if c.PNone {
		uri = ua.SecurityPolicyURINone
	}
	cfg := &uasc.Config{SecurityPolicyURI: ua.SecurityPolicyURINone, SecurityMode: ua.MessageSecurityModeNone, LocalKey: key(), Certificate: cert(), RequestTimeout: time.Second}
	sc, err := uasc.VerifNewChannel(conn, cfg, c.Kind == "server", make(chan error, 1024))
	if err != nil {
		panic(err)
	}
	v := uasc.VerifChannel{S: sc}
	// the configuration as an earlier OPN exchange (or the application) left it
	v.Config().SecurityPolicyURI = uri
	v.Config().SecurityMode = ua.MessageSecurityMode(c.Mode)
	for _, p := range c.Insts {
		v.AddInstance(toyAlgo(p), chanID, tokID, 0, time.Now(), time.Hour)
	}
	switch c.Opening {
	case 1:
		v.SetOpening(nil, chanID, tokID, 0)
	case 2:
		v.SetOpening(toyAlgo(c.OpenP), chanID, tokID, 0)
	}
	if given == nil {
		for _, b := range fuzzFrames(r, c, nframes) {
			given = append(given, namedFrame{b: b})
		}
	}
	for _, g := range given {
		b := g.b
		peer.Write(b)
		conn.SetReadDeadline(time.Now().Add(3 * time.Second))
		f := readOne(v)
		f.B, f.Own, f.What = hx(b), g.own, g.what
		c.Frames = append(c.Frames, f)
		if f.K == "uacp" {
			break
		}
	}
}

// c13ids: intermediate chunks for fresh request ids: how much does the chunk table hold?
func c13ids(n int) {
	const rbuf, mc, ms = 8192, 4, 1000
	peer, conn := pair(defaultAck(rbuf, mc, ms))
	defer peer.Close()
	defer conn.Close()
	sc, _ := uasc.VerifNewChannel(conn, noneCfg(), true, make(chan error, 16))
	v := uasc.VerifChannel{S: sc}
	v.AddInstance(noneAlgo(), chanID, tokID, 0, time.Now(), time.Hour)
	go func() {
		for i := 0; i < n; i++ {
			peer.Write(symChunk("MSG", 'C', chanID, tokID, uint32(i+1), uint32(i+1), []byte{0}))
		}
		peer.Write(symChunk("CLO", 'F', chanID, tokID, 0, 0, nil))
	}()
	o := recvOne(sc, conn, 20*time.Second)
	ids, chunks, lenSum, capSum := v.RetainedChunkBytes()
	// a single request id: the per-id cap
	peer2, conn2 := pair(defaultAck(rbuf, mc, ms))
	defer peer2.Close()
	defer conn2.Close()
	sc2, _ := uasc.VerifNewChannel(conn2, noneCfg(), true, make(chan error, 16))
	v2 := uasc.VerifChannel{S: sc2}
	v2.AddInstance(noneAlgo(), chanID, tokID, 0, time.Now(), time.Hour)
	maxHeld, tooMany := 0, 0
	for i := 0; i < 3*mc+1; i++ {
		peer2.Write(symChunk("MSG", 'C', chanID, tokID, uint32(2*i+1), 1, []byte{0}))
		peer2.Write(symChunk("MSG", 'F', chanID, tokID, uint32(2*i+2), 2, svcBody(1, nil)))
		for k := 0; k < 2; k++ {
			if r := recvOne(sc2, conn2, 5*time.Second); r.K == "toomany" {
				tooMany++
			} else if r.K == "deliver" {
				break
			}
		}
		if _, chunks, _, _ := v2.RetainedChunkBytes(); chunks > maxHeld {
			maxHeld = chunks
		}
	}
	enc.Encode(map[string]any{"name": "perid", "mc": mc, "sent": 3*mc + 1, "max_held": maxHeld, "too_many": tooMany})
	enc.Encode(map[string]any{"name": "ids", "sent": n, "rbuf": rbuf, "mc": mc, "ms": ms, "end": o.K, "ids": ids, "chunks": chunks, "len_sum": lenSum, "cap_sum": capSum})
}

// c13wedge: an unsolicited OpenSecureChannelResponse whose request id matches a pending ordinary request.
func c13wedge() {
	peer, conn := pair(defaultAck(65535, 16, 1<<20))
	defer peer.Close()
	defer conn.Close()
	sc, _ := uasc.VerifNewChannel(conn, noneCfg(), false, make(chan error, 16))
	v := uasc.VerifChannel{S: sc}
	v.AddInstance(noneAlgo(), chanID, tokID, 0, time.Now(), time.Hour)
	h5 := v.RegisterHandler(5)
	h6 := v.RegisterHandler(6)
	v.StartDispatcher()
	osc := &ua.OpenSecureChannelResponse{ResponseHeader: &ua.ResponseHeader{RequestHandle: 5, ServiceDiagnostics: &ua.DiagnosticInfo{}, AdditionalHeader: ua.NewExtensionObject(nil)},
		SecurityToken: &ua.ChannelSecurityToken{}, ServerNonce: []byte{1}}
	rd := &ua.CloseSessionResponse{ResponseHeader: &ua.ResponseHeader{RequestHandle: 6, ServiceDiagnostics: &ua.DiagnosticInfo{}, AdditionalHeader: ua.NewExtensionObject(nil)}}
	peer.Write(symChunk("MSG", 'F', chanID, tokID, 1, 5, reencode(osc)))
	got5, got6 := false, false
	select {
	case <-h5:
		got5 = true
	case <-time.After(2 * time.Second):
	}
	peer.Write(symChunk("MSG", 'F', chanID, tokID, 2, 6, reencode(rd)))
	select {
	case <-h6:
		got6 = true
	case <-time.After(1500 * time.Millisecond):
	}
	locked := v.RcvLocked()
	v.RcvUnlock() // what a returning open() would do
	after := false
	select {
	case <-h6:
		after = true
	case <-time.After(1500 * time.Millisecond):
	}
	enc.Encode(map[string]any{"name": "wedge", "first_delivered": got5, "second_delivered": got6, "rcv_locked": locked, "second_delivered_after_unlock": after})
}

// c13progress: Receive is fed frames after every error; every call has to return (the channel must not wedge on a
// lock). Streams: intermediate chunks whose data exceeds MaxMessageSize within MaxChunkCount, multi-chunk responses for
// request ids nobody waits for (client) or with a registered handler, aborts, over-limit counts, then a sentinel.
func c13progress(r *rng.R, n int) {
	for i := 0; i < n; i++ {
		for _, kind := range []string{"client", "server"} {
			const mc, ms = 6, 100
			peer, conn := pair(defaultAck(8192, mc, ms))
			sc, _ := uasc.VerifNewChannel(conn, noneCfg(), kind == "server", make(chan error, 64))
			v := uasc.VerifChannel{S: sc}
			v.AddInstance(noneAlgo(), chanID, tokID, 0, time.Now(), time.Hour)
			if kind == "client" && r.Bool() {
				v.RegisterHandler(2)
			}
			seq := uint32(r.Intn(1000))
			var frames []wchunk
			add := func(t byte, req uint32, d []byte) {
				seq++
				frames = append(frames, wchunk{int(t), seq, req, hx(d)})
			}
			for k := 0; k < r.Range(2, 5); k++ {
				switch r.Intn(5) {
				case 0: // more data than MaxMessageSize in intermediate chunks, fewer chunks than MaxChunkCount, then more
					add('C', 1, r.Bytes(70))
					add('C', 1, r.Bytes(70))
					add('C', 1, r.Bytes(5))
					add('F', 1, r.Bytes(5))
				case 1: // multi-chunk response
					b := svcBody(9, r.Bytes(20))
					add('C', 2, b[:10])
					add('F', 2, b[10:])
				case 2: // too many chunks
					for j := 0; j < mc+2; j++ {
						add('C', 3, []byte{1})
					}
				case 3:
					add('C', 4, []byte{1, 2})
					ab, _ := (&uasc.MessageAbort{ErrorCode: 0x80010000, Reason: "x"}).Encode()
					add('A', 4, ab)
				default:
					add('F', 5, r.Bytes(r.Intn(8))) // does not decode
				}
			}
			sent := svcBody(77, []byte("sentinel"))
			add('F', 99, sent)
			go func() {
				for _, c := range frames {
					d, _ := hex.DecodeString(c.Data)
					peer.Write(symChunk("MSG", byte(c.T), chanID, tokID, c.Seq, c.Req, d))
				}
			}()
			var outs []out
			sentinel := false
			for j := 0; j < len(frames)+2 && !sentinel; j++ {
				o := recvOne(sc, conn, 2*time.Second)
				outs = append(outs, o)
				if o.K == "deliver" && o.Req == 99 {
					sentinel = true
				}
				if o.K == "stuck" || o.K == "timeout" || o.K == "panic" || o.K == "eof" {
					break
				}
			}
			enc.Encode(map[string]any{"name": "progress", "kind": kind, "chunks": frames, "outs": outs, "sentinel": sentinel})
			peer.Close()
			conn.Close()
		}
	}
}

func c13(seed uint64, n int, replay string) {
	r := rng.New(seed)
	tp := func() toyParams {
		return toyParams{Block: 16, KC: byte(r.Range(1, 255)), KM: uint32(r.U64()), SL: r.Pick(32, 32, 20, 300), RSL: 0}
	}
	i := 0
	for _, kind := range []string{"client", "server"} {
		for _, mode := range []int{1, 2, 3} {
			for _, opening := range []int{0, 1, 2} {
				for _, ninst := range []int{0, 1, 2} {
					for rep := 0; rep < n; rep++ {
						c := c13case{Name: fmt.Sprintf("st%d", i), Kind: kind, Mode: mode, PNone: mode == 1 && r.Intn(3) > 0, Opening: opening, Cap: r.Pick(65535, 8192, 64, 12, 30)}
						i++
						c.OpenP = tp()
						c.OpenP.RSL = c.OpenP.SL
						for k := 0; k < ninst; k++ {
							p := tp()
							p.RSL = p.SL
							c.Insts = append(c.Insts, p)
						}
						c.Cert = hx(cert())
						c.ECCert = hx(ecCert())
						runC13(r, &c, 14)
						enc.Encode(c)
					}
				}
			}
		}
	}
	c13progress(r, 6*n+6)
	c13ids(2000)
	c13wedge()
}

var _ = uapolicy.SupportedPolicies
