// recvharness drives the real receive path of the secure channel (uasc.SecureChannel.Receive / readChunk /
// verifyAndDecrypt / mergeChunks / scheduleExpiration) over loopback TCP through the verif hooks and prints one
// JSON observation per line.
package main

import (
	"context"
	"encoding/binary"
	"encoding/hex"
	"encoding/json"
	"flag"
	"fmt"
	"net"
	"os"
	"strings"
	"time"

	"github.com/gopcua/opcua/ua"
	"github.com/gopcua/opcua/uacp"
	"github.com/gopcua/opcua/uapolicy"
	"github.com/gopcua/opcua/uasc"
)

var enc = json.NewEncoder(os.Stdout)

var ctxBG = context.Background()

func hx(b []byte) string { return hex.EncodeToString(b) }

// pair returns a loopback TCP pair: the peer's end and a uacp.Conn (no HEL/ACK exchange) with the given limits.
func pair(ack *uacp.Acknowledge) (*net.TCPConn, *uacp.Conn) {
	l, err := net.ListenTCP("tcp", &net.TCPAddr{IP: net.IPv4(127, 0, 0, 1)})
	if err != nil {
		panic(err)
	}
	defer l.Close()
	ch := make(chan *net.TCPConn, 1)
	go func() {
		c, err := l.AcceptTCP()
		if err != nil {
			panic(err)
		}
		ch <- c
	}()
	p, err := net.DialTCP("tcp", nil, l.Addr().(*net.TCPAddr))
	if err != nil {
		panic(err)
	}
	c := <-ch
	conn, err := uacp.NewConn(c, ack)
	if err != nil {
		panic(err)
	}
	return p, conn
}

func defaultAck(rbuf, mc, ms uint32) *uacp.Acknowledge {
	return &uacp.Acknowledge{ReceiveBufSize: rbuf, SendBufSize: 65535, MaxChunkCount: mc, MaxMessageSize: ms}
}

// symChunk builds an unsecured symmetric chunk.
func symChunk(mt string, ct byte, chanID, tokenID, seq, reqID uint32, body []byte) []byte {
	b := make([]byte, 24+len(body))
	copy(b, mt)
	b[3] = ct
	binary.LittleEndian.PutUint32(b[4:], uint32(len(b)))
	binary.LittleEndian.PutUint32(b[8:], chanID)
	binary.LittleEndian.PutUint32(b[12:], tokenID)
	binary.LittleEndian.PutUint32(b[16:], seq)
	binary.LittleEndian.PutUint32(b[20:], reqID)
	copy(b[24:], body)
	return b
}

// svcBody encodes a CloseSessionRequest whose AuditEntryID carries the payload: a service body DecodeService accepts.
func svcBody(handle uint32, payload []byte) []byte {
	req := &ua.CloseSessionRequest{RequestHeader: &ua.RequestHeader{
		AuthenticationToken: ua.NewTwoByteNodeID(0),
		RequestHandle:       handle,
		AuditEntryID:        string(payload),
		AdditionalHeader:    ua.NewExtensionObject(nil),
	}}
	return reencode(req)
}

func reencode(body interface{}) []byte {
	t, err := ua.Encode(ua.NewFourByteExpandedNodeID(0, ua.ServiceTypeID(body)))
	if err != nil {
		return nil
	}
	b, err := ua.Encode(body)
	if err != nil {
		return nil
	}
	return append(t, b...)
}

// out is the projection of one value returned by Receive.
type out struct {
	K    string `json:"k"` // deliver decerr abort abortbad toomany toolarge eof secerr other panic
	Req  uint32 `json:"req"`
	N    uint64 `json:"n,omitempty"`
	Body string `json:"body,omitempty"`
	Err  string `json:"err,omitempty"`
}

func classify(m *uasc.MessageBody) out {
	o := out{Req: m.RequestID}
	if m.Err == nil {
		if m.VerifBody() == nil {
			o.K = "empty"
			return o
		}
		o.K = "deliver"
		o.Body = hx(reencode(m.VerifBody()))
		return o
	}
	es := strings.TrimPrefix(m.Err.Error(), "opcua: ")
	var a, b uint64
	switch {
	case es == "EOF":
		o.K = "eof"
	case strings.HasPrefix(es, "too many chunks"):
		fmt.Sscanf(es, "too many chunks: %d > %d", &a, &b)
		o.K, o.N = "toomany", a
	case strings.HasPrefix(es, "message too large"):
		fmt.Sscanf(es, "message too large: %d > %d", &a, &b)
		o.K, o.N = "toolarge", a
	default:
		if sc, ok := m.Err.(ua.StatusCode); ok {
			switch {
			case m.VerifBody() != nil:
				o.K, o.N = "svcerr", uint64(sc)
			case sc == ua.StatusBadSecurityChecksFailed:
				o.K = "secerr"
			case sc == ua.StatusBadSequenceNumberInvalid:
				o.K = "badseq"
			default:
				o.K, o.N = "status", uint64(sc)
			}
		} else {
			switch {
			case strings.HasPrefix(es, "sechan:"), strings.HasPrefix(es, "uacp:"):
				o.K, o.Err = "chanerr", es
			case strings.Contains(es, "i/o timeout"):
				o.K = "timeout"
			default:
				o.K, o.Err = "decerr", es
			}
		}
	}
	return o
}

// recvOne calls Receive once, converting a panic into an observation. Receive runs in its own goroutine: if it has not
// returned one second after the read deadline of the connection it is reported as "stuck" (it waits on something that
// is not the network, e.g. a mutex nobody releases); the goroutine is abandoned.
func recvOne(sc *uasc.SecureChannel, conn *uacp.Conn, timeout time.Duration) out {
	res := make(chan out, 1)
	conn.SetReadDeadline(time.Now().Add(timeout))
	go func() {
		defer func() {
			if r := recover(); r != nil {
				res <- out{K: "panic", Err: fmt.Sprint(r)}
			}
		}()
		res <- classify(sc.Receive(context.Background()))
	}()
	select {
	case o := <-res:
		return o
	case <-time.After(timeout + time.Second):
		return out{K: "stuck", Err: "Receive did not return"}
	}
}

func noneAlgo() *uapolicy.EncryptionAlgorithm {
	a, err := uapolicy.Symmetric(ua.SecurityPolicyURINone, nil, nil)
	if err != nil {
		panic(err)
	}
	return a
}

func noneCfg() *uasc.Config {
	return &uasc.Config{SecurityPolicyURI: ua.SecurityPolicyURINone, SecurityMode: ua.MessageSecurityModeNone, RequestTimeout: time.Second}
}

func main() {
	seed := flag.Uint64("seed", 1, "PRNG seed")
	n := flag.Int("n", 40, "number of random cases (meaning depends on the subcommand)")
	replay := flag.String("replay", "", "replay file (a JSON case as printed by this program)")
	flag.Parse()
	switch flag.Arg(0) {
	case "c12":
		c12(*seed, *n, *replay)
	case "c09":
		c09(*seed, *n, *replay)
	case "c17":
		c17(*seed, *n, *replay)
	case "c10":
		c10(*seed, *n, *replay)
	case "c13":
		c13(*seed, *n, *replay)
	case "c20":
		c20(*seed, *n, *replay)
	default:
		fmt.Fprintln(os.Stderr, "usage: recvharness [-seed N] [-n N] [-replay file] c12|c09|c10|c13|c17|c20")
		os.Exit(2)
	}
}
