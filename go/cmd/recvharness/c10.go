package main

import (
	"fmt"
	"time"

	"github.com/gopcua/opcua/ua"
	"github.com/gopcua/opcua/uapolicy"
	"github.com/gopcua/opcua/uasc"

	"verifharness/internal/rng"
)

type c10chunk struct {
	Key    int    `json:"key"` // key identity the chunk was secured with (99 = keys the channel never had)
	T      int    `json:"t"`
	Seq    uint32 `json:"seq"`
	Req    uint32 `json:"req"`
	Data   string `json:"data"`
	Copy   bool   `json:"copy"` // inserted by the adversary: verbatim copy of an earlier chunk
	Orig   int    `json:"orig"` // index of the first occurrence
	Result string `json:"result,omitempty"`
}

type c10case struct {
	Name      string     `json:"name"`
	Crypto    string     `json:"crypto"` // toy | policy name
	Mode      int        `json:"mode"`
	Keys      []int      `json:"keys"` // key identities installed on the channel
	History   []c10chunk `json:"history"`
	Originals []string   `json:"originals"`
	Outs      []out      `json:"outs"`
}

func c10run(r *rng.R, name, crypto string, mode ua.MessageSecurityMode) c10case {
	c := c10case{Name: name, Crypto: crypto, Mode: int(mode)}
	uri := ua.SecurityPolicyURIBasic256Sha256
	if crypto != "toy" {
		uri = crypto
	}
	peer, conn := pair(defaultAck(65535, 16, 1<<20))
	defer peer.Close()
	defer conn.Close()
	cfg := &uasc.Config{SecurityPolicyURI: uri, SecurityMode: mode, LocalKey: key(), RequestTimeout: time.Second}
	sc, err := uasc.VerifNewChannel(conn, cfg, true, make(chan error, 256))
	if err != nil {
		panic(err)
	}
	v := uasc.VerifChannel{S: sc}
	nk := r.Range(1, 2)
	senders := map[int]*uasc.VerifInstance{}
	mk := func(k int, install bool) {
		if crypto == "toy" {
			p := toyParams{Block: 16, KC: byte(3 + k), KM: macKey(k), SL: 32, RSL: 32}
			if install {
				v.AddInstance(toyAlgo(p), chanID, tokID+uint32(k), 0, time.Now(), time.Hour)
			}
			senders[k] = uasc.VerifNewInstance(uri, mode, toyAlgo(p), chanID, tokID+uint32(k), 0)
			return
		}
		nl := 32
		n1, n2 := r.Bytes(nl), r.Bytes(nl)
		local, err := uapolicy.Symmetric(uri, n1, n2)
		if err != nil {
			panic(err)
		}
		remote, _ := uapolicy.Symmetric(uri, n2, n1)
		if install {
			v.AddInstance(local, chanID, tokID+uint32(k), 0, time.Now(), time.Hour)
		}
		senders[k] = uasc.VerifNewInstance(uri, mode, remote, chanID, tokID+uint32(k), 0)
	}
	for k := 0; k < nk; k++ {
		mk(k, true)
		c.Keys = append(c.Keys, k)
	}
	mk(99, false)
	// the sender's history
	var wires [][]byte
	seq := uint32(r.Pick(1, 100, 4294966290))
	nmsg := r.Range(1, 6)
	for i := 0; i < nmsg; i++ {
		k := r.Intn(nk)
		if r.Intn(9) == 0 {
			k = 99
		}
		body := svcBody(uint32(i+1), r.Bytes(r.Intn(20)))
		req := uint32(10 + i)
		c.Originals = append(c.Originals, hx(body))
		pieces := [][]byte{body}
		if r.Intn(3) == 0 && len(body) > 4 {
			cut := r.Range(1, len(body)-1)
			pieces = [][]byte{body[:cut], body[cut:]}
		}
		for pi, piece := range pieces {
			t := byte('F')
			if pi < len(pieces)-1 {
				t = 'C'
			}
			seq++
			if seq > 4294966295 {
				seq = 1
			}
			raw := symChunk("MSG", t, chanID, tokID+uint32(k%50), seq, req, piece)
			m := symMessage(seq, req)
			m.Header.ChunkType = t
			m.SymmetricSecurityHeader.TokenID = tokID + uint32(k%50)
			sec, err := senders[k].SignAndEncrypt(m, raw)
			if err != nil {
				panic(err)
			}
			c.History = append(c.History, c10chunk{Key: k, T: int(t), Seq: seq, Req: req, Data: hx(piece), Orig: len(c.History)})
			wires = append(wires, sec)
		}
	}
	// the adversary inserts verbatim copies of earlier chunks at arbitrary later positions
	ncopy := r.Pick(0, 1, 1, 2, 3)
	if seq < 1000 && len(c.History) > 0 && c.History[0].Seq > 4294960000 {
		ncopy = 0 // the numbers rolled over: a copy from before the roll-over is, by the rule, a new number
	}
	ascending := ncopy >= 2 && r.Intn(2) == 0 // copies of two earlier chunks, in ascending order, at the end
	nOrig := len(c.History)
	for j := 0; j < ncopy; j++ {
		src := r.Intn(len(c.History))
		pos := r.Range(src+1, len(c.History))
		if ascending {
			if j >= 2 || nOrig < 2 {
				break
			}
			src, pos = j*(nOrig-1)/1*0+j, len(c.History)
			if j == 1 {
				src = nOrig - 1
			}
		}
		cp := c.History[src]
		cp.Copy = true
		cp.Orig = c.History[src].Orig
		c.History = append(c.History[:pos], append([]c10chunk{cp}, c.History[pos:]...)...)
		wires = append(wires[:pos], append([][]byte{wires[src]}, wires[pos:]...)...)
		for q := pos + 1; q < len(c.History); q++ {
			if !c.History[q].Copy || c.History[q].Orig >= pos {
				if c.History[q].Orig >= pos {
					c.History[q].Orig++
				}
			}
		}
	}
	go func() {
		for _, w := range wires {
			peer.Write(w)
		}
		peer.Write(symChunk("CLO", 'F', chanID, tokID, 0, 0, nil))
	}()
	for i := 0; i < len(wires)+2; i++ {
		o := recvOne(sc, conn, 5*time.Second)
		if o.K == "eof" || o.K == "timeout" {
			break
		}
		c.Outs = append(c.Outs, o)
		if o.K == "panic" {
			break
		}
	}
	return c
}

func c10(seed uint64, n int, replay string) {
	r := rng.New(seed)
	for i := 0; i < n; i++ {
		enc.Encode(c10run(r, fmt.Sprintf("toy%d", i), "toy", ua.MessageSecurityModeSign))
	}
	for i := 0; i < n/4+1; i++ {
		enc.Encode(c10run(r, fmt.Sprintf("b256s-%d", i), ua.SecurityPolicyURIBasic256Sha256, ua.MessageSecurityModeSign))
		enc.Encode(c10run(r, fmt.Sprintf("b256se-%d", i), ua.SecurityPolicyURIBasic256Sha256, ua.MessageSecurityModeSignAndEncrypt))
		enc.Encode(c10run(r, fmt.Sprintf("aes128se-%d", i), ua.SecurityPolicyURIAes128Sha256RsaOaep, ua.MessageSecurityModeSignAndEncrypt))
	}
}
