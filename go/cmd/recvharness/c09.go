package main

import (
	"bytes"
	"crypto/rand"
	"crypto/rsa"
	"crypto/x509"
	"crypto/x509/pkix"
	"encoding/binary"
	"errors"
	"fmt"
	"math/big"
	"sort"
	"time"

	"github.com/gopcua/opcua/ua"
	"github.com/gopcua/opcua/uapolicy"
	"github.com/gopcua/opcua/uasc"

	"verifharness/internal/rng"
)

// ---- toy algorithm: the same functions as Model/RecvCrypto.v (toy_xor, toy_dec, toy_hash, toy_mac, toy_verify) ----

func toyXor(k byte, p []byte) []byte {
	o := make([]byte, len(p))
	for i, x := range p {
		o[i] = x ^ k
	}
	return o
}

func toyMac(k uint32, n int, m []byte) []byte {
	h := k
	for _, x := range m {
		h = h*31 + uint32(x) + 7
	}
	o := make([]byte, n)
	for i := range o {
		o[i] = byte((h >> (8 * (uint(i) % 4))) + uint32(i))
	}
	return o
}

type toyParams struct {
	Block int    `json:"block"`
	KC    byte   `json:"kc"` // cipher key
	KM    uint32 `json:"km"` // mac key
	SL    int    `json:"sl"` // local signature length
	RSL   int    `json:"rsl"`
}

func toyAlgo(p toyParams) *uapolicy.EncryptionAlgorithm {
	return uapolicy.VerifNewAlgorithm(p.Block, p.Block, p.SL, p.RSL, 32, uapolicy.VerifCipher{
		Enc: func(b []byte) ([]byte, error) {
			if len(b)%p.Block != 0 {
				return nil, errors.New("toy: not block aligned")
			}
			return toyXor(p.KC, b), nil
		},
		Dec: func(b []byte) ([]byte, error) {
			if len(b)%p.Block != 0 {
				return nil, errors.New("toy: not block aligned")
			}
			return toyXor(p.KC, b), nil
		},
		Sign: func(b []byte) ([]byte, error) { return toyMac(p.KM, p.SL, b), nil },
		Verify: func(m, s []byte) error {
			if !bytes.Equal(s, toyMac(p.KM, len(s), m)) {
				return errors.New("toy: bad signature")
			}
			return nil
		},
	})
}

type c09case struct {
	Name   string    `json:"name"`
	P      toyParams `json:"p"`
	Mode   int       `json:"mode"` // 1 none 2 sign 3 signenc
	PNone  bool      `json:"pnone"`
	Chunk  string    `json:"chunk"`
	Mut    string    `json:"mut"`
	Same   bool      `json:"same"` // mutation left the chunk unchanged
	K      string    `json:"k"`    // ok secerr decerr panic other
	Data   string    `json:"data,omitempty"`
	Err    string    `json:"err,omitempty"`
	Policy string    `json:"policy,omitempty"`
	Kind   string    `json:"kind,omitempty"`
}

func runVD(inst *uasc.VerifInstance, b []byte) (k, data, es string) {
	defer func() {
		if r := recover(); r != nil {
			k, es = "panic", fmt.Sprint(r)
		}
	}()
	_, d, err := inst.VerifyAndDecrypt(b)
	switch {
	case err == nil:
		return "ok", hx(d), ""
	case err == ua.StatusBadSecurityChecksFailed:
		return "secerr", "", ""
	default:
		return "decerr", "", err.Error()
	}
}

// rawSym / rawOpn build the unsecured chunk the sender hands to signAndEncrypt.
func rawOpn(uri string, cert, thumb []byte, seq, req uint32, body []byte) ([]byte, *uasc.Message) {
	ah := uasc.NewAsymmetricSecurityHeader(uri, cert, thumb)
	ahb, _ := ah.Encode()
	b := make([]byte, 12, 12+len(ahb)+8+len(body))
	copy(b, "OPNF")
	binary.LittleEndian.PutUint32(b[8:], chanID)
	b = append(b, ahb...)
	var sh [8]byte
	binary.LittleEndian.PutUint32(sh[0:], seq)
	binary.LittleEndian.PutUint32(sh[4:], req)
	b = append(b, sh[:]...)
	b = append(b, body...)
	binary.LittleEndian.PutUint32(b[4:], uint32(len(b)))
	m := &uasc.Message{MessageHeader: &uasc.MessageHeader{
		Header:                   uasc.NewHeader(uasc.MessageTypeOpenSecureChannel, uasc.ChunkTypeFinal, chanID),
		AsymmetricSecurityHeader: ah,
		SequenceHeader:           uasc.NewSequenceHeader(seq, req),
	}}
	return b, m
}

func symMessage(seq, req uint32) *uasc.Message {
	return &uasc.Message{MessageHeader: &uasc.MessageHeader{
		Header:                  uasc.NewHeader(uasc.MessageTypeMessage, uasc.ChunkTypeFinal, chanID),
		SymmetricSecurityHeader: uasc.NewSymmetricSecurityHeader(tokID),
		SequenceHeader:          uasc.NewSequenceHeader(seq, req),
	}}
}

type mutation struct {
	name string
	b    []byte
}

func mutations(r *rng.R, c []byte, every bool) []mutation {
	var ms []mutation
	cp := func() []byte { return append([]byte(nil), c...) }
	ms = append(ms, mutation{"none", cp()})
	for i := 0; i < 10; i++ {
		b := cp()
		p := r.Intn(len(b))
		b[p] ^= byte(1 << uint(r.Intn(8)))
		ms = append(ms, mutation{fmt.Sprintf("flip@%d", p), b})
	}
	for _, p := range []int{3, 4, 8, 12, 16, 20, 24, len(c) - 1, len(c) - 33} {
		if p >= 0 && p < len(c) {
			b := cp()
			b[p] ^= 0xff
			ms = append(ms, mutation{fmt.Sprintf("inv@%d", p), b})
		}
	}
	for i := 0; i < 3; i++ {
		b := cp()
		p := r.Intn(len(b))
		n := r.Range(2, 9)
		for j := p; j < p+n && j < len(b); j++ {
			b[j] = byte(r.U64())
		}
		ms = append(ms, mutation{fmt.Sprintf("multi@%d+%d", p, n), b})
	}
	if every {
		for l := 0; l < len(c); l++ {
			ms = append(ms, mutation{fmt.Sprintf("trunc%d", l), cp()[:l]})
		}
	} else {
		for _, l := range []int{0, 7, 8, 11, 12, 15, 16, 20, 23, 24, 31, 32, 40, 47, 48, len(c) - 33, len(c) - 32, len(c) - 16, len(c) - 1} {
			if l >= 0 && l < len(c) {
				ms = append(ms, mutation{fmt.Sprintf("trunc%d", l), cp()[:l]})
			}
		}
	}
	for _, n := range []int{1, 15, 16, 32} {
		ms = append(ms, mutation{fmt.Sprintf("append%d", n), append(cp(), r.Bytes(n)...)})
	}
	return ms
}

func fixSize(b []byte) []byte {
	if len(b) >= 8 {
		binary.LittleEndian.PutUint32(b[4:], uint32(len(b)))
	}
	return b
}

func c09toy(r *rng.R, n int) {
	type cfg struct {
		mode  ua.MessageSecurityMode
		pnone bool
		opn   bool
		sl    int
	}
	var cfgs []cfg
	for _, sl := range []int{32, 20, 300} {
		cfgs = append(cfgs,
			cfg{ua.MessageSecurityModeSign, false, false, sl}, cfg{ua.MessageSecurityModeSignAndEncrypt, false, false, sl},
			cfg{ua.MessageSecurityModeSign, false, true, sl}, cfg{ua.MessageSecurityModeSignAndEncrypt, false, true, sl},
			cfg{ua.MessageSecurityModeNone, false, true, sl})
	}
	cfgs = append(cfgs, cfg{ua.MessageSecurityModeNone, true, false, 0}, cfg{ua.MessageSecurityModeNone, true, true, 0},
		cfg{ua.MessageSecurityModeNone, false, false, 32})
	for ci, cf := range cfgs {
		for rep := 0; rep < n; rep++ {
			p := toyParams{Block: 16, KC: byte(r.Range(1, 255)), KM: uint32(r.U64()), SL: cf.sl, RSL: cf.sl}
			uri := ua.SecurityPolicyURIBasic256Sha256
			if cf.pnone {
				uri = ua.SecurityPolicyURINone
			}
			recv := uasc.VerifNewInstance(uri, cf.mode, toyAlgo(p), chanID, tokID, 0)
			send := uasc.VerifNewInstance(uri, cf.mode, toyAlgo(p), chanID, tokID, 0)
			body := r.Bytes(r.Pick(0, 1, 7, 8, 9, 16, 31, 40))
			var raw []byte
			var m *uasc.Message
			if cf.opn {
				raw, m = rawOpn(uri, r.Bytes(r.Pick(0, 5, 20)), r.Bytes(r.Pick(0, 20)), 5, 6, body)
			} else {
				raw, m = symChunk("MSG", 'F', chanID, tokID, 5, 6, body), symMessage(5, 6)
			}
			sec, err := send.SignAndEncrypt(m, append([]byte(nil), raw...))
			if err != nil {
				panic(err)
			}
			base := c09case{Name: fmt.Sprintf("toy%d", ci), P: p, Mode: int(cf.mode), PNone: cf.pnone}
			muts := mutations(r, sec, rep == 0)
			// wrong keys
			p2 := p
			p2.KM ^= 0x5a5a
			other := uasc.VerifNewInstance(uri, cf.mode, toyAlgo(p2), chanID, tokID, 0)
			if wk, err := other.SignAndEncrypt(m, append([]byte(nil), raw...)); err == nil {
				muts = append(muts, mutation{"wrong-mac-key", wk})
			}
			p3 := p
			p3.KC ^= 0x33
			other = uasc.VerifNewInstance(uri, cf.mode, toyAlgo(p3), chanID, tokID, 0)
			if wk, err := other.SignAndEncrypt(m, append([]byte(nil), raw...)); err == nil {
				muts = append(muts, mutation{"wrong-cipher-key", wk})
			}
			// forged without keys: plain chunk, plain chunk + zero signature, random bytes
			muts = append(muts, mutation{"unsecured", raw}, mutation{"zero-sig", append(append([]byte(nil), raw...), make([]byte, cf.sl)...)},
				mutation{"garbage", append([]byte("MSGF"), r.Bytes(r.Range(0, 60))...)})
			for _, mu := range muts {
				c := base
				c.Chunk, c.Mut, c.Same = hx(mu.b), mu.name, bytes.Equal(mu.b, sec)
				c.K, c.Data, c.Err = runVD(recv, mu.b)
				enc.Encode(c)
			}
		}
	}
}

var testKey *rsa.PrivateKey

func key() *rsa.PrivateKey {
	if testKey == nil {
		k, err := rsa.GenerateKey(rand.Reader, 2048)
		if err != nil {
			panic(err)
		}
		testKey = k
	}
	return testKey
}

// c09real: real symmetric policies on real client/server channels over TCP; every mutated frame must be rejected.
func c09real(r *rng.R, n int) {
	uris := uapolicy.SupportedPolicies()
	sort.Strings(uris)
	for _, uri := range uris {
		if uri == ua.SecurityPolicyURINone {
			continue
		}
		for _, mode := range []ua.MessageSecurityMode{ua.MessageSecurityModeSign, ua.MessageSecurityModeSignAndEncrypt} {
			for _, kind := range []string{"client", "server"} {
				nl := 32
				if a, err := uapolicy.Asymmetric(uri, nil, nil); err == nil && a.NonceLength() > 0 {
					nl = a.NonceLength()
				}
				n1, n2 := r.Bytes(nl), r.Bytes(nl)
				local, err := uapolicy.Symmetric(uri, n1, n2)
				if err != nil {
					panic(err)
				}
				remote, _ := uapolicy.Symmetric(uri, n2, n1)
				wrong, _ := uapolicy.Symmetric(uri, r.Bytes(nl), r.Bytes(nl))
				peer, conn := pair(defaultAck(65535, 16, 1<<20))
				cfg := &uasc.Config{SecurityPolicyURI: uri, SecurityMode: mode, LocalKey: key(), RequestTimeout: time.Second}
				sc, err := uasc.VerifNewChannel(conn, cfg, kind == "server", make(chan error, 64))
				if err != nil {
					panic(err)
				}
				uasc.VerifChannel{S: sc}.AddInstance(local, chanID, tokID, 0, time.Now(), time.Hour)
				send := uasc.VerifNewInstance(uri, mode, remote, chanID, tokID, 0)
				bad := uasc.VerifNewInstance(uri, mode, wrong, chanID, tokID, 0)
				body := svcBody(11, r.Bytes(r.Range(0, 40)))
				raw := symChunk("MSG", 'F', chanID, tokID, 5, 6, body)
				sec, err := send.SignAndEncrypt(symMessage(5, 6), append([]byte(nil), raw...))
				if err != nil {
					panic(err)
				}
				muts := mutations(r, sec, false)
				if wk, err := bad.SignAndEncrypt(symMessage(5, 6), append([]byte(nil), raw...)); err == nil {
					muts = append(muts, mutation{"wrong-keys", wk})
				}
				muts = append(muts, mutation{"unsecured", raw}, mutation{"replay", append([]byte(nil), sec...)})
				sentOwn := false
				for _, mu := range muts {
					if len(mu.b) < 8 {
						continue // not a UACP frame; the connection layer's business (C05)
					}
					b := fixSize(append([]byte(nil), mu.b...))
					// the peer's chunk counts as its own only the first time it arrives: afterwards it is a replay
					same := bytes.Equal(b, sec) && !sentOwn
					if same {
						sentOwn = true
					}
					c := c09case{Name: "real", Policy: shortName(uri), Kind: kind, Mode: int(mode), Chunk: hx(b), Mut: mu.name, Same: same}
					peer.Write(b)
					o := recvOne(sc, conn, 3*time.Second)
					c.K, c.Data, c.Err = o.K, o.Body, o.Err
					enc.Encode(c)
					if o.K == "timeout" || o.K == "eof" {
						break
					}
				}
				peer.Close()
				conn.Close()
			}
		}
	}
}

func shortName(uri string) string {
	for i := len(uri) - 1; i >= 0; i-- {
		if uri[i] == '#' {
			return uri[i+1:]
		}
	}
	return uri
}

// c09chan: forged chunks on secured client and server channels through readChunk (which overwrites the policy URI from
// the unauthenticated OPN header before anything is verified).
func c09chan(r *rng.R, n int) {
	i := 0
	for _, kind := range []string{"client", "server"} {
		for _, mode := range []int{2, 3} {
			for _, opening := range []int{1, 2} {
				for rep := 0; rep < n; rep++ {
					p := toyParams{Block: 16, KC: byte(r.Range(1, 255)), KM: uint32(r.U64()), SL: 32, RSL: 32}
					op := toyParams{Block: 16, KC: byte(r.Range(1, 255)), KM: uint32(r.U64()), SL: 32, RSL: 32}
					c := c13case{Name: fmt.Sprintf("chan%d", i), Kind: kind, Mode: mode, Opening: opening, OpenP: op, Insts: []toyParams{p}, Cap: 65535, Cert: hx(cert()), ECCert: hx(ecCert())}
					i++
					body := svcBody(3, r.Bytes(r.Intn(12)))
					uri := ua.SecurityPolicyURIBasic256Sha256
					send := uasc.VerifNewInstance(uri, ua.MessageSecurityMode(mode), toyAlgo(p), chanID, tokID, 0)
					own := func(seq uint32) namedFrame {
						raw := symChunk("MSG", 'F', chanID, tokID, seq, 6, body)
						b, err := send.SignAndEncrypt(symMessage(seq, 6), raw)
						if err != nil {
							panic(err)
						}
						return namedFrame{b, true, "own MSG"}
					}
					plainMsg := namedFrame{symChunk("MSG", 'F', chanID, tokID, 9, 6, body), false, "plaintext MSG"}
					opnNone, _ := rawOpn(ua.SecurityPolicyURINone, nil, nil, 1, uint32(r.Intn(3)), body)
					opnNoneCert, _ := rawOpn(ua.SecurityPolicyURINone, cert(), r.Bytes(20), 1, 1, body)
					opnReal, _ := rawOpn(uri, cert(), r.Bytes(20), 1, 1, body)
					opnGarbage, _ := rawOpn("http://x/unknown", r.Bytes(9), nil, 1, 1, body)
					opnEC, _ := rawOpn(uri, ecCert(), r.Bytes(20), 1, 1, body)
					opnEmpty, _ := rawOpn("", nil, nil, 1, 1, body)
					forged := []namedFrame{
						{opnNone, false, "forged plaintext OPN, policy None"},
						{opnNoneCert, false, "forged plaintext OPN, policy None, with certificate"},
						{opnReal, false, "forged plaintext OPN, real policy and certificate"},
						{opnGarbage, false, "forged OPN, unknown policy"},
						{opnEC, false, "forged OPN, certificate with a non-RSA key"},
						{opnEmpty, false, "forged OPN, empty policy"},
						plainMsg,
						{symChunk("MSG", 'F', 8, tokID, 9, 6, body), false, "plaintext MSG, other channel id"},
					}
					seq := []namedFrame{own(1), plainMsg}
					for k := 0; k < 5; k++ {
						seq = append(seq, forged[r.Intn(len(forged))], plainMsg, own(uint32(10+k)))
					}
					for k := range seq {
						fixSize(seq[k].b)
					}
					runC13frames(r, &c, 0, seq)
					enc.Encode(c)
				}
			}
		}
	}
}

func c09(seed uint64, n int, replay string) {
	r := rng.New(seed)
	c09toy(r, n)
	c09real(r, n)
	c09chan(r, 2*n)
	c09open(r, n)
}

// ---- c09open: an OpenSecureChannel exchange that fails at key derivation must publish nothing ----

var atkKey *rsa.PrivateKey
var atkCert []byte

// attacker: a throw-away RSA key and certificate
func attacker() (*rsa.PrivateKey, []byte) {
	if atkKey == nil {
		k, err := rsa.GenerateKey(rand.Reader, 2048)
		if err != nil {
			panic(err)
		}
		tpl := &x509.Certificate{SerialNumber: big.NewInt(7), Subject: pkix.Name{CommonName: "throw-away"},
			NotBefore: time.Now().Add(-time.Hour), NotAfter: time.Now().Add(time.Hour), KeyUsage: x509.KeyUsageDigitalSignature | x509.KeyUsageKeyEncipherment}
		d, err := x509.CreateCertificate(rand.Reader, tpl, tpl, &k.PublicKey, k)
		if err != nil {
			panic(err)
		}
		atkKey, atkCert = k, d
	}
	return atkKey, atkCert
}

type c09openObs struct {
	Name       string `json:"name"`
	Policy     string `json:"policy"`
	Mode       int    `json:"mode"`
	NonceLen   int    `json:"nonce_len"` // -1 null
	Open       string `json:"open"`      // what Receive returned for the OPN request
	OpenErr    string `json:"open_err,omitempty"`
	Instances  int    `json:"instances"` // instances in the table afterwards
	Active     bool   `json:"active"`    // an active instance exists afterwards
	Forged     string `json:"forged"`    // what Receive returned for a MSG chunk signed with the throw-away key
	ForgedErr  string `json:"forged_err,omitempty"`
	ForgedData string `json:"forged_chunk"`
}

func c09open(r *rng.R, n int) {
	ak, ac := attacker()
	for _, uri := range []string{ua.SecurityPolicyURIBasic256Sha256, ua.SecurityPolicyURIAes128Sha256RsaOaep} {
		for _, mode := range []ua.MessageSecurityMode{ua.MessageSecurityModeSign} {
			for _, nl := range []int{-1, 0, 1, 32} {
				peer, conn := pair(defaultAck(65535, 16, 1<<20))
				go func() { // swallow what the server writes
					buf := make([]byte, 65536)
					for {
						if _, err := peer.Read(buf); err != nil {
							return
						}
					}
				}()
				cfg := &uasc.Config{SecurityPolicyURI: ua.SecurityPolicyURINone, SecurityMode: ua.MessageSecurityModeNone, Certificate: cert(), LocalKey: key(), Lifetime: 3600000, RequestTimeout: time.Second}
				sc, err := uasc.NewServerSecureChannel("", conn, cfg, make(chan error, 16), chanID, 1, tokID)
				if err != nil {
					panic(err)
				}
				v := uasc.VerifChannel{S: sc}
				// the attacker's side of the OPN exchange: signs with its own key, encrypts to the server's certificate
				aalgo, err := uapolicy.Asymmetric(uri, ak, &key().PublicKey)
				if err != nil {
					panic(err)
				}
				var nonce []byte
				if nl >= 0 {
					nonce = r.Bytes(nl)
					if nl == 0 {
						nonce = []byte{}
					}
				}
				req := &ua.OpenSecureChannelRequest{RequestHeader: &ua.RequestHeader{AuthenticationToken: ua.NewTwoByteNodeID(0), RequestHandle: 1, AdditionalHeader: ua.NewExtensionObject(nil)},
					RequestType: ua.SecurityTokenRequestTypeIssue, SecurityMode: mode, ClientNonce: nonce, RequestedLifetime: 3600000}
				raw, m := rawOpn(uri, ac, uapolicy.Thumbprint(cert()), 1, 1, reencode(req))
				sender := uasc.VerifNewInstance(uri, mode, aalgo, chanID, tokID, 0)
				opn, err := sender.SignAndEncrypt(m, raw)
				if err != nil {
					panic(err)
				}
				o := c09openObs{Name: "open", Policy: shortName(uri), Mode: int(mode), NonceLen: nl}
				peer.Write(opn)
				x := recvOne(sc, conn, 3*time.Second)
				o.Open, o.OpenErr = x.K, x.Err
				for _, l := range v.Instances() {
					o.Instances += len(l)
				}
				_, _, _, o.Active = v.ActiveToken()
				// a MSG chunk signed with the throw-away key (the asymmetric algorithm of the OPN exchange)
				fraw := symChunk("MSG", 'F', chanID, tokID, 50, 6, svcBody(3, []byte("forged")))
				forged, err := sender.SignAndEncrypt(symMessage(50, 6), fraw)
				if err != nil {
					panic(err)
				}
				o.ForgedData = hx(forged)
				peer.Write(forged)
				y := recvOne(sc, conn, 3*time.Second)
				o.Forged, o.ForgedErr = y.K, y.Err
				enc.Encode(o)
				peer.Close()
				conn.Close()
			}
		}
	}
}
