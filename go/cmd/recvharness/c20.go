package main

import (
	"bytes"
	"context"
	"fmt"
	"io"
	"log"
	"net"
	"time"
	"unsafe"

	"github.com/gopcua/opcua"
	"github.com/gopcua/opcua/server"

	"github.com/gopcua/opcua/ua"
	"github.com/gopcua/opcua/uasc"

	"verifharness/internal/rng"
)

type c20frame struct {
	B       string `json:"b"`
	Secured bool   `json:"secured"`
	HL      int    `json:"hl"`
	Plain   string `json:"plain"`
	Strip   int    `json:"strip"`
	T       int    `json:"t"`
	Req     uint32 `json:"req"`
}

type c20msg struct {
	Req        uint32 `json:"req"`
	Chunks     int    `json:"chunks"`
	Sent       string `json:"sent"`
	AtDelivery string `json:"at_delivery"`
	After      string `json:"after"`
	Payload    string `json:"payload_after"`
	PayloadOK  bool   `json:"payload_ok"`
	ptr        uintptr
	n          int
	body       interface{}
	want       []byte
}

type c20case struct {
	Name     string     `json:"name"`
	Mode     int        `json:"mode"`
	Cap      int        `json:"cap"`
	Frames   []c20frame `json:"frames"`
	Msgs     []c20msg   `json:"msgs"`
	Overlap  bool       `json:"overlap"`  // payload windows of two delivered messages share memory
	Distinct bool       `json:"distinct"` // successive uacp Receive buffers are distinct objects
}

func writeReq(handle uint32, payload []byte) (interface{}, []byte) {
	req := &ua.WriteRequest{RequestHeader: &ua.RequestHeader{AuthenticationToken: ua.NewTwoByteNodeID(0), RequestHandle: handle, AdditionalHeader: ua.NewExtensionObject(nil)},
		NodesToWrite: []*ua.WriteValue{{NodeID: ua.NewNumericNodeID(1, 5), AttributeID: ua.AttributeIDValue,
			Value: &ua.DataValue{EncodingMask: ua.DataValueValue, Value: ua.MustVariant(payload)}}}}
	return req, reencode(req)
}

func payloadOf(body interface{}) []byte {
	if w, ok := body.(*ua.WriteRequest); ok && len(w.NodesToWrite) == 1 && w.NodesToWrite[0].Value != nil && w.NodesToWrite[0].Value.Value != nil {
		if b, ok := w.NodesToWrite[0].Value.Value.Value().([]byte); ok {
			return b
		}
	}
	return nil
}

func c20run(r *rng.R, name string, mode ua.MessageSecurityMode, nmsg int) c20case {
	c := c20case{Name: name, Mode: int(mode), Cap: r.Pick(8192, 65535)}
	type ch struct {
		sc    *uasc.SecureChannel
		send  *uasc.VerifInstance
		seq   uint32
		peerW func([]byte)
		rcv   func() *uasc.MessageBody
	}
	mk := func() *ch {
		peer, conn := pair(defaultAck(uint32(c.Cap), 16, 1<<20))
		uri := ua.SecurityPolicyURINone
		cfg := noneCfg()
		p := toyParams{Block: 16, KC: 9, KM: 4242, SL: 32, RSL: 32}
		if mode != ua.MessageSecurityModeNone {
			uri = ua.SecurityPolicyURIBasic256Sha256
			cfg = &uasc.Config{SecurityPolicyURI: uri, SecurityMode: mode, LocalKey: key(), RequestTimeout: time.Second}
		}
		sc, err := uasc.VerifNewChannel(conn, cfg, true, make(chan error, 64))
		if err != nil {
			panic(err)
		}
		v := uasc.VerifChannel{S: sc}
		x := &ch{sc: sc, seq: 1}
		if mode == ua.MessageSecurityModeNone {
			v.AddInstance(noneAlgo(), chanID, tokID, 0, time.Now(), time.Hour)
		} else {
			v.AddInstance(toyAlgo(p), chanID, tokID, 0, time.Now(), time.Hour)
			x.send = uasc.VerifNewInstance(uri, mode, toyAlgo(p), chanID, tokID, 0)
		}
		x.peerW = func(b []byte) { peer.Write(b) }
		x.rcv = func() *uasc.MessageBody {
			conn.SetReadDeadline(time.Now().Add(5 * time.Second))
			return sc.Receive(ctxBG)
		}
		return x
	}
	main, other := mk(), mk()
	sendMsg := func(x *ch, req uint32, body []byte, record bool) int {
		pieces := [][]byte{body}
		switch r.Intn(3) {
		case 1:
			k := r.Range(1, len(body)-1)
			pieces = [][]byte{body[:k], body[k:]}
		case 2:
			k1 := r.Range(1, len(body)-2)
			k2 := r.Range(k1+1, len(body)-1)
			pieces = [][]byte{body[:k1], body[k1:k2], body[k2:]}
		}
		for i, pc := range pieces {
			t := byte('C')
			if i == len(pieces)-1 {
				t = 'F'
			}
			x.seq++
			raw := symChunk("MSG", t, chanID, tokID, x.seq, req, pc)
			wire := raw
			f := c20frame{T: int(t), Req: req, HL: 16}
			if x.send != nil {
				m := symMessage(x.seq, req)
				m.Header.ChunkType = t
				var err error
				wire, err = x.send.SignAndEncrypt(m, append([]byte(nil), raw...))
				if err != nil {
					panic(err)
				}
				f.Secured = true
				if mode == ua.MessageSecurityModeSignAndEncrypt {
					pl := toyXor(9, wire[16:])
					f.Plain = hx(pl)
					f.Strip = 32 + int(pl[len(pl)-33]) + 1
				} else {
					f.Plain = hx(wire[16:])
					f.Strip = 32
				}
			}
			f.B = hx(wire)
			if record {
				c.Frames = append(c.Frames, f)
			}
			x.peerW(wire)
		}
		return len(pieces)
	}
	for i := 0; i < nmsg; i++ {
		payload := r.Bytes(r.Pick(1, 8, 40, 200, 1000, 3000))
		body, encd := writeReq(uint32(i+1), payload)
		_ = body
		req := uint32(100 + i)
		nch := sendMsg(main, req, encd, true)
		m := main.rcv()
		msg := c20msg{Req: req, Chunks: nch, Sent: hx(encd), want: payload}
		if m.Err == nil && m.VerifBody() != nil {
			msg.body = m.VerifBody()
			msg.AtDelivery = hx(reencode(msg.body))
			if p := payloadOf(msg.body); len(p) > 0 {
				msg.ptr, msg.n = uintptr(unsafe.Pointer(unsafe.SliceData(p))), len(p)
			}
		} else if m.Err != nil {
			msg.AtDelivery = "error: " + m.Err.Error()
		}
		c.Msgs = append(c.Msgs, msg)
		if r.Intn(2) == 0 { // traffic on another channel in between
			_, e2 := writeReq(77, r.Bytes(r.Pick(10, 500, 3000)))
			sendMsg(other, 5, e2, false)
			other.rcv()
		}
	}
	// after all later traffic: read every delivered message again
	for i := range c.Msgs {
		m := &c.Msgs[i]
		if m.body != nil {
			m.After = hx(reencode(m.body))
			p := payloadOf(m.body)
			m.Payload = hx(p)
			if len(p) > 64 {
				m.Payload = hx(p[:64]) + "..."
			}
			m.PayloadOK = bytes.Equal(p, m.want)
		}
		for j := 0; j < i; j++ {
			o := &c.Msgs[j]
			if m.n > 0 && o.n > 0 && m.ptr < o.ptr+uintptr(o.n) && o.ptr < m.ptr+uintptr(m.n) {
				c.Overlap = true
			}
		}
	}
	// identity of successive receive buffers (all still referenced)
	v := uasc.VerifChannel{S: main.sc}
	var bufs [][]byte
	for i := 0; i < 3; i++ {
		main.peerW(symChunk("MSG", 'F', chanID, tokID, 1, 1, []byte{byte(i)}))
		b, err := v.Conn().Receive()
		if err != nil {
			panic(err)
		}
		bufs = append(bufs, b)
	}
	c.Distinct = &bufs[0][0] != &bufs[1][0] && &bufs[1][0] != &bufs[2][0] && &bufs[0][0] != &bufs[2][0] && bufs[0][24] == 0 && bufs[1][24] == 1 && bufs[2][24] == 2
	return c
}

func c20(seed uint64, n int, replay string) {
	r := rng.New(seed)
	for i := 0; i < n; i++ {
		for _, mode := range []ua.MessageSecurityMode{ua.MessageSecurityModeNone, ua.MessageSecurityModeSign, ua.MessageSecurityModeSignAndEncrypt} {
			enc.Encode(c20run(r, fmt.Sprintf("h%d-m%d", i, mode), mode, r.Range(2, 6)))
		}
	}
	c20server(r, 6*n)
}

// c20srv: the real server loop. A client writes a ByteString (single-chunk request, mode None) which the server keeps as
// the node's value; after more traffic on the same and on another connection the value is read back.
type c20srvObs struct {
	Name  string `json:"name"`
	Round int    `json:"round"`
	Len   int    `json:"len"`
	Sent  string `json:"sent"`
	Read  string `json:"read"`
	Err   string `json:"err,omitempty"`
	OK    bool   `json:"ok"`
	Other int    `json:"other_requests"`
}

func c20server(r *rng.R, n int) {
	log.SetOutput(io.Discard)
	l, err := net.Listen("tcp", "127.0.0.1:0")
	if err != nil {
		panic(err)
	}
	port := l.Addr().(*net.TCPAddr).Port
	l.Close()
	s := server.New(server.EnableSecurity("None", ua.MessageSecurityModeNone), server.EnableAuthMode(ua.UserTokenTypeAnonymous), server.EndPoint("localhost", port))
	ns := server.NewMapNamespace(s, "verifmap")
	for k := 0; k < 4; k++ {
		ns.Data[fmt.Sprintf("bs%d", k)] = []byte{byte(k)}
	}
	ctx := context.Background()
	if err := s.Start(ctx); err != nil {
		panic(err)
	}
	defer s.Close()
	url := fmt.Sprintf("opc.tcp://localhost:%d", port)
	dial := func() *opcua.Client {
		c, err := opcua.NewClient(url, opcua.SecurityMode(ua.MessageSecurityModeNone))
		if err != nil {
			panic(err)
		}
		cctx, cancel := context.WithTimeout(ctx, 10*time.Second)
		defer cancel()
		if err := c.Connect(cctx); err != nil {
			panic(err)
		}
		return c
	}
	c1, c2 := dial(), dial()
	defer c1.Close(ctx)
	defer c2.Close(ctx)
	write := func(c *opcua.Client, key string, payload []byte) error {
		resp, err := c.Write(ctx, &ua.WriteRequest{NodesToWrite: []*ua.WriteValue{{NodeID: ua.NewStringNodeID(ns.ID(), key), AttributeID: ua.AttributeIDValue,
			Value: &ua.DataValue{EncodingMask: ua.DataValueValue, Value: ua.MustVariant(payload)}}}})
		if err != nil {
			return err
		}
		if len(resp.Results) != 1 || resp.Results[0] != ua.StatusOK {
			return fmt.Errorf("write status %v", resp.Results)
		}
		return nil
	}
	read := func(c *opcua.Client, key string) ([]byte, error) {
		resp, err := c.Read(ctx, &ua.ReadRequest{NodesToRead: []*ua.ReadValueID{{NodeID: ua.NewStringNodeID(ns.ID(), key), AttributeID: ua.AttributeIDValue}}, TimestampsToReturn: ua.TimestampsToReturnNeither})
		if err != nil {
			return nil, err
		}
		if len(resp.Results) != 1 || resp.Results[0].Value == nil {
			return nil, fmt.Errorf("read: no value (%v)", resp.Results)
		}
		b, _ := resp.Results[0].Value.Value().([]byte)
		return b, nil
	}
	for i := 0; i < n; i++ {
		payload := r.Bytes(r.Pick(1, 16, 100, 1000, 4000))
		o := c20srvObs{Name: "server", Round: i, Len: len(payload), Sent: hx(payload)}
		if len(o.Sent) > 80 {
			o.Sent = o.Sent[:80] + "..."
		}
		if err := write(c1, "bs0", payload); err != nil {
			o.Err = err.Error()
			enc.Encode(o)
			continue
		}
		// later traffic on the same and on another connection
		for k := 0; k < r.Range(2, 6); k++ {
			switch r.Intn(3) {
			case 0:
				write(c2, "bs1", r.Bytes(len(payload)))
			case 1:
				write(c1, "bs2", r.Bytes(r.Pick(1, 50, len(payload))))
			default:
				read(c2, "bs3")
			}
			o.Other++
		}
		got, err := read(c1, "bs0")
		if err != nil {
			o.Err = err.Error()
		}
		o.Read = hx(got)
		if len(o.Read) > 80 {
			o.Read = o.Read[:80] + "..."
		}
		o.OK = err == nil && bytes.Equal(got, payload)
		enc.Encode(o)
	}
}
