package main

import (
	"encoding/hex"
	"encoding/json"
	"os"
	"sort"
	"time"

	"github.com/gopcua/opcua/uasc"

	"verifharness/internal/rng"
)

// wchunk is one chunk on the wire: type byte, sequence number, request id, data (hex).
type wchunk struct {
	T    int    `json:"t"`
	Seq  uint32 `json:"seq"`
	Req  uint32 `json:"req"`
	Data string `json:"data"`
}

type c12case struct {
	Name      string   `json:"name"`
	Kind      string   `json:"kind"` // client | server channel
	MC        uint32   `json:"mc"`
	MS        uint32   `json:"ms"`
	Chunks    []wchunk `json:"chunks"`
	Conform   bool     `json:"conform"`   // produced by the reference sender within the limits
	Originals []string `json:"originals"` // well-formed service bodies used in this case
	Expect    []out    `json:"expect,omitempty"`
	Outs      []out    `json:"outs"`
	Table     [][2]int `json:"table"`
}

const chanID, tokID = 7, 9

func nonNeg(n int) int {
	if n < 0 {
		return 0
	}
	return n
}

// runStream feeds the chunks to a real channel over TCP and collects what Receive returns.
func runStream(kind string, mc, ms uint32, chunks []wchunk) ([]out, [][2]int) {
	peer, conn := pair(defaultAck(65535, mc, ms))
	defer peer.Close()
	defer conn.Close()
	sc, err := uasc.VerifNewChannel(conn, noneCfg(), kind == "server", make(chan error, 16))
	if err != nil {
		panic(err)
	}
	v := uasc.VerifChannel{S: sc}
	v.AddInstance(noneAlgo(), chanID, tokID, 0, time.Now(), time.Hour)
	go func() {
		for _, c := range chunks {
			d, _ := hex.DecodeString(c.Data)
			peer.Write(symChunk("MSG", byte(c.T), chanID, tokID, c.Seq, c.Req, d))
		}
		peer.Write(symChunk("CLO", 'F', chanID, tokID, 0, 0, nil))
	}()
	var outs []out
	for i := 0; i < len(chunks)+2; i++ {
		o := recvOne(sc, conn, 3*time.Second)
		if o.K == "eof" {
			break
		}
		outs = append(outs, o)
		if o.K == "panic" || o.K == "chanerr" || o.K == "timeout" || o.K == "stuck" {
			break
		}
	}
	var tab [][2]int
	for k, n := range v.ChunkCounts() {
		tab = append(tab, [2]int{int(k), n})
	}
	sort.Slice(tab, func(i, j int) bool { return tab[i][0] < tab[j][0] })
	return outs, tab
}

// nextSeq follows the numbering rule of Part 6: +1, rolling over somewhere in [2^32-1025, 2^32-1] to a value < 1024.
func nextSeq(r *rng.R, s uint32) uint32 {
	if s >= 4294966271 && (s == 4294967295 || r.Intn(3) == 0) {
		switch r.Intn(3) {
		case 0:
			return 0
		case 1:
			return 1
		default:
			return uint32(r.Intn(1024))
		}
	}
	return s + 1
}

func startSeq(r *rng.R) uint32 {
	switch r.Intn(5) {
	case 0:
		return 0
	case 1:
		return uint32(4294966271 - r.Intn(6))
	case 2:
		return uint32(4294967295 - r.Intn(4))
	case 3:
		return uint32(r.Intn(1024))
	default:
		return uint32(r.U64())
	}
}

// genConforming: up to three messages in flight, interleaved, arbitrary piece sizes, aborts, any start number.
func genConforming(r *rng.R, name string) c12case {
	c := c12case{Name: name, Kind: []string{"client", "server"}[r.Intn(2)], Conform: true}
	c.MC = uint32(r.Range(1, 6))
	c.MS = uint32(r.Range(60, 400))
	type pend struct {
		req    uint32
		rest   []byte
		sent   int
		abort  bool
		pieces int
		body   []byte
	}
	nmsg := r.Range(1, 5)
	var todo []*pend
	for i := 0; i < nmsg; i++ {
		// svcBody adds 34 bytes: payloads that put the body exactly at, or a few bytes below, MaxMessageSize
		pl := r.Bytes(r.Pick(0, 1, 5, 17, 40, r.Intn(int(c.MS)-40), int(c.MS)-34, int(c.MS)-35, nonNeg(int(c.MS)-34-r.Intn(30))))
		body := svcBody(uint32(100+i), pl)
		if len(body) > int(c.MS) {
			body = svcBody(uint32(100+i), pl[:0])
		}
		c.Originals = append(c.Originals, hx(body))
		todo = append(todo, &pend{req: uint32(r.Pick(1, 2, 3, 1000, 4294967295)) + uint32(i)*7, rest: body, body: body,
			abort: r.Intn(6) == 0, pieces: r.Intn(int(c.MC) + 1)})
	}
	seq := startSeq(r)
	first := true
	var live []*pend
	maxLive := r.Range(1, 3)
	for len(todo) > 0 || len(live) > 0 {
		for len(live) < maxLive && len(todo) > 0 {
			live = append(live, todo[0])
			todo = todo[1:]
		}
		i := r.Intn(len(live))
		p := live[i]
		if !first {
			seq = nextSeq(r, seq)
		}
		first = false
		if p.sent < p.pieces {
			k := 0
			if len(p.rest) > 0 {
				k = r.Pick(0, 1, r.Intn(len(p.rest)+1), r.Intn(len(p.rest)+1))
			}
			c.Chunks = append(c.Chunks, wchunk{'C', seq, p.req, hx(p.rest[:k])})
			p.rest = p.rest[k:]
			p.sent++
			continue
		}
		if p.abort {
			code := uint32(r.Pick(0x80010000, 0x800A0000, 1, 0))
			ab, _ := (&uasc.MessageAbort{ErrorCode: code, Reason: string(r.Bytes(r.Intn(5)))}).Encode()
			c.Chunks = append(c.Chunks, wchunk{'A', seq, p.req, hx(ab)})
			c.Expect = append(c.Expect, out{K: "status", Req: p.req, N: uint64(code)})
		} else {
			c.Chunks = append(c.Chunks, wchunk{'F', seq, p.req, hx(p.rest)})
			c.Expect = append(c.Expect, out{K: "deliver", Req: p.req, Body: hx(p.body)})
		}
		live = append(live[:i], live[i+1:]...)
	}
	return c
}

// genHostile: arbitrary chunk types, repeated numbers, over-limit streams, broken abort bodies.
func genHostile(r *rng.R, name string) c12case {
	c := c12case{Name: name, Kind: []string{"client", "server"}[r.Intn(2)]}
	c.MC = uint32(r.Range(0, 4))
	c.MS = uint32(r.Range(0, 120))
	body := svcBody(5, r.Bytes(r.Intn(30)))
	c.Originals = []string{hx(body)}
	n := r.Range(1, 14)
	seq := uint32(r.Pick(0, 1, 5, 4294967295))
	for i := 0; i < n; i++ {
		switch r.Intn(4) {
		case 0: // same number again
		case 1:
			seq = uint32(r.Intn(3))
		default:
			seq++
		}
		t := r.Pick('C', 'C', 'C', 'F', 'F', 'A', 'X', 0)
		req := uint32(r.Pick(1, 1, 2, 3))
		var d []byte
		switch r.Intn(4) {
		case 0:
			d = body
		case 1:
			k := r.Intn(len(body) + 1)
			d = body[:k]
			body = body[k:]
			if len(body) == 0 {
				body = svcBody(5, r.Bytes(r.Intn(30)))
				c.Originals = append(c.Originals, hx(body))
			}
		case 2:
			d = r.Bytes(r.Intn(12))
		default:
			ab, _ := (&uasc.MessageAbort{ErrorCode: uint32(r.U64()), Reason: string(r.Bytes(r.Intn(4)))}).Encode()
			d = ab[:r.Range(0, len(ab))]
		}
		c.Chunks = append(c.Chunks, wchunk{t, seq, req, hx(d)})
	}
	return c
}

func fixedCases() []c12case {
	b := svcBody(1, []byte("AAAAAAAAAAAAAAAAAAAAAAAAAAAAAAAAAAAAAAAAAAAA"))
	mk := func(name string, seqs ...uint32) c12case {
		c := c12case{Name: name, Kind: "server", MC: 8, MS: 1000, Conform: true, Originals: []string{hx(b)}}
		k := len(b) / len(seqs)
		for i, s := range seqs {
			if i < len(seqs)-1 {
				c.Chunks = append(c.Chunks, wchunk{'C', s, 1, hx(b[i*k : (i+1)*k])})
			} else {
				c.Chunks = append(c.Chunks, wchunk{'F', s, 1, hx(b[i*k:])})
			}
		}
		c.Expect = []out{{K: "deliver", Req: 1, Body: hx(b)}}
		return c
	}
	return []c12case{
		mk("row14-first-chunk-numbered-0", 0, 1),
		mk("wrap-to-0-mid-message", 4294966271, 0, 1),
		mk("wrap-to-1023", 4294967295, 1023, 1024),
		mk("three-from-0", 0, 1, 2),
		mk("single", 0),
	}
}

func c12(seed uint64, n int, replay string) {
	var cases []c12case
	if replay != "" {
		raw, err := os.ReadFile(replay)
		if err != nil {
			panic(err)
		}
		var wrap struct {
			Case c12case `json:"case"`
		}
		if err := json.Unmarshal(raw, &wrap); err != nil {
			panic(err)
		}
		cases = []c12case{wrap.Case}
	} else {
		r := rng.New(seed)
		cases = fixedCases()
		for i := 0; i < n; i++ {
			cases = append(cases, genConforming(r, "conf"))
		}
		for i := 0; i < n/2; i++ {
			cases = append(cases, genHostile(r, "hostile"))
		}
	}
	for _, c := range cases {
		c.Outs, c.Table = runStream(c.Kind, c.MC, c.MS, c.Chunks)
		enc.Encode(c)
	}
}
