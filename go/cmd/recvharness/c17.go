package main

import (
	"fmt"
	"sort"
	"time"

	"github.com/gopcua/opcua/ua"
	"github.com/gopcua/opcua/uasc"

	"verifharness/internal/rng"
)

// op of a token history: install (renewal), tick, recv.
type c17op struct {
	Op      string `json:"op"` // install tick recv
	Chan    uint32 `json:"chan,omitempty"`
	Token   uint32 `json:"token,omitempty"`
	Key     int    `json:"key"`               // key identity (index of the toy MAC key)
	Created int64  `json:"created,omitempty"` // virtual ns
	Life    int64  `json:"life,omitempty"`    // ns
	Dt      int64  `json:"dt,omitempty"`
	// observations
	Accepted bool       `json:"accepted,omitempty"`
	K        string     `json:"k,omitempty"`
	Table    [][]uint32 `json:"table"` // after the op: [table key, instance id, token, key identity] in table order
	Keys     int        `json:"keys"`  // number of keys of the instance table (empty entries included)
	Now      int64      `json:"now"`
	Stuck    int        `json:"stuck,omitempty"` // expiry routines that did not finish although their instant had passed
}

type c17case struct {
	Name string  `json:"name"`
	T0   int64   `json:"t0"`
	Ops  []c17op `json:"ops"`
}

type liveInst struct {
	v       *uasc.VerifInstance
	id      int
	key     int
	due     int64
	expired bool
	chanID  uint32
}

func macKey(key int) uint32 { return uint32(1000 + 77*key) }

func runC17(c *c17case) {
	peer, conn := pair(defaultAck(65535, 16, 1<<20))
	defer peer.Close()
	defer conn.Close()
	cfg := &uasc.Config{SecurityPolicyURI: ua.SecurityPolicyURIBasic256Sha256, SecurityMode: ua.MessageSecurityModeSign, LocalKey: key(), RequestTimeout: time.Second}
	sc, err := uasc.VerifNewChannel(conn, cfg, false, make(chan error, 64))
	if err != nil {
		panic(err)
	}
	v := uasc.VerifChannel{S: sc}
	base := time.Now().Add(-1000 * time.Hour) // virtual instant 0; every timer of the implementation is already due
	vnow := c.T0
	var live []*liveInst
	stuck := 0
	seq := uint32(10)
	dump := func(o *c17op) {
		objs := v.InstanceObjs()
		var ks []uint32
		for k := range objs {
			ks = append(ks, k)
		}
		sort.Slice(ks, func(i, j int) bool { return ks[i] < ks[j] })
		o.Keys = len(ks)
		o.Table = [][]uint32{}
		for _, k := range ks {
			for _, obj := range objs[k] {
				for _, li := range live {
					if any(li.v.C) == obj {
						o.Table = append(o.Table, []uint32{k, uint32(li.id), li.v.TokenID(), uint32(li.key)})
					}
				}
			}
		}
		o.Now = vnow
		o.Stuck = stuck
	}
	sweep := func() {
		// timers whose instant has passed fire, in table order
		objs := v.InstanceObjs()
		var ks []uint32
		for k := range objs {
			ks = append(ks, k)
		}
		sort.Slice(ks, func(i, j int) bool { return ks[i] < ks[j] })
		var dueNow []*liveInst
		for _, k := range ks {
			for _, obj := range objs[k] {
				for _, li := range live {
					if any(li.v.C) == obj && li.due <= vnow && !li.expired {
						dueNow = append(dueNow, li)
					}
				}
			}
		}
		for _, li := range dueNow {
			done := make(chan struct{})
			go func(li *liveInst) { v.RunExpiration(li.v); close(done) }(li)
			select {
			case <-done:
			case <-time.After(150 * time.Millisecond):
				stuck++           // its instant has passed and the routine still waits
				li.expired = true // do not wait for it again
			}
		}
	}
	for i := range c.Ops {
		o := &c.Ops[i]
		switch o.Op {
		case "install":
			p := toyParams{Block: 16, KC: 1, KM: macKey(o.Key), SL: 32, RSL: 32}
			vi := v.AddInstance(toyAlgo(p), o.Chan, o.Token, 0, base.Add(time.Duration(o.Created)), time.Duration(o.Life))
			live = append(live, &liveInst{v: vi, id: len(live), key: o.Key, due: o.Created + o.Life/4*5, chanID: o.Chan})
			sweep()
		case "tick":
			if o.Dt > 0 {
				vnow += o.Dt
			}
			sweep()
		case "recv":
			p := toyParams{Block: 16, KC: 1, KM: macKey(o.Key), SL: 32, RSL: 32}
			send := uasc.VerifNewInstance(cfg.SecurityPolicyURI, cfg.SecurityMode, toyAlgo(p), o.Chan, o.Token, 0)
			seq++
			raw := symChunk("MSG", 'F', o.Chan, o.Token, seq, 6, svcBody(3, []byte("x")))
			m := symMessage(seq, 6)
			m.Header.SecureChannelID = o.Chan
			sec, err := send.SignAndEncrypt(m, raw)
			if err != nil {
				panic(err)
			}
			peer.Write(sec)
			r := recvOne(sc, conn, 3*time.Second)
			o.K = r.K
			o.Accepted = r.K == "deliver"
		}
		dump(o)
	}
}

var lifetimes = []int64{int64(time.Second), int64(2500 * time.Millisecond), int64(400 * time.Millisecond), int64(10 * time.Second), int64(3600 * time.Second), 1, 0}

func genC17(r *rng.R, name string) c17case {
	c := c17case{Name: name, T0: int64(r.Intn(5)) * int64(time.Second)}
	vnow := c.T0
	nkeys := 0
	tok := uint32(r.Pick(1, 9, 7, 100))
	chans := []uint32{7, 7, 7, 8}
	style := r.Intn(4) // 0 fresh token ids, 1 same token id on every renewal, 2 token id == channel id, 3 mixed
	n := r.Range(3, 14)
	type known struct {
		ch, tok uint32
		key     int
	}
	var ks []known
	for i := 0; i < n; i++ {
		switch x := r.Intn(10); {
		case x < 3 || len(ks) == 0:
			ch := chans[r.Intn(len(chans))]
			switch style {
			case 0:
				tok++
			case 2:
				tok = ch
			case 3:
				tok = uint32(r.Pick(int(tok), int(tok)+1, int(ch)))
			}
			created := vnow - int64(r.Pick(0, 0, 0, 100, 2000))*int64(time.Millisecond)
			c.Ops = append(c.Ops, c17op{Op: "install", Chan: ch, Token: tok, Key: nkeys, Created: created, Life: lifetimes[r.Intn(len(lifetimes))]})
			ks = append(ks, known{ch, tok, nkeys})
			nkeys++
		case x < 6:
			dt := int64(r.Pick(0, 100, 300, 500, 1000, 1250, 3000, 12500, -5)) * int64(time.Millisecond)
			if dt > 0 {
				vnow += dt
			}
			c.Ops = append(c.Ops, c17op{Op: "tick", Dt: dt})
		default:
			k := ks[r.Intn(len(ks))]
			if r.Intn(8) == 0 {
				k.key = 99 // a key no token ever had
			}
			c.Ops = append(c.Ops, c17op{Op: "recv", Chan: k.ch, Token: k.tok, Key: k.key})
		}
	}
	return c
}

func fixedC17() []c17case {
	s := int64(time.Second)
	return []c17case{
		{Name: "renew-then-expire", Ops: []c17op{
			{Op: "install", Chan: 7, Token: 1, Key: 0, Created: 0, Life: s},
			{Op: "recv", Chan: 7, Token: 1, Key: 0},
			{Op: "tick", Dt: s * 3 / 4},
			{Op: "install", Chan: 7, Token: 2, Key: 1, Created: s * 3 / 4, Life: s},
			{Op: "recv", Chan: 7, Token: 1, Key: 0},
			{Op: "tick", Dt: s / 2},
			{Op: "recv", Chan: 7, Token: 1, Key: 0},
			{Op: "recv", Chan: 7, Token: 2, Key: 1},
		}},
		{Name: "same-token-id-renewal", Ops: []c17op{
			{Op: "install", Chan: 7, Token: 9, Key: 0, Created: 0, Life: s},
			{Op: "tick", Dt: s * 3 / 4},
			{Op: "install", Chan: 7, Token: 9, Key: 1, Created: s * 3 / 4, Life: s},
			{Op: "tick", Dt: s / 2},
			{Op: "recv", Chan: 7, Token: 9, Key: 0},
			{Op: "recv", Chan: 7, Token: 9, Key: 1},
		}},
		{Name: "token-id-equals-channel-id", Ops: []c17op{
			{Op: "install", Chan: 7, Token: 7, Key: 0, Created: 0, Life: s},
			{Op: "tick", Dt: s * 3 / 4},
			{Op: "install", Chan: 7, Token: 8, Key: 1, Created: s * 3 / 4, Life: s},
			{Op: "tick", Dt: s / 2},
			{Op: "recv", Chan: 7, Token: 7, Key: 0},
			{Op: "recv", Chan: 7, Token: 8, Key: 1},
		}},
	}
}

// c17timing: the implementation's own expiry instant (real clock): created + 5/4 lifetime.
func c17timing() {
	peer, conn := pair(defaultAck(65535, 16, 1<<20))
	defer peer.Close()
	defer conn.Close()
	sc, _ := uasc.VerifNewChannel(conn, noneCfg(), false, make(chan error, 4))
	v := uasc.VerifChannel{S: sc}
	for _, life := range []time.Duration{400 * time.Millisecond, 900 * time.Millisecond} {
		t0 := time.Now()
		vi := v.AddInstance(noneAlgo(), 7, 1, 0, t0, life)
		done := make(chan struct{})
		go func() { v.RunExpiration(vi); close(done) }()
		select {
		case <-done:
		case <-time.After(life*5/4 + 700*time.Millisecond): // the routine did not finish: reported as not removed
		}
		el := time.Since(t0)
		enc.Encode(map[string]any{"name": "timing", "life_ms": life.Milliseconds(), "elapsed_ms": el.Milliseconds(),
			"removed": len(v.InstanceObjs()[7]) == 0})
	}
}

func c17(seed uint64, n int, replay string) {
	r := rng.New(seed)
	cases := fixedC17()
	for i := 0; i < n; i++ {
		cases = append(cases, genC17(r, fmt.Sprintf("hist%d", i)))
	}
	for i := range cases {
		runC17(&cases[i])
		enc.Encode(cases[i])
	}
	c17timing()
}
