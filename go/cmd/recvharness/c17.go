package main

import (
	"context"
	"fmt"
	"net"
	"sort"
	"time"

	"github.com/gopcua/opcua/uacp"

	"github.com/gopcua/opcua/ua"
	"github.com/gopcua/opcua/uasc"

	"verifharness/internal/rng"
)

// op of a token history: install (renewal), tick, recv.
type c17op struct {
	Op      string `json:"op"` // install tick recv
	Chan    uint32 `json:"chan,omitempty"`
	Token   uint32 `json:"token,omitempty"`
	Key     int    `json:"key"`               // key identity (index of the toy MAC key)
	Created int64  `json:"created,omitempty"` // virtual ns
	Life    int64  `json:"life,omitempty"`    // ns
	Dt      int64  `json:"dt,omitempty"`
	// observations
	Accepted bool       `json:"accepted,omitempty"`
	K        string     `json:"k,omitempty"`
	Table    [][]uint32 `json:"table"` // after the op: [table key, instance id, token, key identity] in table order
	Keys     int        `json:"keys"`  // number of keys of the instance table (empty entries included)
	Now      int64      `json:"now"`
	Stuck    int        `json:"stuck,omitempty"` // expiry routines that did not finish although their instant had passed
}

type c17case struct {
	Name string  `json:"name"`
	T0   int64   `json:"t0"`
	Ops  []c17op `json:"ops"`
}

type liveInst struct {
	v       *uasc.VerifInstance
	id      int
	key     int
	due     int64
	expired bool
	chanID  uint32
}

func macKey(key int) uint32 { return uint32(1000 + 77*key) }

func runC17(c *c17case) {
	peer, conn := pair(defaultAck(65535, 16, 1<<20))
	defer peer.Close()
	defer conn.Close()
	cfg := &uasc.Config{SecurityPolicyURI: ua.SecurityPolicyURIBasic256Sha256, SecurityMode: ua.MessageSecurityModeSign, LocalKey: key(), RequestTimeout: time.Second}
	sc, err := uasc.VerifNewChannel(conn, cfg, false, make(chan error, 64))
	if err != nil {
		panic(err)
	}
	v := uasc.VerifChannel{S: sc}
	base := time.Now().Add(-1000 * time.Hour) // virtual instant 0; every timer of the implementation is already due
	vnow := c.T0
	var live []*liveInst
	stuck := 0
	seq := uint32(10)
	dump := func(o *c17op) {
		objs := v.InstanceObjs()
		var ks []uint32
		for k := range objs {
			ks = append(ks, k)
		}
		sort.Slice(ks, func(i, j int) bool { return ks[i] < ks[j] })
		o.Keys = len(ks)
		o.Table = [][]uint32{}
		for _, k := range ks {
			for _, obj := range objs[k] {
				for _, li := range live {
					if any(li.v.C) == obj {
						o.Table = append(o.Table, []uint32{k, uint32(li.id), li.v.TokenID(), uint32(li.key)})
					}
				}
			}
		}
		o.Now = vnow
		o.Stuck = stuck
	}
	sweep := func() {
		// timers whose instant has passed fire, in table order
		objs := v.InstanceObjs()
		var ks []uint32
		for k := range objs {
			ks = append(ks, k)
		}
		sort.Slice(ks, func(i, j int) bool { return ks[i] < ks[j] })
		var dueNow []*liveInst
		for _, k := range ks {
			for _, obj := range objs[k] {
				for _, li := range live {
					if any(li.v.C) == obj && li.due <= vnow && !li.expired {
						dueNow = append(dueNow, li)
					}
				}
			}
		}
		for _, li := range dueNow {
			done := make(chan struct{})
			go func(li *liveInst) { v.RunExpiration(li.v); close(done) }(li)
			select {
			case <-done:
			case <-time.After(150 * time.Millisecond):
				stuck++           // its instant has passed and the routine still waits
				li.expired = true // do not wait for it again
			}
		}
	}
	for i := range c.Ops {
		o := &c.Ops[i]
		switch o.Op {
		case "install":
			p := toyParams{Block: 16, KC: 1, KM: macKey(o.Key), SL: 32, RSL: 32}
			vi := v.AddInstance(toyAlgo(p), o.Chan, o.Token, 0, base.Add(time.Duration(o.Created)), time.Duration(o.Life))
			live = append(live, &liveInst{v: vi, id: len(live), key: o.Key, due: o.Created + o.Life/4*5, chanID: o.Chan})
			sweep()
		case "tick":
			if o.Dt > 0 {
				vnow += o.Dt
			}
			sweep()
		case "recv":
			p := toyParams{Block: 16, KC: 1, KM: macKey(o.Key), SL: 32, RSL: 32}
			send := uasc.VerifNewInstance(cfg.SecurityPolicyURI, cfg.SecurityMode, toyAlgo(p), o.Chan, o.Token, 0)
			seq++
			raw := symChunk("MSG", 'F', o.Chan, o.Token, seq, 6, svcBody(3, []byte("x")))
			m := symMessage(seq, 6)
			m.Header.SecureChannelID = o.Chan
			sec, err := send.SignAndEncrypt(m, raw)
			if err != nil {
				panic(err)
			}
			peer.Write(sec)
			r := recvOne(sc, conn, 3*time.Second)
			o.K = r.K
			o.Accepted = r.K == "deliver"
		}
		dump(o)
	}
}

var lifetimes = []int64{int64(time.Second), int64(2500 * time.Millisecond), int64(400 * time.Millisecond), int64(10 * time.Second), int64(3600 * time.Second), 1, 0}

func genC17(r *rng.R, name string) c17case {
	c := c17case{Name: name, T0: int64(r.Intn(5)) * int64(time.Second)}
	vnow := c.T0
	nkeys := 0
	tok := uint32(r.Pick(1, 9, 7, 100))
	chans := []uint32{7, 7, 7, 8}
	style := r.Intn(4) // 0 fresh token ids, 1 same token id on every renewal, 2 token id == channel id, 3 mixed
	n := r.Range(3, 14)
	type known struct {
		ch, tok uint32
		key     int
	}
	var ks []known
	for i := 0; i < n; i++ {
		switch x := r.Intn(10); {
		case x < 3 || len(ks) == 0:
			ch := chans[r.Intn(len(chans))]
			switch style {
			case 0:
				tok++
			case 2:
				tok = ch
			case 3:
				tok = uint32(r.Pick(int(tok), int(tok)+1, int(ch)))
			}
			created := vnow - int64(r.Pick(0, 0, 0, 100, 2000))*int64(time.Millisecond)
			c.Ops = append(c.Ops, c17op{Op: "install", Chan: ch, Token: tok, Key: nkeys, Created: created, Life: lifetimes[r.Intn(len(lifetimes))]})
			ks = append(ks, known{ch, tok, nkeys})
			nkeys++
		case x < 6:
			dt := int64(r.Pick(0, 100, 300, 500, 1000, 1250, 3000, 12500, -5)) * int64(time.Millisecond)
			if dt > 0 {
				vnow += dt
			}
			c.Ops = append(c.Ops, c17op{Op: "tick", Dt: dt})
		default:
			k := ks[r.Intn(len(ks))]
			if r.Intn(8) == 0 {
				k.key = 99 // a key no token ever had
			}
			c.Ops = append(c.Ops, c17op{Op: "recv", Chan: k.ch, Token: k.tok, Key: k.key})
		}
	}
	return c
}

func fixedC17() []c17case {
	s := int64(time.Second)
	return []c17case{
		{Name: "renew-then-expire", Ops: []c17op{
			{Op: "install", Chan: 7, Token: 1, Key: 0, Created: 0, Life: s},
			{Op: "recv", Chan: 7, Token: 1, Key: 0},
			{Op: "tick", Dt: s * 3 / 4},
			{Op: "install", Chan: 7, Token: 2, Key: 1, Created: s * 3 / 4, Life: s},
			{Op: "recv", Chan: 7, Token: 1, Key: 0},
			{Op: "tick", Dt: s / 2},
			{Op: "recv", Chan: 7, Token: 1, Key: 0},
			{Op: "recv", Chan: 7, Token: 2, Key: 1},
		}},
		{Name: "same-token-id-renewal", Ops: []c17op{
			{Op: "install", Chan: 7, Token: 9, Key: 0, Created: 0, Life: s},
			{Op: "tick", Dt: s * 3 / 4},
			{Op: "install", Chan: 7, Token: 9, Key: 1, Created: s * 3 / 4, Life: s},
			{Op: "tick", Dt: s / 2},
			{Op: "recv", Chan: 7, Token: 9, Key: 0},
			{Op: "recv", Chan: 7, Token: 9, Key: 1},
		}},
		{Name: "token-id-equals-channel-id", Ops: []c17op{
			{Op: "install", Chan: 7, Token: 7, Key: 0, Created: 0, Life: s},
			{Op: "tick", Dt: s * 3 / 4},
			{Op: "install", Chan: 7, Token: 8, Key: 1, Created: s * 3 / 4, Life: s},
			{Op: "tick", Dt: s / 2},
			{Op: "recv", Chan: 7, Token: 7, Key: 0},
			{Op: "recv", Chan: 7, Token: 8, Key: 1},
		}},
	}
}

// c17timing: the implementation's own expiry instant (real clock): created + 5/4 lifetime.
func c17timing() {
	peer, conn := pair(defaultAck(65535, 16, 1<<20))
	defer peer.Close()
	defer conn.Close()
	sc, _ := uasc.VerifNewChannel(conn, noneCfg(), false, make(chan error, 4))
	v := uasc.VerifChannel{S: sc}
	for _, life := range []time.Duration{400 * time.Millisecond, 900 * time.Millisecond} {
		t0 := time.Now()
		vi := v.AddInstance(noneAlgo(), 7, 1, 0, t0, life)
		done := make(chan struct{})
		go func() { v.RunExpiration(vi); close(done) }()
		select {
		case <-done:
		case <-time.After(life*5/4 + 700*time.Millisecond): // the routine did not finish: reported as not removed
		}
		el := time.Since(t0)
		enc.Encode(map[string]any{"name": "timing", "life_ms": life.Milliseconds(), "elapsed_ms": el.Milliseconds(),
			"removed": len(v.InstanceObjs()[7]) == 0})
	}
}

func c17(seed uint64, n int, replay string) {
	r := rng.New(seed)
	cases := fixedC17()
	for i := 0; i < n; i++ {
		cases = append(cases, genC17(r, fmt.Sprintf("hist%d", i)))
	}
	// the real Open path, context cancelled after Open / kept alive, concurrently with everything else
	openRes := make(chan c17case, 2)
	go func() { openRes <- c17open(true, "open-ctx-cancelled") }()
	go func() { openRes <- c17open(false, "open-ctx-kept") }()
	for i := range cases {
		runC17(&cases[i])
		enc.Encode(cases[i])
	}
	c17timing()
	enc.Encode(<-openRes)
	enc.Encode(<-openRes)
}

// ---- c17open: the REAL Open path ----
// A real client channel opens against a scripted server (uacp.Listen + uasc.NewServerSecureChannel), lifetime 3 s, with a
// context that is cancelled right after Open returned (the usual "ctx, cancel := WithTimeout(...); defer cancel()" around
// connect) or kept alive (control). The client renews by itself after 0.75 lifetime. After createdAt + 1.25 lifetime the
// first token's instance must have left the instance table; the table is polled through the verif accessor and the
// history is handed to the model like every other c17 history.
func c17open(cancelCtx bool, name string) c17case {
	const life = 3 * time.Second
	ctx := context.Background()
	l0, err := net.Listen("tcp", "127.0.0.1:0")
	if err != nil {
		panic(err)
	}
	port := l0.Addr().(*net.TCPAddr).Port
	l0.Close()
	ep := fmt.Sprintf("opc.tcp://127.0.0.1:%d", port)
	ln, err := uacp.Listen(ctx, ep, nil)
	if err != nil {
		panic(err)
	}
	defer ln.Close()
	go func() { // scripted server: OPN (issue and renew) is answered inside Receive
		conn, err := ln.Accept(ctx)
		if err != nil {
			return
		}
		scfg := &uasc.Config{SecurityPolicyURI: ua.SecurityPolicyURINone, SecurityMode: ua.MessageSecurityModeNone, Lifetime: uint32(life / time.Millisecond)}
		ssc, err := uasc.NewServerSecureChannel(ep, conn, scfg, make(chan error, 16), chanID, 1, tokID)
		if err != nil {
			return
		}
		for {
			if m := ssc.Receive(ctx); m.Err != nil {
				return
			}
		}
	}()
	conn, err := uacp.Dial(ctx, ep)
	if err != nil {
		panic(err)
	}
	defer conn.Close()
	cfg := &uasc.Config{SecurityPolicyURI: ua.SecurityPolicyURINone, SecurityMode: ua.MessageSecurityModeNone, Lifetime: uint32(life / time.Millisecond), RequestTimeout: 5 * time.Second}
	sc, err := uasc.NewSecureChannel(ep, conn, cfg, make(chan error, 16))
	if err != nil {
		panic(err)
	}
	octx, cancel := context.WithTimeout(ctx, 10*time.Second)
	if err := sc.Open(octx); err != nil {
		panic(err)
	}
	if cancelCtx {
		cancel() // the caller is done connecting
	} else {
		defer cancel()
	}
	v := uasc.VerifChannel{S: sc}
	c := c17case{Name: name}
	var objs []any // instance objects in order of appearance
	var base time.Time
	rows := func() ([][]uint32, []uasc.VerifInstanceInfo) {
		var fresh []uasc.VerifInstanceInfo
		t := [][]uint32{}
		infos := v.InstanceInfos()
		var ks []uint32
		for k := range infos {
			ks = append(ks, k)
		}
		sort.Slice(ks, func(i, j int) bool { return ks[i] < ks[j] })
		for _, k := range ks {
			for _, in := range infos[k] {
				id := -1
				for i, o := range objs {
					if o == in.Obj {
						id = i
					}
				}
				if id < 0 {
					objs = append(objs, in.Obj)
					id = len(objs) - 1
					fresh = append(fresh, in)
				}
				t = append(t, []uint32{k, uint32(id), in.TokenID, uint32(id)})
			}
		}
		return t, fresh
	}
	tab, fresh := rows()
	if len(fresh) != 1 {
		panic("c17open: expected exactly one instance after Open")
	}
	base = fresh[0].CreatedAt
	vnow := int64(0)
	c.Ops = append(c.Ops, c17op{Op: "install", Chan: fresh[0].ChannelID, Token: fresh[0].TokenID, Key: 0, Created: 0, Life: int64(fresh[0].Lifetime), Table: tab, Keys: 1, Now: 0})
	due0 := base.Add(life / 4 * 5)
	deadline := base.Add(life/4*5 + life/5) // before the second renewal (created1 + 0.75 life >= 1.5 life)
	for time.Now().Before(deadline) {
		time.Sleep(25 * time.Millisecond)
		tab, fresh = rows()
		now := int64(time.Since(base))
		if len(fresh) > 0 { // the renewal installed a new instance: a tick up to now, then the installation
			prev := [][]uint32{}
			for _, r := range tab {
				if int(r[1]) < len(objs)-len(fresh) {
					prev = append(prev, r)
				}
			}
			c.Ops = append(c.Ops, c17op{Op: "tick", Dt: now - vnow, Table: prev, Keys: 1, Now: now})
			vnow = now
			for _, f := range fresh {
				c.Ops = append(c.Ops, c17op{Op: "install", Chan: f.ChannelID, Token: f.TokenID, Key: len(objs) - 1, Created: int64(f.CreatedAt.Sub(base)), Life: int64(f.Lifetime), Table: tab, Keys: 1, Now: now})
			}
			continue
		}
		gone := true
		for _, r := range tab {
			if r[1] == 0 {
				gone = false
			}
		}
		if gone && time.Now().After(due0) {
			break
		}
	}
	// the observation after created + 5/4 lifetime of the first token
	tab, _ = rows()
	now := int64(time.Since(base))
	if now <= int64(life/4*5) {
		now = int64(life/4*5) + 1
	}
	c.Ops = append(c.Ops, c17op{Op: "tick", Dt: now - vnow, Table: tab, Keys: 1, Now: now})
	sc.Close()
	return c
}
