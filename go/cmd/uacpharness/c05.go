package main

// C05: the real (*uacp.Conn).Receive over a loopback TCP connection, fed by a writer that emits a byte stream in
// a chosen segmentation (separate writes with TCP_NODELAY, optionally paused so that the receiver really sees the
// pieces).  Three ways of obtaining the receiving Conn:
//   newconn  : uacp.NewConn(tcp, ack)                        (rbuf = ack.ReceiveBufSize, any value)
//   listener : uacp.Listen(ctx, url, ack) + Accept            (server side after a real HEL/ACK; rbuf >= 32)
//   dialer   : uacp.Dialer{ClientACK{ReceiveBufSize: rbuf}}.Dial against a raw TCP peer that answers the HEL with an ACK
//              (client side after a real HEL/ACK; rbuf >= 28 so that the ACK itself fits)

import (
	"bufio"
	"context"
	"encoding/binary"
	"encoding/hex"
	"encoding/json"
	"errors"
	"fmt"
	"io"
	"net"
	"os"
	"strings"
	"time"

	"github.com/gopcua/opcua/uacp"

	"verifharness/internal/rng"
)

type c05result struct {
	Ok     *string `json:"ok,omitempty"`  // hex of the delivered frame
	Err    string  `json:"err,omitempty"` // eof ueof toolarge toosmall errdecode hdrdecode status panic timeout other
	Code   uint32  `json:"code,omitempty"`
	Reason string  `json:"reason,omitempty"` // hex
	Msg    string  `json:"msg,omitempty"`
}

type c05tail struct {
	Kind    string `json:"kind"`              // none badsize truncated
	Size    uint32 `json:"size,omitempty"`    // declared size of the bad header
	Garbage int    `json:"garbage,omitempty"` // bytes following the bad header
	Of      string `json:"of,omitempty"`      // hex of the frame that was cut
	Keep    int    `json:"keep,omitempty"`    // bytes of it that were sent
}

type c05case struct {
	ID      int    `json:"id"`
	Via     string `json:"via"`
	Rbuf    uint32 `json:"rbuf"`      // configured ReceiveBufSize of the receiving side
	PeerSnd uint32 `json:"peer_send"` // send buffer size the peer announces in its HEL / ACK (listener, dialer)
	RbufEff uint32 `json:"rbuf_conn"` // Conn.ReceiveBufSize() after the handshake(s) (observed)
	// listener only: Hellos (recv, send) of further clients that connect to the SAME listener after the connection
	// under test is established and before any frame is sent on it; they must not change its limits
	Later   [][2]uint32 `json:"later_hellos,omitempty"`
	OwnSnd  uint32      `json:"own_send,omitempty"` // dialer only: the client's own SendBufSize (0 = 65535); must not affect what it accepts
	NilAck  bool        `json:"nil_ack,omitempty"`  // listener created with ack = nil (uacp.DefaultServerACK), rbuf must be 65535
	Stream  string      `json:"stream"`             // hex
	Segs    []int       `json:"segs"`               // write sizes (sum = len(stream))
	SegKind string      `json:"segkind"`
	PauseUS int         `json:"pause_us"`
	Calls   int         `json:"calls"`  // max number of Receive calls
	Frames  []string    `json:"frames"` // hex: the well-sized frames the stream starts with (the sender's intent)
	Tail    c05tail     `json:"tail"`
	Results []c05result `json:"results,omitempty"`
	Setup   string      `json:"setup_error,omitempty"`
}

func mkFrame(typ string, chunk byte, body []byte) []byte {
	b := make([]byte, 8+len(body))
	copy(b, typ[:3])
	b[3] = chunk
	binary.LittleEndian.PutUint32(b[4:], uint32(len(b)))
	copy(b[8:], body)
	return b
}

func classify(err error) c05result {
	var ue *uacp.Error
	var ne net.Error
	switch {
	case err == io.EOF:
		return c05result{Err: "eof"}
	case err == io.ErrUnexpectedEOF:
		return c05result{Err: "ueof"}
	case errors.As(err, &ue):
		return c05result{Err: "status", Code: ue.ErrorCode, Reason: hex.EncodeToString([]byte(ue.Reason))}
	case errors.As(err, &ne) && ne.Timeout():
		return c05result{Err: "timeout", Msg: err.Error()}
	case strings.Contains(err.Error(), "message too large"):
		return c05result{Err: "toolarge"}
	case strings.Contains(err.Error(), "message too small"):
		return c05result{Err: "toosmall"}
	case strings.Contains(err.Error(), "failed to decode ERRF"):
		return c05result{Err: "errdecode"}
	case strings.Contains(err.Error(), "header decode failed"):
		return c05result{Err: "hdrdecode"}
	}
	return c05result{Err: "other", Msg: err.Error()}
}

func continues(r c05result) bool { return r.Ok != nil || r.Err == "status" || r.Err == "errdecode" }

func receiveOnce(c *uacp.Conn) (res c05result) {
	defer func() {
		if p := recover(); p != nil {
			res = c05result{Err: "panic", Msg: fmt.Sprint(p)}
		}
	}()
	b, err := c.Receive()
	if err != nil {
		return classify(err)
	}
	h := hex.EncodeToString(b)
	return c05result{Ok: &h}
}

// pair returns the receiving uacp.Conn and the raw writer end.
// laterConns: connections of the further clients of the current case (closed when the case is over)
var laterConns []io.Closer

func pair(via string, rbuf, peerSend, ownSend uint32, later [][2]uint32, nilAck bool) (*uacp.Conn, *net.TCPConn, error) {
	if peerSend == 0 {
		peerSend = 65535
	}
	ctx, cancel := context.WithTimeout(context.Background(), dl(5*time.Second))
	defer cancel()
	switch via {
	case "newconn":
		ln, err := net.Listen("tcp", "127.0.0.1:0")
		if err != nil {
			return nil, nil, err
		}
		defer ln.Close()
		w, err := net.Dial("tcp", ln.Addr().String())
		if err != nil {
			return nil, nil, err
		}
		r, err := ln.Accept()
		if err != nil {
			return nil, nil, err
		}
		c, err := uacp.NewConn(r.(*net.TCPConn), &uacp.Acknowledge{ReceiveBufSize: rbuf, SendBufSize: 65535})
		return c, w.(*net.TCPConn), err
	case "listener":
		srvAck := &uacp.Acknowledge{ReceiveBufSize: rbuf, SendBufSize: 65535, MaxChunkCount: 7, MaxMessageSize: 77777}
		if nilAck {
			srvAck = nil
		}
		l, err := uacp.Listen(ctx, "opc.tcp://127.0.0.1:0/x", srvAck)
		if err != nil {
			return nil, nil, err
		}
		defer l.Close()
		type acc struct {
			c   *uacp.Conn
			err error
		}
		// connect performs one client's HEL/ACK exchange against the listener
		connect := func(helRecv, helSend uint32) (*uacp.Conn, *net.TCPConn, error) {
			ch := make(chan acc, 1)
			go func() { c, err := l.Accept(ctx); ch <- acc{c, err} }()
			w, err := net.Dial("tcp", l.Addr().String())
			if err != nil {
				return nil, nil, err
			}
			// a minimal Hello: version, rcv, snd, maxmsg, maxchunks, null endpoint url (32 bytes)
			hel := make([]byte, 24)
			binary.LittleEndian.PutUint32(hel[4:], helRecv)
			binary.LittleEndian.PutUint32(hel[8:], helSend)
			binary.LittleEndian.PutUint32(hel[20:], 0xffffffff)
			if _, err := w.Write(mkFrame("HEL", 'F', hel)); err != nil {
				return nil, nil, err
			}
			ack := make([]byte, 28)
			w.SetReadDeadline(time.Now().Add(dl(5 * time.Second)))
			if _, err := io.ReadFull(w, ack); err != nil {
				return nil, nil, fmt.Errorf("reading ACK: %v", err)
			}
			w.SetReadDeadline(time.Time{})
			if string(ack[:4]) != "ACKF" {
				return nil, nil, fmt.Errorf("expected ACKF, got %q", ack[:4])
			}
			a := <-ch
			return a.c, w.(*net.TCPConn), a.err
		}
		c, w, err := connect(65535, peerSend)
		if err != nil {
			return nil, nil, err
		}
		for _, h := range later { // further clients on the same listener; kept open until the case is over
			c2, w2, err := connect(h[0], h[1])
			if err != nil {
				return nil, nil, fmt.Errorf("later client %v: %v", h, err)
			}
			laterConns = append(laterConns, c2, w2)
		}
		return c, w, nil
	case "dialer":
		ln, err := net.Listen("tcp", "127.0.0.1:0")
		if err != nil {
			return nil, nil, err
		}
		defer ln.Close()
		type acc struct {
			w   *net.TCPConn
			err error
		}
		ch := make(chan acc, 1)
		go func() {
			w, err := ln.Accept()
			if err != nil {
				ch <- acc{nil, err}
				return
			}
			w.SetReadDeadline(time.Now().Add(dl(5 * time.Second)))
			hdr := make([]byte, 8)
			if _, err := io.ReadFull(w, hdr); err != nil {
				ch <- acc{nil, err}
				return
			}
			rest := make([]byte, int(binary.LittleEndian.Uint32(hdr[4:]))-8)
			if _, err := io.ReadFull(w, rest); err != nil {
				ch <- acc{nil, err}
				return
			}
			w.SetReadDeadline(time.Time{})
			ack := make([]byte, 20)
			binary.LittleEndian.PutUint32(ack[4:], 65535)
			binary.LittleEndian.PutUint32(ack[8:], peerSend)
			if _, err := w.Write(mkFrame("ACK", 'F', ack)); err != nil {
				ch <- acc{nil, err}
				return
			}
			ch <- acc{w.(*net.TCPConn), nil}
		}()
		if ownSend == 0 {
			ownSend = 65535
		}
		d := &uacp.Dialer{ClientACK: &uacp.Acknowledge{ReceiveBufSize: rbuf, SendBufSize: ownSend}}
		c, err := d.Dial(ctx, "opc.tcp://"+ln.Addr().String())
		a := <-ch
		if err == nil {
			err = a.err
		}
		return c, a.w, err
	}
	return nil, nil, fmt.Errorf("unknown via %q", via)
}

func runC05(cs *c05case) {
	stream, err := hex.DecodeString(cs.Stream)
	if err != nil {
		cs.Setup = err.Error()
		return
	}
	c, w, err := pair(cs.Via, cs.Rbuf, cs.PeerSnd, cs.OwnSnd, cs.Later, cs.NilAck)
	if err != nil {
		cs.Setup = err.Error()
		return
	}
	cs.RbufEff = c.ReceiveBufSize()
	defer func() {
		for _, x := range laterConns {
			x.Close()
		}
		laterConns = nil
	}()
	defer c.Close()
	defer w.Close()
	w.SetNoDelay(true)
	done := make(chan struct{})
	go func() {
		defer close(done)
		off := 0
		for _, n := range cs.Segs {
			if off+n > len(stream) {
				n = len(stream) - off
			}
			if n <= 0 {
				continue
			}
			if _, err := w.Write(stream[off : off+n]); err != nil {
				return
			}
			off += n
			if cs.PauseUS > 0 {
				time.Sleep(time.Duration(cs.PauseUS) * time.Microsecond)
			}
		}
		if off < len(stream) {
			w.Write(stream[off:])
		}
		w.CloseWrite()
	}()
	for i := 0; i < cs.Calls; i++ {
		c.SetReadDeadline(time.Now().Add(dl(5 * time.Second)))
		r := receiveOnce(c)
		cs.Results = append(cs.Results, r)
		if !continues(r) {
			break
		}
	}
	c.Close()
	<-done
}

// ---------------------------------------------------------------------------------------------------------
// generator

var c05types = []string{"MSG", "OPN", "CLO", "HEL", "ACK", "RHE", "ERR", "ERR", "XYZ", "err", "ER\x00"}

func genBody(r *rng.R, n int) []byte {
	if n <= 0 {
		return nil
	}
	if n <= 48 {
		return r.Bytes(n)
	}
	// long bodies: a few runs, so that the Coq side can take them run-length coded
	b := make([]byte, n)
	runs := r.Range(1, 4)
	pos := 0
	for i := 0; i < runs && pos < n; i++ {
		l := n - pos
		if i < runs-1 {
			l = r.Range(1, n-pos)
		}
		v := byte(r.Intn(256))
		for j := 0; j < l; j++ {
			b[pos+j] = v
		}
		pos += l
	}
	return b
}

// errBody returns an ERR frame body of exactly n bytes (n >= 0), well-formed when it can be
func errBody(r *rng.R, n int) []byte {
	b := genBody(r, n)
	if n >= 4 {
		binary.LittleEndian.PutUint32(b, uint32(r.Pick(0x80010000, 0x80020000, 0x807d0000, 0, 0xffffffff, int(r.U64()&0xffffffff))))
	}
	if n >= 8 {
		room := n - 8
		var l uint32
		switch r.Intn(8) {
		case 0:
			l = 0
		case 1:
			l = 0xffffffff
		case 2:
			l = uint32(room + 1) // too long by one
		case 3:
			l = uint32(room + r.Range(1, 1000))
		case 4:
			l = uint32(r.Range(0, room)) // trailing bytes
		default:
			l = uint32(room)
		}
		binary.LittleEndian.PutUint32(b[4:], l)
	}
	return b
}

func genFrameSize(r *rng.R, rbuf int) int {
	if rbuf < 8 {
		return 8
	}
	switch r.Intn(10) {
	case 0, 1:
		return 8
	case 2:
		return min(9, rbuf)
	case 3, 4:
		return rbuf
	case 5:
		return max(8, rbuf-1)
	case 6:
		return min(rbuf, r.Range(8, 24))
	default:
		return r.Range(8, min(rbuf, 8+r.Pick(8, 64, 300, 70000)))
	}
}

func genSegs(r *rng.R, total int, frames [][]byte) ([]int, string, int) {
	if total == 0 {
		return nil, "empty", 0
	}
	kind := []string{"coalesced", "perframe", "byte", "random", "random", "hdrsplit", "two"}[r.Intn(7)]
	if kind == "byte" && total > 300 {
		kind = "random"
	}
	var segs []int
	switch kind {
	case "coalesced":
		segs = []int{total}
	case "perframe":
		used := 0
		for _, f := range frames {
			segs = append(segs, len(f))
			used += len(f)
		}
		if total > used {
			segs = append(segs, total-used)
		}
	case "byte":
		for i := 0; i < total; i++ {
			segs = append(segs, 1)
		}
	case "random":
		k := r.Range(1, 12)
		left := total
		for i := 0; i < k && left > 0; i++ {
			l := r.Range(1, left)
			if r.Intn(3) == 0 {
				l = min(left, r.Range(1, 9))
			}
			segs = append(segs, l)
			left -= l
		}
		if left > 0 {
			segs = append(segs, left)
		}
	case "hdrsplit":
		// every frame is written as (part of header) (rest of header + body): the header never arrives whole
		for _, f := range frames {
			k := r.Range(1, 7)
			segs = append(segs, k, len(f)-k)
		}
		used := 0
		for _, f := range frames {
			used += len(f)
		}
		if total > used {
			segs = append(segs, total-used)
		}
	case "two":
		// frame boundaries never coincide with write boundaries: shift everything by a few bytes
		k := min(total, r.Range(1, 7))
		segs = append(segs, k)
		left := total - k
		for _, f := range frames {
			l := min(left, len(f))
			if l > 0 {
				segs = append(segs, l)
				left -= l
			}
		}
		if left > 0 {
			segs = append(segs, left)
		}
	}
	pause := 0
	if len(segs) > 1 && len(segs) <= 40 && r.Intn(2) == 0 {
		pause = r.Pick(200, 500, 1500)
	}
	return segs, kind, pause
}

func genC05(r *rng.R, id int) *c05case {
	cs := &c05case{ID: id}
	cs.Via = []string{"newconn", "newconn", "listener", "dialer"}[r.Intn(4)]
	rb := r.Pick(8, 8, 9, 12, 16, 24, 32, 33, 64, 100, 255, 256, 1000, 4096, 8192, 65535, r.Range(8, 300), r.Range(8, 300))
	if id%37 == 36 {
		rb = r.Pick(0, 1, 4, 7) // outside the property's domain (C13): validates the model's Panic branch only
		cs.Via = "newconn"
	}
	if cs.Via == "dialer" && rb < 28 {
		rb = r.Pick(28, 29, 32, 40)
	}
	if cs.Via == "listener" && rb < 32 {
		rb = r.Pick(32, 33, 40, 64)
	}
	if rb >= 4096 && id%5 != 0 {
		rb = r.Range(8, 300) // keep most cases small; the large buffers appear in a fifth of their draws
		if (cs.Via == "listener" || cs.Via == "dialer") && rb < 32 {
			rb = 32 + rb
		}
	}
	cs.Rbuf = uint32(rb)
	// asymmetric configurations: the peer announces a send buffer size different from our receive buffer size.
	// eff = the receive limit the connection must end up with (server: min(own, peer's send size); client: own)
	eff := rb
	if cs.Via != "newconn" {
		cs.PeerSnd = 65535
		if id%4 == 1 {
			cs.PeerSnd = uint32(r.Pick(8192, 8193, 9000, 16384, 100000))
			cs.Rbuf = uint32(r.Pick(8192, 8200, 9000, 12000, 20000, 65535))
			rb = int(cs.Rbuf)
			eff = rb
		}
		if cs.Via == "listener" && int(cs.PeerSnd) < rb {
			eff = int(cs.PeerSnd)
		}
		if cs.Via == "dialer" && id%4 == 1 {
			cs.OwnSnd = uint32(r.Pick(8192, 8192, 9000, 65535)) // asymmetric client: small send buffer, larger receive buffer
		}
	}
	if cs.Via == "listener" && id%3 == 2 {
		// several clients on one listener: the connection under test is established first (client 65535/65535),
		// then clients with other (asymmetric) buffers connect; frames go up to the first connection's limit
		cs.Rbuf = uint32(r.Pick(65535, 65535, 20000, 9000))
		cs.PeerSnd = 65535
		cs.NilAck = cs.Rbuf == 65535 && r.Bool()
		for i := r.Range(1, 2); i > 0; i-- {
			cs.Later = append(cs.Later, [2]uint32{uint32(r.Pick(65535, 8192, 9000, 100000)), uint32(r.Pick(8192, 8192, 9000, 65535))})
		}
		rb = int(cs.Rbuf)
		eff = rb
	}
	cfg := rb
	rb = eff
	nf := r.Pick(0, 1, 1, 2, 3, 4, 6)
	if len(cs.Later) > 0 {
		nf = r.Pick(1, 2, 3)
	}
	var frames [][]byte
	var stream []byte
	for i := 0; i < nf; i++ {
		sz := genFrameSize(r, rb)
		typ := c05types[r.Intn(len(c05types))]
		if r.Intn(6) == 0 {
			typ = string(r.Bytes(3))
		}
		chunk := byte(r.Pick('F', 'F', 'C', 'A', r.Intn(256)))
		var body []byte
		if typ == "ERR" {
			body = errBody(r, sz-8)
		} else {
			body = genBody(r, sz-8)
		}
		f := mkFrame(typ, chunk, body)
		frames = append(frames, f)
		stream = append(stream, f...)
		cs.Frames = append(cs.Frames, hex.EncodeToString(f))
	}
	switch r.Intn(10) {
	case 0, 1, 2: // bad declared size
		var sz uint32
		switch r.Intn(6) {
		case 0, 1:
			sz = uint32(r.Range(0, 7))
		case 2:
			sz = uint32(rb + 1)
		case 3:
			sz = uint32(rb + r.Range(1, 100000))
			if cfg != rb {
				sz = uint32(r.Pick(cfg-1, cfg, cfg+1, int(cs.PeerSnd)+1))
				if int(sz) <= rb {
					sz = uint32(rb + 1)
				}
			}
		case 4:
			sz = 0xffffffff
		default:
			sz = uint32(r.Pick(0x80000000, 0x7fffffff, 0x10000, 0xffff0000))
			if int64(sz) <= int64(rb) && sz >= 8 {
				sz = uint32(rb + 1)
			}
		}
		h := mkFrame(c05types[r.Intn(len(c05types))], 'F', nil)
		binary.LittleEndian.PutUint32(h[4:], sz)
		stream = append(stream, h...)
		g := r.Pick(0, 0, 1, 7, 30)
		stream = append(stream, r.Bytes(g)...)
		cs.Tail = c05tail{Kind: "badsize", Size: sz, Garbage: g}
	case 3, 4: // the peer closes inside a frame
		sz := genFrameSize(r, rb)
		if sz >= 8 && rb >= 8 {
			f := mkFrame(c05types[r.Intn(len(c05types))], 'F', genBody(r, sz-8))
			keep := r.Pick(1, 3, 7, 8, 8, 9, sz-1, r.Range(1, sz))
			if keep >= sz {
				keep = sz - 1
			}
			stream = append(stream, f[:keep]...)
			cs.Tail = c05tail{Kind: "truncated", Of: hex.EncodeToString(f), Keep: keep}
		} else {
			cs.Tail = c05tail{Kind: "none"}
		}
	default:
		cs.Tail = c05tail{Kind: "none"}
	}
	cs.Stream = hex.EncodeToString(stream)
	cs.Segs, cs.SegKind, cs.PauseUS = genSegs(r, len(stream), frames)
	cs.Calls = nf + 2
	return cs
}

func c05(seed uint64, n int, casesFile string) {
	if casesFile != "" {
		f, err := os.Open(casesFile)
		if err != nil {
			fmt.Fprintln(os.Stderr, err)
			os.Exit(2)
		}
		defer f.Close()
		sc := bufio.NewScanner(f)
		sc.Buffer(make([]byte, 1<<20), 1<<26)
		for sc.Scan() {
			line := strings.TrimSpace(sc.Text())
			if line == "" || line[0] != '{' {
				continue
			}
			var cs c05case
			if err := json.Unmarshal([]byte(line), &cs); err != nil {
				fmt.Fprintln(os.Stderr, "bad case:", err)
				os.Exit(2)
			}
			cs.Results, cs.Setup = nil, ""
			if cs.Calls == 0 {
				cs.Calls = len(cs.Frames) + 2
			}
			runC05(&cs)
			enc.Encode(&cs)
		}
		return
	}
	r := rng.New(seed)
	for i := 0; i < n; i++ {
		cs := genC05(r, i)
		runC05(cs)
		enc.Encode(cs)
	}
}
