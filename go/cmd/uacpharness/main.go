// uacpharness drives the real UACP transport code of /repo (uacp.Conn, uacp.Listener, uacp.Dialer and, for C06,
// client/server secure channels over a frame-recording proxy) and prints one JSON observation per line.
//
//	uacpharness -seed S -n N c05            generated framing cases (C05)
//	uacpharness -cases file.jsonl c05       explicit framing cases (corpus / replay)
//	uacpharness -seed S -n N c06            generated limit-negotiation cases (C06)
//	uacpharness -cases file.jsonl c06       explicit negotiation cases (corpus / replay)
package main

import (
	"encoding/json"
	"flag"
	"fmt"
	"os"
)

var enc = json.NewEncoder(os.Stdout)

func main() {
	seed := flag.Uint64("seed", 1, "PRNG seed")
	n := flag.Int("n", 100, "number of generated cases")
	cases := flag.String("cases", "", "jsonl file with explicit cases (instead of generating)")
	flag.Parse()
	if flag.NArg() != 1 {
		fmt.Fprintln(os.Stderr, "usage: uacpharness [-seed S] [-n N] [-cases file] c05|c06")
		os.Exit(2)
	}
	switch flag.Arg(0) {
	case "c05":
		c05(*seed, *n, *cases)
	case "c06":
		c06(*seed, *n, *cases)
	default:
		fmt.Fprintln(os.Stderr, "unknown command", flag.Arg(0))
		os.Exit(2)
	}
}
