// uacpharness drives the real UACP transport code of /repo (uacp.Conn, uacp.Listener, uacp.Dialer and, for C06,
// client/server secure channels over a frame-recording proxy) and prints one JSON observation per line.
//
//	uacpharness -seed S -n N c05            generated framing cases (C05)
//	uacpharness -cases file.jsonl c05       explicit framing cases (corpus / replay)
//	uacpharness -seed S -n N c06            generated limit-negotiation cases (C06)
//	uacpharness -cases file.jsonl c06       explicit negotiation cases (corpus / replay)
package main

import (
	"crypto/sha256"
	"encoding/json"
	"flag"
	"fmt"
	"os"
	"time"
)

var enc = json.NewEncoder(os.Stdout)

// scale multiplies every deadline of the harness: (measured machine-speed factor) x (-slow, used for retries of
// cases that timed out).  A harness-side timeout is never an observation of the code under test.
var scale = 1.0

// par bounds the number of exchanges run concurrently (c06).
var par = 12

func dl(d time.Duration) time.Duration { return time.Duration(float64(d) * scale) }

// machineSpeed times a fixed amount of work (about 15 ms on an idle core) and returns how much slower this
// process currently runs, clamped to [1, 8].
func machineSpeed() float64 {
	buf := make([]byte, 1<<20)
	t0 := time.Now()
	for i := 0; i < 12; i++ {
		h := sha256.Sum256(buf)
		buf[i] = h[0]
	}
	f := float64(time.Since(t0)) / float64(15*time.Millisecond)
	if f < 1 {
		f = 1
	}
	if f > 8 {
		f = 8
	}
	return f
}

func main() {
	seed := flag.Uint64("seed", 1, "PRNG seed")
	n := flag.Int("n", 100, "number of generated cases")
	cases := flag.String("cases", "", "jsonl file with explicit cases (instead of generating)")
	slow := flag.Float64("slow", 1, "multiply every deadline by this factor (retries of timed-out cases)")
	flag.IntVar(&par, "par", 12, "exchanges run concurrently (c06)")
	flag.Parse()
	speed := machineSpeed()
	scale = speed * *slow
	fmt.Fprintf(os.Stderr, "uacpharness: machine-speed factor %.1f, deadlines x%.1f\n", speed, scale)
	if flag.NArg() != 1 {
		fmt.Fprintln(os.Stderr, "usage: uacpharness [-seed S] [-n N] [-cases file] c05|c06")
		os.Exit(2)
	}
	switch flag.Arg(0) {
	case "c05":
		c05(*seed, *n, *cases)
	case "c06":
		c06(*seed, *n, *cases)
	default:
		fmt.Fprintln(os.Stderr, "unknown command", flag.Arg(0))
		os.Exit(2)
	}
}
