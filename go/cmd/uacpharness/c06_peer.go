package main

import "github.com/gopcua/opcua/uacp"

// peerLim: the limits the peer announced, which this side must honour when sending.
func peerLim(c *uacp.Conn) *lim {
	return &lim{MaxMsg: c.PeerMaxMessageSize(), MaxChunks: c.PeerMaxChunkCount()}
}
