package main

func c06(seed uint64, n int, casesFile string) {}
