package main

// C06: real client and server ends of gopcua talk through a frame-recording TCP proxy.
//   server : uacp.Listen(ctx, url, ack) + Accept + uasc.NewServerSecureChannel (scripted: answers every ReadRequest
//            with a ReadResponse whose size the request asks for) -- server.Server always listens with
//            uacp.DefaultServerACK, so configurable server limits need the scripted server
//   client : uacp.Dialer{ClientACK}.Dial + uasc.NewSecureChannel + Open + SendRequestWithTimeout
//   proxy  : parses the 8-byte UACP header of every frame in both directions, records (type, size), forwards
// One request/response exchange per connection; message body sizes are chosen around the resulting limits.

import (
	"bufio"
	"context"
	"crypto/rsa"
	"encoding/binary"
	"encoding/json"
	"errors"
	"fmt"
	"io"
	"net"
	"os"
	"path/filepath"
	"strings"
	"sync"
	"time"

	"github.com/gopcua/opcua/ua"
	"github.com/gopcua/opcua/uacp"
	"github.com/gopcua/opcua/uapolicy"
	"github.com/gopcua/opcua/uasc"

	"verifharness/internal/rng"
	"verifharness/internal/scriptsrv"
)

type lim struct {
	Recv      uint32 `json:"recv"`
	Send      uint32 `json:"send"`
	MaxMsg    uint32 `json:"maxmsg"`
	MaxChunks uint32 `json:"maxchunks"`
}

func (l lim) ack() *uacp.Acknowledge {
	return &uacp.Acknowledge{ReceiveBufSize: l.Recv, SendBufSize: l.Send, MaxMessageSize: l.MaxMsg, MaxChunkCount: l.MaxChunks}
}

type c06case struct {
	ID     int    `json:"id"`
	Class  string `json:"class"`
	Mode   int    `json:"mode"` // 1 None (policy None), 2 Sign, 3 SignAndEncrypt (policy Basic256Sha256); 0 = 1
	Client lim    `json:"client"`
	Server lim    `json:"server"`
	// size in bytes of the encoded service message (TypeID + service structure) to send in each direction
	ReqMsg  int `json:"req_msg"`
	RespMsg int `json:"resp_msg"`

	// observations
	Hello      *lim `json:"hello,omitempty"` // as seen on the wire
	Ack        *lim `json:"ack,omitempty"`
	ClientConn *lim `json:"client_conn,omitempty"` // accessors of the two uacp.Conn after the handshake
	ServerConn *lim `json:"server_conn,omitempty"`
	ClientPeer *lim `json:"client_peer,omitempty"` // limits for sending: what the peer announced (maxmsg, maxchunks)
	ServerPeer *lim `json:"server_peer,omitempty"`

	C2S         []uint32 `json:"c2s"` // sizes of the MSG chunks of the request on the wire
	S2C         []uint32 `json:"s2c"`
	ReqOnWire   int      `json:"req_on_wire"`  // sum of body bytes of the request chunks seen on the wire
	RespOnWire  int      `json:"resp_on_wire"` // same for the response
	ReqArrived  bool     `json:"req_arrived"`  // server-side Receive returned the request (right size)
	RespArrived bool     `json:"resp_arrived"` // client handler got the response (right size)
	ClientErr   string   `json:"client_err,omitempty"`
	ClientChan  string   `json:"client_chan_err,omitempty"` // first error the client's secure channel reported on its error channel
	ServerRecv  string   `json:"server_recv_err,omitempty"`
	ServerSend  string   `json:"server_send_err,omitempty"`
	DialErr     string   `json:"dial_err,omitempty"`
	Setup       string   `json:"setup_error,omitempty"`
}

// ---------------------------------------------------------------------------------------------------------
// proxy

type frameRec struct {
	typ  string
	size uint32
}

type proxy struct {
	ln       net.Listener
	upstream string
	mu       sync.Mutex
	c2s, s2c []frameRec
	hello    []byte
	ack      []byte
	wg       sync.WaitGroup
}

func newProxy(upstream string) (*proxy, error) {
	ln, err := net.Listen("tcp", "127.0.0.1:0")
	if err != nil {
		return nil, err
	}
	p := &proxy{ln: ln, upstream: upstream}
	go func() {
		for {
			c, err := ln.Accept()
			if err != nil {
				return
			}
			u, err := net.Dial("tcp", upstream)
			if err != nil {
				c.Close()
				continue
			}
			p.wg.Add(2)
			go p.pump(c, u, true)
			go p.pump(u, c, false)
		}
	}()
	return p, nil
}

func (p *proxy) pump(from, to net.Conn, c2s bool) {
	defer p.wg.Done()
	defer to.(*net.TCPConn).CloseWrite()
	hdr := make([]byte, 8)
	for {
		if _, err := io.ReadFull(from, hdr); err != nil {
			return
		}
		size := binary.LittleEndian.Uint32(hdr[4:])
		if size < 8 || size > 1<<26 {
			to.Write(hdr)
			io.Copy(to, from)
			return
		}
		body := make([]byte, size-8)
		if _, err := io.ReadFull(from, body); err != nil {
			to.Write(hdr)
			return
		}
		p.mu.Lock()
		r := frameRec{string(hdr[:3]), size}
		if c2s {
			p.c2s = append(p.c2s, r)
			if r.typ == "HEL" {
				p.hello = body
			}
		} else {
			p.s2c = append(p.s2c, r)
			if r.typ == "ACK" {
				p.ack = body
			}
		}
		p.mu.Unlock()
		if _, err := to.Write(append(hdr[:8:8], body...)); err != nil {
			return
		}
	}
}

func limFromWire(b []byte) *lim {
	if len(b) < 20 {
		return nil
	}
	return &lim{Recv: binary.LittleEndian.Uint32(b[4:]), Send: binary.LittleEndian.Uint32(b[8:]),
		MaxMsg: binary.LittleEndian.Uint32(b[12:]), MaxChunks: binary.LittleEndian.Uint32(b[16:])}
}

func connLim(c *uacp.Conn) *lim {
	return &lim{Recv: c.ReceiveBufSize(), Send: c.SendBufSize(), MaxMsg: c.MaxMessageSize(), MaxChunks: c.MaxChunkCount()}
}

// ---------------------------------------------------------------------------------------------------------
// messages of a chosen encoded size

var (
	keysOnce         sync.Once
	cliCert, srvCert []byte
	cliKey, srvKey   *rsa.PrivateKey
	keysErr          error
)

func keys() error {
	keysOnce.Do(func() {
		dir := filepath.Join(filepath.Dir(os.Args[0]), "..", "keys")
		cliCert, cliKey, keysErr = scriptsrv.KeyPair(dir, "c06-client", 2048)
		if keysErr == nil {
			srvCert, srvKey, keysErr = scriptsrv.KeyPair(dir, "c06-server", 2048)
		}
	})
	return keysErr
}

// chanCfg: mode 1 = None/None; 2, 3 = Basic256Sha256 Sign / SignAndEncrypt.  The server side always starts from
// None with certificate and key and takes policy and mode from the client's OpenSecureChannel request.
func chanCfg(mode int, server bool) *uasc.Config {
	cfg := &uasc.Config{SecurityPolicyURI: ua.SecurityPolicyURINone, SecurityMode: ua.MessageSecurityModeNone,
		Lifetime: 3600000, RequestTimeout: dl(1500 * time.Millisecond)}
	if mode <= 1 {
		return cfg
	}
	if server {
		cfg.Certificate, cfg.LocalKey = srvCert, srvKey
		return cfg
	}
	cfg.SecurityPolicyURI = ua.SecurityPolicyURIBasic256Sha256
	cfg.SecurityMode = ua.MessageSecurityMode(mode)
	cfg.Certificate, cfg.LocalKey = cliCert, cliKey
	cfg.RemoteCertificate = srvCert
	cfg.Thumbprint = uapolicy.Thumbprint(srvCert)
	return cfg
}

// maxBody is the chunk body size for a send buffer of cs bytes (only used to aim message sizes at chunk boundaries)
func maxBody(mode int, cs uint32) int {
	if mode <= 1 {
		return int(cs) - 25
	}
	return 16*((int(cs)-16)/16) - 8 - 32 - 1
}

func mkRequest(pad int, respMsg int) *ua.ReadRequest {
	return &ua.ReadRequest{
		MaxAge:             float64(respMsg),
		TimestampsToReturn: ua.TimestampsToReturnNeither,
		NodesToRead:        []*ua.ReadValueID{{NodeID: ua.NewStringNodeID(1, strings.Repeat("n", pad)), AttributeID: ua.AttributeIDValue, DataEncoding: &ua.QualifiedName{}}},
	}
}

func mkResponse(handle uint32, pad int) *ua.ReadResponse {
	dv := &ua.DataValue{Value: ua.MustVariant(make([]byte, pad)), EncodingMask: ua.DataValueValue}
	return &ua.ReadResponse{
		ResponseHeader: &ua.ResponseHeader{Timestamp: time.Unix(1700000000, 0), RequestHandle: handle, ServiceDiagnostics: &ua.DiagnosticInfo{}, StringTable: []string{}, AdditionalHeader: ua.NewExtensionObject(nil)},
		Results:        []*ua.DataValue{dv},
	}
}

// encoded size of TypeID + service with padding 1 (the size is linear in the padding for pad >= 1)
var reqBase, respBase int

// runExchange performs one connection + one exchange and fills the observations in.
func runExchange(cs *c06case) {
	ctx, cancel := context.WithTimeout(context.Background(), dl(8*time.Second))
	defer cancel()

	l, err := uacp.Listen(ctx, "opc.tcp://127.0.0.1:0", cs.Server.ack())
	if err != nil {
		cs.Setup = err.Error()
		return
	}
	defer l.Close()
	p, err := newProxy(l.Addr().String())
	if err != nil {
		cs.Setup = err.Error()
		return
	}
	defer p.ln.Close()

	reqPad := cs.ReqMsg - reqBase + 1
	respPad := cs.RespMsg - respBase + 1
	if reqPad < 1 {
		reqPad = 1
	}
	if respPad < 1 {
		respPad = 1
	}

	// ---- server
	srvDone := make(chan struct{})
	var srvMu sync.Mutex
	go func() {
		defer close(srvDone)
		conn, err := l.Accept(ctx)
		if err != nil {
			srvMu.Lock()
			cs.ServerRecv = "accept: " + err.Error()
			srvMu.Unlock()
			return
		}
		defer conn.Close()
		srvMu.Lock()
		cs.ServerConn = connLim(conn)
		cs.ServerPeer = peerLim(conn)
		srvMu.Unlock()
		errch := make(chan error, 8)
		sc, err := uasc.NewServerSecureChannel("opc.tcp://"+l.Addr().String(), conn, chanCfg(cs.Mode, true), errch, 7, 1, 9)
		if err != nil {
			srvMu.Lock()
			cs.ServerRecv = "newchannel: " + err.Error()
			srvMu.Unlock()
			return
		}
		for {
			msg := sc.Receive(ctx)
			if msg.Err != nil {
				srvMu.Lock()
				if msg.Err != io.EOF && cs.ServerRecv == "" {
					cs.ServerRecv = classifyC06(msg.Err)
				}
				srvMu.Unlock()
				return
			}
			req, ok := msg.Request().(*ua.ReadRequest)
			if !ok {
				if msg.Request() == nil { // OPN handled inside Receive
					continue
				}
				if _, ok := msg.Request().(*ua.CloseSecureChannelRequest); ok {
					return
				}
				continue
			}
			srvMu.Lock()
			cs.ReqArrived = len(req.NodesToRead) == 1 && len(req.NodesToRead[0].NodeID.StringID()) == reqPad
			srvMu.Unlock()
			resp := mkResponse(req.RequestHeader.RequestHandle, int(req.MaxAge)-respBase+1)
			if err := sc.SendResponseWithContext(ctx, msg.RequestID, resp); err != nil {
				srvMu.Lock()
				cs.ServerSend = classifyC06(err)
				srvMu.Unlock()
			}
		}
	}()

	// ---- client
	func() {
		d := &uacp.Dialer{ClientACK: cs.Client.ack()}
		url := "opc.tcp://" + p.ln.Addr().String()
		conn, err := d.Dial(ctx, url)
		if err != nil {
			cs.DialErr = classifyC06(err)
			return
		}
		defer conn.Close()
		cs.ClientConn = connLim(conn)
		cs.ClientPeer = peerLim(conn)
		errch := make(chan error, 8)
		var chanMu sync.Mutex
		go func() {
			for e := range errch {
				if e != nil && e != io.EOF {
					chanMu.Lock()
					if cs.ClientChan == "" {
						cs.ClientChan = classifyC06(e)
					}
					chanMu.Unlock()
				}
			}
		}()
		defer func() { time.Sleep(time.Millisecond); chanMu.Lock(); chanMu.Unlock() }()
		sc, err := uasc.NewSecureChannel(url, conn, chanCfg(cs.Mode, false), errch)
		if err != nil {
			cs.DialErr = "newchannel: " + err.Error()
			return
		}
		if err := sc.Open(ctx); err != nil {
			cs.DialErr = "open: " + classifyC06(err)
			return
		}
		defer sc.Close()
		err = sc.SendRequestWithTimeout(ctx, mkRequest(reqPad, cs.RespMsg), nil, dl(1500*time.Millisecond), func(r ua.Response) error {
			rr, ok := r.(*ua.ReadResponse)
			if ok && len(rr.Results) == 1 && rr.Results[0].Value != nil {
				if b, ok := rr.Results[0].Value.Value().([]byte); ok && len(b) == respPad {
					cs.RespArrived = true
				}
			}
			return nil
		})
		if err != nil {
			cs.ClientErr = classifyC06(err)
		}
	}()
	l.Close()
	select {
	case <-srvDone:
	case <-time.After(dl(3 * time.Second)):
	}
	p.ln.Close()
	time.Sleep(2 * time.Millisecond)

	srvMu.Lock()
	defer srvMu.Unlock()
	p.mu.Lock()
	defer p.mu.Unlock()
	cs.Hello, cs.Ack = limFromWire(p.hello), limFromWire(p.ack)
	cs.C2S, cs.S2C = []uint32{}, []uint32{}
	for _, f := range p.c2s {
		if f.typ == "MSG" {
			cs.C2S = append(cs.C2S, f.size)
			cs.ReqOnWire += int(f.size) - 24
		}
	}
	for _, f := range p.s2c {
		if f.typ == "MSG" {
			cs.S2C = append(cs.S2C, f.size)
			cs.RespOnWire += int(f.size) - 24
		}
	}
	if cs.Mode > 1 { // body bytes cannot be read off a secured chunk: report the size the sender set out to send
		cs.ReqOnWire, cs.RespOnWire = 0, 0
		if len(cs.C2S) > 0 {
			cs.ReqOnWire = cs.ReqMsg
		}
		if len(cs.S2C) > 0 {
			cs.RespOnWire = cs.RespMsg
		}
	}
}

func classifyC06(err error) string {
	var sc ua.StatusCode
	var ne net.Error
	msg := err.Error()
	switch {
	case err == io.EOF || errors.Is(err, io.EOF):
		return "eof"
	case errors.Is(err, ua.StatusBadRequestTooLarge):
		return "refused-request-too-large"
	case errors.Is(err, ua.StatusBadResponseTooLarge):
		return "refused-response-too-large"
	case errors.As(err, &sc) && sc == ua.StatusBadTimeout:
		return "timeout"
	case errors.As(err, &ne) && ne.Timeout():
		return "timeout"
	case errors.Is(err, context.DeadlineExceeded):
		return "timeout"
	case strings.Contains(msg, "uacp: message too large"):
		return "uacp-too-large"
	case strings.Contains(msg, "too many chunks"):
		return "too-many-chunks"
	case strings.Contains(msg, "message too large"):
		return "message-too-large"
	case strings.Contains(msg, "connection reset") || strings.Contains(msg, "broken pipe") || strings.Contains(msg, "closed network"):
		return "closed"
	}
	if len(msg) > 80 {
		msg = msg[:80]
	}
	return "other: " + msg
}

// calibrate measures the encoded size of the two messages with padding 1.
func calibrate() error {
	if err := keys(); err != nil {
		return err
	}
	enc := func(typeID uint16, svc interface{}) (int, error) {
		b1, err := ua.Encode(ua.NewFourByteExpandedNodeID(0, typeID))
		if err != nil {
			return 0, err
		}
		b2, err := ua.Encode(svc)
		return len(b1) + len(b2), err
	}
	// the request as newRequestMessage completes it: header with null auth token, timestamp, handle, timeout
	req := mkRequest(1, 0)
	req.RequestHeader = &ua.RequestHeader{AuthenticationToken: ua.NewTwoByteNodeID(0), Timestamp: time.Now(), RequestHandle: 1, TimeoutHint: 1500, AdditionalHeader: ua.NewExtensionObject(nil)}
	n, err := enc(ua.ServiceTypeID(req), req)
	if err != nil {
		return err
	}
	reqBase = n
	resp := mkResponse(1, 1)
	n, err = enc(ua.ServiceTypeID(resp), resp)
	if err != nil {
		return err
	}
	respBase = n
	// check the prediction against the wire once, with default limits
	var cs *c06case
	for attempt := 0; attempt < 4; attempt++ { // a loaded machine may need longer deadlines: never a verdict on the code
		cs = &c06case{Mode: 1, Client: lim{65535, 65535, 0, 0}, Server: lim{65535, 65535, 2097152, 512}, ReqMsg: reqBase + 99, RespMsg: respBase + 999}
		runExchange(cs)
		if cs.ReqArrived && cs.RespArrived {
			break
		}
		scale *= 2
	}
	if !cs.ReqArrived || !cs.RespArrived || cs.ReqOnWire != cs.ReqMsg || cs.RespOnWire != cs.RespMsg {
		b, _ := json.Marshal(cs)
		return fmt.Errorf("calibration exchange failed (predicted sizes %d/%d): %s", cs.ReqMsg, cs.RespMsg, b)
	}
	return nil
}

// ---------------------------------------------------------------------------------------------------------
// generator

func pickBuf(r *rng.R) uint32 {
	return uint32(r.Pick(8192, 8192, 8193, 9000, 16384, 32768, 65535, 65535, 65536, 100000, 1<<20, r.Range(8192, 70000)))
}

// genGrid: multi-chunk messages with body k*max + r, k in 1..6, r in -2..k+1, in one direction (the other direction
// carries a small message), all three modes, symmetric and asymmetric buffers: the largest chunk on the wire must not
// exceed the receive buffer the receiving side announced.
func genGrid(r *rng.R, id int) *c06case {
	cs := &c06case{ID: id, Class: "chunk-grid", Mode: 1 + (id/3)%3}
	cs.Client = lim{uint32(r.Pick(8192, 8193, 9000, 16384, 65535)), uint32(r.Pick(8192, 8200, 9000, 16384, 65535)), 0, 0}
	cs.Server = lim{uint32(r.Pick(8192, 8193, 9000, 16384, 65535)), uint32(r.Pick(8192, 8200, 9000, 16384, 65535)), 2097152, 512}
	k := r.Range(1, 6)
	rr := r.Range(-2, k+1)
	cs.Class = fmt.Sprintf("chunk-grid-mode%d", cs.Mode)
	cs.ReqMsg, cs.RespMsg = reqBase+r.Range(0, 500), respBase+r.Range(0, 500)
	if r.Bool() {
		mb := maxBody(cs.Mode, min(cs.Client.Send, cs.Server.Recv))
		cs.ReqMsg = k*mb + rr
	} else {
		mb := maxBody(cs.Mode, min(cs.Server.Send, cs.Client.Recv))
		cs.RespMsg = k*mb + rr
	}
	return cs
}

func genC06(r *rng.R, id int) *c06case {
	if id%2 == 1 {
		return genGrid(r, id)
	}
	id /= 2
	cs := &c06case{ID: id * 2, Mode: 1}
	if id%5 == 4 {
		cs.Mode = 2 + id%2
	}
	def := lim{65535, 65535, 0, 0}
	sdef := lim{65535, 65535, 2097152, 512}
	cs.Client, cs.Server = def, sdef
	switch id % 9 {
	case 0:
		cs.Class = "symmetric-default"
	case 1: // client buffers smaller than the server's
		cs.Class = "client-smaller-buffers"
		cs.Client.Recv, cs.Client.Send = uint32(r.Pick(8192, 9000, 16384, 32768)), uint32(r.Pick(8192, 9000, 16384, 32768))
	case 2: // server buffers smaller than the client's
		cs.Class = "server-smaller-buffers"
		cs.Server.Recv, cs.Server.Send = uint32(r.Pick(8192, 9000, 16384, 32768)), uint32(r.Pick(8192, 9000, 16384, 32768, 65535))
	case 3: // everything asymmetric
		cs.Class = "asymmetric-buffers"
		cs.Client.Recv, cs.Client.Send, cs.Server.Recv, cs.Server.Send = pickBuf(r), pickBuf(r), pickBuf(r), pickBuf(r)
	case 4: // server message limits
		cs.Class = "server-message-limits"
		cs.Server.MaxMsg = uint32(r.Pick(20000, 70000, 200000))
		cs.Server.MaxChunks = uint32(r.Pick(1, 2, 3, 5))
		cs.Server.Recv = uint32(r.Pick(8192, 65535))
	case 5: // client message limits
		cs.Class = "client-message-limits"
		cs.Client.MaxMsg = uint32(r.Pick(20000, 70000, 200000))
		cs.Client.MaxChunks = uint32(r.Pick(1, 2, 3, 5))
		cs.Client.Recv = uint32(r.Pick(8192, 65535))
	case 6: // zero = unlimited on the server
		cs.Class = "server-unlimited"
		cs.Server.MaxMsg, cs.Server.MaxChunks = uint32(r.Pick(0, 0, 100000)), uint32(r.Pick(0, 0, 4))
	case 8: // outside the property's range: a buffer below the protocol minimum must make the handshake fail
		cs.Class = "below-minimum"
		switch r.Intn(4) {
		case 0:
			cs.Client.Recv = uint32(r.Pick(100, 4096, 8191)) // >= 28 so that the ACK frame itself fits (a local buffer < 8 panics in Receive: C05_small_buffer_panics)
		case 1:
			cs.Client.Send = uint32(r.Pick(0, 100, 4096, 8191))
		case 2:
			cs.Server.Recv = uint32(r.Pick(100, 4096, 8191))
		default:
			cs.Server.Send = uint32(r.Pick(100, 4096, 8191))
		}
	default:
		cs.Class = "mixed"
		cs.Client = lim{pickBuf(r), pickBuf(r), uint32(r.Pick(0, 0, 30000, 100000)), uint32(r.Pick(0, 0, 2, 4))}
		cs.Server = lim{pickBuf(r), pickBuf(r), uint32(r.Pick(0, 30000, 100000, 2097152)), uint32(r.Pick(0, 2, 4, 512))}
	}
	// message sizes around the limits of the configuration
	around := func(dirSend, dirRecv uint32, maxmsg, maxchunks uint32, base int) int {
		cands := []int{base + 10, base + 1000}
		for _, b := range []uint32{dirSend, dirRecv} {
			body := maxBody(cs.Mode, b)
			cands = append(cands, body-1, body, body+1, 2*body, 2*body+1, 3*body-1)
			if maxchunks > 0 && maxchunks < 10 {
				cands = append(cands, int(maxchunks)*body-1, int(maxchunks)*body, int(maxchunks)*body+1, (int(maxchunks)+1)*body+1)
			}
		}
		if maxmsg > 0 && maxmsg <= 300000 {
			cands = append(cands, int(maxmsg)-1, int(maxmsg), int(maxmsg)+1, int(maxmsg)+5000)
		}
		v := cands[r.Intn(len(cands))]
		if v < base {
			v = base
		}
		if v > 1500000 {
			v = 1500000
		}
		return v
	}
	cs.ReqMsg = around(cs.Client.Send, cs.Server.Recv, cs.Server.MaxMsg, cs.Server.MaxChunks, reqBase)
	cs.RespMsg = around(cs.Server.Send, cs.Client.Recv, cs.Client.MaxMsg, cs.Client.MaxChunks, respBase)
	if r.Intn(3) == 0 {
		cs.ReqMsg = reqBase + r.Range(0, 2000) // small request: look at the response direction only
	}
	return cs
}

func c06(seed uint64, n int, casesFile string) {
	if err := calibrate(); err != nil {
		fmt.Fprintln(os.Stderr, "uacpharness c06:", err)
		fmt.Printf("{\"setup_error\": %q}\n", err.Error())
		os.Exit(3)
	}
	var cases []*c06case
	if casesFile != "" {
		f, err := os.Open(casesFile)
		if err != nil {
			fmt.Fprintln(os.Stderr, err)
			os.Exit(2)
		}
		defer f.Close()
		sc := bufio.NewScanner(f)
		sc.Buffer(make([]byte, 1<<20), 1<<26)
		for sc.Scan() {
			line := strings.TrimSpace(sc.Text())
			if line == "" || line[0] != '{' {
				continue
			}
			var in c06case
			if err := json.Unmarshal([]byte(line), &in); err != nil {
				fmt.Fprintln(os.Stderr, "bad case:", err)
				os.Exit(2)
			}
			cases = append(cases, &c06case{ID: in.ID, Class: in.Class, Mode: in.Mode, Client: in.Client, Server: in.Server, ReqMsg: in.ReqMsg, RespMsg: in.RespMsg})
		}
	} else {
		r := rng.New(seed)
		for i := 0; i < n; i++ {
			cases = append(cases, genC06(r, i))
		}
	}
	for _, cs := range cases {
		if cs.Mode == 0 {
			cs.Mode = 1
		}
		if cs.ReqMsg < reqBase {
			cs.ReqMsg = reqBase
		}
		if cs.RespMsg < respBase {
			cs.RespMsg = respBase
		}
	}
	// run with bounded parallelism; print in order
	sem := make(chan struct{}, max(par, 1))
	var wg sync.WaitGroup
	for _, cs := range cases {
		wg.Add(1)
		sem <- struct{}{}
		go func(cs *c06case) {
			defer wg.Done()
			defer func() { <-sem }()
			runExchange(cs)
		}(cs)
	}
	wg.Wait()
	fmt.Printf("{\"calibration\": {\"req_base\": %d, \"resp_base\": %d}}\n", reqBase, respBase)
	for _, cs := range cases {
		enc.Encode(cs)
	}
}
