// schedharness drives the real send side of the secure channel (uasc.SecureChannel: SendRequestWithTimeout,
// dispatcher, renew/open, SendResponseWithContext) against a scripted server, optionally under a forced schedule
// (verifhook scheduling points + go/internal/sched), and prints one JSON observation per line.
package main

import (
	"encoding/json"
	"flag"
	"fmt"
	"os"
	"sync"
)

var (
	outMu sync.Mutex
	enc   = json.NewEncoder(os.Stdout)
)

func emit(v interface{}) {
	outMu.Lock()
	enc.Encode(v)
	outMu.Unlock()
}

type Ev []interface{}

func main() {
	seed := flag.Uint64("seed", 1, "PRNG seed")
	n := flag.Int("n", 20, "number of scenarios")
	sched := flag.String("schedule", "", "c11: schedule to replay (comma separated thread names)")
	flag.Parse()
	if flag.NArg() < 1 {
		fmt.Fprintln(os.Stderr, "usage: schedharness [-seed S] [-n N] c18|c19|c19race|c11|c11resp|c16")
		os.Exit(2)
	}
	switch flag.Arg(0) {
	case "c18":
		c18(*seed, *n)
	case "c18forced":
		c18forcedAll(*seed, *n)
	case "c19":
		c19(*seed, *n)
	case "c19race":
		c19race(*seed, flag.Args()[1:])
	case "c11":
		c11(*seed, *n, *sched)
	case "c11resp":
		c11resp(*seed, *n)
	case "c16":
		c16(*seed, *n, flag.Args()[1:])
	default:
		fmt.Fprintln(os.Stderr, "unknown mode")
		os.Exit(2)
	}
}
