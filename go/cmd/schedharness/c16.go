package main

// C16: the renewal instant as the real code computes it, live renewals with short lifetimes, and the C11 renewal
// window replayed on a signed channel (the server rejects the chunk secured with the superseded token).

import (
	"context"
	"sync"
	"time"

	"github.com/gopcua/opcua/uasc"

	"verifharness/internal/rng"
)

func c16(seed uint64, n int, args []string) {
	what := "all"
	if len(args) > 0 {
		what = args[0]
	}
	if what == "all" || what == "delays" {
		r := rng.New(seed)
		var ls []int64
		for _, ms := range []int64{1, 2, 3, 4, 7, 999, 1000, 1001, 1333, 1334, 1999, 2000, 2001, 2500, 2666, 2667, 3999, 4000, 4001, 60000, 3600000, 4294967295} {
			ls = append(ls, ms*1000000)
		}
		for _, ns := range []int64{8, 9, 10, 11, 15, 16, 1000000001, 2500000003} {
			ls = append(ls, ns)
		}
		for i := 0; i < n; i++ {
			switch r.Intn(3) {
			case 0:
				ls = append(ls, int64(r.Range(1, 10000))*1000000)
			case 1:
				ls = append(ls, int64(r.U64()%4294967295+1)*1000000)
			default:
				ls = append(ls, int64(r.U64()%(1<<52))+8)
			}
		}
		for _, l := range ls {
			emit(map[string]interface{}{"kind": "delay", "lifetime_ns": l, "delay_ns": int64(uasc.VerifRenewalDelay(time.Duration(l)))})
		}
	}
	if what == "all" || what == "live" {
		for _, ms := range []uint32{400, 1000} {
			if err := c16live(ms, 0, 1900*time.Millisecond, 0); err != nil {
				emit(map[string]interface{}{"kind": "error", "scenario": "live", "err": err.Error()})
			}
		}
	}
	if what == "all" || what == "skew" {
		// the server's clock differs from the client's: the token's createdAt is shifted, its lifetime is not
		for _, off := range []time.Duration{500 * time.Millisecond, -400 * time.Millisecond} {
			if err := c16live(1000, 0, 1700*time.Millisecond, off); err != nil {
				emit(map[string]interface{}{"kind": "error", "scenario": "skew", "err": err.Error()})
			}
		}
	}
	if what == "all" || what == "revise" {
		// a server that revises the requested lifetime down (60 s requested, 1 s granted) and up (1 s -> 4 s)
		for _, rr := range [][2]uint32{{60000, 1000}, {1000, 4000}} {
			if err := c16live(rr[0], rr[1], 1700*time.Millisecond, 0); err != nil {
				emit(map[string]interface{}{"kind": "error", "scenario": "revise", "err": err.Error()})
			}
		}
	}
	if what == "all" || what == "pending" {
		if err := c16pending(); err != nil {
			emit(map[string]interface{}{"kind": "error", "scenario": "cancelled-request-then-renewal", "err": err.Error()})
		}
	}
	if what == "all" || what == "signwindow" {
		r := rng.New(seed)
		for _, sp := range []c11spec{
			{name: "sign-renewal-window", chunks: []int{1}, renews: 1, sign: true, order: []string{"S0", "S0", "R0*", "S0*", "R0*"}},
			{name: "sign-renewal-between-requests", chunks: []int{1, 1}, renews: 1, sign: true, order: []string{"S0*", "R0*", "S1*"}},
		} {
			if err := c11run(r, sp); err != nil {
				emit(map[string]interface{}{"kind": "error", "scenario": sp.name, "err": err.Error()})
			}
		}
	}
}

// c16live lets the real renewal timer run with a short lifetime while requests are issued continuously.
func c16live(lifetimeMS, revisedMS uint32, dur time.Duration, srvClock time.Duration) error {
	var revise func(uint32) uint32
	effective := lifetimeMS
	if revisedMS != 0 {
		revise = func(uint32) uint32 { return revisedMS }
		if revisedMS < effective {
			effective = revisedMS
		}
	} else {
		revisedMS = lifetimeMS
	}
	p, err := NewPair(PairOpts{Timeout: 2 * time.Second, LifetimeMS: lifetimeMS, SrvClock: srvClock, Revise: revise})
	if err != nil {
		return err
	}
	defer p.Close()
	stop := make(chan struct{})
	go autoRespond(p, stop)
	defer close(stop)
	stallReset()
	tokenNS := int64(p.V.SchedActiveLifetime()) // the lifetime the client uses for the first token
	var mu sync.Mutex
	total, failed := 0, 0
	var errs []string
	done := make(chan struct{})
	go func() {
		defer close(done)
		end := time.Now().Add(dur)
		i := 0
		for time.Now().Before(end) {
			i++
			err := p.SC.SendRequestWithTimeout(context.Background(), mkRequest(tyWrite, i, 0), nil, time.Second, nil2)
			mu.Lock()
			total++
			if err != nil {
				failed++
				if len(errs) < 5 {
					errs = append(errs, err.Error())
				}
			}
			mu.Unlock()
			time.Sleep(10 * time.Millisecond)
		}
	}()
	<-done
	var opn []float64
	for _, f := range p.Proxy.Frames("c2s") {
		if f.Type == "OPN" {
			opn = append(opn, f.AtMS)
		}
	}
	emit(map[string]interface{}{"kind": "live", "server_clock_offset_ms": float64(srvClock.Milliseconds()), "lifetime_ms": effective,
		"requested_ms": lifetimeMS, "revised_ms": revisedMS, "token_lifetime_ns": tokenNS, "duration_ms": float64(dur.Milliseconds()), "opn_at_ms": opn,
		"requests": total, "failed": failed, "errors": errs, "server_errors": p.Srv.Errs(), "stall_ms": stallMS()})
	return nil
}

// c16pending: a request whose context is already done, then a renewal, then a request. Every request counted in
// pendingReq must be released again on every path, or the renewal waits for ever with the gate locked.
func c16pending() error {
	p, err := NewPair(PairOpts{Timeout: 2 * time.Second})
	if err != nil {
		return err
	}
	defer p.Close()
	stop := make(chan struct{})
	go autoRespond(p, stop)
	defer close(stop)
	stallReset()
	ctx, cancel := context.WithCancel(context.Background())
	cancel()
	first := p.SC.SendRequestWithTimeout(ctx, mkRequest(tyWrite, 1, 0), nil, time.Second, nil2)
	rdone := make(chan error, 1)
	t0 := time.Now()
	go func() { rdone <- p.SC.Renew(context.Background()) }()
	renewDone, renewRes := false, ""
	select {
	case e := <-rdone:
		renewDone = true
		if e != nil {
			renewRes = e.Error()
		}
	case <-time.After(2500 * time.Millisecond):
	}
	renewMS := float64(time.Since(t0).Microseconds()) / 1000
	qdone := make(chan error, 1)
	t1 := time.Now()
	go func() {
		qdone <- p.SC.SendRequestWithTimeout(context.Background(), mkRequest(tyWrite, 2, 0), nil, 200*time.Millisecond, nil2)
	}()
	reqDone, reqRes := false, ""
	select {
	case e := <-qdone:
		reqDone = true
		if e != nil {
			reqRes = e.Error()
		}
	case <-time.After(2500 * time.Millisecond):
	}
	reqMS := float64(time.Since(t1).Microseconds()) / 1000
	fr := ""
	if first != nil {
		fr = first.Error()
	}
	emit(map[string]interface{}{"kind": "pending", "scenario": "cancelled-request-then-renewal", "first_request_result": fr,
		"renew_done": renewDone, "renew_result": renewRes, "renew_ms": renewMS,
		"request_done": reqDone, "request_result": reqRes, "request_ms": reqMS, "request_timeout_ms": 200, "stall_ms": stallMS(),
		"wire": wireOf(p.Proxy.Frames("c2s"))})
	return nil
}
