package main

// C11 / C16: forced schedules of request senders and token renewals on the real client channel; the chunks
// captured on the connection are compared with the model's wire for the same schedule.

import (
	"context"
	"fmt"
	"strings"
	"time"

	"github.com/gopcua/opcua/ua"
	"github.com/gopcua/opcua/uacp"
	"github.com/gopcua/opcua/uasc"

	"verifharness/internal/rng"
	"verifharness/internal/sched"
)

type thr struct {
	name    string
	kind    string // "S" sender, "R" renewer, "P" response sender
	idx     int    // sender index
	mtid    int    // model tid = position in spawn order
	chunks  int
	started bool
	pos     string // last point reached ("" before start)
	done    bool
	freed   bool
	cancel  context.CancelFunc
	failing bool // its context was cancelled while it was writing
	result  chan error
	err     error
}

type bench struct {
	p       *Pair
	ctl     *sched.Controller
	thrs    []*thr
	events  []Ev
	nS      int
	spawned int
	log     []string
	steps   [][]string // (thread, where it was released from, where it settled)
	chunkN  map[string]int
}

var senderSeg = map[string][]string{
	">sc.req.gateOpen":                     {}, // gate seen open, under the gate's mutex; not yet counted
	"sc.req.gateOpen>sc.req.pendingAdded":  {"gate"},
	"sc.req.pendingAdded>sc.req.gotActive": {"active"},
	"sc.req.gotActive>sc.send.locked":      {"locki"},
	"sc.send.locked>sc.send.chunk":         {},
	"sc.send.chunk>sc.send.chunk":          {"chunk"},
	"sc.send.chunk>sc.req.sent":            {"chunk", "unlocki", "done"},
}

var renewSeg = map[string][]string{
	">sc.renew.gateLocked":                   {"renstart", "rengate"},
	"sc.renew.gateLocked>sc.renew.drained":   {"rendrain"},
	"sc.renew.drained>sc.renew.oldLocked":    {"renlock"},
	"sc.renew.oldLocked>sc.req.pendingAdded": {"rencopy"},
	"sc.req.pendingAdded>sc.send.locked":     {},
	"sc.send.locked>sc.send.chunk":           {},
	"sc.send.chunk>sc.req.sent":              {"renopn"},
	"sc.req.sent>sc.req.gotMsg":              {},
	"sc.req.gotMsg>done":                     {"reninstall", "renunlock"},
	"sc.req.sent>sc.req.timerFired":          {},
	"sc.req.timerFired>done":                 {"renfail", "renunlock"},
	"sc.req.sent>done":                       {"renfail", "renunlock"}, // the connection went away while it waited
}

var respSeg = map[string][]string{
	">sc.resp.gotActive":               {"gate", "active", "id"},
	"sc.resp.gotActive>sc.resp.locked": {"locki"},
	"sc.resp.locked>sc.resp.chunk":     {},
	"sc.resp.chunk>sc.resp.chunk":      {"chunk"},
	"sc.resp.chunk>done":               {"chunk", "unlocki", "done"},
}

func (b *bench) addSender(chunks int) *thr {
	t := &thr{name: fmt.Sprintf("S%d", b.nS), kind: "S", idx: b.nS, chunks: chunks, result: make(chan error, 1)}
	b.nS++
	b.thrs = append(b.thrs, t)
	b.ctl.Control(t.name)
	return t
}

func (b *bench) addRenewer(k int) *thr {
	t := &thr{name: fmt.Sprintf("R%d", k), kind: "R", result: make(chan error, 1)}
	b.thrs = append(b.thrs, t)
	b.ctl.Control(t.name)
	return t
}

func (b *bench) byName(n string) *thr {
	for _, t := range b.thrs {
		if t.name == n {
			return t
		}
	}
	return nil
}

func (b *bench) launch(t *thr, maxBody int) {
	t.started = true
	if t.kind != "R" {
		t.mtid = b.spawned
		b.spawned++
	}
	switch t.kind {
	case "S":
		b.events = append(b.events, Ev{"spawn", t.chunks - 1})
		big := 0
		if t.chunks > 1 {
			big = (t.chunks-1)*maxBody + 100
		}
		req := mkRequest(tyWrite, 1000+t.idx, big)
		ctx, cancel := context.WithCancel(context.Background())
		t.cancel = cancel
		go func() {
			b.ctl.Bind(t.name)
			err := b.p.SC.SendRequestWithTimeout(ctx, req, nil, 3*time.Second, func(ua.Response) error { return nil })
			b.ctl.Done()
			t.result <- err
		}()
	case "R":
		go func() {
			b.ctl.Bind(t.name)
			err := b.p.SC.Renew(context.Background())
			b.ctl.Done()
			t.result <- err
		}()
	case "P":
		b.events = append(b.events, Ev{"spawn", t.chunks - 1})
		size := 10
		if t.chunks > 1 {
			size = (t.chunks-1)*maxBody + 100
		}
		id := uint32(5000 + t.idx)
		resp := &ua.ReadResponse{ResponseHeader: respHeader(id, ua.StatusOK, "0:0"),
			Results: []*ua.DataValue{{EncodingMask: ua.DataValueValue, Value: ua.MustVariant(make([]byte, size))}}}
		go func() {
			b.ctl.Bind(t.name)
			err := b.p.Srv.SC().SendResponseWithContext(context.Background(), id, resp)
			b.ctl.Done()
			t.result <- err
		}()
	}
}

// observe polls every thread and emits the model events of the segments completed since the last call.
func (b *bench) observe(first *thr) {
	order := []*thr{}
	if first != nil {
		order = append(order, first)
	}
	for _, t := range b.thrs {
		if t != first {
			order = append(order, t)
		}
	}
	for _, t := range order {
		if !t.started || t.done {
			continue
		}
		now := b.ctl.ParkedAt(t.name)
		if now == "" && b.ctl.IsDone(t.name) {
			now = "done"
		}
		if now == "" || (now == t.pos && now != "sc.send.chunk" && now != "sc.resp.chunk") {
			continue
		}
		if now == t.pos { // same chunk point again: only a new arrival if it was released in between
			if b.chunkN[t.name] == 0 {
				continue
			}
		}
		b.chunkN[t.name] = 0
		key := t.pos + ">" + now
		var seg []string
		var ok bool
		switch t.kind {
		case "S":
			seg, ok = senderSeg[key]
		case "R":
			seg, ok = renewSeg[key]
		case "P":
			seg, ok = respSeg[key]
		}
		if !ok {
			if t.kind == "S" && t.pos == "sc.req.sent" { // after the send phase: response handling, not modelled here
				seg, ok = []string{}, true
			}
		}
		if !ok {
			b.log = append(b.log, fmt.Sprintf("unmapped segment %s of %s", key, t.name))
		}
		if t.failing && key == "sc.send.chunk>sc.req.sent" {
			seg = []string{"fail", "unlocki", "done"} // the chunk loop saw the cancelled context: nothing written
		}
		for _, e := range seg {
			if t.kind == "R" {
				b.events = append(b.events, Ev{e})
			} else {
				b.events = append(b.events, Ev{e, t.mtid})
			}
		}
		t.pos = now
		if now == "done" {
			t.done = true
		}
		if t.kind == "S" && now == "sc.req.sent" { // the send phase is over; let the rest run freely
			b.ctl.Free(t.name)
			t.freed = true
			t.done = true
		}
	}
}

// stepThread launches or releases the thread and waits until it parks, finishes or is taken to be blocked.
func (b *bench) stepThread(t *thr, maxBody int) string {
	if !t.started {
		b.launch(t, maxBody)
	} else {
		if b.ctl.ParkedAt(t.name) == "" {
			return "notparked"
		}
		b.chunkN[t.name] = 1
		if t.kind == "S" && b.ctl.ParkedAt(t.name) == "sc.req.gotActive" {
			// the next thing it does is take its request id (nextRequestID), before it may block on the instance lock
			b.events = append(b.events, Ev{"id", t.mtid})
		}
		b.ctl.Release(t.name)
	}
	st := b.ctl.WaitSettled(t.name, 5*time.Second)
	b.steps = append(b.steps, []string{t.name, t.pos, st})
	b.observe(t)
	// spontaneous arrivals of threads that were blocked
	time.Sleep(2 * time.Millisecond)
	b.observe(nil)
	return st
}

func (b *bench) parkedOrNew() []*thr {
	var out []*thr
	for _, t := range b.thrs {
		if t.done {
			continue
		}
		if !t.started || b.ctl.ParkedAt(t.name) != "" {
			out = append(out, t)
		}
	}
	return out
}

func (b *bench) allDone() bool {
	for _, t := range b.thrs {
		if !t.done {
			return false
		}
	}
	return true
}

// waitFrames waits until the proxy has seen as many frames as the schedule wrote.
func (b *bench) waitFrames(dir string, before int) []Frame {
	want := 0
	for _, e := range b.events {
		if e[0] == "chunk" || e[0] == "renopn" {
			want++
		}
	}
	deadline := time.Now().Add(2 * time.Second)
	for {
		fs := b.p.Proxy.Frames(dir)
		if len(fs)-before >= want || time.Now().After(deadline) {
			time.Sleep(2 * time.Millisecond)
			return b.p.Proxy.Frames(dir)[before:]
		}
		time.Sleep(time.Millisecond)
	}
}

func wireOf(fs []Frame) [][]interface{} {
	out := [][]interface{}{}
	for _, f := range fs {
		out = append(out, []interface{}{f.Seq, f.ReqID, f.Chunk == "F", f.Type == "OPN", f.Token})
	}
	return out
}

// autoRespond answers every request at once so that callers finish.
func autoRespond(p *Pair, stop chan struct{}) {
	for {
		select {
		case <-stop:
			return
		case r := <-p.Srv.reqs:
			if r.Err != nil {
				return
			}
			if _, ok := r.Req.(*ua.CloseSecureChannelRequest); ok {
				continue
			}
			p.Srv.Respond(r.ReqID, mkResponse(tyWrite, r.Handle, ua.StatusOK, "0:0"))
		}
	}
}

type c11spec struct {
	name    string
	chunks  []int    // one sender per entry
	renews  int      // number of renewer threads (sequential renewals)
	order   []string // explicit schedule ("X" one step, "X*" until blocked/done); empty = random
	holdOPN bool     // hold the OPN response in the dispatcher until the renewal has timed out
	sign    bool     // Basic256Sha256 / Sign instead of None
	preset  uint32   // if not 0: the sequence counter of the active instance is set to this before the schedule runs
}

// c11run runs a scenario; forced (explicit order) scenarios are run twice and must come out the same: a schedule the
// controller could not establish (machine too slow for a real timer, a thread not where it was expected) is
// inconclusive and is run again instead of being taken for the intended one.
func c11run(r *rng.R, sp c11spec) error {
	if len(sp.order) == 0 {
		var err error
		for attempt := 0; attempt < 3; attempt++ {
			var c map[string]interface{}
			rr := *r // the same random schedule again
			if c, err = c11once(&rr, sp); err == nil {
				emit(c)
				return nil
			}
		}
		return err
	}
	sig := func(c map[string]interface{}) string {
		return fmt.Sprint(c["steps"], c["events"], len(c["wire"].([][]interface{})), c["results"])
	}
	var runs []map[string]interface{}
	var lastErr error
	for attempt := 0; attempt < 5; attempt++ {
		c, err := c11once(rng.New(1), sp)
		if err != nil {
			lastErr = err
			continue
		}
		for _, prev := range runs {
			if sig(prev) == sig(c) {
				c["attempts"] = attempt + 1
				emit(c)
				return nil
			}
		}
		runs = append(runs, c)
	}
	if len(runs) == 0 {
		return lastErr
	}
	return fmt.Errorf("forced schedule not reproducible in %d runs (inconclusive)", len(runs))
}

func c11once(r *rng.R, sp c11spec) (map[string]interface{}, error) {
	reqTimeout := 5 * time.Second
	if sp.holdOPN {
		reqTimeout = 60 * time.Millisecond
	}
	ack := &uacp.Acknowledge{ReceiveBufSize: 8192, SendBufSize: 8192}
	po := PairOpts{Timeout: reqTimeout, ClientACK: ack}
	if sp.sign {
		cs, err := selfSigned("client")
		if err != nil {
			return nil, err
		}
		ss, err := selfSigned("server")
		if err != nil {
			return nil, err
		}
		cs.Policy, cs.Mode = ua.SecurityPolicyURIBasic256Sha256, ua.MessageSecurityModeSign
		po.Sec, po.SrvSec = cs, ss
	}
	p, err := NewPair(po)
	if err != nil {
		return nil, err
	}
	defer p.Close()
	stop := make(chan struct{})
	go autoRespond(p, stop)
	defer close(stop)
	ctl := sched.New()
	uasc.VerifSetSchedHook(ctl.Hook)
	defer uasc.VerifSetSchedHook(nil)
	defer ctl.FreeAll()
	if sp.holdOPN {
		ctl.Control("disp")
	}
	b := &bench{p: p, ctl: ctl, chunkN: map[string]int{}}
	if sp.preset != 0 {
		p.V.SchedSetActiveSequenceNumber(sp.preset) // e.g. just below the roll-over at 2^32 - 1024
	}
	seqs := p.V.SchedInstanceSeqs()
	seq0 := uint32(0)
	if len(seqs) > 0 {
		seq0 = seqs[len(seqs)-1]
	}
	req0 := p.V.SchedRequestID()
	before := len(p.Proxy.Frames("c2s"))
	maxBody := int(p.Conn.SendBufSize()) - 40
	for _, c := range sp.chunks {
		b.addSender(c)
	}
	for k := 0; k < sp.renews; k++ {
		b.addRenewer(k)
	}
	var schedule []string
	deadlock := false
	if len(sp.order) > 0 {
		for _, o := range sp.order {
			star := strings.HasSuffix(o, "*")
			bang := strings.HasSuffix(o, "!")
			t := b.byName(strings.TrimSuffix(strings.TrimSuffix(o, "*"), "!"))
			if t == nil {
				return nil, fmt.Errorf("unknown thread %s", o)
			}
			for i := 0; i < 40; i++ {
				if t.done {
					break
				}
				if t.started && ctl.ParkedAt(t.name) == "" {
					// not at a point: either still on its way or blocked inside the library
					st := ctl.WaitSettled(t.name, 1500*time.Millisecond)
					b.observe(nil)
					if st == "blocked" {
						// e.g. the renewer waiting for the OPN response: that resolves by itself
						if t.kind == "R" && t.pos == "sc.req.sent" && ctl.WaitParked(t.name, "", 1500*time.Millisecond) != "" {
							b.observe(nil)
						} else {
							b.steps = append(b.steps, []string{t.name, t.pos, "blocked"})
							break
						}
					}
					if st == "done" {
						break
					}
				}
				if bang && t.cancel != nil {
					t.cancel()
					t.failing = true
					schedule = append(schedule, t.name+"!")
				} else {
					schedule = append(schedule, t.name)
				}
				st := b.stepThread(t, maxBody)
				if !star || st == "done" {
					break
				}
			}
		}
	} else {
		for steps := 0; steps < 400 && !b.allDone(); steps++ {
			cand := b.parkedOrNew()
			// renewers run one after the other
			var c2 []*thr
			seenR := false
			for _, t := range cand {
				if t.kind == "R" {
					if seenR {
						continue
					}
					seenR = true
					// an earlier renewer must be done before the next one starts
					busy := false
					for _, o := range b.thrs {
						if o.kind == "R" && o != t && o.started && !o.done {
							busy = true
						}
					}
					if busy && !t.started {
						continue
					}
				}
				c2 = append(c2, t)
			}
			if len(c2) == 0 {
				// everybody is blocked: wait for a spontaneous arrival (e.g. the OPN response)
				time.Sleep(5 * time.Millisecond)
				b.observe(nil)
				if len(b.parkedOrNew()) == 0 {
					waited := 0
					for waited < 300 && len(b.parkedOrNew()) == 0 && !b.allDone() {
						time.Sleep(5 * time.Millisecond)
						b.observe(nil)
						waited++
					}
					if len(b.parkedOrNew()) == 0 && !b.allDone() {
						deadlock = true
						break
					}
				}
				continue
			}
			t := c2[r.Intn(len(c2))]
			if t.kind == "S" && t.chunks > 1 && !t.failing && ctl.ParkedAt(t.name) == "sc.send.chunk" && r.Intn(6) == 0 {
				t.cancel()
				t.failing = true
				schedule = append(schedule, t.name+"!")
			} else {
				schedule = append(schedule, t.name)
			}
			b.stepThread(t, maxBody)
		}
	}
	if sp.holdOPN {
		// the renewal has timed out by now; let the dispatcher go on
		for _, t := range b.thrs {
			if t.kind == "R" && !t.done {
				ctl.WaitParked(t.name, "sc.req.timerFired", 2*time.Second)
				b.observe(nil)
				b.stepThread(t, maxBody)
			}
		}
	}
	// let everything finish
	ctl.FreeAll()
	fs := b.waitFrames("c2s", before)
	results := map[string]string{}
	for _, t := range b.thrs {
		select {
		case err := <-t.result:
			if err != nil {
				results[t.name] = err.Error()
			} else {
				results[t.name] = "ok"
			}
		case <-time.After(4 * time.Second):
			results[t.name] = "no result"
		}
	}
	for _, st := range b.steps {
		if st[2] == "timeout" {
			return nil, fmt.Errorf("thread %s did not settle after %s (inconclusive)", st[0], st[1])
		}
	}
	return map[string]interface{}{"kind": "case", "prop": "C11", "scenario": sp.name, "results": results, "sign": sp.sign, "seq0": seq0, "req0": req0,
		"events": b.events, "wire": wireOf(fs), "schedule": schedule, "steps": b.steps, "deadlock": deadlock, "log": b.log,
		"chunks": sp.chunks, "renews": sp.renews, "full": true, "server_errors": p.Srv.Errs()}, nil
}

func c11(seed uint64, n int, schedArg string) {
	specs := []c11spec{
		// the schedules that produced duplicate numbers / interleaved messages before fix dd66ad2: the sender is
		// counted as soon as it is past the gate, so the renewal now blocks in pendingReq.Wait() until it is done
		{name: "witness-renewal-window", chunks: []int{1}, renews: 1, order: []string{"S0", "S0", "R0*", "S0*", "R0*"}},
		{name: "witness-interleaved-messages", chunks: []int{2, 2}, renews: 1,
			order: []string{"S0", "S0", "R0*", "S1", "S0", "S1", "S0", "S1", "S0", "S0*", "R0*", "S1*"}},
		// a renewal that times out after its OPN was written (fix 5bac950: the counter is handed back)
		{name: "witness-failed-renewal", chunks: []int{1}, renews: 1, holdOPN: true, order: []string{"R0*", "S0*"}},
		// the same across the roll-over of the counter: MSG 4294966272, the failed renewal's OPN takes 1, next MSG 2
		{name: "failed-renewal-at-roll-over", chunks: []int{1, 1}, renews: 1, holdOPN: true, preset: 4294966271,
			order: []string{"S0*", "R0*", "S1*"}},
		// and a renewal that succeeds across the roll-over
		{name: "renewal-at-roll-over", chunks: []int{2, 1}, renews: 1, preset: 4294966270,
			order: []string{"S0*", "R0*", "S1*"}},
		// the gate check and pendingReq.Add are one step: while a sender is inside waitIfLockThen (gate seen open,
		// not yet counted) the renewer cannot even lock the gate
		{name: "witness-gate-atomic", chunks: []int{1}, renews: 1, order: []string{"S0", "R0", "R0", "R0", "S0*", "R0*", "S0*"}},
		// a 3-chunk request whose context is cancelled after its first chunk is on the wire, then another request
		{name: "fail-between-chunks", chunks: []int{3, 1}, renews: 0,
			order: []string{"S0", "S0", "S0", "S0", "S0", "S0", "S0!", "S1*"}},
		// a request whose context is cancelled before its first chunk: its number is used up (known finding)
		{name: "fail-before-first-chunk", chunks: []int{1, 1, 1}, renews: 0,
			order: []string{"S0*", "S1", "S1", "S1", "S1", "S1", "S1!", "S2*"}},
		{name: "renewal-under-load", chunks: []int{3, 2}, renews: 1,
			order: []string{"S0", "S0", "R0", "S0*", "R0*", "S1*"}},
	}
	if schedArg != "" {
		specs = []c11spec{{name: "replay", chunks: []int{1, 2, 1}, renews: 1, order: strings.Split(schedArg, ",")}}
		n = 0
	}
	for _, sp := range specs {
		r := rng.New(seed)
		if err := c11run(r, sp); err != nil {
			emit(map[string]interface{}{"kind": "error", "scenario": sp.name, "err": err.Error()})
		}
	}
	for i := 0; i < n; i++ {
		r := rng.New(seed*5000011 + uint64(i))
		k := r.Range(1, 3)
		var ch []int
		for j := 0; j < k; j++ {
			ch = append(ch, r.Pick(1, 1, 2, 3))
		}
		sp := c11spec{name: fmt.Sprintf("random-%d-%d", seed, i), chunks: ch, renews: r.Pick(0, 1, 1, 2)}
		if r.Intn(3) == 0 { // a third of the schedules run across the roll-over of the sequence counter
			sp.preset = uint32(4294966272 - r.Intn(5))
		}
		if err := c11run(r, sp); err != nil {
			emit(map[string]interface{}{"kind": "error", "scenario": sp.name, "err": err.Error()})
		}
	}
}

// c11resp: concurrent response senders on the server channel (no renewal on that side).
func c11resp(seed uint64, n int) {
	for i := 0; i < n; i++ {
		r := rng.New(seed*3000017 + uint64(i))
		name := fmt.Sprintf("resp-%d-%d", seed, i)
		if err := c11respOne(r, name); err != nil {
			emit(map[string]interface{}{"kind": "error", "scenario": name, "err": err.Error()})
		}
	}
}

func c11respOne(r *rng.R, name string) error {
	ack := &uacp.Acknowledge{ReceiveBufSize: 8192, SendBufSize: 8192}
	sack := &uacp.Acknowledge{ReceiveBufSize: 8192, SendBufSize: 8192, MaxChunkCount: 64, MaxMessageSize: 1 << 20}
	p, err := NewPair(PairOpts{ClientACK: ack, ServerACK: sack, SrvSeq0: uint32(r.Pick(500, 4294966270, 4294966271, 17))})
	if err != nil {
		return err
	}
	defer p.Close()
	ctl := sched.New()
	uasc.VerifSetSchedHook(ctl.Hook)
	defer uasc.VerifSetSchedHook(nil)
	defer ctl.FreeAll()
	b := &bench{p: p, ctl: ctl, chunkN: map[string]int{}}
	sv := uasc.VerifChannel{S: p.Srv.SC()}
	// the server installs its instance after it has written the OPN response: the client may be ahead of it
	var seqs []uint32
	for i := 0; i < 2000 && len(seqs) == 0; i++ {
		seqs = sv.SchedInstanceSeqs()
		if len(seqs) == 0 {
			time.Sleep(time.Millisecond)
		}
	}
	if len(seqs) == 0 {
		return fmt.Errorf("server channel has no instance")
	}
	seq0 := seqs[len(seqs)-1]
	before := len(p.Proxy.Frames("s2c"))
	maxBody := int(sv.Conn().SendBufSize()) - 60
	k := r.Range(2, 3)
	var chunks []int
	for j := 0; j < k; j++ {
		c := r.Pick(1, 2, 2, 3)
		chunks = append(chunks, c)
		t := &thr{name: fmt.Sprintf("P%d", j), kind: "P", idx: j, chunks: c, result: make(chan error, 1)}
		b.nS++
		b.thrs = append(b.thrs, t)
		ctl.Control(t.name)
	}
	var schedule []string
	deadlock := false
	for steps := 0; steps < 200 && !b.allDone(); steps++ {
		cand := b.parkedOrNew()
		if len(cand) == 0 {
			time.Sleep(3 * time.Millisecond)
			b.observe(nil)
			if len(b.parkedOrNew()) == 0 && !b.allDone() {
				time.Sleep(100 * time.Millisecond)
				b.observe(nil)
				if len(b.parkedOrNew()) == 0 && !b.allDone() {
					deadlock = true
					break
				}
			}
			continue
		}
		t := cand[r.Intn(len(cand))]
		schedule = append(schedule, t.name)
		b.stepThread(t, maxBody)
	}
	ctl.FreeAll()
	fs := b.waitFrames("s2c", before)
	emit(map[string]interface{}{"kind": "case", "prop": "C11", "scenario": name, "seq0": seq0, "req0": 0,
		"events": b.events, "wire": wireOf(fs), "schedule": schedule, "steps": b.steps, "deadlock": deadlock, "log": b.log,
		"chunks": chunks, "renews": 0, "full": false})
	return nil
}
