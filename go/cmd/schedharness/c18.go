package main

// C18: concurrent real callers against a scripted server that answers in any order, drops, duplicates, sends
// unsolicited / wrong-typed / faulty responses, with the request id counter near its wrap.

import (
	"context"
	"errors"
	"fmt"
	"io"
	"sort"
	"strconv"
	"strings"
	"sync"
	"time"

	"github.com/gopcua/opcua/ua"
	"github.com/gopcua/opcua/uasc"

	"verifharness/internal/rng"
	"verifharness/internal/sched"
)

const (
	tyWrite = 676
	tyRead  = 634
	tyFault = 397
	tyOPN   = 449
	m32     = 4294967295
)

type Caller struct {
	Tid     int
	Want    int
	Timeout time.Duration
	ctx     context.Context
	cancel  context.CancelFunc
	done    chan struct{}

	mu      sync.Mutex
	Code    int // -1 running, 0 ok, 1 status error, 2 handler error, 3 timeout, 4 ctx, 5 eof, 6 dup, 7 send error
	ID      uint32
	UID     int64 // uid of the consumed response (-1 none, -2 not observable)
	For     int64
	Handle  uint32 // RequestHandle echoed in the consumed response
	GotType int
	ErrText string
	Elapsed time.Duration
	req     ua.Request
}

type invalidType struct{ got, want interface{} }

func (e invalidType) Error() string {
	return fmt.Sprintf("invalid response: got %T want %T", e.got, e.want)
}

func mkRequest(want, marker int, big int) ua.Request {
	nid := ua.NewNumericNodeID(0, uint32(marker))
	if want == tyRead {
		return &ua.ReadRequest{TimestampsToReturn: ua.TimestampsToReturnNeither, NodesToRead: []*ua.ReadValueID{{NodeID: nid, AttributeID: ua.AttributeIDValue, DataEncoding: &ua.QualifiedName{}}}}
	}
	var v *ua.Variant
	if big > 0 {
		v = ua.MustVariant(make([]byte, big))
	} else {
		v = ua.MustVariant(uint32(marker))
	}
	return &ua.WriteRequest{NodesToWrite: []*ua.WriteValue{{NodeID: nid, AttributeID: ua.AttributeIDValue,
		Value: &ua.DataValue{EncodingMask: ua.DataValueValue, Value: v}}}}
}

func markerOf(r ua.Request) int {
	switch x := r.(type) {
	case *ua.ReadRequest:
		if len(x.NodesToRead) > 0 {
			return int(x.NodesToRead[0].NodeID.IntID())
		}
	case *ua.WriteRequest:
		if len(x.NodesToWrite) > 0 {
			return int(x.NodesToWrite[0].NodeID.IntID())
		}
	}
	return -1
}

func parseTag(h *ua.ResponseHeader) (uid, forT int64) {
	uid, forT = -2, -2
	if h == nil || len(h.StringTable) == 0 {
		return
	}
	p := strings.Split(h.StringTable[0], ":")
	if len(p) == 2 {
		uid, _ = strconv.ParseInt(p[0], 10, 64)
		forT, _ = strconv.ParseInt(p[1], 10, 64)
	}
	return
}

// start launches the call in its own goroutine.
func (c *Caller) start(sc *uasc.SecureChannel, marker int, big int, bind func(), unbind func()) {
	c.done = make(chan struct{})
	c.Code = -1
	c.UID, c.For = -1, -1
	c.req = mkRequest(c.Want, marker, big)
	go func() {
		defer close(c.done)
		if bind != nil {
			bind()
		}
		t0 := time.Now()
		h := func(v ua.Response) error {
			c.mu.Lock()
			defer c.mu.Unlock()
			if v != nil {
				c.GotType = int(ua.ServiceTypeID(v))
				c.UID, c.For = parseTag(v.Header())
				if v.Header() != nil {
					c.Handle = v.Header().RequestHandle
				}
			} else {
				c.UID = -2
			}
			// the same test as opcua.safeAssign: exactly the expected pointer type
			switch c.Want {
			case tyRead:
				if _, ok := v.(*ua.ReadResponse); !ok {
					return invalidType{v, &ua.ReadResponse{}}
				}
			default:
				if _, ok := v.(*ua.WriteResponse); !ok {
					return invalidType{v, &ua.WriteResponse{}}
				}
			}
			return nil
		}
		err := sc.SendRequestWithTimeout(c.ctx, c.req, nil, c.Timeout, h)
		el := time.Since(t0)
		if unbind != nil {
			unbind()
		}
		c.mu.Lock()
		c.Elapsed = el
		if hd := c.req.Header(); hd != nil {
			c.ID = hd.RequestHandle
		}
		c.Code = classify(err)
		if err != nil {
			c.ErrText = err.Error()
			if c.Code == 1 && c.UID == -1 {
				c.UID = -2 // an error message without body (abort chunk): which frame it was is not observable
			}
		}
		c.mu.Unlock()
	}()
}

func classify(err error) int {
	var it invalidType
	var sc ua.StatusCode
	switch {
	case err == nil:
		return 0
	case errors.Is(err, context.Canceled), errors.Is(err, context.DeadlineExceeded):
		return 4
	case err == io.EOF:
		return 5
	case errors.As(err, &it):
		return 2
	case errors.As(err, &sc):
		if sc == ua.StatusBadTimeout {
			return 3
		}
		return 1
	case strings.Contains(err.Error(), "duplicate handler registration"):
		return 6
	default:
		return 7
	}
}

func (c *Caller) snapshot() map[string]interface{} {
	c.mu.Lock()
	defer c.mu.Unlock()
	return map[string]interface{}{"t": c.Tid, "code": c.Code, "id": c.ID, "uid": c.UID, "for": c.For, "want": c.Want,
		"got": c.GotType, "handle": c.Handle, "err": c.ErrText, "elapsed_ms": float64(c.Elapsed.Microseconds()) / 1000}
}

func (c *Caller) finished() bool {
	select {
	case <-c.done:
		return true
	default:
		return false
	}
}

// allocIndex is the position (1-based) of id in the sequence of ids handed out after the counter value cur.
func allocIndex(cur, id uint32) uint64 {
	return (uint64(id)+m32-1-uint64(cur)%m32)%m32 + 1
}

func sortedU32(m map[uint32]bool) []uint32 {
	var out []uint32
	for k := range m {
		out = append(out, k)
	}
	sort.Slice(out, func(i, j int) bool { return out[i] < out[j] })
	return out
}

type scen18 struct {
	p       *Pair
	r       *rng.R
	events  []Ev
	callers []*Caller
	idOf    map[int]uint32 // tid -> request id as seen by the server
	probe   map[uint32]bool
	uid     int
	seqRaw  uint32
	start   uint32
	name    string
	sent    []map[string]interface{}

	bigChunks  int // number of chunks the last "okbig" frame took
	oracleOnly bool
	collision  map[string]interface{}
}

func (s *scen18) newCaller(want int, timeout time.Duration) *Caller {
	c := &Caller{Tid: len(s.callers), Want: want, Timeout: timeout}
	c.ctx, c.cancel = context.WithCancel(context.Background())
	s.callers = append(s.callers, c)
	return c
}

// launch starts the callers concurrently and waits until the server has all their requests.
func (s *scen18) launch(cs []*Caller) error {
	cur := s.p.V.SchedRequestID()
	for _, c := range cs {
		c.start(s.p.SC, c.Tid, 0, nil, nil)
	}
	got := map[int]SrvReq{}
	for len(got) < len(cs) {
		r, ok := s.p.Srv.Next(3 * time.Second)
		if !ok || r.Err != nil {
			return fmt.Errorf("server did not receive all requests (%d of %d): %v", len(got), len(cs), r.Err)
		}
		got[markerOf(r.Req)] = r
	}
	sort.Slice(cs, func(i, j int) bool {
		return allocIndex(cur, got[cs[i].Tid].ReqID) < allocIndex(cur, got[cs[j].Tid].ReqID)
	})
	for _, c := range cs {
		s.idOf[c.Tid] = got[c.Tid].ReqID
		s.probe[got[c.Tid].ReqID] = true
		s.events = append(s.events, Ev{"call", c.Tid, 0, c.Want})
	}
	return nil
}

// frame sends one scripted response frame and records it.
func (s *scen18) frame(kind string, id uint32, forT int, want int) error {
	uid := s.uid
	s.uid++
	tag := fmt.Sprintf("%d:%d", uid, forT)
	s.probe[id] = true
	var err error
	ty, bad := want, 0
	switch kind {
	case "ok":
		err = s.p.Srv.Respond(id, mkResponse(want, id, ua.StatusOK, tag))
	case "okbig": // a response that needs several chunks
		r := &ua.WriteResponse{ResponseHeader: respHeader(id, ua.StatusOK, tag), Results: make([]ua.StatusCode, 5000)}
		before := len(s.p.Proxy.Frames("s2c"))
		err = s.p.Srv.Respond(id, r)
		deadline := time.Now().Add(2 * time.Second)
		n := 0
		for time.Now().Before(deadline) {
			fs := s.p.Proxy.Frames("s2c")[before:]
			if len(fs) > 0 && fs[len(fs)-1].Chunk == "F" {
				n = len(fs)
				break
			}
			time.Sleep(time.Millisecond)
		}
		for i := 0; i+1 < n; i++ {
			s.events = append(s.events, Ev{"chunkc", id})
		}
		s.bigChunks = n
	case "wrongtype":
		ty = tyRead + tyWrite - want
		err = s.p.Srv.Respond(id, mkResponse(ty, id, ua.StatusOK, tag))
	case "fault":
		ty, bad = tyFault, 1
		err = s.p.Srv.Respond(id, &ua.ServiceFault{ResponseHeader: respHeader(id, ua.StatusBadNodeIDUnknown, tag)})
	case "badstatus":
		bad = 1
		err = s.p.Srv.Respond(id, mkResponse(want, id, ua.StatusBadUserAccessDenied, tag))
	case "abort":
		ty, bad = -1, 1
		s.seqRaw++
		err = s.p.Srv.RawAbort(id, uint32(ua.StatusBadRequestTooLarge), 100000+s.seqRaw)
	default:
		return fmt.Errorf("unknown frame kind %s", kind)
	}
	s.events = append(s.events, Ev{"frame", id, ty, bad, forT})
	s.sent = append(s.sent, map[string]interface{}{"uid": uid, "kind": kind, "id": id, "for": forT})
	return err
}

func mkResponse(ty int, handle uint32, st ua.StatusCode, tag string) ua.Response {
	if ty == tyRead {
		return &ua.ReadResponse{ResponseHeader: respHeader(handle, st, tag), Results: []*ua.DataValue{{EncodingMask: ua.DataValueValue, Value: ua.MustVariant(uint32(handle))}}}
	}
	return &ua.WriteResponse{ResponseHeader: respHeader(handle, st, tag), Results: []ua.StatusCode{ua.StatusOK}}
}

// barrier: a call that is answered after everything sent before; when it returns the dispatcher has processed
// all earlier frames (one TCP stream, one dispatcher).
func (s *scen18) barrierStart() (*Caller, error) {
	b := s.newCaller(tyWrite, 10*time.Second)
	if err := s.launch([]*Caller{b}); err != nil {
		return nil, err
	}
	return b, nil
}

func (s *scen18) barrierEnd(b *Caller) error {
	if err := s.frame("ok", s.idOf[b.Tid], b.Tid, tyWrite); err != nil {
		return err
	}
	select {
	case <-b.done:
	case <-time.After(3 * time.Second):
		return fmt.Errorf("barrier call did not return (dispatcher wedged?)")
	}
	return nil
}

// settle waits until the set of finished callers is stable, then records the takes.
func (s *scen18) settle(taken map[int]bool) {
	last, stable := -1, 0
	for i := 0; i < 400 && stable < 4; i++ {
		n := 0
		for _, c := range s.callers {
			if c.finished() {
				n++
			}
		}
		if n == last {
			stable++
		} else {
			stable, last = 0, n
		}
		time.Sleep(500 * time.Microsecond)
	}
	for _, c := range s.callers {
		if c.finished() && !taken[c.Tid] {
			taken[c.Tid] = true
			c.mu.Lock()
			code := c.Code
			c.mu.Unlock()
			switch code {
			case 0, 1, 2:
				s.events = append(s.events, Ev{"take", c.Tid})
			case 3:
				s.events = append(s.events, Ev{"timer", c.Tid})
			case 4:
				s.events = append(s.events, Ev{"ctx", c.Tid})
			case 5:
				s.events = append(s.events, Ev{"disc", c.Tid})
			}
		}
	}
}

func (s *scen18) emitCase(label string) {
	var outs []map[string]interface{}
	for _, c := range s.callers {
		o := c.snapshot()
		if o["code"].(int) == -1 {
			o["id"] = s.idOf[c.Tid] // still running: the id the server saw in its request
		}
		outs = append(outs, o)
	}
	hs := s.p.V.HandlerIDs()
	sort.Slice(hs, func(i, j int) bool { return hs[i] < hs[j] })
	if hs == nil {
		hs = []uint32{}
	}
	ev := make([]Ev, len(s.events))
	copy(ev, s.events)
	emit(map[string]interface{}{"kind": "case", "prop": "C18", "scenario": s.name, "label": label, "start": s.start,
		"events": ev, "outcomes": outs, "handlers": hs, "probe": sortedU32(s.probe), "sent": s.sent,
		"rcv_locked": s.p.V.SchedRcvLocked(), "oracle_only": s.oracleOnly, "collision": s.collision})
}

// c18forcedAll runs the forced orderings. The engine runs it in a process of its own with GOMAXPROCS=1: whether a
// channel handed back to a sync.Pool is the one the next request gets depends on the P the two goroutines run on.
func c18forcedAll(seed uint64, reps int) {
	for rep := 0; rep < reps; rep++ {
		for _, w := range []string{"cancel-while-popped", "id-comes-round", "id-of-unsent-request"} {
			if w != "cancel-while-popped" && rep > 0 {
				continue
			}
			var err error
			for attempt := 0; attempt < 3; attempt++ {
				name := fmt.Sprintf("c18forced-%s", w)
				if rep > 0 {
					name = fmt.Sprintf("c18forced-%s-%d", w, rep)
				}
				if err = c18forced(rng.New(seed*77+uint64(len(w))+uint64(rep)), name, w); err == nil {
					break
				}
			}
			if err != nil {
				emit(map[string]interface{}{"kind": "error", "scenario": "c18forced-" + w, "err": err.Error()})
			}
		}
	}
}

func c18(seed uint64, n int) {
	for i := 0; i < n; i++ {
		r := rng.New(seed*1000003 + uint64(i))
		name := fmt.Sprintf("c18-%d-%d", seed, i)
		if err := c18one(r, name); err != nil {
			emit(map[string]interface{}{"kind": "error", "scenario": name, "err": err.Error()})
		}
	}
}

func c18one(r *rng.R, name string) error {
	p, err := NewPair(PairOpts{Timeout: 10 * time.Second})
	if err != nil {
		return err
	}
	defer p.Close()
	var start uint32
	switch r.Intn(4) {
	case 0:
		start = uint32(m32 - r.Intn(6)) // wraps during the scenario (0 is skipped)
	case 1:
		start = uint32(r.U64())
	default:
		start = uint32(r.Intn(1000))
	}
	p.V.SetRequestID(start)
	s := &scen18{p: p, r: r, idOf: map[int]uint32{}, probe: map[uint32]bool{}, start: start, name: name}
	taken := map[int]bool{}
	waves := r.Range(1, 3)
	var finishedIDs []uint32
	var lastFrames [][4]int // kind index, id, for, want
	for w := 0; w < waves; w++ {
		k := r.Range(1, 6)
		var cs []*Caller
		for j := 0; j < k; j++ {
			cs = append(cs, s.newCaller(r.Pick(tyWrite, tyWrite, tyRead), 10*time.Second))
		}
		if err := s.launch(cs); err != nil {
			return err
		}
		b, err := s.barrierStart()
		if err != nil {
			return err
		}
		// pending callers, in random order
		var pend []*Caller
		for _, c := range s.callers {
			if !c.finished() && c != b && !taken[c.Tid] {
				pend = append(pend, c)
			}
		}
		for j := len(pend) - 1; j > 0; j-- {
			q := r.Intn(j + 1)
			pend[j], pend[q] = pend[q], pend[j]
		}
		nf := r.Range(0, len(pend)+2)
		kinds := []string{"ok", "ok", "ok", "wrongtype", "fault", "badstatus", "abort"}
		for f := 0; f < nf; f++ {
			switch x := r.Intn(10); {
			case x < 6 && len(pend) > 0:
				c := pend[0]
				pend = pend[1:]
				kd := kinds[r.Intn(len(kinds))]
				if err := s.frame(kd, s.idOf[c.Tid], c.Tid, c.Want); err != nil {
					return err
				}
				lastFrames = append(lastFrames, [4]int{0, int(s.idOf[c.Tid]), c.Tid, c.Want})
				finishedIDs = append(finishedIDs, s.idOf[c.Tid])
			case x < 7 && len(lastFrames) > 0: // duplicate of an earlier answer
				lf := lastFrames[r.Intn(len(lastFrames))]
				if err := s.frame("ok", uint32(lf[1]), lf[2], lf[3]); err != nil {
					return err
				}
			case x < 8: // unsolicited: an id that nobody holds (a future id or an arbitrary one)
				id := p.V.SchedRequestID() + uint32(r.Range(1, 40))
				if r.Bool() {
					id = uint32(r.U64())
				}
				held := false
				for _, v := range s.idOf {
					if v == id {
						held = true
					}
				}
				if id == 0 || held {
					continue
				}
				if err := s.frame("ok", id, -1, tyWrite); err != nil {
					return err
				}
			case x < 9 && len(finishedIDs) > 0: // late answer for a call that is over
				id := finishedIDs[r.Intn(len(finishedIDs))]
				if err := s.frame("fault", id, -1, tyWrite); err != nil {
					return err
				}
			}
		}
		if err := s.barrierEnd(b); err != nil {
			return err
		}
		s.settle(taken)
		s.emitCase(fmt.Sprintf("wave%d", w))
	}
	// ending
	switch r.Intn(3) {
	case 0:
		for _, c := range s.callers {
			if !c.finished() {
				c.cancel()
			}
		}
	case 1:
		p.Srv.Close()
		s.events = append(s.events, Ev{"eof"})
	default:
		// leave them pending
	}
	s.settle(taken)
	s.emitCase("end")
	for _, c := range s.callers {
		c.cancel()
	}
	return nil
}

func nil2(ua.Response) error { return nil }

// c18forced: two orderings that need control.
//
//	cancel-while-popped: the dispatcher holds A's response between popHandler and the delivery when A gives up; a
//	  new request B is issued; then the dispatcher delivers. B must get ITS response, not A's late one.
//	id-comes-round: the request id counter comes round to the id of a request that is still pending.
func c18forced(r *rng.R, name, which string) error {
	p, err := NewPair(PairOpts{Timeout: 10 * time.Second})
	if err != nil {
		return err
	}
	defer p.Close()
	start := uint32(r.Intn(5000)) + 10
	p.V.SetRequestID(start)
	s := &scen18{p: p, r: r, idOf: map[int]uint32{}, probe: map[uint32]bool{}, start: start, name: name}
	taken := map[int]bool{}
	switch which {
	case "cancel-while-popped":
		ctl := sched.New()
		uasc.VerifSetSchedHook(ctl.Hook)
		defer uasc.VerifSetSchedHook(nil)
		defer ctl.FreeAll()
		a := s.newCaller(tyWrite, 10*time.Second)
		if err := s.launch([]*Caller{a}); err != nil {
			return err
		}
		ctl.Control("disp")
		uid := s.uid
		s.uid++
		if err := p.Srv.Respond(s.idOf[a.Tid], mkResponse(tyWrite, s.idOf[a.Tid], ua.StatusOK, fmt.Sprintf("%d:%d", uid, a.Tid))); err != nil {
			return err
		}
		s.sent = append(s.sent, map[string]interface{}{"uid": uid, "kind": "ok", "id": s.idOf[a.Tid], "for": a.Tid})
		if ctl.WaitParked("disp", "sc.disp.popped", 2*time.Second) == "" {
			return fmt.Errorf("dispatcher did not reach sc.disp.popped")
		}
		s.events = append(s.events, Ev{"net", s.idOf[a.Tid], tyWrite, 0, a.Tid}, Ev{"pop"})
		a.cancel()
		select {
		case <-a.done:
		case <-time.After(2 * time.Second):
			return fmt.Errorf("cancelled call did not return")
		}
		s.settle(taken) // records ["ctx", a]: the give-up path of A has completed, its goroutine has returned
		// new requests, one after the other: whatever A's give-up path handed back is taken by one of them
		var bs []*Caller
		for j := 0; j < 3; j++ {
			b := s.newCaller(tyWrite, 10*time.Second)
			if err := s.launch([]*Caller{b}); err != nil {
				return err
			}
			bs = append(bs, b)
		}
		ctl.Free("disp")
		s.events = append(s.events, Ev{"lock"}, Ev{"deliver"}, Ev{"resume"})
		// the late response is delivered now; wait until the dispatcher is through with it (barrier call)
		bar, err := s.barrierStart()
		if err != nil {
			return err
		}
		if err := s.barrierEnd(bar); err != nil {
			return err
		}
		s.settle(taken)
		s.emitCase("late-response-delivered")
		for _, b := range bs {
			if !b.finished() {
				if err := s.frame("ok", s.idOf[b.Tid], b.Tid, tyWrite); err != nil {
					return err
				}
			}
		}
		for _, b := range bs {
			select {
			case <-b.done:
			case <-time.After(2 * time.Second):
			}
		}
		s.settle(taken)
		s.emitCase("end")
	case "id-of-unsent-request":
		// A has taken its id and holds the instance lock; B takes the next id; A fails before anything is written
		// (its context is done); B is sent and then abandoned; D is issued; the late answer to B must not reach D
		ctl := sched.New()
		uasc.VerifSetSchedHook(ctl.Hook)
		defer uasc.VerifSetSchedHook(nil)
		defer ctl.FreeAll()
		ctl.Control("A", "B")
		a := s.newCaller(tyWrite, 10*time.Second)
		b := s.newCaller(tyWrite, 10*time.Second)
		a.start(p.SC, a.Tid, 0, func() { ctl.Bind("A") }, func() { ctl.Done() })
		if ctl.WaitParked("A", "sc.req.gotActive", 2*time.Second) == "" {
			for i := 0; i < 4 && ctl.ParkedAt("A") != "sc.req.gotActive"; i++ {
				if _, _, err := ctl.Step("A", 2*time.Second, 0); err != nil {
					return fmt.Errorf("A did not reach sc.req.gotActive: %v", err)
				}
			}
		}
		b.start(p.SC, b.Tid, 0, func() { ctl.Bind("B") }, func() { ctl.Done() })
		for i := 0; i < 4 && ctl.ParkedAt("B") != "sc.req.gotActive"; i++ {
			if _, _, err := ctl.Step("B", 2*time.Second, 0); err != nil {
				return fmt.Errorf("B did not reach sc.req.gotActive: %v", err)
			}
		}
		// A: takes its id, locks the instance, stops at sc.send.locked
		if _, now, err := ctl.Step("A", 2*time.Second, 0); err != nil || now != "sc.send.locked" {
			return fmt.Errorf("A did not reach sc.send.locked: %v %s", err, now)
		}
		s.events = append(s.events, Ev{"alloc", a.Tid, 0, a.Want})
		// B: takes the next id, then waits for the instance lock
		if _, now, err := ctl.Step("B", 2*time.Second, 0); err != nil || now != "blocked" {
			return fmt.Errorf("B is not waiting for the instance lock: %v %s", err, now)
		}
		s.events = append(s.events, Ev{"alloc", b.Tid, 0, b.Want})
		// A fails before its first chunk
		a.cancel()
		ctl.Free("A")
		select {
		case <-a.done:
		case <-time.After(2 * time.Second):
			return fmt.Errorf("A did not return")
		}
		a.mu.Lock()
		a.Code = 7
		aid := a.ID
		a.mu.Unlock()
		s.idOf[a.Tid] = aid
		s.probe[aid] = true
		s.events = append(s.events, Ev{"reg", a.Tid}, Ev{"write", a.Tid, false})
		taken[a.Tid] = true
		// B is sent
		ctl.Free("B")
		rq, ok := p.Srv.Next(2 * time.Second)
		if !ok || rq.Err != nil || markerOf(rq.Req) != b.Tid {
			return fmt.Errorf("the server did not get B's request")
		}
		s.idOf[b.Tid] = rq.ReqID
		s.probe[rq.ReqID] = true
		s.events = append(s.events, Ev{"reg", b.Tid}, Ev{"write", b.Tid, true})
		// B's caller gives up
		b.cancel()
		select {
		case <-b.done:
		case <-time.After(2 * time.Second):
			return fmt.Errorf("B did not return")
		}
		s.settle(taken)
		// D
		dd := s.newCaller(tyWrite, 10*time.Second)
		if err := s.launch([]*Caller{dd}); err != nil {
			return err
		}
		// the late answer to B, then the answer to D
		if err := s.frame("ok", s.idOf[b.Tid], b.Tid, tyWrite); err != nil {
			return err
		}
		bar, err := s.barrierStart()
		if err != nil {
			return err
		}
		if err := s.barrierEnd(bar); err != nil {
			return err
		}
		s.settle(taken)
		if !dd.finished() {
			if err := s.frame("ok", s.idOf[dd.Tid], dd.Tid, tyWrite); err != nil {
				return err
			}
			select {
			case <-dd.done:
			case <-time.After(2 * time.Second):
			}
			s.settle(taken)
		}
		s.emitCase("end")
	case "id-comes-round":
		pend := s.newCaller(tyWrite, 10*time.Second)
		if err := s.launch([]*Caller{pend}); err != nil {
			return err
		}
		x := s.idOf[pend.Tid]
		p.V.SetRequestID(x - 1) // as after a full cycle of the 32-bit counter
		q := s.newCaller(tyWrite, 2*time.Second)
		q.start(p.SC, q.Tid, 0, nil, nil)
		var got *SrvReq
		for i := 0; i < 20 && !q.finished() && got == nil; i++ {
			if rq, ok := p.Srv.Next(25 * time.Millisecond); ok && rq.Err == nil {
				got = &rq
			}
		}
		if got != nil { // the colliding request went out after all: answer it
			uid := s.uid
			s.uid++
			p.Srv.Respond(got.ReqID, mkResponse(tyWrite, got.Handle, ua.StatusOK, fmt.Sprintf("%d:%d", uid, q.Tid)))
			s.sent = append(s.sent, map[string]interface{}{"uid": uid, "kind": "ok", "id": got.ReqID, "for": q.Tid})
			time.Sleep(30 * time.Millisecond)
		}
		select {
		case <-q.done:
		case <-time.After(300 * time.Millisecond):
		}
		s.settle(taken)
		q.mu.Lock()
		qid := q.ID
		q.mu.Unlock()
		s.idOf[q.Tid] = qid
		s.probe[qid] = true
		s.oracleOnly = true // the model has no event that sets the counter back
		s.collision = map[string]interface{}{"pending_id": x, "pending_tid": pend.Tid, "new_tid": q.Tid, "new_request_reached_server": got != nil}
		s.emitCase("collision")
	}
	for _, c := range s.callers {
		c.cancel()
	}
	return nil
}
