package main

// A heartbeat that measures how late this process' goroutines are scheduled (machine load): wall-clock oracles
// widen their slack by the stall observed while the scenario ran instead of failing on an overloaded machine.

import (
	"sync"
	"time"
)

var (
	stallMu  sync.Mutex
	stallMax time.Duration
)

func init() {
	go func() {
		for {
			t0 := time.Now()
			time.Sleep(2 * time.Millisecond)
			over := time.Since(t0) - 2*time.Millisecond
			stallMu.Lock()
			if over > stallMax {
				stallMax = over
			}
			stallMu.Unlock()
		}
	}()
}

func stallReset() {
	stallMu.Lock()
	stallMax = 0
	stallMu.Unlock()
}

func stallMS() float64 {
	stallMu.Lock()
	defer stallMu.Unlock()
	return float64(stallMax.Microseconds()) / 1000
}
