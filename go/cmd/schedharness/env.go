package main

// Test bench: real client SecureChannel <-TCP-> frame-recording proxy <-TCP-> scripted server built from the
// public uacp.Listen + uasc.NewServerSecureChannel.

import (
	"context"
	"crypto/rand"
	"crypto/rsa"
	"crypto/x509"
	"crypto/x509/pkix"
	"encoding/binary"
	"fmt"
	"io"
	"math/big"
	"net"
	"net/url"
	"sync"
	"time"

	"github.com/gopcua/opcua/ua"
	"github.com/gopcua/opcua/uacp"
	"github.com/gopcua/opcua/uapolicy"
	"github.com/gopcua/opcua/uasc"

	"verifharness/internal/sched"
)

// ---------------------------------------------------------------- proxy

type Frame struct {
	Dir    string  `json:"dir"` // "c2s" | "s2c"
	Type   string  `json:"type"`
	Chunk  string  `json:"chunk"`
	Size   int     `json:"size"`
	ChanID uint32  `json:"chan"`
	Token  uint32  `json:"token"`
	Seq    uint32  `json:"seq"`
	ReqID  uint32  `json:"req"`
	Parsed bool    `json:"parsed"`
	AtMS   float64 `json:"at_ms"`
}

type Proxy struct {
	ln     net.Listener
	target string
	mu     sync.Mutex
	frames []Frame
	plain  bool // sequence headers readable (None or Sign)
	conns  []net.Conn
	t0     time.Time
	// Revise, if set, rewrites the RevisedLifetime (ms) of every OpenSecureChannelResponse the server sends
	// (security None only): a server that revises the requested lifetime.
	Revise func(lifetimeMS uint32) uint32
}

func NewProxy(target string, plain bool) (*Proxy, error) {
	ln, err := net.Listen("tcp", "127.0.0.1:0")
	if err != nil {
		return nil, err
	}
	p := &Proxy{ln: ln, target: target, plain: plain, t0: time.Now()}
	go p.serve()
	return p, nil
}

func (p *Proxy) Addr() string { return p.ln.Addr().String() }

func (p *Proxy) Close() {
	p.ln.Close()
	p.mu.Lock()
	for _, c := range p.conns {
		c.Close()
	}
	p.mu.Unlock()
}

func (p *Proxy) serve() {
	for {
		c, err := p.ln.Accept()
		if err != nil {
			return
		}
		s, err := net.Dial("tcp", p.target)
		if err != nil {
			c.Close()
			continue
		}
		p.mu.Lock()
		p.conns = append(p.conns, c, s)
		p.mu.Unlock()
		go p.pump(c, s, "c2s")
		go p.pump(s, c, "s2c")
	}
}

func parseFrame(dir string, b []byte, plain bool) Frame {
	f := Frame{Dir: dir, Type: string(b[:3]), Chunk: string(b[3:4]), Size: len(b)}
	switch f.Type {
	case "MSG", "CLO":
		if len(b) >= 24 {
			f.ChanID = binary.LittleEndian.Uint32(b[8:])
			f.Token = binary.LittleEndian.Uint32(b[12:])
			if plain {
				f.Seq = binary.LittleEndian.Uint32(b[16:])
				f.ReqID = binary.LittleEndian.Uint32(b[20:])
				f.Parsed = true
			}
		}
	case "OPN":
		if len(b) >= 16 {
			f.ChanID = binary.LittleEndian.Uint32(b[8:])
			off := 12
			ok := true
			for i := 0; i < 3 && ok; i++ { // policy uri, sender certificate, receiver thumbprint
				if off+4 > len(b) {
					ok = false
					break
				}
				n := int(int32(binary.LittleEndian.Uint32(b[off:])))
				off += 4
				if n > 0 {
					if i == 0 && n < 200 && off+n <= len(b) {
						if string(b[off:off+n]) != ua.SecurityPolicyURINone {
							ok = false // encrypted body
						}
					}
					off += n
				}
			}
			if ok && off+8 <= len(b) {
				f.Seq = binary.LittleEndian.Uint32(b[off:])
				f.ReqID = binary.LittleEndian.Uint32(b[off+4:])
				f.Parsed = true
			}
		}
	}
	return f
}

func (p *Proxy) pump(src, dst net.Conn, dir string) {
	defer dst.Close()
	hdr := make([]byte, 8)
	for {
		if _, err := io.ReadFull(src, hdr); err != nil {
			return
		}
		n := int(binary.LittleEndian.Uint32(hdr[4:]))
		if n < 8 || n > 1<<24 {
			return
		}
		b := make([]byte, n)
		copy(b, hdr)
		if _, err := io.ReadFull(src, b[8:]); err != nil {
			return
		}
		if dir == "s2c" && p.Revise != nil && string(b[:3]) == "OPN" {
			reviseLifetime(b, p.Revise)
		}
		fr := parseFrame(dir, b, p.plain)
		fr.AtMS = float64(time.Since(p.t0).Microseconds()) / 1000
		p.mu.Lock()
		p.frames = append(p.frames, fr)
		p.mu.Unlock()
		if _, err := dst.Write(b); err != nil {
			return
		}
	}
}

// reviseLifetime patches SecurityToken.RevisedLifetime of an unsecured OpenSecureChannelResponse chunk in place.
// The field is followed only by the server nonce (a byte string), so it sits 4 + 4 + len(nonce) bytes from the end.
func reviseLifetime(b []byte, f func(uint32) uint32) {
	fr := parseFrame("s2c", b, true)
	if !fr.Parsed {
		return
	}
	// find the body: three length-prefixed fields after the 12 byte header, then the 8 byte sequence header
	off := 12
	for i := 0; i < 3; i++ {
		n := int(int32(binary.LittleEndian.Uint32(b[off:])))
		off += 4
		if n > 0 {
			off += n
		}
	}
	_, svc, err := ua.DecodeService(b[off+8:])
	if err != nil {
		return
	}
	r, ok := svc.(*ua.OpenSecureChannelResponse)
	if !ok || r.SecurityToken == nil {
		return
	}
	pos := len(b) - 4 - len(r.ServerNonce) - 4
	if pos < 0 || binary.LittleEndian.Uint32(b[pos:]) != r.SecurityToken.RevisedLifetime {
		return
	}
	binary.LittleEndian.PutUint32(b[pos:], f(r.SecurityToken.RevisedLifetime))
}

// Frames returns the secure-channel frames (OPN/MSG/CLO) seen so far in one direction.
func (p *Proxy) Frames(dir string) []Frame {
	p.mu.Lock()
	defer p.mu.Unlock()
	var out []Frame
	for _, f := range p.frames {
		if f.Dir == dir && (f.Type == "MSG" || f.Type == "OPN" || f.Type == "CLO") {
			out = append(out, f)
		}
	}
	return out
}

// ---------------------------------------------------------------- scripted server

type SrvReq struct {
	ReqID  uint32
	Req    ua.Request
	Handle uint32
	Err    error
}

type Server struct {
	ln      *uacp.Listener
	addr    string
	cfg     *uasc.Config
	chanID  uint32
	tokenID uint32
	seq0    uint32

	mu          sync.Mutex
	conn        *uacp.Conn
	sc          *uasc.SecureChannel
	goid        int64         // the goroutine that runs Receive on the server channel
	clockOffset time.Duration // the server's clock runs this much ahead of ours
	reqs        chan SrvReq
	errs        []string
	opns        int
	rdy         chan struct{}
}

type SecOpts struct {
	Policy string
	Mode   ua.MessageSecurityMode
	Cert   []byte
	Key    *rsa.PrivateKey
}

func NewServer(ack *uacp.Acknowledge, sec *SecOpts, chanID, tokenID, seq0 uint32) (*Server, error) {
	ln, err := uacp.Listen(context.Background(), "opc.tcp://127.0.0.1:0/", ack)
	if err != nil {
		return nil, err
	}
	cfg := &uasc.Config{SecurityPolicyURI: ua.SecurityPolicyURINone, SecurityMode: ua.MessageSecurityModeNone,
		Lifetime: uint32(time.Hour / time.Millisecond)}
	if sec != nil {
		cfg.Certificate = sec.Cert
		cfg.LocalKey = sec.Key
	}
	s := &Server{ln: ln, addr: ln.Addr().String(), cfg: cfg, chanID: chanID, tokenID: tokenID, seq0: seq0,
		reqs: make(chan SrvReq, 4096), rdy: make(chan struct{})}
	go s.run()
	return s, nil
}

func (s *Server) run() {
	s.goid = sched.GoID()
	conn, err := s.ln.Accept(context.Background())
	if err != nil {
		s.addErr("accept: " + err.Error())
		close(s.rdy)
		return
	}
	errch := make(chan error, 16)
	sc, err := uasc.NewServerSecureChannel("opc.tcp://"+s.addr+"/", conn, s.cfg, errch, s.chanID, s.seq0, s.tokenID)
	if err != nil {
		s.addErr("channel: " + err.Error())
		close(s.rdy)
		return
	}
	if off := s.clockOffset; off != 0 {
		uasc.VerifChannel{S: sc}.SetClock(func() time.Time { return time.Now().Add(off) })
	}
	s.mu.Lock()
	s.conn, s.sc = conn, sc
	s.mu.Unlock()
	close(s.rdy)
	ctx := context.Background()
	for {
		msg := sc.Receive(ctx)
		if msg.Err == io.EOF {
			s.reqs <- SrvReq{Err: io.EOF}
			return
		}
		if msg.Err != nil {
			// like server.channelBroker: an error from Receive ends the channel
			s.addErr(msg.Err.Error())
			s.reqs <- SrvReq{Err: msg.Err}
			conn.Close()
			return
		}
		r := msg.Request()
		if r == nil {
			s.mu.Lock()
			s.opns++
			s.mu.Unlock()
			continue
		}
		h := uint32(0)
		if r.Header() != nil {
			h = r.Header().RequestHandle
		}
		s.reqs <- SrvReq{ReqID: msg.RequestID, Req: r, Handle: h}
	}
}

func (s *Server) addErr(e string) {
	s.mu.Lock()
	s.errs = append(s.errs, e)
	s.mu.Unlock()
}

func (s *Server) Errs() []string {
	s.mu.Lock()
	defer s.mu.Unlock()
	return append([]string(nil), s.errs...)
}

func (s *Server) OPNs() int {
	s.mu.Lock()
	defer s.mu.Unlock()
	return s.opns
}

func (s *Server) SC() *uasc.SecureChannel {
	<-s.rdy
	s.mu.Lock()
	defer s.mu.Unlock()
	return s.sc
}

// Next waits for the next request.
func (s *Server) Next(timeout time.Duration) (SrvReq, bool) {
	select {
	case r := <-s.reqs:
		return r, true
	case <-time.After(timeout):
		return SrvReq{}, false
	}
}

func (s *Server) Respond(reqID uint32, resp ua.Response) error {
	return s.SC().SendResponseWithContext(context.Background(), reqID, resp)
}

// RawAbort writes an unsecured MSG abort chunk for reqID (None mode only).
func (s *Server) RawAbort(reqID uint32, code uint32, seq uint32) error {
	seq = uasc.VerifChannel{S: s.SC()}.SchedTakeSequenceNumber() // the client rejects numbers that do not increase
	reason := "verif"
	body := make([]byte, 4+4+len(reason))
	binary.LittleEndian.PutUint32(body, code)
	binary.LittleEndian.PutUint32(body[4:], uint32(len(reason)))
	copy(body[8:], reason)
	b := make([]byte, 24+len(body))
	copy(b, "MSGA")
	binary.LittleEndian.PutUint32(b[4:], uint32(len(b)))
	binary.LittleEndian.PutUint32(b[8:], s.chanID)
	binary.LittleEndian.PutUint32(b[12:], s.tokenID)
	binary.LittleEndian.PutUint32(b[16:], seq)
	binary.LittleEndian.PutUint32(b[20:], reqID)
	copy(b[24:], body)
	<-s.rdy
	_, err := s.conn.Write(b)
	return err
}

func (s *Server) Close() {
	s.ln.Close()
	<-s.rdy
	s.mu.Lock()
	c := s.conn
	s.mu.Unlock()
	if c != nil {
		c.Close()
	}
}

func respHeader(handle uint32, status ua.StatusCode, tag string) *ua.ResponseHeader {
	return &ua.ResponseHeader{
		Timestamp:          time.Now(),
		RequestHandle:      handle,
		ServiceResult:      status,
		ServiceDiagnostics: &ua.DiagnosticInfo{},
		StringTable:        []string{tag},
		AdditionalHeader:   ua.NewExtensionObject(nil),
	}
}

// ---------------------------------------------------------------- pair

type Pair struct {
	Srv   *Server
	Proxy *Proxy
	Conn  *uacp.Conn
	SC    *uasc.SecureChannel
	V     uasc.VerifChannel
	ErrCh chan error
	Cfg   *uasc.Config
}

type PairOpts struct {
	ClientACK  *uacp.Acknowledge
	ServerACK  *uacp.Acknowledge
	Timeout    time.Duration // cfg.RequestTimeout
	LifetimeMS uint32
	Sec        *SecOpts // client side security (server gets its own certificate)
	SrvSec     *SecOpts
	SrvSeq0    uint32
	SrvClock   time.Duration       // offset of the server's clock
	Revise     func(uint32) uint32 // the server revises the requested lifetime (ms)
}

func NewPair(o PairOpts) (*Pair, error) {
	if o.Timeout == 0 {
		o.Timeout = 5 * time.Second
	}
	if o.LifetimeMS == 0 {
		o.LifetimeMS = 3600 * 1000
	}
	if o.SrvSeq0 == 0 {
		o.SrvSeq0 = 500
	}
	srv, err := NewServer(o.ServerACK, o.SrvSec, 7001, 9001, o.SrvSeq0)
	if err != nil {
		return nil, err
	}
	srv.clockOffset = o.SrvClock
	plain := o.Sec == nil || o.Sec.Mode != ua.MessageSecurityModeSignAndEncrypt
	px, err := NewProxy(srv.addr, plain)
	if err != nil {
		srv.Close()
		return nil, err
	}
	px.Revise = o.Revise
	endpoint := "opc.tcp://" + px.Addr() + "/"
	d := &uacp.Dialer{Dialer: &net.Dialer{Timeout: 3 * time.Second}, ClientACK: o.ClientACK}
	if d.ClientACK == nil {
		d.ClientACK = &uacp.Acknowledge{ReceiveBufSize: uacp.DefaultReceiveBufSize, SendBufSize: uacp.DefaultSendBufSize}
	}
	ctx, cancel := context.WithTimeout(context.Background(), 5*time.Second)
	defer cancel()
	conn, err := d.Dial(ctx, endpoint)
	if err != nil {
		px.Close()
		srv.Close()
		return nil, fmt.Errorf("dial: %v", err)
	}
	cfg := &uasc.Config{SecurityPolicyURI: ua.SecurityPolicyURINone, SecurityMode: ua.MessageSecurityModeNone,
		Lifetime: o.LifetimeMS, RequestTimeout: o.Timeout}
	if o.Sec != nil {
		cfg.SecurityPolicyURI = o.Sec.Policy
		cfg.SecurityMode = o.Sec.Mode
		cfg.Certificate = o.Sec.Cert
		cfg.LocalKey = o.Sec.Key
		cfg.RemoteCertificate = o.SrvSec.Cert
		cfg.Thumbprint = uapolicy.Thumbprint(o.SrvSec.Cert)
	}
	errch := make(chan error, 64)
	sc, err := uasc.NewSecureChannel(endpoint, conn, cfg, errch)
	if err != nil {
		return nil, err
	}
	if err := sc.Open(ctx); err != nil {
		conn.Close()
		px.Close()
		srv.Close()
		return nil, fmt.Errorf("open: %v", err)
	}
	return &Pair{Srv: srv, Proxy: px, Conn: conn, SC: sc, V: uasc.VerifChannel{S: sc}, ErrCh: errch, Cfg: cfg}, nil
}

func (p *Pair) Close() {
	p.Conn.Close()
	p.Proxy.Close()
	p.Srv.Close()
}

// ---------------------------------------------------------------- certificates (secured pairs)

func selfSigned(name string) (*SecOpts, error) {
	key, err := rsa.GenerateKey(rand.Reader, 2048)
	if err != nil {
		return nil, err
	}
	u, _ := url.Parse("urn:verif:" + name)
	tmpl := &x509.Certificate{
		SerialNumber:          big.NewInt(time.Now().UnixNano()),
		Subject:               pkix.Name{CommonName: name, Organization: []string{"verif"}},
		NotBefore:             time.Now().Add(-time.Hour),
		NotAfter:              time.Now().Add(24 * time.Hour),
		KeyUsage:              x509.KeyUsageDigitalSignature | x509.KeyUsageKeyEncipherment | x509.KeyUsageDataEncipherment | x509.KeyUsageCertSign,
		ExtKeyUsage:           []x509.ExtKeyUsage{x509.ExtKeyUsageServerAuth, x509.ExtKeyUsageClientAuth},
		BasicConstraintsValid: true,
		IsCA:                  true,
		URIs:                  []*url.URL{u},
		DNSNames:              []string{"localhost"},
		IPAddresses:           []net.IP{net.ParseIP("127.0.0.1")},
	}
	der, err := x509.CreateCertificate(rand.Reader, tmpl, tmpl, &key.PublicKey, key)
	if err != nil {
		return nil, err
	}
	return &SecOpts{Cert: der, Key: key}, nil
}

// RawMsg writes an unsecured single-chunk MSG carrying an arbitrary service body (None mode only).
func (s *Server) RawMsg(reqID, seq uint32, svc interface{}) error {
	seq = uasc.VerifChannel{S: s.SC()}.SchedTakeSequenceNumber() // the client rejects numbers that do not increase
	typeID := ua.ServiceTypeID(svc)
	m := &uasc.Message{
		MessageHeader: &uasc.MessageHeader{
			Header:                  uasc.NewHeader(uasc.MessageTypeMessage, uasc.ChunkTypeFinal, s.chanID),
			SymmetricSecurityHeader: uasc.NewSymmetricSecurityHeader(s.tokenID),
			SequenceHeader:          uasc.NewSequenceHeader(seq, reqID),
		},
		TypeID:  ua.NewFourByteExpandedNodeID(0, typeID),
		Service: svc,
	}
	b, err := m.Encode()
	if err != nil {
		return err
	}
	<-s.rdy
	_, err = s.conn.Write(b)
	return err
}
