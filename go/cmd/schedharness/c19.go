package main

// C19: timeouts, cancellation, disconnects and send failures against a delaying scripted server; and (c19race)
// the orderings of {response, timer} around the dispatcher hand-off forced through the scheduling points.

import (
	"context"
	"fmt"
	"time"

	"github.com/gopcua/opcua/ua"
	"github.com/gopcua/opcua/uacp"
	"github.com/gopcua/opcua/uasc"

	"verifharness/internal/rng"
	"verifharness/internal/sched"
)

func newScen(p *Pair, r *rng.R, name string) *scen18 {
	start := p.V.SchedRequestID()
	return &scen18{p: p, r: r, idOf: map[int]uint32{}, probe: map[uint32]bool{}, start: start, name: name}
}

// emitC19 adds what the C19 oracle needs: per call the timeout, when it was cancelled, whether the server
// answered it in time on a channel that should be healthy.
func (s *scen18) emitC19(label string, extra map[string]interface{}) {
	var outs []map[string]interface{}
	for _, c := range s.callers {
		o := c.snapshot()
		if o["code"].(int) == -1 {
			o["id"] = s.idOf[c.Tid]
		}
		o["timeout_ms"] = float64(c.Timeout.Microseconds()) / 1000
		outs = append(outs, o)
	}
	hs := s.p.V.HandlerIDs()
	if hs == nil {
		hs = []uint32{}
	}
	for i := range hs {
		for j := i + 1; j < len(hs); j++ {
			if hs[j] < hs[i] {
				hs[i], hs[j] = hs[j], hs[i]
			}
		}
	}
	ev := make([]Ev, len(s.events))
	copy(ev, s.events)
	m := map[string]interface{}{"kind": "case", "prop": "C19", "scenario": s.name, "label": label, "start": s.start,
		"events": ev, "outcomes": outs, "handlers": hs, "probe": sortedU32(s.probe), "sent": s.sent,
		"rcv_locked": s.p.V.SchedRcvLocked(), "leniency_ms": float64(uasc.VerifTimeoutLeniency().Microseconds()) / 1000,
		"stall_ms": stallMS()}
	for k, v := range extra {
		m[k] = v
	}
	emit(m)
}

func (s *scen18) wait(c *Caller, d time.Duration) bool {
	select {
	case <-c.done:
		return true
	case <-time.After(d):
		return false
	}
}

// healthy call: sent, answered at once, must succeed.
func (s *scen18) healthyCall(taken map[int]bool) (*Caller, error) {
	b := s.newCaller(tyWrite, 3*time.Second)
	if err := s.launch([]*Caller{b}); err != nil {
		return nil, err
	}
	if err := s.frame("ok", s.idOf[b.Tid], b.Tid, tyWrite); err != nil {
		return nil, err
	}
	s.wait(b, 4*time.Second)
	s.settle(taken)
	return b, nil
}

func c19(seed uint64, n int) {
	for i := 0; i < n; i++ {
		r := rng.New(seed*7000003 + uint64(i))
		name := fmt.Sprintf("c19-%d-%d", seed, i)
		if err := c19one(r, name, i%8); err != nil {
			emit(map[string]interface{}{"kind": "error", "scenario": name, "err": err.Error()})
		}
	}
}

func c19one(r *rng.R, name string, which int) error {
	stallReset()
	po := PairOpts{Timeout: 10 * time.Second}
	if which == 7 { // small buffers: a large response takes several chunks
		po.ClientACK = &uacp.Acknowledge{ReceiveBufSize: 8192, SendBufSize: 8192}
		po.ServerACK = &uacp.Acknowledge{ReceiveBufSize: 8192, SendBufSize: 8192, MaxChunkCount: 64, MaxMessageSize: 1 << 20}
	}
	p, err := NewPair(po)
	if err != nil {
		return err
	}
	defer p.Close()
	p.V.SetRequestID(uint32(r.Intn(5000)))
	s := newScen(p, r, name)
	taken := map[int]bool{}
	expectOK := []int{}
	switch which {
	case 7: // late MULTI-CHUNK responses to requests nobody waits for any more: timed out, cancelled, sent without handler
		a := s.newCaller(tyWrite, time.Duration(r.Range(20, 60))*time.Millisecond) // times out
		c := s.newCaller(tyWrite, 5*time.Second)                                   // cancelled
		if err := s.launch([]*Caller{a, c}); err != nil {
			return err
		}
		// a request without a response handler
		nh := mkRequest(tyWrite, 9000, 0)
		if err := p.SC.SendRequestWithTimeout(context.Background(), nh, nil, time.Second, nil); err != nil {
			return fmt.Errorf("request without handler: %v", err)
		}
		rq, ok := p.Srv.Next(2 * time.Second)
		if !ok || rq.Err != nil {
			return fmt.Errorf("server did not get the request without handler")
		}
		nhID := rq.ReqID
		s.probe[nhID] = true
		// model: a call that allocates an id and writes, with no handler: alloc only (nothing registered)
		nhT := s.newCaller(tyWrite, time.Second)
		nhT.done = make(chan struct{})
		close(nhT.done)
		nhT.Code, nhT.UID, nhT.For = -1, -1, -1
		s.idOf[nhT.Tid] = nhID
		s.events = append(s.events, Ev{"alloc", nhT.Tid, 0, tyWrite})
		taken[nhT.Tid] = true
		c.cancel()
		if !s.wait(a, 3*time.Second) || !s.wait(c, 3*time.Second) {
			return fmt.Errorf("the calls did not return")
		}
		s.settle(taken)
		// now the late answers, each in several chunks
		for _, x := range []struct {
			id  uint32
			tid int
		}{{s.idOf[a.Tid], a.Tid}, {s.idOf[c.Tid], c.Tid}, {nhID, -1}} {
			if err := s.frame("okbig", x.id, x.tid, tyWrite); err != nil {
				return err
			}
			if s.bigChunks < 2 {
				return fmt.Errorf("the late response took %d chunk(s), wanted several", s.bigChunks)
			}
		}
		b, err := s.healthyCall(taken)
		if err != nil {
			return err
		}
		s.emitC19("after-late-multichunk", map[string]interface{}{"expect_ok": []int{b.Tid}, "chunks_per_late_response": s.bigChunks})
	case 0, 5: // timeouts: k calls with different timeouts, some answered, the rest time out; late answers follow
		k := r.Range(1, 4)
		var cs []*Caller
		for j := 0; j < k; j++ {
			cs = append(cs, s.newCaller(tyWrite, time.Duration(r.Range(20, 120))*time.Millisecond))
		}
		if err := s.launch(cs); err != nil {
			return err
		}
		answered := map[int]bool{}
		for _, c := range cs {
			if r.Intn(3) == 0 {
				answered[c.Tid] = true
				expectOK = append(expectOK, c.Tid)
				if err := s.frame("ok", s.idOf[c.Tid], c.Tid, tyWrite); err != nil {
					return err
				}
			}
		}
		for _, c := range cs {
			if !s.wait(c, 3*time.Second) {
				return fmt.Errorf("call %d did not return", c.Tid)
			}
		}
		s.settle(taken)
		s.emitC19("returned", map[string]interface{}{"expect_ok": expectOK})
		for _, c := range cs { // late answers for the calls that timed out
			if !answered[c.Tid] {
				if err := s.frame("ok", s.idOf[c.Tid], c.Tid, tyWrite); err != nil {
					return err
				}
			}
		}
		b, err := s.healthyCall(taken)
		if err != nil {
			return err
		}
		expectOK = append(expectOK, b.Tid)
		s.emitC19("after-late", map[string]interface{}{"expect_ok": expectOK})
	case 1: // cancellation
		a := s.newCaller(tyWrite, 5*time.Second)
		if err := s.launch([]*Caller{a}); err != nil {
			return err
		}
		delay := time.Duration(r.Range(5, 40)) * time.Millisecond
		time.Sleep(delay)
		t0 := time.Now()
		a.cancel()
		if !s.wait(a, 3*time.Second) {
			return fmt.Errorf("cancelled call did not return")
		}
		lat := time.Since(t0)
		s.settle(taken)
		if err := s.frame("ok", s.idOf[a.Tid], a.Tid, tyWrite); err != nil {
			return err
		}
		b, err := s.healthyCall(taken)
		if err != nil {
			return err
		}
		s.emitC19("cancel", map[string]interface{}{"expect_ok": []int{b.Tid}, "cancel_latency_ms": float64(lat.Microseconds()) / 1000})
	case 2: // disconnect
		k := r.Range(1, 4)
		var cs []*Caller
		for j := 0; j < k; j++ {
			cs = append(cs, s.newCaller(tyWrite, 5*time.Second))
		}
		if err := s.launch(cs); err != nil {
			return err
		}
		t0 := time.Now()
		p.Srv.Close()
		s.events = append(s.events, Ev{"eof"})
		for _, c := range cs {
			if !s.wait(c, 3*time.Second) {
				return fmt.Errorf("call %d did not return after the disconnect", c.Tid)
			}
		}
		lat := time.Since(t0)
		s.settle(taken)
		s.emitC19("disconnect", map[string]interface{}{"expect_ok": []int{}, "disconnect_latency_ms": float64(lat.Microseconds()) / 1000})
	case 3: // send failure: the context is already done when the request is to be written
		a := s.newCaller(tyWrite, 2*time.Second)
		a.cancel()
		a.start(p.SC, a.Tid, 0, nil, nil)
		if !s.wait(a, 3*time.Second) {
			return fmt.Errorf("call with a done context did not return")
		}
		a.mu.Lock()
		a.Code = 7 // reclassified below if the server saw the request after all
		id := a.ID
		a.mu.Unlock()
		s.idOf[a.Tid] = id
		s.probe[id] = true
		s.events = append(s.events, Ev{"alloc", a.Tid, 0, a.Want}, Ev{"reg", a.Tid}, Ev{"write", a.Tid, false})
		taken[a.Tid] = true
		b, err := s.healthyCall(taken)
		if err != nil {
			return err
		}
		s.emitC19("ctx-done-before-send", map[string]interface{}{"expect_ok": []int{b.Tid}})
	case 6: // a renewal and a short request while a long request is outstanding (written, unanswered)
		a := s.newCaller(tyWrite, 1500*time.Millisecond)
		if err := s.launch([]*Caller{a}); err != nil {
			return err
		}
		opener := s.newCaller(tyOPN, 10*time.Second)
		opener.done = make(chan struct{})
		opener.Code, opener.UID, opener.For = -1, -1, -1
		idR := p.V.SchedRequestID() + 1
		t0 := time.Now()
		var rerr error
		go func() {
			defer close(opener.done)
			rerr = p.SC.Renew(context.Background())
		}()
		time.Sleep(20 * time.Millisecond)
		// a short request issued while the renewal is (or should already be) through
		b := s.newCaller(tyWrite, 100*time.Millisecond)
		b.start(p.SC, b.Tid, 0, nil, nil)
		answered := false
		for !answered && !b.finished() {
			if rq, ok := p.Srv.Next(50 * time.Millisecond); ok && rq.Err == nil && markerOf(rq.Req) == b.Tid {
				s.idOf[b.Tid] = rq.ReqID
				s.probe[rq.ReqID] = true
				answered = true
			}
		}
		s.wait(opener, 4*time.Second)
		renewMS := float64(time.Since(t0).Microseconds()) / 1000
		opener.mu.Lock()
		opener.Code = classify(rerr)
		opener.ID = idR
		opener.UID = -2 // which frame open() consumed is not observable from outside
		opener.Elapsed = time.Since(t0)
		opener.mu.Unlock()
		s.idOf[opener.Tid] = idR
		s.probe[idR] = true
		s.events = append(s.events, Ev{"alloc", opener.Tid, 1, tyOPN}, Ev{"reg", opener.Tid}, Ev{"write", opener.Tid, true},
			Ev{"frame", idR, tyOPN, 0, opener.Tid}, Ev{"take", opener.Tid}, Ev{"resume"})
		s.uid++ // the server's own OpenSecureChannelResponse
		taken[opener.Tid] = true
		if answered {
			s.events = append(s.events, Ev{"call", b.Tid, 0, b.Want})
			if err := s.frame("ok", s.idOf[b.Tid], b.Tid, tyWrite); err != nil {
				return err
			}
		}
		s.wait(b, 4*time.Second)
		s.wait(a, 4*time.Second)
		s.settle(taken)
		s.emitC19("renewal-while-outstanding", map[string]interface{}{"expect_ok": []int{b.Tid}, "renew_ms": renewMS, "oracle_only": !answered})
	case 4: // send failure: the TCP write fails
		b, err := s.healthyCall(taken)
		if err != nil {
			return err
		}
		p.Conn.TCPConn.CloseWrite()
		a := s.newCaller(tyWrite, 2*time.Second)
		a.start(p.SC, a.Tid, 0, nil, nil)
		if !s.wait(a, 3*time.Second) {
			return fmt.Errorf("call on a half-closed connection did not return")
		}
		a.mu.Lock()
		id := a.ID
		a.mu.Unlock()
		s.idOf[a.Tid] = id
		s.probe[id] = true
		s.events = append(s.events, Ev{"alloc", a.Tid, 0, a.Want}, Ev{"reg", a.Tid}, Ev{"write", a.Tid, false})
		taken[a.Tid] = true
		s.emitC19("write-fails", map[string]interface{}{"expect_ok": []int{b.Tid}})
	}
	for _, c := range s.callers {
		c.cancel()
	}
	return nil
}

// ------------------------------------------------------------------------------------------------ forced orderings

func stepUntilBlocked(ctl *sched.Controller, name string, max int) (string, []string) {
	var passed []string
	for i := 0; i < max; i++ {
		from, now, err := ctl.Step(name, 2*time.Second, 40*time.Millisecond)
		if err != nil {
			return "error: " + err.Error(), passed
		}
		passed = append(passed, from)
		if now == "blocked" || now == "done" {
			return now, passed
		}
	}
	return "max", passed
}

func c19race(seed uint64, which []string) {
	if len(which) == 0 || which[0] == "all" {
		// ("opn-after-open-gave-up" is run in a process of its own: before fix 069bea7 it killed the process)
		which = []string{"pop-timer-deliver", "pop-deliver-timer", "opn-timeout-race", "unsolicited-opn", "fail-between-chunks"}
	}
	for i, w := range which {
		name := fmt.Sprintf("c19race-%s", w)
		r := rng.New(seed*9000011 + uint64(i))
		// a forced ordering that could not be set up (the machine was too slow for the real timers involved) is
		// tried again; only a scenario that cannot be set up three times in a row is reported
		var err error
		for attempt := 0; attempt < 3; attempt++ {
			r = rng.New(seed*9000011 + uint64(i))
			if err = c19raceOne(r, name, w); err == nil {
				break
			}
			time.Sleep(200 * time.Millisecond)
		}
		if err != nil {
			emit(map[string]interface{}{"kind": "error", "scenario": name, "err": err.Error()})
		}
	}
}

// c19opnLate: on a signed channel the response to a renewal is held inside readChunk, after the dispatcher has
// looked at openingInstance, until the renewal has timed out and open() has reset the field; then it goes on.
// Before fix 069bea7 the client died there with a nil pointer dereference.
func c19opnLate(name string) error {
	cs, err := selfSigned("client")
	if err != nil {
		return err
	}
	ss, err := selfSigned("server")
	if err != nil {
		return err
	}
	cs.Policy, cs.Mode = ua.SecurityPolicyURIBasic256Sha256, ua.MessageSecurityModeSign
	p, err := NewPair(PairOpts{Timeout: 150 * time.Millisecond, Sec: cs, SrvSec: ss})
	if err != nil {
		return err
	}
	defer p.Close()
	ctl := sched.New()
	ctl.BindID(p.Srv.goid, "server") // the server's Receive goroutine passes the same points; leave it alone
	uasc.VerifSetSchedHook(ctl.Hook)
	defer uasc.VerifSetSchedHook(nil)
	defer ctl.FreeAll()
	ctl.Control("recv")
	done := make(chan error, 1)
	t0 := time.Now()
	go func() { done <- p.SC.Renew(context.Background()) }()
	if ctl.WaitParked("recv", "sc.recv.openingChecked", 3*time.Second) == "" {
		return fmt.Errorf("dispatcher did not reach sc.recv.openingChecked with the OPN response")
	}
	var rerr error
	select {
	case rerr = <-done:
	case <-time.After(3 * time.Second):
		return fmt.Errorf("Renew did not return")
	}
	renewMS := float64(time.Since(t0).Microseconds()) / 1000
	ctl.Free("recv") // the dispatcher goes on with the response nobody waits for any more
	time.Sleep(50 * time.Millisecond)
	res := "ok"
	if rerr != nil {
		res = rerr.Error()
	}
	emit(map[string]interface{}{"kind": "survived", "prop": "C19", "scenario": name, "renew_result": res, "renew_elapsed_ms": renewMS,
		"note": "the client process is alive after the late OpenSecureChannelResponse went through readChunk"})
	return nil
}

// c19failBetweenChunks: a three-chunk request whose context is cancelled after its first chunk is on the wire.
// The call returns an error; its handler must be gone and a later request must be answered.
func c19failBetweenChunks(r *rng.R, name string) error {
	ack := &uacp.Acknowledge{ReceiveBufSize: 8192, SendBufSize: 8192}
	p, err := NewPair(PairOpts{Timeout: 5 * time.Second, ClientACK: ack})
	if err != nil {
		return err
	}
	defer p.Close()
	ctl := sched.New()
	uasc.VerifSetSchedHook(ctl.Hook)
	defer uasc.VerifSetSchedHook(nil)
	defer ctl.FreeAll()
	p.V.SetRequestID(uint32(r.Intn(5000)))
	s := newScen(p, r, name)
	taken := map[int]bool{}
	a := s.newCaller(tyWrite, 3*time.Second)
	ctl.Control("A")
	big := 2*(int(p.Conn.SendBufSize())-40) + 100
	a.start(p.SC, a.Tid, big, func() { ctl.Bind("A") }, func() { ctl.Done() })
	chunkArrivals := 0
	for i := 0; i < 12 && chunkArrivals < 2; i++ {
		_, now, err := ctl.Step("A", 2*time.Second, 0)
		if err != nil {
			return fmt.Errorf("sender did not reach the chunk loop: %v", err)
		}
		if now == "sc.send.chunk" {
			chunkArrivals++
		}
		if now == "done" {
			return fmt.Errorf("sender finished before it could be cancelled")
		}
	}
	if chunkArrivals < 2 {
		return fmt.Errorf("sender did not reach its second chunk")
	}
	a.cancel() // one chunk is on the wire; the loop sees the cancelled context before the second
	ctl.Free("A")
	if !s.wait(a, 3*time.Second) {
		return fmt.Errorf("cancelled sender did not return")
	}
	a.mu.Lock()
	a.Code = 7 // the send failed (ctx) after the handler had been registered
	id := a.ID
	a.mu.Unlock()
	s.idOf[a.Tid] = id
	s.probe[id] = true
	s.events = append(s.events, Ev{"alloc", a.Tid, 0, a.Want}, Ev{"reg", a.Tid}, Ev{"write", a.Tid, false})
	taken[a.Tid] = true
	s.emitC19("send-failed-between-chunks", map[string]interface{}{"expect_ok": []int{}, "disp": -1})
	b, err := s.healthyCall(taken)
	if err != nil {
		return err
	}
	s.emitC19("after", map[string]interface{}{"expect_ok": []int{b.Tid}, "disp": -1})
	for _, c := range s.callers {
		c.cancel()
	}
	return nil
}

func c19raceOne(r *rng.R, name, which string) error {
	stallReset()
	if which == "opn-after-open-gave-up" {
		return c19opnLate(name)
	}
	if which == "fail-between-chunks" {
		return c19failBetweenChunks(r, name)
	}
	reqTimeout := 10 * time.Second
	if which == "opn-timeout-race" {
		reqTimeout = 60 * time.Millisecond
	}
	p, err := NewPair(PairOpts{Timeout: reqTimeout})
	if err != nil {
		return err
	}
	defer p.Close()
	ctl := sched.New()
	uasc.VerifSetSchedHook(ctl.Hook)
	defer uasc.VerifSetSchedHook(nil)
	defer ctl.FreeAll()
	p.V.SetRequestID(uint32(r.Intn(5000)))
	s := newScen(p, r, name)
	taken := map[int]bool{}

	switch which {
	case "pop-timer-deliver", "pop-deliver-timer":
		a := s.newCaller(tyWrite, 40*time.Millisecond)
		ctl.Control("A", "disp")
		cur := p.V.SchedRequestID()
		a.start(p.SC, a.Tid, 0, func() { ctl.Bind("A") }, func() { ctl.Done() })
		// run the caller through its send phase, up to the select (it may already be at the timer branch when
		// we look again on a slow machine; that is the state the scenario needs later anyway)
		var passed []string
		for i := 0; i < 8; i++ {
			from, now, err := ctl.Step("A", 2*time.Second, 0)
			if err != nil {
				return fmt.Errorf("caller did not reach the select: %v %v", err, passed)
			}
			passed = append(passed, from)
			if from == "sc.req.sent" {
				break
			}
			if now == "done" {
				return fmt.Errorf("caller returned before the select: %v", passed)
			}
		}
		rq, ok := p.Srv.Next(2 * time.Second)
		if !ok || rq.Err != nil {
			return fmt.Errorf("server did not get the request")
		}
		_ = cur
		s.idOf[a.Tid] = rq.ReqID
		s.probe[rq.ReqID] = true
		s.events = append(s.events, Ev{"alloc", a.Tid, 0, a.Want}, Ev{"reg", a.Tid}, Ev{"write", a.Tid, true})
		// the response arrives; the dispatcher takes the handler and is held before it delivers
		uid := s.uid
		s.uid++
		if err := p.Srv.Respond(rq.ReqID, mkResponse(tyWrite, rq.ReqID, ua.StatusOK, fmt.Sprintf("%d:%d", uid, a.Tid))); err != nil {
			return err
		}
		if ctl.WaitParked("disp", "sc.disp.popped", 2*time.Second) == "" {
			return fmt.Errorf("dispatcher did not reach sc.disp.popped")
		}
		s.events = append(s.events, Ev{"net", rq.ReqID, tyWrite, 0, a.Tid}, Ev{"pop"})
		// the timer fires while the response is in the dispatcher's hands
		if ctl.WaitParked("A", "sc.req.timerFired", 2*time.Second) == "" {
			return fmt.Errorf("caller did not reach sc.req.timerFired (at %q)", ctl.ParkedAt("A"))
		}
		if which == "pop-timer-deliver" {
			ctl.Free("A")
			if !s.wait(a, 2*time.Second) {
				return fmt.Errorf("caller did not return")
			}
			s.events = append(s.events, Ev{"timer", a.Tid})
			taken[a.Tid] = true
			s.emitC19("timer-won", map[string]interface{}{"expect_ok": []int{}, "disp": 2})
			ctl.Free("disp")
			s.events = append(s.events, Ev{"lock"}, Ev{"deliver"}, Ev{"resume"})
		} else {
			if _, now, err := ctl.Step("disp", time.Second, 500*time.Millisecond); err != nil || now != "sc.disp.delivered" {
				return fmt.Errorf("dispatcher did not reach sc.disp.delivered: %v %s", err, now)
			}
			s.events = append(s.events, Ev{"lock"}, Ev{"deliver"})
			s.emitC19("delivered-timer-pending", map[string]interface{}{"expect_ok": []int{}, "disp": 4})
			ctl.Free("disp")
			s.events = append(s.events, Ev{"resume"})
			ctl.Free("A")
			if !s.wait(a, 2*time.Second) {
				return fmt.Errorf("caller did not return")
			}
			s.events = append(s.events, Ev{"timer", a.Tid})
			taken[a.Tid] = true
		}
		b, err := s.healthyCall(taken)
		if err != nil {
			return err
		}
		s.emitC19("after", map[string]interface{}{"expect_ok": []int{b.Tid}, "disp": -1})

	case "opn-timeout-race":
		// the renewal's OpenSecureChannelResponse is in the dispatcher's hands when the renewal request times out
		ctl.Control("disp")
		opener := s.newCaller(tyOPN, reqTimeout)
		opener.done = make(chan struct{})
		opener.Code, opener.UID, opener.For = -1, -1, -1
		var rerr error
		t0 := time.Now()
		go func() {
			defer close(opener.done)
			ctl.Bind("R")
			rerr = p.SC.Renew(context.Background())
			ctl.Done()
		}()
		if ctl.WaitParked("disp", "sc.disp.popped", 2*time.Second) == "" {
			return fmt.Errorf("dispatcher did not reach sc.disp.popped with the OPN response (parked at %q, log %v)", ctl.ParkedAt("disp"), ctl.Log())
		}
		if !s.wait(opener, 3*time.Second) {
			return fmt.Errorf("Renew did not return")
		}
		opener.mu.Lock()
		opener.Code = classify(rerr)
		opener.Elapsed = time.Since(t0)
		if rerr != nil {
			opener.ErrText = rerr.Error()
		}
		opener.ID = s.start + 1
		opener.mu.Unlock()
		s.idOf[opener.Tid] = s.start + 1
		s.probe[s.start+1] = true
		s.events = append(s.events, Ev{"alloc", opener.Tid, 1, tyOPN}, Ev{"reg", opener.Tid}, Ev{"write", opener.Tid, true},
			Ev{"net", s.start + 1, tyOPN, 0, opener.Tid}, Ev{"pop"}, Ev{"timer", opener.Tid})
		s.uid++ // the server's own OpenSecureChannelResponse was frame 0
		taken[opener.Tid] = true
		s.emitC19("renew-timed-out", map[string]interface{}{"expect_ok": []int{}, "disp": 2})
		// now the dispatcher goes on: open() has given up, so it must not lock the gate; it delivers into the
		// abandoned channel and reads on. A later request is answered.
		ctl.Free("disp")
		s.events = append(s.events, Ev{"lock"}, Ev{"deliver"}, Ev{"resume"})
		b, err := s.healthyCall(taken)
		if err != nil {
			return err
		}
		s.emitC19("after", map[string]interface{}{"expect_ok": []int{b.Tid}, "disp": -1,
			"server_answered": []int{b.Tid}})

	case "unsolicited-opn":
		a := s.newCaller(tyWrite, 3*time.Second)
		if err := s.launch([]*Caller{a}); err != nil {
			return err
		}
		uid := s.uid
		s.uid++
		resp := &ua.OpenSecureChannelResponse{ResponseHeader: respHeader(s.idOf[a.Tid], ua.StatusOK, fmt.Sprintf("%d:%d", uid, -1)),
			SecurityToken: &ua.ChannelSecurityToken{ChannelID: 7001, TokenID: 9001, CreatedAt: time.Now(), RevisedLifetime: 3600000},
			ServerNonce:   []byte{}}
		if err := p.Srv.RawMsg(s.idOf[a.Tid], 900001, resp); err != nil {
			return err
		}
		s.events = append(s.events, Ev{"net", s.idOf[a.Tid], tyOPN, 0, -1}, Ev{"pop"}, Ev{"lock"}, Ev{"deliver"}, Ev{"resume"})
		s.wait(a, 3*time.Second)
		s.settle(taken)
		b, err := s.healthyCall(taken)
		if err != nil {
			return err
		}
		var cerrs []string
		for len(p.ErrCh) > 0 {
			cerrs = append(cerrs, (<-p.ErrCh).Error())
		}
		s.emitC19("after", map[string]interface{}{"expect_ok": []int{b.Tid}, "disp": -1, "server_answered": []int{b.Tid}, "client_errors": cerrs})
	default:
		return fmt.Errorf("unknown race scenario %s", which)
	}
	for _, c := range s.callers {
		c.cancel()
	}
	return nil
}

// frameNoEvent sends a response that the (wedged) dispatcher will not read: no model event.
func (s *scen18) frameNoEvent(kind string, id uint32, forT int, want int) error {
	n := len(s.events)
	err := s.frame(kind, id, forT, want)
	s.events = s.events[:n]
	return err
}
