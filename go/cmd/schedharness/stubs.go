package main

