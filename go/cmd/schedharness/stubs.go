package main

func c11(seed uint64, n int, sched string)    {}
func c11resp(seed uint64, n int)              {}
func c16(seed uint64, n int, args []string)   {}
