package main

func c16(seed uint64, n int, args []string)   {}
