package main

// c14: symmetric key derivation and direction separation of the real uapolicy code.

import (
	"crypto"
	"encoding/hex"
	"sort"

	"github.com/gopcua/opcua/ua"
	"github.com/gopcua/opcua/uapolicy"
	"github.com/gopcua/opcua/uasc"

	"verifharness/internal/rng"
)

type c14obs struct {
	Kind   string `json:"kind"` // keys | gen | reflect
	Policy string `json:"policy,omitempty"`
	LN     string `json:"ln,omitempty"`
	RN     string `json:"rn,omitempty"`
	// keys
	EncKey, EncIV, DecKey, DecIV, SignKey, VerifyKey string `json:",omitempty"`
	Err                                              string `json:"err,omitempty"`
	// gen
	Hash       string `json:"hash,omitempty"`
	Secret     string `json:"secret,omitempty"`
	Seed       string `json:"seed,omitempty"`
	SL, EL, BL int
	Signing, Encryption, IV string `json:",omitempty"`
	// reflect
	Mode         int  `json:"mode,omitempty"`
	SelfRejected bool `json:"self_rejected"`
	PeerAccepted bool `json:"peer_accepted"`
	PeerReverse  bool `json:"peer_reverse"` // the other direction also works
	KeysDiffer   bool `json:"keys_differ"`
}

func structuredNonce(r *rng.R, n int, kind int) []byte {
	b := make([]byte, n)
	switch kind {
	case 0:
		return r.Bytes(n)
	case 1: // zeros
	case 2:
		for i := range b {
			b[i] = 0xff
		}
	case 3:
		for i := range b {
			b[i] = byte(i)
		}
	default:
		for i := range b {
			b[i] = byte(255 - i)
		}
	}
	return b
}

func c14(seed uint64, n int) {
	r := rng.New(seed)
	uris := uapolicy.SupportedPolicies()
	sort.Strings(uris)
	for _, uri := range uris {
		if uri == ua.SecurityPolicyURINone {
			continue
		}
		nl := 32
		if a, err := uapolicy.Asymmetric(uri, nil, nil); err == nil && a.NonceLength() > 0 {
			nl = a.NonceLength()
		}
		type pair struct{ ln, rn []byte }
		var pairs []pair
		for k1 := 1; k1 <= 4; k1++ { // structured
			pairs = append(pairs, pair{structuredNonce(r, nl, k1), structuredNonce(r, nl, (k1%4)+1)})
		}
		pairs = append(pairs, pair{structuredNonce(r, nl, 3), structuredNonce(r, nl, 3)}) // equal nonces
		for _, l := range []int{1, 16, 63, 64, 65, 100} { // other lengths (a key longer than the hash block is hashed first)
			pairs = append(pairs, pair{r.Bytes(l), r.Bytes(l)})
		}
		for i := 0; i < n; i++ {
			pairs = append(pairs, pair{r.Bytes(nl), r.Bytes(nl)})
		}
		for _, p := range pairs {
			o := c14obs{Kind: "keys", Policy: shortName(uri), LN: hex.EncodeToString(p.ln), RN: hex.EncodeToString(p.rn)}
			a, err := uapolicy.Symmetric(uri, p.ln, p.rn)
			if err != nil {
				o.Err = err.Error()
			} else {
				ek, eiv, dk, div, sk, vk := uapolicy.VerifAlgoKeys(a)
				o.EncKey, o.EncIV, o.DecKey, o.DecIV = hex.EncodeToString(ek), hex.EncodeToString(eiv), hex.EncodeToString(dk), hex.EncodeToString(div)
				o.SignKey, o.VerifyKey = hex.EncodeToString(sk), hex.EncodeToString(vk)
			}
			enc.Encode(o)
		}
		// reflection: a side's own chunk must not be accepted by that side; the peer accepts it
		for _, mode := range []ua.MessageSecurityMode{ua.MessageSecurityModeSign, ua.MessageSecurityModeSignAndEncrypt} {
			for i := 0; i < 2+n/4; i++ {
				cn, sn := r.Bytes(nl), r.Bytes(nl)
				mk := func(l, rm []byte) *uasc.VerifInstance {
					a, err := uapolicy.Symmetric(uri, l, rm)
					if err != nil {
						panic(err)
					}
					return uasc.VerifNewInstance(uri, mode, a, 7, 9, 0)
				}
				o := c14obs{Kind: "reflect", Policy: shortName(uri), Mode: int(mode), LN: hex.EncodeToString(cn), RN: hex.EncodeToString(sn)}
				body := r.Bytes(r.Range(0, 300))
				w, err := mk(cn, sn).SignAndEncrypt(symMsg(), rawChunk(7, 9, 1, 1, body, 'F'))
				if err != nil {
					o.Err = err.Error()
					enc.Encode(o)
					continue
				}
				_, _, e1 := mk(cn, sn).VerifyAndDecrypt(w)
				_, d2, e2 := mk(sn, cn).VerifyAndDecrypt(w)
				o.SelfRejected = e1 != nil
				o.PeerAccepted = e2 == nil && len(d2) == 8+len(body) && string(d2[8:]) == string(body)
				w2, err := mk(sn, cn).SignAndEncrypt(symMsg(), rawChunk(7, 9, 1, 1, body, 'F'))
				if err == nil {
					_, d3, e3 := mk(cn, sn).VerifyAndDecrypt(w2)
					o.PeerReverse = e3 == nil && string(d3[8:]) == string(body)
				}
				ca, _ := uapolicy.Symmetric(uri, cn, sn)
				ek, eiv, dk, div, sk, vk := uapolicy.VerifAlgoKeys(ca)
				o.KeysDiffer = string(ek) != string(dk) && string(eiv) != string(div) && string(sk) != string(vk)
				enc.Encode(o)
			}
		}
	}
	// generateKeys for every triple of lengths, both hashes
	for _, h := range []struct {
		name string
		h    crypto.Hash
	}{{"sha1", crypto.SHA1}, {"sha256", crypto.SHA256}} {
		lens := [][3]int{{0, 0, 0}, {1, 0, 0}, {0, 0, 1}, {19, 1, 0}, {20, 0, 0}, {20, 1, 0}, {16, 16, 16}, {24, 32, 16}, {32, 32, 16}, {31, 1, 0}, {32, 0, 1}, {64, 64, 64}, {100, 3, 150}}
		for i := 0; i < n; i++ {
			lens = append(lens, [3]int{r.Intn(70), r.Intn(70), r.Intn(40)})
		}
		for _, l := range lens {
			secret, seedb := r.Bytes(r.Pick(0, 1, 16, 32, 64, 65, 80)), r.Bytes(r.Pick(0, 1, 16, 32, 33))
			s, e, iv := uapolicy.VerifDerivedKeys(&uapolicy.HMAC{Hash: h.h, Secret: secret}, seedb, l[0], l[1], l[2])
			enc.Encode(c14obs{Kind: "gen", Hash: h.name, Secret: hex.EncodeToString(secret), Seed: hex.EncodeToString(seedb), SL: l[0], EL: l[1], BL: l[2],
				Signing: hex.EncodeToString(s), Encryption: hex.EncodeToString(e), IV: hex.EncodeToString(iv)})
		}
	}
}
