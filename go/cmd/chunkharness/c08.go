package main

// c08: gopcua's signAndEncrypt / verifyAndDecrypt against the reference codec written from the specification
// (internal/refcodec), in both directions; with the toy primitives (bytes shipped to Coq: model and Part6Spec are
// evaluated on them) and with real crypto (all policies, symmetric and asymmetric, real RSA keys).

import (
	"bytes"
	"crypto/rsa"
	"encoding/binary"
	"encoding/hex"
	"sort"

	"github.com/gopcua/opcua/ua"
	"github.com/gopcua/opcua/uapolicy"
	"github.com/gopcua/opcua/uasc"

	"verifharness/internal/refcodec"
	"verifharness/internal/rng"
)

type refTry struct {
	N      int    `json:"n"` // padding length chosen by the reference sender
	Sent   string `json:"sent,omitempty"`
	SentLn int    `json:"sentlen"`
	ImplOK bool   `json:"impl_ok"` // gopcua accepted it and returned exactly sequence header + body
	Err    string `json:"err,omitempty"`
}

type c08obs struct {
	Kind   string `json:"kind"` // toy | real
	Asym   bool   `json:"asym"`
	Policy string `json:"policy"`
	Mode   int    `json:"mode"`
	// toy parameters: symmetric (block, sig) or asymmetric (la, lb, minpad)
	Block, Sig, LA, LB, MinPad, KS, KR int
	T4, H8                             string
	Seq, Req                           uint32
	Body                               string `json:"body,omitempty"`
	BodyLen                            int    `json:"bodylen"`
	HL                                 int    `json:"hl"`
	Secured                            string `json:"secured,omitempty"` // what gopcua produced
	SecuredLen                         int    `json:"securedlen"`
	SecErr                             string `json:"sec_err,omitempty"`
	RefOpenOK                          bool   `json:"ref_open_ok"` // the reference receiver accepted gopcua's chunk and read back the content
	RefOpenErr                         string `json:"ref_open_err,omitempty"`
	Tries                              []refTry `json:"tries"`
}

func toyKeysSym(mode ua.MessageSecurityMode, block, sig, sendK, recvK int) refcodec.Keys {
	return refcodec.Keys{Signed: mode != ua.MessageSecurityModeNone, Encrypted: mode == ua.MessageSecurityModeSignAndEncrypt,
		PlainBlock: block, CipherBlock: block, SigLen: sig,
		Enc: toySymEnc(block, sendK), Dec: toySymDec(block, sendK),
		Sign: func(m []byte) ([]byte, error) { return toyMac(sig, sendK+1, m), nil }, Verify: toyVerify(sig, sendK+1)}
}

func toyKeysAsym(la, lb, minpad, sendK int) refcodec.Keys {
	return refcodec.Keys{Signed: true, Encrypted: true, Extra: lb*8 > 2048, PlainBlock: lb - minpad, CipherBlock: lb, SigLen: la,
		Enc: toyAsymEnc(lb, minpad, sendK), Dec: toyAsymDec(lb, sendK),
		Sign: func(m []byte) ([]byte, error) { return toyMac(la, sendK+1, m), nil }, Verify: toyVerify(la, sendK+1)}
}

// exchange runs one content through both directions between gopcua (alice sends, bob receives) and the reference.
func exchange(o *c08obs, r *rng.R, alice, bob *uasc.VerifInstance, msg *uasc.Message, k refcodec.Keys, x refcodec.Content, keepBytes bool) {
	o.T4, o.H8, o.Seq, o.Req, o.BodyLen = hex.EncodeToString(x.T4), hex.EncodeToString(x.H8), x.Seq, x.Req, len(x.Body)
	o.HL = 8 + len(x.H8)
	if keepBytes {
		o.Body = hex.EncodeToString(x.Body)
	}
	inner := append(append(le32b(x.Seq), le32b(x.Req)...), x.Body...)
	raw := append(append(append(append([]byte{}, x.T4...), le32b(uint32(o.HL+len(inner)))...), x.H8...), inner...)
	w, err := alice.SignAndEncrypt(msg, raw)
	if err != nil {
		o.SecErr = err.Error()
	} else {
		o.SecuredLen = len(w)
		if keepBytes {
			o.Secured = hex.EncodeToString(w)
		}
		got, err := refcodec.Receive(k, o.HL, w)
		if err != nil {
			o.RefOpenErr = err.Error()
		} else {
			o.RefOpenOK = refcodec.Equal(got, &x)
		}
	}
	min := refcodec.MinPadding(k, len(x.Body))
	ns := []int{min}
	if k.Encrypted {
		limit := 255
		if k.Extra {
			limit = 65535
		}
		if min+k.PlainBlock <= limit {
			ns = append(ns, min+k.PlainBlock)
		}
		kk := (limit - min) / k.PlainBlock
		if keepBytes && kk > 3000/k.PlainBlock { // keep the chunks shipped to Coq small
			kk = 3000 / k.PlainBlock
		}
		if kk >= 2 && r.Bool() {
			ns = append(ns, min+r.Range(2, kk)*k.PlainBlock)
		}
	}
	for _, n := range ns {
		t := refTry{N: n}
		sent, err := refcodec.Send(k, n, x)
		if err != nil {
			t.Err = "ref: " + err.Error()
			o.Tries = append(o.Tries, t)
			continue
		}
		t.SentLn = len(sent)
		if keepBytes {
			t.Sent = hex.EncodeToString(sent)
		}
		func() {
			defer func() {
				if rec := recover(); rec != nil {
					t.Err = "panic"
				}
			}()
			_, d, err := bob.VerifyAndDecrypt(sent)
			if err != nil {
				t.Err = err.Error()
			} else {
				t.ImplOK = bytes.Equal(d, inner)
			}
		}()
		o.Tries = append(o.Tries, t)
	}
}

func le32b(v uint32) []byte { b := make([]byte, 4); binary.LittleEndian.PutUint32(b, v); return b }

func asymHeader(uri string, cert, thumb []byte) []byte {
	b, err := uasc.NewAsymmetricSecurityHeader(uri, cert, thumb).Encode()
	if err != nil {
		panic(err)
	}
	return b
}

// residueLens: body lengths that put (sequence header + body + signature) at every boundary residue modulo the
// plaintext block size (padding lengths 0, 1, pb-1, pb-2, with one or two padding size bytes).
func residueLens(pb, sig int) []int {
	var ls []int
	for _, t := range []int{0, 1, pb - 1, pb - 2} {
		ls = append(ls, ((t-8-sig)%pb+pb)%pb)
	}
	return ls
}

func bodyLens(r *rng.R, pb int, n int) []int {
	ls := []int{0, 1, pb - 1, pb, pb + 1}
	if n < 3 { // quick tier
		ls = []int{0, pb - 1, pb}
	}
	for i := 0; i < n; i++ {
		ls = append(ls, r.Intn(3*pb+40))
	}
	return ls
}

func c08(seed uint64, n int, keydir string) {
	r := rng.New(seed)
	// ---- toy, symmetric shape (MSG and CLO)
	for _, cfg := range []struct {
		uri        string
		block, sig int
		modes      []ua.MessageSecurityMode
	}{
		{ua.SecurityPolicyURINone, 1, 0, []ua.MessageSecurityMode{ua.MessageSecurityModeNone}},
		{ua.SecurityPolicyURIBasic256, 16, 20, []ua.MessageSecurityMode{ua.MessageSecurityModeSign, ua.MessageSecurityModeSignAndEncrypt}},
		{ua.SecurityPolicyURIBasic256Sha256, 16, 32, []ua.MessageSecurityMode{ua.MessageSecurityModeSign, ua.MessageSecurityModeSignAndEncrypt}},
	} {
		for _, mode := range cfg.modes {
			for _, bl := range append(bodyLens(r, 16, n), residueLens(16, cfg.sig)...) {
				ks, kr := r.Range(1, 100), r.Range(101, 200)
				chanID, tok := uint32(r.U64()), uint32(r.U64())
				alice := uasc.VerifNewInstance(cfg.uri, mode, toySymAlgo(cfg.block, cfg.sig, ks, kr), chanID, tok, 0)
				bob := uasc.VerifNewInstance(cfg.uri, mode, toySymAlgo(cfg.block, cfg.sig, kr, ks), chanID, tok, 0)
				mt := "MSG"
				if r.Intn(4) == 0 {
					mt = "CLO"
				}
				x := refcodec.Content{T4: []byte(mt + string("FC"[r.Intn(2)])), H8: append(le32b(chanID), le32b(tok)...), Seq: uint32(r.U64()), Req: uint32(r.U64()), Body: r.Bytes(bl)}
				o := c08obs{Kind: "toy", Policy: shortName(cfg.uri), Mode: int(mode), Block: cfg.block, Sig: cfg.sig, KS: ks, KR: kr}
				exchange(&o, r, alice, bob, symMsg(), toyKeysSym(mode, cfg.block, cfg.sig, ks, kr), x, true)
				enc.Encode(o)
			}
		}
	}
	// ---- toy, asymmetric shape (OPN): key sizes on both sides of 2048 bits, the three padding overheads
	uriA := ua.SecurityPolicyURIBasic256Sha256
	for _, sz := range [][3]int{{128, 128, 11}, {128, 256, 42}, {256, 256, 42}, {256, 257, 42}, {256, 384, 42}, {384, 256, 130}, {512, 512, 130}, {256, 512, 66}} {
		for _, mode := range []ua.MessageSecurityMode{ua.MessageSecurityModeSign, ua.MessageSecurityModeSignAndEncrypt} {
			la, lb, minpad := sz[0], sz[1], sz[2]
			lens := bodyLens(r, lb-minpad, n/2)
			if mode == ua.MessageSecurityModeSignAndEncrypt || n >= 8 {
				lens = append(lens, residueLens(lb-minpad, la)...)
			}
			for _, bl := range lens {
				if n < 8 && mode == ua.MessageSecurityModeSign && bl > 1 && r.Intn(3) > 0 {
					continue // quick tier: OPN chunks are secured identically in both modes
				}
				ks, kr := r.Range(1, 100), r.Range(101, 200)
				chanID := uint32(r.U64())
				alice := uasc.VerifNewInstance(uriA, mode, toyAsymAlgo(la, lb, minpad, ks, kr), chanID, 0, 0)
				bob := uasc.VerifNewInstance(uriA, mode, toyAsymAlgo(lb, la, minpad, kr, ks), chanID, 0, 0)
				cert, thumb := r.Bytes(r.Range(1, 60)), r.Bytes(20)
				hdr := asymHeader(uriA, cert, thumb)
				x := refcodec.Content{T4: []byte("OPNF"), H8: append(le32b(chanID), hdr...), Seq: uint32(r.U64()), Req: uint32(r.U64()), Body: r.Bytes(bl)}
				msg := &uasc.Message{MessageHeader: &uasc.MessageHeader{
					Header:                   uasc.NewHeader(uasc.MessageTypeOpenSecureChannel, uasc.ChunkTypeFinal, chanID),
					AsymmetricSecurityHeader: uasc.NewAsymmetricSecurityHeader(uriA, cert, thumb),
					SequenceHeader:           uasc.NewSequenceHeader(x.Seq, x.Req)}}
				o := c08obs{Kind: "toy", Asym: true, Policy: shortName(uriA), Mode: int(mode), LA: la, LB: lb, MinPad: minpad, KS: ks, KR: kr}
				exchange(&o, r, alice, bob, msg, toyKeysAsym(la, lb, minpad, ks), x, true)
				enc.Encode(o)
			}
		}
	}
	// ---- real crypto
	uris := uapolicy.SupportedPolicies()
	sort.Strings(uris)
	bits := []int{1024, 2048, 3072, 4096}
	keysA, keysB := map[int]*rsa.PrivateKey{}, map[int]*rsa.PrivateKey{}
	for _, b := range bits {
		keysA[b], keysB[b] = loadKey(keydir, b, "a"), loadKey(keydir, b, "b")
	}
	for _, uri := range uris {
		p, ok := refcodec.Profiles[uri]
		if !ok {
			continue
		}
		nl := 32
		if a, err := uapolicy.Asymmetric(uri, nil, nil); err == nil && a.NonceLength() > 0 {
			nl = a.NonceLength()
		}
		for _, mode := range []ua.MessageSecurityMode{ua.MessageSecurityModeSign, ua.MessageSecurityModeSignAndEncrypt} {
			for _, bl := range bodyLens(r, 16, n) {
				cn, sn := r.Bytes(nl), r.Bytes(nl)
				ca, _ := uapolicy.Symmetric(uri, cn, sn)
				sa, _ := uapolicy.Symmetric(uri, sn, cn)
				chanID, tok := uint32(r.U64()), uint32(r.U64())
				alice := uasc.VerifNewInstance(uri, mode, ca, chanID, tok, 0)
				bob := uasc.VerifNewInstance(uri, mode, sa, chanID, tok, 0)
				x := refcodec.Content{T4: []byte("MSGF"), H8: append(le32b(chanID), le32b(tok)...), Seq: uint32(r.U64()), Req: uint32(r.U64()), Body: r.Bytes(bl)}
				o := c08obs{Kind: "real", Policy: shortName(uri), Mode: int(mode)}
				exchange(&o, r, alice, bob, symMsg(), p.Symmetric(mode == ua.MessageSecurityModeSignAndEncrypt, cn, sn), x, false)
				enc.Encode(o)
			}
		}
		for _, la := range bits {
			for _, lb := range bits {
				aa, err1 := uapolicy.Asymmetric(uri, keysA[la], &keysB[lb].PublicKey)
				ba, err2 := uapolicy.Asymmetric(uri, keysB[lb], &keysA[la].PublicKey)
				if err1 != nil || err2 != nil {
					continue
				}
				if la != lb && !(la == 2048 && lb == 4096) && !(la == 4096 && lb == 2048) && !(la == 1024 && lb == 2048) {
					continue
				}
				for i, bl := range append([]int{0, 1, aa.PlaintextBlockSize() - 8 - la/8 - 1, r.Intn(700), 700 + r.Intn(900)}, residueLens(aa.PlaintextBlockSize(), la/8)[2:]...) {
					if n < 8 && i%2 == 1 {
						continue
					}
					if bl < 0 {
						bl = 0
					}
					mode := ua.MessageSecurityMode(r.Pick(2, 3))
					chanID := uint32(r.U64())
					alice := uasc.VerifNewInstance(uri, mode, aa, chanID, 0, 0)
					bob := uasc.VerifNewInstance(uri, mode, ba, chanID, 0, 0)
					cert, thumb := r.Bytes(r.Range(300, 900)), r.Bytes(20)
					x := refcodec.Content{T4: []byte("OPNF"), H8: append(le32b(chanID), asymHeader(uri, cert, thumb)...), Seq: uint32(r.U64()), Req: uint32(r.U64()), Body: r.Bytes(bl)}
					msg := &uasc.Message{MessageHeader: &uasc.MessageHeader{
						Header:                   uasc.NewHeader(uasc.MessageTypeOpenSecureChannel, uasc.ChunkTypeFinal, chanID),
						AsymmetricSecurityHeader: uasc.NewAsymmetricSecurityHeader(uri, cert, thumb),
						SequenceHeader:           uasc.NewSequenceHeader(x.Seq, x.Req)}}
					o := c08obs{Kind: "real", Asym: true, Policy: shortName(uri), Mode: int(mode), LA: la / 8, LB: lb / 8}
					exchange(&o, r, alice, bob, msg, p.Asymmetric(keysA[la], &keysA[la].PublicKey, keysB[lb], &keysB[lb].PublicKey), x, false)
					enc.Encode(o)
				}
			}
		}
	}
}
