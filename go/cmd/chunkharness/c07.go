package main

// c07: messages through the REAL send path (SendMsgWithContext -> newMessage -> EncodeChunks -> send loop ->
// signAndEncrypt -> uacp write) of one SecureChannel, over loopback TCP through a frame-recording proxy, into
// the REAL Receive (readChunk -> verifyAndDecrypt -> chunk table -> mergeChunks -> DecodeService) of a peer.

import (
	"context"
	"encoding/binary"
	"encoding/hex"
	"fmt"
	"io"
	"net"
	"sort"
	"sync"
	"time"

	"github.com/gopcua/opcua/ua"
	"github.com/gopcua/opcua/uacp"
	"github.com/gopcua/opcua/uapolicy"
	"github.com/gopcua/opcua/uasc"

	"verifharness/internal/rng"
)

type link struct {
	send, recv *uasc.SecureChannel
	mu         sync.Mutex
	frames     [][]byte
	closers    []io.Closer
	maxChunks  uint32 // the receiver's own limits (Conn.MaxChunkCount / MaxMessageSize)
	maxMsg     uint32
	peerChunks uint32 // what the sender believes the peer accepts (Conn.PeerMaxChunkCount / PeerMaxMessageSize)
	peerMsg    uint32
	cfgChunks  uint32
	cfgMsg     uint32
	patch      bool
	buf        uint32
}

func (l *link) take() [][]byte {
	l.mu.Lock()
	defer l.mu.Unlock()
	f := l.frames
	l.frames = nil
	return f
}

func (l *link) close() {
	for _, c := range l.closers {
		c.Close()
	}
}

// newLink: patchAck makes the proxy announce "no limit" to the sender in the ACK, so that the receive-side
// limit checks of Receive stay reachable (the sender refuses over-limit messages otherwise).
func newLink(maxChunks, maxMsg uint32, patchAck bool, buf uint32) (*link, error) {
	ctx, cancel := context.WithTimeout(context.Background(), 10*time.Second)
	defer cancel()
	l := &link{cfgChunks: maxChunks, cfgMsg: maxMsg, patch: patchAck, buf: buf}
	ack := &uacp.Acknowledge{ReceiveBufSize: buf, SendBufSize: buf, MaxChunkCount: maxChunks, MaxMessageSize: maxMsg}
	ln, err := uacp.Listen(ctx, "opc.tcp://127.0.0.1:0", ack)
	if err != nil {
		return nil, err
	}
	px, err := net.Listen("tcp", "127.0.0.1:0")
	if err != nil {
		return nil, err
	}
	l.closers = append(l.closers, ln, px)
	go func() {
		a, err := px.Accept()
		if err != nil {
			return
		}
		b, err := net.Dial("tcp", ln.Addr().String())
		if err != nil {
			a.Close()
			return
		}
		go func() {
			if patchAck {
				h := make([]byte, 8)
				if _, err := io.ReadFull(b, h); err == nil {
					n := int(binary.LittleEndian.Uint32(h[4:]))
					f := make([]byte, n)
					copy(f, h)
					if _, err := io.ReadFull(b, f[8:]); err == nil && n >= 28 && string(f[:4]) == "ACKF" {
						for i := 20; i < 28; i++ { // MaxMessageSize, MaxChunkCount := 0
							f[i] = 0
						}
					}
					a.Write(f)
				}
			}
			io.Copy(a, b)
			a.Close()
		}()
		hdr := make([]byte, 8)
		for {
			if _, err := io.ReadFull(a, hdr); err != nil {
				b.Close()
				return
			}
			n := int(binary.LittleEndian.Uint32(hdr[4:]))
			if n < 8 || n > 1<<24 {
				b.Close()
				return
			}
			f := make([]byte, n)
			copy(f, hdr)
			if _, err := io.ReadFull(a, f[8:]); err != nil {
				b.Close()
				return
			}
			l.mu.Lock()
			l.frames = append(l.frames, f)
			l.mu.Unlock()
			if _, err := b.Write(f); err != nil {
				return
			}
		}
	}()
	type acc struct {
		c   *uacp.Conn
		err error
	}
	ch := make(chan acc, 1)
	go func() { c, err := ln.Accept(ctx); ch <- acc{c, err} }()
	cack := *ack
	d := &uacp.Dialer{ClientACK: &cack}
	sc, err := d.Dial(ctx, "opc.tcp://"+px.Addr().String())
	if err != nil {
		return nil, err
	}
	r := <-ch
	if r.err != nil {
		return nil, r.err
	}
	l.closers = append(l.closers, sc, r.c)
	errch := make(chan error, 64)
	l.send, err = uasc.VerifNewChannel(sc, &uasc.Config{SecurityPolicyURI: ua.SecurityPolicyURINone, SecurityMode: ua.MessageSecurityModeNone}, false, errch)
	if err != nil {
		return nil, err
	}
	l.recv, err = uasc.VerifNewChannel(r.c, &uasc.Config{SecurityPolicyURI: ua.SecurityPolicyURINone, SecurityMode: ua.MessageSecurityModeNone}, true, errch)
	if err != nil {
		return nil, err
	}
	l.take() // HEL
	l.maxChunks, l.maxMsg = r.c.MaxChunkCount(), r.c.MaxMessageSize()
	l.peerChunks, l.peerMsg = sc.PeerMaxChunkCount(), sc.PeerMaxMessageSize()
	return l, nil
}

type chunkObs struct {
	Len  int    `json:"len"`
	Type string `json:"type"`
	Size uint32 `json:"size"`
	A    uint64 `json:"a"`
	B    uint64 `json:"b"`
	Hex  string `json:"hex,omitempty"`
}

type c07obs struct {
	Kind    string `json:"kind"` // toy | real
	Policy  string `json:"policy"`
	Mode    int    `json:"mode"`
	Block   int    `json:"block"`
	Plain   int    `json:"plain"`
	Sig     int    `json:"sig"`
	RSig    int    `json:"rsig"`
	KS      int    `json:"ks"`
	KR      int    `json:"kr"`
	CS      int    `json:"cs"` // 0: max body size set directly
	MaxBody uint32 `json:"maxbody"`
	Chan    uint32 `json:"chan"`
	Tok     uint32 `json:"tok"`
	Req     uint32 `json:"req"`
	S0      uint32 `json:"s0"`
	Pre     string `json:"pre"`
	L       int    `json:"l"`
	GA      int    `json:"ga"`
	GB      int    `json:"gb"`
	Suf     string `json:"suf"`
	BodyLen int    `json:"bodylen"`
	MaxCh   uint32 `json:"maxchunks"`
	MaxMsg  uint32 `json:"maxmsg"`
	PeerCh  uint32 `json:"peerchunks"`
	PeerMsg uint32 `json:"peermsg"`

	SendErr  string     `json:"send_err,omitempty"`
	Panic    string     `json:"panic,omitempty"`
	Chunks   []chunkObs `json:"chunks"`
	SeqAfter uint32     `json:"seq_after"`
	Recv     []recvObs  `json:"recv"` // one entry per return of Receive until the sentinel message arrives
	Timeout  bool       `json:"timeout,omitempty"`
}

type recvObs struct {
	OK   bool   `json:"ok"`
	Err  string `json:"err,omitempty"`
	Req  uint32 `json:"req"`
	Chan uint32 `json:"chan"`
	Same bool   `json:"same"` // the delivered service re-encodes to the bytes that were sent
}

type c07case struct {
	kind                   string
	uri                    string
	mode                   ua.MessageSecurityMode
	block, sig             int // toy only
	ks, kr                 int
	cs                     int
	maxBody                uint32
	chanID, tok, req, s0   uint32
	l, ga, gb              int
	sendAlgo, recvAlgo     *uapolicy.EncryptionAlgorithm
	keepHex                bool
}

func findSvc(payload []byte) *ua.FindServersRequest {
	return &ua.FindServersRequest{
		RequestHeader: &ua.RequestHeader{AuthenticationToken: ua.NewTwoByteNodeID(0), AdditionalHeader: ua.NewExtensionObject(nil)},
		EndpointURL:   string(payload),
	}
}

func bodyOf(svc interface{}) []byte {
	t, err := ua.Encode(ua.NewFourByteExpandedNodeID(0, ua.ServiceTypeID(svc)))
	if err != nil {
		panic(err)
	}
	s, err := ua.Encode(svc)
	if err != nil {
		panic(err)
	}
	return append(t, s...)
}

var c07overhead = len(bodyOf(findSvc(nil)))

func runC07(l *link, c c07case) (o c07obs, dead bool) {
	o = c07obs{Kind: c.kind, Policy: shortName(c.uri), Mode: int(c.mode), Block: c.sendAlgo.BlockSize(), Plain: c.sendAlgo.PlaintextBlockSize(),
		Sig: c.sendAlgo.SignatureLength(), RSig: c.sendAlgo.RemoteSignatureLength(), KS: c.ks, KR: c.kr, CS: c.cs,
		Chan: c.chanID, Tok: c.tok, Req: c.req, S0: c.s0, L: c.l, GA: c.ga, GB: c.gb, MaxCh: l.maxChunks, MaxMsg: l.maxMsg, PeerCh: l.peerChunks, PeerMsg: l.peerMsg}
	payload := genBody(c.l, c.ga, c.gb)
	svc := findSvc(payload)
	body := bodyOf(svc)
	o.BodyLen = len(body)
	o.Pre = hex.EncodeToString(body[:len(body)-c.l-8])
	o.Suf = hex.EncodeToString(body[len(body)-8:])

	for _, ch := range []*uasc.SecureChannel{l.send, l.recv} {
		cfg := uasc.VerifChannel{S: ch}.Config()
		cfg.SecurityPolicyURI = c.uri
		cfg.SecurityMode = c.mode
	}
	si := uasc.VerifChannel{S: l.send}.AddInstance(c.sendAlgo, c.chanID, c.tok, c.s0, time.Now(), time.Hour)
	uasc.VerifChannel{S: l.recv}.AddInstance(c.recvAlgo, c.chanID, c.tok, 0, time.Now(), time.Hour)
	// every case is an independent channel history: the receiver's sequence check (readChunk) starts afresh
	uasc.VerifChannel{S: l.recv}.ResetReceiveSequence()
	if c.cs > 0 {
		o.MaxBody = si.SetMaximumBodySize(c.cs)
	} else {
		si.SetMaxBodySize(c.maxBody)
		o.MaxBody = c.maxBody
	}

	func() {
		defer func() {
			if r := recover(); r != nil {
				o.Panic = fmt.Sprint(r)
			}
		}()
		ctx, cancel := context.WithTimeout(context.Background(), 20*time.Second)
		defer cancel()
		if err := l.send.SendMsgWithContext(ctx, nil, c.req, svc); err != nil {
			o.SendErr = err.Error()
		}
	}()
	o.SeqAfter = si.SequenceNumber()
	if o.Panic != "" {
		// the instance mutex is left locked by the panic; the link is unusable
		return o, true
	}

	// sentinel: a one-chunk message on another request id; Receive is called until it arrives, so that every
	// frame of this case has been consumed (Receive may return several times for one message, e.g. on errors)
	sentinel := c.req ^ 0x5a5a5a5a
	func() {
		defer func() { recover() }()
		si.SetMaxBodySize(1 << 16)
		ctx, cancel := context.WithTimeout(context.Background(), 5*time.Second)
		defer cancel()
		l.send.SendMsgWithContext(ctx, nil, sentinel, findSvc(nil))
	}()
	type rr struct{ m *uasc.MessageBody }
	done := make(chan rr, 1)
	gotSentinel := false
	for tries := 0; tries < 5000; tries++ {
		go func() {
			defer func() {
				if r := recover(); r != nil {
					done <- rr{&uasc.MessageBody{Err: fmt.Errorf("panic: %v", r)}}
				}
			}()
			done <- rr{l.recv.Receive(context.Background())}
		}()
		var m *uasc.MessageBody
		select {
		case r := <-done:
			m = r.m
		case <-time.After(4 * time.Second):
			o.Timeout = true
			dead = true
		}
		if m == nil {
			break
		}
		if m.Err == nil && m.RequestID == sentinel {
			gotSentinel = true
			break
		}
		ro := recvObs{Req: m.RequestID, Chan: m.SecureChannelID}
		if m.Err != nil {
			ro.Err = m.Err.Error()
		} else {
			ro.OK = true
			if got := m.Request(); got != nil {
				ro.Same = string(bodyOf(got)) == string(body)
			}
		}
		o.Recv = append(o.Recv, ro)
	}
	frames := l.take()
	if gotSentinel && len(frames) > 0 {
		frames = frames[:len(frames)-1] // the sentinel's frame
	}
	for _, f := range frames {
		co := chunkObs{Len: len(f)}
		if len(f) >= 8 {
			co.Type = string(f[3:4])
			co.Size = binary.LittleEndian.Uint32(f[4:])
		}
		co.A, co.B = cksum(f)
		if c.keepHex {
			co.Hex = hex.EncodeToString(f)
		}
		o.Chunks = append(o.Chunks, co)
	}
	return o, dead
}

func c07(seed uint64, n int) {
	r := rng.New(seed)
	var cases []c07case
	u32 := func() uint32 {
		switch r.Intn(6) {
		case 0:
			return uint32(r.Intn(4))
		case 1:
			return 0xffffffff - uint32(r.Intn(4))
		default:
			return uint32(r.U64())
		}
	}
	seq0 := func() uint32 {
		switch r.Intn(6) {
		case 5:
			// just below the roll-over: nextSequenceNumber wraps to 1 after MaxUint32-1023 = 4294966272,
			// so a multi-chunk message started here straddles the roll-over
			return 4294966271 - uint32(r.Intn(4))
		case 0:
			return 0xffffffff - uint32(r.Intn(1030)) // around the wrap at MaxUint32-1023
		case 1:
			return uint32(r.Intn(3))
		default:
			return uint32(r.U64())
		}
	}
	bodyLenFor := func(mb int, k int, d int) int { // payload length such that the whole body is k*mb + d (when possible)
		l := k*mb + d - c07overhead
		if l < 0 {
			l = r.Intn(3)
		}
		return l
	}
	type toyCfg struct {
		uri        string
		block, sig int
		modes      []ua.MessageSecurityMode
	}
	toys := []toyCfg{
		{ua.SecurityPolicyURINone, 1, 0, []ua.MessageSecurityMode{ua.MessageSecurityModeNone}},
		{ua.SecurityPolicyURIBasic128Rsa15, 16, 20, []ua.MessageSecurityMode{ua.MessageSecurityModeSign, ua.MessageSecurityModeSignAndEncrypt}},
		{ua.SecurityPolicyURIBasic256Sha256, 16, 32, []ua.MessageSecurityMode{ua.MessageSecurityModeSign, ua.MessageSecurityModeSignAndEncrypt}},
	}
	// (a) toy algorithms, small maximum body sizes set directly: byte-exact comparison
	for i := 0; i < 12*n; i++ {
		t := toys[r.Intn(len(toys))]
		mode := t.modes[r.Intn(len(t.modes))]
		mb := r.Range(1, 120)
		if r.Intn(4) == 0 {
			mb = r.Range(c07overhead/3, c07overhead+40)
		}
		k := r.Intn(5)
		d := r.Pick(-1, 0, 0, 1, r.Intn(mb+1))
		ks, kr := r.Range(1, 200), r.Range(1, 200)
		c := c07case{kind: "toy", uri: t.uri, mode: mode, block: t.block, sig: t.sig, ks: ks, kr: kr, maxBody: uint32(mb),
			chanID: u32(), tok: u32(), req: u32(), s0: seq0(), l: bodyLenFor(mb, k+c07overhead/mb, d), ga: r.Intn(256), gb: r.Intn(256), keepHex: true}
		c.sendAlgo, c.recvAlgo = toySymAlgo(t.block, t.sig, ks, kr), toySymAlgo(t.block, t.sig, kr, ks)
		cases = append(cases, c)
	}
	// (b) toy algorithms at real chunk sizes (checksums instead of bytes)
	for i := 0; i < n; i++ {
		t := toys[r.Intn(len(toys))]
		mode := t.modes[r.Intn(len(t.modes))]
		cs := 8192 + r.Intn(33)
		if r.Intn(3) == 0 {
			cs = r.Range(8192, 70000)
		}
		ks, kr := r.Range(1, 200), r.Range(1, 200)
		c := c07case{kind: "toy", uri: t.uri, mode: mode, block: t.block, sig: t.sig, ks: ks, kr: kr, cs: cs,
			chanID: u32(), tok: u32(), req: u32(), s0: seq0(), ga: r.Intn(256), gb: r.Intn(256)}
		c.sendAlgo, c.recvAlgo = toySymAlgo(t.block, t.sig, ks, kr), toySymAlgo(t.block, t.sig, kr, ks)
		mb := int(uasc.VerifNewInstance(t.uri, mode, c.sendAlgo, 1, 1, 0).SetMaximumBodySize(cs))
		c.l = bodyLenFor(mb, r.Intn(4), r.Pick(-1, 0, 1, r.Intn(mb)))
		cases = append(cases, c)
	}
	// (c) the real algorithms of every policy and mode: lengths, flags, size fields, acceptance
	uris := uapolicy.SupportedPolicies()
	sort.Strings(uris)
	sizes := []int{8192, 8192 + r.Range(1, 16), 65535}
	if n > 8 {
		sizes = append(sizes, 8208, 65536)
	}
	for i := 0; i < n/4; i++ {
		sizes = append(sizes, r.Range(8192, 1<<17))
	}
	sizes = append(sizes, 1<<20)
	for _, uri := range uris {
		for _, mode := range modesFor(uri) {
			nl := 32
			if a, err := uapolicy.Asymmetric(uri, nil, nil); err == nil && a.NonceLength() > 0 {
				nl = a.NonceLength()
			}
			for _, cs := range sizes {
				n1, n2 := r.Bytes(nl), r.Bytes(nl)
				probe, _ := uapolicy.Symmetric(uri, n1, n2)
				mb := int(uasc.VerifNewInstance(uri, mode, probe, 1, 1, 0).SetMaximumBodySize(cs))
				var variants [][2]int
				if cs >= 1<<20 {
					variants = [][2]int{{1, 0}}
				} else if cs > 70000 {
					variants = [][2]int{{1, 0}, {2, 1}}
				} else if cs > 20000 {
					variants = [][2]int{{0, r.Intn(mb)}, {1, -1}, {1, 0}, {1, 1}}
					if n > 8 || cs == 65535 {
						variants = append(variants, [2]int{2, 0})
					}
				} else {
					variants = [][2]int{{0, r.Intn(mb)}, {1, -1}, {1, 0}, {1, 1}, {2, 0}, {r.Range(2, 3), r.Pick(-1, 0, 1)}}
				}
				for _, v := range variants {
					a, _ := uapolicy.Symmetric(uri, n1, n2)
					b, _ := uapolicy.Symmetric(uri, n2, n1)
					cases = append(cases, c07case{kind: "real", uri: uri, mode: mode, cs: cs, chanID: u32(), tok: u32(), req: u32(), s0: seq0(),
						l: bodyLenFor(mb, v[0], v[1]), ga: r.Intn(256), gb: r.Intn(256), sendAlgo: a, recvAlgo: b})
				}
			}
		}
	}

	big, err := newLink(4096, 64<<20, false, 1<<20+4096)
	if err != nil {
		panic(err)
	}
	small, err := newLink(4096, 64<<20, false, 8192)
	if err != nil {
		panic(err)
	}
	tight, err := newLink(3, 300, true, 8192)
	if err != nil {
		panic(err)
	}
	tight2, err := newLink(3, 300, false, 8192)
	if err != nil {
		panic(err)
	}
	for i, c := range cases {
		// request ids unique within the run: a failed case can leave chunks queued under its id on the receiver
		c.req = c.req&0xffff0000 | uint32(i&0xffff)
		l := &big
		if c.kind == "toy" && c.cs == 0 {
			l = &small
		}
		if c.kind == "toy" && c.cs == 0 && i%4 == 0 {
			l = &tight // exercise the chunk-count and message-size limits of Receive
		}
		if c.kind == "toy" && c.cs == 0 && i%4 == 1 {
			l = &tight2 // exercise the sender's check of the peer's limits
		}
		o, dead := runC07(*l, c)
		enc.Encode(o)
		if dead {
			(*l).close()
			nl, err := newLink((*l).cfgChunks, (*l).cfgMsg, (*l).patch, (*l).buf)
			if err != nil {
				panic(err)
			}
			*l = nl
		}
	}
}
