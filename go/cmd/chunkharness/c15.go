package main

// c15: asymmetric algorithms of every policy with real RSA keys (cached in work/keys): constructor limits,
// block-wise Encrypt/Decrypt for lengths around block multiples, signatures (tampered, swapped keys).

import (
	"crypto/rand"
	"crypto/rsa"
	"crypto/x509"
	"encoding/pem"
	"fmt"
	"os"
	"path/filepath"
	"sort"

	"github.com/gopcua/opcua/ua"
	"github.com/gopcua/opcua/uapolicy"

	"verifharness/internal/rng"
)

func loadKey(dir string, bits int, tag string) *rsa.PrivateKey {
	os.MkdirAll(dir, 0o755)
	p := filepath.Join(dir, fmt.Sprintf("rsa%d%s.pem", bits, tag))
	if b, err := os.ReadFile(p); err == nil {
		if blk, _ := pem.Decode(b); blk != nil {
			if k, err := x509.ParsePKCS1PrivateKey(blk.Bytes); err == nil {
				return k
			}
		}
	}
	k, err := rsa.GenerateKey(rand.Reader, bits)
	if err != nil {
		panic(err)
	}
	os.WriteFile(p, pem.EncodeToMemory(&pem.Block{Type: "RSA PRIVATE KEY", Bytes: x509.MarshalPKCS1PrivateKey(k)}), 0o600)
	return k
}

type c15obs struct {
	Kind   string `json:"kind"` // ctor | crypt | sig
	Policy string `json:"policy"`
	LSize  int    `json:"lsize"` // bytes, 0 = nil
	RSize  int    `json:"rsize"`
	OK     bool   `json:"ok"`
	Block  int    `json:"block"`
	Plain  int    `json:"plain"`
	Sig    int    `json:"sig"`
	RSig   int    `json:"rsig"`
	// crypt
	PLen       int    `json:"plen"`
	CLen       int    `json:"clen"`
	Err        string `json:"err,omitempty"`
	RoundOK    bool   `json:"round_ok"`
	WrongKeyNo bool   `json:"wrongkey_rejected"` // decrypting with another key does not yield the plaintext
	// sig
	SigLen      int  `json:"siglen"`
	VerifyOK    bool `json:"verify_ok"`
	TamperSigNo bool `json:"tamper_sig_rejected"`
	TamperMsgNo bool `json:"tamper_msg_rejected"`
	SwappedNo   bool `json:"swapped_rejected"`
}

func c15(seed uint64, n int, keydir string) {
	r := rng.New(seed)
	bitsList := []int{1024, 2048, 3072, 4096}
	keysA, keysB := map[int]*rsa.PrivateKey{}, map[int]*rsa.PrivateKey{}
	for _, b := range bitsList {
		keysA[b], keysB[b] = loadKey(keydir, b, "a"), loadKey(keydir, b, "b")
	}
	uris := uapolicy.SupportedPolicies()
	sort.Strings(uris)
	for _, uri := range uris {
		if uri == ua.SecurityPolicyURINone {
			continue
		}
		// constructor: all pairs of sizes incl. nil
		sz := append([]int{0}, bitsList...)
		for _, lb := range sz {
			for _, rb := range sz {
				var lk *rsa.PrivateKey
				var rk *rsa.PublicKey
				o := c15obs{Kind: "ctor", Policy: shortName(uri)}
				if lb > 0 {
					lk = keysA[lb]
					o.LSize = lk.PublicKey.Size()
				}
				if rb > 0 {
					rk = &keysB[rb].PublicKey
					o.RSize = rk.Size()
				}
				a, err := uapolicy.Asymmetric(uri, lk, rk)
				if err == nil {
					o.OK, o.Block, o.Plain, o.Sig, o.RSig = true, a.BlockSize(), a.PlaintextBlockSize(), a.SignatureLength(), a.RemoteSignatureLength()
				}
				enc.Encode(o)
			}
		}
		// encryption and signatures between Alice (key A of la bits) and Bob (key B of lb bits)
		for _, la := range bitsList {
			for _, lb := range bitsList {
				if la != lb && !(la == 2048 && lb == 4096) && !(la == 2048 && lb == 1024) {
					continue
				}
				alice, err1 := uapolicy.Asymmetric(uri, keysA[la], &keysB[lb].PublicKey)
				bob, err2 := uapolicy.Asymmetric(uri, keysB[lb], &keysA[la].PublicKey)
				eve, err3 := uapolicy.Asymmetric(uri, keysA[lb], &keysB[la].PublicKey) // wrong private key for decryption, wrong public key for verification
				if err1 != nil || err2 != nil || err3 != nil {
					continue
				}
				pb := alice.PlaintextBlockSize()
				lens := []int{0, 1, pb - 1, pb, pb + 1, 2*pb - 1, 2 * pb, 2*pb + 1, 3 * pb, 3*pb + 1}
				for i := 0; i < n/2; i++ {
					lens = append(lens, r.Intn(4*pb))
				}
				for _, pl := range lens {
					o := c15obs{Kind: "crypt", Policy: shortName(uri), LSize: la / 8, RSize: lb / 8, Block: alice.BlockSize(), Plain: pb, PLen: pl}
					p := r.Bytes(pl)
					c, err := alice.Encrypt(p)
					if err != nil {
						o.Err = err.Error()
						enc.Encode(o)
						continue
					}
					o.OK, o.CLen = true, len(c)
					d, err := bob.Decrypt(c)
					o.RoundOK = err == nil && string(d) == string(p)
					d2, err := eve.Decrypt(c)
					o.WrongKeyNo = pl == 0 || err != nil || string(d2) != string(p)
					enc.Encode(o)
				}
				for i := 0; i < 3; i++ {
					o := c15obs{Kind: "sig", Policy: shortName(uri), LSize: la / 8, RSize: lb / 8, Sig: alice.SignatureLength(), RSig: alice.RemoteSignatureLength()}
					msg := r.Bytes(r.Range(0, 600))
					s, err := alice.Signature(msg)
					if err != nil {
						o.Err = err.Error()
						enc.Encode(o)
						continue
					}
					o.OK, o.SigLen = true, len(s)
					o.VerifyOK = bob.VerifySignature(msg, s) == nil
					s2 := append([]byte{}, s...)
					s2[r.Intn(len(s2))] ^= byte(1 << r.Intn(8))
					o.TamperSigNo = bob.VerifySignature(msg, s2) != nil
					m2 := append(append([]byte{}, msg...), 0)
					if len(msg) > 0 && r.Bool() {
						m2 = append([]byte{}, msg...)
						m2[r.Intn(len(m2))] ^= byte(1 << r.Intn(8))
					}
					o.TamperMsgNo = bob.VerifySignature(m2, s) != nil
					o.SwappedNo = eve.VerifySignature(msg, s) != nil && alice.VerifySignature(msg, s) != nil
					enc.Encode(o)
				}
			}
		}
	}
}
