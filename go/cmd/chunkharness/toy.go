package main

// Toy cipher / MAC: the same functions as coq/Model/ChunkToy.v (the Example instantiation of the crypto
// hypotheses), plugged into real channel instances through uapolicy.VerifNewAlgorithm.

import (
	"errors"

	"github.com/gopcua/opcua/uapolicy"
)

// cksum as Model/ChunkBytes.v: a = 1 + sum of bytes so far, b = sum of all a's.
func cksum(m []byte) (a, b uint64) {
	a = 1
	for _, x := range m {
		a += uint64(x)
		b += a
	}
	return
}

// genBody as Model/ChunkBytes.v gen_body: byte i = a + b*i + (i >> 8).
func genBody(n int, a, b int) []byte {
	out := make([]byte, n)
	for i := range out {
		out[i] = byte(a + b*i + (i >> 8))
	}
	return out
}

func toyMac(n, key int, m []byte) []byte {
	a, b := cksum(m)
	out := make([]byte, 0, max(n, 0))
	for j := 0; j < n; j++ {
		out = append(out, byte(uint64(key)+uint64(len(m))+uint64(j+1)*a+uint64(j+3)*b))
	}
	return out
}

func shift(p []byte, k int) []byte {
	out := make([]byte, len(p))
	for i, x := range p {
		out[i] = byte(int(x) + k)
	}
	return out
}

func toySymEnc(bs, k int) func([]byte) ([]byte, error) {
	return func(p []byte) ([]byte, error) {
		if len(p)%bs != 0 {
			return nil, errors.New("toy: plaintext is not a multiple of the block size")
		}
		return shift(p, k), nil
	}
}

func toySymDec(bs, k int) func([]byte) ([]byte, error) {
	return func(c []byte) ([]byte, error) {
		if len(c) < bs || len(c)%bs != 0 {
			return nil, errors.New("toy: bad ciphertext length")
		}
		return shift(c, -k), nil
	}
}

// one toy RSA block: shifted bytes ++ 0xEE filler ++ 2-byte big-endian length; always ks bytes
func toyRsaEnc1(ks, k int, blk []byte) ([]byte, error) {
	if len(blk) > ks-2 {
		return nil, errors.New("toy: message too long for key size")
	}
	out := shift(blk, k)
	for len(out) < ks-2 {
		out = append(out, 0xEE)
	}
	return append(out, byte(len(blk)/256), byte(len(blk))), nil
}

func toyRsaDec1(ks, k int, c []byte) ([]byte, error) {
	if len(c) != ks || ks < 2 {
		return nil, errors.New("toy: bad block length")
	}
	n := 256*int(c[ks-2]) + int(c[ks-1])
	if n > ks-2 {
		return nil, errors.New("toy: bad block")
	}
	return shift(c[:n], -k), nil
}

// block-wise loops exactly as uapolicy.RSAOAEP.Encrypt / Decrypt
func toyAsymEnc(ks, minpad, k int) func([]byte) ([]byte, error) {
	return func(src []byte) ([]byte, error) {
		var out []byte
		maxBlock := ks - minpad
		start := 0
		for len(src)-start > 0 {
			end := start + maxBlock
			if end > len(src) {
				end = len(src)
			}
			c, err := toyRsaEnc1(ks, k, src[start:end])
			if err != nil {
				return nil, err
			}
			out = append(out, c...)
			start = end
		}
		return out, nil
	}
}

func toyAsymDec(ks, k int) func([]byte) ([]byte, error) {
	return func(src []byte) ([]byte, error) {
		var out []byte
		start := 0
		for len(src)-start > 0 {
			end := start + ks
			if end > len(src) {
				end = len(src)
			}
			p, err := toyRsaDec1(ks, k, src[start:end])
			if err != nil {
				return nil, err
			}
			out = append(out, p...)
			start = end
		}
		return out, nil
	}
}

func toyVerify(n, key int) func(m, s []byte) error {
	return func(m, s []byte) error {
		if string(toyMac(n, key, m)) != string(s) {
			return errors.New("toy: signature validation failed")
		}
		return nil
	}
}

// toySymAlgo = Model/ChunkToy.v toy_sym_algo block sig sendK recvK
func toySymAlgo(block, sig, sendK, recvK int) *uapolicy.EncryptionAlgorithm {
	return uapolicy.VerifNewAlgorithm(block, block, sig, sig, 0, uapolicy.VerifCipher{
		Enc:    toySymEnc(block, sendK),
		Dec:    toySymDec(block, recvK),
		Sign:   func(m []byte) ([]byte, error) { return toyMac(sig, sendK+1, m), nil },
		Verify: toyVerify(sig, recvK+1),
	})
}

// toyAsymAlgo = Model/ChunkToy.v toy_asym_algo lks rks minpad sendK recvK
func toyAsymAlgo(lks, rks, minpad, sendK, recvK int) *uapolicy.EncryptionAlgorithm {
	return uapolicy.VerifNewAlgorithm(rks, rks-minpad, lks, rks, 0, uapolicy.VerifCipher{
		Enc:    toyAsymEnc(rks, minpad, sendK),
		Dec:    toyAsymDec(lks, recvK),
		Sign:   func(m []byte) ([]byte, error) { return toyMac(lks, sendK+1, m), nil },
		Verify: toyVerify(rks, recvK+1),
	})
}
