package main

// c38wired: the maximal body size as the channel wires it up. Real uacp.Listen/Dialer ends negotiate
// asymmetric buffer sizes in HEL/ACK, real client and server secure channels (policy None) are opened and
// renewed on them, and for each end the active instance's maximum body size is reported next to the
// negotiated send/receive buffer sizes of its own connection: a maximal body must fit the chunk size of
// the direction it is SENT in.

import (
	"context"
	"time"

	"github.com/gopcua/opcua/ua"
	"github.com/gopcua/opcua/uacp"
	"github.com/gopcua/opcua/uasc"

	"verifharness/internal/rng"
)

type c38wiredObs struct {
	Kind    string `json:"kind"` // "wired"
	Side    string `json:"side"` // client | server
	Phase   string `json:"phase"`
	CliRecv uint32 `json:"cli_recv"`
	CliSend uint32 `json:"cli_send"`
	SrvRecv uint32 `json:"srv_recv"`
	SrvSend uint32 `json:"srv_send"`
	Send    uint32 `json:"send"` // negotiated send buffer size of this end's connection
	Recv    uint32 `json:"recv"`
	MaxBody uint32 `json:"maxbody"`
	Err     string `json:"err,omitempty"`
}

func c38wiredOne(cr, cs, sr, ss uint32) []c38wiredObs {
	base := c38wiredObs{Kind: "wired", CliRecv: cr, CliSend: cs, SrvRecv: sr, SrvSend: ss}
	fail := func(e string) []c38wiredObs { o := base; o.Err = e; return []c38wiredObs{o} }
	ctx, cancel := context.WithTimeout(context.Background(), 10*time.Second)
	defer cancel()
	l, err := uacp.Listen(ctx, "opc.tcp://127.0.0.1:0", &uacp.Acknowledge{ReceiveBufSize: sr, SendBufSize: ss, MaxMessageSize: 0, MaxChunkCount: 0})
	if err != nil {
		return fail("listen: " + err.Error())
	}
	defer l.Close()
	cfg := func() *uasc.Config {
		return &uasc.Config{SecurityPolicyURI: ua.SecurityPolicyURINone, SecurityMode: ua.MessageSecurityModeNone, Lifetime: 3600000, RequestTimeout: 5 * time.Second}
	}
	type srvRes struct {
		sc  *uasc.SecureChannel
		err error
	}
	srvCh := make(chan srvRes, 1)
	opn := make(chan struct{}, 8)
	go func() {
		conn, err := l.Accept(ctx)
		if err != nil {
			srvCh <- srvRes{nil, err}
			return
		}
		defer conn.Close()
		errch := make(chan error, 8)
		sc, err := uasc.NewServerSecureChannel("opc.tcp://"+l.Addr().String(), conn, cfg(), errch, 7, 1, 9)
		srvCh <- srvRes{sc, err}
		if err != nil {
			return
		}
		for {
			msg := sc.Receive(ctx)
			if msg.Err != nil {
				return
			}
			if msg.Request() == nil { // OPN handled inside Receive
				opn <- struct{}{}
				continue
			}
			if _, ok := msg.Request().(*ua.CloseSecureChannelRequest); ok {
				return
			}
		}
	}()
	d := &uacp.Dialer{ClientACK: &uacp.Acknowledge{ReceiveBufSize: cr, SendBufSize: cs}}
	url := "opc.tcp://" + l.Addr().String()
	conn, err := d.Dial(ctx, url)
	if err != nil {
		return fail("dial: " + err.Error())
	}
	defer conn.Close()
	errch := make(chan error, 8)
	go func() {
		for range errch {
		}
	}()
	sc, err := uasc.NewSecureChannel(url, conn, cfg(), errch)
	if err != nil {
		return fail("newchannel: " + err.Error())
	}
	if err := sc.Open(ctx); err != nil {
		return fail("open: " + err.Error())
	}
	defer sc.Close()
	sr0 := <-srvCh
	if sr0.err != nil {
		return fail("server: " + sr0.err.Error())
	}
	var out []c38wiredObs
	snap := func(phase string) {
		for _, e := range []struct {
			side string
			ch   *uasc.SecureChannel
		}{{"client", sc}, {"server", sr0.sc}} {
			o := base
			o.Side, o.Phase = e.side, phase
			v := uasc.VerifChannel{S: e.ch}
			o.Send, o.Recv = v.ConnBufSizes()
			mb, ok := v.ActiveMaxBodySize()
			if !ok {
				o.Err = "no active instance"
			}
			o.MaxBody = mb
			out = append(out, o)
		}
	}
	select {
	case <-opn:
	case <-time.After(3 * time.Second):
	}
	snap("open")
	if err := sc.Renew(ctx); err == nil {
		select {
		case <-opn:
		case <-time.After(3 * time.Second):
		}
		snap("renew")
	}
	return out
}

func c38wired(seed uint64, n int) {
	r := rng.New(seed ^ 0x38c)
	sizes := []uint32{8192, 8193, 9000, 16384, 32768, 65535, 65536, 100000}
	type q struct{ cr, cs, sr, ss uint32 }
	cases := []q{{8192, 65535, 65535, 65535}, {65535, 8192, 65535, 65535}, {65535, 65535, 8192, 65535}, {65535, 65535, 65535, 8192},
		{65535, 65535, 65535, 65535}, {8192, 8192, 8192, 8192}, {8192, 65535, 65535, 8192}, {65535, 8192, 8192, 65535}}
	for i := 0; i < n; i++ {
		pick := func() uint32 {
			if r.Intn(3) == 0 {
				return 8192 + uint32(r.Intn(60000))
			}
			return sizes[r.Intn(len(sizes))]
		}
		cases = append(cases, q{pick(), pick(), pick(), pick()})
	}
	for _, c := range cases {
		for _, o := range c38wiredOne(c.cr, c.cs, c.sr, c.ss) {
			enc.Encode(o)
		}
	}
}
