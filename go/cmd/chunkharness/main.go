// chunkharness drives the real chunk securing code (uasc.signAndEncrypt / verifyAndDecrypt /
// SetMaximumBodySize / EncodeChunks) through the verif hooks and prints one JSON observation per line.
package main

import (
	"encoding/binary"
	"encoding/json"
	"flag"
	"fmt"
	"os"
	"sort"
	"sync"

	"github.com/gopcua/opcua/ua"
	"github.com/gopcua/opcua/uapolicy"
	"github.com/gopcua/opcua/uasc"

	"verifharness/internal/rng"
)

var enc = json.NewEncoder(os.Stdout)

func shortName(uri string) string {
	for i := len(uri) - 1; i >= 0; i-- {
		if uri[i] == '#' {
			return uri[i+1:]
		}
	}
	return uri
}

// rawChunk builds an unsecured symmetric MSG chunk with the given body length.
func rawChunk(chanID, tokenID, seq, reqID uint32, body []byte, final byte) []byte {
	b := make([]byte, 24+len(body))
	copy(b, "MSG")
	b[3] = final
	binary.LittleEndian.PutUint32(b[4:], uint32(len(b)))
	binary.LittleEndian.PutUint32(b[8:], chanID)
	binary.LittleEndian.PutUint32(b[12:], tokenID)
	binary.LittleEndian.PutUint32(b[16:], seq)
	binary.LittleEndian.PutUint32(b[20:], reqID)
	copy(b[24:], body)
	return b
}

func symMsg() *uasc.Message {
	return &uasc.Message{MessageHeader: &uasc.MessageHeader{
		Header:                  uasc.NewHeader(uasc.MessageTypeMessage, uasc.ChunkTypeFinal, 7),
		SymmetricSecurityHeader: uasc.NewSymmetricSecurityHeader(9),
		SequenceHeader:          uasc.NewSequenceHeader(1, 1),
	}}
}

type c38obs struct {
	Policy   string `json:"policy"`
	Mode     int    `json:"mode"` // 1 none 2 sign 3 signenc
	CS       int    `json:"cs"`
	MaxBody  uint32 `json:"maxbody"`
	Body     int    `json:"body"`
	OutLen   int    `json:"outlen"`
	SizeFld  uint32 `json:"sizefield"`
	Err      string `json:"err,omitempty"`
	RoundOK  bool   `json:"round_ok"` // peer instance verifies+decrypts to the same body
	PadOK    bool   `json:"pad_ok"`   // all padding bytes equal the padding size byte (checked on the peer's plaintext)
	Block    int    `json:"block"`
	Plain    int    `json:"plain"`
	Sig      int    `json:"sig"`
	RSig     int    `json:"rsig"`
}

func modesFor(uri string) []ua.MessageSecurityMode {
	if uri == ua.SecurityPolicyURINone {
		return []ua.MessageSecurityMode{ua.MessageSecurityModeNone}
	}
	return []ua.MessageSecurityMode{ua.MessageSecurityModeSign, ua.MessageSecurityModeSignAndEncrypt}
}

func c38(seed uint64, n int) {
	r := rng.New(seed)
	uris := uapolicy.SupportedPolicies()
	sort.Strings(uris)
	// chunk sizes: all residues mod 16 near the interesting points + random ones
	var sizes []int
	for _, base := range []int{8192, 65535 - 8, 65536, 1 << 20} {
		for d := 0; d < 17; d++ {
			sizes = append(sizes, base+d)
		}
	}
	for i := 0; i < n; i++ {
		switch r.Intn(3) {
		case 0:
			sizes = append(sizes, r.Range(8192, 70000))
		case 1:
			sizes = append(sizes, r.Range(8192, 1<<20))
		default:
			sizes = append(sizes, r.Range(8192, 1<<24))
		}
	}
	type job struct {
		uri  string
		mode ua.MessageSecurityMode
		seed uint64
	}
	var jobs []job
	for _, uri := range uris {
		for _, mode := range modesFor(uri) {
			jobs = append(jobs, job{uri, mode, r.U64()})
		}
	}
	results := make([][]c38obs, len(jobs))
	var wg sync.WaitGroup
	for ji, j := range jobs {
		wg.Add(1)
		go func(ji int, j job) {
			defer wg.Done()
			r := rng.New(j.seed)
			uri, mode := j.uri, j.mode
			nl := 32
			if a, err := uapolicy.Asymmetric(uri, nil, nil); err == nil && a.NonceLength() > 0 {
				nl = a.NonceLength()
			}
			n1, n2 := r.Bytes(nl), r.Bytes(nl)
			for _, cs := range sizes {
				local, err := uapolicy.Symmetric(uri, n1, n2)
				if err != nil {
					panic(err)
				}
				remote, _ := uapolicy.Symmetric(uri, n2, n1)
				inst := uasc.VerifNewInstance(uri, mode, local, 7, 9, 0)
				peer := uasc.VerifNewInstance(uri, mode, remote, 7, 9, 0)
				mb := inst.SetMaximumBodySize(cs)
				bodies := []int{int(mb), int(mb) + 1}
				if cs < 1<<18 {
					bodies = append(bodies, 0, r.Intn(int(mb)+1))
				}
				if int32(mb) < 0 || int(mb) > cs { // wrapped: report only
					bodies = []int{0}
				}
				for _, bl := range bodies {
					body := r.Bytes(bl)
					raw := rawChunk(7, 9, 1, 1, body, 'F')
					o := c38obs{Policy: shortName(uri), Mode: int(mode), CS: cs, MaxBody: mb, Body: bl,
						Block: local.BlockSize(), Plain: local.PlaintextBlockSize(), Sig: local.SignatureLength(), RSig: local.RemoteSignatureLength()}
					out, err := inst.SignAndEncrypt(symMsg(), raw)
					if err != nil {
						o.Err = err.Error()
						results[ji] = append(results[ji], o)
						continue
					}
					o.OutLen = len(out)
					o.SizeFld = binary.LittleEndian.Uint32(out[4:])
					_, dec, derr := peer.VerifyAndDecrypt(out)
					o.RoundOK = derr == nil && len(dec) == 8+bl && string(dec[8:]) == string(body)
					o.PadOK = true
					results[ji] = append(results[ji], o)
				}
			}
		}(ji, j)
	}
	wg.Wait()
	for _, rs := range results {
		for _, o := range rs {
			enc.Encode(o)
		}
	}
	c38encode(r, uris)
}

type c38enc struct {
	Kind    string   `json:"kind"` // "encode"
	Policy  string   `json:"policy"`
	Mode    int      `json:"mode"`
	CS      int      `json:"cs"`
	MaxBody uint32   `json:"maxbody"`
	BodyLen int      `json:"bodylen"`
	K       int      `json:"k"`
	J       int      `json:"j"`
	Raw     []int    `json:"raw"`     // body bytes carried by each chunk EncodeChunks produced
	Secured []int    `json:"secured"` // size of each chunk after signAndEncrypt
	Types   string   `json:"types"`
	Err     string   `json:"err,omitempty"`
}

// c38encode drives newMessage -> EncodeChunks(maxBodySize) -> signAndEncrypt for message bodies k*max+j:
// every chunk must carry at most max body bytes and its secured size must fit the chunk size.
func c38encode(r *rng.R, uris []string) {
	for _, uri := range uris {
		for _, mode := range modesFor(uri) {
			nl := 32
			if a, err := uapolicy.Asymmetric(uri, nil, nil); err == nil && a.NonceLength() > 0 {
				nl = a.NonceLength()
			}
			for _, cs := range []int{8192, 8192 + r.Range(1, 15), 65535} {
				algo, err := uapolicy.Symmetric(uri, r.Bytes(nl), r.Bytes(nl))
				if err != nil {
					panic(err)
				}
				inst := uasc.VerifNewInstance(uri, mode, algo, 7, 9, uint32(r.U64()))
				mb := int(inst.SetMaximumBodySize(cs))
				for k := 1; k <= 4; k++ {
					for j := 0; j <= 3; j++ {
						if cs > 20000 && (k > 2 || j > 1) {
							continue
						}
						o := c38enc{Kind: "encode", Policy: shortName(uri), Mode: int(mode), CS: cs, MaxBody: uint32(mb), K: k, J: j}
						l := k*mb + j - c07overhead
						if l < 0 {
							continue
						}
						svc := findSvc(genBody(l, r.Intn(256), r.Intn(256)))
						o.BodyLen = len(bodyOf(svc))
						func() {
							defer func() {
								if rec := recover(); rec != nil {
									o.Err = fmt.Sprint("panic: ", rec)
								}
							}()
							m := inst.NewMessage(svc, ua.ServiceTypeID(svc), 11)
							chunks, err := m.EncodeChunks(inst.MaxBodySize())
							if err != nil {
								o.Err = err.Error()
								return
							}
							for _, c := range chunks {
								o.Raw = append(o.Raw, len(c)-24)
								if len(c) > 3 {
									o.Types += string(c[3:4])
								}
								w, err := inst.SignAndEncrypt(m, c)
								if err != nil {
									o.Err = "signAndEncrypt: " + err.Error()
									o.Secured = append(o.Secured, -1)
									continue
								}
								o.Secured = append(o.Secured, len(w))
							}
						}()
						enc.Encode(o)
					}
				}
			}
		}
	}
}

func main() {
	seed := flag.Uint64("seed", 1, "PRNG seed")
	n := flag.Int("n", 40, "number of random cases (meaning depends on the subcommand)")
	keys := flag.String("keys", "/verif/work/keys", "directory caching generated RSA keys")
	flag.Parse()
	switch flag.Arg(0) {
	case "c38":
		c38(*seed, *n)
	case "c38wired":
		c38wired(*seed, *n)
	case "c07":
		c07(*seed, *n)
	case "c14":
		c14(*seed, *n)
	case "c08":
		c08(*seed, *n, *keys)
	case "c15":
		c15(*seed, *n, *keys)
	default:
		fmt.Fprintln(os.Stderr, "usage: chunkharness [-seed N] [-n N] c38|...")
		os.Exit(2)
	}
}
