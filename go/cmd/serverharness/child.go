package main

import (
	"bufio"
	"context"
	"crypto/rand"
	"crypto/rsa"
	"crypto/x509"
	"crypto/x509/pkix"
	"encoding/binary"
	"encoding/json"
	"fmt"
	"io"
	"math/big"
	"net"
	"net/url"
	"os"
	"os/exec"
	"strings"
	"sync"
	"time"

	"github.com/gopcua/opcua/server"
	"github.com/gopcua/opcua/ua"

	"verifharness/internal/rng"
)

// ---------------------------------------------------------------------------------------------
// certificates for secured configurations

func selfSigned(appURI string) ([]byte, *rsa.PrivateKey) {
	key, err := rsa.GenerateKey(rand.Reader, 2048)
	if err != nil {
		panic(err)
	}
	u, _ := url.Parse(appURI)
	tmpl := &x509.Certificate{
		SerialNumber: big.NewInt(time.Now().UnixNano()), Subject: pkix.Name{CommonName: "verif"},
		NotBefore: time.Now().Add(-time.Hour), NotAfter: time.Now().Add(24 * time.Hour),
		KeyUsage:    x509.KeyUsageDigitalSignature | x509.KeyUsageKeyEncipherment | x509.KeyUsageDataEncipherment | x509.KeyUsageContentCommitment | x509.KeyUsageCertSign,
		ExtKeyUsage: []x509.ExtKeyUsage{x509.ExtKeyUsageServerAuth, x509.ExtKeyUsageClientAuth}, BasicConstraintsValid: true,
		DNSNames: []string{"localhost"}, URIs: []*url.URL{u},
	}
	der, err := x509.CreateCertificate(rand.Reader, tmpl, tmpl, &key.PublicKey, key)
	if err != nil {
		panic(err)
	}
	return der, key
}

type secPair struct {
	Policy string
	Mode   ua.MessageSecurityMode
}

func parseSec(s string) []secPair {
	var out []secPair
	for _, p := range strings.Split(s, ",") {
		if p == "" {
			continue
		}
		var name string
		var m int
		i := strings.LastIndex(p, ":")
		name = p[:i]
		fmt.Sscanf(p[i+1:], "%d", &m)
		out = append(out, secPair{name, ua.MessageSecurityMode(m)})
	}
	return out
}

// serve runs a server until killed; prints {"port":N} once it listens.
func serve(sec string) {
	var opts []server.Option
	pairs := parseSec(sec)
	if sec == "" {
		pairs = []secPair{{"None", ua.MessageSecurityModeNone}}
	}
	secured := false
	for _, p := range pairs {
		opts = append(opts, server.EnableSecurity(p.Policy, p.Mode))
		if p.Policy != "None" {
			secured = true
		}
	}
	opts = append(opts, server.EnableAuthMode(ua.UserTokenTypeAnonymous))
	if secured {
		cert, key := selfSigned("urn:verif:server")
		opts = append(opts, server.Certificate(cert), server.PrivateKey(key))
	}
	s := startServer(opts...)
	// a few nodes with large reference lists already exist in namespace 0; add one writable variable
	s.ns.AddNode(server.NewNode(ua.NewStringNodeID(s.ns.ID(), "canary"), nil, nil, func() *ua.DataValue { return server.DataValueFromValue(int32(7)) }))
	big := strings.Repeat("0123456789abcdef", 3072) // 48 KiB
	s.ns.AddNode(server.NewNode(ua.NewStringNodeID(s.ns.ID(), "big"), nil, nil, func() *ua.DataValue { return server.DataValueFromValue(big) }))
	var port int
	fmt.Sscanf(s.url, "opc.tcp://localhost:%d", &port)
	emit(map[string]any{"port": port})
	select {}
}

type child struct {
	cmd  *exec.Cmd
	port int
	done chan struct{}
	log  *strings.Builder
	mu   sync.Mutex
}

func spawnServer(args ...string) *child {
	self, _ := os.Executable()
	cmd := exec.Command(self, append([]string{"serve"}, args...)...)
	stdout, _ := cmd.StdoutPipe()
	c := &child{cmd: cmd, done: make(chan struct{}), log: &strings.Builder{}}
	stderr, _ := cmd.StderrPipe()
	if err := cmd.Start(); err != nil {
		panic(err)
	}
	go func() {
		b := make([]byte, 4096)
		for {
			n, err := stderr.Read(b)
			c.mu.Lock()
			if c.log.Len() < 1<<16 {
				c.log.Write(b[:n])
			}
			c.mu.Unlock()
			if err != nil {
				return
			}
		}
	}()
	rd := bufio.NewReader(stdout)
	line, err := rd.ReadString('\n')
	if err != nil {
		panic("child did not start: " + err.Error())
	}
	var m map[string]int
	json.Unmarshal([]byte(line), &m)
	c.port = m["port"]
	go func() { io.Copy(io.Discard, rd); cmd.Wait(); close(c.done) }()
	return c
}

func (c *child) alive() bool {
	select {
	case <-c.done:
		return false
	default:
		return true
	}
}

func (c *child) kill() { c.cmd.Process.Kill(); <-c.done }

func (c *child) stderrTail() string {
	c.mu.Lock()
	defer c.mu.Unlock()
	s := c.log.String()
	if i := strings.Index(s, "panic:"); i >= 0 {
		s = s[i:]
	}
	if len(s) > 1500 {
		s = s[:1500]
	}
	return s
}

// canary: a well-behaved client with an activated session reading one value
type canary struct {
	c   *rawClient
	tok *ua.NodeID
	ns  uint16
}

func newCanary(url string) (*canary, error) {
	c, err := dialRaw(context.Background(), url, nil)
	if err != nil {
		return nil, err
	}
	resp, err := c.call(&ua.CreateSessionRequest{ClientDescription: &ua.ApplicationDescription{ApplicationName: &ua.LocalizedText{}}, EndpointURL: url, ClientNonce: make([]byte, 32), RequestedSessionTimeout: 60000}, nil, 3*time.Second)
	if err != nil {
		return nil, err
	}
	tok := resp.(*ua.CreateSessionResponse).AuthenticationToken
	if _, err := c.call(&ua.ActivateSessionRequest{ClientSignature: &ua.SignatureData{}, UserIdentityToken: ua.NewExtensionObject(&ua.AnonymousIdentityToken{PolicyID: "anonymous"}), UserTokenSignature: &ua.SignatureData{}}, tok, 3*time.Second); err != nil {
		return nil, err
	}
	return &canary{c: c, tok: tok, ns: 1}, nil
}

// ping returns the latency of one Read, or an error
func (k *canary) ping(timeout time.Duration) (time.Duration, error) {
	t0 := time.Now()
	resp, err := k.c.call(&ua.ReadRequest{NodesToRead: []*ua.ReadValueID{{NodeID: ua.NewStringNodeID(k.ns, "canary"), AttributeID: ua.AttributeIDValue, DataEncoding: &ua.QualifiedName{}}}}, k.tok, timeout)
	if err != nil {
		return time.Since(t0), err
	}
	rr, ok := resp.(*ua.ReadResponse)
	if !ok || len(rr.Results) != 1 {
		return time.Since(t0), fmt.Errorf("canary got a malformed answer %T", resp)
	}
	return time.Since(t0), nil
}

// ---------------------------------------------------------------------------------------------
// C29: fuzzing client + canary against a child server

// raw frames on a TCP connection that completed HEL/ACK
func helloConn(port int) (net.Conn, error) {
	conn, err := net.DialTimeout("tcp", fmt.Sprintf("localhost:%d", port), 2*time.Second)
	if err != nil {
		return nil, err
	}
	ep := fmt.Sprintf("opc.tcp://localhost:%d", port)
	body := make([]byte, 0, 64)
	for _, v := range []uint32{0, 65535, 65535, 0, 0} {
		body = binary.LittleEndian.AppendUint32(body, v)
	}
	body = binary.LittleEndian.AppendUint32(body, uint32(len(ep)))
	body = append(body, ep...)
	f := append([]byte("HELF"), 0, 0, 0, 0)
	binary.LittleEndian.PutUint32(f[4:], uint32(8+len(body)))
	f = append(f, body...)
	conn.SetDeadline(time.Now().Add(2 * time.Second))
	if _, err := conn.Write(f); err != nil {
		conn.Close()
		return nil, err
	}
	hdr := make([]byte, 8)
	if _, err := io.ReadFull(conn, hdr); err != nil {
		conn.Close()
		return nil, err
	}
	rest := make([]byte, binary.LittleEndian.Uint32(hdr[4:])-8)
	if _, err := io.ReadFull(conn, rest); err != nil {
		conn.Close()
		return nil, err
	}
	conn.SetDeadline(time.Time{})
	return conn, nil
}

func frame(typ string, chanID uint32, rest []byte) []byte {
	f := make([]byte, 12, 12+len(rest))
	copy(f, typ)
	binary.LittleEndian.PutUint32(f[4:], uint32(12+len(rest)))
	binary.LittleEndian.PutUint32(f[8:], chanID)
	return append(f, rest...)
}

func lpString(s string) []byte {
	b := binary.LittleEndian.AppendUint32(nil, uint32(len(s)))
	return append(b, s...)
}

// opnFrame builds an unsecured OpenSecureChannel request chunk.
func opnFrame(seq, reqID uint32) []byte {
	return opnFrameWith(ua.SecurityPolicyURINone, ua.MessageSecurityModeNone, seq, reqID)
}

// opnFrameWith builds an unsecured OpenSecureChannel request chunk that names any policy URI and mode.
func opnFrameWith(policyURI string, mode ua.MessageSecurityMode, seq, reqID uint32) []byte {
	return opnFrameKind(policyURI, mode, ua.SecurityTokenRequestTypeIssue, 0, seq, reqID)
}

// opnFrameKind: request type (Issue / Renew) and the channel id of the chunk header are chosen too.
func opnFrameKind(policyURI string, mode ua.MessageSecurityMode, kind ua.SecurityTokenRequestType, chanID, seq, reqID uint32) []byte {
	body, err := ua.Encode(&ua.OpenSecureChannelRequest{
		RequestHeader:     &ua.RequestHeader{AuthenticationToken: ua.NewTwoByteNodeID(0), Timestamp: time.Now(), RequestHandle: reqID, AdditionalHeader: ua.NewExtensionObject(nil)},
		RequestType:       kind,
		SecurityMode:      mode,
		RequestedLifetime: 3600000,
	})
	if err != nil {
		panic(err)
	}
	rest := lpString(policyURI)
	rest = append(rest, 0xff, 0xff, 0xff, 0xff, 0xff, 0xff, 0xff, 0xff)
	rest = binary.LittleEndian.AppendUint32(rest, seq)
	rest = binary.LittleEndian.AppendUint32(rest, reqID)
	rest = append(rest, 1, 0, 0xbe, 0x01) // four-byte node id i=446
	rest = append(rest, body...)
	return frame("OPNF", chanID, rest)
}

func msgFrame(chanID, tokenID, seq, reqID uint32, typeID uint16, req any) []byte {
	body, err := ua.Encode(req)
	if err != nil {
		panic(err)
	}
	rest := binary.LittleEndian.AppendUint32(nil, tokenID)
	rest = binary.LittleEndian.AppendUint32(rest, seq)
	rest = binary.LittleEndian.AppendUint32(rest, reqID)
	rest = append(rest, 1, 0, byte(typeID), byte(typeID>>8))
	rest = append(rest, body...)
	return frame("MSGF", chanID, rest)
}

// readMessage reads chunks until a final one and returns the concatenated body after the sequence header
func readMessage(conn net.Conn, timeout time.Duration) (typ string, body []byte, err error) {
	for {
		conn.SetReadDeadline(time.Now().Add(timeout))
		hdr := make([]byte, 8)
		if _, err = io.ReadFull(conn, hdr); err != nil {
			return "", nil, err
		}
		rest := make([]byte, binary.LittleEndian.Uint32(hdr[4:])-8)
		if _, err = io.ReadFull(conn, rest); err != nil {
			return "", nil, err
		}
		typ = string(hdr[:3])
		switch typ {
		case "OPN":
			p := 4
			for i := 0; i < 3; i++ {
				l := int32(binary.LittleEndian.Uint32(rest[p:]))
				p += 4
				if l > 0 {
					p += int(l)
				}
			}
			body = append(body, rest[p+8:]...)
		case "MSG":
			body = append(body, rest[4+4+8:]...)
		default:
			return typ, rest, nil
		}
		if hdr[3] == 'F' {
			return typ, body, nil
		}
	}
}

// rawSession opens a channel and an activated session by hand; returns channel id, token id, auth token, next seq
type rawSess struct {
	conn            net.Conn
	chanID, tokenID uint32
	seq, reqID      uint32
	auth            *ua.NodeID
}

func (s *rawSess) hdr() *ua.RequestHeader {
	return &ua.RequestHeader{AuthenticationToken: s.auth, Timestamp: time.Now(), RequestHandle: s.reqID, AdditionalHeader: ua.NewExtensionObject(nil)}
}

func (s *rawSess) send(req ua.Request) error {
	s.seq++
	s.reqID++
	req.SetHeader(s.hdr())
	_, err := s.conn.Write(msgFrame(s.chanID, s.tokenID, s.seq, s.reqID, ua.ServiceTypeID(req), req))
	return err
}

func openRawSession(port int) (*rawSess, error) {
	conn, err := helloConn(port)
	if err != nil {
		return nil, err
	}
	s := &rawSess{conn: conn, seq: 1, reqID: 1, auth: ua.NewTwoByteNodeID(0)}
	if _, err := conn.Write(opnFrame(1, 1)); err != nil {
		return nil, err
	}
	_, body, err := readMessage(conn, 3*time.Second)
	if err != nil {
		return nil, err
	}
	_, svc, err := ua.DecodeService(body)
	if err != nil {
		return nil, err
	}
	opn, ok := svc.(*ua.OpenSecureChannelResponse)
	if !ok {
		return nil, fmt.Errorf("unexpected OPN answer %T", svc)
	}
	s.chanID, s.tokenID = opn.SecurityToken.ChannelID, opn.SecurityToken.TokenID
	if err := s.send(&ua.CreateSessionRequest{ClientDescription: &ua.ApplicationDescription{ApplicationName: &ua.LocalizedText{}}, EndpointURL: "opc.tcp://localhost", ClientNonce: make([]byte, 32), RequestedSessionTimeout: 60000}); err != nil {
		return nil, err
	}
	_, body, err = readMessage(conn, 3*time.Second)
	if err != nil {
		return nil, err
	}
	_, svc, err = ua.DecodeService(body)
	if err != nil {
		return nil, err
	}
	cs, ok := svc.(*ua.CreateSessionResponse)
	if !ok {
		return nil, fmt.Errorf("unexpected CreateSession answer %T", svc)
	}
	s.auth = cs.AuthenticationToken
	if err := s.send(&ua.ActivateSessionRequest{ClientSignature: &ua.SignatureData{}, UserIdentityToken: ua.NewExtensionObject(&ua.AnonymousIdentityToken{PolicyID: "anonymous"}), UserTokenSignature: &ua.SignatureData{}}); err != nil {
		return nil, err
	}
	if _, _, err = readMessage(conn, 3*time.Second); err != nil {
		return nil, err
	}
	return s, nil
}

// fuzz: well-formed hostile requests through raw sessions and malformed frames, canary after each case
func fuzz(seed uint64, n int) {
	r := rng.New(seed)
	ch := spawnServer()
	defer func() {
		if ch.alive() {
			ch.kill()
		}
	}()
	url := fmt.Sprintf("opc.tcp://localhost:%d", ch.port)
	can, err := newCanary(url)
	if err != nil {
		emit(map[string]any{"t": "fuzz", "i": -1, "kind": "canary-setup", "alive": ch.alive(), "err": err.Error(), "stderr": ch.stderrTail()})
		return
	}
	sess, err := openRawSession(ch.port)
	if err != nil {
		emit(map[string]any{"t": "fuzz", "i": -1, "kind": "raw-session-setup", "alive": ch.alive(), "err": err.Error(), "stderr": ch.stderrTail()})
		return
	}
	go io.Copy(io.Discard, sess.conn) // this client reads (and drops) its responses
	maxLat := time.Duration(0)
	for i := 0; i < n; i++ {
		kind, desc := fuzzCase(r, sess, ch.port)
		lat, perr := can.ping(3 * time.Second)
		if lat > maxLat {
			maxLat = lat
		}
		o := map[string]any{"t": "fuzz", "i": i, "kind": kind, "desc": desc, "alive": ch.alive(), "canary_ms": float64(lat.Microseconds()) / 1000}
		if perr != nil {
			time.Sleep(50 * time.Millisecond)
			o["alive"] = ch.alive()
			o["err"] = perr.Error()
			o["stderr"] = ch.stderrTail()
			emit(o)
			return
		}
		emit(o)
		if kind == "frames" || i%40 == 39 { // the frame fuzzer may have killed our own channel: open a new one
			sess.conn.Close()
			if sess, err = openRawSession(ch.port); err != nil {
				emit(map[string]any{"t": "fuzz", "i": i, "kind": "reopen", "alive": ch.alive(), "err": err.Error(), "stderr": ch.stderrTail()})
				return
			}
			go io.Copy(io.Discard, sess.conn)
		}
	}
	emit(map[string]any{"t": "fuzzdone", "n": n, "max_canary_ms": float64(maxLat.Microseconds()) / 1000, "alive": ch.alive()})
}

func fuzzCase(r *rng.R, s *rawSess, port int) (string, string) {
	nid := func() *ua.NodeID {
		switch r.Intn(6) {
		case 0:
			return ua.NewNumericNodeID(uint16(r.Pick(0, 1, 2, 9, 65535)), uint32(r.Pick(0, 84, 85, 2253, 45, 33, 4294967295)))
		case 1:
			return ua.NewStringNodeID(uint16(r.Pick(0, 1)), string(r.Bytes(r.Intn(40))))
		case 2:
			return ua.NewStringNodeID(1, "canary")
		case 3:
			return ua.NewByteStringNodeID(uint16(r.Pick(0, 1)), r.Bytes(r.Intn(20)))
		default:
			return ua.NewNumericNodeID(0, stdNodes[r.Intn(len(stdNodes))])
		}
	}
	ids := func() []uint32 {
		var out []uint32
		for k := r.Pick(0, 1, 2, 5, 300); k > 0; k-- {
			out = append(out, uint32(r.Pick(0, 1, 2, 3, 4, 5, 6, 1000, 4294967295)))
		}
		return out
	}
	saved := s.auth
	defer func() { s.auth = saved }()
	if r.Intn(5) == 0 { // wrong / missing token
		s.auth = []*ua.NodeID{ua.NewTwoByteNodeID(0), ua.NewNumericNodeID(0, 12345), ua.NewStringNodeID(3, "x"), ua.NewGUIDNodeID(1, "00000000-0000-0000-0000-000000000000")}[r.Intn(4)]
	}
	var req ua.Request
	switch k := r.Intn(16); k {
	case 0:
		iv := ivalFloat(*pickInterval(r))
		req = &ua.CreateSubscriptionRequest{RequestedPublishingInterval: iv, RequestedLifetimeCount: uint32(r.Pick(0, 1, 3, 100000)), RequestedMaxKeepAliveCount: uint32(r.Pick(0, 1, 100000)), PublishingEnabled: r.Bool()}
	case 1:
		req = &ua.DeleteSubscriptionsRequest{SubscriptionIDs: ids()}
	case 2:
		q := &ua.CreateMonitoredItemsRequest{SubscriptionID: uint32(r.Pick(0, 1, 2, 3, 99))}
		for j := r.Pick(0, 1, 3, 50); j > 0; j-- {
			q.ItemsToCreate = append(q.ItemsToCreate, &ua.MonitoredItemCreateRequest{ItemToMonitor: &ua.ReadValueID{NodeID: nid(), AttributeID: ua.AttributeID(r.Pick(0, 1, 2, 13, 17, 99)), DataEncoding: &ua.QualifiedName{}}, RequestedParameters: &ua.MonitoringParameters{ClientHandle: uint32(j), Filter: ua.NewExtensionObject(nil)}})
		}
		req = q
	case 3:
		req = &ua.DeleteMonitoredItemsRequest{SubscriptionID: uint32(r.Intn(4)), MonitoredItemIDs: ids()}
	case 4:
		req = &ua.SetMonitoringModeRequest{SubscriptionID: uint32(r.Intn(4)), MonitoringMode: ua.MonitoringMode(r.Pick(0, 1, 2, 77)), MonitoredItemIDs: ids()}
	case 5, 6:
		q := &ua.BrowseRequest{View: &ua.ViewDescription{ViewID: ua.NewTwoByteNodeID(0)}}
		for j := r.Pick(0, 1, 2, 30); j > 0; j-- {
			q.NodesToBrowse = append(q.NodesToBrowse, &ua.BrowseDescription{NodeID: nid(), BrowseDirection: ua.BrowseDirection(r.Pick(0, 1, 2, 3, 77)),
				ReferenceTypeID: ua.NewNumericNodeID(uint16(r.Pick(0, 0, 0, 1)), stdRefTypes[r.Intn(len(stdRefTypes))]), IncludeSubtypes: r.Bool(), NodeClassMask: uint32(r.Pick(0, 0, 1, 255, 0xffffffff)), ResultMask: uint32(r.Pick(0, 63))})
		}
		req = q
	case 7, 8:
		q := &ua.ReadRequest{MaxAge: float64(r.Pick(0, -1)), TimestampsToReturn: ua.TimestampsToReturn(r.Pick(0, 1, 2, 3, 9))}
		for j := r.Pick(0, 1, 3, 33, 500); j > 0; j-- {
			q.NodesToRead = append(q.NodesToRead, &ua.ReadValueID{NodeID: nid(), AttributeID: ua.AttributeID(r.Pick(0, 1, 2, 3, 4, 5, 12, 13, 14, 17, 18, 27, 99)), IndexRange: []string{"", "0:1", "x"}[r.Intn(3)], DataEncoding: &ua.QualifiedName{}})
		}
		req = q
	case 9, 10:
		q := &ua.WriteRequest{}
		for j := r.Pick(0, 1, 2, 20); j > 0; j-- {
			v := pickValue(r)
			q.NodesToWrite = append(q.NodesToWrite, &ua.WriteValue{NodeID: nid(), AttributeID: ua.AttributeID(r.Pick(1, 2, 3, 4, 5, 13, 14, 17, 18, 99)), Value: mkDV(v)})
		}
		req = q
	case 11:
		req = &ua.PublishRequest{}
	case 12:
		req = svcReqs[svcNames[r.Intn(len(svcNames))]]()
	case 13:
		req = &ua.ActivateSessionRequest{ClientSignature: &ua.SignatureData{Signature: r.Bytes(r.Intn(40))}, UserIdentityToken: ua.NewExtensionObject(nil), UserTokenSignature: &ua.SignatureData{}}
	case 14:
		req = &ua.CreateSessionRequest{ClientDescription: &ua.ApplicationDescription{ApplicationName: &ua.LocalizedText{}}, EndpointURL: string(r.Bytes(r.Intn(30))), ClientNonce: r.Bytes(r.Pick(0, 1, 32)), ClientCertificate: r.Bytes(r.Pick(0, 0, 10)), RequestedSessionTimeout: ivalFloat(*pickInterval(r))}
	default:
		// malformed frames on a fresh connection
		conn, err := helloConn(port)
		if err != nil {
			return "frames", "hello failed: " + err.Error()
		}
		defer conn.Close()
		var desc []string
		for j := r.Range(1, 4); j > 0; j-- {
			var f []byte
			switch r.Intn(5) {
			case 0:
				f = opnFrame(uint32(r.Intn(5)), uint32(r.Intn(5)))
				for m := r.Intn(4); m > 0 && len(f) > 12; m-- {
					f[8+r.Intn(len(f)-8)] ^= byte(1 << r.Intn(8))
				}
			case 1:
				f = frame([]string{"MSGF", "MSGC", "MSGA", "OPNF", "CLOF", "ERRF", "XYZF"}[r.Intn(7)], uint32(r.Pick(0, 1, int(s.chanID))), r.Bytes(r.Pick(0, 1, 4, 12, 16, 40, 200)))
			case 2:
				f = msgFrame(s.chanID, s.tokenID, uint32(r.Intn(10)), uint32(r.Intn(10)), uint16(r.Pick(631, 527, 787, 0, 65535)), &ua.ReadRequest{})
				f = f[:r.Range(8, len(f))]
				binary.LittleEndian.PutUint32(f[4:], uint32(len(f)))
			case 3:
				f = append([]byte("MSGF"), 0xff, 0xff, 0xff, 0x7f)
			default:
				f = r.Bytes(r.Range(1, 64))
			}
			conn.SetWriteDeadline(time.Now().Add(time.Second))
			conn.Write(f)
			desc = append(desc, fmt.Sprintf("%x", f[:min(len(f), 24)]))
		}
		time.Sleep(5 * time.Millisecond)
		return "frames", strings.Join(desc, " ")
	}
	if err := s.send(req); err != nil {
		return fmt.Sprintf("%T", req), "send failed: " + err.Error()
	}
	b, _ := json.Marshal(req)
	if len(b) > 300 {
		b = b[:300]
	}
	return fmt.Sprintf("%T", req), string(b)
}

// the server's default write deadline for responses (uasc defaultResponseWriteTimeout)
const responseDeadline = 5 * time.Second

// canaryWrite writes the canary node (a change of a monitored node is handed to the subscriptions' workers)
func (k *canary) write(v int32, timeout time.Duration) (time.Duration, error) {
	t0 := time.Now()
	_, err := k.c.call(&ua.WriteRequest{NodesToWrite: []*ua.WriteValue{{NodeID: ua.NewStringNodeID(k.ns, "canary"), AttributeID: ua.AttributeIDValue,
		Value: &ua.DataValue{EncodingMask: ua.DataValueValue, Value: ua.MustVariant(v)}}}}, k.tok, timeout)
	return time.Since(t0), err
}

// flood sends Browse requests with large answers on a raw session and never reads; returns when told or when the write blocks
func flood(s *rawSess, stop chan struct{}, sent *int) {
	for {
		select {
		case <-stop:
			return
		default:
		}
		q := &ua.BrowseRequest{View: &ua.ViewDescription{ViewID: ua.NewTwoByteNodeID(0)}}
		for j := 0; j < 20; j++ {
			q.NodesToBrowse = append(q.NodesToBrowse, &ua.BrowseDescription{NodeID: ua.NewNumericNodeID(0, 2253), BrowseDirection: ua.BrowseDirectionBoth, ReferenceTypeID: ua.NewTwoByteNodeID(0), IncludeSubtypes: true, ResultMask: 63})
		}
		s.conn.SetWriteDeadline(time.Now().Add(500 * time.Millisecond))
		if err := s.send(q); err != nil {
			return
		}
		*sent++
	}
}

// block: clients that send requests and never read the answers, and the canary's latency meanwhile.
// Scenario "flood": one such client. Scenario "subscription": the stalled client also owns a subscription with a monitored
// item on the canary node and queued publish requests, and the canary changes that node 150 times.
// Scenario "multichunk": the stalled client asked for one response of many chunks (33 MiB), far more than the socket
// buffers take, so the write blocks on a chunk after the first.
func block() {
	var wg sync.WaitGroup
	for _, scenario := range []string{"flood", "subscription", "multichunk"} {
		wg.Add(1)
		go func(sc string) { defer wg.Done(); blockScenario(sc) }(scenario)
	}
	wg.Wait()
}

func blockScenario(scenario string) {
	ch := spawnServer()
	defer func() {
		if ch.alive() {
			ch.kill()
		}
	}()
	url := fmt.Sprintf("opc.tcp://localhost:%d", ch.port)
	out := map[string]any{"t": "block", "scenario": scenario, "stalled_clients": 1, "deadline_ms": float64(responseDeadline.Milliseconds())}
	fail := func(what string, err error) { out["err"] = what + ": " + err.Error(); emit(out) }
	can, err := newCanary(url)
	if err != nil {
		fail("canary", err)
		return
	}
	base, err := can.ping(3 * time.Second)
	if err != nil {
		fail("canary", err)
		return
	}
	s, err := openRawSession(ch.port)
	if err != nil {
		fail("raw session", err)
		return
	}
	defer s.conn.Close() // the stalled peer keeps its connection open until the scenario is over (and out of the garbage collector's reach)
	if tc, ok := s.conn.(*net.TCPConn); ok {
		tc.SetReadBuffer(4096)
	}
	if scenario == "subscription" {
		if err := s.send(&ua.CreateSubscriptionRequest{RequestedPublishingInterval: 20, RequestedLifetimeCount: 100000, RequestedMaxKeepAliveCount: 100000, PublishingEnabled: true}); err != nil {
			fail("create subscription", err)
			return
		}
		_, body, err := readMessage(s.conn, 3*time.Second)
		if err != nil {
			fail("create subscription", err)
			return
		}
		_, svc, _ := ua.DecodeService(body)
		cs, ok := svc.(*ua.CreateSubscriptionResponse)
		if !ok {
			fail("create subscription", fmt.Errorf("answer %T", svc))
			return
		}
		if err := s.send(&ua.CreateMonitoredItemsRequest{SubscriptionID: cs.SubscriptionID, ItemsToCreate: []*ua.MonitoredItemCreateRequest{{
			ItemToMonitor:  &ua.ReadValueID{NodeID: ua.NewStringNodeID(1, "canary"), AttributeID: ua.AttributeIDValue, DataEncoding: &ua.QualifiedName{}},
			MonitoringMode: ua.MonitoringModeReporting, RequestedParameters: &ua.MonitoringParameters{ClientHandle: 1, Filter: ua.NewExtensionObject(nil), QueueSize: 1}}}}); err != nil {
			fail("create item", err)
			return
		}
		if _, _, err := readMessage(s.conn, 3*time.Second); err != nil {
			fail("create item", err)
			return
		}
		for i := 0; i < 60; i++ { // publish requests for the worker to answer while nobody reads
			if err := s.send(&ua.PublishRequest{}); err != nil {
				break
			}
		}
	}
	stop := make(chan struct{})
	sent := 0
	if scenario == "multichunk" {
		q := &ua.ReadRequest{TimestampsToReturn: ua.TimestampsToReturnNeither}
		for i := 0; i < 700; i++ { // 700 x 48 KiB = 33 MiB, about 520 chunks: more than the socket buffers of both ends take
			q.NodesToRead = append(q.NodesToRead, &ua.ReadValueID{NodeID: ua.NewStringNodeID(1, "big"), AttributeID: ua.AttributeIDValue, DataEncoding: &ua.QualifiedName{}})
		}
		if err := s.send(q); err != nil {
			fail("multichunk read", err)
			return
		}
		sent = 1
	} else {
		go flood(s, stop, &sent)
	}
	worst, answered, unanswered := time.Duration(0), 0, 0
	// a request may wait for one write deadline per stalled client, plus slack for the handlers
	bound := responseDeadline + 5*time.Second // slack for handler time on a loaded machine
	t0 := time.Now()
	for i := 0; time.Since(t0) < 12*time.Second; i++ {
		var lat time.Duration
		var err error
		if scenario == "subscription" && i < 150 {
			lat, err = can.write(int32(i), bound+2*time.Second)
		} else {
			time.Sleep(100 * time.Millisecond)
			lat, err = can.ping(bound + 2*time.Second)
		}
		if lat > worst {
			worst = lat
		}
		if err != nil {
			unanswered++
			out["canary_error"] = err.Error()
			break
		}
		answered++
	}
	close(stop)
	out["baseline_ms"] = float64(base.Microseconds()) / 1000
	out["worst_ms"] = float64(worst.Microseconds()) / 1000
	out["bound_ms"] = float64(bound.Milliseconds())
	out["canary_answered"] = answered
	out["canary_blocked"] = unanswered > 0 || worst > bound
	out["requests_sent"] = sent
	out["alive"] = ch.alive()
	if os.Getenv("VERIF_SRVLOG") != "" {
		out["stderr"] = ch.stderrTail()
	}
	emit(out)
}
