package main

import (
	"fmt"
	"net"

	"github.com/gopcua/opcua/server"
	"github.com/gopcua/opcua/ua"

	"verifharness/internal/rng"
)

func netListen() (net.Listener, error) { return net.Listen("tcp", "localhost:0") }

type netTCPAddr = net.TCPAddr

// ---------------------------------------------------------------------------------------------
// generators (all choices from the one seeded PRNG)

func pickLevel(r *rng.R) *DVal {
	switch r.Intn(14) {
	case 0, 1, 2:
		return nil // attribute absent
	case 3:
		return &DVal{V: Vnt{K: "u8", N: 0}}
	case 4:
		return &DVal{V: Vnt{K: "u8", N: 1}}
	case 5:
		return &DVal{V: Vnt{K: "u8", N: 2}}
	case 6, 7:
		return &DVal{V: Vnt{K: "u8", N: 3}}
	case 8:
		return &DVal{V: Vnt{K: "u8", N: int64(r.Intn(256))}}
	case 9:
		return &DVal{V: Vnt{K: "u32", N: int64(r.Pick(1, 2, 3))}} // wrong type
	case 10:
		return &DVal{V: Vnt{K: "nil"}} // DataValue without a Variant
	case 11:
		return &DVal{V: Vnt{K: "null"}}
	case 12:
		return &DVal{V: Vnt{K: "i32", N: 3}}
	default:
		return &DVal{V: Vnt{K: "u8", N: int64(r.Pick(4, 5, 6, 0xfc, 0xfd, 0xfe, 0xff, 0x20, 0x21, 0x40, 0x41, 0x60, 0x61, 0x22, 0x42, 0x80, 0x10, 0x08))}}
	}
}

func pickValue(r *rng.R) DVal {
	switch r.Intn(8) {
	case 0:
		return DVal{V: Vnt{K: "u8", N: int64(r.Intn(256))}}
	case 1:
		return DVal{V: Vnt{K: "u32", N: int64(r.Pick(0, 1, 2, 3, 2147483647, 2147483648, 4294967295))}}
	case 2:
		return DVal{V: Vnt{K: "i32", N: int64(r.Range(-5, 5))}}
	case 3:
		return DVal{V: Vnt{K: "nil"}}
	case 4:
		return DVal{V: Vnt{K: "null"}}
	case 5:
		return DVal{V: Vnt{K: "xid", N: int64(r.Pick(1, 6, 11, 58))}}
	case 6:
		return DVal{V: Vnt{K: "nid", N: int64(r.Pick(1, 6, 11, 58))}}
	default:
		return DVal{V: Vnt{K: "u8", N: int64(r.Pick(0, 1, 2, 3))}, S: uint32(r.Pick(0, 0, 0x40000000))}
	}
}

func genNode(r *rng.R, ns uint16, hist, i int) NodeJ {
	// node ids of every kind (the namespace keys its nodes by NodeID.String(), and so does the model)
	var idn *ua.NodeID
	switch r.Intn(6) {
	case 0, 1:
		idn = ua.NewStringNodeID(ns, fmt.Sprintf("h%d_n%d", hist, i))
	case 2:
		idn = ua.NewGUIDNodeID(ns, fmt.Sprintf("%08X-0000-4000-8000-%012X", hist, i))
	case 3:
		idn = ua.NewByteStringNodeID(ns, []byte{byte(hist >> 8), byte(hist), 0xfe, byte(i)})
	default:
		idn = ua.NewNumericNodeID(ns, uint32(1000000+hist*100+i))
	}
	nj := NodeJ{ID: nidOf(idn)}
	if l := pickLevel(r); l != nil {
		nj.Attrs = append(nj.Attrs, AttrJ{17, *l})
	}
	if l := pickLevel(r); l != nil {
		nj.Attrs = append(nj.Attrs, AttrJ{18, *l})
	}
	switch r.Intn(4) {
	case 0:
		nj.Attrs = append(nj.Attrs, AttrJ{2, DVal{V: Vnt{K: "u32", N: int64(r.Pick(1, 2, 4294967295))}}})
	case 1:
		nj.Attrs = append(nj.Attrs, AttrJ{2, DVal{V: Vnt{K: "i32", N: 2}}})
	case 2:
		nj.Attrs = append(nj.Attrs, AttrJ{2, DVal{V: Vnt{K: "nil"}}})
	}
	switch r.Intn(4) {
	case 0:
		nj.Attrs = append(nj.Attrs, AttrJ{14, DVal{V: Vnt{K: "xid", N: int64(r.Pick(1, 6, 11))}}})
	case 1:
		nj.Attrs = append(nj.Attrs, AttrJ{14, DVal{V: Vnt{K: "u32", N: 7}}}) // wrong type
	}
	switch r.Intn(6) {
	case 0:
		nj.Val = "none"
	case 1:
		nj.Val = "nil"
	default:
		nj.Val = "dv"
		v := DVal{V: Vnt{K: "u32", N: int64(4242 + r.Intn(1000))}}
		nj.ValDV = &v
	}
	return nj
}

var readAttrs = []int{13, 13, 13, 13, 17, 18, 2, 1, 12, 14, 5, 99, 3}
var writeAttrs = []int{13, 13, 13, 13, 17, 18, 2, 14, 5}

func pickTarget(r *rng.R, nodes []NodeJ, ns uint16, hist int) NID {
	switch r.Intn(14) {
	case 0:
		return nidOf(ua.NewStringNodeID(ns, fmt.Sprintf("h%d_unknown%d", hist, r.Intn(3))))
	case 1:
		return nidOf(ua.NewNumericNodeID(uint16(r.Pick(7, 200, 65535)), 5)) // namespace out of range
	}
	return nodes[r.Intn(len(nodes))].ID
}

func genReads(r *rng.R, nodes []NodeJ, ns uint16, hist int, max int) []RV {
	var rvs []RV
	for k := r.Range(1, max); k > 0; k-- {
		rvs = append(rvs, RV{Node: pickTarget(r, nodes, ns, hist), Attr: uint32(readAttrs[r.Intn(len(readAttrs))])})
	}
	return rvs
}

func genWrites(r *rng.R, nodes []NodeJ, ns uint16, hist int) []WV {
	var wvs []WV
	for k := r.Range(1, 3); k > 0; k-- {
		a := writeAttrs[r.Intn(len(writeAttrs))]
		v := pickValue(r)
		if (a == 17 || a == 18) && r.Intn(3) > 0 {
			if l := pickLevel(r); l != nil {
				v = *l
			}
		}
		wv := WV{Node: pickTarget(r, nodes, ns, hist), Attr: uint32(a), Val: v}
		if r.Intn(3) == 0 { // every combination of status / source timestamp / picoseconds in the DataValue
			wv.SrcTS, wv.Pico = r.Bool(), r.Bool()
			if r.Bool() && wv.Val.S == 0 {
				wv.Val.S = 0x40000000
			}
		}
		wvs = append(wvs, wv)
	}
	return wvs
}

func pickInterval(r *rng.R) *IVal {
	switch r.Intn(12) {
	case 0:
		return &IVal{K: "nan"}
	case 1:
		return &IVal{K: "ninf"}
	case 2:
		return &IVal{K: "pinf"}
	case 3:
		return &IVal{K: "fin", U: 0}
	case 4:
		return &IVal{K: "fin", U: int64(r.Pick(-1000, -1, 1, 500, 999))}
	case 5:
		return &IVal{K: "fin", U: int64(r.Pick(1000, 1001, 1500, 2000))}
	case 6:
		return &IVal{K: "fin", U: 86400000000 + int64(r.Pick(-1000, 0, 1, 1000))}
	case 7:
		return &IVal{K: "fin", U: 9000000000000000}
	default:
		return &IVal{K: "fin", U: int64(r.Range(50, 5000)) * 1000}
	}
}

func pickTok(r *rng.R, nsess int, adversarial int) string {
	if r.Intn(100) < adversarial {
		switch r.Intn(4) {
		case 0:
			return "null"
		case 1:
			return "bogus"
		case 2:
			return fmt.Sprintf("raw:%d", r.Pick(1, 2, 85, 2253))
		}
	}
	if nsess == 0 {
		return "null"
	}
	return fmt.Sprintf("s%d", r.Intn(nsess))
}

var svcNames = []string{"findservers", "findserversonnetwork", "getendpoints", "registerserver", "registerserver2", "cancel", "addnodes",
	"browsenext", "translate", "historyread", "call", "modifysub", "setpublishingmode", "republish", "transfersubs", "modifyitems",
	"settriggering", "queryfirst"}

// standard reference types and nodes used by the browse generator
var stdRefTypes = []uint32{0, 31, 32, 33, 34, 35, 36, 37, 38, 39, 40, 41, 44, 45, 46, 47, 48, 49, 51, 52, 53, 54, 117, 3065, 9004, 9005, 9006, 14476, 99999}
var stdNodes = []uint32{84, 85, 86, 87, 88, 89, 90, 91, 2253, 2254, 2255, 2256, 2268, 2274, 2994, 2996, 58, 61, 62, 63, 68, 69, 24, 26, 27, 28, 29, 22, 12, 31, 32, 33, 34, 35, 45, 47, 2004, 2013, 2020, 2138, 11715, 3062, 78, 80, 11508}

// custom reference types of the added namespace (c33 mode): a string id below HierarchicalReferences, a GUID id below it,
// and ns=1;i=0 below NonHierarchicalReferences
var customRefs []NID
var c33Shared []NID

// parent reference type (one step up the HasSubtype hierarchy) by key
var refParent = map[uint64]uint64{35: 33, 47: 34, 46: 47, 34: 33, 45: 34, 40: 32, 37: 32, 38: 32, 39: 32, 41: 32, 33: 31, 32: 31, 48: 35, 49: 47}

func setupC33(s *sut) {
	ns := s.ns.ID()
	mk := func(id *ua.NodeID) *server.Node {
		n := server.NewNode(id, map[ua.AttributeID]*ua.DataValue{ua.AttributeIDNodeClass: server.DataValueFromValue(uint32(ua.NodeClassReferenceType))}, nil, nil)
		s.ns.AddNode(n)
		return n
	}
	a := mk(ua.NewStringNodeID(ns, "CustomRefA"))
	g := mk(ua.NewGUIDNodeID(ns, "550e8400-e29b-41d4-a716-446655440000"))
	z := mk(ua.NewNumericNodeID(ns, 0))
	n33 := s.srv.Node(ua.NewNumericNodeID(0, 33))
	n32 := s.srv.Node(ua.NewNumericNodeID(0, 32))
	n33.AddRef(a, server.RefType(45), true)
	a.AddRef(g, server.RefType(45), true)
	n32.AddRef(z, server.RefType(45), true)
	for _, n := range []*server.Node{a, g, z} {
		customRefs = append(customRefs, nidOf(n.ID()))
	}
	refParent[customRefs[0].Key] = 33
	refParent[customRefs[1].Key] = customRefs[0].Key
	refParent[customRefs[2].Key] = 32
	c33Shared = append([]NID{nidOf(n33.ID()), nidOf(n32.ID())}, customRefs...)
}

// reference types added while the server runs (c33 mode): one per history, under a parent that earlier browses have
// already asked the subtypes of
var dynRefs []NID
var dynShared []NID

func mutateC33(r *rng.R, s *sut, hist int) {
	ns := s.ns.ID()
	d := server.NewNode(ua.NewStringNodeID(ns, fmt.Sprintf("DynRef%d", hist)),
		map[ua.AttributeID]*ua.DataValue{ua.AttributeIDNodeClass: server.DataValueFromValue(uint32(ua.NodeClassReferenceType))}, nil, nil)
	s.ns.AddNode(d)
	var parent *server.Node
	var pkey uint64
	switch r.Intn(4) {
	case 0:
		parent, pkey = s.srv.Node(ua.NewNumericNodeID(0, 33)), 33
	case 1:
		parent, pkey = s.srv.Node(ua.NewNumericNodeID(0, 35)), 35
	case 2:
		parent, pkey = s.srv.Node(ua.NewNumericNodeID(0, 32)), 32
	default:
		parent, pkey = s.srv.Node(parseNID(customRefs[0])), customRefs[0].Key
	}
	parent.AddRef(d, server.RefType(45), true)
	dn := nidOf(d.ID())
	dynRefs = append(dynRefs, dn)
	if len(dynRefs) > 3 {
		dynRefs = dynRefs[len(dynRefs)-3:]
	}
	refParent[dn.Key] = pkey
	dynShared = append(dynShared, dn)
	pn := nidOf(parent.ID())
	seen := false
	for _, x := range append(append([]NID{}, c33Shared...), dynShared...) {
		if x.Key == pn.Key {
			seen = true
		}
	}
	if !seen {
		dynShared = append(dynShared, pn)
	}
}

func refTypeNID(key uint64) NID {
	for _, c := range dynRefs {
		if c.Key == key {
			return c
		}
	}
	for _, c := range customRefs {
		if c.Key == key {
			return c
		}
	}
	return nidOf(ua.NewNumericNodeID(0, uint32(key)))
}

func genBrowse(r *rng.R, nodes []NodeJ, ns uint16, hist int, s *sut) BDesc {
	var node NID
	var have []RefJ
	switch {
	case len(nodes) > 0 && r.Intn(3) == 0:
		node = pickTarget(r, nodes, ns, hist)
		for _, n := range nodes {
			if n.ID.Key == node.Key {
				have = n.Refs
			}
		}
	default:
		node = nidOf(ua.NewNumericNodeID(0, stdNodes[r.Intn(len(stdNodes))]))
		if n := s.srv.Node(parseNID(node)); n != nil {
			have = dumpNode(n).Refs
		}
	}
	rt := nidOf(ua.NewNumericNodeID(0, stdRefTypes[r.Intn(len(stdRefTypes))]))
	dirHint := -1
	switch x := r.Intn(24); {
	case x < 13 && len(have) > 0:
		// a reference type the node really has, or one or two steps up its hierarchy
		rf := have[r.Intn(len(have))]
		if r.Intn(4) > 0 {
			dirHint = 1
			if rf.Fwd {
				dirHint = 0
			}
		}
		if rf.Type != nil {
			k := *rf.Type
			for up := r.Intn(3); up > 0; up-- {
				if p, ok := refParent[k]; ok {
					k = p
				}
			}
			rt = refTypeNID(k)
		}
	case x < 15:
		rt = nidOf(ua.NewNumericNodeID(0, 0))
	case x < 18 && len(customRefs) > 0:
		rt = customRefs[r.Intn(len(customRefs))]
	case x == 18:
		rt = nidOf(ua.NewNumericNodeID(ns, 45))
	case x == 19:
		rt = nidOf(ua.NewStringNodeID(ns, "NoSuchRefType"))
	}
	mask := uint32(0)
	if r.Intn(4) == 0 {
		mask = uint32(r.Pick(1, 2, 3, 4, 8, 16, 32, 64, 255, 0x80, 0xffffffff))
	}
	dir := uint32(r.Pick(0, 0, 0, 1, 2, 2, 2, 3))
	if dirHint >= 0 && r.Intn(5) > 0 {
		dir = uint32(dirHint)
	}
	bd := BDesc{Node: node, Dir: dir, RefType: rt, Subtypes: r.Intn(3) > 0, Mask: mask}
	if r.Bool() { // which references come back must not depend on which of their fields the client wants to see
		rm := uint32(r.Pick(0, 1, 2, 3, 4, 8, 12, 16, 32, 60, 63))
		bd.RMask = &rm
	}
	return bd
}

func genRefs(r *rng.R, nodes []NodeJ, ns uint16) []RefJ {
	var refs []RefJ
	for k := r.Intn(7); k > 0; k-- {
		ti := uint32(r.Pick(35, 47, 46, 40, 45, 33, 37, 38))
		tk := uint64(ti)
		tstr := ""
		if len(customRefs) > 0 && r.Intn(3) == 0 {
			c := customRefs[r.Intn(len(customRefs))]
			ti, tk, tstr = 0, c.Key, c.Str
		}
		if len(dynRefs) > 0 && r.Intn(3) == 0 {
			c := dynRefs[len(dynRefs)-1-r.Intn(min(2, len(dynRefs)))] // mostly the reference type added last
			ti, tk, tstr = 0, c.Key, c.Str
		}
		var tgt NID
		if len(nodes) > 0 && r.Bool() {
			tgt = nodes[r.Intn(len(nodes))].ID
		} else {
			tgt = nidOf(ua.NewNumericNodeID(0, stdNodes[r.Intn(len(stdNodes))]))
		}
		rj := RefJ{Type: &tk, TStr: tstr, TInt: ti, Fwd: r.Intn(4) > 0, Target: &tgt, Class: uint32(r.Pick(0, 1, 2, 4, 8, 16, 32, 64)), Named: r.Intn(12) > 0}
		if r.Intn(15) == 0 {
			rj.Target = nil
		}
		refs = append(refs, rj)
	}
	return refs
}

func generate(r *rng.R, mode string, hist int, s *sut) History {
	ns := s.ns.ID()
	h := History{ID: hist, Mode: mode}
	nn := r.Range(3, 6)
	for i := 0; i < nn; i++ {
		nj := genNode(r, ns, hist, i)
		if mode == "c33" {
			nj.Refs = genRefs(r, h.Nodes, ns)
		}
		h.Nodes = append(h.Nodes, nj)
	}
	add := func(op Op) { h.Ops = append(h.Ops, op) }
	session := func(ch int, k int) {
		add(Op{Kind: "createsession", Ch: ch, Tok: "null"})
		add(Op{Kind: "activate", Ch: ch, Tok: fmt.Sprintf("s%d", k)})
	}
	switch mode {
	case "c31":
		session(0, 0)
		if hist%3 == 2 {
			// StatusWrite (0x20) / TimestampWrite (0x40) without CurrentWrite (0x02): a value write stays refused whatever
			// else the written DataValue carries
			lvl := int64(r.Pick(0x21, 0x41, 0x61, 0x20, 0x40, 0x60, 0xfd))
			v := DVal{V: Vnt{K: "u32", N: 31337}}
			sw := NodeJ{ID: nidOf(ua.NewStringNodeID(ns, fmt.Sprintf("h%d_statuswrite", hist))), Val: "dv", ValDV: &v}
			switch r.Intn(3) {
			case 0:
				sw.Attrs = []AttrJ{{17, DVal{V: Vnt{K: "u8", N: lvl}}}}
			case 1:
				sw.Attrs = []AttrJ{{18, DVal{V: Vnt{K: "u8", N: lvl}}}}
			default:
				sw.Attrs = []AttrJ{{17, DVal{V: Vnt{K: "u8", N: lvl}}}, {18, DVal{V: Vnt{K: "u8", N: lvl}}}}
			}
			h.Nodes = append(h.Nodes, sw)
			for _, m := range [][3]bool{{false, false, false}, {true, false, false}, {false, true, false}, {false, false, true}, {true, true, true}, {false, true, true}} {
				wv := WV{Node: sw.ID, Attr: 13, Val: DVal{V: Vnt{K: "u32", N: int64(r.Intn(1000))}}, SrcTS: m[1], Pico: m[2]}
				if m[0] {
					wv.Val.S = 0x40000000
				}
				add(Op{Kind: "write", Ch: 0, Tok: "s0", Writes: []WV{wv}})
			}
			add(Op{Kind: "read", Ch: 0, Tok: "s0", Reads: []RV{{Node: sw.ID, Attr: 13}}})
		}
		if hist%3 == 1 {
			// data change notifications: a monitored node that may be written but not read must not tell its value
			lv := func(n int64) DVal { return DVal{V: Vnt{K: "u8", N: n}} }
			v := DVal{V: Vnt{K: "u32", N: 777}}
			wo := NodeJ{ID: nidOf(ua.NewStringNodeID(ns, fmt.Sprintf("h%d_writeonly", hist))), Val: "dv", ValDV: &v}
			switch r.Intn(4) {
			case 0:
				wo.Attrs = []AttrJ{{17, lv(2)}}
			case 1:
				wo.Attrs = []AttrJ{{18, lv(2)}}
			case 2:
				wo.Attrs = []AttrJ{{17, lv(2)}, {18, lv(2)}}
			default:
				wo.Attrs = []AttrJ{{17, lv(3)}, {18, lv(int64(r.Pick(2, 6, 0xfe)))}}
			}
			rw := NodeJ{ID: nidOf(ua.NewStringNodeID(ns, fmt.Sprintf("h%d_readwrite", hist))), Val: "dv", ValDV: &v}
			if r.Bool() {
				rw.Attrs = []AttrJ{{17, lv(3)}}
			}
			h.Nodes = append(h.Nodes, wo, rw)
			add(Op{Kind: "createsub", Ch: 0, Tok: "s0", Interval: &IVal{K: "fin", U: 20000}})
			add(Op{Kind: "createitems", Ch: 0, Tok: "s0", Sub: "sub0", Reads: []RV{{Node: wo.ID, Attr: 13}, {Node: rw.ID, Attr: 13}}})
			add(Op{Kind: "publish", Ch: 0, Tok: "s0", Wait: true}) // the initial notifications
			for k := r.Range(2, 4); k > 0; k-- {
				tgt := wo.ID
				if r.Intn(3) == 0 {
					tgt = rw.ID
				}
				add(Op{Kind: "write", Ch: 0, Tok: "s0", Writes: []WV{{Node: tgt, Attr: 13, Val: DVal{V: Vnt{K: "u32", N: int64(1000 + r.Intn(1000))}}}}})
				add(Op{Kind: "publish", Ch: 0, Tok: "s0", Wait: true})
			}
			add(Op{Kind: "deletesubs", Ch: 0, Tok: "s0", IDRefs: []string{"sub0"}})
		}
		for k := r.Range(10, 22); k > 0; k-- {
			if r.Intn(5) < 3 {
				add(Op{Kind: "read", Ch: 0, Tok: "s0", Reads: genReads(r, h.Nodes, ns, hist, 4)})
			} else {
				add(Op{Kind: "write", Ch: 0, Tok: "s0", Writes: genWrites(r, h.Nodes, ns, hist)})
			}
		}
		// every node: final value read
		var rvs []RV
		for _, n := range h.Nodes {
			rvs = append(rvs, RV{Node: n.ID, Attr: 13})
		}
		add(Op{Kind: "read", Ch: 0, Tok: "s0", Reads: rvs})
	case "c33":
		h.Shared = append(append([]NID{}, c33Shared...), dynShared...)
		session(0, 0)
		// ask for the subtypes of the abstract reference types early: a server that remembers a closure must notice later additions
		for _, t := range []uint32{33, 32, 31} {
			add(Op{Kind: "browse", Ch: 0, Tok: "s0", Browses: []BDesc{{Node: nidOf(ua.NewNumericNodeID(0, 85)), Dir: 2, RefType: nidOf(ua.NewNumericNodeID(0, t)), Subtypes: true}}})
		}
		if len(customRefs) > 0 {
			add(Op{Kind: "browse", Ch: 0, Tok: "s0", Browses: []BDesc{{Node: nidOf(ua.NewNumericNodeID(0, 85)), Dir: 2, RefType: customRefs[0], Subtypes: true}}})
		}
		for k := r.Range(6, 12); k > 0; k-- {
			var bds []BDesc
			for j := r.Range(1, 3); j > 0; j-- {
				bds = append(bds, genBrowse(r, h.Nodes, ns, hist, s))
			}
			add(Op{Kind: "browse", Ch: 0, Tok: "s0", Browses: bds})
		}
		// the added namespace of the other kind: a MapNamespace makes its references up from the keys of a map
		if s.mapns != nil {
			mns := s.mapns.ID()
			for k := r.Range(2, 4); k > 0; k-- {
				var bds []BDesc
				for j := r.Range(1, 3); j > 0; j-- {
					var node *ua.NodeID
					switch r.Intn(6) {
					case 0:
						node = ua.NewNumericNodeID(mns, 84)
					case 1:
						node = ua.NewStringNodeID(mns, "alpha")
					default:
						node = ua.NewNumericNodeID(mns, 85)
					}
					rt := uint32(r.Pick(0, 0, 47, 47, 35, 33, 34, 31, 32, 40, 46))
					mask := uint32(0)
					if r.Intn(3) == 0 {
						mask = uint32(r.Pick(1, 2, 4, 255))
					}
					mb := BDesc{Node: nidOf(node), Dir: uint32(r.Pick(0, 0, 1, 2, 3)), RefType: nidOf(ua.NewNumericNodeID(0, rt)), Subtypes: r.Bool(), Mask: mask}
					if r.Bool() {
						rm := uint32(r.Pick(0, 3, 8, 12, 60, 63))
						mb.RMask = &rm
					}
					bds = append(bds, mb)
				}
				add(Op{Kind: "browse", Ch: 0, Tok: "s0", Browses: bds, MapNS: true})
			}
		}
	case "c32", "c35", "c29":
		if mode == "c35" && hist%5 == 2 {
			// a session that owns a subscription is closed while the monitored item tables are busy (the application reports a
			// change of a node whose value callback is slow); the closed token is used again at once
			v := DVal{V: Vnt{K: "u32", N: 5}}
			slow := NodeJ{ID: nidOf(ua.NewStringNodeID(ns, fmt.Sprintf("h%d_slow", hist))), Val: "slow", ValDV: &v}
			h.Nodes = append(h.Nodes, slow)
			session(0, 0)
			session(1, 1)
			add(Op{Kind: "createsub", Ch: 0, Tok: "s0"})
			add(Op{Kind: "createitems", Ch: 0, Tok: "s0", Sub: "sub0", Reads: []RV{{Node: slow.ID, Attr: 13}}})
			add(Op{Kind: "appnotify", Ch: 1, Tok: "s1", Reads: []RV{{Node: slow.ID, Attr: 13}}})
			add(Op{Kind: "closesession", Ch: 0, Tok: "s0", Chain: true})
			add(Op{Kind: "read", Ch: r.Pick(0, 1), Tok: "s0", Reads: []RV{{Node: h.Nodes[0].ID, Attr: 13}}})
			add(Op{Kind: "svc", Ch: 0, Tok: "s0", Svc: "call"})
			add(Op{Kind: "apprelease", Ch: 1, Tok: "s1"})
			add(Op{Kind: "write", Ch: 0, Tok: "s0", Writes: []WV{{Node: h.Nodes[0].ID, Attr: 13, Val: v}}})
			add(Op{Kind: "read", Ch: 1, Tok: "s1", Reads: []RV{{Node: h.Nodes[0].ID, Attr: 13}}})
			return h
		}
		if mode == "c29" && hist%6 == 3 {
			// notification storm: a monitored node keeps changing after its item / subscription is gone. Every write must
			// still be answered (a stale item would feed the dead subscription's bounded notification queue).
			id := ua.NewStringNodeID(ns, fmt.Sprintf("h%d_storm", hist))
			v := DVal{V: Vnt{K: "u32", N: 1}}
			h.Nodes = append(h.Nodes, NodeJ{ID: nidOf(id), Val: "dv", ValDV: &v})
			tgt := nidOf(id)
			session(0, 0)
			add(Op{Kind: "createsub", Ch: 0, Tok: "s0"})
			add(Op{Kind: "createitems", Ch: 0, Tok: "s0", Sub: "sub0", Reads: []RV{{Node: tgt, Attr: 13}}})
			if r.Bool() {
				add(Op{Kind: "createitems", Ch: 0, Tok: "s0", Sub: "sub0", Reads: []RV{{Node: tgt, Attr: 13}, {Node: h.Nodes[0].ID, Attr: 13}}})
			}
			switch r.Intn(3) {
			case 0:
				add(Op{Kind: "deleteitems", Ch: 0, Tok: "s0", IDRefs: []string{"item0"}})
				add(Op{Kind: "deletesubs", Ch: 0, Tok: "s0", IDRefs: []string{"sub0"}})
			case 1:
				add(Op{Kind: "deletesubs", Ch: 0, Tok: "s0", IDRefs: []string{"sub0"}})
			default:
				add(Op{Kind: "deleteitems", Ch: 0, Tok: "s0", IDRefs: []string{"item0", "item1", "item2"}})
				add(Op{Kind: "deletesubs", Ch: 0, Tok: "s0", IDRefs: []string{"sub0"}})
			}
			for k := 0; k < 115; k++ {
				add(Op{Kind: "write", Ch: 0, Tok: "s0", Writes: []WV{{Node: tgt, Attr: 13, Val: DVal{V: Vnt{K: "u32", N: int64(k + 2)}}}}})
			}
			add(Op{Kind: "read", Ch: 0, Tok: "s0", Reads: []RV{{Node: tgt, Attr: 13}}})
			return h
		}
		if mode == "c29" && hist%6 == 1 && s.mapns != nil {
			// a monitored key of the map namespace is written and read: every request must be answered
			key := nidOf(ua.NewStringNodeID(s.mapns.ID(), []string{"alpha", "beta", "gamma"}[r.Intn(3)]))
			other := nidOf(ua.NewStringNodeID(s.mapns.ID(), "gamma"))
			session(0, 0)
			add(Op{Kind: "write", Ch: 0, Tok: "s0", MapNS: true, Writes: []WV{{Node: other, Attr: 13, Val: DVal{V: Vnt{K: "i32", N: 5}}}}})
			add(Op{Kind: "createsub", Ch: 0, Tok: "s0"})
			add(Op{Kind: "createitems", Ch: 0, Tok: "s0", Sub: "sub0", Reads: []RV{{Node: key, Attr: uint32(r.Pick(13, 13, 14))}}})
			for k := 0; k < 4; k++ {
				add(Op{Kind: "write", Ch: 0, Tok: "s0", MapNS: true, Writes: []WV{{Node: key, Attr: 13, Val: DVal{V: Vnt{K: "i32", N: int64(k)}}}}})
				add(Op{Kind: "read", Ch: 0, Tok: "s0", MapNS: true, Reads: []RV{{Node: key, Attr: 13}, {Node: key, Attr: 14}}})
			}
			add(Op{Kind: "deletesubs", Ch: 0, Tok: "s0", IDRefs: []string{"sub0"}})
			return h
		}
		nsess := r.Range(2, 3)
		adversarial := map[string]int{"c32": 6, "c35": 45, "c29": 25}[mode]
		created := 0
		for k := 0; k < nsess; k++ {
			if mode == "c32" || r.Intn(4) > 0 {
				add(Op{Kind: "createsession", Ch: k, Tok: "null"})
				if mode == "c32" || r.Intn(4) > 0 {
					op := Op{Kind: "activate", Ch: r.Pick(k, k, k, 0), Tok: fmt.Sprintf("s%d", created)}
					if mode == "c35" {
						op.Ident = []string{"", "", "username", "issued", "x509", "garbage", "none"}[r.Intn(7)]
					}
					add(op)
				}
				created++
			}
		}
		nsub, nitem := 0, 0
		for k := r.Range(12, 26); k > 0; k-- {
			ch := r.Intn(nsess)
			tok := pickTok(r, created, adversarial)
			idrefs := func(kind string, have int) []string {
				var out []string
				for j := r.Range(0, 3); j > 0; j-- {
					switch r.Intn(8) {
					case 0:
						out = append(out, fmt.Sprintf("n%d", r.Pick(0, 1, 2, 3, 999999, 4294967295)))
					case 1:
						out = append(out, fmt.Sprintf("%s%d", kind, have+r.Intn(2))) // not created yet
					default:
						if have > 0 {
							out = append(out, fmt.Sprintf("%s%d", kind, r.Intn(have)))
						} else {
							out = append(out, "n1")
						}
					}
				}
				return out
			}
			// the subscription id a monitored item request names: usually one that exists (often the caller's own)
			anySub := func() string {
				if nsub > 0 && r.Intn(5) > 0 {
					return fmt.Sprintf("sub%d", r.Intn(nsub))
				}
				return fmt.Sprintf("n%d", r.Pick(0, 1, 999999))
			}
			switch x := r.Intn(100); {
			case x < 18:
				op := Op{Kind: "createsub", Ch: ch, Tok: tok}
				if mode != "c32" || r.Intn(3) == 0 {
					op.Interval = pickInterval(r)
				}
				add(op)
				nsub++
			case x < 30:
				add(Op{Kind: "deletesubs", Ch: ch, Tok: tok, IDRefs: idrefs("sub", nsub)})
			case x < 48:
				sub := "n1"
				if nsub > 0 && r.Intn(6) > 0 {
					sub = fmt.Sprintf("sub%d", r.Intn(nsub))
				} else if r.Bool() {
					sub = fmt.Sprintf("n%d", r.Pick(0, 5, 999999))
				}
				rvs := genReads(r, h.Nodes, ns, hist, 3)
				if r.Intn(10) == 0 {
					rvs = nil
				}
				add(Op{Kind: "createitems", Ch: ch, Tok: tok, Sub: sub, Reads: rvs})
				nitem += len(rvs)
			case x < 58:
				add(Op{Kind: "deleteitems", Ch: ch, Tok: tok, Sub: anySub(), IDRefs: idrefs("item", nitem)})
			case x < 66:
				add(Op{Kind: "setmode", Ch: ch, Tok: tok, Sub: anySub(), IDRefs: idrefs("item", nitem), Mode: uint32(r.Pick(0, 1, 2))})
			case x < 74:
				add(Op{Kind: "read", Ch: ch, Tok: tok, Reads: genReads(r, h.Nodes, ns, hist, 3)})
			case x < 82:
				add(Op{Kind: "write", Ch: ch, Tok: tok, Writes: genWrites(r, h.Nodes, ns, hist)})
			case x < 86:
				add(Op{Kind: "svc", Ch: ch, Tok: tok, Svc: "getendpoints"})
			case x < 90:
				add(Op{Kind: "svc", Ch: ch, Tok: tok, Svc: svcNames[r.Intn(len(svcNames))]})
			case x < 93:
				if mode != "c32" {
					add(Op{Kind: "publish", Ch: ch, Tok: tok})
				}
			case x < 96:
				add(Op{Kind: "closesession", Ch: ch, Tok: tok})
			case x < 98:
				add(Op{Kind: "createsession", Ch: ch, Tok: tok})
				created++
			default:
				op := Op{Kind: "activate", Ch: ch, Tok: tok}
				if mode == "c35" {
					op.Ident = []string{"", "username", "issued", "x509", "garbage", "none"}[r.Intn(6)]
				}
				add(op)
			}
		}
		if mode == "c32" && created >= 2 {
			// one request naming own and foreign subscriptions, in both orders (and the same for items)
			a, b := 0, 1
			if r.Bool() {
				a, b = 1, 0
			}
			sa, sb := fmt.Sprintf("s%d", a), fmt.Sprintf("s%d", b)
			x, y, z := "last2", "last1", "last0"
			add(Op{Kind: "createsub", Ch: a, Tok: sa})
			add(Op{Kind: "createsub", Ch: b, Tok: sb})
			add(Op{Kind: "createsub", Ch: b, Tok: sb})
			// an item on a node of a namespace the server does not have, between two ordinary ones; then more creates
			valid := func() RV { return RV{Node: h.Nodes[r.Intn(len(h.Nodes))].ID, Attr: 13} }
			nons := RV{Node: nidOf(ua.NewNumericNodeID(77, 5)), Attr: 13}
			add(Op{Kind: "createitems", Ch: a, Tok: sa, Sub: x, Reads: []RV{valid(), nons, valid()}})
			add(Op{Kind: "createitems", Ch: b, Tok: sb, Sub: y, Reads: []RV{valid()}})
			add(Op{Kind: "createitems", Ch: a, Tok: sa, Sub: x, Reads: []RV{nons, valid(), nons}})
			add(Op{Kind: "createitems", Ch: b, Tok: sb, Sub: z, Reads: []RV{valid(), valid()}})
			one := func() []RV { return genReads(r, h.Nodes, ns, hist, 1)[:1] }
			add(Op{Kind: "createitems", Ch: a, Tok: sa, Sub: x, Reads: one()}) // lastitem1: a's item
			add(Op{Kind: "createitems", Ch: b, Tok: sb, Sub: y, Reads: one()}) // lastitem0: b's item
			_ = nsub
			// monitored item requests of b that name a's item: with b's own subscription id, with a's, with unknown ids;
			// both handlers, foreign id before and after an own id
			mode := uint32(r.Pick(0, 1, 2))
			add(Op{Kind: "setmode", Ch: b, Tok: sb, Sub: y, IDRefs: []string{"lastitem1"}, Mode: mode})
			add(Op{Kind: "setmode", Ch: b, Tok: sb, Sub: y, IDRefs: []string{"lastitem0", "lastitem1", "n424242"}, Mode: mode})
			add(Op{Kind: "setmode", Ch: b, Tok: sb, Sub: x, IDRefs: []string{"lastitem1", "lastitem0"}, Mode: mode})
			add(Op{Kind: "setmode", Ch: b, Tok: sb, Sub: "n999999", IDRefs: []string{"lastitem1"}, Mode: mode})
			add(Op{Kind: "deleteitems", Ch: b, Tok: sb, Sub: y, IDRefs: []string{"lastitem1"}})
			add(Op{Kind: "deleteitems", Ch: b, Tok: sb, Sub: x, IDRefs: []string{"lastitem1", "n424242"}})
			add(Op{Kind: "deleteitems", Ch: b, Tok: sb, Sub: "n999999", IDRefs: []string{"lastitem1"}})
			add(Op{Kind: "deleteitems", Ch: b, Tok: sb, Sub: y, IDRefs: []string{"lastitem0", "lastitem1"}}) // own first, then foreign
			add(Op{Kind: "read", Ch: a, Tok: sa, Reads: genReads(r, h.Nodes, ns, hist, 1)})
			if r.Bool() {
				add(Op{Kind: "deletesubs", Ch: b, Tok: sb, IDRefs: []string{x, y}}) // foreign first
				add(Op{Kind: "deletesubs", Ch: b, Tok: sb, IDRefs: []string{z, x}}) // own first
			} else {
				add(Op{Kind: "deletesubs", Ch: b, Tok: sb, IDRefs: []string{y, x, "n999999"}}) // own first
				add(Op{Kind: "deletesubs", Ch: b, Tok: sb, IDRefs: []string{x, z}})
			}
			add(Op{Kind: "read", Ch: a, Tok: sa, Reads: genReads(r, h.Nodes, ns, hist, 1)})
		}
	default:
		panic("mode " + mode)
	}
	return h
}
