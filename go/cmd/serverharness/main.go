// serverharness drives the real gopcua server (package server) with raw secure channels that carry chosen
// authentication tokens, and prints one JSON object per line: the dumped initial state of each history, every
// event with the projected outcome, and the dumped final tables.
//
//	serverharness hist -mode c31|c32|c33|c35|c29 -seed S -n N     generate and run N histories in-process
//	serverharness replay -file f.json                             run the histories of a file (corpus / replay)
//	serverharness serve [-sec p:m,p:m] [-maxconn]                 child-process server (prints {"port":..})
//	serverharness fuzz -seed S -n N                               C29: fuzzing client + canary against a child server
//	serverharness block                                           C29: non-reading client vs canary (child server)
//	serverharness sec -seed S                                     C30: configuration subsets x client policy/mode
package main

import (
	"context"
	"encoding/json"
	"flag"
	"fmt"
	"io"
	"log"
	"math"
	"os"
	"sort"
	"strconv"
	"strings"
	"sync"
	"sync/atomic"
	"time"

	"github.com/gopcua/opcua/id"
	"github.com/gopcua/opcua/server"
	"github.com/gopcua/opcua/ua"
	"github.com/gopcua/opcua/uacp"
	"github.com/gopcua/opcua/uasc"

	"verifharness/internal/rng"
)

var out = json.NewEncoder(os.Stdout)

var emitMu sync.Mutex

func emit(v any) {
	emitMu.Lock()
	defer emitMu.Unlock()
	if err := out.Encode(v); err != nil {
		panic(err)
	}
}

// ---------------------------------------------------------------------------------------------
// keys: NodeID.String() -> number. "i=N" keeps N; every other string gets 2^32 + index.

type keyTable struct {
	m    map[string]uint64
	strs []string
}

func newKeys() *keyTable { return &keyTable{m: map[string]uint64{}} }

func (t *keyTable) of(s string) uint64 {
	if strings.HasPrefix(s, "i=") {
		if n, err := strconv.ParseUint(s[2:], 10, 32); err == nil {
			return n
		}
	}
	if k, ok := t.m[s]; ok {
		return k
	}
	k := uint64(1)<<32 + uint64(len(t.strs))
	t.m[s] = k
	t.strs = append(t.strs, s)
	return k
}

var keys = newKeys()

// ---------------------------------------------------------------------------------------------
// JSON shapes shared with engines/server_common.py

type Vnt struct {
	K string `json:"k"` // nil null u8 u32 i32 nid xid oth
	N int64  `json:"n"`
	P int64  `json:"p,omitempty"`
}
type DVal struct {
	V Vnt    `json:"v"`
	S uint32 `json:"s"`
}
type NID struct {
	NS  uint16 `json:"ns"`
	Key uint64 `json:"key"`
	Str string `json:"str"`
}
type RefJ struct {
	Type   *uint64 `json:"type"`
	TStr   string  `json:"tstr,omitempty"` // NodeID.String() of the type when it is not a namespace 0 numeric id
	TInt   uint32  `json:"tint"`
	Fwd    bool    `json:"fwd"`
	Target *NID    `json:"target"`
	Class  uint32  `json:"class"`
	Named  bool    `json:"named"`
}
type NodeJ struct {
	ID    NID           `json:"id"`
	Attrs []AttrJ       `json:"attrs"`
	Refs  []RefJ        `json:"refs"`
	Val   string        `json:"val"` // none | nil | dv
	ValDV *DVal         `json:"valdv,omitempty"`
	attrs map[uint32]DVal
}
type AttrJ struct {
	ID uint32 `json:"id"`
	V  DVal   `json:"v"`
}
type BDesc struct {
	Node     NID    `json:"node"`
	Dir      uint32 `json:"dir"`
	RefType  NID    `json:"reftype"`
	Subtypes bool   `json:"subtypes"`
	Mask     uint32 `json:"mask"`
	RMask    *uint32 `json:"rmask,omitempty"` // ResultMask; nil = all fields (63)
}
type RDesc struct {
	Type    uint64  `json:"type"`
	Fwd     bool    `json:"fwd"`
	Target  uint64  `json:"target"`
	Class   uint32  `json:"class"`
	TypeDef *uint64 `json:"typedef"`
}
type IVal struct {
	K string `json:"k"` // nan ninf pinf fin
	U int64  `json:"u"`
}
type RV struct {
	Node NID    `json:"node"`
	Attr uint32 `json:"attr"`
}
type WV struct {
	Node  NID    `json:"node"`
	Attr  uint32 `json:"attr"`
	Val   DVal   `json:"val"`
	SrcTS bool   `json:"src_ts,omitempty"` // the DataValue also carries a source timestamp
	Pico  bool   `json:"pico,omitempty"`   // ... and source picoseconds
}

// slowArmed makes the next call of a "slow" node's value callback block until the harness releases it (appnotify /
// apprelease ops); tablesBusy is set while that call holds the monitored item tables: they must not be read then.
var slowArmed, tablesBusy int32
var slowEntered, slowRelease, slowDone chan struct{}
var lastTables tablesJ

// Op is one request of a history. Tok selects the authentication token: "null", "bogus", "s<k>" (token of the
// k-th session created in this history), "raw:<n>" (numeric id n).
type Op struct {
	Kind     string   `json:"kind"`
	Ch       int      `json:"ch"`
	Tok      string   `json:"tok"`
	Reads    []RV     `json:"reads,omitempty"`
	Writes   []WV     `json:"writes,omitempty"`
	Browses  []BDesc  `json:"browses,omitempty"`
	Interval *IVal    `json:"interval,omitempty"`
	IDs      []uint32 `json:"ids,omitempty"`
	IDRefs   []string `json:"idrefs,omitempty"` // symbolic ids: "sub<k>" k-th created subscription, "item<k>", "n<num>"
	Sub      string   `json:"sub,omitempty"`
	Mode     uint32   `json:"mode,omitempty"`
	Svc      string   `json:"svc,omitempty"`
	MapNS    bool     `json:"mapns,omitempty"` // a request on the map namespace: not part of the model history (Browse is compared with Model map_browse)
	Ident    string   `json:"ident,omitempty"` // activate: user identity token kind: "" / anonymous, username, issued, x509, garbage, none
	Wait     bool     `json:"wait,omitempty"`  // publish: wait for the notification the subscription worker sends
	Chain    bool     `json:"chain,omitempty"` // send the next op of the history right after this one is answered, before any table is read
}

type Outcome struct {
	K       string    `json:"k"` // fault read write browse createsession activate close createsub deletesubs createitems deleteitems setmode publishqueued publishnosession findservers other error dead
	St      uint32    `json:"st,omitempty"`
	DVs     []DVal    `json:"dvs,omitempty"`
	Sts     []uint32  `json:"sts,omitempty"`
	Browse  []BrowseR `json:"browse,omitempty"`
	Tok     uint64    `json:"tok,omitempty"`
	ID      uint32    `json:"id,omitempty"`
	Revised int64     `json:"revised,omitempty"`
	IDs     []uint32  `json:"ids,omitempty"`
	N       int       `json:"n,omitempty"`
	Err     string    `json:"err,omitempty"`
	Notifs  []NotifJ  `json:"notifs,omitempty"` // publish with wait: the data change notifications received
}
type NotifJ struct {
	Handle uint32 `json:"handle"`
	DV     DVal   `json:"dv"`
}
type BrowseR struct {
	St   uint32  `json:"st"`
	Refs []RDesc `json:"refs"`
}

// ---------------------------------------------------------------------------------------------
// projections

func projVariant(v *ua.Variant) Vnt {
	if v == nil {
		return Vnt{K: "nil"}
	}
	switch x := v.Value().(type) {
	case nil:
		return Vnt{K: "null"}
	case uint8:
		return Vnt{K: "u8", N: int64(x)}
	case uint32:
		return Vnt{K: "u32", N: int64(x)}
	case int32:
		return Vnt{K: "i32", N: int64(x)}
	case *ua.NodeID:
		return Vnt{K: "nid", N: int64(keys.of(x.String()))}
	case *ua.ExpandedNodeID:
		if x == nil || x.NodeID == nil {
			return Vnt{K: "oth", N: 9998}
		}
		return Vnt{K: "xid", N: int64(keys.of(x.NodeID.String()))}
	case int16:
		return Vnt{K: "oth", N: 4, P: int64(x)}
	case float64:
		return Vnt{K: "oth", N: 11, P: int64(x)}
	case string:
		return Vnt{K: "oth", N: 12, P: int64(len(x))}
	case bool:
		p := int64(0)
		if x {
			p = 1
		}
		return Vnt{K: "oth", N: 1, P: p}
	default:
		return Vnt{K: "oth", N: int64(v.Type()), P: 0}
	}
}

func projDV(d *ua.DataValue) DVal {
	if d == nil {
		return DVal{V: Vnt{K: "nil"}, S: 0xFFFFFFFF}
	}
	st := uint32(0)
	if d.EncodingMask&ua.DataValueStatusCode != 0 {
		st = uint32(d.Status)
	}
	if d.EncodingMask&ua.DataValueValue == 0 {
		return DVal{V: Vnt{K: "nil"}, S: st}
	}
	return DVal{V: projVariant(d.Value), S: st}
}

// mkDV builds the DataValue a client sends / a node stores for a projection.
func mkDV(d DVal) *ua.DataValue {
	dv := &ua.DataValue{}
	if d.S != 0 {
		dv.EncodingMask |= ua.DataValueStatusCode
		dv.Status = ua.StatusCode(d.S)
	}
	switch d.V.K {
	case "nil":
		return dv
	case "null":
		dv.Value = ua.MustVariant(nil)
	case "u8":
		dv.Value = ua.MustVariant(uint8(d.V.N))
	case "u32":
		dv.Value = ua.MustVariant(uint32(d.V.N))
	case "i32":
		dv.Value = ua.MustVariant(int32(d.V.N))
	case "nid":
		dv.Value = ua.MustVariant(ua.NewNumericNodeID(0, uint32(d.V.N)))
	case "xid":
		dv.Value = ua.MustVariant(ua.NewNumericExpandedNodeID(0, uint32(d.V.N)))
	case "oth":
		switch d.V.N {
		case 4:
			dv.Value = ua.MustVariant(int16(d.V.P))
		case 11:
			dv.Value = ua.MustVariant(float64(d.V.P))
		case 1:
			dv.Value = ua.MustVariant(d.V.P != 0)
		default:
			dv.Value = ua.MustVariant(strings.Repeat("x", int(d.V.P)))
			d.V.N = 12
		}
	}
	dv.EncodingMask |= ua.DataValueValue
	return dv
}

func nidOf(n *ua.NodeID) NID {
	return NID{NS: n.Namespace(), Key: keys.of(n.String()), Str: n.String()}
}

func parseNID(n NID) *ua.NodeID {
	x, err := ua.ParseNodeID(n.Str)
	if err != nil {
		panic("bad node id " + n.Str + ": " + err.Error())
	}
	return x
}

func dumpNode(n *server.Node) NodeJ {
	j := NodeJ{ID: nidOf(n.ID())}
	attrs := n.VerifAttrs()
	ids := make([]int, 0, len(attrs))
	for a := range attrs {
		ids = append(ids, int(a))
	}
	sort.Ints(ids)
	for _, a := range ids {
		v := attrs[ua.AttributeID(a)]
		if v == nil {
			continue
		}
		// what a client is given for the stored DataValue: fields are encoded according to the mask
		// (a DataValue decoded from the wire always carries an allocated Variant, even without the value bit)
		j.Attrs = append(j.Attrs, AttrJ{uint32(a), projDV(v)})
	}
	for _, r := range n.VerifRefs() {
		rj := RefJ{Fwd: r.IsForward, Class: uint32(r.NodeClass), Named: r.BrowseName != nil && r.DisplayName != nil && r.TypeDefinition != nil}
		if r.ReferenceTypeID != nil {
			k := keys.of(r.ReferenceTypeID.String())
			rj.Type = &k
			rj.TInt = r.ReferenceTypeID.IntID()
			if k >= 1<<32 {
				rj.TStr = r.ReferenceTypeID.String()
			}
		}
		if r.NodeID != nil && r.NodeID.NodeID != nil {
			t := nidOf(r.NodeID.NodeID)
			rj.Target = &t
		}
		j.Refs = append(j.Refs, rj)
	}
	switch {
	case !n.VerifHasValueFunc():
		j.Val = "none"
	default:
		v := n.Value()
		if v == nil {
			j.Val = "nil"
		} else {
			j.Val = "dv"
			d := projDV(v)
			j.ValDV = &d
		}
	}
	return j
}

// ---------------------------------------------------------------------------------------------
// raw client: a secure channel without the client's session logic

type rawClient struct {
	conn *uacp.Conn
	sc   *uasc.SecureChannel
	errc chan error
}

func dialRaw(ctx context.Context, url string, cfg *uasc.Config) (*rawClient, error) {
	conn, err := uacp.Dial(ctx, url)
	if err != nil {
		return nil, err
	}
	errc := make(chan error, 16)
	if cfg == nil {
		cfg = &uasc.Config{
			SecurityPolicyURI: ua.SecurityPolicyURINone,
			SecurityMode:      ua.MessageSecurityModeNone,
			Lifetime:          3600000,
			RequestTimeout:    5 * time.Second,
		}
	}
	sc, err := uasc.NewSecureChannel(url, conn, cfg, errc)
	if err != nil {
		conn.Close()
		return nil, err
	}
	octx, cancel := context.WithTimeout(ctx, openTimeout)
	defer cancel()
	if err := sc.Open(octx); err != nil {
		conn.Close()
		return nil, err
	}
	return &rawClient{conn: conn, sc: sc, errc: errc}, nil
}

func (c *rawClient) close() {
	if c == nil {
		return
	}
	c.sc.Close()
	c.conn.Close()
}

var errTimeout = fmt.Errorf("timeout")

// openTimeout bounds OpenSecureChannel in dialRaw (a refused secured OPN is only seen as a timeout or EOF by the client)
var openTimeout = 5 * time.Second

func (c *rawClient) call(req ua.Request, tok *ua.NodeID, timeout time.Duration) (ua.Response, error) {
	ctx, cancel := context.WithTimeout(context.Background(), timeout)
	defer cancel()
	var resp ua.Response
	err := c.sc.SendRequestWithTimeout(ctx, req, tok, timeout, func(r ua.Response) error {
		resp = r
		return nil
	})
	if err != nil {
		if ctx.Err() != nil || strings.Contains(err.Error(), "timeout") || err == ua.StatusBadTimeout {
			return nil, errTimeout
		}
		return nil, err
	}
	return resp, nil
}

// ---------------------------------------------------------------------------------------------
// the server under test

type sut struct {
	srv   *server.Server
	url   string
	ns    *server.NodeNameSpace // generated nodes live here (namespace 1)
	mapns *server.MapNamespace  // an added namespace of the other kind (namespace 2): keys alpha, beta, gamma
}

func freePort() int {
	l, err := netListen()
	if err != nil {
		panic(err)
	}
	defer l.Close()
	return l.Addr().(*netTCPAddr).Port
}

type errLogger struct{}

func (errLogger) Debug(msg string, args ...any) {}
func (errLogger) Info(msg string, args ...any)  {}
func (errLogger) Warn(msg string, args ...any)  { fmt.Fprintf(os.Stderr, "WARN "+msg+"\n", args...) }
func (errLogger) Error(msg string, args ...any) { fmt.Fprintf(os.Stderr, "ERROR "+msg+"\n", args...) }

func startServer(opts ...server.Option) *sut {
	if os.Getenv("VERIF_SRVLOG") != "" {
		opts = append(opts, server.SetLogger(errLogger{}))
	}
	if os.Getenv("VERIF_SRVLOG") == "" {
		log.SetOutput(io.Discard)
	}
	port := freePort()
	opts = append(opts, server.EndPoint("localhost", port))
	s := server.New(opts...)
	ns := server.NewNodeNameSpace(s, "urn:verif:nodes")
	mapns := server.NewMapNamespace(s, "urn:verif:map")
	mapns.Data["alpha"] = 1
	mapns.Data["beta"] = "x"
	mapns.Data["gamma"] = 2.5
	if err := s.Start(context.Background()); err != nil {
		panic(err)
	}
	return &sut{srv: s, url: fmt.Sprintf("opc.tcp://localhost:%d", port), ns: ns, mapns: mapns}
}

type tablesJ struct {
	Sessions []server.VerifSession `json:"sessions"`
	Subs     []server.VerifSub     `json:"subs"`
	LastSub  uint32                `json:"last_sub"`
	Items    []itemJ               `json:"items"`
	ItemCtr  uint32                `json:"item_ctr"`
	Consist  bool                  `json:"consistent"`
	Endpts   int                   `json:"endpoints"`
}
type itemJ struct {
	ID    uint32 `json:"id"`
	Sub   uint32 `json:"sub"`
	Owner uint64 `json:"owner"`
	Node  NID    `json:"node"`
	Attr  uint32 `json:"attr"`
	Mode  uint32 `json:"mode"`
	HasOw bool   `json:"has_owner"`
}

func (s *sut) tables() tablesJ {
	if atomic.LoadInt32(&tablesBusy) != 0 {
		return lastTables // the item tables are held by the blocked change notification
	}
	t := s.readTables()
	lastTables = t
	return t
}

func (s *sut) readTables() tablesJ {
	var t tablesJ
	t.Sessions = s.srv.VerifSessions()
	t.Subs, t.LastSub = s.srv.VerifSubs()
	items, ctr, cons := s.srv.VerifItems()
	t.ItemCtr, t.Consist = ctr, cons
	for _, it := range items {
		j := itemJ{ID: it.ID, Sub: it.Sub, Attr: it.Attr, Mode: it.Mode}
		if it.Owner != "" {
			j.Owner, j.HasOw = keys.of(it.Owner), true
		}
		if n, err := ua.ParseNodeID(it.Node); err == nil {
			j.Node = nidOf(n)
		}
		t.Items = append(t.Items, j)
	}
	t.Endpts = len(s.srv.Endpoints())
	return t
}

// settle waits until the goroutines started by handlers have run (tables stop changing).
func (s *sut) settle(want func(tablesJ) bool) tablesJ {
	var t tablesJ
	for i := 0; i < 200; i++ {
		t = s.tables()
		if want == nil || want(t) {
			return t
		}
		time.Sleep(time.Millisecond)
	}
	return t
}

// ---------------------------------------------------------------------------------------------
// executing a history

type History struct {
	ID     int     `json:"id"`
	Mode   string  `json:"mode"`
	Nodes  []NodeJ `json:"nodes"`  // nodes to create before the history (ids must be fresh)
	Shared []NID   `json:"shared"` // existing nodes whose current state belongs to the history's address space (dumped, not created)
	Ops   []Op    `json:"ops"`
}

type runner struct {
	s        *sut
	clients  map[int]*rawClient
	sessions []uint64 // tokens in creation order
	subs     []uint32
	items    []uint32
	handle   uint32 // client handles are unique per history (the publish queue of a subscription is keyed by them)
	pendEv   map[string]any // result of an op that was executed early (Chain)
	pendOut  *Outcome
}

func (r *runner) client(ch int) *rawClient {
	if c, ok := r.clients[ch]; ok {
		return c
	}
	c, err := dialRaw(context.Background(), r.s.url, nil)
	if err != nil {
		panic("dial: " + err.Error())
	}
	r.clients[ch] = c
	return c
}

func (r *runner) token(sel string) (uint64, *ua.NodeID) {
	switch {
	case sel == "null" || sel == "":
		return 0, ua.NewTwoByteNodeID(0)
	case sel == "bogus":
		return 4000000001, ua.NewNumericNodeID(0, 4000000001)
	case strings.HasPrefix(sel, "raw:"):
		n, _ := strconv.ParseUint(sel[4:], 10, 32)
		return n, ua.NewNumericNodeID(0, uint32(n))
	case strings.HasPrefix(sel, "s"):
		k, _ := strconv.Atoi(sel[1:])
		if k < len(r.sessions) {
			return r.sessions[k], ua.NewNumericNodeID(0, uint32(r.sessions[k]))
		}
		return 4000000002, ua.NewNumericNodeID(0, 4000000002)
	}
	panic("token selector " + sel)
}

func (r *runner) resolveID(ref string) uint32 {
	switch {
	case strings.HasPrefix(ref, "lastitem"): // k-th monitored item from the end of those created so far
		k, _ := strconv.Atoi(ref[8:])
		if k < len(r.items) {
			return r.items[len(r.items)-1-k]
		}
		return 88870
	case strings.HasPrefix(ref, "last"): // k-th subscription from the end of those created so far
		k, _ := strconv.Atoi(ref[4:])
		if k < len(r.subs) {
			return r.subs[len(r.subs)-1-k]
		}
		return 77760
	case strings.HasPrefix(ref, "sub"):
		k, _ := strconv.Atoi(ref[3:])
		if k < len(r.subs) {
			return r.subs[k]
		}
		return 77770 + uint32(k)
	case strings.HasPrefix(ref, "item"):
		k, _ := strconv.Atoi(ref[4:])
		if k < len(r.items) {
			return r.items[k]
		}
		return 88880 + uint32(k)
	case strings.HasPrefix(ref, "n"):
		k, _ := strconv.ParseUint(ref[1:], 10, 32)
		return uint32(k)
	}
	panic("id ref " + ref)
}

func ivalFloat(i IVal) float64 {
	switch i.K {
	case "nan":
		return math.NaN()
	case "ninf":
		return math.Inf(-1)
	case "pinf":
		return math.Inf(1)
	}
	return float64(i.U) / 1000
}

var svcReqs = map[string]func() ua.Request{
	"findservers":          func() ua.Request { return &ua.FindServersRequest{} },
	"findserversonnetwork": func() ua.Request { return &ua.FindServersOnNetworkRequest{} },
	"getendpoints":         func() ua.Request { return &ua.GetEndpointsRequest{EndpointURL: "opc.tcp://x"} },
	"registerserver":       func() ua.Request { return &ua.RegisterServerRequest{Server: &ua.RegisteredServer{}} },
	"registerserver2":      func() ua.Request { return &ua.RegisterServer2Request{Server: &ua.RegisteredServer{}} },
	"cancel":               func() ua.Request { return &ua.CancelRequest{} },
	"addnodes":             func() ua.Request { return &ua.AddNodesRequest{} },
	"browsenext":           func() ua.Request { return &ua.BrowseNextRequest{} },
	"translate":            func() ua.Request { return &ua.TranslateBrowsePathsToNodeIDsRequest{} },
	"historyread":          func() ua.Request { return &ua.HistoryReadRequest{HistoryReadDetails: ua.NewExtensionObject(nil)} },
	"call":                 func() ua.Request { return &ua.CallRequest{} },
	"modifysub":            func() ua.Request { return &ua.ModifySubscriptionRequest{} },
	"setpublishingmode":    func() ua.Request { return &ua.SetPublishingModeRequest{} },
	"republish":            func() ua.Request { return &ua.RepublishRequest{} },
	"transfersubs":         func() ua.Request { return &ua.TransferSubscriptionsRequest{} },
	"modifyitems":          func() ua.Request { return &ua.ModifyMonitoredItemsRequest{} },
	"settriggering":        func() ua.Request { return &ua.SetTriggeringRequest{} },
	"queryfirst": func() ua.Request {
		return &ua.QueryFirstRequest{View: &ua.ViewDescription{ViewID: ua.NewTwoByteNodeID(0)}, Filter: &ua.ContentFilter{}}
	},
	"closesecurechannel_as_msg": func() ua.Request { return &ua.CloseSecureChannelRequest{} }, // no handler registered
}

func resultMask(b BDesc) uint32 {
	if b.RMask != nil {
		return *b.RMask
	}
	return uint32(ua.BrowseResultMaskAll)
}

func stOf(err error) (uint32, bool) {
	if sc, ok := err.(ua.StatusCode); ok {
		return uint32(sc), true
	}
	return 0, false
}

// exec runs one op and returns the resolved event (for the model) and the outcome.
func (r *runner) exec(op Op) (map[string]any, Outcome) {
	c := r.client(op.Ch)
	tokKey, tok := r.token(op.Tok)
	ev := map[string]any{"kind": op.Kind, "ch": op.Ch, "tok": tokKey}
	to := 3 * time.Second
	fail := func(err error) Outcome {
		if err == errTimeout {
			return Outcome{K: "timeout"}
		}
		if st, ok := stOf(err); ok {
			return Outcome{K: "fault", St: st}
		}
		return Outcome{K: "error", Err: err.Error()}
	}
	switch op.Kind {
	case "read":
		req := &ua.ReadRequest{TimestampsToReturn: ua.TimestampsToReturnNeither}
		for _, rv := range op.Reads {
			req.NodesToRead = append(req.NodesToRead, &ua.ReadValueID{NodeID: parseNID(rv.Node), AttributeID: ua.AttributeID(rv.Attr), DataEncoding: &ua.QualifiedName{}})
		}
		ev["reads"] = op.Reads
		if op.MapNS {
			ev["mapns"] = true
		}
		resp, err := c.call(req, tok, to)
		if err != nil {
			return ev, fail(err)
		}
		o := Outcome{K: "read", DVs: []DVal{}}
		for _, d := range resp.(*ua.ReadResponse).Results {
			o.DVs = append(o.DVs, projDV(d))
		}
		return ev, o
	case "write":
		req := &ua.WriteRequest{}
		for _, wv := range op.Writes {
			dv := mkDV(wv.Val)
			if wv.SrcTS {
				dv.EncodingMask |= ua.DataValueSourceTimestamp
				dv.SourceTimestamp = time.Now()
			}
			if wv.Pico {
				dv.EncodingMask |= ua.DataValueSourcePicoseconds
				dv.SourcePicoseconds = 7
			}
			req.NodesToWrite = append(req.NodesToWrite, &ua.WriteValue{NodeID: parseNID(wv.Node), AttributeID: ua.AttributeID(wv.Attr), Value: dv})
		}
		ev["writes"] = op.Writes
		if op.MapNS {
			ev["mapns"] = true
		}
		resp, err := c.call(req, tok, to)
		if err != nil {
			return ev, fail(err)
		}
		o := Outcome{K: "write", Sts: []uint32{}}
		for _, st := range resp.(*ua.WriteResponse).Results {
			o.Sts = append(o.Sts, uint32(st))
		}
		return ev, o
	case "browse":
		req := &ua.BrowseRequest{View: &ua.ViewDescription{ViewID: ua.NewTwoByteNodeID(0)}}
		for _, b := range op.Browses {
			req.NodesToBrowse = append(req.NodesToBrowse, &ua.BrowseDescription{
				NodeID: parseNID(b.Node), BrowseDirection: ua.BrowseDirection(b.Dir), ReferenceTypeID: parseNID(b.RefType),
				IncludeSubtypes: b.Subtypes, NodeClassMask: b.Mask, ResultMask: resultMask(b)})
		}
		ev["browses"] = op.Browses
		if op.MapNS {
			ev["mapns"] = true
			var ints []uint32
			for _, b := range op.Browses {
				ints = append(ints, parseNID(b.Node).IntID())
			}
			ev["node_ints"] = ints
		}
		resp, err := c.call(req, tok, 8*time.Second)
		if err != nil {
			return ev, fail(err)
		}
		o := Outcome{K: "browse", Browse: []BrowseR{}}
		for _, br := range resp.(*ua.BrowseResponse).Results {
			x := BrowseR{St: uint32(br.StatusCode), Refs: []RDesc{}}
			for _, rd := range br.References {
				d := RDesc{Fwd: rd.IsForward, Class: uint32(rd.NodeClass)}
				if rd.ReferenceTypeID != nil {
					d.Type = keys.of(rd.ReferenceTypeID.String())
				}
				if rd.NodeID != nil && rd.NodeID.NodeID != nil {
					d.Target = keys.of(rd.NodeID.NodeID.String())
				}
				if rd.TypeDefinition != nil && rd.TypeDefinition.NodeID != nil {
					k := keys.of(rd.TypeDefinition.NodeID.String())
					d.TypeDef = &k
				}
				x.Refs = append(x.Refs, d)
			}
			o.Browse = append(o.Browse, x)
		}
		return ev, o
	case "createsession":
		req := &ua.CreateSessionRequest{ClientDescription: &ua.ApplicationDescription{ApplicationName: &ua.LocalizedText{}}, EndpointURL: r.s.url,
			ClientNonce: make([]byte, 32), RequestedSessionTimeout: 60000}
		resp, err := c.call(req, tok, to)
		if err != nil {
			ev["fresh"] = 0
			ev["crypto_ok"] = true
			return ev, fail(err)
		}
		t := keys.of(resp.(*ua.CreateSessionResponse).AuthenticationToken.String())
		r.sessions = append(r.sessions, t)
		ev["fresh"] = t
		ev["crypto_ok"] = true
		return ev, Outcome{K: "createsession", Tok: t}
	case "activate":
		var ident *ua.ExtensionObject
		switch op.Ident {
		case "username":
			ident = ua.NewExtensionObject(&ua.UserNameIdentityToken{PolicyID: "username", UserName: "u", Password: []byte("p")})
		case "issued":
			ident = ua.NewExtensionObject(&ua.IssuedIdentityToken{PolicyID: "issued", TokenData: []byte{1, 2, 3}})
		case "x509":
			ident = ua.NewExtensionObject(&ua.X509IdentityToken{PolicyID: "certificate", CertificateData: []byte{0x30, 0}})
		case "garbage": // an extension object the server does not know (type id of ReadRequest's data type node, no decoder)
			ident = &ua.ExtensionObject{EncodingMask: ua.ExtensionObjectBinary, TypeID: ua.NewFourByteExpandedNodeID(0, 9999), Value: nil}
		case "none":
			ident = ua.NewExtensionObject(nil)
		default:
			ident = ua.NewExtensionObject(&ua.AnonymousIdentityToken{PolicyID: "anonymous"})
		}
		req := &ua.ActivateSessionRequest{ClientSignature: &ua.SignatureData{}, UserIdentityToken: ident, UserTokenSignature: &ua.SignatureData{}}
		ev["sig_ok"] = true
		ev["ident"] = op.Ident
		_, err := c.call(req, tok, to)
		if err != nil {
			return ev, fail(err)
		}
		return ev, Outcome{K: "activate"}
	case "appnotify":
		// the application reports a change of a node whose value callback does not return until the harness says so: the
		// change notification in progress holds the monitored item tables (MonitoredItemService.Mu) meanwhile
		ev["nomodel"] = true
		n := parseNID(op.Reads[0].Node)
		slowEntered, slowRelease, slowDone = make(chan struct{}), make(chan struct{}), make(chan struct{})
		atomic.StoreInt32(&slowArmed, 1)
		go func(done chan struct{}) {
			r.s.srv.ChangeNotification(n)
			close(done)
		}(slowDone)
		select {
		case <-slowEntered:
			atomic.StoreInt32(&tablesBusy, 1)
			ev["established"] = true
		case <-time.After(3 * time.Second):
			// could not establish the blocked state (no item on the node?): inconclusive, carry on unblocked
			atomic.StoreInt32(&slowArmed, 0)
			close(slowRelease)
			ev["established"] = false
		}
		return ev, Outcome{K: "other"}
	case "apprelease":
		ev["nomodel"] = true
		if atomic.LoadInt32(&tablesBusy) != 0 {
			close(slowRelease)
			select {
			case <-slowDone:
			case <-time.After(3 * time.Second):
			}
			atomic.StoreInt32(&tablesBusy, 0)
		}
		return ev, Outcome{K: "other"}
	case "closesession":
		_, err := c.call(&ua.CloseSessionRequest{DeleteSubscriptions: true}, tok, to)
		if err != nil {
			return ev, fail(err)
		}
		return ev, Outcome{K: "close"}
	case "createsub":
		iv := IVal{K: "fin", U: 250000}
		if op.Interval != nil {
			iv = *op.Interval
		}
		ev["interval"] = iv
		req := &ua.CreateSubscriptionRequest{RequestedPublishingInterval: ivalFloat(iv), RequestedLifetimeCount: 100000, RequestedMaxKeepAliveCount: 100000, PublishingEnabled: true}
		resp, err := c.call(req, tok, to)
		if err != nil {
			return ev, fail(err)
		}
		cr := resp.(*ua.CreateSubscriptionResponse)
		r.subs = append(r.subs, cr.SubscriptionID)
		return ev, Outcome{K: "createsub", ID: cr.SubscriptionID, Revised: int64(math.Round(cr.RevisedPublishingInterval * 1000))}
	case "deletesubs":
		ids := append([]uint32{}, op.IDs...)
		for _, ref := range op.IDRefs {
			ids = append(ids, r.resolveID(ref))
		}
		ev["ids"] = ids
		resp, err := c.call(&ua.DeleteSubscriptionsRequest{SubscriptionIDs: ids}, tok, to)
		if err != nil {
			return ev, fail(err)
		}
		o := Outcome{K: "deletesubs", Sts: []uint32{}}
		for _, st := range resp.(*ua.DeleteSubscriptionsResponse).Results {
			o.Sts = append(o.Sts, uint32(st))
		}
		return ev, o
	case "createitems":
		sub := r.resolveID(op.Sub)
		ev["sub"] = sub
		ev["reads"] = op.Reads
		req := &ua.CreateMonitoredItemsRequest{SubscriptionID: sub, TimestampsToReturn: ua.TimestampsToReturnNeither}
		var handles []uint32
		for _, rv := range op.Reads {
			r.handle++
			handles = append(handles, r.handle)
			req.ItemsToCreate = append(req.ItemsToCreate, &ua.MonitoredItemCreateRequest{
				ItemToMonitor:       &ua.ReadValueID{NodeID: parseNID(rv.Node), AttributeID: ua.AttributeID(rv.Attr), DataEncoding: &ua.QualifiedName{}},
				MonitoringMode:      ua.MonitoringModeReporting,
				RequestedParameters: &ua.MonitoringParameters{ClientHandle: r.handle, SamplingInterval: 100, QueueSize: 1, Filter: ua.NewExtensionObject(nil)},
			})
		}
		ev["handles"] = handles
		resp, err := c.call(req, tok, to)
		if err != nil {
			return ev, fail(err)
		}
		o := Outcome{K: "createitems", IDs: []uint32{}}
		for _, res := range resp.(*ua.CreateMonitoredItemsResponse).Results {
			o.IDs = append(o.IDs, res.MonitoredItemID)
			r.items = append(r.items, res.MonitoredItemID)
			if res.StatusCode != ua.StatusOK {
				o.Err = "item status not good"
			}
		}
		return ev, o
	case "deleteitems", "setmode":
		ids := append([]uint32{}, op.IDs...)
		for _, ref := range op.IDRefs {
			ids = append(ids, r.resolveID(ref))
		}
		ev["ids"] = ids
		subID := uint32(1)
		if op.Sub != "" {
			subID = r.resolveID(op.Sub) // the subscription the request names (the item ids are server-wide)
		}
		ev["subscription"] = subID
		if op.Kind == "deleteitems" {
			resp, err := c.call(&ua.DeleteMonitoredItemsRequest{SubscriptionID: subID, MonitoredItemIDs: ids}, tok, to)
			if err != nil {
				return ev, fail(err)
			}
			o := Outcome{K: "deleteitems", Sts: []uint32{}}
			for _, st := range resp.(*ua.DeleteMonitoredItemsResponse).Results {
				o.Sts = append(o.Sts, uint32(st))
			}
			return ev, o
		}
		ev["mode"] = op.Mode
		resp, err := c.call(&ua.SetMonitoringModeRequest{SubscriptionID: subID, MonitoringMode: ua.MonitoringMode(op.Mode), MonitoredItemIDs: ids}, tok, to)
		if err != nil {
			return ev, fail(err)
		}
		o := Outcome{K: "setmode", Sts: []uint32{}}
		for _, st := range resp.(*ua.SetMonitoringModeResponse).Results {
			o.Sts = append(o.Sts, uint32(st))
		}
		return ev, o
	case "publish":
		pto := 120 * time.Millisecond
		if op.Wait {
			pto = 1500 * time.Millisecond
			ev["wait"] = true
		}
		resp, err := c.call(&ua.PublishRequest{}, tok, pto)
		if err == errTimeout {
			return ev, Outcome{K: "publishqueued"}
		}
		if err != nil {
			return ev, fail(err)
		}
		if pr, ok := resp.(*ua.PublishResponse); ok && pr.ResponseHeader.ServiceResult == ua.StatusBadSessionIDInvalid {
			return ev, Outcome{K: "publishnosession"}
		}
		if pr, ok := resp.(*ua.PublishResponse); ok && pr.ResponseHeader.ServiceResult == ua.StatusOK {
			// the handler queued the request; a subscription worker of the session answered it in the meantime
			o := Outcome{K: "publishqueued"}
			if pr.NotificationMessage != nil {
				for _, eo := range pr.NotificationMessage.NotificationData {
					if dcn, ok := eo.Value.(*ua.DataChangeNotification); ok {
						for _, mi := range dcn.MonitoredItems {
							o.Notifs = append(o.Notifs, NotifJ{Handle: mi.ClientHandle, DV: projDV(mi.Value)})
						}
					}
				}
				sort.Slice(o.Notifs, func(i, j int) bool { return o.Notifs[i].Handle < o.Notifs[j].Handle })
			}
			return ev, o
		}
		return ev, Outcome{K: "error", Err: fmt.Sprintf("unexpected publish response %T", resp)}
	case "svc":
		mk, ok := svcReqs[op.Svc]
		if !ok {
			panic("svc " + op.Svc)
		}
		req := mk()
		typeID := ua.ServiceTypeID(req)
		ev["svc"] = typeID
		ev["svcname"] = op.Svc
		registered := false
		for _, h := range r.s.srv.VerifHandlerIDs() {
			if h == typeID {
				registered = true
			}
		}
		ev["registered"] = registered
		resp, err := c.call(req, tok, to)
		if err != nil {
			return ev, fail(err)
		}
		switch x := resp.(type) {
		case *ua.FindServersResponse:
			return ev, Outcome{K: "findservers", N: len(x.Servers)}
		case *ua.GetEndpointsResponse:
			return ev, Outcome{K: "other"}
		case *ua.ServiceFault:
			return ev, Outcome{K: "fault", St: uint32(x.ResponseHeader.ServiceResult)}
		}
		return ev, Outcome{K: "other"}
	}
	panic("op kind " + op.Kind)
}

func buildNode(ns uint16, nj NodeJ) *server.Node {
	attrs := map[ua.AttributeID]*ua.DataValue{}
	for _, a := range nj.Attrs {
		attrs[ua.AttributeID(a.ID)] = mkDV(a.V)
	}
	var refs []*ua.ReferenceDescription
	for _, rj := range nj.Refs {
		rd := &ua.ReferenceDescription{IsForward: rj.Fwd, NodeClass: ua.NodeClass(rj.Class)}
		if rj.Type != nil {
			rd.ReferenceTypeID = ua.NewNumericNodeID(0, rj.TInt)
			if rj.TStr != "" {
				rd.ReferenceTypeID = ua.MustParseNodeID(rj.TStr)
			}
		}
		if rj.Target != nil {
			rd.NodeID = ua.NewExpandedNodeID(parseNID(*rj.Target), "", 0)
		}
		if rj.Named {
			rd.BrowseName = &ua.QualifiedName{Name: "r"}
			rd.DisplayName = &ua.LocalizedText{Text: "r", EncodingMask: ua.LocalizedTextText}
			rd.TypeDefinition = ua.NewTwoByteExpandedNodeID(0)
		}
		refs = append(refs, rd)
	}
	var vf server.ValueFunc
	switch nj.Val {
	case "nil":
		vf = func() *ua.DataValue { return nil }
	case "dv":
		dv := mkDV(*nj.ValDV)
		vf = func() *ua.DataValue { return dv }
	case "slow":
		dv := mkDV(*nj.ValDV)
		vf = func() *ua.DataValue {
			if atomic.CompareAndSwapInt32(&slowArmed, 1, 0) { // only the call the harness armed
				close(slowEntered)
				<-slowRelease
			}
			return dv
		}
	}
	n := server.NewNode(parseNID(nj.ID), attrs, refs, vf)
	// NewNode adds BrowseName / DisplayName / Description; they are dumped with the node
	return n
}

func (s *sut) runHistory(h History, dumpAll bool) (dead bool) {
	for _, nj := range h.Nodes {
		s.ns.AddNode(buildNode(s.ns.ID(), nj))
	}
	// initial state: generated nodes of this history (and, for browse histories, everything)
	init := map[string]any{"t": "init", "hist": h.ID, "mode": h.Mode, "ns_count": len(s.srv.Namespaces())}
	var nodes []NodeJ
	if dumpAll {
		for _, nsi := range s.srv.Namespaces() {
			if nn, ok := nsi.(*server.NodeNameSpace); ok {
				for _, k := range nn.VerifNodeKeys() {
					nodes = append(nodes, dumpNode(nn.VerifNode(k)))
				}
			}
		}
		init["full_space"] = true
	} else {
		for _, nj := range h.Nodes {
			nodes = append(nodes, dumpNode(s.ns.VerifNode(parseNID(nj.ID).String())))
		}
		for _, sh := range h.Shared {
			if n := s.srv.Node(parseNID(sh)); n != nil {
				nodes = append(nodes, dumpNode(n))
			}
		}
	}
	init["nodes"] = nodes
	if s.mapns != nil {
		var mk []NID
		var names []string
		for k := range s.mapns.Data {
			names = append(names, k)
		}
		sort.Strings(names)
		for _, k := range names {
			mk = append(mk, nidOf(ua.NewStringNodeID(s.mapns.ID(), k)))
		}
		init["map"] = map[string]any{"ns": s.mapns.ID(), "objects": nidOf(ua.NewNumericNodeID(s.mapns.ID(), 85)), "keys": mk}
	}
	init["tables"] = s.settle(nil)
	emit(init)

	r := &runner{s: s, clients: map[int]*rawClient{}}
	defer func() {
		for _, c := range r.clients {
			c.close()
		}
	}()
	for i, op := range h.Ops {
		emit(map[string]any{"t": "pre", "hist": h.ID, "i": i, "op": op})
		var before tablesJ
		var ev map[string]any
		var o Outcome
		if r.pendOut != nil {
			ev, o = r.pendEv, *r.pendOut
			r.pendEv, r.pendOut = nil, nil
		} else {
			before = s.tables()
			ev, o = r.exec(op)
			if op.Chain && i+1 < len(h.Ops) {
				ev2, o2 := r.exec(h.Ops[i+1])
				r.pendEv, r.pendOut = ev2, &o2
			}
		}
		if o.K == "timeout" {
			// the server stopped answering: its tables may be locked for good (a handler blocked while holding a
			// mutex), so they are not read again
			emit(map[string]any{"t": "ev", "hist": h.ID, "i": i, "ev": ev, "out": o, "internal": nil, "tables": before})
			emit(map[string]any{"t": "aborted", "hist": h.ID, "i": i, "why": "request not answered within the timeout"})
			os.Exit(3)
		}
		// let the goroutines spawned for successful deletes finish, and report them as internal events
		var internal []map[string]any
		switch o.K {
		case "deletesubs":
			ids := ev["ids"].([]uint32)
			gone := map[uint32]bool{}
			for j, st := range o.Sts {
				if st == 0 {
					gone[ids[j]] = true
					internal = append(internal, map[string]any{"kind": "delsub", "id": ids[j]})
				}
			}
			s.settle(func(t tablesJ) bool {
				for _, sb := range t.Subs {
					if gone[sb.ID] {
						return false
					}
				}
				for _, it := range t.Items {
					if gone[it.Sub] {
						return false
					}
				}
				return true
			})
		case "deleteitems":
			ids := ev["ids"].([]uint32)
			gone := map[uint32]bool{}
			for j, st := range o.Sts {
				if st == 0 {
					gone[ids[j]] = true
					internal = append(internal, map[string]any{"kind": "delitem", "id": ids[j]})
				}
			}
			s.settle(func(t tablesJ) bool {
				for _, it := range t.Items {
					if gone[it.ID] {
						return false
					}
				}
				return true
			})
		case "createitems", "write":
			time.Sleep(2 * time.Millisecond) // initial / change notifications run in goroutines; they only read
		}
		_ = before
		line := map[string]any{"t": "ev", "hist": h.ID, "i": i, "ev": ev, "out": o, "internal": internal, "tables": s.tables()}
		if atomic.LoadInt32(&tablesBusy) != 0 {
			line["stale"] = true // the tables shown are the ones read before the item tables were blocked
		}
		if !dumpAll {
			var cur []NodeJ
			for _, nj := range h.Nodes {
				cur = append(cur, dumpNode(s.ns.VerifNode(parseNID(nj.ID).String())))
			}
			line["nodes"] = cur // the history's nodes after this request (oracle input)
		}
		emit(line)
		if o.K == "timeout" {
			// the server stopped answering: the tables may be locked for good, do not touch them again
			emit(map[string]any{"t": "aborted", "hist": h.ID, "i": i, "why": "request not answered within the timeout"})
			os.Exit(3)
		}
	}
	// final dump of the history's nodes
	var fin []NodeJ
	if !dumpAll {
		for _, nj := range h.Nodes {
			fin = append(fin, dumpNode(s.ns.VerifNode(parseNID(nj.ID).String())))
		}
	}
	emit(map[string]any{"t": "final", "hist": h.ID, "nodes": fin, "tables": s.tables()})
	// clean up so that the next history starts from empty tables (counters persist and are dumped)
	s.cleanup()
	return false
}

func (s *sut) cleanup() {
	subs, _ := s.srv.VerifSubs()
	for _, sb := range subs {
		s.srv.SubscriptionService.DeleteSubscription(sb.ID)
	}
	c, err := dialRaw(context.Background(), s.url, nil)
	if err == nil {
		for _, se := range s.srv.VerifSessions() {
			if n, err := ua.ParseNodeID(se.Token); err == nil {
				c.call(&ua.CloseSessionRequest{}, n, time.Second)
			}
		}
		c.close()
	}
	s.settle(func(t tablesJ) bool { return len(t.Subs) == 0 && len(t.Items) == 0 && len(t.Sessions) == 0 })
}

// ---------------------------------------------------------------------------------------------

func main() {
	if len(os.Args) < 2 {
		fmt.Fprintln(os.Stderr, "usage: serverharness hist|replay|serve|fuzz|block|sec ...")
		os.Exit(2)
	}
	cmd := os.Args[1]
	fs := flag.NewFlagSet(cmd, flag.ExitOnError)
	seed := fs.Uint64("seed", 1, "PRNG seed")
	n := fs.Int("n", 20, "number of histories / cases")
	mode := fs.String("mode", "c31", "generator")
	file := fs.String("file", "", "history file (replay)")
	sec := fs.String("sec", "", "serve: enabled security, e.g. None:1,Basic256Sha256:3")
	noSec := fs.Bool("nosec", false, "server without EnableSecurity (no endpoints)")
	fs.Parse(os.Args[2:])
	switch cmd {
	case "hist":
		r := rng.New(*seed)
		s := startServer(defaultSec(*noSec)...)
		emit(map[string]any{"t": "consts", "hassubtype": id.HasSubtype, "hastypedefinition": id.HasTypeDefinition})
		if *mode == "c33" {
			setupC33(s)
			// namespace 0 as the running server holds it (oracle input)
			var all []NodeJ
			if nn, ok := s.srv.Namespaces()[0].(*server.NodeNameSpace); ok {
				for _, k := range nn.VerifNodeKeys() {
					all = append(all, dumpNode(nn.VerifNode(k)))
				}
			}
			emit(map[string]any{"t": "space", "nodes": all})
		}
		for i := 0; i < *n; i++ {
			if *mode == "c33" && i > 0 {
				mutateC33(r, s, i) // the address space changes between histories (a reference type is added through the node API)
			}
			h := generate(r, *mode, i, s)
			s.runHistory(h, false)
		}
		emit(map[string]any{"t": "done"})
	case "replay":
		b, err := os.ReadFile(*file)
		if err != nil {
			panic(err)
		}
		var hs []History
		if err := json.Unmarshal(b, &hs); err != nil {
			panic(err)
		}
		s := startServer(defaultSec(*noSec)...)
		for _, h := range hs {
			s.runHistory(h, false)
		}
		emit(map[string]any{"t": "done"})
	case "serve":
		serve(*sec)
	case "fuzz":
		fuzz(*seed, *n)
	case "block":
		block()
	case "sec":
		secMatrix(*seed)
	default:
		fmt.Fprintln(os.Stderr, "unknown command", cmd)
		os.Exit(2)
	}
}

func defaultSec(none bool) []server.Option {
	if none {
		return nil
	}
	return []server.Option{server.EnableSecurity("None", ua.MessageSecurityModeNone), server.EnableAuthMode(ua.UserTokenTypeAnonymous)}
}
