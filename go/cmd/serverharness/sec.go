package main

// secMatrix is filled in with the C30 check.
func secMatrix(seed uint64) { emit(map[string]any{"t": "sec", "todo": true}) }
