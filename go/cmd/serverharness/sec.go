package main

import (
	"context"
	"encoding/binary"
	"errors"
	"fmt"
	"sort"
	"strings"
	"time"

	"github.com/gopcua/opcua/server"
	"github.com/gopcua/opcua/ua"
	"github.com/gopcua/opcua/uacp"
	"github.com/gopcua/opcua/uapolicy"
	"github.com/gopcua/opcua/uasc"
)

// policyIndex numbers the supported policies: None = 0, the others by sorted URI from 1.
func policyIndex() map[string]int {
	uris := uapolicy.SupportedPolicies()
	sort.Strings(uris)
	m := map[string]int{ua.SecurityPolicyURINone: 0}
	i := 1
	for _, u := range uris {
		if u != ua.SecurityPolicyURINone {
			m[u] = i
			i++
		}
	}
	return m
}

func uriOf(name string) string {
	if strings.HasPrefix(name, "http://") {
		return name
	}
	return "http://opcfoundation.org/UA/SecurityPolicy#" + name
}

// secMatrix: server configurations (subsets of policy/mode pairs, with and without a key) x client policy/mode.
func secMatrix(seed uint64) {
	openTimeout = 1500 * time.Millisecond
	idx := policyIndex()
	scert, skey := selfSigned("urn:verif:server")
	ccert, ckey := selfSigned("urn:verif:client")
	type cfg struct {
		name   string
		pairs  []secPair
		key    bool
		noAuth bool // no EnableAuthMode option: the endpoints carry no user token policies
	}
	cfgs := []cfg{
		{"none-only", []secPair{{"None", 1}}, true, false},
		{"none-only-nokey", []secPair{{"None", 1}}, false, false},
		{"b256s256-signenc-only", []secPair{{"Basic256Sha256", 3}}, true, false},
		{"mixed", []secPair{{"None", 1}, {"Basic256Sha256", 2}, {"Basic256Sha256", 3}}, true, false},
		{"nothing-enabled", nil, true, false},
		{"aes128-signenc-only", []secPair{{"Aes128_Sha256_RsaOaep", 3}}, true, false},
		{"mixed-no-auth-mode", []secPair{{"None", 1}, {"Basic256Sha256", 3}}, true, true},
		// several secured policies with DIFFERENT mode sets: policy and mode must be enabled as a pair, so the crossed
		// pairs (Basic256Sha256/Sign, Aes128/SignAndEncrypt, ...) must be refused
		{"crossed-two-policies", []secPair{{"Basic256Sha256", 3}, {"Aes128_Sha256_RsaOaep", 2}}, true, false},
		{"crossed-three-policies", []secPair{{"None", 1}, {"Basic128Rsa15", 2}, {"Aes256_Sha256_RsaPss", 3}, {"Basic256Sha256", 2}}, true, false},
	}
	clients := []secPair{{"None", 1}, {"Basic256Sha256", 2}, {"Basic256Sha256", 3}, {"Basic128Rsa15", 3}, {"Aes128_Sha256_RsaOaep", 3}, {"Aes256_Sha256_RsaPss", 2}}
	// the whole cross product of the secured policies and modes for the crossed configurations
	crossClients := []secPair{{"None", 1}}
	for _, pol := range []string{"Basic256Sha256", "Aes128_Sha256_RsaOaep", "Basic128Rsa15", "Aes256_Sha256_RsaPss", "Basic256"} {
		crossClients = append(crossClients, secPair{pol, 2}, secPair{pol, 3})
	}
	allClients := clients
	for _, c := range cfgs {
		clients := allClients
		if strings.HasPrefix(c.name, "crossed") {
			clients = crossClients
		}
		var opts []server.Option
		for _, p := range c.pairs {
			opts = append(opts, server.EnableSecurity(p.Policy, p.Mode))
		}
		if !c.noAuth {
			opts = append(opts, server.EnableAuthMode(ua.UserTokenTypeAnonymous))
		}
		if c.key {
			opts = append(opts, server.Certificate(scert), server.PrivateKey(skey))
		}
		s := startServer(opts...)
		var enabled, advertised [][2]int
		for _, e := range s.srv.VerifEnabledSecurity() {
			m := map[string]int{"MessageSecurityModeNone": 1, "MessageSecurityModeSign": 2, "MessageSecurityModeSignAndEncrypt": 3}[e[1]]
			enabled = append(enabled, [2]int{idx[e[0]], m})
		}
		for _, ep := range s.srv.Endpoints() {
			advertised = append(advertised, [2]int{idx[ep.SecurityPolicyURI], int(ep.SecurityMode)})
		}
		for _, cl := range clients {
			ccfg := &uasc.Config{SecurityPolicyURI: uriOf(cl.Policy), SecurityMode: cl.Mode, Lifetime: 3600000, RequestTimeout: 3 * time.Second}
			if cl.Policy != "None" {
				ccfg.Certificate, ccfg.LocalKey, ccfg.RemoteCertificate = ccert, ckey, scert
				ccfg.Thumbprint = uapolicy.Thumbprint(scert)
			}
			o := map[string]any{"t": "sec", "config": c.name, "enabled": enabled, "advertised": advertised, "has_key": c.key,
				"client": [2]int{idx[uriOf(cl.Policy)], int(cl.Mode)}, "client_name": fmt.Sprintf("%s/%d", cl.Policy, cl.Mode), "urls": len(s.srv.URLs())}
			rc, err := dialRaw(context.Background(), s.url, ccfg)
			o["opened"] = err == nil
			if err != nil {
				o["err"] = err.Error()
				o["status"] = errStatus(err)
			} else {
				// discovery needs no session; CreateSession is the first thing any session needs
				_, err := rc.call(&ua.GetEndpointsRequest{EndpointURL: s.url}, nil, 3*time.Second)
				o["served"] = err == nil
				_, err = rc.call(&ua.CreateSessionRequest{ClientDescription: &ua.ApplicationDescription{ApplicationName: &ua.LocalizedText{}}, EndpointURL: s.url,
					ClientNonce: make([]byte, 32), ClientCertificate: ccfg.Certificate, RequestedSessionTimeout: 60000}, nil, 3*time.Second)
				o["session"] = err == nil
				if err != nil {
					o["session_status"] = errStatus(err)
				}
				rc.close()
			}
			emit(o)
		}
		// renewals: a channel opened with an accepted pair asks for a new token with another mode (the client library sends
		// whatever mode its configuration holds at that moment)
		for _, cl := range clients {
			for _, m2 := range []ua.MessageSecurityMode{1, 2, 3} {
				if (cl.Policy == "None") != (m2 == 1) {
					continue // the client library cannot build such a request (it panics or refuses on its own side); raw frames below
				}
				ccfg := &uasc.Config{SecurityPolicyURI: uriOf(cl.Policy), SecurityMode: cl.Mode, Lifetime: 3600000, RequestTimeout: 2 * time.Second}
				if cl.Policy != "None" {
					ccfg.Certificate, ccfg.LocalKey, ccfg.RemoteCertificate = ccert, ckey, scert
					ccfg.Thumbprint = uapolicy.Thumbprint(scert)
				}
				rc, err := dialRaw(context.Background(), s.url, ccfg)
				if err != nil {
					break // not opened with this pair: nothing to renew
				}
				o := map[string]any{"t": "sec", "renew": true, "config": c.name, "enabled": enabled, "advertised": advertised, "has_key": c.key,
					"from": [2]int{idx[uriOf(cl.Policy)], int(cl.Mode)}, "client": [2]int{idx[uriOf(cl.Policy)], int(m2)},
					"client_name": fmt.Sprintf("renew:%s/%d->%d", cl.Policy, cl.Mode, m2), "urls": len(s.srv.URLs())}
				ccfg.SecurityMode = m2
				rctx, cancel := context.WithTimeout(context.Background(), 2*time.Second)
				err = rc.sc.Renew(rctx)
				cancel()
				o["opened"] = err == nil
				if err != nil {
					o["err"] = err.Error()
					o["status"] = errStatus(err)
				} else {
					_, err := rc.call(&ua.GetEndpointsRequest{EndpointURL: s.url}, nil, 2*time.Second)
					o["served"] = err == nil
				}
				rc.close()
				emit(o)
			}
		}
		// raw renewals on an unsecured channel: Issue None/None, then Renew naming another mode
		for _, m2 := range []int{1, 2, 3, 0, 4} {
			var port int
			fmt.Sscanf(s.url, "opc.tcp://localhost:%d", &port)
			o := map[string]any{"t": "sec", "raw": true, "renew": true, "config": c.name, "enabled": enabled, "advertised": advertised, "has_key": c.key,
				"from": [2]int{0, 1}, "client": [2]int{0, m2}, "client_name": fmt.Sprintf("rawrenew:0/1->%d", m2), "urls": len(s.srv.URLs())}
			conn, err := helloConn(port)
			if err != nil {
				continue
			}
			conn.Write(opnFrame(1, 1))
			_, body, err := readMessage(conn, 700*time.Millisecond)
			var chanID uint32
			if err == nil {
				if _, svc, derr := ua.DecodeService(body); derr == nil {
					if r, ok := svc.(*ua.OpenSecureChannelResponse); ok {
						chanID = r.SecurityToken.ChannelID
					}
				}
			}
			if chanID == 0 {
				conn.Close()
				continue
			}
			conn.Write(opnFrameKind(ua.SecurityPolicyURINone, ua.MessageSecurityMode(m2), ua.SecurityTokenRequestTypeRenew, chanID, 2, 2))
			typ, body, err := readMessage(conn, 700*time.Millisecond)
			switch {
			case err != nil:
				o["opened"], o["err"] = false, err.Error()
			case typ == "OPN":
				_, svc, derr := ua.DecodeService(body)
				_, isOPN := svc.(*ua.OpenSecureChannelResponse)
				o["opened"] = derr == nil && isOPN
			case typ == "ERR" && len(body) >= 4:
				o["opened"] = false
				o["status"] = binary.LittleEndian.Uint32(body)
			default:
				o["opened"], o["err"] = false, "unexpected "+typ
			}
			conn.Close()
			emit(o)
		}
		// raw OpenSecureChannel frames: pairs the library's client refuses to ask for, and an unknown policy URI
		var port int
		fmt.Sscanf(s.url, "opc.tcp://localhost:%d", &port)
		for _, rw := range []struct {
			uri  string
			p, m int
		}{{ua.SecurityPolicyURINone, 0, 2}, {ua.SecurityPolicyURINone, 0, 3}, {ua.SecurityPolicyURINone, 0, 0}, {ua.SecurityPolicyURINone, 0, 4},
			{ua.SecurityPolicyURINone, 0, 1}, {"http://example.org/UnknownPolicy", 99, 1}} {
			o := map[string]any{"t": "sec", "raw": true, "config": c.name, "enabled": enabled, "advertised": advertised, "has_key": c.key,
				"client": [2]int{rw.p, rw.m}, "client_name": fmt.Sprintf("raw:%d/%d", rw.p, rw.m), "urls": len(s.srv.URLs())}
			conn, err := helloConn(port)
			if err != nil {
				o["err"] = err.Error()
				emit(o)
				continue
			}
			conn.Write(opnFrameWith(rw.uri, ua.MessageSecurityMode(rw.m), 1, 1))
			typ, body, err := readMessage(conn, 700*time.Millisecond)
			switch {
			case err != nil:
				o["opened"], o["err"] = false, err.Error()
			case typ == "OPN":
				_, svc, derr := ua.DecodeService(body)
				_, isOPN := svc.(*ua.OpenSecureChannelResponse)
				o["opened"] = derr == nil && isOPN
			case typ == "ERR" && len(body) >= 4:
				o["opened"] = false
				o["status"] = binary.LittleEndian.Uint32(body)
			default:
				o["opened"], o["err"] = false, "unexpected "+typ
			}
			conn.Close()
			emit(o)
		}
		s.srv.Close()
	}
	emit(map[string]any{"t": "done"})
}

func errStatus(err error) uint32 {
	var code ua.StatusCode
	if errors.As(err, &code) {
		return uint32(code)
	}
	var ue *uacp.Error
	if errors.As(err, &ue) {
		return ue.ErrorCode
	}
	return 0
}
