package main

import (
	"context"
	"fmt"
	"sort"
	"strings"
	"time"

	"github.com/gopcua/opcua/server"
	"github.com/gopcua/opcua/ua"
	"github.com/gopcua/opcua/uapolicy"
	"github.com/gopcua/opcua/uasc"
)

// policyIndex numbers the supported policies: None = 0, the others by sorted URI from 1.
func policyIndex() map[string]int {
	uris := uapolicy.SupportedPolicies()
	sort.Strings(uris)
	m := map[string]int{ua.SecurityPolicyURINone: 0}
	i := 1
	for _, u := range uris {
		if u != ua.SecurityPolicyURINone {
			m[u] = i
			i++
		}
	}
	return m
}

func uriOf(name string) string {
	if strings.HasPrefix(name, "http://") {
		return name
	}
	return "http://opcfoundation.org/UA/SecurityPolicy#" + name
}

// secMatrix: server configurations (subsets of policy/mode pairs, with and without a key) x client policy/mode.
func secMatrix(seed uint64) {
	idx := policyIndex()
	scert, skey := selfSigned("urn:verif:server")
	ccert, ckey := selfSigned("urn:verif:client")
	type cfg struct {
		name  string
		pairs []secPair
		key   bool
	}
	cfgs := []cfg{
		{"none-only", []secPair{{"None", 1}}, true},
		{"none-only-nokey", []secPair{{"None", 1}}, false},
		{"b256s256-signenc-only", []secPair{{"Basic256Sha256", 3}}, true},
		{"mixed", []secPair{{"None", 1}, {"Basic256Sha256", 2}, {"Basic256Sha256", 3}}, true},
		{"nothing-enabled", nil, true},
		{"aes128-signenc-only", []secPair{{"Aes128_Sha256_RsaOaep", 3}}, true},
	}
	clients := []secPair{{"None", 1}, {"Basic256Sha256", 2}, {"Basic256Sha256", 3}, {"Basic128Rsa15", 3}, {"Aes128_Sha256_RsaOaep", 3}, {"Aes256_Sha256_RsaPss", 2}}
	for _, c := range cfgs {
		var opts []server.Option
		for _, p := range c.pairs {
			opts = append(opts, server.EnableSecurity(p.Policy, p.Mode))
		}
		opts = append(opts, server.EnableAuthMode(ua.UserTokenTypeAnonymous))
		if c.key {
			opts = append(opts, server.Certificate(scert), server.PrivateKey(skey))
		}
		s := startServer(opts...)
		var enabled, advertised [][2]int
		for _, e := range s.srv.VerifEnabledSecurity() {
			m := map[string]int{"MessageSecurityModeNone": 1, "MessageSecurityModeSign": 2, "MessageSecurityModeSignAndEncrypt": 3}[e[1]]
			enabled = append(enabled, [2]int{idx[e[0]], m})
		}
		for _, ep := range s.srv.Endpoints() {
			advertised = append(advertised, [2]int{idx[ep.SecurityPolicyURI], int(ep.SecurityMode)})
		}
		for _, cl := range clients {
			ccfg := &uasc.Config{SecurityPolicyURI: uriOf(cl.Policy), SecurityMode: cl.Mode, Lifetime: 3600000, RequestTimeout: 3 * time.Second}
			if cl.Policy != "None" {
				ccfg.Certificate, ccfg.LocalKey, ccfg.RemoteCertificate = ccert, ckey, scert
				ccfg.Thumbprint = uapolicy.Thumbprint(scert)
			}
			o := map[string]any{"t": "sec", "config": c.name, "enabled": enabled, "advertised": advertised, "has_key": c.key,
				"client": [2]int{idx[uriOf(cl.Policy)], int(cl.Mode)}, "client_name": fmt.Sprintf("%s/%d", cl.Policy, cl.Mode), "urls": len(s.srv.URLs())}
			rc, err := dialRaw(context.Background(), s.url, ccfg)
			o["opened"] = err == nil
			if err != nil {
				o["err"] = err.Error()
			} else {
				// the channel is usable: discovery needs no session
				_, err := rc.call(&ua.GetEndpointsRequest{EndpointURL: s.url}, nil, 3*time.Second)
				o["served"] = err == nil
				rc.close()
			}
			emit(o)
		}
		s.srv.Close()
	}
	emit(map[string]any{"t": "done"})
}
