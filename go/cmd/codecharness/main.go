// codecharness drives the real binary codec of package ua and prints one JSON observation per line.
//
//	codecharness -seed S -n K values     K generated values per registered type and per hand-written codec:
//	                                     value tree, Encode, Decode of the encoding (in-process, panics recovered)
//	codecharness -seed S -n K hostile    malformed / mutated / random byte streams, each decoded (then re-encoded and
//	                                     decoded again) in a child process with a memory limit and a timeout
//	codecharness child                   (internal) reads cases from stdin
package main

import (
	"bufio"
	"encoding/hex"
	"encoding/json"
	"flag"
	"fmt"
	"io"
	"os"
	"os/exec"
	"reflect"
	"runtime"
	"sort"
	"strings"
	"time"

	"github.com/gopcua/opcua/ua"

	"verifharness/internal/rng"
)

type target struct {
	Name string       // Coq expression of the descriptor
	T    reflect.Type // pointer type handed to ua.Decode
}

func targets() (all []target, customs []target, eo []ua.VerifRegEntry) {
	customs = []target{
		{"(TCustom CVariant)", reflect.TypeOf((*ua.Variant)(nil))},
		{"(TCustom CDataValue)", reflect.TypeOf((*ua.DataValue)(nil))},
		{"(TCustom CDiagInfo)", reflect.TypeOf((*ua.DiagnosticInfo)(nil))},
		{"(TCustom CLocText)", reflect.TypeOf((*ua.LocalizedText)(nil))},
		{"(TCustom CNodeID)", reflect.TypeOf((*ua.NodeID)(nil))},
		{"(TCustom CExpNodeID)", reflect.TypeOf((*ua.ExpandedNodeID)(nil))},
		{"(TCustom CExtObj)", reflect.TypeOf((*ua.ExtensionObject)(nil))},
		{"(TCustom CGUID)", reflect.TypeOf((*ua.GUID)(nil))},
	}
	seen := map[reflect.Type]bool{}
	eo = ua.VerifExtensionObjectRegistry()
	for _, e := range append(ua.VerifServiceRegistry(), eo...) {
		if seen[e.Type] {
			continue
		}
		seen[e.Type] = true
		all = append(all, target{"ty_" + e.Type.Elem().Name(), e.Type})
	}
	sort.Slice(all, func(i, j int) bool { return all[i].Name < all[j].Name })
	all = append(append([]target{}, customs...), all...)
	return
}

type obs map[string]interface{}

func errClass(err error) string {
	if err == nil {
		return "ok"
	}
	if strings.Contains(err.Error(), "EOF") {
		return "err:eof"
	}
	return "err"
}

// encode with panics recovered
func safeEncode(v interface{}) (b []byte, class string) {
	defer func() {
		if r := recover(); r != nil {
			b, class = nil, "panic"
		}
	}()
	b, err := ua.Encode(v)
	if err != nil {
		return nil, "err"
	}
	return b, "ok"
}

// decode into a fresh value of pointer type t, panics recovered
func safeDecode(t reflect.Type, b []byte) (v reflect.Value, n int, class string) {
	defer func() {
		if r := recover(); r != nil {
			class = "panic"
		}
	}()
	v = reflect.New(t.Elem())
	n, err := ua.Decode(b, v.Interface())
	return v, n, errClass(err)
}

// test-only types that are registered in the middle of a run
type verifLateEO struct {
	A    uint32
	Name string
	V    *ua.Variant
}
type verifLateSvc struct {
	N uint32
	S string
}

const lateDescriptor = "(TStruct [(TInt 4 false); TString; (TCustom CVariant)])"

func lateRegistration(enc *json.Encoder, emit func(target, reflect.Value), eoTarget target) {
	ids := []*ua.NodeID{ua.NewNumericNodeID(2, 4242424), ua.NewFourByteNodeID(3, 60001)}
	body := cat(le32(7), le32(2), []byte{0x68, 0x69}, []byte{0x06, 0x2a, 0, 0, 0})
	var before [][]byte
	entries := ""
	for _, id := range ids {
		idb, _ := safeEncode(&ua.ExpandedNodeID{NodeID: id})
		b := cat(idb, []byte{1}, le32(uint32(len(body))), body)
		before = append(before, b)
		e := new(ua.ExtensionObject)
		_, err := e.Decode(b)
		enc.Encode(obs{"k": "late", "step": "extension object decoded before its type is registered", "id": id.String(), "hex": hex.EncodeToString(b),
			"ok": err == nil && e.Value == nil, "what": fmt.Sprintf("err=%v value=%T (want no error, nil value)", err, e.Value)})
		if entries != "" {
			entries += "; "
		}
		entries += fmt.Sprintf("(%d, %d, %s)", id.Namespace(), id.IntID(), lateDescriptor)
	}
	const svcID = 60002
	svcBody := cat(le32(9), le32(1), []byte{0x7a})
	sidb, _ := safeEncode(ua.NewFourByteExpandedNodeID(0, svcID))
	_, _, err := ua.DecodeService(cat(sidb, svcBody))
	enc.Encode(obs{"k": "late", "step": "service decoded before its type is registered", "id": fmt.Sprint(svcID),
		"ok": err == ua.StatusBadServiceUnsupported, "what": fmt.Sprintf("err=%v (want StatusBadServiceUnsupported)", err)})

	for _, id := range ids {
		ua.RegisterExtensionObject(id, new(verifLateEO))
	}
	ua.RegisterService(svcID, new(verifLateSvc))
	enc.Encode(obs{"k": "late-reg", "entries": "[" + entries + "]"})

	for i, id := range ids {
		// the bytes that were dropped before must now decode into the registered type
		e := new(ua.ExtensionObject)
		_, err := e.Decode(before[i])
		v, isT := e.Value.(*verifLateEO)
		enc.Encode(obs{"k": "late", "step": "extension object decoded after its type was registered", "id": id.String(), "hex": hex.EncodeToString(before[i]),
			"ok":   err == nil && isT && v.A == 7 && v.Name == "hi" && v.V != nil && v.V.Value() == int32(42),
			"what": fmt.Sprintf("err=%v value=%T", err, e.Value)})
		// and a value of the type round-trips (model: the registry after the registration)
		emit(eoTarget, reflect.ValueOf(&ua.ExtensionObject{TypeID: &ua.ExpandedNodeID{NodeID: id}, EncodingMask: ua.ExtensionObjectBinary,
			Value: &verifLateEO{A: 0xfffffffe, Name: "late", V: ua.MustVariant([]string{"a", "b"})}}))
	}
	_, got, err := ua.DecodeService(cat(sidb, svcBody))
	sv, isT := got.(*verifLateSvc)
	enc.Encode(obs{"k": "late", "step": "service decoded after its type was registered", "id": fmt.Sprint(svcID),
		"ok": err == nil && isT && sv.N == 9 && sv.S == "z", "what": fmt.Sprintf("err=%v value=%T", err, got)})
}

// serviceTie runs ua.DecodeService on a four-byte type id followed by the body and compares with ua.Decode's result
func serviceTie(sid uint16, body []byte, dval string) (res string) {
	defer func() {
		if r := recover(); r != nil {
			res = "panic"
		}
	}()
	idb, cls := safeEncode(ua.NewFourByteExpandedNodeID(0, sid))
	if cls != "ok" {
		return "type id does not encode: " + cls
	}
	tid, got, err := ua.DecodeService(append(append([]byte{}, idb...), body...))
	if err != nil {
		return "error: " + err.Error()
	}
	if tid == nil || tid.NodeID == nil || tid.NodeID.IntID() != uint32(sid) || tid.NodeID.Namespace() != 0 {
		return "type id differs"
	}
	if d := dumpTop(reflect.ValueOf(got)); d != dval {
		return "value differs: " + d
	}
	return "ok"
}

// top-level tree: customs are dumped as themselves, registered structs as the struct behind the pointer
func dumpTop(v reflect.Value) string {
	if v.Type().Implements(encoderT) {
		return dump(v)
	}
	return dump(v.Elem())
}

func newGen(seed uint64) (*gen, []target, []target) {
	all, customs, eo := targets()
	return &gen{r: rng.New(seed), eo: eo, vtypes: ua.VerifVariantTypes()}, all, customs
}

func values(seed uint64, n int, emptyEO bool) {
	g, all, customs := newGen(seed)
	g.emptyEO = emptyEO
	w := bufio.NewWriter(os.Stdout)
	defer w.Flush()
	enc := json.NewEncoder(w)
	emit := func(t target, v reflect.Value) {
		o := obs{"k": "rt", "ty": t.Name, "val": dumpTop(v)}
		b, cls := safeEncode(v.Interface())
		o["enc"] = cls
		if cls == "ok" {
			o["hex"] = hex.EncodeToString(b)
			d, m, dcls := safeDecode(t.T, b)
			o["dec"] = dcls
			if dcls == "ok" {
				o["dval"] = dumpTop(d)
				o["consumed"] = m
				// ua.DecodeService on (type id ++ encoding) must be: the type id, the registered type, ua.Decode of the body
				// (the model's decode_service of theorem C01_service is exactly that composition)
				if sid := ua.ServiceTypeID(v.Interface()); sid != 0 {
					o["svc"] = serviceTie(sid, b, o["dval"].(string))
				}
				b2, cls2 := safeEncode(d.Interface())
				o["re"] = cls2
				// the decoded value must be a fixed point: encode it again, decode, compare the trees
				if cls2 == "ok" {
					d2, m2, cls3 := safeDecode(t.T, b2)
					o["resame"] = cls3 == "ok" && m2 == len(b2) && dumpTop(d2) == o["dval"]
				} else {
					o["resame"] = false
				}
			}
		}
		enc.Encode(o)
	}
	for ti, t := range all {
		k := n
		if ti < len(customs) {
			k = n * 12
		}
		for i := 0; i < k; i++ {
			depth := 2
			if i%3 == 0 {
				depth = 1
			}
			emit(t, g.value(t.T, depth))
		}
	}
	// arrays of minimal-size elements of every builtin type, (a) as the last thing in the buffer (a bare Variant),
	// (b) followed by other fields (inside a DataValue with status and timestamps), (c) two of them in a ReadResponse
	// late registration: an id that was looked up while it was not registered and is registered afterwards (a client
	// registering vendor types after it has seen them) must decode like any other registered type
	lateRegistration(enc, emit, customs[6])
	// rank 3 / rank 4 arrays with pairwise different elements and trailing dimensions > 1 (strides of split / flattening)
	for i, m := range g.distinctArrays() {
		emit(customs[0], reflect.ValueOf(m))
		if i%3 == 0 {
			emit(customs[1], reflect.ValueOf(&ua.DataValue{EncodingMask: 3, Value: m, Status: ua.StatusCode(7)}))
		}
	}
	mins := g.minimalVariants()
	var rr target
	for _, t := range all {
		if t.Name == "ty_ReadResponse" {
			rr = t
		}
	}
	for i, m := range mins {
		emit(customs[0], reflect.ValueOf(m))
		emit(customs[1], reflect.ValueOf(&ua.DataValue{EncodingMask: 0x3f, Value: m, Status: ua.StatusCode(0x80000000),
			SourceTimestamp: time.Unix(1700000000, 100).UTC(), SourcePicoseconds: 7, ServerTimestamp: time.Unix(1700000001, 0).UTC(), ServerPicoseconds: 9}))
		if rr.T != nil && i%7 == 3 {
			emit(rr, reflect.ValueOf(&ua.ReadResponse{ResponseHeader: &ua.ResponseHeader{ServiceDiagnostics: &ua.DiagnosticInfo{}, AdditionalHeader: ua.NewExtensionObject(nil)},
				Results: []*ua.DataValue{{EncodingMask: 1, Value: m}, {EncodingMask: 1, Value: mins[(i+1)%len(mins)]}}}))
		}
	}
}

// ---------------------------------------------------------------------------------------------- hostile stream

type hcase struct {
	I   int    `json:"i"`
	Ty  string `json:"ty"`
	Hex string `json:"hex"`
	Src string `json:"src"`
}

func le32(x uint32) []byte { return []byte{byte(x), byte(x >> 8), byte(x >> 16), byte(x >> 24)} }

func rep(b []byte, k int) []byte {
	var out []byte
	for i := 0; i < k; i++ {
		out = append(out, b...)
	}
	return out
}

func cat(bs ...[]byte) []byte {
	var out []byte
	for _, b := range bs {
		out = append(out, b...)
	}
	return out
}

func handcrafted() []hcase {
	V, DI, DV, EO, NI, RR := "(TCustom CVariant)", "(TCustom CDiagInfo)", "(TCustom CDataValue)", "(TCustom CExtObj)", "(TCustom CNodeID)", "ty_ReadRequest"
	var cs []hcase
	add := func(ty, src string, b []byte) { cs = append(cs, hcase{Ty: ty, Hex: hex.EncodeToString(b), Src: src}) }
	add(V, "row1 array length -2", []byte{0x86, 0xfe, 0xff, 0xff, 0xff})
	add(V, "array length min int32", []byte{0x86, 0, 0, 0, 0x80})
	add(V, "row2 dims 65536x65536x5", cat([]byte{0xc6}, le32(0), le32(3), le32(65536), le32(65536), le32(5)))
	add(V, "row2 dims 65536x65536", cat([]byte{0xc6}, le32(0), le32(2), le32(65536), le32(65536)))
	add(V, "dims 641x6700417 product 2^32+1", cat([]byte{0xc6}, le32(1), le32(7), le32(2), le32(641), le32(6700417)))
	add(V, "dims 3x1431655765 product 2^32-1, null array", cat([]byte{0xc6}, le32(0xffffffff), le32(2), le32(3), le32(1431655765)))
	// dimension vectors whose product wraps modulo 2^64 to the array length (only the per-step MaxInt32 guard rejects them)
	add(V, "dims 16x2^30x2^30 product 2^64 = 0 mod 2^64, empty array", cat([]byte{0xc6}, le32(0), le32(3), le32(16), le32(1<<30), le32(1<<30)))
	add(V, "dims 3x5x17x257x641x65537x6700417 product 2^64-1 = -1 mod 2^64, null array",
		cat([]byte{0xc6}, le32(0xffffffff), le32(7), le32(3), le32(5), le32(17), le32(257), le32(641), le32(65537), le32(6700417)))
	add(V, "dims 11806113x409891x7623851 product 2*2^64+1, one element",
		cat([]byte{0xc6}, le32(1), le32(7), le32(3), le32(11806113), le32(409891), le32(7623851)))
	add(V, "dims 968973220x49477x384773 product 2^64+4, four elements",
		cat([]byte{0xc6}, le32(4), le32(1), le32(2), le32(3), le32(4), le32(3), le32(968973220), le32(49477), le32(384773)))
	add(V, "dims 2^31-1 x 2^31-1 x 2^31-1 x 8 (no wrap to the length), two elements",
		cat([]byte{0xc6}, le32(2), le32(1), le32(2), le32(4), le32(0x7fffffff), le32(0x7fffffff), le32(0x7fffffff), le32(8)))
	// a length prefix far larger than what follows, at every place that goes through Buffer.ReadBytes / ReadString: the
	// decoder must not allocate the announced length before it has compared it with the remaining bytes
	for _, n := range []uint32{0x7ffffffe, 0xfffffffe, 0x40000000, 0x00ffffff} {
		tag := fmt.Sprintf("announced length %#x, no data: ", n)
		add(NI, tag+"NodeID ByteString", cat([]byte{5, 0, 0}, le32(n)))
		add(NI, tag+"NodeID String", cat([]byte{3, 0, 0}, le32(n)))
		add(V, tag+"Variant ByteString", cat([]byte{0x0f}, le32(n)))
		add(V, tag+"Variant String", cat([]byte{0x0c}, le32(n)))
		add(V, tag+"Variant XMLElement", cat([]byte{0x10}, le32(n)))
		add(V, tag+"Variant NodeID ByteString", cat([]byte{0x11, 5, 0, 0}, le32(n)))
		add(V, tag+"Variant array of ByteString, second element", cat([]byte{0x8f}, le32(2), le32(1), []byte{7}, le32(n)))
		add("(TCustom CExpNodeID)", tag+"ExpandedNodeID namespace uri", cat([]byte{0x80, 0}, le32(n)))
		add("(TCustom CExpNodeID)", tag+"ExpandedNodeID ByteString id", cat([]byte{0x45, 0, 0}, le32(n)))
		add("(TCustom CLocText)", tag+"LocalizedText text", cat([]byte{2}, le32(n)))
		add(DI, tag+"DiagnosticInfo additional info", cat([]byte{0x10}, le32(n)))
		add(EO, tag+"ExtensionObject type id ByteString", cat([]byte{5, 0, 0}, le32(n)))
		add(RR, tag+"ReadRequest authentication token", cat([]byte{5, 0, 0}, le32(n)))
	}
	// every encoding mask of DataValue / DiagnosticInfo / LocalizedText, canonical or not, with exactly the fields the
	// DECODER reads for it (built by hand, not by Encode), alone and inside a ReadResponse followed by more fields
	dv := func(m byte) []byte {
		b := []byte{m}
		if m&1 != 0 {
			b = append(b, 0x06, 0x2a, 0, 0, 0) // Variant Int32 42
		}
		if m&2 != 0 {
			b = append(b, le32(0x80350000)...)
		}
		if m&4 != 0 {
			b = append(b, 0x00, 0x40, 0x6f, 0x2b, 0x5a, 0x4d, 0xda, 0x01)
		}
		if m&0x10 != 0 {
			b = append(b, 0x39, 0x30)
		}
		if m&8 != 0 {
			b = append(b, 0x00, 0x80, 0x07, 0x8c, 0x5a, 0x4d, 0xda, 0x01)
		}
		if m&0x20 != 0 {
			b = append(b, 0x31, 0xd4)
		}
		return b
	}
	di := func(m byte) []byte {
		b := []byte{m}
		for _, bit := range []byte{1, 2, 8, 4} {
			if m&bit != 0 {
				b = append(b, le32(uint32(bit)*257)...)
			}
		}
		if m&0x10 != 0 {
			b = append(b, cat(le32(2), []byte{0x68, 0x69})...)
		}
		if m&0x20 != 0 {
			b = append(b, le32(0x80010000)...)
		}
		if m&0x40 != 0 {
			b = append(b, 0x01, 5, 0, 0, 0) // inner: symbolic id 5
		}
		return b
	}
	lt := func(m byte) []byte {
		b := []byte{m}
		if m&1 != 0 {
			b = append(b, cat(le32(2), []byte{0x65, 0x6e})...)
		}
		if m&2 != 0 {
			b = append(b, cat(le32(3), []byte{0x61, 0x62, 0x63})...)
		}
		return b
	}
	rhdr := cat(rep([]byte{0}, 8), le32(1), le32(0), []byte{0}, le32(0xffffffff), []byte{0, 0, 0})
	for m := 0; m < 256; m++ {
		add(DV, fmt.Sprintf("DataValue mask %#02x", m), dv(byte(m)))
		add(DI, fmt.Sprintf("DiagnosticInfo mask %#02x", m), di(byte(m)))
		if m < 4 || m%5 == 0 {
			add("(TCustom CLocText)", fmt.Sprintf("LocalizedText mask %#02x", m), lt(byte(m)))
		}
		if m%4 == 2 || m == 0x10 || m == 0x20 || m == 0x30 || m == 0x12 {
			add("ty_ReadResponse", fmt.Sprintf("ReadResponse with DataValue mask %#02x, DiagnosticInfo mask %#02x", m, (m*7)&0xff),
				cat(rhdr, le32(2), dv(byte(m)), dv(byte(m^0x30)), le32(1), di(byte(m*7))))
			add(V, fmt.Sprintf("Variant array of DataValue mask %#02x followed by dimensions", m),
				cat([]byte{0xd7}, le32(2), dv(byte(m)), dv(byte(m)), le32(1), le32(2)))
		}
	}
	add(V, "row5 mask 0x46", []byte{0x46, 7, 0, 0, 0})
	add(V, "mask 0x46 with trailing bytes", []byte{0x46, 7, 0, 0, 0, 1, 2, 3, 4, 5})
	add(V, "dimension count 2^31-1", cat([]byte{0xc1}, le32(0), le32(0x7fffffff)))
	add(V, "dimension count -1", cat([]byte{0xc1}, le32(0), le32(0xffffffff)))
	add(V, "zero dimensions 2x0", cat([]byte{0xc6}, le32(0), le32(2), le32(2), le32(0)))
	add(V, "dims bit, zero dims, null array", cat([]byte{0xc6}, le32(0xffffffff), le32(0)))
	add(V, "2x3 int32", cat([]byte{0xc6}, le32(6), le32(1), le32(2), le32(3), le32(4), le32(5), le32(6), le32(2), le32(2), le32(3)))
	add(V, "2x3 int32 unbalanced", cat([]byte{0xc6}, le32(6), le32(1), le32(2), le32(3), le32(4), le32(5), le32(6), le32(2), le32(2), le32(2)))
	add(V, "1-dim with dims [3]", cat([]byte{0xc3}, le32(3), []byte{1, 2, 3}, le32(1), le32(3)))
	add(V, "DateTime out of the int64 ns range", cat([]byte{0x0d}, rep([]byte{0xff}, 8)))
	add(V, "DateTime 1", cat([]byte{0x0d}, []byte{1, 0, 0, 0, 0, 0, 0, 0}))
	add(V, "ByteString array", cat([]byte{0x8f}, le32(2), le32(2), []byte{1, 2}, le32(0xffffffff)))
	for tid := 0; tid < 64; tid++ {
		add(V, fmt.Sprintf("array of 65535 x type %d, no data", tid), cat([]byte{byte(0x80 | tid)}, le32(65535)))
		add(V, fmt.Sprintf("scalar type %d, no data", tid), []byte{byte(tid)})
		add(V, fmt.Sprintf("scalar type %d, zeros", tid), cat([]byte{byte(tid)}, rep([]byte{0}, 24)))
		add(V, fmt.Sprintf("array of 2 x type %d, zeros", tid), cat([]byte{byte(0x80 | tid)}, le32(2), rep([]byte{0}, 48)))
	}
	// the limits: ua.MaxNestingLevel (100 values inside each other), array length <= remaining bytes, MaxVariantArrayDimensions (32)
	for _, k := range []int{98, 99, 100, 101} {
		add(V, fmt.Sprintf("limit: Variant chain depth %d", k), cat(rep([]byte{0x18}, k), []byte{1, 1}))
		add(DI, fmt.Sprintf("limit: DiagnosticInfo chain depth %d", k), cat(rep([]byte{0x40}, k), []byte{0}))
		add(DV, fmt.Sprintf("limit: DataValue/Variant chain depth %d", k), cat(rep([]byte{0x01, 0x17}, k/2), []byte{0}))
		// Variant -> ExtensionObject(XML body is a leaf; here: unknown type, body skipped) / Variant -> DataValue -> Variant ...
		add(V, fmt.Sprintf("limit: Variant/DataValue/DiagnosticInfo mixed chain %d", k),
			cat(rep([]byte{0x17, 0x01}, k/2), []byte{0x19}, rep([]byte{0x40}, k%2+1), []byte{0}))
	}
	// nesting through registered structures: Variant{ExtensionObject{KeyValuePair{Key, Value: Variant{...}}}}: two levels a round
	kvID, _ := safeEncode(ua.ExtensionObjectTypeID(&ua.KeyValuePair{}))
	round := func(inner []byte) []byte {
		b := cat([]byte{0, 0}, le32(0xffffffff), inner) // QualifiedName{0, ""}, Value
		return cat([]byte{0x16}, kvID, []byte{1}, le32(uint32(len(b))), b)
	}
	chain := []byte{0x01, 0x01}
	for k := 1; k <= 51; k++ {
		chain = round(chain)
		if k <= 3 || k >= 28 {
			add(V, fmt.Sprintf("limit: %d rounds of Variant/ExtensionObject/KeyValuePair", k), chain)
			add(DV, fmt.Sprintf("limit: DataValue with %d rounds of Variant/ExtensionObject/KeyValuePair", k), cat([]byte{0x03}, chain, le32(0x80000000)))
		}
	}
	for _, n := range []int{31, 32, 33, 64} {
		add(V, fmt.Sprintf("limit: %d dimensions of 1", n), cat([]byte{0xc6}, le32(1), le32(9), le32(uint32(n)), rep(le32(1), n)))
	}
	for _, n := range []int{1, 2, 7} {
		add(V, fmt.Sprintf("limit: %d bytes announce %d elements (Byte)", n, n), cat([]byte{0x83}, le32(uint32(n)), rep([]byte{5}, n)))
		add(V, fmt.Sprintf("limit: %d bytes announce %d elements (Byte)", n, n+1), cat([]byte{0x83}, le32(uint32(n+1)), rep([]byte{5}, n)))
		add(V, fmt.Sprintf("limit: %d null Variants announce %d followed by dimensions", n, n), cat([]byte{0xd8}, le32(uint32(n)), rep([]byte{0}, n), le32(1), le32(uint32(n))))
	}
	add(V, "6000 dimensions of 1", cat([]byte{0xc6}, le32(1), le32(9), le32(6000), rep(le32(1), 6000)))
	add(V, "array length 65536", cat([]byte{0x86}, le32(65536)))
	for _, k := range []int{1, 10, 100, 1000} {
		add(V, fmt.Sprintf("Variant chain depth %d", k), cat(rep([]byte{0x18}, k), []byte{1, 1}))
		add(DI, fmt.Sprintf("DiagnosticInfo chain depth %d", k), cat(rep([]byte{0x40}, k), []byte{0}))
		add(DV, fmt.Sprintf("DataValue/Variant chain depth %d", k), cat(rep([]byte{0x01, 0x17}, k), []byte{0}))
		if k <= 100 {
			add(V, fmt.Sprintf("nested arrays claiming 65535 elements x %d", k), rep(cat([]byte{0x98}, le32(65535)), k))
		}
		add(V, fmt.Sprintf("%d dimensions of 1", k), cat([]byte{0xc6}, le32(1), le32(9), le32(uint32(k)), rep(le32(1), k)))
	}
	add(EO, "row4 unknown type with body", []byte{1, 0, 0x39, 0x30, 1, 3, 0, 0, 0, 9, 9, 9})
	add(EO, "binary mask, length 0", []byte{1, 0, 0x39, 0x30, 1, 0, 0, 0, 0})
	add(EO, "binary mask, length -1", []byte{1, 0, 0x39, 0x30, 1, 0xff, 0xff, 0xff, 0xff})
	add(EO, "mask 3", []byte{1, 0, 0x39, 0x30, 3, 1, 0, 0, 0, 9})
	add(EO, "xml", []byte{0, 7, 2, 5, 0, 0, 0, 1, 0, 0, 0, 0x41})
	add(EO, "xml with trailing body bytes", []byte{0, 7, 2, 7, 0, 0, 0, 1, 0, 0, 0, 0x41, 9, 9})
	add(EO, "xml empty body string", []byte{0, 7, 2, 4, 0, 0, 0, 0xff, 0xff, 0xff, 0xff})
	add(EO, "body length 2^32-2", []byte{0, 7, 1, 0xfe, 0xff, 0xff, 0xff})
	// Argument (i=298): Name string, DataType NodeID, ValueRank int32, ArrayDimensions []uint32, Description LocalizedText
	arg := cat(le32(0xffffffff), []byte{0, 0}, le32(0), le32(0xffffffff), []byte{0})
	add(EO, "Argument body", cat([]byte{1, 0, 0x2a, 0x01, 1}, le32(uint32(len(arg))), arg))
	add(EO, "Argument body with trailing bytes", cat([]byte{1, 0, 0x2a, 0x01, 1}, le32(uint32(len(arg)+3)), arg, []byte{7, 7, 7}))
	add(EO, "Argument body truncated", cat([]byte{1, 0, 0x2a, 0x01, 1}, le32(uint32(len(arg)-2)), arg))
	add(EO, "Argument via numeric id", cat([]byte{2, 0, 0, 0x2a, 0x01, 0, 0, 1}, le32(uint32(len(arg))), arg))
	add(EO, "guid type id", cat([]byte{4, 0, 0}, rep([]byte{1}, 16), []byte{1}, le32(1), []byte{9}))
	// mask bits set while the governed field has its default value (an encoder driven by content instead of the mask breaks here)
	LT, EN := "(TCustom CLocText)", "(TCustom CExpNodeID)"
	add(LT, "mask 3, null strings", cat([]byte{3}, le32(0xffffffff), le32(0xffffffff)))
	add(LT, "mask 3, empty strings", cat([]byte{3}, le32(0), le32(0)))
	add(LT, "mask 2, null text", cat([]byte{2}, le32(0xffffffff)))
	add(LT, "mask 1, null locale", cat([]byte{1}, le32(0xffffffff)))
	add(LT, "mask 0xff", cat([]byte{0xff}, le32(1), []byte{0x61}, le32(0)))
	add(DI, "mask 0x3f, default fields", cat([]byte{0x3f}, rep([]byte{0}, 16), le32(0xffffffff), le32(0)))
	add(DI, "mask 0x7f, inner empty", cat([]byte{0x7f}, rep([]byte{0}, 16), le32(0), le32(0), []byte{0}))
	add(DV, "mask 0x3f, default fields", cat([]byte{0x3f, 0}, rep([]byte{0}, 4+8+2+8+2)))
	add(DV, "mask 0xfe, no value", cat([]byte{0xfe}, rep([]byte{0}, 4+8+2+8+2)))
	add(EN, "uri and index flags, null uri, index 0", cat([]byte{0xc0, 5}, le32(0xffffffff), le32(0)))
	add(EN, "uri flag, empty uri", cat([]byte{0x81, 0, 5, 0}, le32(0)))
	add(NI, "string id null", cat([]byte{3, 0, 0}, le32(0xffffffff)))
	add(NI, "string id empty", cat([]byte{3, 0, 0}, le32(0)))
	add(NI, "bytestring id empty", cat([]byte{5, 1, 0}, le32(0)))
	add(NI, "guid short", []byte{4, 0, 0, 1, 2, 3})
	for typ := 0; typ < 16; typ++ {
		add(NI, fmt.Sprintf("node id type %d zeros", typ), cat([]byte{byte(typ)}, rep([]byte{0}, 20)))
		add(NI, fmt.Sprintf("node id type %d flags", typ), cat([]byte{byte(0xc0 | typ)}, rep([]byte{1}, 20)))
	}
	hdr := cat([]byte{0, 0}, rep([]byte{0}, 8), le32(0), le32(0), le32(0xffffffff), le32(0), []byte{0, 0, 0})
	add(RR, "row3 array prefix 0x03ffffff", cat(hdr, rep([]byte{0}, 8), le32(0), le32(0x03ffffff)))
	add(RR, "array prefix 0x7fffffff", cat(hdr, rep([]byte{0}, 8), le32(0), le32(0x7fffffff)))
	add(RR, "array prefix 0x80000000", cat(hdr, rep([]byte{0}, 8), le32(0), le32(0x80000000)))
	add(RR, "array prefix null", cat(hdr, rep([]byte{0}, 8), le32(0), le32(0xffffffff)))
	add(RR, "empty", nil)
	return cs
}

var specials = []uint32{0xfffffffe, 0xffffffff, 0, 1, 2, 0x7fffffff, 0x80000000, 65535, 65536, 0x03ffffff, 0x00010000, 4}

func hostileCases(seed uint64, n int) []hcase {
	g, all, customs := newGen(seed)
	cs := handcrafted()
	for i := 0; i < n; i++ {
		var t target
		if g.r.Intn(2) == 0 {
			t = customs[g.r.Intn(len(customs))]
		} else {
			t = all[g.r.Intn(len(all))]
		}
		add := func(src string, b []byte) { cs = append(cs, hcase{Ty: t.Name, Hex: hex.EncodeToString(b), Src: src}) }
		if g.r.Intn(8) == 0 {
			add("random", g.r.Bytes(g.r.Intn(40)))
			continue
		}
		b, cls := safeEncode(g.value(t.T, 2).Interface())
		if cls != "ok" {
			continue
		}
		switch g.r.Intn(7) {
		case 0:
			add("valid", b)
		case 1:
			if len(b) > 0 {
				add("truncated", b[:g.r.Intn(len(b))])
			}
		case 2:
			if len(b) > 0 {
				c := append([]byte{}, b...)
				c[g.r.Intn(len(c))] ^= byte(1 << g.r.Intn(8))
				add("bitflip", c)
			}
		case 3:
			if len(b) > 0 {
				c := append([]byte{}, b...)
				c[g.r.Intn(len(c))] = byte(g.r.Intn(256))
				add("byte", c)
			}
		case 4, 5:
			if len(b) >= 4 {
				c := append([]byte{}, b...)
				copy(c[g.r.Intn(len(c)-3):], le32(specials[g.r.Intn(len(specials))]))
				add("length", c)
			}
		default:
			add("trailing", append(append([]byte{}, b...), g.r.Bytes(g.r.Range(1, 8))...))
		}
	}
	for i := range cs {
		cs[i].I = i
	}
	return cs
}

func targetByName() map[string]reflect.Type {
	all, _, _ := targets()
	m := map[string]reflect.Type{}
	for _, t := range all {
		m[t.Name] = t.T
	}
	return m
}

// child: one case per stdin line, one observation per stdout line
func child() {
	byName := targetByName()
	in := bufio.NewReaderSize(os.Stdin, 1<<26)
	w := bufio.NewWriterSize(os.Stdout, 1<<20)
	enc := json.NewEncoder(w)
	var ms runtime.MemStats
	for {
		line, err := in.ReadBytes('\n')
		if len(line) > 0 {
			var c hcase
			if json.Unmarshal(line, &c) != nil {
				break
			}
			b, _ := hex.DecodeString(c.Hex)
			t := byName[c.Ty]
			o := obs{"k": "dec", "i": c.I, "ty": c.Ty, "src": c.Src, "len": len(b)}
			if len(b) <= 4096 {
				o["hex"] = c.Hex
			}
			runtime.ReadMemStats(&ms)
			a0 := ms.TotalAlloc
			t0 := time.Now()
			v, n, cls := safeDecode(t, b)
			o["ms"] = time.Since(t0).Milliseconds()
			runtime.ReadMemStats(&ms)
			o["alloc"] = ms.TotalAlloc - a0
			o["out"] = cls
			if cls == "ok" {
				d1 := dumpTop(v)
				o["consumed"] = n
				if len(d1) < 1<<20 {
					o["val"] = d1
				}
				b2, cls2 := safeEncode(v.Interface())
				o["re"] = cls2
				if cls2 == "ok" {
					if len(b2) <= 4096 {
						o["hex2"] = hex.EncodeToString(b2)
					}
					v2, n2, cls3 := safeDecode(t, b2)
					o["out2"] = cls3
					if cls3 == "ok" {
						o["consumed2"] = n2
						o["len2"] = len(b2)
						o["same"] = dumpTop(v2) == d1
					}
				}
			}
			enc.Encode(o)
			w.Flush()
		}
		if err != nil {
			break
		}
	}
}

// run the cases through child processes; a case on which the child dies or times out is reported as killed
func runChildren(cs []hcase, memKB int, timeout time.Duration) {
	self, _ := os.Executable()
	out := json.NewEncoder(os.Stdout)
	i := 0
	for i < len(cs) {
		cmd := exec.Command("/bin/sh", "-c", fmt.Sprintf("ulimit -v %d; exec %s child", memKB, self))
		stdin, _ := cmd.StdinPipe()
		stdout, _ := cmd.StdoutPipe()
		cmd.Stderr = io.Discard
		if err := cmd.Start(); err != nil {
			fmt.Fprintln(os.Stderr, "cannot start child:", err)
			os.Exit(2)
		}
		rd := bufio.NewReaderSize(stdout, 1<<26)
		lines := make(chan []byte)
		go func() {
			for {
				l, err := rd.ReadBytes('\n')
				if len(l) > 0 {
					lines <- l
				}
				if err != nil {
					close(lines)
					return
				}
			}
		}()
		enc := json.NewEncoder(stdin)
		dead := false
		for i < len(cs) && !dead {
			t0 := time.Now()
			if enc.Encode(cs[i]) != nil {
				dead = true
			}
			if !dead {
				select {
				case l, ok := <-lines:
					if !ok {
						dead = true
					} else {
						os.Stdout.Write(l)
						i++
						continue
					}
				case <-time.After(timeout):
					dead = true
				}
			}
			cmd.Process.Kill()
			o := obs{"k": "dec", "i": cs[i].I, "ty": cs[i].Ty, "src": cs[i].Src, "len": len(cs[i].Hex) / 2, "out": "killed", "ms": time.Since(t0).Milliseconds()}
			if len(cs[i].Hex) <= 8192 {
				o["hex"] = cs[i].Hex
			}
			out.Encode(o)
			i++
		}
		stdin.Close()
		cmd.Process.Kill()
		cmd.Wait()
	}
}

func main() {
	seed := flag.Uint64("seed", 1, "PRNG seed")
	n := flag.Int("n", 5, "cases (per type for values, total generated for hostile)")
	mem := flag.Int("memkb", 2<<20, "address space limit of the child in KiB")
	tmo := flag.Duration("timeout", 10*time.Second, "per-case timeout of the child")
	deep := flag.Int("deep", 0, "hostile: add Variant/DiagnosticInfo chains of this depth (not sent to the model)")
	deepAll := flag.Bool("deep-all", false, "hostile: with -deep, also the DiagnosticInfo chain")
	emptyEO := flag.Bool("empty-eo", false, "values: also use registered empty structs as extension object bodies")
	casesFile := flag.String("cases", "", "hostile: read cases (JSON lines ty/hex/src) from this file instead of generating")
	flag.Parse()
	switch flag.Arg(0) {
	case "values":
		values(*seed, *n, *emptyEO)
	case "hostile":
		var cs []hcase
		if *casesFile != "" {
			f, err := os.Open(*casesFile)
			if err != nil {
				fmt.Fprintln(os.Stderr, err)
				os.Exit(2)
			}
			sc := bufio.NewScanner(f)
			sc.Buffer(make([]byte, 1<<26), 1<<26)
			for sc.Scan() {
				var c hcase
				if json.Unmarshal(sc.Bytes(), &c) == nil && c.Ty != "" {
					c.I = len(cs)
					cs = append(cs, c)
				}
			}
		} else {
			cs = hostileCases(*seed, *n)
		}
		if *deep > 0 {
			cs = append(cs, hcase{I: len(cs), Ty: "(TCustom CVariant)", Src: fmt.Sprintf("deep Variant chain %d", *deep), Hex: hex.EncodeToString(cat(rep([]byte{0x18}, *deep), []byte{1, 1}))})
			if *deepAll {
				cs = append(cs, hcase{I: len(cs), Ty: "(TCustom CDiagInfo)", Src: fmt.Sprintf("deep DiagnosticInfo chain %d", *deep), Hex: hex.EncodeToString(cat(rep([]byte{0x40}, *deep), []byte{0}))})
			}
		}
		runChildren(cs, *mem, *tmo)
	case "child":
		child()
	default:
		fmt.Fprintln(os.Stderr, "usage: codecharness [-seed S] [-n K] values|hostile")
		os.Exit(2)
	}
}
