package main

// Values generated from type descriptors by reflection (everything drawn from the single seeded PRNG).

import (
	"math"
	"reflect"
	"time"

	"github.com/gopcua/opcua/ua"

	"verifharness/internal/rng"
)

type gen struct {
	r       *rng.R
	eo      []ua.VerifRegEntry
	vtypes  map[ua.TypeID]reflect.Type
	emptyEO bool // allow registered empty structs as extension object bodies (known finding C01 extobj-empty-struct)
}

var boundaryU = []uint64{0, 1, 2, 0x7f, 0x80, 0xff, 0x100, 0x7fff, 0x8000, 0xffff, 0x10000, 0x7fffffff, 0x80000000, 0xffffffff,
	0x100000000, 0x7fffffffffffffff, 0x8000000000000000, 0xffffffffffffffff}

func (g *gen) u64() uint64 {
	switch g.r.Intn(3) {
	case 0:
		return boundaryU[g.r.Intn(len(boundaryU))]
	case 1:
		return uint64(g.r.Intn(300))
	}
	return g.r.U64()
}

func (g *gen) str() string {
	switch g.r.Intn(5) {
	case 0:
		return ""
	case 1:
		return "a"
	case 2:
		return string(g.r.Bytes(g.r.Range(1, 6))) // arbitrary bytes, Go strings need not be UTF-8
	}
	const al = "abcXYZ019 ;=/é"
	n := g.r.Range(1, 10)
	b := make([]byte, 0, n)
	for i := 0; i < n; i++ {
		b = append(b, al[g.r.Intn(len(al))])
	}
	return string(b)
}

func (g *gen) bytes() []byte {
	switch g.r.Intn(4) {
	case 0:
		return nil
	case 1:
		return []byte{}
	}
	return g.r.Bytes(g.r.Range(1, 9))
}

func (g *gen) time() time.Time {
	switch g.r.Intn(9) {
	case 6: // outside the int64-nanosecond range: "does not expire", the first tick after 1601, before 1677
		return time.Date(9999, 12, 31, 23, 59, 59, g.r.Intn(1000000000), time.UTC)
	case 7:
		return time.Date(1601, 1, 1, 0, 0, 0, 100+g.r.Intn(1000), time.UTC)
	case 8:
		return time.Date(g.r.Range(1602, 1676), time.Month(g.r.Range(1, 12)), g.r.Range(1, 28), g.r.Intn(24), g.r.Intn(60), g.r.Intn(60), g.r.Intn(1000000000), time.UTC)
	case 0:
		return time.Time{}
	case 1:
		return time.Unix(0, 0).UTC()
	case 2:
		return time.Unix(0, math.MaxInt64).UTC()
	case 3:
		return time.Unix(0, math.MinInt64).UTC()
	case 4:
		return time.Unix(int64(g.r.Intn(2000000000)), int64(g.r.Intn(1000000000))).UTC()
	}
	return time.Unix(0, int64(g.r.U64())).UTC()
}

func (g *gen) f64() float64 {
	switch g.r.Intn(8) {
	case 0:
		return math.NaN()
	case 1:
		return math.Inf(1 - 2*g.r.Intn(2))
	case 2:
		return 0
	case 3:
		return math.Copysign(0, -1)
	case 4:
		return math.Float64frombits(0x7ff0000000000001 | g.r.U64()&0x000fffffffffffff) // NaN with payload
	}
	return math.Float64frombits(g.r.U64())
}

func (g *gen) f32() float32 {
	switch g.r.Intn(8) {
	case 0:
		return float32(math.NaN())
	case 1:
		return float32(math.Inf(1 - 2*g.r.Intn(2)))
	case 2:
		return 0
	case 4:
		return math.Float32frombits(0x7fc00001 | uint32(g.r.U64())&0x003fffff) // quiet NaN with payload
	}
	return math.Float32frombits(uint32(g.r.U64()))
}

func (g *gen) guid() *ua.GUID {
	return &ua.GUID{Data1: uint32(g.u64()), Data2: uint16(g.u64()), Data3: uint16(g.u64()), Data4: g.r.Bytes(8)}
}

// nodeID with the given flag bits (0x80 namespace uri, 0x40 server index; only meaningful inside an ExpandedNodeID)
func (g *gen) nodeID(flags byte) *ua.NodeID {
	switch g.r.Intn(6) {
	case 0:
		return ua.VerifMakeNodeID(0|flags, 0, uint32(g.u64()&0xff), nil, nil)
	case 1:
		return ua.VerifMakeNodeID(1|flags, uint16(g.u64()&0xff), uint32(g.u64()&0xffff), nil, nil)
	case 2:
		return ua.VerifMakeNodeID(2|flags, uint16(g.u64()), uint32(g.u64()), nil, nil)
	case 3:
		return ua.VerifMakeNodeID(3|flags, uint16(g.u64()), 0, g.bytes(), nil)
	case 4:
		return ua.VerifMakeNodeID(4|flags, uint16(g.u64()), 0, nil, g.guid())
	}
	return ua.VerifMakeNodeID(5|flags, uint16(g.u64()), 0, g.bytes(), nil)
}

func (g *gen) expNodeID() *ua.ExpandedNodeID {
	flags := byte(g.r.Pick(0, 0, 0x40, 0x80, 0xc0))
	e := &ua.ExpandedNodeID{NodeID: g.nodeID(flags)}
	if flags&0x80 != 0 {
		e.NamespaceURI = g.str()
	}
	if flags&0x40 != 0 {
		e.ServerIndex = uint32(g.u64())
	}
	return e
}

func (g *gen) locText() *ua.LocalizedText {
	l := &ua.LocalizedText{EncodingMask: byte(g.r.Intn(4))}
	if g.r.Intn(8) == 0 {
		l.EncodingMask |= byte(g.r.Intn(64)) << 2 // unused bits are preserved
	}
	if l.EncodingMask&1 != 0 {
		l.Locale = g.str()
	}
	if l.EncodingMask&2 != 0 {
		l.Text = g.str()
	}
	return l
}

func (g *gen) diag(depth int) *ua.DiagnosticInfo {
	d := &ua.DiagnosticInfo{EncodingMask: byte(g.r.Intn(128))}
	if g.r.Intn(8) == 0 {
		d.EncodingMask |= 0x80
	}
	if depth <= 0 {
		d.EncodingMask &^= 0x40
	}
	m := d.EncodingMask
	if m&1 != 0 {
		d.SymbolicID = int32(g.u64())
	}
	if m&2 != 0 {
		d.NamespaceURI = int32(g.u64())
	}
	if m&8 != 0 {
		d.Locale = int32(g.u64())
	}
	if m&4 != 0 {
		d.LocalizedText = int32(g.u64())
	}
	if m&0x10 != 0 {
		d.AdditionalInfo = g.str()
	}
	if m&0x20 != 0 {
		d.InnerStatusCode = ua.StatusCode(g.u64())
	}
	if m&0x40 != 0 {
		d.InnerDiagnosticInfo = g.diag(depth - 1)
	}
	return d
}

func (g *gen) dataValue(depth int) *ua.DataValue {
	d := &ua.DataValue{EncodingMask: byte(g.r.Intn(64))}
	if g.r.Intn(8) == 0 {
		d.EncodingMask |= byte(g.r.Intn(4)) << 6
	}
	m := d.EncodingMask
	if m&1 != 0 {
		d.Value = g.variant(depth - 1)
	} else if g.r.Bool() {
		d.Value = &ua.Variant{}
	}
	if m&2 != 0 {
		d.Status = ua.StatusCode(g.u64())
	}
	if m&4 != 0 {
		d.SourceTimestamp = g.time()
	}
	if m&0x10 != 0 {
		d.SourcePicoseconds = uint16(g.u64())
	}
	if m&8 != 0 {
		d.ServerTimestamp = g.time()
	}
	if m&0x20 != 0 {
		d.ServerPicoseconds = uint16(g.u64())
	}
	return d
}

func (g *gen) extObj(depth int) *ua.ExtensionObject {
	switch g.r.Intn(6) {
	case 0:
		return &ua.ExtensionObject{TypeID: g.expNodeID(), EncodingMask: 0}
	case 1:
		x := ua.XMLElement(g.str())
		return &ua.ExtensionObject{TypeID: g.expNodeID(), EncodingMask: ua.ExtensionObjectXML, Value: &x}
	}
	for {
		e := g.eo[g.r.Intn(len(g.eo))]
		if e.Type.Elem().NumField() == 0 && !g.emptyEO {
			continue
		}
		v := g.value(e.Type, depth-1)
		return ua.NewExtensionObject(v.Interface())
	}
}

// leaf produces one scalar value of Variant type id tid (as a reflect.Value of the table's Go type)
func (g *gen) leaf(tid ua.TypeID, depth int) reflect.Value {
	return g.value(g.vtypes[tid], depth)
}

func (g *gen) variant(depth int) *ua.Variant {
	for {
		tid := ua.TypeID(g.r.Range(1, 25))
		if depth <= 0 && tid >= 22 {
			continue
		}
		if g.r.Intn(40) == 0 {
			return ua.MustVariant(nil)
		}
		lt := g.vtypes[tid]
		if tid == ua.TypeIDByte {
			// arrays of Byte need the ByteArray type; a scalar is a plain uint8
		}
		var v reflect.Value
		switch shape := g.r.Intn(6); shape {
		case 0, 1: // scalar
			v = g.leaf(tid, depth)
		case 2: // nil or empty one-dimensional array
			st := reflect.SliceOf(lt)
			if tid == ua.TypeIDByte {
				st = reflect.TypeOf(ua.ByteArray{})
			}
			if g.r.Bool() {
				v = reflect.Zero(st)
			} else {
				v = reflect.MakeSlice(st, 0, 0)
			}
		case 3: // one-dimensional
			v = g.array(tid, lt, []int{g.r.Range(1, 4)}, depth)
		case 4:
			v = g.array(tid, lt, []int{g.r.Range(1, 3), g.r.Range(1, 3)}, depth)
		default:
			v = g.array(tid, lt, []int{g.r.Range(1, 2), g.r.Range(1, 3), g.r.Range(1, 2)}, depth)
		}
		m, err := ua.NewVariant(v.Interface())
		if err != nil {
			panic("NewVariant: " + err.Error())
		}
		return m
	}
}

func (g *gen) array(tid ua.TypeID, lt reflect.Type, dims []int, depth int) reflect.Value {
	if len(dims) == 1 {
		st := reflect.SliceOf(lt)
		if tid == ua.TypeIDByte {
			st = reflect.TypeOf(ua.ByteArray{})
		}
		a := reflect.MakeSlice(st, dims[0], dims[0])
		for i := 0; i < dims[0]; i++ {
			a.Index(i).Set(g.leaf(tid, depth))
		}
		return a
	}
	first := g.array(tid, lt, dims[1:], depth)
	a := reflect.MakeSlice(reflect.SliceOf(first.Type()), dims[0], dims[0])
	a.Index(0).Set(first)
	for i := 1; i < dims[0]; i++ {
		a.Index(i).Set(g.array(tid, lt, dims[1:], depth))
	}
	return a
}

// value generates a well-formed value of Go type t (pointers are non-nil).
func (g *gen) value(t reflect.Type, depth int) reflect.Value {
	if t.Implements(encoderT) {
		switch t {
		case reflect.TypeOf((*ua.Variant)(nil)):
			return reflect.ValueOf(g.variant(depth))
		case reflect.TypeOf((*ua.DataValue)(nil)):
			return reflect.ValueOf(g.dataValue(depth))
		case reflect.TypeOf((*ua.DiagnosticInfo)(nil)):
			return reflect.ValueOf(g.diag(depth))
		case reflect.TypeOf((*ua.LocalizedText)(nil)):
			return reflect.ValueOf(g.locText())
		case reflect.TypeOf((*ua.NodeID)(nil)):
			return reflect.ValueOf(g.nodeID(0))
		case reflect.TypeOf((*ua.ExpandedNodeID)(nil)):
			return reflect.ValueOf(g.expNodeID())
		case reflect.TypeOf((*ua.ExtensionObject)(nil)):
			return reflect.ValueOf(g.extObj(depth))
		case reflect.TypeOf((*ua.GUID)(nil)):
			return reflect.ValueOf(g.guid())
		}
		panic("gen: unknown custom " + t.String())
	}
	if t.ConvertibleTo(timeT) && t.Kind() == reflect.Struct {
		return reflect.ValueOf(g.time()).Convert(t)
	}
	v := reflect.New(t).Elem()
	switch t.Kind() {
	case reflect.Bool:
		v.SetBool(g.r.Bool())
	case reflect.Int8, reflect.Int16, reflect.Int32, reflect.Int64:
		x := g.u64()
		switch t.Kind() {
		case reflect.Int8:
			v.SetInt(int64(int8(x)))
		case reflect.Int16:
			v.SetInt(int64(int16(x)))
		case reflect.Int32:
			v.SetInt(int64(int32(x)))
		default:
			v.SetInt(int64(x))
		}
	case reflect.Uint8, reflect.Uint16, reflect.Uint32, reflect.Uint64:
		x := g.u64()
		switch t.Kind() {
		case reflect.Uint8:
			v.SetUint(x & 0xff)
		case reflect.Uint16:
			v.SetUint(x & 0xffff)
		case reflect.Uint32:
			v.SetUint(x & 0xffffffff)
		default:
			v.SetUint(x)
		}
	case reflect.Float32:
		v.SetFloat(float64(g.f32()))
	case reflect.Float64:
		v.SetFloat(g.f64())
	case reflect.String:
		v.SetString(g.str())
	case reflect.Slice:
		if t.Elem().Kind() == reflect.Uint8 {
			b := g.bytes()
			if b != nil {
				v.SetBytes(b)
			}
			return v
		}
		switch g.r.Intn(4) {
		case 0: // nil
		case 1:
			v.Set(reflect.MakeSlice(t, 0, 0))
		default:
			n := g.r.Range(1, 3)
			if depth <= 0 {
				n = 1
			}
			a := reflect.MakeSlice(t, n, n)
			for i := 0; i < n; i++ {
				a.Index(i).Set(g.value(t.Elem(), depth-1))
			}
			v.Set(a)
		}
	case reflect.Ptr:
		p := reflect.New(t.Elem())
		p.Elem().Set(g.value(t.Elem(), depth))
		return p
	case reflect.Struct:
		for i := 0; i < t.NumField(); i++ {
			v.Field(i).Set(g.value(t.Field(i).Type, depth))
		}
	default:
		panic("gen: unsupported kind " + t.String())
	}
	return v
}

// minLeaf is the value of Variant type id tid with the SHORTEST encoding (alt selects a second shortest form where one
// exists: a four-byte instead of a two-byte type id for extension objects). Arrays of such elements are the tightest
// inputs for any "does the buffer still hold n elements" check in Variant.Decode.
func (g *gen) minLeaf(tid ua.TypeID, alt bool) reflect.Value {
	switch tid {
	case ua.TypeIDString:
		return reflect.ValueOf("")
	case ua.TypeIDDateTime:
		return reflect.ValueOf(time.Time{})
	case ua.TypeIDGUID:
		return reflect.ValueOf(&ua.GUID{Data4: make([]byte, 8)})
	case ua.TypeIDByteString:
		return reflect.ValueOf([]byte(nil))
	case ua.TypeIDXMLElement:
		return reflect.ValueOf(ua.XMLElement(""))
	case ua.TypeIDNodeID:
		return reflect.ValueOf(ua.NewTwoByteNodeID(0))
	case ua.TypeIDExpandedNodeID:
		return reflect.ValueOf(ua.NewTwoByteExpandedNodeID(0))
	case ua.TypeIDQualifiedName:
		return reflect.ValueOf(&ua.QualifiedName{})
	case ua.TypeIDLocalizedText:
		return reflect.ValueOf(&ua.LocalizedText{})
	case ua.TypeIDExtensionObject:
		if alt {
			return reflect.ValueOf(&ua.ExtensionObject{TypeID: ua.NewFourByteExpandedNodeID(0, 12345), EncodingMask: 0})
		}
		return reflect.ValueOf(ua.NewExtensionObject(nil))
	case ua.TypeIDDataValue:
		return reflect.ValueOf(&ua.DataValue{})
	case ua.TypeIDVariant:
		return reflect.ValueOf(ua.MustVariant(nil))
	case ua.TypeIDDiagnosticInfo:
		return reflect.ValueOf(&ua.DiagnosticInfo{})
	}
	return reflect.Zero(g.vtypes[tid]) // fixed-size types
}

func (g *gen) minArray(tid ua.TypeID, dims []int, alt bool) reflect.Value {
	lt := g.vtypes[tid]
	if len(dims) == 1 {
		st := reflect.SliceOf(lt)
		if tid == ua.TypeIDByte {
			st = reflect.TypeOf(ua.ByteArray{})
		}
		a := reflect.MakeSlice(st, dims[0], dims[0])
		for i := 0; i < dims[0]; i++ {
			a.Index(i).Set(g.minLeaf(tid, alt))
		}
		return a
	}
	first := g.minArray(tid, dims[1:], alt)
	a := reflect.MakeSlice(reflect.SliceOf(first.Type()), dims[0], dims[0])
	for i := 0; i < dims[0]; i++ {
		a.Index(i).Set(g.minArray(tid, dims[1:], alt))
	}
	return a
}

// minimalVariants: for every builtin type id, 1-D and n-D arrays of minimal-size elements
func (g *gen) minimalVariants() []*ua.Variant {
	var out []*ua.Variant
	shapes := [][]int{{1}, {2}, {3}, {7}, {2, 2}, {1, 3}, {1, 2, 2}}
	for tid := ua.TypeID(1); tid <= 25; tid++ {
		for _, alt := range []bool{false, true} {
			if alt && tid != ua.TypeIDExtensionObject {
				continue
			}
			for _, dims := range shapes {
				m, err := ua.NewVariant(g.minArray(tid, dims, alt).Interface())
				if err != nil {
					panic("NewVariant(minimal array): " + err.Error())
				}
				out = append(out, m)
			}
		}
	}
	return out
}

// distinctArrays: rank 3 and 4 arrays whose elements are pairwise different and whose trailing dimensions are larger than
// one, so that any error in the strides of split() (or of the flattening in Encode) moves a value to a wrong position
func (g *gen) distinctArrays() []*ua.Variant {
	var out []*ua.Variant
	shapes := [][]int{{2, 3, 4}, {3, 2, 2}, {2, 1, 2}, {1, 2, 3}, {2, 3, 1}, {2, 2, 2, 2}, {2, 1, 3, 2}, {4, 3}}
	for _, tid := range []ua.TypeID{ua.TypeIDInt32, ua.TypeIDString, ua.TypeIDDouble, ua.TypeIDByte, ua.TypeIDNodeID} {
		for _, dims := range shapes {
			k := 0
			var build func(d []int) reflect.Value
			build = func(d []int) reflect.Value {
				if len(d) == 1 {
					st := reflect.SliceOf(g.vtypes[tid])
					if tid == ua.TypeIDByte {
						st = reflect.TypeOf(ua.ByteArray{})
					}
					a := reflect.MakeSlice(st, d[0], d[0])
					for i := 0; i < d[0]; i++ {
						k++
						switch tid {
						case ua.TypeIDInt32:
							a.Index(i).SetInt(int64(1000 + k))
						case ua.TypeIDString:
							a.Index(i).SetString(string(rune('a'+k%26)) + string(rune('A'+k/26)))
						case ua.TypeIDDouble:
							a.Index(i).SetFloat(float64(k) + 0.5)
						case ua.TypeIDByte:
							a.Index(i).SetUint(uint64(k))
						default:
							a.Index(i).Set(reflect.ValueOf(ua.NewNumericNodeID(uint16(k), uint32(70000+k))))
						}
					}
					return a
				}
				first := build(d[1:])
				a := reflect.MakeSlice(reflect.SliceOf(first.Type()), d[0], d[0])
				a.Index(0).Set(first)
				for i := 1; i < d[0]; i++ {
					a.Index(i).Set(build(d[1:]))
				}
				return a
			}
			m, err := ua.NewVariant(build(dims).Interface())
			if err != nil {
				panic("NewVariant(distinct array): " + err.Error())
			}
			out = append(out, m)
		}
	}
	return out
}
