package main

// Go value -> Coq `val` term (Model/CodecTypes.v), with the same classification order as ua.encode/ua.decode
// (and as go/cmd/translate/uatypes.go).

import (
	"fmt"
	"math"
	"math/big"
	"reflect"
	"strings"
	"time"

	"github.com/gopcua/opcua/ua"
)

var (
	encoderT = reflect.TypeOf((*ua.BinaryEncoder)(nil)).Elem()
	timeT    = reflect.TypeOf(time.Time{})
	bytesT   = reflect.TypeOf([]byte{})
)

func coqBytes(b []byte) string {
	var sb strings.Builder
	sb.WriteByte('[')
	for i, x := range b {
		if i > 0 {
			sb.WriteByte(';')
		}
		fmt.Fprintf(&sb, "x%02x", x)
	}
	sb.WriteByte(']')
	return sb.String()
}

func coqZ(x int64) string {
	if x < 0 {
		return fmt.Sprintf("(%d)", x)
	}
	return fmt.Sprintf("%d", x)
}

func coqU(x uint64) string { return fmt.Sprintf("%d", x) }

func coqOptBytes(b []byte) string {
	if b == nil {
		return "None"
	}
	return "(Some " + coqBytes(b) + ")"
}

// coqTime prints the exact number of nanoseconds since 1970 (UnixNano is only defined between 1677 and 2262)
func coqTime(t time.Time) string {
	if t.IsZero() {
		return "None"
	}
	ns := new(big.Int).Mul(big.NewInt(t.Unix()), big.NewInt(1000000000))
	ns.Add(ns, big.NewInt(int64(t.Nanosecond())))
	if ns.Sign() < 0 {
		return "(Some (" + ns.String() + "))"
	}
	return "(Some " + ns.String() + ")"
}

func f32bits(f float32) uint64 {
	if f != f {
		return uint64(ua.VerifF32QNaN)
	}
	return uint64(math.Float32bits(f))
}

func f64bits(f float64) uint64 {
	if f != f {
		return uint64(ua.VerifF64QNaN)
	}
	return math.Float64bits(f)
}

func dumpList(items []string) string { return "[" + strings.Join(items, "; ") + "]" }

func dumpGUID(g *ua.GUID) string {
	if g == nil {
		return "(VPtr None)"
	}
	return fmt.Sprintf("(VGuid %d %d %d %s)", g.Data1, g.Data2, g.Data3, coqBytes(g.Data4))
}

func dumpNodeID(n *ua.NodeID) string {
	if n == nil {
		return "(VPtr None)"
	}
	mask, ns, nid, bid, gid := ua.VerifNodeIDFields(n)
	g := "None"
	if gid != nil {
		g = "(Some " + dumpGUID(gid) + ")"
	}
	return fmt.Sprintf("(VNodeID %d %d %d %s %s)", mask, ns, nid, coqOptBytes(bid), g)
}

func dumpExpNodeID(e *ua.ExpandedNodeID) string {
	if e == nil {
		return "(VPtr None)"
	}
	n := "None"
	if e.NodeID != nil {
		n = "(Some " + dumpNodeID(e.NodeID) + ")"
	}
	return fmt.Sprintf("(VExpNodeID %s %s %d)", n, coqBytes([]byte(e.NamespaceURI)), e.ServerIndex)
}

func dumpDiag(d *ua.DiagnosticInfo) string {
	if d == nil {
		return "(VPtr None)"
	}
	inner := "None"
	if d.InnerDiagnosticInfo != nil {
		inner = "(Some " + dumpDiag(d.InnerDiagnosticInfo) + ")"
	}
	return fmt.Sprintf("(VDiag %d %s %s %s %s %s %d %s)", d.EncodingMask, coqZ(int64(d.SymbolicID)), coqZ(int64(d.NamespaceURI)),
		coqZ(int64(d.Locale)), coqZ(int64(d.LocalizedText)), coqBytes([]byte(d.AdditionalInfo)), uint32(d.InnerStatusCode), inner)
}

func dumpPayload(v reflect.Value, tid byte) string {
	if v.Kind() == reflect.Slice && !(tid == 15 && v.Type().Elem().Kind() == reflect.Uint8) {
		if v.IsNil() {
			return "(VSlice None)"
		}
		items := make([]string, v.Len())
		for i := range items {
			items[i] = dumpPayload(v.Index(i), tid)
		}
		return "(VSlice (Some " + dumpList(items) + "))"
	}
	return dump(v)
}

func dumpVariant(m *ua.Variant) string {
	if m == nil {
		return "(VPtr None)"
	}
	mask, alen, dl, dims, value := ua.VerifVariantFields(m)
	ds := make([]string, len(dims))
	for i, d := range dims {
		ds[i] = coqZ(int64(d))
	}
	p := "None"
	if value != nil {
		p = "(Some " + dumpPayload(reflect.ValueOf(value), mask&0x3f) + ")"
	}
	return fmt.Sprintf("(VVariant %d %s %s %s %s)", mask, coqZ(int64(alen)), coqZ(int64(dl)), dumpList(ds), p)
}

func dumpDataValue(d *ua.DataValue) string {
	if d == nil {
		return "(VPtr None)"
	}
	v := "None"
	if d.Value != nil {
		v = "(Some " + dumpVariant(d.Value) + ")"
	}
	return fmt.Sprintf("(VDataValue %d %s %d %s %d %s %d)", d.EncodingMask, v, uint32(d.Status), coqTime(d.SourceTimestamp),
		d.SourcePicoseconds, coqTime(d.ServerTimestamp), d.ServerPicoseconds)
}

func dumpExtObj(e *ua.ExtensionObject) string {
	if e == nil {
		return "(VPtr None)"
	}
	t := "None"
	if e.TypeID != nil {
		t = "(Some " + dumpExpNodeID(e.TypeID) + ")"
	}
	b := "None"
	if e.Value != nil {
		b = "(Some " + dump(reflect.ValueOf(e.Value)) + ")"
	}
	return fmt.Sprintf("(VExtObj %d %s %s)", e.EncodingMask, t, b)
}

func dump(v reflect.Value) string {
	t := v.Type()
	if t.Implements(encoderT) {
		switch x := v.Interface().(type) {
		case *ua.Variant:
			return dumpVariant(x)
		case *ua.DataValue:
			return dumpDataValue(x)
		case *ua.DiagnosticInfo:
			return dumpDiag(x)
		case *ua.LocalizedText:
			if x == nil {
				return "(VPtr None)"
			}
			return fmt.Sprintf("(VLocText %d %s %s)", x.EncodingMask, coqBytes([]byte(x.Locale)), coqBytes([]byte(x.Text)))
		case *ua.NodeID:
			return dumpNodeID(x)
		case *ua.ExpandedNodeID:
			return dumpExpNodeID(x)
		case *ua.ExtensionObject:
			return dumpExtObj(x)
		case *ua.GUID:
			return dumpGUID(x)
		}
		panic("dump: unknown custom " + t.String())
	}
	if t.ConvertibleTo(timeT) && t.Kind() == reflect.Struct {
		return "(VTime " + coqTime(v.Convert(timeT).Interface().(time.Time)) + ")"
	}
	switch t.Kind() {
	case reflect.Bool:
		if v.Bool() {
			return "(VBool true)"
		}
		return "(VBool false)"
	case reflect.Int8, reflect.Int16, reflect.Int32, reflect.Int64:
		return "(VInt " + coqZ(v.Int()) + ")"
	case reflect.Uint8, reflect.Uint16, reflect.Uint32, reflect.Uint64:
		return "(VInt " + coqU(v.Uint()) + ")"
	case reflect.Float32:
		return "(VInt " + coqU(f32bits(float32(v.Float()))) + ")"
	case reflect.Float64:
		return "(VInt " + coqU(f64bits(v.Float())) + ")"
	case reflect.String:
		return "(VStr " + coqBytes([]byte(v.String())) + ")"
	case reflect.Slice:
		if t.Elem().Kind() == reflect.Uint8 {
			if v.IsNil() {
				return "(VBytes None)"
			}
			return "(VBytes (Some " + coqBytes(v.Bytes()) + "))"
		}
		if v.IsNil() {
			return "(VSlice None)"
		}
		items := make([]string, v.Len())
		for i := range items {
			items[i] = dump(v.Index(i))
		}
		return "(VSlice (Some " + dumpList(items) + "))"
	case reflect.Ptr:
		if v.IsNil() {
			return "(VPtr None)"
		}
		return "(VPtr (Some " + dump(v.Elem()) + "))"
	case reflect.Struct:
		items := make([]string, v.NumField())
		for i := range items {
			items[i] = dump(v.Field(i))
		}
		return "(VStruct " + dumpList(items) + ")"
	}
	panic("dump: unsupported kind " + t.String())
}
