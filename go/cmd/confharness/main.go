// confharness runs programs (sequences of opcua.NewClient calls with seeded options) against the real code, each
// program in a fresh child process, and prints one JSON observation per program: the options with their arguments,
// and after every construction a reflective dump of (a) every package-level default and (b) the configuration of
// every client created so far.  The option constructors and the defaults come from options_gen.go, which the
// translator regenerates from /repo/config.go on every run.
package main

import (
	"bufio"
	"crypto/rand"
	"crypto/rsa"
	"crypto/x509"
	"crypto/x509/pkix"
	"encoding/hex"
	"encoding/json"
	"encoding/pem"
	"flag"
	"fmt"
	"math/big"
	mrand "math/rand"
	"net"
	"net/url"
	"os"
	"os/exec"
	"path/filepath"
	"reflect"
	"sort"
	"strings"
	"sync"
	"time"
	"unsafe"

	"github.com/gopcua/opcua"
	"github.com/gopcua/opcua/ua"
	"github.com/gopcua/opcua/uacp"
	"github.com/gopcua/opcua/uapolicy"

	"verifharness/internal/rng"
)

type genOption struct {
	Name   string
	Params []string
	Make   func(a *argSrc) opcua.Option
}
type genDefault struct {
	Name string
	Get  func() interface{}
}

var genOptions []genOption
var genDefaults []genDefault

// ---------------------------------------------------------------------------------------------------
// fixtures (keys, certificates, files) prepared once by the parent, loaded by every child

type fixtures struct {
	keys    []*rsa.PrivateKey // ids 1..
	certURI []byte            // DER, URI SAN urn:verif:app
	certNo  []byte            // DER, no URI
	dir     string
}

var fx fixtures

func prepare(dir string) error {
	if _, err := os.Stat(filepath.Join(dir, "ok")); err == nil {
		return nil
	}
	if err := os.MkdirAll(dir, 0o755); err != nil {
		return err
	}
	for i := 1; i <= 3; i++ {
		k, err := rsa.GenerateKey(rand.Reader, 1024)
		if err != nil {
			return err
		}
		b := pem.EncodeToMemory(&pem.Block{Type: "RSA PRIVATE KEY", Bytes: x509.MarshalPKCS1PrivateKey(k)})
		if err := os.WriteFile(filepath.Join(dir, fmt.Sprintf("key%d.pem", i)), b, 0o600); err != nil {
			return err
		}
		if i == 1 {
			for _, withURI := range []bool{true, false} {
				t := &x509.Certificate{SerialNumber: big.NewInt(int64(7)), Subject: pkix.Name{CommonName: "verif"},
					NotBefore: time.Unix(1700000000, 0), NotAfter: time.Unix(2000000000, 0), KeyUsage: x509.KeyUsageDigitalSignature}
				name := "certno"
				if withURI {
					u, _ := url.Parse("urn:verif:app")
					t.URIs = []*url.URL{u}
					name = "certuri"
				}
				der, err := x509.CreateCertificate(rand.Reader, t, t, &k.PublicKey, k)
				if err != nil {
					return err
				}
				os.WriteFile(filepath.Join(dir, name+".der"), der, 0o644)
				os.WriteFile(filepath.Join(dir, name+".pem"), pem.EncodeToMemory(&pem.Block{Type: "CERTIFICATE", Bytes: der}), 0o644)
			}
		}
	}
	os.WriteFile(filepath.Join(dir, "garbage.bin"), []byte("this is neither PEM nor DER"), 0o644)
	return os.WriteFile(filepath.Join(dir, "ok"), nil, 0o644)
}

func loadFixtures(dir string) error {
	fx.dir = dir
	for i := 1; i <= 3; i++ {
		b, err := os.ReadFile(filepath.Join(dir, fmt.Sprintf("key%d.pem", i)))
		if err != nil {
			return err
		}
		blk, _ := pem.Decode(b)
		k, err := x509.ParsePKCS1PrivateKey(blk.Bytes)
		if err != nil {
			return err
		}
		fx.keys = append(fx.keys, k)
	}
	var err error
	if fx.certURI, err = os.ReadFile(filepath.Join(dir, "certuri.der")); err != nil {
		return err
	}
	fx.certNo, err = os.ReadFile(filepath.Join(dir, "certno.der"))
	return err
}

var stateChans = []chan opcua.ConnState{nil, make(chan opcua.ConnState, 8), make(chan opcua.ConnState, 8)}

func stateFn1(opcua.ConnState) {}
func stateFn2(opcua.ConnState) { _ = 2 + len(os.Args) }

var stateFuncs = []func(opcua.ConnState){nil, stateFn1, stateFn2}

// ---------------------------------------------------------------------------------------------------
// argument source

type argSrc struct {
	r           *rng.R
	desc        []interface{}
	forceDialer int // >0: the next Dialer argument is of this kind (see Dialer below)
	// >0: the next Endpoint argument offers no user token policy of the type the next TokenType argument asks for
	// (1 = no token policies at all, 2 = only other types), so that SecurityFromEndpoint takes its fallback
	forceFallback int
	forceStr      string // != "": the next plain string argument
}

func hx(s string) string { return hex.EncodeToString([]byte(s)) }
func hxb(b []byte) interface{} {
	if b == nil {
		return nil
	}
	return hex.EncodeToString(b)
}

func (a *argSrc) add(d interface{}) { a.desc = append(a.desc, d) }

var interesting = []string{"", "None", "Sign", "SignAndEncrypt", "Invalid", "Basic256Sha256", "Basic256", "urn:x", "en-us", "de",
	"http://opcfoundation.org/UA/SecurityPolicy#None", "http://opcfoundation.org/UA/SecurityPolicy#Basic256Sha256", "anonymous", "user", "secret"}

func (a *argSrc) str() string {
	if a.r.Intn(4) == 0 {
		return string(a.r.Bytes(a.r.Range(0, 5)))
	}
	return interesting[a.r.Intn(len(interesting))]
}

func (a *argSrc) String(opt, param string) string {
	if param == "filename" {
		kinds := []string{"none", "missing", "garbage", "dercert", "pemcert", "pemkey", "dercertno"}
		k := kinds[a.r.Intn(len(kinds))]
		files := map[string]string{"none": "", "missing": filepath.Join(fx.dir, "does-not-exist"), "garbage": filepath.Join(fx.dir, "garbage.bin"),
			"dercert": filepath.Join(fx.dir, "certuri.der"), "pemcert": filepath.Join(fx.dir, "certuri.pem"), "pemkey": filepath.Join(fx.dir, "key2.pem"),
			"dercertno": filepath.Join(fx.dir, "certno.der")}
		d := map[string]interface{}{"file": k}
		switch k {
		case "garbage":
			b, _ := os.ReadFile(files[k])
			d["data"], d["cert"] = hxb(b), certInfo(b)
		case "dercert", "pemcert":
			d["data"], d["cert"] = hxb(fx.certURI), certInfo(fx.certURI)
		case "dercertno":
			d["data"], d["cert"] = hxb(fx.certNo), certInfo(fx.certNo)
		case "pemkey":
			d["key"] = 2
		}
		a.add(d)
		return files[k]
	}
	s := a.str()
	if a.forceStr != "" {
		s, a.forceStr = a.forceStr, ""
	}
	a.add(map[string]interface{}{"s": hx(s)})
	return s
}
func (a *argSrc) Bool(opt, param string) bool {
	v := a.r.Bool()
	a.add(map[string]interface{}{"v": v})
	return v
}
func (a *argSrc) Duration(opt, param string) time.Duration {
	var v int64
	switch a.r.Intn(8) {
	case 0:
		v = 0
	case 1:
		v = -int64(a.r.U64() >> uint(a.r.Range(1, 63)))
	case 2:
		v = int64(a.r.U64() >> 1)
	case 3:
		v = int64(a.r.Range(1, 999999)) // below one millisecond
	case 4:
		v = int64(4294967296)*1000000 + int64(a.r.Intn(5000000)) - 2500000 // around the uint32 wrap of Lifetime
	default:
		v = int64(a.r.Range(1, 100000)) * 1000000
	}
	a.add(map[string]interface{}{"n": v})
	return time.Duration(v)
}
func (a *argSrc) Uint32(opt, param string) uint32 {
	v := uint32(a.r.Pick(0, 1, 1234, 8192, 65535, 65536, 1<<31, 1<<32-1, a.r.Intn(1<<32)))
	a.add(map[string]interface{}{"n": v})
	return v
}
func certInfo(b []byte) interface{} {
	c, err := uapolicy.ParseCertificate(b)
	if err != nil {
		return map[string]interface{}{"ok": false}
	}
	if len(c.URIs) == 0 {
		return map[string]interface{}{"ok": true, "uri": nil}
	}
	return map[string]interface{}{"ok": true, "uri": hx(c.URIs[0].String())}
}
func (a *argSrc) bytes() []byte {
	switch a.r.Intn(6) {
	case 0:
		return nil
	case 1:
		return []byte{}
	case 2:
		return a.r.Bytes(a.r.Range(1, 6))
	case 3:
		return fx.certNo
	default:
		return fx.certURI
	}
}
func (a *argSrc) Bytes(opt, param string) []byte {
	b := a.bytes()
	a.add(map[string]interface{}{"b": hxb(b), "cert": certInfo(b), "thumb": hxb(uapolicy.Thumbprint(b))})
	return b
}
func (a *argSrc) Strings(opt, param string) []string {
	var l []string
	n := a.r.Intn(4)
	for i := 0; i < n; i++ {
		l = append(l, a.str())
	}
	var d interface{}
	if l != nil {
		hs := []string{}
		for _, s := range l {
			hs = append(hs, hx(s))
		}
		d = hs
	}
	a.add(map[string]interface{}{"l": d})
	return l
}
func (a *argSrc) Key(opt, param string) *rsa.PrivateKey {
	i := a.r.Intn(len(fx.keys) + 1)
	a.add(map[string]interface{}{"key": i})
	if i == 0 {
		return nil
	}
	return fx.keys[i-1]
}
func (a *argSrc) ack() *uacp.Acknowledge {
	return &uacp.Acknowledge{Version: uint32(a.r.Intn(2)), ReceiveBufSize: uint32(a.r.Pick(8192, 65535, 9999)), SendBufSize: uint32(a.r.Pick(8192, 65535, 7777)),
		MaxMessageSize: uint32(a.r.Pick(0, 1<<20)), MaxChunkCount: uint32(a.r.Pick(0, 64))}
}
func ackDesc(p *uacp.Acknowledge) interface{} {
	if p == nil {
		return "nil"
	}
	if p == uacp.DefaultClientACK {
		return "global"
	}
	return map[string]interface{}{"Version": p.Version, "ReceiveBufSize": p.ReceiveBufSize, "SendBufSize": p.SendBufSize, "MaxMessageSize": p.MaxMessageSize, "MaxChunkCount": p.MaxChunkCount}
}
func (a *argSrc) Dialer(opt, param string) *uacp.Dialer {
	var d *uacp.Dialer
	k := a.r.Intn(8)
	if a.forceDialer > 0 {
		k, a.forceDialer = a.forceDialer, 0
	}
	switch k {
	case 0:
		a.add(map[string]interface{}{"nil": true})
		return nil
	case 1:
		d = &uacp.Dialer{}
	case 2:
		d = &uacp.Dialer{Dialer: &net.Dialer{Timeout: time.Duration(a.r.Range(0, 50)) * time.Second}}
	case 3:
		d = &uacp.Dialer{ClientACK: a.ack()}
	case 4:
		d = opcua.DefaultDialer() // what a caller who only wants to tweak the default does
	case 5:
		d = &uacp.Dialer{Dialer: &net.Dialer{Timeout: 3 * time.Second}, ClientACK: uacp.DefaultClientACK} // explicit use of the package pointer
	default:
		d = &uacp.Dialer{Dialer: &net.Dialer{Timeout: time.Duration(a.r.Range(0, 50)) * time.Second}, ClientACK: a.ack()}
	}
	var nd interface{}
	if d.Dialer != nil {
		nd = int64(d.Dialer.Timeout)
	}
	a.add(map[string]interface{}{"net": nd, "ack": ackDesc(d.ClientACK)})
	return d
}
func (a *argSrc) StateCh(opt, param string) chan<- opcua.ConnState {
	i := a.r.Intn(len(stateChans))
	a.add(map[string]interface{}{"chan": i})
	if i == 0 {
		return nil
	}
	return stateChans[i]
}
func (a *argSrc) StateFunc(opt, param string) func(opcua.ConnState) {
	i := a.r.Intn(len(stateFuncs))
	a.add(map[string]interface{}{"func": i})
	return stateFuncs[i]
}
func (a *argSrc) Endpoint(opt, param string) *ua.EndpointDescription {
	if a.forceFallback == 0 && a.r.Intn(10) == 0 {
		a.add(map[string]interface{}{"nil": true})
		return nil
	}
	ep := &ua.EndpointDescription{SecurityPolicyURI: a.str(), SecurityMode: ua.MessageSecurityMode(a.r.Intn(5)), ServerCertificate: a.bytes()}
	var toks []interface{}
	n := a.r.Intn(4)
	if a.forceFallback == 1 {
		n = 0
	}
	for i := 0; i < n; i++ {
		if a.forceFallback == 2 { // the requested type will be 0 (anonymous): offer only the others
			t := &ua.UserTokenPolicy{TokenType: ua.UserTokenType(1 + a.r.Intn(3)), PolicyID: a.str(), SecurityPolicyURI: a.str()}
			ep.UserIdentityTokens = append(ep.UserIdentityTokens, t)
			toks = append(toks, map[string]interface{}{"type": uint32(t.TokenType), "policyid": hx(t.PolicyID), "secpolicy": hx(t.SecurityPolicyURI)})
			continue
		}
		if a.r.Intn(12) == 0 {
			ep.UserIdentityTokens = append(ep.UserIdentityTokens, nil)
			toks = append(toks, nil)
			continue
		}
		t := &ua.UserTokenPolicy{TokenType: ua.UserTokenType(a.r.Intn(5)), PolicyID: a.str(), SecurityPolicyURI: a.str()}
		ep.UserIdentityTokens = append(ep.UserIdentityTokens, t)
		toks = append(toks, map[string]interface{}{"type": uint32(t.TokenType), "policyid": hx(t.PolicyID), "secpolicy": hx(t.SecurityPolicyURI)})
	}
	a.add(map[string]interface{}{"policy": hx(ep.SecurityPolicyURI), "mode": uint32(ep.SecurityMode), "cert": hxb(ep.ServerCertificate),
		"thumb": hxb(uapolicy.Thumbprint(ep.ServerCertificate)), "tokens": toks})
	return ep
}
func (a *argSrc) TokenType(opt, param string) ua.UserTokenType {
	v := uint32(a.r.Intn(5))
	if a.forceFallback > 0 {
		v, a.forceFallback = 0, 0
	}
	a.add(map[string]interface{}{"n": v})
	return ua.UserTokenType(v)
}
func (a *argSrc) Mode(opt, param string) ua.MessageSecurityMode {
	v := uint32(a.r.Pick(0, 1, 2, 3, 4, a.r.Intn(1<<16)))
	a.add(map[string]interface{}{"n": v})
	return ua.MessageSecurityMode(v)
}

// ---------------------------------------------------------------------------------------------------
// reflective dump (unexported fields included)

var globalPtrs = map[uintptr]string{}

func keyID(k *rsa.PrivateKey) int {
	for i, f := range fx.keys {
		if f.N.Cmp(k.N) == 0 {
			return i + 1
		}
	}
	return -1
}

func dump(v reflect.Value, depth int) interface{} {
	if depth > 14 {
		return "depth-limit"
	}
	if !v.IsValid() {
		return nil
	}
	if !v.CanInterface() && v.CanAddr() {
		v = reflect.NewAt(v.Type(), unsafe.Pointer(v.UnsafeAddr())).Elem()
	}
	switch v.Kind() {
	case reflect.Bool:
		return v.Bool()
	case reflect.Int, reflect.Int8, reflect.Int16, reflect.Int32, reflect.Int64:
		return v.Int()
	case reflect.Uint, reflect.Uint8, reflect.Uint16, reflect.Uint32, reflect.Uint64, reflect.Uintptr:
		return v.Uint()
	case reflect.Float32, reflect.Float64:
		return fmt.Sprint(v.Float())
	case reflect.String:
		return "s:" + hx(v.String())
	case reflect.Ptr:
		if v.IsNil() {
			return nil
		}
		if k, ok := v.Interface().(*rsa.PrivateKey); ok {
			return map[string]interface{}{"key": keyID(k)}
		}
		// "@": the address, so that the check can see one object reachable from two clients (or from a client and a package default)
		m := map[string]interface{}{"to": dump(v.Elem(), depth+1), "@": fmt.Sprintf("%x", v.Pointer())}
		if name, ok := globalPtrs[v.Pointer()]; ok {
			m["ptr"] = name
		}
		return m
	case reflect.Struct:
		m := map[string]interface{}{}
		for i := 0; i < v.NumField(); i++ {
			m[v.Type().Field(i).Name] = dump(v.Field(i), depth+1)
		}
		return m
	case reflect.Slice:
		if v.IsNil() {
			return nil
		}
		if v.Type().Elem().Kind() == reflect.Uint8 {
			return "b:" + hex.EncodeToString(v.Bytes())
		}
		fallthrough
	case reflect.Array:
		l := []interface{}{}
		for i := 0; i < v.Len(); i++ {
			l = append(l, dump(v.Index(i), depth+1))
		}
		return l
	case reflect.Interface:
		if v.IsNil() {
			return nil
		}
		return map[string]interface{}{"type": v.Elem().Type().String(), "val": dump(v.Elem(), depth+1)}
	case reflect.Chan:
		if v.IsNil() {
			return nil
		}
		for i, c := range stateChans {
			if c != nil && reflect.ValueOf(c).Pointer() == v.Pointer() {
				return map[string]interface{}{"chan": i}
			}
		}
		return map[string]interface{}{"chan": -1}
	case reflect.Func:
		if v.IsNil() {
			return nil
		}
		for i, f := range stateFuncs {
			if f != nil && reflect.ValueOf(f).Pointer() == v.Pointer() {
				return map[string]interface{}{"func": i}
			}
		}
		return map[string]interface{}{"func": -1}
	case reflect.Map:
		type kv struct {
			k string
			v interface{}
		}
		var kvs []kv
		for _, k := range v.MapKeys() {
			kvs = append(kvs, kv{fmt.Sprint(k.Interface()), dump(v.MapIndex(k), depth+1)})
		}
		sort.Slice(kvs, func(i, j int) bool { return kvs[i].k < kvs[j].k })
		l := []interface{}{}
		for _, e := range kvs {
			l = append(l, []interface{}{e.k, e.v})
		}
		return l
	}
	return "kind:" + v.Kind().String()
}

func dumpDefaults() map[string]interface{} {
	m := map[string]interface{}{}
	for _, d := range genDefaults {
		m[d.Name] = dump(reflect.ValueOf(d.Get()), 0)
	}
	return m
}

func dumpClient(c *opcua.Client) interface{} {
	v := reflect.ValueOf(c).Elem()
	out := map[string]interface{}{}
	for _, f := range []string{"cfg", "stateCh", "stateFunc"} {
		fv := v.FieldByName(f)
		if !fv.IsValid() {
			out[f] = "missing-field"
			continue
		}
		out[f] = dump(fv, 0)
	}
	return out
}

// ---------------------------------------------------------------------------------------------------
// programs

type optObs struct {
	Opt  string        `json:"opt"`
	Args []interface{} `json:"args"`
	// Reused: this is not a new constructor call but the SAME Option value that client 0 got at this position
	Reused bool `json:"reused,omitempty"`
}
type stepObs struct {
	Outcome  string                 `json:"outcome"` // created | failed | panic
	Err      string                 `json:"err,omitempty"`
	Defaults map[string]interface{} `json:"defaults"`
	Clients  []interface{}          `json:"clients"` // one per construction so far; null when not created
}
type progObs struct {
	Index    int                    `json:"index"`
	Kind     string                 `json:"kind"`
	Pristine map[string]interface{} `json:"pristine"`
	Prog     [][]optObs             `json:"prog"`
	Steps    []stepObs              `json:"steps"`
}

// plan: which option indices each client of program `index` uses (shared by parent and child through the seed)
// partially filled dialers a caller may hand to opcua.Dialer: 1 = &uacp.Dialer{}, 2 = only the net.Dialer, 3 = only ClientACK
var partialDialers = []int{1, 2, 3}

func optIndex(name string) int {
	for i, g := range genOptions {
		if g.Name == name {
			return i
		}
	}
	return -1
}

// programs in which two clients both take SecurityFromEndpoint's fallback (no user token policy of the requested type)
// and one of them applies one more option X: 2 orders x every X
func fallbackPrograms() int {
	if optIndex("SecurityFromEndpoint") < 0 {
		return 0
	}
	return 2 * len(genOptions)
}

// programs in which ONE Option value X is applied to two clients, each followed by its own AuthPolicyID: 1 x every X
func reusePrograms() int {
	if optIndex("AuthPolicyID") < 0 {
		return 0
	}
	return len(genOptions)
}

func dialerIndex() int {
	for i, g := range genOptions {
		if g.Name == "Dialer" {
			return i
		}
	}
	return -1
}

// systematic programs before the random ones
func systematic() int {
	n := len(genOptions)
	if dialerIndex() < 0 {
		return 2*n + fallbackPrograms() + reusePrograms()
	}
	return 2*n + len(partialDialers)*n + fallbackPrograms() + reusePrograms()
}

func plan(seed uint64, index int) (kind string, clients [][]int, r *rng.R) {
	r = rng.New(seed*1000003 + uint64(index))
	n := len(genOptions)
	switch {
	case index >= systematic()-reusePrograms() && index < systematic():
		k := index - (systematic() - reusePrograms())
		ap := optIndex("AuthPolicyID")
		return "reuse", [][]int{{k, ap}, {k, ap}}, r // position 0 of the second client is the first client's Option value
	case index >= systematic()-reusePrograms()-fallbackPrograms() && index < systematic()-reusePrograms():
		k := index - (systematic() - reusePrograms() - fallbackPrograms())
		sfe := optIndex("SecurityFromEndpoint")
		if k < n {
			return "fallback-late", [][]int{{sfe}, {sfe, k}}, r // the second client gets X: must not change the first
		}
		return "fallback-early", [][]int{{sfe, k - n}, {sfe}}, r // the first client gets X: the second must not see it
	case index >= 2*n && index < systematic()-reusePrograms()-fallbackPrograms():
		// NewClient(Dialer(<partially filled dialer>), X) for every option X, then a default client
		return fmt.Sprintf("dialer%d-then", partialDialers[(index-2*n)/n]), [][]int{{dialerIndex(), (index - 2*n) % n}, {}}, r
	case index < n: // every option on its own, followed by a default client
		return "single", [][]int{{index}, {}}, r
	case index < 2*n: // a default client first, then the option, then a default client again
		return "sandwich", [][]int{{}, {index - n}, {}}, r
	}
	nc := r.Range(1, 4)
	for i := 0; i < nc; i++ {
		var os []int
		k := r.Pick(0, 1, 2, 3, 4, 6, 9)
		for j := 0; j < k; j++ {
			os = append(os, r.Intn(n))
		}
		clients = append(clients, os)
	}
	return "random", clients, r
}

func runProgram(seed uint64, index int) progObs {
	for _, d := range genDefaults {
		if v := reflect.ValueOf(d.Get()); v.Kind() == reflect.Ptr && !strings.HasSuffix(d.Name, "()") {
			globalPtrs[v.Pointer()] = d.Name
		}
	}
	kind, clients, r := plan(seed, index)
	obs := progObs{Index: index, Kind: kind, Pristine: dumpDefaults()}
	var made []*opcua.Client
	var firstOpt opcua.Option
	var firstObs optObs
	for ci, optIdx := range clients {
		a := &argSrc{r: r}
		if strings.HasPrefix(kind, "dialer") && ci == 0 {
			a.forceDialer = int(kind[6] - '0')
		}
		if strings.HasPrefix(kind, "fallback") {
			a.forceFallback = 1 + index%2
		}
		var opts []opcua.Option
		var oo []optObs
		rs := int64(seed)*7919 + int64(index)*31 + int64(ci)
		pred := mrand.New(mrand.NewSource(rs))
		for pos, oi := range optIdx {
			a.desc = nil
			g := genOptions[oi]
			if kind == "reuse" && ci == 1 && pos == 0 {
				// the caller built the option once and passes the same value to the second client
				opts = append(opts, firstOpt)
				ro := firstObs
				ro.Reused = true
				if g.Name == "RandomRequestID" {
					ro.Args = []interface{}{map[string]interface{}{"rand": uint32(pred.Int31())}}
				}
				oo = append(oo, ro)
				continue
			}
			if kind == "reuse" && pos == 1 {
				a.forceStr = fmt.Sprintf("policy-of-client-%d", ci)
			}
			opts = append(opts, g.Make(a))
			if kind == "reuse" && ci == 0 && pos == 0 {
				firstOpt = opts[0]
			}
			args := a.desc
			if g.Name == "RandomRequestID" {
				args = append(args, map[string]interface{}{"rand": uint32(pred.Int31())})
			}
			if args == nil {
				args = []interface{}{}
			}
			oo = append(oo, optObs{Opt: g.Name, Args: args})
			if kind == "reuse" && ci == 0 && pos == 0 {
				firstObs = oo[0]
			}
		}
		if oo == nil {
			oo = []optObs{}
		}
		obs.Prog = append(obs.Prog, oo)
		mrand.Seed(rs)
		st := stepObs{}
		var c *opcua.Client
		var err error
		func() {
			defer func() {
				if p := recover(); p != nil {
					st.Outcome, st.Err = "panic", fmt.Sprint(p)
				}
			}()
			c, err = opcua.NewClient("opc.tcp://localhost:4840", opts...)
		}()
		if st.Outcome == "" {
			if err != nil {
				st.Outcome, st.Err = "failed", err.Error()
				if c != nil {
					st.Outcome = "failed-with-client"
				}
				c = nil
			} else {
				st.Outcome = "created"
			}
		}
		made = append(made, c)
		st.Defaults = dumpDefaults()
		for _, m := range made {
			if m == nil {
				st.Clients = append(st.Clients, nil)
			} else {
				st.Clients = append(st.Clients, dumpClient(m))
			}
		}
		obs.Steps = append(obs.Steps, st)
	}
	return obs
}

func main() {
	seed := flag.Uint64("seed", 1, "seed")
	n := flag.Int("n", 100, "number of random programs (after the systematic ones)")
	dir := flag.String("dir", "", "fixture directory")
	one := flag.Int("one", -1, "child mode: run program <index> and print its observation")
	from := flag.Int("from", 0, "first program index")
	list := flag.Bool("list", false, "print the option constructors known to this build")
	flag.Parse()
	if *list {
		for _, g := range genOptions {
			fmt.Println(g.Name, strings.Join(g.Params, ", "))
		}
		return
	}
	if *dir == "" {
		fmt.Fprintln(os.Stderr, "need -dir")
		os.Exit(2)
	}
	if *one >= 0 {
		if err := loadFixtures(*dir); err != nil {
			fmt.Fprintln(os.Stderr, err)
			os.Exit(2)
		}
		json.NewEncoder(os.Stdout).Encode(runProgram(*seed, *one))
		return
	}
	if err := prepare(*dir); err != nil {
		fmt.Fprintln(os.Stderr, err)
		os.Exit(2)
	}
	self, _ := os.Executable()
	total := systematic() + *n
	results := make([]string, total)
	var wg sync.WaitGroup
	sem := make(chan struct{}, 12)
	for i := *from; i < total; i++ {
		wg.Add(1)
		sem <- struct{}{}
		go func(i int) {
			defer wg.Done()
			defer func() { <-sem }()
			cmd := exec.Command(self, "-seed", fmt.Sprint(*seed), "-dir", *dir, "-one", fmt.Sprint(i))
			out, err := cmd.Output()
			if err != nil {
				msg := ""
				if ee, ok := err.(*exec.ExitError); ok {
					msg = string(ee.Stderr)
					if len(msg) > 600 {
						msg = msg[:600]
					}
				}
				b, _ := json.Marshal(map[string]interface{}{"index": i, "crashed": err.Error(), "stderr": msg})
				results[i] = string(b) + "\n"
				return
			}
			results[i] = string(out)
		}(i)
	}
	wg.Wait()
	w := bufio.NewWriter(os.Stdout)
	defer w.Flush()
	for i := *from; i < total; i++ {
		w.WriteString(results[i])
	}
}
