"""Common machinery for the /verif checks.

Every property check is a python module engines/<ID>.py exposing `run(ctx)`.
`ctx` is a Run object (below) that knows how to
  * rebuild the Go harness against /repo's working tree with -tags verif,
  * regenerate coq/Gen/*.v with the translator,
  * (re)compile Coq targets under a lock and a timeout, and collect, for Props/<ID>.v,
    the number of theorems, which were accepted by the kernel, and what Print Assumptions said,
  * evaluate a generated Cases.v inside Coq (vm_compute) for the correspondence check,
  * handle known findings, VIOLATION lines, replay files and the evidence file.
"""
import fcntl
import hashlib
import json
import os
import re
import shutil
import subprocess
import sys
import time

VERIF = os.path.dirname(os.path.dirname(os.path.abspath(__file__)))
def _repo_path():
    if os.environ.get("VERIF_REPO"):
        return os.environ["VERIF_REPO"]
    p = os.path.join(VERIF, ".repo_path")      # written by tools/scratch.sh in scratch copies only
    if os.path.exists(p):
        return open(p).read().strip()
    return "/repo"


REPO = _repo_path()
COQ = os.path.join(VERIF, "coq")
GO = os.path.join(VERIF, "go")
WORK = os.path.join(VERIF, "work")
BIN = os.path.join(WORK, "bin")
EVID = os.path.join(VERIF, "evidence")
KNOWN = os.path.join(VERIF, "known_findings.txt")
COQ_DIRS = ["Base", "Model", "Proofs", "Gen", "Props"]

GOENV = dict(os.environ, GOFLAGS="-mod=mod", GOPROXY="off", GOSUMDB="off", GOTOOLCHAIN="local",
             CGO_ENABLED=os.environ.get("CGO_ENABLED", "1"))


def sh(cmd, cwd=None, timeout=None, env=None, input=None):
    """Run a command, return (rc, stdout+stderr). rc=124 on timeout."""
    try:
        p = subprocess.run(cmd, cwd=cwd, env=env, input=input, shell=isinstance(cmd, str),
                           stdout=subprocess.PIPE, stderr=subprocess.STDOUT, timeout=timeout, text=True,
                           errors="replace")
        return p.returncode, p.stdout
    except subprocess.TimeoutExpired as e:
        out = e.stdout or ""
        if isinstance(out, bytes):
            out = out.decode("utf-8", "replace")
        return 124, out + "\n[timeout after %ss]" % timeout


class Lock:
    def __init__(self, name):
        os.makedirs(WORK, exist_ok=True)
        self.path = os.path.join(WORK, "." + name + ".lock")

    def __enter__(self):
        self.f = open(self.path, "w")
        fcntl.flock(self.f, fcntl.LOCK_EX)
        return self

    def __exit__(self, *a):
        fcntl.flock(self.f, fcntl.LOCK_UN)
        self.f.close()


def write_if_changed(path, content):
    try:
        with open(path) as f:
            if f.read() == content:
                return False
    except FileNotFoundError:
        pass
    os.makedirs(os.path.dirname(path), exist_ok=True)
    tmp = path + ".tmp%d" % os.getpid()
    with open(tmp, "w") as f:
        f.write(content)
    os.replace(tmp, path)
    return True


# ----------------------------------------------------------------------------------------------
# Go side

def go_sync_sum():
    src = os.path.join(REPO, "go.sum")
    dst = os.path.join(GO, "go.sum")
    if os.path.exists(src):
        with open(src) as f:
            write_if_changed(dst, f.read())


def go_build(name, race=False):
    """Build go/cmd/<name> against /repo's working tree with -tags verif. Returns (path, log)."""
    os.makedirs(BIN, exist_ok=True)
    out = os.path.join(BIN, name + ("-race" if race else ""))
    with Lock("go"):
        go_sync_sum()
        cmd = ["go", "build", "-tags", "verif"] + (["-race"] if race else []) + ["-o", out, "./cmd/" + name]
        rc, log = sh(cmd, cwd=GO, env=GOENV, timeout=900)
    if rc != 0:
        return None, log
    return out, log


# ----------------------------------------------------------------------------------------------
# Coq side

def coq_project():
    """(Re)generate _CoqProject and Makefile.coq when the file list changed."""
    files = []
    for d in COQ_DIRS:
        p = os.path.join(COQ, d)
        if os.path.isdir(p):
            for root, _, fs in os.walk(p):
                for f in sorted(fs):
                    if f.endswith(".v"):
                        files.append(os.path.relpath(os.path.join(root, f), COQ))
    files.sort()
    content = "-Q . Opcua\n-arg -w -arg -notation-overridden,-deprecated-hint-without-locality,-deprecated-instance-without-locality\n" + "\n".join(files) + "\n"
    changed = write_if_changed(os.path.join(COQ, "_CoqProject"), content)
    if changed or not os.path.exists(os.path.join(COQ, "Makefile.coq")):
        rc, log = sh(["coq_makefile", "-f", "_CoqProject", "-o", "Makefile.coq"], cwd=COQ, timeout=120)
        if rc != 0:
            raise RuntimeError("coq_makefile failed: " + log)


def coq_make(targets, timeout=1500, jobs=16):
    """make the given .vo targets (paths relative to coq/). Returns (ok, log)."""
    with Lock("coq"):
        coq_project()
        cmd = ["make", "-f", "Makefile.coq", "-j%d" % jobs] + list(targets)
        rc, log = sh(cmd, cwd=COQ, timeout=timeout)
    return rc == 0, log


def coq_props(pid, extra_targets=(), timeout=1500):
    """Recompile Props/<pid>.v (after its dependencies) and report the proof obligations.

    Returns dict(ok, obligations, discharged, theorems, assumptions, log, failed_at)."""
    rel = "Props/%s.v" % pid
    src = os.path.join(COQ, rel)
    with open(src) as f:
        text = f.read()
    theorems = re.findall(r"^\s*(?:Theorem|Corollary)\s+([A-Za-z0-9_']+)", text, re.M)
    with Lock("coq"):
        coq_project()
        for ext in (".vo", ".glob", ".vok", ".vos"):
            try:
                os.remove(os.path.join(COQ, "Props/%s%s" % (pid, ext)))
            except FileNotFoundError:
                pass
        cmd = ["make", "-f", "Makefile.coq", "-j16"] + list(extra_targets) + ["Props/%s.vo" % pid]
        rc, log = sh(cmd, cwd=COQ, timeout=timeout)
    ok = rc == 0 and os.path.exists(os.path.join(COQ, "Props/%s.vo" % pid))
    assumptions = {}
    # Print Assumptions output: either "Closed under the global context" or "Axioms:\n name : type ..."
    # We print a marker before each via `Print Assumptions thm.`; collect sequentially.
    chunks = re.split(r"(?m)^(?=Closed under the global context|Axioms:)", log)
    pa = re.findall(r"Print Assumptions\s+([A-Za-z0-9_']+)\s*\.", text)
    outs = [c for c in chunks if c.startswith("Closed under") or c.startswith("Axioms:")]
    for name, o in zip(pa, outs):
        o = o.strip()
        if o.startswith("Closed under"):
            assumptions[name] = "Closed under the global context"
        else:
            # cut at the first line that does not look like part of the axiom list
            lines = []
            for ln in o.splitlines():
                if ln.startswith("make") or ln.startswith("COQC") or ln.startswith("File "):
                    break
                lines.append(ln)
            assumptions[name] = "\n".join(lines)
    failed_at = None
    if not ok:
        m = re.search(r'File "([^"]+)", line (\d+), characters [\d-]+:\n((?:.*\n){0,12})', log)
        if m:
            failed_at = {"file": m.group(1), "line": int(m.group(2)), "message": m.group(3).strip()[:1500]}
            # try to name the enclosing theorem/lemma
            try:
                fn = m.group(1)
                if not os.path.isabs(fn):
                    fn = os.path.join(COQ, fn)
                with open(fn) as f:
                    src_lines = f.read().splitlines()
                for i in range(min(int(m.group(2)), len(src_lines)) - 1, -1, -1):
                    mm = re.match(r"\s*(Theorem|Lemma|Corollary|Example|Definition|Fixpoint|Fact|Remark)\s+([A-Za-z0-9_']+)", src_lines[i])
                    if mm:
                        failed_at["item"] = mm.group(2)
                        break
            except Exception:
                pass
    discharged = len(theorems) if ok else 0
    return dict(ok=ok, obligations=len(theorems), discharged=discharged, theorems=theorems,
                assumptions=assumptions, log=log, failed_at=failed_at)


def coq_eval(vfile, timeout=900):
    """Compile a single .v file outside the project (e.g. work/<id>/Cases.v) against the built library.
    Returns (ok, stdout)."""
    d = os.path.dirname(vfile)
    rc, log = sh(["coqc", "-Q", COQ, "Opcua", "-w", "-notation-overridden", os.path.basename(vfile)], cwd=d, timeout=timeout)
    return rc == 0, log


def coq_str(b):
    """Render bytes as a Coq `list N` literal body: [1;2;3]%N"""
    return "[" + ";".join(str(x) for x in b) + "]"


# ----------------------------------------------------------------------------------------------
# Known findings

def known_findings(pid):
    """Return list of dict(key, text) for `known:` entries of this property, and list of fixed entries."""
    known, fixed = [], []
    if not os.path.exists(KNOWN):
        return known, fixed
    with open(KNOWN) as f:
        for ln in f:
            ln = ln.strip()
            if not ln or ln.startswith("#"):
                continue
            m = re.match(r"known:\s+property=(\S+)\s+key=(\S+)\s+(.*)$", ln)
            if m and m.group(1) == pid:
                known.append({"key": m.group(2), "text": m.group(3)})
            m = re.match(r"fixed:\s+property=(\S+)\s+(\S+)\s+(.*)$", ln)
            if m and m.group(1) == pid:
                fixed.append({"commit": m.group(2), "text": m.group(3)})
    return known, fixed


# ----------------------------------------------------------------------------------------------

class Run:
    def __init__(self, pid, tier="quick", seed=None, replay=None):
        self.pid = pid
        self.tier = tier
        self.seed = int(seed if seed is not None else os.environ.get("VERIF_SEED", "1") or 1)
        self.replay = replay
        self.t0 = time.time()
        self.work = os.path.join(WORK, pid)
        os.makedirs(self.work, exist_ok=True)
        os.makedirs(EVID, exist_ok=True)
        self.violations = []       # list of (replay_path, no_input)
        self.known_hits = []
        self.coverage = {}
        self.assumptions = []
        self.level = "proof"
        self.notes = []
        self.known, self.fixed = known_findings(pid)

    # -- logging
    def log(self, *a):
        print("[%s %6.1fs]" % (self.pid, time.time() - self.t0), *a, flush=True)

    def thorough(self):
        return self.tier == "thorough"

    # -- building blocks
    def go_build(self, name, race=False):
        path, log = go_build(name, race)
        if path is None:
            self.log("go build failed:\n" + log[-3000:])
        return path, log

    def regen(self, what):
        """Run the translator for Gen targets `what` (list of names). Returns (ok, log)."""
        tr, log = self.go_build("translate")
        if tr is None:
            return False, log
        os.makedirs(os.path.join(COQ, "Gen"), exist_ok=True)
        rc, out = sh([tr, "-repo", REPO, "-out", os.path.join(COQ, "Gen")] + list(what), timeout=600, env=GOENV)
        return rc == 0, out

    def props(self, extra_targets=(), timeout=1500):
        r = coq_props(self.pid, extra_targets, timeout)
        self.coverage["obligations"] = r["obligations"]
        self.coverage["discharged"] = r["discharged"]
        self.coverage["theorems"] = r["theorems"]
        self.coverage["print_assumptions"] = r["assumptions"]
        self.coverage["checker_cmd"] = "make -f Makefile.coq Props/%s.vo (coqc 8.16.1, full .vo build; coqchk -silent -o in the thorough tier)" % self.pid
        if not r["ok"]:
            self.log("Coq build of Props/%s.v FAILED" % self.pid)
            self.log(r["log"][-2500:])
        else:
            self.log("Props/%s.vo: %d theorems accepted by the kernel" % (self.pid, r["obligations"]))
        return r

    def coqchk(self, timeout=3000):
        with Lock("coq"):
            rc, log = sh(["coqchk", "-silent", "-o", "-Q", ".", "Opcua", "Opcua.Props.%s" % self.pid], cwd=COQ, timeout=timeout)
        self.coverage["coqchk"] = {"rc": rc, "tail": log[-1500:]}
        return rc == 0, log

    def eval_cases(self, imports, ctype, lines, agree_body, shard=1500, timeout=900, name="Cases"):
        """Correspondence inside Coq.  `lines` are Coq terms of type `ctype` (one per case, the inputs and the
        observables the implementation produced); `agree_body` is the body of
        `Definition agree (c : ctype) : bool := ...` that recomputes the observables with the model and compares.
        Evaluated with vm_compute by coqc, in shards.  Returns (ok, mismatching case indices, log)."""
        import concurrent.futures
        shards = [lines[i:i + shard] for i in range(0, len(lines), shard)] or [[]]
        files = []
        for k, sh_lines in enumerate(shards):
            src = "%s\nDefinition cases : list (%s) := [\n%s\n].\nDefinition agree (c : %s) : bool :=\n%s.\n" % (
                imports, ctype, ";\n".join(sh_lines), ctype, agree_body)
            src += ("Definition mism := Eval vm_compute in map fst (filter (fun ic => negb (agree (snd ic))) "
                    "(combine (seq 0 (List.length cases)) cases)).\nPrint mism.\n")
            f = os.path.join(self.work, "%s%d.v" % (name, k))
            with open(f, "w") as fh:
                fh.write(src)
            files.append(f)
        ok, mism, logs = True, [], []
        with concurrent.futures.ThreadPoolExecutor(max_workers=8) as ex:
            results = list(ex.map(lambda f: coq_eval(f, timeout), files))
        for k, (okc, out) in enumerate(results):
            m = re.search(r"mism\s*=\s*(\[[^\]]*\])", out.replace("\n", " "))
            if not okc or not m:
                ok = False
                logs.append(out[-1500:])
                continue
            mism += [k * shard + int(x) for x in re.findall(r"\d+", m.group(1))]
        return ok, mism, "\n".join(logs)

    def conclude(self, proof_ok, corr_ok, new_violations, detail, what=None):
        """Standard verdict: if a proof obligation or the correspondence broke and the oracle search produced no
        new concrete violation, report the broken tie with no-failing-input-found."""
        if (not proof_ok or not corr_ok) and new_violations == 0:
            self.broken_tie(what or ("%s: theorems or the model/implementation correspondence no longer check" % self.pid), detail)

    # -- verdicts
    def is_known(self, key):
        for k in self.known:
            if k["key"] == key:
                return k
        return None

    def finding(self, key, what, replay_obj):
        """Report a property failure observed on the implementation.
        If `key` is listed in known_findings.txt it is printed as KNOWN-FINDING, else it is a violation."""
        k = self.is_known(key)
        if k:
            if key not in self.known_hits:
                self.known_hits.append(key)
                print("KNOWN-FINDING: property=%s %s [%s]" % (self.pid, k["text"], key), flush=True)
            return False
        self.violation(dict(replay_obj, key=key, what=what))
        return True

    def violation(self, replay_obj, no_input=False):
        n = len(self.violations)
        path = os.path.join(self.work, "replay-%d.json" % n)
        replay_obj = dict(replay_obj)
        replay_obj.setdefault("property", self.pid)
        replay_obj.setdefault("seed", self.seed)
        replay_obj["no_failing_input_found"] = bool(no_input)
        with open(path, "w") as f:
            json.dump(replay_obj, f, indent=1, default=str)
        self.violations.append((path, no_input))
        if n >= 6:   # keep the output readable; everything is still counted and written
            return
        line = "VIOLATION property=%s replay=%s" % (self.pid, path)
        if no_input:
            line += " no-failing-input-found"
        print(line, flush=True)

    def broken_tie(self, what, detail):
        """A proof obligation or the correspondence no longer checks and no failing input was found."""
        self.violation({"broken": what, "detail": detail}, no_input=True)

    # -- evidence
    def finish(self, trusted_base=None, extra_assumptions=None):
        cov = dict(self.coverage)
        cov.setdefault("trusted_base", trusted_base or DEFAULT_TRUSTED_BASE)
        cov.setdefault("obligations", 0)
        cov.setdefault("discharged", 0)
        cov.setdefault("checker_cmd", "coqc 8.16.1")
        cov.setdefault("evaluations", 0)
        cov.setdefault("distinct_nontrivial", 0)
        cov.setdefault("samples", [])
        cov["known_findings_reproduced"] = self.known_hits
        cov["notes"] = self.notes
        level = self.level
        if level == "proof" and (cov["obligations"] < 1 or cov["discharged"] < 1):
            # never claim a proof-level run without discharged obligations
            level = "other"
            cov.setdefault("explanation", "proof obligations were not discharged in this run; see violations")
        ev = {
            "property_id": self.pid,
            "tier": self.tier,
            "seed": self.seed,
            "level": level,
            "coverage": cov,
            "assumptions": (extra_assumptions or []) + self.assumptions,
            "wall_s": round(time.time() - self.t0, 2),
            "violations": len(self.violations),
        }
        with open(os.path.join(EVID, self.pid + ".json"), "w") as f:
            json.dump(ev, f, indent=1, default=str)
        self.log("evidence written; violations=%d known=%d wall=%.1fs" % (len(self.violations), len(self.known_hits), ev["wall_s"]))
        return 1 if self.violations else 0


DEFAULT_TRUSTED_BASE = [
    "Coq 8.16.1 kernel (coqc; vm_compute used, native_compute not used); coqchk in the thorough tier",
    "no Axiom/Parameter/Admitted in the development; Print Assumptions output per theorem is in coverage.print_assumptions",
    "Go translator go/cmd/translate (go/ast, reflect) producing coq/Gen/*.v from /repo's working tree",
    "correspondence harness (Go, -tags verif hooks) and vm_compute evaluation of work/<id>/Cases.v",
]


def prng(seed):
    """Deterministic 64-bit PRNG (splitmix64) so python-side choices replay exactly."""
    state = [seed & 0xFFFFFFFFFFFFFFFF]

    def nxt():
        state[0] = (state[0] + 0x9E3779B97F4A7C15) & 0xFFFFFFFFFFFFFFFF
        z = state[0]
        z = ((z ^ (z >> 30)) * 0xBF58476D1CE4E5B9) & 0xFFFFFFFFFFFFFFFF
        z = ((z ^ (z >> 27)) * 0x94D049BB133111EB) & 0xFFFFFFFFFFFFFFFF
        return z ^ (z >> 31)
    return nxt
