"""C21 — client calls never panic on any well-formed (decodable) server response."""
import collections, json, os
import vf

KIND = ["KExpected", "KFault", "KBadResult", "KWrongType"]
VK = ["VNull", "VQName", "VLText", "VByte", "VInt32", "VStrArr", "VInt32ArrEmpty", "VInt32Arr", "VString", "VEOArr"]
HELPER = ["HNodeClass", "HBrowseName", "HDescription", "HDisplayName", "HAccessLevel", "HUserAccessLevel", "HValue",
          "HNamespaceArray", "HStats"]
DK = ["DNotification", "DNotification", "DNil", "DOther"]
CODE = {"value": 0, "error": 1, "panic": 2}

IMPORTS = """From Coq Require Import List String Bool Arith.
From Opcua Require Import Model.ClientGuards Model.ClientOps Proofs.ClientOpsProofs Gen.ClientSites Props.C21.
Import List. Import ListNotations. Open Scope list_scope. Open Scope nat_scope.
Definition oc (o : outcome) : nat * nat * nat := match o with Value => (0,0,0) | Error => (1,0,0) | Panic => (2,0,0) end.
Definition cnt (n : note) (l : list note) : nat := List.length (filter (fun x => match x, n with NValue, NValue | NError, NError => true | _, _ => false end) l).
Definition pub (o : option (list note)) : nat * nat * nat := match o with None => (2,0,0) | Some l => (0, cnt NValue l, cnt NError l) end."""


def b(x):
    return "true" if x else "false"


def bits(mask, n):
    return "[" + ";".join(b(not (mask >> i) & 1) for i in range(n)) + "]"


def dv(p):
    v = VK[p["vk"]] if p["hasval"] == 1 else "VNull"
    return "{| dv_value := %s; dv_good := %s |}" % (v, b(p["stbad"] == 0))


def model_term(c):
    """Coq term of type nat*nat*nat: the model's (outcome code, values, errors) for the case."""
    op, p, L = c["op"], collections.defaultdict(int, c.get("p") or {}), c.get("l") or []
    k = KIND[p.get("kind", 0)]
    if op == "attr":
        return "oc (impl_node_helper %s %s %d %s)" % (HELPER[p["helper"]], k, p["nres"], dv(p))
    if op == "connect":
        return "oc (impl_connect %s %s %d %s)" % (KIND[p["cskind"]], k, p["nres"], dv(p))
    if op == "refs":
        tr = ["(%s, %d, %s)" % (KIND[L[i]], L[i + 1], b(L[i + 2])) for i in range(0, len(L), 3)]
        return "oc (impl_references %s [%s])" % (tr[0], ";".join(tr[1:]))
    if op == "call":
        return "oc (impl_call %s %d)" % (k, p["nres"])
    if op == "translate":
        return "oc (impl_translate %s %d %s %d)" % (k, p["nres"], b(p["stbad"] == 0), p["ntargets"])
    if op == "monitor":
        return "oc (impl_monitor %s %d %d)" % (k, p["nitems"], p["nres"])
    if op == "monadd":
        return "oc (impl_monitor_pkg_add %s %d %s)" % (k, p["nitems"], bits(p["stmask"], p["nres"]))
    if op == "modify":
        return "oc (impl_modify %s %d %s)" % (k, p["nmod"], bits(p["stmask"], p["nres"]))
    if op == "cancel":
        return "oc (impl_cancel %s %d %s)" % (k, p["nres"], b(p["stbad"] == 0))
    if op == "simple":
        if p["which"] == 10:
            return "oc (subscribe %s %s)" % (k, b(p["subid0"] == 1))
        return "oc (simple %s)" % k
    if op == "publish":
        rs = []
        for i in range(0, len(L), 5):
            kind, known, nacks, ndata, dkind = L[i:i + 5]
            rs.append("{| p_kind := %s; p_known := %s; p_nacks := %d; p_retry := %s; p_data := [%s] |}" % (
                KIND[kind], b(known), nacks % 10, b(nacks >= 10), ";".join([DK[dkind]] * ndata)))
        return "pub (impl_publish_loop 0 [%s])" % ";".join(rs)
    if op == "transfer":
        t = {0: "TOk", 1: "TFailed", 3: "TFailed", 4: "TUnsupported"}[p["tkind"]]
        inv = "[" + ";".join(b((p["tinvalid"] >> i) & 1) for i in range(p["tnres"])) + "]"
        return "oc (impl_reconnect %s %d %s %s %d %s)" % (t, p["nsubs"], inv, k, p["nitems"], bits(p["stmask"], p["nres"]))
    raise ValueError("unknown op " + op)


def observed(o):
    if o["outcome"] not in CODE:
        return None
    code = CODE[o["outcome"]]
    v = e = 0
    if o["case"]["op"] == "publish" and code != 2:
        for s in o.get("obs") or []:
            if s.startswith("values="):
                v = int(s[7:])
            if s.startswith("errors="):
                e = int(s[7:])
        code = 0
    return (code, v, e)


def shape_key(c):
    return json.dumps([c["op"], sorted((c.get("p") or {}).items()), c.get("l")])


def run(ctx):
    n = 2400 if ctx.thorough() else 560
    proof_ok, detail = True, {}
    ok, out = ctx.regen(["clientsites"])
    if not ok:
        proof_ok = False
        detail["translator"] = out[-2000:]
        ctx.log("translator failed: " + out[-800:])
    r = ctx.props() if ok else None
    if r is not None and not r["ok"]:
        proof_ok = False
        detail["coq"] = r["failed_at"] or r["log"][-1500:]
    if ctx.thorough() and proof_ok:
        ok2, log = ctx.coqchk()
        if not ok2:
            proof_ok = False
            detail["coqchk"] = log[-1500:]

    h, log = ctx.go_build("clientharness")
    if h is None:
        ctx.broken_tie("harness does not build against /repo", log[-2000:])
        return
    obs = []
    # corpus first: the minimised inputs that crashed the client before the fix commits
    corpus = os.path.join(vf.VERIF, "corpus", "C21", "prefix_panics.json")
    replays = []
    if ctx.replay:
        replays = [ctx.replay]
    elif os.path.exists(corpus):
        for i, e in enumerate(json.load(open(corpus))):
            f = os.path.join(ctx.work, "corpus-%d.json" % i)
            json.dump({"case": e["case"]}, open(f, "w"))
            replays.append(f)
    for f in replays:
        rc, out = vf.sh([h, "c21", "-replay", f], timeout=120, env=vf.GOENV)
        for l in out.splitlines():
            if l.startswith("{"):
                o = json.loads(l)
                o["from"] = "replay" if ctx.replay else "corpus"
                obs.append(o)
    if not ctx.replay:
        rc, out = vf.sh([h, "c21", "-seed", str(ctx.seed), "-n", str(n)], timeout=1500, env=vf.GOENV)
        gen = [json.loads(l) for l in out.splitlines() if l.startswith("{")]
        if rc != 0 or not gen:
            ctx.broken_tie("harness crashed", out[-2000:])
            return
        obs += gen

    # correspondence: Props.C21.impl_* (the models with the guards the code has today) evaluated inside Coq
    corr_ok, mism = True, []
    usable = [o for o in obs if observed(o) is not None]
    odd = [o for o in obs if observed(o) is None]
    if ok and (r is None or r["ok"]):
        # a publish answer with a Bad ServiceResult is reported to the subscription by a goroutine AND stops the client
        # (auto-reconnect is off in the harness): that goroutine may find its context cancelled, so the last error
        # notification of such a script may or may not arrive
        def strict(o):
            c = o["case"]
            return not (c["op"] == "publish" and c["l"][-5] == 2)
        lines = ["((%d,%d,%d,%s), %s)" % (observed(o) + (b(strict(o)), model_term(o["case"]))) for o in usable]
        okc, idx, clog = ctx.eval_cases(IMPORTS, "(nat*nat*nat*bool) * (nat*nat*nat)", lines,
                                        "  let '((a,b,c,strict),(x,y,z)) := c in (a =? x) && (b =? y) && ((c =? z) || (negb strict && (S c =? z)))")
        if not okc:
            corr_ok = False
            detail["cases"] = clog
        elif idx:
            corr_ok = False
            mism = [usable[i] for i in idx]
            detail["model_vs_impl_mismatches"] = mism[:10]
    else:
        corr_ok = False

    # oracle: the property itself on the implementation's observations
    new, seen = 0, set()
    for o in obs:
        c = dict(o["case"])
        c.pop("url", None)
        if o["outcome"] == "panic":
            key = "panic/%s/%s" % (c["op"], (o.get("where") or "?").replace(" ", ""))
            what = "client process panicked on a decodable response: %s at %s" % (o.get("panic"), o.get("where"))
        elif o["outcome"] in ("hang", "died"):
            key = "%s/%s" % (o["outcome"], c["op"])
            what = "client call did not return / process died: " + (o.get("err") or "")[:300]
        else:
            continue
        if key in seen:
            continue
        seen.add(key)
        if ctx.finding(key, what, {"case": c, "observed": {k: o.get(k) for k in ("outcome", "panic", "where", "err")},
                                   "how": "work/bin/clientharness c21 -replay <this file> (scripted server sends the shape, client runs in a child process)"}):
            new += 1
    for o in odd:
        if o["outcome"] in ("hang", "died"):
            continue
        corr_ok = False
        detail.setdefault("unclassified", []).append(o)
    if mism and new == 0:
        # model and implementation disagree without a panic: report the first disagreeing shapes as replays
        for o in mism[:3]:
            c = dict(o["case"])
            c.pop("url", None)
            ctx.violation({"case": c, "observed": o["outcome"], "obs": o.get("obs"), "err": o.get("err"),
                           "what": "implementation outcome differs from the model (Props.C21.impl_*) on this response shape",
                           "key": "mismatch/" + c["op"]})
            new += 1

    per_op = collections.Counter((o["case"]["op"], o["outcome"]) for o in obs)
    ctx.coverage.update({
        "evaluations": len(obs),
        "distinct_nontrivial": len({shape_key(o["case"]) for o in obs if o["case"].get("p", {}).get("kind", 0) == 0 or o["case"]["op"] in ("refs", "publish")}),
        "rule": "response shapes drawn from the seeded PRNG per operation (18-slot op rotation): response kind {expected 60%, fault, bad ServiceResult, wrong type}, result-array lengths 0..4 against 1..3 requested items, 10 variant kinds x value present/absent x status, continuation chains up to 4 responses, publish scripts up to 4 responses, reconnect with transfer results 0..3 for 1..2 subscriptions; distinct = distinct shapes whose main response is of the expected kind",
        "samples": [{k: o.get(k) for k in ("case", "outcome", "err", "obs")} for o in obs[len(replays):len(replays) + 3] + obs[-2:]],
        "outcomes_per_operation": {"%s/%s" % k: v for k, v in sorted(per_op.items())},
        "corpus_cases": len(replays),
        "traces_validated_against_impl": len(usable),
        "model_impl_mismatches": len(mism),
        "sites_in_generated_table": None,
    })
    try:
        txt = open(os.path.join(vf.COQ, "Gen", "ClientSites.v")).read()
        ctx.coverage["sites_in_generated_table"] = txt.count("s_file :=")
    except Exception:
        pass
    ctx.assumptions += [
        "well-formed = decodable: every struct pointer in a decoded response is non-nil and DataValue.Decode allocates Value (ua decoder behaviour, exercised by the run, not proved here)",
        "guard recognition is syntactic (go/cmd/translate/clientsites.go): an unrecognised guard counts as no guard",
    ]
    ctx.conclude(proof_ok, corr_ok, new, detail)
