"""C09 — tampered, truncated or forged secured chunks are rejected."""
import json
import vf, recvlib, C13
from recvlib import hexN

IMPORTS = """From Coq Require Import NArith ZArith List Bool.
From Opcua Require Import Model.RecvBase Model.RecvCrypto.
Import ListNotations. Open Scope Z_scope.
Inductive iout := IOk (d : bytes) | ISec | IDec | IPanic | IOther.
Definition md (n : Z) : smode := if n =? 2 then SSign else if n =? 3 then SSignEnc else SNone."""

CTYPE = "(Z * N * N * Z * Z) * (Z * bool) * bytes * iout"

AGREE = """  let '((block, kc, km, sl, rsl), (mode, pn), r, o) := c in
  match verify_chunk (toy_dec block kc) (toy_verify km) rsl sl (md mode) pn true r, o with
  | Ok d, IOk d' => bytes_eqb d d'
  | Err 1%N, ISec => true
  | Err 2%N, IDec => true
  | Panic _, IPanic => true
  | _, _ => false
  end"""


def iout(c):
    k = c["k"]
    if k == "ok":
        return "IOk %s%%N" % hexN(c.get("data", ""))
    return {"secerr": "ISec", "decerr": "IDec", "panic": "IPanic"}.get(k, "IOther")


def term(c):
    p = c["p"]
    return "((%d, %d%%N, %d%%N, %d, %d), (%d, %s), %s%%N, %s)" % (
        p["block"], p["kc"], p["km"], p["sl"], p["rsl"], c["mode"], "true" if c["pnone"] else "false", hexN(c["chunk"]), iout(c))


def oracle(c):
    """The property on the implementation: secured mode, chunk is not the one the peer produced => not delivered, no panic."""
    if c["k"] == "panic":
        return "receive path panicked: " + c.get("err", "")
    secured = c["mode"] in (2, 3)
    if secured and not c["same"] and c["k"] in ("ok", "deliver"):
        return "a chunk that differs from what the peer produced (%s) was accepted" % c["mut"]
    if secured and c["same"] and c["k"] not in ("ok", "deliver"):
        return "the peer's own chunk was rejected (%s)" % c["k"]
    return None


def key_of(c, why):
    if c["k"] == "panic":
        return "panic-" + ("short" if c["mut"].startswith("trunc") or c["mut"] == "garbage" else "other")
    return "accepted-" + c["mut"].split("@")[0].rstrip("0123456789")


def run(ctx):
    rp = recvlib.replay_case(ctx)
    n = 6 if ctx.thorough() else 1
    proof_ok, detail = (True, {}) if rp else recvlib.prove(ctx)
    obs = recvlib.harness(ctx, ["-n", n, "c09"])
    if obs is None:
        return
    if rp is not None:
        want = rp.get("case", {})
        obs = [c for c in obs if c["name"] == want.get("name") and c["mut"] == want.get("mut") and c["mode"] == want.get("mode")
               and c.get("policy") == want.get("policy") and c.get("kind") == want.get("kind")] or obs
        ctx.level = "other"
        ctx.coverage["explanation"] = "replay run (cases of the recorded class re-generated from the seed and re-run)"
    chan = [c for c in obs if c["name"].startswith("chan")]
    opens = [c for c in obs if c["name"] == "open"]
    obs = [c for c in obs if not c["name"].startswith("chan") and c["name"] != "open"]
    toy = [c for c in obs if c["name"].startswith("toy")]
    real = [c for c in obs if c["name"] == "real"]
    fails = [(oracle(c), c) for c in obs]
    fails = [(w, c) for w, c in fails if w]
    # channel level: forged frames through readChunk on secured channels
    chan_fails = []
    for c in chan:
        for n_, f in enumerate(c["frames"]):
            why = None
            if f["k"] == "panic":
                why = "readChunk panicked on a forged frame: " + f.get("err", "")
            elif f["k"] == "chunk" and not f.get("own"):
                why = "secured channel (%s, mode %d) handed on a chunk that was not produced with its keys: %s (frame %d)" % (c["kind"], c["mode"], f.get("what"), n_)
            elif f["k"] != "chunk" and f.get("own"):
                why = "secured channel rejected the peer's own chunk after forged frames (frame %d, error class %s)" % (n_, f.get("e"))
            if why:
                chan_fails.append((why, dict(c, cert="", frames=c["frames"][:n_ + 1])))
                break
    # failed OpenSecureChannel exchanges must publish nothing (Props/C09.v C09_failed_open_publishes_nothing)
    open_fails = []
    for o in opens:
        failed = o["open"] != "empty"
        if o["forged"] == "deliver":
            open_fails.append(("accepted-after-failed-open", "a MSG chunk signed with the throw-away key of the OPN exchange was delivered (open returned %s, nonce length %d, %s): it was produced without any key of the channel" % (o["open"], o["nonce_len"], o["policy"]), o))
        elif failed and (o["instances"] != 0 or o["active"]):
            open_fails.append(("failed-open-published-instance", "the OpenSecureChannel exchange failed (%s %s) but %d instance(s) stay in the instance table (active: %s)" % (o["open"], o.get("open_err", "")[:60], o["instances"], o["active"]), o))
        elif o["forged"] in ("panic", "stuck"):
            open_fails.append(("panic-after-open", "receive path %s on the forged chunk after the OPN exchange" % o["forged"], o))
    corr_ok, mism, idx = True, [], []
    chan_mism = []
    if rp is None and chan:
        okc2, idx2, clog2 = ctx.eval_cases(C13.imports(chan[0]["cert"], chan[0].get("eccert", "")), C13.CTYPE, [C13.term(c) for c in chan], C13.AGREE, shard=40, name="Chan")
        if not okc2:
            corr_ok = False
            detail["chan_cases"] = clog2[-1500:]
        elif idx2:
            corr_ok = False
            chan_mism = [dict(chan[i], cert="") for i in idx2[:3]]
            detail["chan_model_vs_impl_mismatches"] = [c["name"] for c in chan_mism]
    if rp is None:
        okc, idx, clog = ctx.eval_cases(IMPORTS, CTYPE, [term(c) for c in toy], AGREE, shard=500)
        if not okc:
            corr_ok = False
            detail["cases"] = clog
        elif idx:
            corr_ok = False
            mism = [toy[i] for i in idx[:5]]
            detail["model_vs_impl_mismatches"] = mism
    kinds = {}
    for c in obs:
        k = "%s/mode%d/%s" % (c["name"][:3], c["mode"], c["k"])
        kinds[k] = kinds.get(k, 0) + 1
    ctx.coverage.update({
        "evaluations": len(obs),
        "distinct_nontrivial": len({c["chunk"] for c in obs if not c["same"]}),
        "rule": "OpenSecureChannel exchanges on real server channels (asymmetric OPN request from a throw-away certificate, client nonce null / empty / 1 byte / 32 bytes) followed by a MSG chunk signed with the throw-away key: a failed exchange must leave the instance table empty and the chunk must be rejected; channel level: secured client/server channels (Sign, SignAndEncrypt; opening instance with/without algorithm) fed through readChunk with sequences of the peer's own chunks interleaved with forged plaintext OPN chunks (policy None with and without certificate, real policy + certificate, unknown and empty policy URIs), plaintext MSG chunks and foreign channel ids, compared frame by frame with Model.RecvFrame.read_frame in Coq and checked by the oracle (nothing forged is handed on, own chunks still accepted afterwards); instance level: toy algorithm (xor cipher with block check, folding MAC; signature lengths 20/32/300) plugged into a real channelInstance: symmetric MSG and asymmetric OPN chunks x None/Sign/SignAndEncrypt, each produced by the real signAndEncrypt and then mutated (bit flips, multi-byte, truncation to EVERY length for one chunk per configuration, appended bytes, wrong MAC key, wrong cipher key, unsecured, zero signature, garbage) -> model evaluated in Coq on the same bytes; plus every registered symmetric policy x Sign/SignAndEncrypt x client/server real channels over TCP with the same mutations (oracle only); distinct = distinct mutated chunk byte strings",
        "samples": [toy[0], toy[len(toy) // 2], real[0] if real else None],
        "outcome_classes": kinds,
        "traces_validated_against_impl": len(toy),
        "real_policy_cases": len(real),
        "open_exchanges": len(opens), "open_exchanges_failed": sum(1 for o in opens if o["open"] != "empty"),
        "channel_level_sequences": len(chan), "channel_level_frames": sum(len(c["frames"]) for c in chan),
        "channel_level_forged_frames": sum(1 for c in chan for f in c["frames"] if not f.get("own")),
        "model_impl_mismatches": len(idx),
    })
    new, seen = 0, set()
    allf = [(key_of(c, why), why, c) for why, c in fails + [("model and implementation disagree on this chunk", c) for c in mism]]
    allf += [("accepted-forged-on-channel" if "panicked" not in why else "panic-channel", why, c) for why, c in chan_fails]
    allf += [(k_, why, c) for k_, why, c in open_fails]
    allf += [("channel-model-mismatch", "model (Model.RecvFrame) and implementation disagree on this frame sequence", c) for c in chan_mism]
    for key, why, c in allf:
        if key in seen:
            continue
        seen.add(key)
        if ctx.finding(key, why, {"case": c, "how": "recvharness c09 (same seed) regenerates the case; ./check C09 --replay <this file>; chunk bytes are in case.chunk"}):
            new += 1
    ctx.conclude(proof_ok, corr_ok, new, detail)
