"""C09 — tampered, truncated or forged secured chunks are rejected."""
import json
import vf, recvlib
from recvlib import hexN

IMPORTS = """From Coq Require Import NArith ZArith List Bool.
From Opcua Require Import Model.RecvBase Model.RecvCrypto.
Import ListNotations. Open Scope Z_scope.
Inductive iout := IOk (d : bytes) | ISec | IDec | IPanic | IOther.
Definition md (n : Z) : smode := if n =? 2 then SSign else if n =? 3 then SSignEnc else SNone."""

CTYPE = "(Z * N * N * Z * Z) * (Z * bool) * bytes * iout"

AGREE = """  let '((block, kc, km, sl, rsl), (mode, pn), r, o) := c in
  match verify_chunk (toy_dec block kc) (toy_verify km) rsl sl (md mode) pn true r, o with
  | Ok d, IOk d' => bytes_eqb d d'
  | Err 1%N, ISec => true
  | Err 2%N, IDec => true
  | Panic _, IPanic => true
  | _, _ => false
  end"""


def iout(c):
    k = c["k"]
    if k == "ok":
        return "IOk %s%%N" % hexN(c.get("data", ""))
    return {"secerr": "ISec", "decerr": "IDec", "panic": "IPanic"}.get(k, "IOther")


def term(c):
    p = c["p"]
    return "((%d, %d%%N, %d%%N, %d, %d), (%d, %s), %s%%N, %s)" % (
        p["block"], p["kc"], p["km"], p["sl"], p["rsl"], c["mode"], "true" if c["pnone"] else "false", hexN(c["chunk"]), iout(c))


def oracle(c):
    """The property on the implementation: secured mode, chunk is not the one the peer produced => not delivered, no panic."""
    if c["k"] == "panic":
        return "receive path panicked: " + c.get("err", "")
    secured = c["mode"] in (2, 3)
    if secured and not c["same"] and c["k"] in ("ok", "deliver"):
        return "a chunk that differs from what the peer produced (%s) was accepted" % c["mut"]
    if secured and c["same"] and c["k"] not in ("ok", "deliver"):
        return "the peer's own chunk was rejected (%s)" % c["k"]
    return None


def key_of(c, why):
    if c["k"] == "panic":
        return "panic-" + ("short" if c["mut"].startswith("trunc") or c["mut"] == "garbage" else "other")
    return "accepted-" + c["mut"].split("@")[0].rstrip("0123456789")


def run(ctx):
    rp = recvlib.replay_case(ctx)
    n = 6 if ctx.thorough() else 1
    proof_ok, detail = (True, {}) if rp else recvlib.prove(ctx)
    obs = recvlib.harness(ctx, ["-n", n, "c09"])
    if obs is None:
        return
    if rp is not None:
        want = rp.get("case", {})
        obs = [c for c in obs if c["name"] == want.get("name") and c["mut"] == want.get("mut") and c["mode"] == want.get("mode")
               and c.get("policy") == want.get("policy") and c.get("kind") == want.get("kind")] or obs
        ctx.level = "other"
        ctx.coverage["explanation"] = "replay run (cases of the recorded class re-generated from the seed and re-run)"
    toy = [c for c in obs if c["name"].startswith("toy")]
    real = [c for c in obs if c["name"] == "real"]
    fails = [(oracle(c), c) for c in obs]
    fails = [(w, c) for w, c in fails if w]
    corr_ok, mism, idx = True, [], []
    if rp is None:
        okc, idx, clog = ctx.eval_cases(IMPORTS, CTYPE, [term(c) for c in toy], AGREE, shard=500)
        if not okc:
            corr_ok = False
            detail["cases"] = clog
        elif idx:
            corr_ok = False
            mism = [toy[i] for i in idx[:5]]
            detail["model_vs_impl_mismatches"] = mism
    kinds = {}
    for c in obs:
        k = "%s/mode%d/%s" % (c["name"][:3], c["mode"], c["k"])
        kinds[k] = kinds.get(k, 0) + 1
    ctx.coverage.update({
        "evaluations": len(obs),
        "distinct_nontrivial": len({c["chunk"] for c in obs if not c["same"]}),
        "rule": "toy algorithm (xor cipher with block check, folding MAC; signature lengths 20/32/300) plugged into a real channelInstance: symmetric MSG and asymmetric OPN chunks x None/Sign/SignAndEncrypt, each produced by the real signAndEncrypt and then mutated (bit flips, multi-byte, truncation to EVERY length for one chunk per configuration, appended bytes, wrong MAC key, wrong cipher key, unsecured, zero signature, garbage) -> model evaluated in Coq on the same bytes; plus every registered symmetric policy x Sign/SignAndEncrypt x client/server real channels over TCP with the same mutations (oracle only); distinct = distinct mutated chunk byte strings",
        "samples": [toy[0], toy[len(toy) // 2], real[0] if real else None],
        "outcome_classes": kinds,
        "traces_validated_against_impl": len(toy),
        "real_policy_cases": len(real),
        "model_impl_mismatches": len(idx),
    })
    new, seen = 0, set()
    for why, c in fails + [("model and implementation disagree on this chunk", c) for c in mism]:
        key = key_of(c, why)
        if key in seen:
            continue
        seen.add(key)
        if ctx.finding(key, why, {"case": c, "how": "recvharness c09 (same seed) regenerates the case; ./check C09 --replay <this file>; chunk bytes are in case.chunk"}):
            new += 1
    ctx.conclude(proof_ok, corr_ok, new, detail)
