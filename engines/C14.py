"""C14 — symmetric keys follow Part 6 P_SHA and are direction-separated."""
import hashlib, hmac, json
import vf

IMPORTS = """From Coq Require Import ZArith Bool String.
From Coq Require Import List.
From Coq.Strings Require Import Byte.
From Opcua Require Import Model.ChunkBytes Model.CryptoSha Model.CryptoKdf Gen.SymKeys.
Import ListNotations. Open Scope Z_scope.
Definition real_hm (H : hash_id) := match H with HSha1 => hmac_sha1 | HSha256 => hmac_sha256 end."""

# keys: (file, ln, rn, [enc_key; enc_iv; dec_key; dec_iv; sign_key; verify_key])
KEYS_T = "string * string * string * list string"
KEYS_AGREE = """  let '(file, ln, rn, ks) := c in
  match find (fun r => String.eqb (sk_file r) file) symkeys_rows with
  | Some row =>
    match sym_keys_of real_hm row (unhex ln) (unhex rn) with
    | Ok k => forallb (fun xy => bytes_eqb (fst xy) (unhex (snd xy)))
                (combine [k_enc_key k; k_enc_iv k; k_dec_key k; k_dec_iv k; k_sign_key k; k_verify_key k] ks)
              && (length ks =? 6)%nat
    | _ => false
    end
  | None => false
  end"""
# gen: (hash (1|256), secret, seed, (sl, el, bl), [signing; encryption; iv])
GEN_T = "Z * string * string * (Z*Z*Z) * list string"
GEN_AGREE = """  let '(h, secret, seed, (sl, el, bl), outs) := c in
  match generate_keys (real_hm (if h =? 1 then HSha1 else HSha256) (unhex secret)) (unhex seed) sl el bl with
  | Ok d => forallb (fun xy => bytes_eqb (fst xy) (unhex (snd xy))) (combine [d_signing d; d_encryption d; d_iv d] outs)
            && (length outs =? 3)%nat
  | _ => false
  end"""

FILE = {"Aes128_Sha256_RsaOaep": "policyAes128Sha256RsaOaep.go", "Aes256_Sha256_RsaPss": "policyAes256Sha256RsaPss.go",
        "Basic128Rsa15": "policyBasic128Rsa15.go", "Basic256": "policyBasic256.go", "Basic256Sha256": "policyBasic256Sha256.go"}
# Part 7 profile table (independent of the Coq copy): hash, signing key, encrypting key lengths in bytes
PART7 = {"Aes128_Sha256_RsaOaep": (hashlib.sha256, 32, 16), "Aes256_Sha256_RsaPss": (hashlib.sha256, 32, 32),
         "Basic128Rsa15": (hashlib.sha1, 16, 16), "Basic256": (hashlib.sha1, 24, 32), "Basic256Sha256": (hashlib.sha256, 32, 32)}


def p_hash(h, secret, seed, n):
    out, a = b"", seed
    while len(out) < n:
        a = hmac.new(secret, a, h).digest()
        out += hmac.new(secret, a + seed, h).digest()
    return out[:n]


def oracle(o):
    if o["kind"] == "keys":
        if o.get("err"):
            return "Symmetric() failed: " + o["err"]
        h, sl, el = PART7[o["policy"]]
        ln, rn = bytes.fromhex(o["ln"]), bytes.fromhex(o["rn"])
        own = p_hash(h, rn, ln, sl + el + 16)      # own keys: secret = peer nonce, seed = own nonce
        peer = p_hash(h, ln, rn, sl + el + 16)
        want = {"SignKey": own[:sl], "EncKey": own[sl:sl + el], "EncIV": own[sl + el:],
                "VerifyKey": peer[:sl], "DecKey": peer[sl:sl + el], "DecIV": peer[sl + el:]}
        for k, v in want.items():
            if o.get(k, "") != v.hex():
                return "%s differs from the Part 6 P_SHA derivation" % k
    elif o["kind"] == "gen":
        h = hashlib.sha1 if o["hash"] == "sha1" else hashlib.sha256
        p = p_hash(h, bytes.fromhex(o.get("secret", "")), bytes.fromhex(o.get("seed", "")), o["SL"] + o["EL"] + o["BL"])
        if (o.get("Signing", ""), o.get("Encryption", ""), o.get("IV", "")) != (
                p[:o["SL"]].hex(), p[o["SL"]:o["SL"] + o["EL"]].hex(), p[o["SL"] + o["EL"]:].hex()):
            return "generateKeys output differs from P_hash slices"
    else:
        if o.get("err"):
            return "securing a chunk failed: " + o["err"]
        if not o["peer_accepted"] or not o["peer_reverse"]:
            return "peer cannot verify/decrypt the other side's chunk (keys not paired)"
        if not o["self_rejected"]:
            return "reflected chunk accepted by its own sender"
        if not o["keys_differ"]:
            return "send and receive keys coincide"
    return None


def run(ctx):
    n = 40 if ctx.thorough() else 4
    proof_ok, detail = True, {}
    ok, out = ctx.regen(["arith", "policy", "symkeys", "chunkpreds"])
    if not ok:
        proof_ok = False
        detail["translator"] = out[-2000:]
        ctx.log("translator failed: " + out[-500:])
    r = ctx.props()
    if not r["ok"]:
        proof_ok = False
        detail["coq"] = r["failed_at"] or r["log"][-1500:]
    if ctx.thorough() and proof_ok:
        ok2, log = ctx.coqchk()
        if not ok2:
            proof_ok = False
            detail["coqchk"] = log[-1500:]
    h, log = ctx.go_build("chunkharness")
    if h is None:
        ctx.broken_tie("harness does not build against /repo", log[-2000:])
        return
    rc, out = vf.sh([h, "-seed", str(ctx.seed), "-n", str(n), "c14"], timeout=1200, env=vf.GOENV)
    obs = [json.loads(l) for l in out.splitlines() if l.startswith("{")]
    if rc != 0 or not obs:
        ctx.broken_tie("harness crashed", out[-2000:])
        return
    fails = [(why, o) for o in obs for why in [oracle(o)] if why]

    keys = [o for o in obs if o["kind"] == "keys" and not o.get("err")]
    gens = [o for o in obs if o["kind"] == "gen"]
    q = lambda s: '"%s"%%string' % s
    kl = ["(%s, %s, %s, [%s])" % (q(FILE[o["policy"]]), q(o["ln"]), q(o["rn"]),
          ";".join(q(o.get(k, "")) for k in ("EncKey", "EncIV", "DecKey", "DecIV", "SignKey", "VerifyKey"))) for o in keys]
    gl = ["(%d, %s, %s, (%d,%d,%d), [%s])" % (1 if o["hash"] == "sha1" else 256, q(o.get("secret", "")), q(o.get("seed", "")), o["SL"], o["EL"], o["BL"],
          ";".join(q(o.get(k, "")) for k in ("Signing", "Encryption", "IV"))) for o in gens]
    corr_ok, mism = True, []
    ok1, idx1, log1 = ctx.eval_cases(IMPORTS, KEYS_T, kl, KEYS_AGREE, shard=12, name="Keys")
    ok2, idx2, log2 = ctx.eval_cases(IMPORTS, GEN_T, gl, GEN_AGREE, shard=12, name="Gen")
    if not (ok1 and ok2):
        corr_ok = False
        detail["cases"] = (log1 + log2)[-2000:]
    mism = [keys[i] for i in idx1] + [gens[i] for i in idx2]
    if mism:
        corr_ok = False
        detail["model_vs_impl_mismatches"] = mism[:6]

    ctx.coverage.update({
        "evaluations": len(obs),
        "distinct_nontrivial": len({json.dumps(o, sort_keys=True) for o in obs}),
        "rule": "uapolicy.Symmetric for the five policies x nonce pairs (structured: zeros/ones/ascending/descending, equal nonces, lengths 1..100, "
                "seeded random): exported keys vs the Gallina HMAC-SHA1/SHA256 derivation (byte for byte, vm_compute) and vs an independent python "
                "P_SHA per the Part 6 table; generateKeys for boundary/random length triples; reflected and peer traffic through real channel instances "
                "(Sign and SignAndEncrypt); distinct = distinct observations",
        "samples": obs[:2] + [o for o in obs if o["kind"] == "reflect"][:1] + gens[:1],
        "kinds": {k: sum(1 for o in obs if o["kind"] == k) for k in ("keys", "gen", "reflect")},
        "traces_validated_against_impl": len(keys) + len(gens),
        "model_impl_mismatches": len(mism),
    })
    new, seen = 0, set()
    for why, o in fails:
        key = "%s/%s/%s" % (o.get("policy", o.get("hash", "")), o["kind"], why[:40].replace(" ", "_"))
        if key in seen:
            continue
        seen.add(key)
        if ctx.finding(key, why, {"observation": o, "how": "chunkharness -seed %d -n %d c14" % (ctx.seed, n)}):
            new += 1
    ctx.conclude(proof_ok, corr_ok, new, detail)
