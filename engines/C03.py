"""C03 — decode . encode . decode is stable."""
import glob, json, os, re
import vf
import codec_common as cc


EMPTY_BODY = "(Some (VPtr (Some (VStruct []))))"


def off_grid_time(val):
    return any(int(x) % 100 != 0 for x in re.findall(r"\(Some \(?(-?\d+)\)?\)", val or ""))


def run(ctx):
    n = 20000 if ctx.thorough() else 500
    detail = {}
    proof_ok = cc.regen_and_props(ctx, detail)
    okm, mlog = cc.build_model(ctx)
    if not okm:
        proof_ok = False
        detail.setdefault("coq", mlog[-1500:])

    obs = []
    for f in sorted(glob.glob(os.path.join(vf.VERIF, "corpus", "C03", "*.jsonl"))):
        o, err = cc.run_hostile(ctx, 0, cases_file=f)
        if o is None:
            ctx.broken_tie("harness crashed on corpus " + f, err)
            return
        obs += o
    o, err = cc.run_hostile(ctx, n, seed=ctx.seed + 1000)
    if o is None:
        ctx.broken_tie("harness does not build or crashed", err)
        return
    obs += o
    decoded = [ob for ob in obs if ob["out"] == "ok"]
    ctx.log("%d byte strings, %d decode successfully" % (len(obs), len(decoded)))

    # oracle: the statement itself on the implementation
    new, seen = 0, set()
    for ob in decoded:
        why = None
        if ob["re"] != "ok":
            why = "re-encoding the decoded value: " + ob["re"]
        elif ob["out2"] != "ok":
            why = "decoding the re-encoded value: " + ob["out2"]
        elif ob["consumed2"] != ob["len2"]:
            why = "second decode consumed %d of %d bytes" % (ob["consumed2"], ob["len2"])
        elif not ob["same"]:
            why = "second decode differs from the first"
        if why is None:
            continue
        if why.startswith("second decode differs") and off_grid_time(ob.get("val")):
            key = "datetime-out-of-range"
        elif why.startswith("second decode differs") and EMPTY_BODY in (ob.get("val") or ""):
            key = "extobj-empty-struct"
        else:
            key = "%s/%s/%s" % (ob["ty"], ob.get("src", "").split(" ")[0], why.split(":")[0][:30].replace(" ", "_"))
        if key in seen:
            continue
        seen.add(key)
        if ctx.finding(key, why, {"type": ob["ty"], "hex": ob.get("hex"), "src": ob.get("src"), "decoded": ob.get("val"), "reencoded": ob.get("hex2"),
                                  "how": "codecharness hostile: ua.Decode(b, new(T)); ua.Encode(v); ua.Decode again; compare the two value trees"}):
            new += 1

    corr_ok = True
    nmodel = 0
    if okm:
        okc, mism, clog, nmodel = cc.correspond_hostile(ctx, obs)
        if not okc:
            corr_ok = False
            detail["cases"] = clog[-2000:]
        elif mism:
            corr_ok = False
            detail["model_vs_impl_mismatches"] = [{k: m[k] for k in m if k != "val"} for m in mism[:8]]
            ctx.log("model/implementation mismatches: %d, e.g. %s" % (len(mism), json.dumps(detail["model_vs_impl_mismatches"][0])[:600]))
            for m in mism[:3]:
                if ctx.finding("mismatch/%s/%s" % (m["ty"], m.get("src", "").split(" ")[0]),
                               "implementation and model disagree (decoded value, consumed bytes or re-encoded bytes)",
                               {"type": m["ty"], "hex": m.get("hex"), "src": m.get("src"), "implementation": {k: m[k] for k in m if k != "val"}}):
                    new += 1
    else:
        corr_ok = False

    # the hypotheses of C03_partial_stable (grid, noempty) evaluated inside Coq on every decoded value, together with the
    # conclusion of C03_decoded_rwf (rwf): they may only fail in the two refuted classes (off-grid DateTime, extension
    # object with an empty registered struct); and "the re-encoding is not longer than what was consumed" on the implementation
    hyp_n, hyp_out, longer = None, [], 0
    good = [ob for ob in decoded if cc.model_evaluable(ob) and len(ob.get("val", "")) < 20000]
    if okm and good:
        imports = cc.IMPORTS.replace("Model.CodecEq ", "Model.CodecEq Model.CodecWf Model.CodecWfAll ")
        okw, idxw, wlog = ctx.eval_cases(imports, "ty * val", ["(%s, %s)" % (ob["ty"], ob["val"]) for ob in good],
                                         "  noempty (snd c) && rwf reg (fst c) (snd c)", shard=80, name="HypCases")
        if okw:
            hyp_n = len(good) - len(idxw)
            hyp_out = [good[i] for i in idxw if EMPTY_BODY not in good[i]["val"]]
            ctx.log("%d of %d decoded values satisfy noempty (hypothesis of C03_partial_stable) and rwf; %d outside beyond the refuted class"
                    % (hyp_n, len(good), len(hyp_out)))
            if hyp_out:
                detail["decoded_values_outside_hypotheses"] = [{"ty": o["ty"], "hex": o.get("hex", "")[:200], "val": o["val"][:400]} for o in hyp_out[:4]]
        else:
            detail["hyp_cases"] = wlog[-1500:]
    longer = sum(1 for ob in decoded if ob.get("re") == "ok" and ob.get("len2", 0) > ob.get("consumed", 0))

    distinct = {(ob["ty"], ob.get("hex")) for ob in decoded if ob["len"] > 0}
    ctx.coverage.update({
        "evaluations": len(obs), "distinct_nontrivial": len(distinct),
        "rule": "the C02 input stream with another seed (handcrafted inputs: all 256 encoding masks of DataValue and DiagnosticInfo and 55 of LocalizedText with exactly the fields the decoder reads, alone, inside a ReadResponse followed by more fields and inside Variant arrays followed by dimensions; nesting chains of 98..101 levels and of 28..51 rounds through registered structures (Variant/ExtensionObject/KeyValuePair), every decoded value is re-encoded; unknown extension object ids, boundary lengths + %d mutated/valid/random encodings); the statement is evaluated on those that decode; distinct = distinct successfully decoded (type, input) with a non-empty input" % n,
        "samples": [{k: ob[k] for k in ob if k not in ("val", "hex2")} for ob in decoded[:2] + decoded[-2:]],
        "decoded_ok": len(decoded),
        "noncanonical_reencodings": sum(1 for ob in decoded if ob.get("hex2") and ob.get("hex2") != ob.get("hex", "")[:len(ob.get("hex2", ""))]),
        "types_hit": len({ob["ty"] for ob in decoded}),
        "traces_validated_against_impl": nmodel,
        "decoded_values_satisfying_theorem_hypotheses": hyp_n,
        "decoded_values_outside_hypotheses_not_in_refuted_classes": len(hyp_out),
        "reencodings_longer_than_consumed_input": longer,
    })
    ctx.conclude(proof_ok, corr_ok, new, detail)
