"""C01 — the binary codec round-trips every value of every type."""
import json, re
import vf
import codec_common as cc


def norm_text(v):
    """the documented normalisations, applied to the printed value tree: empty byte string = null, 100 ns time resolution
    (rounded down), a DataValue always carries an allocated Variant (NaNs are canonicalised by the dumper)"""
    v = v.replace("(Some [])", "None")
    v = re.sub(r"\(VDataValue (\d+) None ", r"(VDataValue \1 (Some (VVariant 0 0 0 [] None)) ", v)

    def t(m):
        return "(Some %d)" % (int(m.group(1)) // 100 * 100)      # rounded down to the 100 ns tick
    # an option holding a bare number is a time (VTime, DataValue timestamps); all other options hold trees or lists
    return re.sub(r"\(Some \(?(-?\d+)\)?\)", t, v)


def run(ctx):
    n = 60 if ctx.thorough() else 2
    detail = {}
    proof_ok = cc.regen_and_props(ctx, detail)
    okm, mlog = cc.build_model(ctx)
    if not okm:
        proof_ok = False
        detail.setdefault("coq", mlog[-1500:])

    obs, err = cc.run_values(ctx, n, empty_eo=True)
    if obs is None:
        ctx.broken_tie("harness does not build or crashed", err)
        return
    # the late-registration sequence of the harness: steps with their own oracle, and the registry entries that were added
    late = [o for o in obs if o.get("k") == "late"]
    extra = "".join(" ++ " + o["entries"] for o in obs if o.get("k") == "late-reg")
    obs = [o for o in obs if o.get("k") == "rt"]
    imports = cc.IMPORTS.replace("Definition reg := mk_reg eo_table.", "Definition reg := mk_reg eo_table%s." % extra)
    ctx.log("%d generated values encoded and decoded by the implementation" % len(obs))

    # oracle: Encode succeeds, Decode of the encoding succeeds, consumes exactly the encoding, and the decoded value is
    # the normal form of the value: it is a fixed point of decode.encode, and equal to the value up to the
    # documented normalisations (checked against the model's decoded tree by the correspondence below)
    new, seen = 0, set()
    for o in late:
        if not o["ok"] and ctx.finding("late-registration/" + o["step"].split(" ")[0],
                                       "a type registered after its id was first seen: %s (%s): %s" % (o["step"], o["id"], o["what"]),
                                       {"step": o["step"], "id": o["id"], "hex": o.get("hex"), "observed": o["what"],
                                        "how": "codecharness values: decode with the id unregistered, ua.RegisterExtensionObject / ua.RegisterService, decode again"}):
            new += 1
    for o in obs:
        why = None
        if o["enc"] != "ok":
            why = "Encode of a well-formed value: " + o["enc"]
        elif o["dec"] != "ok":
            why = "Decode of the encoding: " + o["dec"]
        elif o["consumed"] != len(o["hex"]) // 2:
            why = "Decode consumed %d of %d bytes" % (o["consumed"], len(o["hex"]) // 2)
        elif not o.get("resame"):
            why = "the decoded value is not a fixed point of decode.encode (re-encode: %s)" % o.get("re")
        elif o.get("svc", "ok") != "ok":
            why = "ua.DecodeService differs from type id + registry lookup + ua.Decode: " + o["svc"][:120]
        if why is None and norm_text(o["val"]) != norm_text(o["dval"]):
            why = "decoded value differs from the encoded value beyond the documented normalisations"
        if why is None:
            continue
        empty = "(Some (VPtr (Some (VStruct []))))" in o["val"]
        key = "extobj-empty-struct" if empty else "%s/%s" % (o["ty"], why.split(":")[0][:30].replace(" ", "_"))
        if key in seen:
            continue
        seen.add(key)
        if ctx.finding(key, why, {"type": o["ty"], "value": o["val"], "hex": o.get("hex"), "decoded": o.get("dval"),
                                  "how": "codecharness values: ua.Encode(v); ua.Decode(bytes, new(T)); ua.Encode(decoded)"}):
            new += 1

    corr_ok = True
    mism = []
    if okm:
        okc, idx, clog = cc.correspond_values(ctx, obs, imports=imports)
        if not okc:
            corr_ok = False
            detail["cases"] = clog[-2000:]
        elif idx:
            corr_ok = False
            mism = [obs[i] for i in idx]
            detail["model_vs_impl_mismatches"] = mism[:6]
            ctx.log("model/implementation mismatches: %d, e.g. %s" % (len(mism), json.dumps(mism[0])[:700]))
            for m in mism[:3]:
                if ctx.finding("mismatch/%s" % m["ty"], "implementation and model disagree on the encoding, the decoded value or the consumed count",
                               {"type": m["ty"], "value": m["val"], "hex": m.get("hex"), "decoded": m.get("dval"), "consumed": m.get("consumed")}):
                    new += 1
    else:
        corr_ok = False

    # how many of the generated values satisfy the hypothesis rwf of C01_roundtrip (evaluated inside Coq); the only
    # generated values outside rwf must be those of the known finding (an extension object with an empty registered struct)
    wf_n, wf_out = None, []
    if okm:
        imports = imports.replace("Model.CodecEq ", "Model.CodecEq Model.CodecWf Model.CodecWfAll ")
        okw, idxw, wlog = ctx.eval_cases(imports, "ty * val", ["(%s, %s)" % (o["ty"], o["val"]) for o in obs],
                                         "  rwf reg (fst c) (snd c)", shard=80, name="WfCases")
        if okw:
            wf_n = len(obs) - len(idxw)
            wf_out = [obs[i] for i in idxw if "(Some (VPtr (Some (VStruct []))))" not in obs[i]["val"]]
            ctx.log("%d of %d generated values satisfy rwf (hypothesis of C01_roundtrip); %d outside rwf beyond the known empty-struct class"
                    % (wf_n, len(obs), len(wf_out)))
            if wf_out:
                detail["generated_values_outside_rwf"] = [{"ty": o["ty"], "val": o["val"][:600]} for o in wf_out[:4]]
        else:
            detail["wf_cases"] = wlog[-1500:]

    distinct = {(o["ty"], o.get("hex")) for o in obs if len(o.get("hex", "")) > 2}
    kinds = {}
    for o in obs:
        m = re.match(r"\(VVariant (\d+) ", o["val"]) if o["ty"] == "(TCustom CVariant)" else None
        if m:
            k = "variant type %d %s" % (int(m.group(1)) & 63, "array+dims" if int(m.group(1)) & 0xc0 == 0xc0 else "array" if int(m.group(1)) & 0x80 else "scalar")
            kinds[k] = kinds.get(k, 0) + 1
    ctx.coverage.update({
        "evaluations": len(obs), "distinct_nontrivial": len(distinct),
        "rule": "%d values per registered service / extension-object type (%d types) and %d per hand-written codec, generated from the reflect.Type by the seeded PRNG: boundary-biased integers, NaN payloads, nil/empty/short slices and byte strings, DateTime zero/min/max/off-grid/9999-12-31/1601/before 1677, every Variant type id x scalar/nil/empty/1-D/2-D/3-D, plus (deterministic) for every builtin type id 1-D and n-D arrays of MINIMAL-size elements (bare, inside a DataValue followed by status/timestamps, inside a ReadResponse) and rank 3/4 arrays with pairwise different elements and trailing dimensions > 1, a late-registration sequence (two extension object ids and a service id decoded while unregistered, then registered, then decoded and round-tripped; the model's registry is the one after the registration), random DataValue/DiagnosticInfo/LocalizedText masks, all six NodeID encodings x flag bits, extension objects empty/XML/any registered body; distinct = distinct (type, encoding) with a non-empty encoding" % (n, len({o["ty"] for o in obs}) - 8, 12 * n),
        "samples": [{k: o[k] for k in ("ty", "val", "hex", "consumed") if k in o} for o in obs[:2] + obs[-2:]],
        "types_hit": len({o["ty"] for o in obs}),
        "variant_shapes_hit": len(kinds),
        "traces_validated_against_impl": len(obs) if corr_ok else len(obs) - len(mism),
        "model_impl_mismatches": len(mism),
        "late_registration_steps": len(late),
        "service_messages_through_DecodeService": sum(1 for o in obs if "svc" in o),
        "values_satisfying_theorem_hypothesis_rwf": wf_n,
        "values_outside_rwf_not_in_known_class": len(wf_out),
    })
    ctx.notes.append("theorem coverage: C01_roundtrip is proved for every descriptor of the universe and every value satisfying rwf, hence for all 309 generated struct descriptors (C01_generated, C01_descriptors_inhabited); the generated values outside rwf are exactly those of the known finding extobj-empty-struct unless values_outside_rwf_not_in_known_class > 0 (then rwf is narrower than what the generator produces, reported in detail)")
    ctx.conclude(proof_ok, corr_ok, new, detail)
