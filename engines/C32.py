"""C32 — server subscription and monitored item ids are unique and session-scoped."""
import json
import vf
import server_common as sc


def oracle(h):
    """the property on the implementation's observations: ids handed out are not live; a request changes nothing that
    belongs to another session; a Good delete status is only given for own ids"""
    fails = []
    tables = h.init["tables"]
    for e in h.evs:
        ev, o, after = e["ev"], e["out"], e["tables"]
        live_subs = {s["ID"]: s for s in (tables.get("subs") or [])}
        live_items = {i["id"]: i for i in (tables.get("items") or [])}
        tok = ev["tok"]
        if not after.get("consistent", True):
            fails.append(("index-inconsistent", "the monitored item indexes (by node / by subscription) disagree with the id table", e))
        if o["k"] == "createsub":
            if o["id"] in live_subs or o["id"] == 0:
                fails.append(("sub-id-reused", "CreateSubscription returned id %d which is in use (live: %s)" % (o["id"], sorted(live_subs)), e))
        if o["k"] == "createitems":
            ids = o.get("ids") or []
            if len(set(ids)) != len(ids) or any(i in live_items or i == 0 for i in ids):
                fails.append(("item-id-reused", "CreateMonitoredItems returned ids %s, live: %s" % (ids, sorted(live_items)), e))
        # foreign things untouched (goroutine deletes spawned by this request included: the harness waits for them)
        a_subs = {s["ID"]: s for s in (after.get("subs") or [])}
        a_items = {i["id"]: i for i in (after.get("items") or [])}
        for sid, s in live_subs.items():
            owner = sc.tokkey(s["Owner"]) if s["Owner"] else None
            if owner != tok and a_subs.get(sid) != s:
                fails.append(("foreign-sub-changed/" + ev["kind"], "%s by token %d changed or removed subscription %d of session %s" % (ev["kind"], tok, sid, owner), e))
        for iid, it in live_items.items():
            owner = it["owner"] if it["has_owner"] else None
            if owner != tok and a_items.get(iid) != it:
                fails.append(("foreign-item-changed/" + ev["kind"], "%s by token %d changed or removed monitored item %d of session %s" % (ev["kind"], tok, iid, owner), e))
        if o["k"] in ("deletesubs", "deleteitems", "setmode"):
            for j, st in enumerate(o.get("sts") or []):
                tid = ev["ids"][j]
                mine = (live_subs.get(tid, {}).get("Owner") == "i=%d" % tok) if o["k"] == "deletesubs" else \
                       (tid in live_items and live_items[tid]["has_owner"] and live_items[tid]["owner"] == tok)
                if st == 0 and not mine:
                    fails.append(("good-status-for-foreign-id/" + o["k"], "%s answered Good for id %d which the session does not own" % (o["k"], tid), e))
        if o["k"] in ("timeout", "error", "dead"):
            fails.append(("no-answer", "%s was not answered (%s)" % (ev["kind"], o.get("err", o["k"])), e))
        tables = after
    return fails


def run(ctx):
    n = 1500 if ctx.thorough() else 120
    detail = {}
    proof_ok = sc.standard_proof_steps(ctx, ["server"], detail)
    got = sc.collect(ctx, "C32", [("generated", ["hist", "-mode", "c32", "-seed", str(ctx.seed), "-n", str(n)])])
    if got is None:
        return
    hists, crashes = got
    new, seen, fails = 0, set(), []
    for h in hists:
        fails += [(k, w, e, h) for (k, w, e) in oracle(h)]
    for key, why, e, h in fails:
        if key in seen:
            continue
        seen.add(key)
        if ctx.finding(key, why, {"history": h.id, "run": h.label, "event": e["ev"], "outcome": e["out"], "tables_after": e["tables"],
                                  "replay_history": sc.replay_file_obj(h, e["i"]),
                                  "how": "serverharness replay -file <replay_history as a JSON file>"}):
            new += 1
    for c in crashes:
        if ctx.finding("server-died", "the server process died or stopped answering", c):
            new += 1
    corr_ok, bad = sc.correspondence(ctx, hists, detail)
    if crashes:
        corr_ok = False
    kinds = {}
    shapes = set()
    for h in hists:
        for e in h.evs:
            kinds[e["ev"]["kind"]] = kinds.get(e["ev"]["kind"], 0) + 1
            shapes.add((e["ev"]["kind"], e["out"]["k"], tuple(sorted(set(e["out"].get("sts") or [])))))
    ctx.coverage.update({
        "evaluations": sum(len(h.evs) for h in hists), "distinct_nontrivial": len(shapes),
        "rule": "create/delete/set-mode histories from 2-3 sessions on 2-3 channels, with deletes of own, foreign, unknown and not-yet-created ids "
                "and occasional sessionless tokens; the goroutines a delete starts are awaited and enter the model as events; "
                "distinct = distinct (request kind, outcome kind, set of per-id status codes)",
        "histories": len(hists), "requests_by_kind": kinds,
        "samples": [{"event": e["ev"], "outcome": e["out"]} for h in hists[:2] for e in h.evs[5:7]],
        "traces_validated_against_impl": len([h for h in hists if h.final is not None]),
        "model_impl_mismatches": len(bad), "oracle_failures": len(fails),
    })
    ctx.conclude(proof_ok, corr_ok, new, detail)
