"""C17 — chunks secured with an expired token are rejected."""
import json
import vf, recvlib

IMPORTS = """From Coq Require Import NArith ZArith List Bool.
From Opcua Require Import Model.RecvBase Model.RecvChan.
Import ListNotations. Open Scope Z_scope.
Inductive hop := HInstall (chan token key : N) (created life : Z) | HTick (dt : Z) | HRecv (chan key : N) (accepted : bool).
Definition row := (N * N * N * N)%type.
Definition row_eqb (a b : row) : bool :=
  let '(a1, a2, a3, a4) := a in let '(b1, b2, b3, b4) := b in ((a1 =? b1) && (a2 =? b2) && (a3 =? b3) && (a4 =? b4))%N.
Fixpoint rows_eqb (a b : list row) : bool :=
  match a, b with [], [] => true | x :: a', y :: b' => row_eqb x y && rows_eqb a' b' | _, _ => false end.
Definition dump (s : cstate) : list row :=
  concat (map (fun kv => map (fun i => (fst kv, i_id i, i_token i, i_key i)) (snd kv)) (insts s)).
Fixpoint chk (s : cstate) (l : list (hop * list row * Z)) : bool :=
  match l with
  | [] => true
  | (o, tab, nw) :: r =>
      let s' := match o with
                | HInstall c t k cr lf => cstep true s (Install c t k cr lf)
                | HTick dt => cstep true s (Tick dt)
                | HRecv _ _ _ => s end in
      let okr := match o with HRecv c k a => Bool.eqb (accepts s c k) a | _ => true end in
      okr && rows_eqb (dump s') tab && (now s' =? nw) && chk s' r
  end."""
CTYPE = "Z * list (hop * list row * Z)"
AGREE = "  chk (cinit (fst c)) (snd c)"


def term(c):
    items = []
    for o in c["ops"]:
        if o["op"] == "install":
            h = "HInstall %d %d %d (%d) (%d)" % (o["chan"], o["token"], o["key"], o.get("created", 0), o.get("life", 0))
        elif o["op"] == "tick":
            h = "HTick (%d)" % o.get("dt", 0)
        else:
            h = "HRecv %d %d %s" % (o["chan"], o["key"], "true" if o.get("accepted") else "false")
        tab = ";".join("(%d%%N,%d%%N,%d%%N,%d%%N)" % tuple(r) for r in (o["table"] or []))
        items.append("(%s, [%s], %d)" % (h, tab, o["now"]))
    return "(%d, [%s])" % (c["t0"], ";".join(items))


def fix_scopes(t):
    return t


def oracle(c):
    """The property on the implementation: accepted => some token with these keys on this channel is not yet past created + 5/4 life."""
    inst = []
    for n, o in enumerate(c["ops"]):
        if o["op"] == "install":
            inst.append(o)
        elif o["op"] == "recv":
            if o.get("k") == "panic":
                return n, "receive path panicked"
            if o.get("accepted"):
                live = [i for i in inst if i["chan"] == o["chan"] and i["key"] == o["key"] and i.get("created", 0) + int(i.get("life", 0) / 4) * 5 > o["now"]]
                if not live:
                    return n, "a chunk protected with keys whose every token is past created + 1.25 x lifetime was accepted (op %d, virtual time %d ns)" % (n, o["now"])
    return None


def run(ctx):
    rp = recvlib.replay_case(ctx)
    n = 1500 if ctx.thorough() else 150
    proof_ok, detail = (True, {}) if rp else recvlib.prove(ctx)
    obs = recvlib.harness(ctx, ["-n", n, "c17"])
    if obs is None:
        return
    timing = [o for o in obs if o.get("name") == "timing"]
    cases = [o for o in obs if o.get("name") != "timing"]
    if rp is not None:
        cases = [c for c in cases if c["name"] == rp.get("case", {}).get("name")] or cases
        ctx.level = "other"
        ctx.coverage["explanation"] = "replay run (history re-generated from the seed by name and re-run)"
    fails = []
    for c in cases:
        r = oracle(c)
        if r:
            fails.append((r[1], c))
    for c in cases:
        st = [n_ for n_, o in enumerate(c["ops"]) if o.get("stuck")]
        if st:
            fails.append(("the expiry routine of an instance whose instant created + 5/4 lifetime had passed did not finish (op %d): the instance stays in the table" % st[0], c))
    for c in cases:
        if c["name"].startswith("open-") and any(r_[1] == 0 for r_ in (c["ops"][-1]["table"] or [])):
            last = c["ops"][-1]
            fails.append(("real Open path (%s): %d ms after its creation (lifetime %d ms, so past created + 1.25 x lifetime and after a renewal) the first token's instance is still in the client's instance table: chunks under its keys stay accepted" % (
                "context of Open cancelled after Open returned" if "cancelled" in c["name"] else "context kept alive", last["now"] // 1000000, c["ops"][0]["life"] // 1000000), c))
    tfail = []
    for t in timing:
        lo = t["life_ms"] * 5 // 4
        if not (lo - 5 <= t["elapsed_ms"] <= lo + 400) or not t["removed"]:
            tfail.append(("expiry routine of a %d ms token returned after %d ms (expected %d ms), removed=%s" % (t["life_ms"], t["elapsed_ms"], lo, t["removed"]), t))
    corr_ok, mism, idx = True, [], []
    if rp is None:
        okc, idx, clog = ctx.eval_cases(IMPORTS, CTYPE, [term(c) for c in cases], AGREE, shard=400)
        if not okc:
            corr_ok = False
            detail["cases"] = clog[-1500:]
        elif idx:
            corr_ok = False
            mism = [cases[i] for i in idx[:5]]
            detail["model_vs_impl_mismatches"] = [c["name"] for c in mism]
    nrecv = sum(1 for c in cases for o in c["ops"] if o["op"] == "recv")
    nexp = sum(1 for c in cases for o in c["ops"] if o["op"] == "recv" and not o.get("accepted"))
    ctx.coverage.update({
        "evaluations": len(cases),
        "distinct_nontrivial": len({json.dumps([(o["op"], o.get("chan"), o.get("token"), o["key"], o.get("dt"), o.get("life")) for o in c["ops"]]) for c in cases if sum(1 for o in c["ops"] if o["op"] == "install") >= 2}),
        "rule": "3 fixed + %d seeded histories of 3-14 operations on a real client SecureChannel (Sign mode, toy MAC keys): token installation as handleOpenSecureChannelResponse does it (fresh token ids / the same token id on every renewal / token id = channel id / mixed; lifetimes 0,1ns,0.4s,1s,2.5s,10s,1h; creation instants now or in the past), virtual clock ticks after which the implementation's own expiry routine is run for every instance whose instant has passed, chunks secured with current, superseded, expired and never-issued keys sent over TCP; after every operation the instance table (key, object, token id, keys) and the accept/reject result are compared with the model inside Coq; plus 2 histories through the REAL Open path (client channel against a scripted server, lifetime 3 s, automatic renewal, context of Open cancelled right after Open / kept alive; instance table polled until created + 1.25 lifetime + 0.2 lifetime) and 2 real-time runs of the expiry routine (0.4 s, 0.9 s lifetimes) checking the instant created + 5/4 lifetime; distinct = distinct histories with at least two installations" % n,
        "samples": [cases[0], cases[-1]] + timing[:1],
        "recv_operations": nrecv, "recv_rejected": nexp,
        "traces_validated_against_impl": len(cases),
        "model_impl_mismatches": len(idx),
    })
    new, seen = 0, set()
    allf = [("expired-token-accepted", w, c) for w, c in fails] + [("expiry-instant", w, c) for w, c in tfail] + \
           [("model-mismatch", "model and implementation disagree on this history (instance table or accept/reject)", c) for c in mism]
    for key, why, c in allf:
        if key in seen:
            continue
        seen.add(key)
        if ctx.finding(key, why, {"case": c, "how": "recvharness c17 with the same seed regenerates the history by name; ./check C17 --replay <this file>"}):
            new += 1
    ctx.conclude(proof_ok, corr_ok, new, detail)
