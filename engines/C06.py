"""C06 — negotiated transport limits are honoured in both directions."""
import glob, json, os
import vf

IMPORTS = """From Coq Require Import ZArith List Bool.
From Opcua Require Import Model.Layout Gen.ArithFromGo Gen.PolicyParams Model.UacpHandshake Props.C38.
Import ListNotations. Open Scope Z_scope.
Definition wires (m : sec_mode) (p : sym_params) (o : option (list Z)) : list Z :=
  match o with Some b => map (sec_len m p) b | None => [] end.
Definition sent (o : option (list Z)) : bool := match o with Some _ => true | None => false end.
(* when the receiver rejects a message it may close before the sender has written every chunk: then the chunks
   seen on the wire are a prefix of what the sender set out to write *)
Fixpoint prefixb (a b : list Z) : bool :=
  match a, b with [], _ => true | x :: a', y :: b' => (x =? y) && prefixb a' b' | _, _ => false end.
Definition same_wire (complete : bool) (model observed : list Z) : bool :=
  if complete then zlist_eqb model observed else prefixb observed model."""

# configuration, message sizes | observed: negotiated?, hello, ack, client c.ack, server c.ack, client peer limits, server peer limits,
# request chunk sizes on the wire, request arrived, response chunk sizes on the wire, response arrived
CTYPE = "(sec_mode * sym_params) * (limits * limits * Z * Z) * (bool * limits * limits * limits * limits * (Z * Z) * (Z * Z)) * (list Z * bool * list Z * bool)"

AGREE = """  let '((m, p), (cl, sv, lreq, lresp), (ok, ohel, oack, ocli, osrv, opc, ops), (c2s, reqarr, s2c, resparr)) := c in
  match negotiate cl sv with
  | None => negb ok
  | Some (hel, ack, cli, srv) =>
      ok && lim_eqb hel ohel && lim_eqb ack oack && lim_eqb (s_lim cli) ocli && lim_eqb (s_lim srv) osrv &&
      (s_peer_maxmsg cli =? fst opc) && (s_peer_maxchunks cli =? snd opc) &&
      (s_peer_maxmsg srv =? fst ops) && (s_peer_maxchunks srv =? snd ops) &&
      let req := send cli (go_max (l_send (s_lim cli)) p) lreq in
      let arrived := sent req && delivered srv (wires m p req) lreq in
      let resp := if arrived then send srv (go_max (l_send (s_lim srv)) p) lresp else None in
      let rarrived := sent resp && delivered cli (wires m p resp) lresp in
      same_wire arrived (wires m p req) c2s && Bool.eqb arrived reqarr &&
      same_wire rarrived (wires m p resp) s2c && Bool.eqb rarrived resparr
  end"""


def lim(l):
    l = l or {"recv": 0, "send": 0, "maxmsg": 0, "maxchunks": 0}
    return "(mkLim %d %d %d %d)" % (l["recv"], l["send"], l["maxmsg"], l["maxchunks"])


def zl(xs):
    return "[" + ";".join(str(x) for x in xs) + "]"


def cb(b):
    return "true" if b else "false"


def coq_case(o):
    ok = bool(o.get("client_conn")) and bool(o.get("server_conn")) and not o.get("dial_err")
    cp = o.get("client_peer") or {"maxmsg": 0, "maxchunks": 0}
    sp = o.get("server_peer") or {"maxmsg": 0, "maxchunks": 0}
    mode = o.get("mode") or 1
    mp = {1: "(ModeNone, sym_None)", 2: "(ModeSign, sym_Basic256Sha256)", 3: "(ModeSignEnc, sym_Basic256Sha256)"}[mode]
    return "(%s, (%s, %s, %d, %d), (%s, %s, %s, %s, %s, (%d, %d), (%d, %d)), (%s, %s, %s, %s))" % (
        mp, lim(o["client"]), lim(o["server"]), o["req_msg"], o["resp_msg"],
        cb(ok), lim(o.get("hello")), lim(o.get("ack")), lim(o.get("client_conn")), lim(o.get("server_conn")),
        cp["maxmsg"], cp["maxchunks"], sp["maxmsg"], sp["maxchunks"],
        zl(o["c2s"]), cb(o["req_arrived"]), zl(o["s2c"]), cb(o["resp_arrived"]))


def in_range(l):
    return 8192 <= l["recv"] <= 2**20 and 8192 <= l["send"] <= 2**20


def oracle(o):
    """the property's own statement on what was seen on the wire; returns list of (key, what)"""
    out = []
    if not (in_range(o["client"]) and in_range(o["server"])):
        return out                      # outside the quantifier (buffers below the protocol minimum)
    h, a = o.get("hello"), o.get("ack")
    if not h or not a or o.get("dial_err"):
        return [("handshake-failed", "HEL/ACK or OPN failed for an in-range configuration: %s / server: %s" % (o.get("dial_err"), o.get("server_recv_err")))]
    c2s, s2c = o["c2s"], o["s2c"]
    # the limits each Conn reports after the handshake (Conn.ReceiveBufSize / SendBufSize): a side must accept
    # chunks up to what it announced and must not send chunks larger than the peer announced
    cc, sc_ = o.get("client_conn"), o.get("server_conn")
    if cc and cc["recv"] < min(h["recv"], a["send"]):
        out.append(("client-receive-limit-below-announced", "client announced a receive buffer of %d, server may send chunks of %d, but the client accepts only %d" % (h["recv"], a["send"], cc["recv"])))
    if sc_ and sc_["recv"] < a["recv"]:
        out.append(("server-receive-limit-below-announced", "server announced a receive buffer of %d but accepts only %d" % (a["recv"], sc_["recv"])))
    if cc and cc["send"] > a["recv"]:
        out.append(("client-chunk-size-exceeds-ack-recv", "client will send chunks of %d, server announced a receive buffer of %d" % (cc["send"], a["recv"])))
    if sc_ and sc_["send"] > h["recv"]:
        out.append(("server-chunk-size-exceeds-hello-recv", "server will send chunks of %d, client announced a receive buffer of %d" % (sc_["send"], h["recv"])))
    if c2s and max(c2s) > a["recv"]:
        out.append(("c2s-chunk-exceeds-ack-recv", "client sent a %d-byte chunk, server announced a receive buffer of %d" % (max(c2s), a["recv"])))
    if s2c and max(s2c) > h["recv"]:
        out.append(("s2c-chunk-exceeds-hello-recv", "server sent a %d-byte chunk, client announced a receive buffer of %d" % (max(s2c), h["recv"])))
    if c2s and ((a["maxmsg"] and o["req_on_wire"] > a["maxmsg"]) or (a["maxchunks"] and len(c2s) > a["maxchunks"])):
        out.append(("over-limit-request-on-wire", "request of %d bytes in %d chunks was put on the wire, server announced max %d bytes / %d chunks" % (o["req_on_wire"], len(c2s), a["maxmsg"], a["maxchunks"])))
    if s2c and ((h["maxmsg"] and o["resp_on_wire"] > h["maxmsg"]) or (h["maxchunks"] and len(s2c) > h["maxchunks"])):
        out.append(("over-limit-response-on-wire", "response of %d bytes in %d chunks was put on the wire, client announced max %d bytes / %d chunks" % (o["resp_on_wire"], len(s2c), h["maxmsg"], h["maxchunks"])))
    # each side accepts what the other side may send
    if c2s and max(c2s) <= a["recv"] and not o["req_arrived"] and o["req_on_wire"] == o["req_msg"] and \
            not (a["maxmsg"] and o["req_on_wire"] > a["maxmsg"]) and not (a["maxchunks"] and len(c2s) > a["maxchunks"]):
        out.append(("conforming-request-rejected", "request within everything the server announced did not arrive: server %s, client %s" % (o.get("server_recv_err"), o.get("client_err"))))
    if s2c and max(s2c) <= h["recv"] and not o["resp_arrived"] and o["resp_on_wire"] == o["resp_msg"] and h["maxmsg"] and h["maxchunks"] and \
            not (o["resp_on_wire"] > h["maxmsg"]) and not (len(s2c) > h["maxchunks"]):
        out.append(("conforming-response-rejected", "response within everything the client announced did not arrive: client %s" % o.get("client_err")))
    if s2c and "uacp-too-large" in (o.get("client_err"), o.get("client_chan_err")) and max(s2c) <= h["recv"]:
        out.append(("conforming-chunk-rejected", "client rejected a chunk of %d bytes although it announced a receive buffer of %d" % (max(s2c), h["recv"])))
    # an over-limit message must be refused by the sender with an error
    if a["maxmsg"] and o["req_msg"] > a["maxmsg"] and not c2s and not str(o.get("client_err", "")).startswith("refused"):
        out.append(("over-limit-request-no-error", "over-limit request not on the wire but the client reported %r" % o.get("client_err")))
    return out


def run(ctx):
    n = 1500 if ctx.thorough() else 200
    proof_ok, detail = True, {}
    ok, out = ctx.regen(["arith", "policy", "uacp"])
    if not ok:
        proof_ok = False
        detail["translator"] = out[-2000:]
        ctx.log("translator failed: " + out[-500:])
    r = ctx.props() if ok else {"ok": False}
    if ok and not r["ok"]:
        proof_ok = False
        detail["coq"] = r["failed_at"] or r["log"][-1500:]
    if ctx.thorough() and proof_ok:
        ok2, log = ctx.coqchk()
        if not ok2:
            proof_ok = False
            detail["coqchk"] = log[-1500:]

    h, log = ctx.go_build("uacpharness")
    ctx.log("harness built")
    if h is None:
        ctx.broken_tie("harness does not build against /repo", log[-2000:])
        return
    obs = []
    corpus = sorted(glob.glob(os.path.join(vf.VERIF, "corpus", "C06", "*.jsonl")))
    if ctx.replay:
        corpus = [ctx.replay]
    runs = [[h, "-cases", f, "c06"] for f in corpus]
    if not ctx.replay:
        runs.append([h, "-seed", str(ctx.seed), "-n", str(n), "c06"])
    if os.environ.get("VERIF_SELFTEST_SLOW"):   # self-test of the timeout handling: shrink the first run's deadlines
        runs = [r[:1] + ["-slow", os.environ["VERIF_SELFTEST_SLOW"]] + r[1:] for r in runs]
    calib = None
    for cmd in runs:
        for slow in (None, 4, 16):     # the harness's own default exchange may time out on a loaded machine: longer deadlines
            c2 = cmd if slow is None else cmd[:-1] + ["-slow", str(slow), "-par", "4"] + cmd[-1:]
            rc, out = vf.sh(c2, timeout=3000, env=vf.GOENV)
            got = [json.loads(l) for l in out.splitlines() if l.startswith("{")]
            if rc == 0 and got and not any("setup_error" in g and "client" not in g for g in got):
                break
            ctx.log("harness run failed (rc=%d), retrying with longer deadlines" % rc)
        if rc != 0 or not got or any("setup_error" in g and "client" not in g for g in got):
            # the calibration exchange (default client against default server, small messages) failed: a conforming
            # message was not delivered -- report it with what the harness said
            ctx.violation({"key": "default-exchange-failed", "what": "the default client/server exchange of the harness failed",
                           "detail": out[-3000:], "how": " ".join(cmd)})
            return
        calib = got[0].get("calibration", calib)
        obs += [g for g in got if "client" in g]
    ctx.log("harness: %d exchanges" % len(obs))
    for o in obs:
        o["c2s"] = o.get("c2s") or []
        o["s2c"] = o.get("s2c") or []

    # ---- evaluation: (1) oracle = the property's statement on the wire, (2) correspondence inside Coq.
    # A harness-side timeout (request timeout, dial/accept deadline) is never an observation of the code under
    # test: a failing case that shows one is re-run alone with longer deadlines (same inputs), up to 3 times; if it
    # still times out it is INCONCLUSIVE: dropped from the comparison and counted in coverage.inconclusive.
    # Only a completed exchange may disagree with the model or violate the oracle.
    def suspect(o):
        # a definite rejection reported by a channel is an observation, whatever the request itself ended with
        if any(x in ("uacp-too-large", "message-too-large", "too-many-chunks") for x in (o.get("client_chan_err"), o.get("server_recv_err"))):
            return False
        txt = " ".join(str(o.get(k, "")) for k in ("client_err", "dial_err", "server_recv_err", "server_send_err", "setup_error")).lower()
        return "timeout" in txt or "deadline" in txt

    can_eval = proof_ok or os.path.exists(os.path.join(vf.COQ, "Props", "C38.vo"))
    corr_ok = True

    def coq_mismatches(subset, name):
        nonlocal corr_ok
        if not can_eval:
            corr_ok = False
            return set()
        okc, idx, clog = ctx.eval_cases(IMPORTS, CTYPE, [coq_case(o) for o in subset], AGREE, shard=120, name=name)
        if not okc:
            corr_ok = False
            detail["cases"] = clog[-2000:]
        return set(idx)

    mis = coq_mismatches(obs, "Cases")
    ctx.log("correspondence: %d cases evaluated in Coq, %d mismatches" % (len(obs), len(mis)))
    orc = {i: oracle(o) for i, o in enumerate(obs)}
    bad = {i for i in range(len(obs)) if i in mis or orc[i]}
    retried, attempts = set(), 0
    todo = sorted(i for i in bad if suspect(obs[i]))
    while todo and attempts < 3:
        attempts += 1
        retried |= set(todo)
        f = os.path.join(ctx.work, "retry%d.jsonl" % attempts)
        with open(f, "w") as fh:
            for i in todo:
                fh.write(json.dumps(obs[i]) + "\n")
        rc, out = vf.sh([h, "-cases", f, "-slow", str(2 * 2 ** attempts), "-par", "1", "c06"], timeout=3000, env=vf.GOENV)
        got = [g for g in (json.loads(l) for l in out.splitlines() if l.startswith("{")) if "client" in g]
        ctx.log("retry %d of %d timed-out exchange(s) with deadlines x%d: rc=%d" % (attempts, len(todo), 2 * 2 ** attempts, rc))
        if len(got) != len(todo):
            break
        for i, g in zip(todo, got):
            g["c2s"], g["s2c"] = g.get("c2s") or [], g.get("s2c") or []
            obs[i] = g
            orc[i] = oracle(g)
        m2 = coq_mismatches([obs[i] for i in todo], "Retry%d_" % attempts)
        for j, i in enumerate(todo):
            mis.discard(i)
            if j in m2:
                mis.add(i)
        bad = {i for i in range(len(obs)) if i in mis or orc[i]}
        todo = sorted(i for i in bad if suspect(obs[i]))
    inconclusive = [obs[i] for i in todo]           # still timing out after the retries
    keep = [i for i in range(len(obs)) if i not in set(todo)]
    fails = [(key, what, obs[i]) for i in keep for key, what in orc[i]]
    mism = [obs[i] for i in keep if i in mis]
    obs = [obs[i] for i in keep]
    lines = obs
    if inconclusive:
        ctx.notes.append("%d exchange(s) timed out in the harness on every retry and were dropped as inconclusive" % len(inconclusive))
    if mism:
        corr_ok = False
        detail["model_vs_impl_mismatches"] = mism[:5]

    def cfgkey(o):
        return (tuple(o["client"].values()), tuple(o["server"].values()))
    distinct = {(cfgkey(o), o["req_msg"], o["resp_msg"]) for o in obs if cfgkey(o) != ((65535, 65535, 0, 0), (65535, 65535, 2097152, 512))}
    classes = {}
    for o in obs:
        classes[o.get("class", "")] = classes.get(o.get("class", ""), 0) + 1
    ctx.coverage.update({
        "evaluations": len(obs), "distinct_nontrivial": len(distinct),
        "rule": "real gopcua client (uacp.Dialer{ClientACK}+uasc.NewSecureChannel) and scripted server (uacp.Listen(ack)+uasc.NewServerSecureChannel) "
                "over a frame-recording proxy, one ReadRequest/ReadResponse exchange per connection, modes None / Sign / SignAndEncrypt, half of the cases a chunk grid (body = k*maxbody + r, k in 1..6, r in -2..k+1, one direction at a time), the others with message sizes placed around "
                "k*(chunk body size), MaxMessageSize and MaxChunkCount of both sides; configurations: symmetric default, client smaller, server smaller, "
                "fully asymmetric (8192..2^20), server/client message limits, zero = unlimited, mixed, buffers below the minimum; "
                "distinct = distinct (client cfg, server cfg, request size, response size) other than default/default",
        "samples": obs[:2] + obs[-2:],
        "classes": classes,
        "modes": {m: sum(1 for o in obs if (o.get("mode") or 1) == m) for m in (1, 2, 3)},
        "chunk_grid_cases": sum(1 for o in obs if str(o.get("class", "")).startswith("chunk-grid")),
        "largest_chunk_vs_announced": {
            "c2s_max_ratio": max([max(o["c2s"]) / o["ack"]["recv"] for o in obs if o["c2s"] and o.get("ack")] or [0]),
            "s2c_max_ratio": max([max(o["s2c"]) / o["hello"]["recv"] for o in obs if o["s2c"] and o.get("hello")] or [0])},
        "calibration": calib,
        "distinct_configurations": len({cfgkey(o) for o in obs}),
        "requests_refused_by_sender": sum(1 for o in obs if str(o.get("client_err", "")).startswith("refused")),
        "responses_refused_by_sender": sum(1 for o in obs if str(o.get("server_send_err", "")).startswith("refused")),
        "multi_chunk_requests": sum(1 for o in obs if len(o["c2s"]) > 1),
        "multi_chunk_responses": sum(1 for o in obs if len(o["s2c"]) > 1),
        "handshakes_refused": sum(1 for o in obs if o.get("dial_err")),
        "largest_chunk_seen": max([max(o["c2s"] + o["s2c"] + [0]) for o in obs] or [0]),
        "traces_validated_against_impl": len(lines),
        "model_impl_mismatches": len(mism),
        "inconclusive": len(inconclusive),
        "inconclusive_samples": [{k: o.get(k) for k in ("id", "class", "mode", "client", "server", "req_msg", "resp_msg", "client_err", "dial_err", "server_recv_err")} for o in inconclusive[:3]],
        "timeout_retries": {"cases_retried": len(retried), "rounds": attempts},
    })
    ctx.assumptions += [
        "wire sizes are compared for None/None and for Basic256Sha256 in Sign and SignAndEncrypt (Model.Layout.secured_len); for the other policies the chunk size bound is theorem C38_fits (tied by the C38 sweep)",
        "a client that announces MaxMessageSize/MaxChunkCount = 0 applies the server's values (or the defaults) to what it receives (C06_remark_client_without_limits); outside the three clauses of the property",
    ]

    new, seen = 0, set()
    for key, why, o in fails:
        k = "%s/%s" % (key, o.get("class", ""))
        if k in seen:
            continue
        seen.add(k)
        if ctx.finding(k, why, {"observation": o, "how": "save the observation as one line of a .jsonl file and run: work/bin/uacpharness -cases <file> c06  (or ./check C06 --replay <file>)"}):
            new += 1
    if mism and new == 0:
        ctx.violation({"broken": "the Coq model of the negotiation / send / receive limits and the implementation disagree on this exchange (property oracle is satisfied)",
                       "observation": mism[0], "detail": detail,
                       "how": "work/bin/uacpharness -cases <file with this observation as one line> c06"}, no_input=True)
        return
    ctx.conclude(proof_ok, corr_ok, new, detail)
