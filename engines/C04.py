"""C04 — NodeID textual form round-trips and equality matches identity (ua/node_id.go, expanded_node_id.go, typereg.go)."""
import glob, json, os
import vf

IMPORTS = """From Coq Require Import List Bool NArith ZArith.
From Coq.Strings Require Import Byte.
From Opcua Require Import Model.PureBytes Model.NodeIdText.
Import ListNotations. Open Scope N_scope."""

CT_ID = "nodeid * (N * option bytes) * option (N * option nodeid) * option (N * option bool)"
AG_ID = """  let '(n, rend, par, eq) := c in
  res_agrees beqb (render n) rend &&
  match rend, par with (0, Some s), Some p => res_agrees nodeid_eqb (parse s) p | _, _ => true end &&
  match rend, par, eq with (0, Some s), Some (0, Some m), Some e => res_agrees Bool.eqb (equal n m) e | _, _, _ => true end"""
CT_PARSE = "bytes * option (list bytes) * (N * option expnodeid) * (N * option nodeid)"
AG_PARSE = """  let '(s, tbl, pe, pn) := c in
  res_agrees expnodeid_eqb (parse_expanded s tbl) pe && res_agrees nodeid_eqb (parse s) pn"""
CT_PAIR = "nodeid * nodeid * (N * option bool)"
AG_PAIR = """  let '(a, b, e) := c in res_agrees Bool.eqb (equal a b) e"""

DICT = {}


def cb_raw(hexs):
    return "[" + ";".join("x%02x" % x for x in bytes.fromhex(hexs)) + "]"


def cb(hexs):
    if hexs is None:
        return "[]"
    if len(hexs) > 24:
        if hexs not in DICT:
            DICT[hexs] = "u%d" % len(DICT)
        return DICT[hexs]
    return cb_raw(hexs)


def nid(v):
    """the NodeID struct as observed (mask incl. flags), viewed through the model's `view` (type = mask & 15)"""
    g = v["gid"]
    gs = "None" if g is None else "(Some (G %d %d %d %s))" % (g["d1"], g["d2"], g["d3"], cb(g["d4"]))
    return "(view (R %d %d %d %s %s))" % (v["mask"], v["ns"], v["nid"], cb(v["bid"]), gs)


def xid(x):
    flag = "true" if x["id"]["mask"] & 0x80 else "false"
    return "(X %s %s %s %d)" % (nid(x["id"]), flag, cb(x["nsu"]), x["idx"])


def out(o, val):
    """observed outcome -> Coq (N * option A)"""
    if o["code"] == 0:
        return "(0, Some %s)" % val(o)
    return "(%d, None)" % o["code"]


def same_node(a, b):
    ta, tb = a["mask"] & 15, b["mask"] & 15
    fam = lambda t: 0 if t <= 2 else t
    if fam(ta) != fam(tb):
        return False
    if ta <= 2:
        return (0 if ta == 0 else a["ns"], a["nid"]) == (0 if tb == 0 else b["ns"], b["nid"])
    if a["ns"] != b["ns"]:
        return False
    if ta in (3, 5):
        return (a["bid"] or "") == (b["bid"] or "")
    ga, gb = a["gid"], b["gid"]
    if ga is None or gb is None:
        return ga is None and gb is None
    pad = lambda g: (g["d1"], g["d2"], g["d3"], (g["d4"] + "00" * 8)[:16])      # a short Data4 denotes the zero-padded GUID
    return pad(ga) == pad(gb)


FAMILY = {0: "numeric", 1: "numeric", 2: "numeric", 3: "string", 4: "guid", 5: "opaque"}


def oracle(o):
    """the property on one observation; returns (key, what) or None"""
    k = o["kind"]
    if k == "id":
        n = o["n"]
        t = n["mask"] & 15
        ctor = (o.get("in") or {}).get("ctor")
        if not o["wf"]:
            return None
        fam = FAMILY.get(t, "type%d" % t)
        if o["str"]["code"] != 0:
            return (fam + "-string-panic", "%s: String() panicked: %s" % (o["how"], o["str"].get("msg", "")))
        if o["parse"]["code"] != 0:
            return (fam + "-roundtrip", "%s: String() = %r is rejected by ParseNodeID: %s" % (o["how"], bytes.fromhex(o["str"]["s"]).decode("latin1"), o["parse"].get("msg", "")))
        if not o.get("equal") or o["equal"]["code"] != 0 or not o["equal"]["b"]:
            return (fam + "-equal-after-parse", "%s: ParseNodeID(String()) is not Equal to the original" % o["how"])
        if not same_node(n, o["parse"]["id"]):
            return (fam + "-different-node-after-parse", "%s: ParseNodeID(String()) denotes another node" % o["how"])
        return None
    if k == "pair":
        if not (o["wf_a"] and o["wf_b"]):
            return None
        if o["equal"]["code"] != 0:
            return ("equal-panic", "Equal(%s, %s) panicked" % (o["how_a"], o["how_b"]))
        if o["equal"]["b"] != same_node(o["va"], o["vb"]):
            return ("equal-vs-identity", "Equal(%s, %s) = %s but same node = %s" % (o["how_a"], o["how_b"], o["equal"]["b"], same_node(o["va"], o["vb"])))
        return None
    if k == "parse":
        if o["pe"]["code"] == 99 or o["pn"]["code"] == 99:
            return ("parse-panic", "parsing %r panicked" % bytes.fromhex(o["s"]).decode("latin1"))
    return None


def case_input(o):
    return {f: o[f] for f in ("kind", "tag", "in", "a", "b", "s", "tbl") if f in o}


def run(ctx):
    n = 13000 if ctx.thorough() else 1000
    proof_ok, detail = True, {}
    if not os.path.exists(os.path.join(vf.COQ, "Props", "C04.v")):
        proof_ok = False
        detail["coq"] = "Props/C04.v missing"
    else:
        r = ctx.props()
        if not r["ok"]:
            proof_ok = False
            detail["coq"] = r["failed_at"] or r["log"][-1500:]
        if ctx.thorough() and proof_ok:
            ok2, log = ctx.coqchk()
            if not ok2:
                proof_ok = False
                detail["coqchk"] = log[-1500:]

    h, log = ctx.go_build("nodeidharness")
    if h is None:
        ctx.broken_tie("nodeidharness does not build against /repo", log[-2000:])
        return
    files = sorted(glob.glob(os.path.join(vf.VERIF, "corpus", "C04", "*.json")))
    if ctx.replay:
        files = [ctx.replay]
    pre = []
    for f in files:
        try:
            j = json.load(open(f))
            pre.append(j.get("case", j))
        except Exception as e:
            ctx.notes.append("unreadable corpus entry %s: %s" % (f, e))
    obs = []
    if pre:
        cf = os.path.join(ctx.work, "precases.jsonl")
        with open(cf, "w") as fh:
            for c in pre:
                fh.write(json.dumps(c) + "\n")
        rc, o = vf.sh([h, "-cases", cf], timeout=300, env=vf.GOENV)
        got = [json.loads(l) for l in o.splitlines() if l.startswith("{")]
        if rc != 0 or len(got) != len(pre):
            ctx.broken_tie("nodeidharness failed on the corpus/replay cases", o[-1500:])
            return
        obs += got
    if not ctx.replay:
        rc, o = vf.sh([h, "-seed", str(ctx.seed), "-n", str(n)], timeout=900, env=vf.GOENV)
        gen = [json.loads(l) for l in o.splitlines() if l.startswith("{")]
        if rc != 0 or not gen:
            ctx.broken_tie("nodeidharness crashed", o[-2000:])
            return
        obs += gen

    fails = [(r, o) for o in obs for r in [oracle(o)] if r]

    ids = [o for o in obs if o["kind"] == "id"]
    parses = [o for o in obs if o["kind"] == "parse"]
    pairs = [o for o in obs if o["kind"] == "pair"]
    l_id, l_parse, l_pair = [], [], []
    for o in ids:
        rend = out(o["str"], lambda x: cb(x["s"]))
        par = "None" if not o.get("parse") else "(Some %s)" % out(o["parse"], lambda x: nid(x["id"]))
        eq = "None" if not o.get("equal") else "(Some %s)" % out(o["equal"], lambda x: "true" if x["b"] else "false")
        l_id.append("(%s, %s, %s, %s)" % (nid(o["n"]), rend, par, eq))
    for o in parses:
        tbl = "None" if o.get("tbl") is None else "(Some [%s])" % ";".join(cb(u) for u in o["tbl"])
        l_parse.append("(%s, %s, %s, %s)" % (cb(o["s"]), tbl, out(o["pe"], lambda x: xid(x["x"])), out(o["pn"], lambda x: nid(x["id"]))))
    for o in pairs:
        l_pair.append("(%s, %s, %s)" % (nid(o["va"]), nid(o["vb"]), out(o["equal"], lambda x: "true" if x["b"] else "false")))
    defs = "".join("\nDefinition %s : bytes := %s." % (v, cb_raw(k)) for k, v in DICT.items())
    corr_ok, mism = True, []
    for name, ct, lines, ag, src in (("CasesId", CT_ID, l_id, AG_ID, ids), ("CasesParse", CT_PARSE, l_parse, AG_PARSE, parses), ("CasesPair", CT_PAIR, l_pair, AG_PAIR, pairs)):
        if not lines:
            continue
        okc, idx, clog = ctx.eval_cases(IMPORTS + defs, ct, lines, ag, shard=150, name=name)
        if not okc:
            corr_ok = False
            detail["cases_" + name] = clog[-2500:]
        elif idx:
            corr_ok = False
            mism += [src[i] for i in idx]
    if mism:
        detail["mismatch_count"] = len(mism)
        detail["model_vs_impl_mismatches"] = mism[:6]

    hist = {}
    for o in obs:
        if o["kind"] == "id":
            key = "id/%s/str%d/parse%s" % ("wf" if o["wf"] else "raw", o["str"]["code"], (o.get("parse") or {}).get("code"))
        elif o["kind"] == "parse":
            key = "parse/%d" % o["pe"]["code"]
        else:
            key = "pair/%s/%s" % ("wf" if o["wf_a"] and o["wf_b"] else "raw", o["equal"].get("b"))
        hist[key] = hist.get(key, 0) + 1
    distinct = {json.dumps(case_input(o), sort_keys=True) for o in obs
                if not (o["kind"] == "parse" and len(o["s"]) < 8)}
    ctx.coverage.update({
        "evaluations": len(obs), "distinct_nontrivial": len(distinct),
        "rule": "seeded: ids of all six encodings from the public constructors (boundary namespaces/ids, identifiers with ';' '=' 'ns=' 'i=' prefixes, empty, arbitrary bytes, GUID texts in several spellings) plus raw ids (invalid type nibble, nil GUID, short/long Data4); arbitrary strings for ParseExpandedNodeID/ParseNodeID with and without namespace table (about 40% valid, the rest mutated renderings, sign/range/underscore variants, base64 with CR/LF and broken padding, GUID length/case variants); related pairs for Equal; distinct_nontrivial = distinct inputs, parse strings shorter than 4 bytes excluded",
        "samples": [case_input(o) for o in (ids[:2] + parses[:2] + pairs[:1])],
        "per_kind": {"id": len(ids), "parse": len(parses), "pair": len(pairs)}, "outcome_histogram": hist,
        "traces_validated_against_impl": len(obs), "model_impl_mismatches": len(mism),
    })

    new, seen = 0, set()
    for (key, what), o in fails:
        if key in seen:
            continue
        seen.add(key)
        if ctx.finding(key, what, {"case": case_input(o), "observation": o,
                                   "how": "go/cmd/nodeidharness -cases <file with the 'case' object on one line>; ./check C04 --replay <this file>"}):
            new += 1
    if mism and new == 0:
        # the model and the implementation disagree on a concrete input, but the property's own oracle holds on it
        ctx.violation({"broken": "C04: model/implementation correspondence no longer checks (the implementation's text form changed)",
                       "case": case_input(mism[0]), "observation": mism[0], "detail": detail,
                       "how": "./check C04 --replay <this file> re-runs the case and shows the disagreement"}, no_input=True)
        return
    ctx.conclude(proof_ok, corr_ok, new, detail)
