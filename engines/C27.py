"""C27 — subscription API calls and the publish loop never deadlock."""
import collections, json, os
import vf

IMPORTS = """From Coq Require Import List Bool Arith.
From Opcua Require Import Model.ClientSub Gen.ClientSubParams.
Import List. Import ListNotations. Open Scope list_scope. Open Scope nat_scope.
Definition same_set (a b : list nat) : bool := (List.length a =? List.length b) && forallb (fun x => mem_id x b) a.
Definition matches (d : list bool) (outstanding : bool) (ss : list nat) (t : terminal) : bool :=
  list_eqb Bool.eqb d (t_done t) && Bool.eqb outstanding (loop_eqb (t_loop t) LInPublish) && same_set ss (t_subs t)."""


def b(x):
    return "true" if x else "false"


def prog_term(c):
    L = c["l"]
    ops = []
    for i in range(0, len(L), 2):
        if L[i] == 3:
            ops.append("OpConsume")
        else:
            ops.append(("OpSubscribe %d" if L[i] == 0 else "OpForget %d") % L[i + 1])
    scr = ";".join("POk" if ch in "oO" else "PData 1" for ch in c["s"]["script"] if ch in "oOdD")
    return "[%s]" % ";".join(ops), "[%s]" % scr


def run(ctx):
    n = 60 if ctx.thorough() else 14
    proof_ok, detail = True, {}
    ok, out = ctx.regen(["clientsub"])
    if not ok:
        proof_ok = False
        detail["translator"] = out[-2000:]
        ctx.log("translator failed: " + out[-800:])
    r = ctx.props() if ok else None
    if r is not None and not r["ok"]:
        proof_ok = False
        detail["coq"] = r["failed_at"] or r["log"][-1500:]
    if ctx.thorough() and proof_ok:
        ok2, log = ctx.coqchk()
        if not ok2:
            proof_ok = False
            detail["coqchk"] = log[-1500:]

    h, log = ctx.go_build("clientharness")
    if h is None:
        ctx.broken_tie("harness does not build against /repo", log[-2000:])
        return
    obs = []
    if ctx.replay:
        rc, out = vf.sh([h, "c27", "-replay", ctx.replay], timeout=300, env=vf.GOENV)
        obs = [json.loads(l) for l in out.splitlines() if l.startswith("{")]
    else:
        # corpus: the witness of the fixed deadlock; then the lost-resume witness of Props/C27.v several times (the
        # order in which Go's select takes two ready channels is random), then generated programs
        files = [os.path.join(vf.VERIF, "corpus", "C27", "row20_triple_cancel.json")]
        wit = os.path.join(ctx.work, "lost_resume_witness.json")
        json.dump({"case": {"id": 0, "op": "c27", "l": [0, 1, 1, 1, 0, 2], "p": {"seq": 1, "delay1": 0, "delay2": 25}, "s": {"script": "O"}}}, open(wit, "w"))
        # two pause signals and one resume signal pending (two Forgets of the last subscription, then Subscribe)
        wit2 = os.path.join(ctx.work, "lost_resume_witness2.json")
        json.dump({"case": {"id": 0, "op": "c27", "l": [0, 1, 1, 1, 1, 1, 0, 2], "p": {"seq": 1, "delay1": 0, "delay2": 25, "delay3": 60}, "s": {"script": "O"}}}, open(wit2, "w"))
        jobs = [[h, "c27", "-replay", f] for f in files] + [[h, "c27", "-replay", wit]] * 8 + [[h, "c27", "-replay", wit2]] * 10
        import concurrent.futures
        with concurrent.futures.ThreadPoolExecutor(max_workers=6) as ex:
            for rc, out in ex.map(lambda j: vf.sh(j, timeout=300, env=vf.GOENV), jobs):
                obs += [json.loads(l) for l in out.splitlines() if l.startswith("{")]
        rc, out = vf.sh([h, "c27", "-seed", str(ctx.seed), "-n", str(n)], timeout=1500, env=vf.GOENV)
        gen = [json.loads(l) for l in out.splitlines() if l.startswith("{")]
        if rc != 0 or not gen:
            ctx.broken_tie("harness crashed", out[-2000:])
            return
        obs += gen

    new, seen = 0, set()

    def report(key, what, o):
        nonlocal new
        if key in seen:
            return
        seen.add(key)
        c = dict(o["case"])
        c.pop("url", None)
        if ctx.finding(key, what, {"case": c, "observed": {k: o.get(k) for k in ("done", "api_done", "outstanding", "subs", "subs_blocked", "pubs", "err", "panic")},
                                   "how": "work/bin/clientharness c27 -replay <this file>: ops (kind,id) pairs in case.l (0 Subscribe, 1 ForgetSubscription, 2 Cancel, 3 consumer: SubscriptionIDs() then receive from the unbuffered Notifs channel), first case.p.seq ops sequential, the rest concurrent; publish answers per case.s.script (O/o keep-alive, D/d data notification for subscription 1; upper case = held until the calls are issued)"}):
            new += 1

    usable, stress = [], []
    for o in obs:
        if o.get("done") is None:
            report("harness/" + (o.get("panic") or o.get("err") or "?")[:60], "child failed: %s %s" % (o.get("err"), o.get("panic")), o)
            continue
        if o["case"]["s"].get("kind") == "stress":
            stress.append(o)
            if not all(o["done"]) or o.get("subs_blocked"):
                report("blocked/stress", "with %d subscriptions, %d goroutines calling ForgetSubscription and a publish error for all subscriptions arriving, calls stopped returning: writers returned=%s subs_blocked=%s" % (
                    o["case"]["p"].get("nsubs"), o["case"]["p"].get("writers"), o["done"], o.get("subs_blocked")), o)
            continue
        usable.append(o)
        shape = "".join("SFCR"[k] for k in o["case"]["l"][0::2])
        api_done = o.get("api_done") or o["done"]
        has_data = any(ch in "dD" for ch in o["case"]["s"]["script"])
        if not all(api_done) or o.get("subs_blocked"):
            report("blocked/" + shape, "an API call never returned or subMux can no longer be taken: api calls returned=%s subs_blocked=%s" % (api_done, o.get("subs_blocked")), o)
        elif o["subs"] and not o["outstanding"] and not has_data:
            report("lost-resume", "all calls returned, subscriptions %s are registered, but the publish loop is parked (no publish request outstanding)" % o["subs"], o)

    corr_ok, mism = True, []
    if ok and (r is None or r["ok"]):
        lines = []
        for o in usable:
            p, s = prog_term(o["case"])
            lines.append("(%s, %s, ([%s], %s, [%s]))" % (p, s, ";".join(b(x) for x in o["done"]), b(o["outstanding"]), ";".join(str(x) for x in o["subs"])))
        okc, idx, clog = ctx.eval_cases(IMPORTS, "list op * list pub_outcome * (list bool * bool * list nat)", lines,
                                        "  let '(prog, scr, (d, outst, ss)) := c in existsb (matches d outst ss) (terminals sub_params 60000 (init sub_params scr prog))",
                                        shard=max(1, (len(lines) + 7) // 8), timeout=1200)
        if not okc:
            corr_ok = False
            detail["cases"] = clog
        elif idx:
            mism = [usable[i] for i in idx if not usable[i].get("subs_blocked")]
            if mism:
                corr_ok = False
                detail["model_vs_impl_mismatches"] = mism[:10]
    else:
        corr_ok = False
    if mism and new == 0:
        for o in mism[:3]:
            report("mismatch/" + "".join("SFCR"[k] for k in o["case"]["l"][0::2]),
                   "the implementation ended in a state that is not a terminal state of the model (Model.ClientSub.terminals) for this program", o)

    progs = {json.dumps([o["case"]["l"], o["case"]["s"]["script"]]) for o in usable}
    ctx.coverage.update({
        "evaluations": len(obs),
        "distinct_nontrivial": len(progs),
        "rule": "programs: Subscribe 1 sequentially, then 2..4 concurrent operations drawn from {Subscribe, ForgetSubscription, Cancel} x ids {1,2}, one program in three with a consumer goroutine and data notifications on an unbuffered Notifs channel, with seeded start delays, publish scripts of 0..3 answers (first answer held until the calls are issued); plus 3 stress runs (48 subscriptions, 4 goroutines write-locking subMux, a PublishResponse with a Bad ServiceResult and SubscriptionID 0), the corpus witness of the fixed deadlock and 8 + 10 runs of the two lost-resume witnesses (the defect is fixed: they must end publishing); one child process per program; distinct = distinct (operation list, script)",
        "samples": [{k: o.get(k) for k in ("case", "done", "outstanding", "subs", "subs_blocked")} for o in usable[:3] + usable[-2:]],
        "terminal_classes": dict(collections.Counter("done=%s outstanding=%s subs=%d" % (all(o["done"]), o["outstanding"], len(o["subs"])) for o in usable)),
        "traces_validated_against_impl": len(usable),
        "stress_runs": len(stress),
        "model_impl_mismatches": len(mism),
    })
    ctx.assumptions += [
        "schedules of the real client are not controlled (no scheduling hooks): the observed terminal state must be one of the model's terminal states over ALL schedules (computed inside Coq by breadth-first search)",
        "context cancellation (Close) and publish errors (which the secure channel also reports to the reconnect monitor) are outside the correspondence run; the model has them as PErr/PTimeout",
        "the application reads Notifs only in the modelled consumer operations (one API call, then one receive); Props/C27.v C27_notifies_outside_lock (translated) says that no notification is handed over with subMux held",
    ]
    ctx.conclude(proof_ok, corr_ok, new, detail)
