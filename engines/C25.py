"""C25 — connection state follows the documented lifecycle under faults."""
import collections, json, os
import vf

ERR = {"eof": "EEOF", "channel": "EChannelInvalid", "session": "ESessionInvalid", "subscription": "ESubscriptionInvalid",
       "nosub": "ENoSubscription", "cert": "ECertInvalid", "other": "EOther"}
STATE = ["StClosed", "StConnected", "StConnecting", "StDisconnected", "StReconnecting"]
CALL = {"D": "CDial", "A": "CActivate", "C": "CCreate", "N": "CNamespaces"}
# documented relation, python side (oracle): same table as Model.ClientMonitor.documented
DOC = {(2, 1), (1, 3), (3, 4), (4, 4), (4, 1), (0, 2)}

IMPORTS = """From Coq Require Import List Bool Arith.
From Opcua Require Import Model.ClientSession Model.ClientMonitor.
Import List. Import ListNotations. Open Scope list_scope. Open Scope nat_scope.
Definition st_code (s : conn_state) : nat := match s with StClosed => 0 | StConnected => 1 | StConnecting => 2 | StDisconnected => 3 | StReconnecting => 4 end.
Definition call_code (c : call) : nat := match c with CDial => 0 | CActivate => 1 | CCreate => 2 | CNamespaces => 3 end.
Fixpoint nats_eqb (a b : list nat) : bool := match a, b with [], [] => true | x :: a', y :: b' => (x =? y) && nats_eqb a' b' | _, _ => false end.
Definition trace (auto close : bool) (e : err_class) (ev : env) : list nat * list nat :=
  let s := reconnect auto e 40 ev in let s' := if close then on_close s else s in
  (map st_code (m_states s'), map call_code (m_calls s'))."""


def b(x):
    return "true" if x else "false"


def bl(s):
    # '1' success, '0' fault, '2' connection dropped during the call: both count as a failed call
    return "[" + ";".join("true" if ch == "1" else "false" for ch in (s or "")) + "]"


def run(ctx):
    n = 120 if ctx.thorough() else 40
    proof_ok, detail = True, {}
    okt, out = ctx.regen(["clientmonitor"])
    if not okt:
        proof_ok = False
        detail["translator"] = out[-2000:]
        ctx.log("translator failed: " + out[-800:])
    r = ctx.props() if okt else {"ok": False, "failed_at": None, "log": "translator failed"}
    if okt and not r["ok"]:
        proof_ok = False
        detail["coq"] = r["failed_at"] or r["log"][-1500:]
    if ctx.thorough() and proof_ok:
        ok2, log = ctx.coqchk()
        if not ok2:
            proof_ok = False
            detail["coqchk"] = log[-1500:]
    h, log = ctx.go_build("clientharness")
    if h is None:
        ctx.broken_tie("harness does not build against /repo", log[-2000:])
        return
    if ctx.replay:
        rc, out = vf.sh([h, "c25", "-replay", ctx.replay], timeout=300, env=vf.GOENV)
    else:
        rc, out = vf.sh([h, "c25", "-seed", str(ctx.seed), "-n", str(n)], timeout=1500, env=vf.GOENV)
    obs = [json.loads(l) for l in out.splitlines() if l.startswith("{")]
    if rc != 0 or not obs:
        ctx.broken_tie("harness crashed", out[-2000:])
        return

    new, seen = 0, set()

    def report(key, what, o):
        nonlocal new
        if key in seen:
            return
        seen.add(key)
        c = dict(o["case"])
        c.pop("url", None)
        if ctx.finding(key, what, {"case": c, "observed": {k: o.get(k) for k in ("states", "calls", "late_calls", "leaks", "works", "err", "panic")},
                                   "how": "work/bin/clientharness c25 -replay <this file>: scripted server injects case.s.err while Connected, then answers Dial/ActivateSession/CreateSession/namespace reads per the 0/1 strings in case.s; states: 0 Closed 1 Connected 2 Connecting 3 Disconnected 4 Reconnecting"}):
            new += 1

    lines, usable = [], []
    for o in obs:
        c = o["case"]
        if o.get("states") is None or o.get("err"):
            report("harness/" + (o.get("panic") or o.get("err") or "?")[:50], "run failed: %s %s" % (o.get("err"), o.get("panic")), o)
            continue
        usable.append(o)
        st = o["states"]
        # the property on the implementation: only documented transitions; Connected again when auto-reconnect is on and
        # the error is recoverable; Closed and silent after Close
        for a, b2 in zip(st, st[1:]):
            if b2 != 0 and (a, b2) not in DOC:
                key = "undocumented-transition/%d-%d" % (a, b2)
                if (a, b2) == (3, 1) and c["s"]["err"] == "subscription":
                    key = "disconnected-to-connected"
                report(key, "reported transition %s -> %s is not in the documented lifecycle (states %s)" % (STATE[a], STATE[b2], st), o)
        if st and 1 in st[2:] and o.get("works") == 0:
            report("connected-but-dead/" + c["s"]["err"], "the client reports Connected after the reconnect but a request sent afterwards is not answered (states %s)" % st, o)
        auto, close = c["p"].get("auto", 0) == 1, c["p"].get("close", 0) == 1
        if close:
            if not st or st[-1] != 0:
                report("not-closed-after-close", "state after Close is %s" % (st[-1:] or None), o)
            if o.get("leaks"):
                report("goroutines-after-close/" + o["leaks"][0].strip("/"), "%d goroutines are still running library code 3 s after Close: %s" % (len(o["leaks"]), sorted(set(o["leaks"]))), o)
            if o.get("late_calls", 0) > 0:
                report("calls-after-close", "%d connection attempts / session calls after Close" % o["late_calls"], o)
        elif auto and c["s"]["err"] != "nosub" and (not st or st[-1] != 1):
            report("not-reconnected/" + c["s"]["err"], "auto-reconnect on, scripted outcomes eventually all succeed, final state %s" % (st[-1:] or None), o)
        elif not auto and c["s"]["err"] != "nosub" and (not st or st[-1] != 0):
            report("not-closed-without-autoreconnect", "auto-reconnect off: final state %s" % (st[-1:] or None), o)
        ev = "{| dials := %s; activates := %s; creates := %s; namespaces := %s |}" % (bl(c["s"].get("dials")), bl(c["s"].get("activates")), bl(c["s"].get("creates")), bl(c["s"].get("namespaces")))
        calls = "[" + ";".join(str("DACN".index(x)) for x in o["calls"]) + "]"
        lines.append("((%s, %s, %s, %s), ([%s], %s))" % (b(auto), b(close), ERR[c["s"]["err"]], ev, ";".join(str(x) for x in st), calls))

    corr_ok, mism = True, []
    if r["ok"]:
        okc, idx, clog = ctx.eval_cases(IMPORTS, "(bool * bool * err_class * env) * (list nat * list nat)", lines,
                                        "  let '((auto, close, e, ev), (st, calls)) := c in let '(mst, mcalls) := trace auto close e ev in nats_eqb st mst && nats_eqb calls mcalls")
        if not okc:
            corr_ok = False
            detail["cases"] = clog
        elif idx:
            corr_ok = False
            mism = [usable[i] for i in idx]
            detail["model_vs_impl_mismatches"] = mism[:10]
    else:
        corr_ok = False
    if mism and new == 0:
        for o in mism[:3]:
            report("mismatch/" + o["case"]["s"]["err"], "reported states / calls differ from the model trace (Model.ClientMonitor.reconnect)", o)

    ctx.coverage.update({
        "evaluations": len(obs),
        "distinct_nontrivial": len({json.dumps([o["case"]["s"], o["case"]["p"]], sort_keys=True) for o in usable}),
        "rule": "fault class rotates over {connection drop x2, BadSecureChannelIDInvalid, BadSessionIDInvalid, BadSubscriptionIDInvalid, BadNoSubscription, BadCertificateInvalid, other}; auto-reconnect on 3/4; Close at the end 1/2; 0..2 scripted outcomes (2/3 success) for each of Dial, ActivateSession, CreateSession, namespace read, the rest succeed; one case in four drops the connection during a namespace read of the reconnect; a request is sent after the states settle on Connected and must be answered; distinct = distinct (fault, outcome lists, options)",
        "samples": [{k: o.get(k) for k in ("case", "states", "calls")} for o in usable[:3] + usable[-2:]],
        "state_sequences": dict(collections.Counter(" ".join(str(x) for x in o["states"]) for o in usable).most_common(12)),
        "traces_validated_against_impl": len(lines),
        "close_runs_checked_for_goroutines": len([o for o in usable if o["case"]["p"].get("close") == 1]),
        "model_impl_mismatches": len(mism),
    })
    ctx.assumptions += [
        "faults are injected by the scripted server (connection drop, ServiceFault with the selecting status, connection closed after the handshake = failed Dial, faulted session calls) instead of a TCP proxy in front of the stock server: the client code path is the same",
        "ECONNREFUSED (abortReconnect) is only in the model; real-time bounds are not claimed; goroutines after Close are checked on the implementation only (stack dump of the client process after a settling delay of up to 3 s: no goroutine may be inside github.com/gopcua/opcua), not modelled",
        "the bounded liveness theorem enumerates environments with at most two scripted outcomes per call kind",
    ]
    ctx.conclude(proof_ok, corr_ok, new, detail)
