"""C05 — UACP framing delivers exactly the frames sent under any segmentation."""
import glob, json, os, struct
import vf

IMPORTS = """From Coq Require Import NArith List Bool.
From Coq.Strings Require Import Byte.
From Opcua Require Import Model.UacpFraming.
Import ListNotations. Open Scope N_scope."""

CTYPE = "N * nat * list (list (N * N)) * list (res bytes)"

AGREE = """  let '(rbuf, calls, segs, obs) := c in
  results_eqb (fst (receive_all calls rbuf (map unrle segs))) obs"""


def rle(b):
    out, i = [], 0
    while i < len(b):
        j = i
        while j < len(b) and b[j] == b[i]:
            j += 1
        out.append("(%d,%d)" % (b[i], j - i))
        i = j
    return "[" + ";".join(out) + "]"


ERRS = {"eof": "Err EEOF", "ueof": "Err EUnexpectedEOF", "toolarge": "Err ETooLarge", "toosmall": "Err ETooSmall",
        "errdecode": "Err EErrDecode", "hdrdecode": "Err EHeaderDecode", "panic": "Panic PSliceBounds"}


def coq_result(r):
    """an observed Receive result as a Coq term, or None when the model has no such outcome (hang, other error)"""
    if "ok" in r:
        return "Ok (unrle %s)" % rle(bytes.fromhex(r["ok"]))
    e = r["err"]
    if e == "status":
        return "Err (EStatus %d (unrle %s))" % (r.get("code", 0), rle(bytes.fromhex(r.get("reason", ""))))
    return ERRS.get(e)


def coq_case(o):
    stream = bytes.fromhex(o["stream"])
    segs, off = [], 0
    for n in o["segs"]:
        n = min(n, len(stream) - off)
        if n > 0:
            segs.append(rle(stream[off:off + n]))
            off += n
    if off < len(stream):
        segs.append(rle(stream[off:]))
    obs = [coq_result(r) for r in o["results"]]
    if any(x is None for x in obs):
        return None
    return "(%d, %d%%nat, [%s], [%s])" % (o.get("rbuf_conn", o["rbuf"]), o["calls"], ";".join(segs), ";".join(obs))


# ---- the property's own statement, evaluated on the implementation's observations --------------------------

def deliver(f):
    """what the receiver must yield for a well-sized frame the peer sent (Part 6: an ERR frame is reported as error)"""
    if f[:3] != b"ERR":
        return {"ok": f.hex()}
    body = f[8:]
    if len(body) < 8:
        return {"err": "errdecode"}
    code, n = struct.unpack("<II", body[:8])
    if n in (0, 0xffffffff):
        return {"err": "status", "code": code, "reason": ""}
    if n > len(body) - 8:
        return {"err": "errdecode"}
    return {"err": "status", "code": code, "reason": body[8:8 + n].hex()}


def same(a, b):
    if "ok" in a or "ok" in b:
        return a.get("ok") == b.get("ok")
    if a["err"] != b["err"]:
        return False
    if a["err"] == "status":
        return a.get("code", 0) == b.get("code", 0) and a.get("reason", "") == b.get("reason", "")
    return True


def negotiated(o):
    """the receive limit the connection must have: a server takes min(own, the send size the client announced),
    a client keeps the receive size it announced, NewConn uses the given value"""
    if o["via"] == "listener" and o.get("peer_send"):
        return min(o["rbuf"], o["peer_send"])
    return o["rbuf"]


def oracle(o):
    """None if the observation satisfies the property, else (key, what)"""
    if o["rbuf"] < 8:
        return None            # outside the quantifier (a receive buffer below the header size is C13's business)
    o = dict(o, rbuf=negotiated(o))
    res = o["results"]
    for r in res:
        if r.get("err") == "panic":
            return ("panic", "Receive panicked: " + r.get("msg", ""))
        if r.get("err") == "timeout":
            return ("hang", "Receive did not return although the peer had sent everything and closed")
        if r.get("err") in ("other", "hdrdecode"):
            return ("unexpected-error", "unexpected error from Receive: " + r.get("msg", r.get("err")))
    frames = [bytes.fromhex(f) for f in o["frames"]]
    want = [deliver(f) for f in frames]
    for i, w in enumerate(want):
        if i >= len(res):
            return ("frame-lost", "frame %d of %d was never delivered" % (i, len(want)))
        if not same(res[i], w):
            if "ok" in res[i] and "ok" in w:
                return ("frame-corrupted", "frame %d delivered with different bytes" % i)
            return ("frame-not-delivered", "frame %d (size %d, rbuf %d): expected %s, got %s" % (
                i, len(frames[i]), o["rbuf"], {k: (v if k != "ok" else v[:32] + "..") for k, v in w.items()},
                {k: (v if k != "ok" else v[:32] + "..") for k, v in res[i].items()}))
    extra = res[len(want):]
    t = o["tail"]["kind"]
    if len(extra) != 1:
        return ("extra-delivery", "after the %d frames sent, %d further results: %s" % (len(want), len(extra), [e.get("err", "ok") for e in extra]))
    e = extra[0]
    if "ok" in e:
        return ("phantom-frame", "a frame was delivered that the peer never sent (tail %s)" % t)
    if t == "none" and e["err"] != "eof":
        return ("bad-final", "after all frames and close: expected io.EOF, got " + e["err"])
    if t == "badsize":
        sz = o["tail"].get("size", 0)
        w = "toolarge" if sz > o["rbuf"] else "toosmall"
        if e["err"] != w:
            return ("malformed-size-accepted", "declared size %d with rbuf %d: expected %s, got %s" % (sz, o["rbuf"], w, e["err"]))
    if t == "truncated" and e["err"] not in ("eof", "ueof"):
        return ("truncated-frame", "peer closed inside a frame: expected EOF/UnexpectedEOF, got " + e["err"])
    return None


def run(ctx):
    n = 6000 if ctx.thorough() else 450
    proof_ok, detail = True, {}
    ok, out = ctx.regen(["uacp"])
    if not ok:
        proof_ok = False
        detail["translator"] = out[-2000:]
        ctx.log("translator failed: " + out[-500:])
    r = ctx.props() if ok else {"ok": False, "failed_at": "translator", "log": out}
    if ok and not r["ok"]:
        proof_ok = False
        detail["coq"] = r["failed_at"] or r["log"][-1500:]
    if ctx.thorough() and proof_ok:
        ok2, log = ctx.coqchk()
        if not ok2:
            proof_ok = False
            detail["coqchk"] = log[-1500:]

    h, log = ctx.go_build("uacpharness")
    ctx.log("harness built")
    if h is None:
        ctx.broken_tie("harness does not build against /repo", log[-2000:])
        return
    obs = []
    # corpus (minimised past failures and boundary cases) first
    corpus = sorted(glob.glob(os.path.join(vf.VERIF, "corpus", "C05", "*.jsonl")))
    if ctx.replay:
        corpus = [ctx.replay]
    selftest = ["-slow", os.environ["VERIF_SELFTEST_SLOW"]] if os.environ.get("VERIF_SELFTEST_SLOW") else []

    def harness(args, want=None, timeout=3000):
        """run the harness; when it fails or is cut short (loaded machine) run it again with longer deadlines"""
        rc, out, got = 1, "", []
        for slow in (None, 4, 16):
            cmd = [h] + (selftest if slow is None else ["-slow", str(slow)]) + args
            rc, out = vf.sh(cmd, timeout=timeout, env=vf.GOENV)
            got = [json.loads(l) for l in out.splitlines() if l.startswith("{")]
            if rc == 0 and got and (want is None or len(got) == want):
                break
            ctx.log("harness run failed (rc=%d, %d observations), retrying with longer deadlines" % (rc, len(got)))
        return rc, out, got

    for f in corpus:
        rc, out, got = harness(["-cases", f, "c05"])
        if rc != 0 or not got:
            ctx.broken_tie("harness failed on corpus file " + f, out[-2000:])
            return
        for g in got:
            g["origin"] = os.path.basename(f)
        obs += got
    ncorpus = len(obs)
    if not ctx.replay:
        rc, out, gen = harness(["-seed", str(ctx.seed), "-n", str(n), "c05"], want=n)
        if rc != 0 or len(gen) != n:
            ctx.broken_tie("harness crashed or hung (rc=%d, %d of %d cases)" % (rc, len(gen), n), out[-2000:])
            return
        obs += gen
    ctx.log("harness: %d observations" % len(obs))
    for o in obs:
        for k in ("frames", "segs", "results"):
            o[k] = o.get(k) or []
    # A harness-side timeout (read deadline of the receiving side, dial/accept/handshake deadline) is never an
    # observation of the code under test: such a case is re-run alone with longer deadlines (same inputs), up to
    # 3 times; if it still times out it is INCONCLUSIVE: dropped and counted in coverage.inconclusive.
    def suspect(o):
        txt = str(o.get("setup_error", "")).lower()
        return any(r.get("err") == "timeout" for r in o["results"]) or "timeout" in txt or "deadline" in txt

    todo, attempts, retried = [i for i, o in enumerate(obs) if suspect(o)], 0, set()
    while todo and attempts < 3:
        attempts += 1
        retried |= set(todo)
        f = os.path.join(ctx.work, "retry%d.jsonl" % attempts)
        with open(f, "w") as fh:
            for i in todo:
                fh.write(json.dumps({k: v for k, v in obs[i].items() if k not in ("results", "setup_error")}) + "\n")
        rc, out = vf.sh([h, "-slow", str(2 * 2 ** attempts), "-cases", f, "c05"], timeout=3000, env=vf.GOENV)
        got = [json.loads(l) for l in out.splitlines() if l.startswith("{")]
        ctx.log("retry %d of %d timed-out case(s) with deadlines x%d: rc=%d" % (attempts, len(todo), 2 * 2 ** attempts, rc))
        if len(got) != len(todo):
            break
        for i, g in zip(todo, got):
            for k in ("frames", "segs", "results"):
                g[k] = g.get(k) or []
            g["origin"] = obs[i].get("origin", "")
            obs[i] = g
        todo = [i for i in todo if suspect(obs[i])]
    inconclusive = [obs[i] for i in todo]
    obs = [o for i, o in enumerate(obs) if i not in set(todo)]
    if inconclusive:
        ctx.notes.append("%d case(s) timed out in the harness on every retry and were dropped as inconclusive" % len(inconclusive))

    # A connection that cannot be set up (real HEL/ACK exchange with frames that fit the buffers) is itself a
    # failure of the property: a well-sized frame (the Hello / the Acknowledge) was not delivered.
    bad_setup = [o for o in obs if o.get("setup_error")]
    obs = [o for o in obs if not o.get("setup_error")]
    if not obs and not bad_setup:
        ctx.broken_tie("the harness produced no observation", "")
        return

    # (1) oracle: the property's statement on the implementation
    fails = []
    for o in bad_setup:
        fails.append(("handshake-frame-not-delivered", "HEL/ACK exchange failed although both frames fit the buffers (via %s, rbuf %d): %s" % (o["via"], o["rbuf"], o["setup_error"]), o))
    for o in obs:
        v = oracle(o)
        if v:
            fails.append((v[0], v[1], o))

    # (2) correspondence: receive_all evaluated inside Coq on the same stream and segmentation
    corr_ok, mism = True, []
    lines, idxmap = [], []
    for i, o in enumerate(obs):
        t = coq_case(o)
        if t is None:
            mism.append(o)          # the model has no such outcome at all (hang / unknown error)
            continue
        lines.append(t)
        idxmap.append(i)
    if proof_ok or os.path.exists(os.path.join(vf.COQ, "Model", "UacpFraming.vo")):
        okc, idx, clog = ctx.eval_cases(IMPORTS, CTYPE, lines, AGREE, shard=90)
        ctx.log("correspondence: %d cases evaluated in Coq, %d mismatches" % (len(lines), len(idx)))
        if not okc:
            corr_ok = False
            detail["cases"] = clog[-2000:]
        mism += [obs[idxmap[i]] for i in idx]
    else:
        corr_ok = False
    if mism:
        corr_ok = False
        detail["model_vs_impl_mismatches"] = [{k: (v if k not in ("stream", "frames") else str(v)[:200]) for k, v in m.items()} for m in mism[:5]]

    distinct = {(o["rbuf"], o["stream"], tuple(o["segs"])) for o in obs if o["stream"]}
    outcomes = {}
    for o in obs:
        for x in o["results"]:
            k = x.get("err", "ok")
            outcomes[k] = outcomes.get(k, 0) + 1
    sizes = [len(f) // 2 for o in obs for f in o["frames"]]
    at_min = sum(1 for s in sizes if s == 8)
    at_max = sum(1 for o in obs for f in o["frames"] if len(f) // 2 == negotiated(o))

    def short(o):
        return {k: (v if k not in ("stream", "frames", "results") else (str(v)[:160] + "...")) for k, v in o.items()}
    ctx.coverage.update({
        "evaluations": len(obs), "distinct_nontrivial": len(distinct),
        "rule": "real uacp.Conn.Receive over loopback TCP (via NewConn / Listener.Accept after HEL-ACK / Dialer.Dial after HEL-ACK), "
                "writer emits 0-6 well-sized frames (sizes biased to 8, 9, rbuf-1, rbuf; types incl. ERR with good and bad bodies) "
                "then nothing / a header with bad declared size (0..7, rbuf+1, .., 2^32-1) + garbage / a cut frame, in a chosen segmentation; a third of the listener cases establish the connection under test first and then let 1-2 further clients with other (asymmetric) buffer sizes connect to the same listener (also Listen(.., nil) = DefaultServerACK) before any frame is sent: its limits must not change; "
                "(coalesced, per frame, byte-at-a-time, random, header-splitting, shifted), optionally pausing between writes; "
                "distinct = distinct (rbuf, byte stream, segmentation) with a non-empty stream",
        "samples": [short(o) for o in (obs[:2] + obs[-2:])],
        "corpus_cases": ncorpus,
        "via": {v: sum(1 for o in obs if o["via"] == v) for v in ("newconn", "listener", "dialer")},
        "segmentation_kinds": {k: sum(1 for o in obs if o["segkind"] == k) for k in sorted({o["segkind"] for o in obs})},
        "tail_kinds": {k: sum(1 for o in obs if o["tail"]["kind"] == k) for k in ("none", "badsize", "truncated")},
        "receive_outcomes": outcomes,
        "frames_sent": len(sizes), "frames_of_minimum_size_8": at_min, "frames_of_size_rbuf": at_max,
        "largest_frame": max(sizes or [0]),
        "rbuf_values": len({o["rbuf"] for o in obs}),
        "asymmetric_configurations": sum(1 for o in obs if o.get("peer_send") and o["peer_send"] != o["rbuf"] and o["peer_send"] != 65535),
        "dialer_with_smaller_own_send_buffer": sum(1 for o in obs if o.get("own_send") and o["own_send"] < o["rbuf"]),
        "multi_connection_listener_cases": sum(1 for o in obs if o.get("later_hellos")),
        "listener_with_default_server_ack": sum(1 for o in obs if o.get("nil_ack")),
        "negotiated_below_configured": sum(1 for o in obs if negotiated(o) != o["rbuf"]),
        "out_of_domain_cases_rbuf_lt_8": sum(1 for o in obs if o["rbuf"] < 8),
        "traces_validated_against_impl": len(lines),
        "model_impl_mismatches": len(mism),
        "connection_setups_failed": len(bad_setup),
        "inconclusive": len(inconclusive),
        "inconclusive_samples": [{k: o.get(k) for k in ("id", "via", "rbuf", "segkind", "setup_error")} for o in inconclusive[:3]],
        "timeout_retries": {"cases_retried": len(retried), "rounds": attempts},
    })
    ctx.assumptions += [
        "in-order, loss-free byte delivery by the kernel's TCP and Go's net package (trusted)",
        "blocking while the peer has not yet sent the bytes is inherent and not an outcome of the model",
        "hypothesis of every positive theorem: the local ReceiveBufSize is >= 8 (header size). A locally configured ReceiveBufSize < 8 panics in Conn.Receive (theorem C05_small_buffer_panics); this is a local misconfiguration, not peer-controlled: since /repo b35544e the client keeps its own receive buffer and HEL/ACK buffer sizes < 8192 are rejected",
    ]

    new, seen = 0, set()
    for key, why, o in fails:
        k = "%s/%s" % (key, o["tail"]["kind"])
        if k in seen:
            continue
        seen.add(k)
        replay = {k2: v for k2, v in o.items()}
        if ctx.finding(k, why, {"observation": replay,
                                "how": "save the observation as one line of a .jsonl file and run: work/bin/uacpharness -cases <file> c05  (or ./check C05 --replay <file>)"}):
            new += 1
    # a model/implementation disagreement on which the property itself is not violated: the tie is broken; the
    # disagreeing input is written to the replay file (it is not a failing input of the property)
    if mism and new == 0:
        ctx.violation({"broken": "the Coq model of Receive and the implementation disagree on this stream (property oracle is satisfied)",
                       "observation": mism[0], "detail": detail,
                       "how": "work/bin/uacpharness -cases <file with this observation as one line> c05"}, no_input=True)
        return
    ctx.conclude(proof_ok, corr_ok, new, detail)
