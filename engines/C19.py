"""C19 — request timeouts are bounded and never wedge the channel."""
import json
import vf
import sendcorr_common as sc

SLACK_MS = 250.0
KNOWN_BY_SCENARIO = {}


def oracle(c):
    """The property itself on the implementation's observations. Returns list of (key, why)."""
    fails = []
    len_ms = c.get("leniency_ms", 250.0)
    slack = SLACK_MS + 3 * c.get("stall_ms", 0.0)   # goroutines of the harness process were scheduled this late
    finished_ids = set()
    for o in c["outcomes"]:
        if o["code"] >= 0:
            finished_ids.add(o["id"])
        if o["code"] == 3 and not c["scenario"].startswith("c19race-"):   # under a forced schedule the controller holds the caller
            bound = o["timeout_ms"] + len_ms
            if o["elapsed_ms"] > bound + slack:
                fails.append(("timeout-bound-exceeded", "call %d (timeout %.0f ms) returned after %.1f ms > timeout + leniency %.0f ms" % (o["t"], o["timeout_ms"], o["elapsed_ms"], bound)))
            if o["elapsed_ms"] < bound - 5:
                fails.append(("timeout-too-early", "call %d timed out after %.1f ms < timeout + leniency %.0f ms" % (o["t"], o["elapsed_ms"], bound)))
    if not c["scenario"].startswith("c19race-"):
        for o in c["outcomes"]:
            # whatever its result, no call may take longer than its timeout plus the leniency
            if o["code"] >= 0 and o["want"] != 449 and o["elapsed_ms"] > o["timeout_ms"] + len_ms + slack:
                fails.append(("call-exceeded-its-timeout", "call %d (timeout %.0f ms) returned after %.1f ms with code %d" % (o["t"], o["timeout_ms"], o["elapsed_ms"], o["code"])))
                break
    if c.get("renew_ms") is not None and c["renew_ms"] > 500 + slack:
        fails.append(("renewal-waits-for-outstanding-request", "a token renewal took %.0f ms while a request that had been written long before was waiting for its response" % c["renew_ms"]))
    if c.get("cancel_latency_ms", 0) > slack:
        fails.append(("cancel-not-prompt", "a cancelled call returned %.1f ms after the cancellation" % c["cancel_latency_ms"]))
    if c.get("disconnect_latency_ms", 0) > 2 * slack:
        fails.append(("disconnect-not-prompt", "pending calls returned %.1f ms after the disconnect" % c["disconnect_latency_ms"]))
    leaked = sorted(finished_ids & set(c["handlers"]))
    if leaked:
        fails.append(("handler-slot-leaked", "request ids %s are still in the handler table after their calls returned" % leaked))
    by_t = {o["t"]: o for o in c["outcomes"]}
    for t in c.get("expect_ok", []):
        o = by_t.get(t)
        if o is not None and o["code"] != 0:
            key = KNOWN_BY_SCENARIO.get(c["scenario"], "later-response-not-delivered")
            fails.append((key, "call %d was answered by the server in time but returned code %d (%s); rcvLocker locked=%s" % (t, o["code"], o["err"], c.get("rcv_locked"))))
    return fails


def run(ctx):
    n = 248 if ctx.thorough() else 24
    proof_ok, detail = True, {}
    if ctx.replay:
        # a replay file names the seed and the scenario; all scenarios are deterministic functions of the seed
        try:
            rp = json.load(open(ctx.replay))
            ctx.seed = int(rp.get("seed", ctx.seed))
            ctx.log("replaying %s: %s" % (ctx.replay, rp.get("how") or rp.get("broken")))
        except Exception as e:
            ctx.log("cannot read replay file: %s" % e)
    ok, out = ctx.regen(["arith", "sendside"])
    if not ok:
        proof_ok = False
        detail["translator"] = out[-2000:]
        ctx.log("translator failed: " + out[-600:])
    r = ctx.props() if ok else None
    if r is not None and not r["ok"]:
        proof_ok = False
        detail["coq"] = r["failed_at"] or r["log"][-1500:]
    if ctx.thorough() and proof_ok:
        ok2, log = ctx.coqchk()
        if not ok2:
            proof_ok = False
            detail["coqchk"] = log[-1500:]

    h, log = ctx.go_build("schedharness")
    if h is None:
        ctx.broken_tie("harness does not build against /repo", log[-2000:])
        return
    cases, errors = [], []
    for args in (["-n", str(n), "c19"], ["c19race", "all"]):
        rc, out = vf.sh([h, "-seed", str(ctx.seed)] + args, timeout=1500, env=vf.GOENV)
        lines = [json.loads(l) for l in out.splitlines() if l.startswith("{")]
        cases += [l for l in lines if l.get("kind") == "case"]
        errors += [l for l in lines if l.get("kind") == "error"]
        if rc != 0:
            ctx.broken_tie("harness crashed", out[-2000:])
            return
    # regression for the nil dereference in readChunk (C13, fixed by 069bea7): in a process of its own
    survived = 0
    for attempt in range(3):
        rc, out = vf.sh([h, "-seed", str(ctx.seed), "c19race", "opn-after-open-gave-up"], timeout=120, env=vf.GOENV)
        lines = [json.loads(l) for l in out.splitlines() if l.startswith("{")]
        if rc != 0:
            panic = [l for l in out.splitlines() if l.startswith("panic:") or "nil pointer" in l or l.startswith("fatal error")]
            if ctx.finding("client-process-died", "the client process died while an OpenSecureChannelResponse that arrived after open() had given up went through readChunk: %s" % (panic[:2] or out[-300:]),
                           {"how": "schedharness c19race opn-after-open-gave-up (Basic256Sha256/Sign, response held at sc.recv.openingChecked until Renew timed out)", "output": out[-3000:]}):
                pre_new = 1
            else:
                pre_new = 0
            break
        if any(l.get("kind") == "survived" for l in lines):
            survived, pre_new = 1, 0
            break
        pre_new = 0   # the ordering could not be set up (slow machine): try again
    else:
        errors.append({"scenario": "c19race-opn-after-open-gave-up", "err": "ordering could not be set up: " + out[-300:]})
    if not cases:
        ctx.broken_tie("harness produced no cases", "")
        return

    new, seen = pre_new, set()
    for c in cases:
        for key, why in oracle(c):
            if key in seen:
                continue
            seen.add(key)
            if ctx.finding(key, why, {"case": c, "how": "schedharness -seed %d %s (scenario %s, %s)" % (
                    ctx.seed, "c19race " + c["scenario"][8:] if c["scenario"].startswith("c19race-") else "c19", c["scenario"], c["label"])}):
                new += 1
    for e in errors[:3]:
        if ctx.finding("scenario-aborted", "scenario %s aborted: %s" % (e["scenario"], e["err"]), {"error": e, "how": "schedharness -seed %d c19 / c19race all" % ctx.seed}):
            new += 1
            break

    corr_ok, mism = True, []
    if ok:
        ecases = [c for c in cases if not c.get("oracle_only")]
        terms = [sc.case_term(c) for c in ecases]
        okc, idx, clog = ctx.eval_cases(sc.IMPORTS, sc.CTYPE, terms, sc.AGREE, shard=60)
        if not okc:
            corr_ok = False
            detail["cases"] = clog[-1500:]
        elif idx:
            corr_ok = False
            mism = [ecases[i] for i in idx[:5]]
            detail["model_vs_impl_mismatches"] = [{"scenario": m["scenario"], "label": m["label"], "events": m["events"],
                                                   "outcomes": [(o["t"], o["code"], o["id"], o["uid"]) for o in m["outcomes"]],
                                                   "handlers": m["handlers"], "rcv_locked": m.get("rcv_locked")} for m in mism]
            if new == 0 and ctx.finding("model-mismatch", "the implementation's outcome differs from the model's for the same history",
                                        {"case": mism[0], "how": "schedharness -seed %d (scenario %s, %s)" % (ctx.seed, mism[0]["scenario"], mism[0]["label"])}):
                new += 1
    else:
        corr_ok = False

    labels = {}
    for c in cases:
        labels[c["label"]] = labels.get(c["label"], 0) + 1
    to = [o["elapsed_ms"] - o["timeout_ms"] - c.get("leniency_ms", 250) for c in cases for o in c["outcomes"] if o["code"] == 3]
    distinct = {json.dumps(c["events"]) for c in cases}
    ctx.coverage.update({
        "evaluations": len(cases), "distinct_nontrivial": len(distinct),
        "rule": "seeded scenarios against a delaying scripted server: calls with timeouts 20-120 ms (answered / unanswered / answered late), cancellation, disconnect, context already done, failing TCP write; plus 4 forced orderings through the scheduling points (response popped by the dispatcher before/after the timer branch, OPN response racing the renewal timeout, unsolicited OpenSecureChannelResponse: the last two wedged the dispatcher before fix 6070e19 and must now end with a later request answered); distinct = distinct event histories",
        "samples": [{"scenario": c["scenario"], "label": c["label"], "events": c["events"][:12]} for c in cases[:2] + cases[-2:]],
        "cases_by_label": labels, "scenario_errors": len(errors),
        "timeouts_observed": len(to), "timeout_overshoot_ms_max": round(max(to), 2) if to else None,
        "timeout_overshoot_ms_min": round(min(to), 2) if to else None,
        "max_scheduling_stall_ms": max([c.get("stall_ms", 0.0) for c in cases] or [0.0]),
        "late_opn_response_regression_survived": survived,
        "forced_schedules": len([c for c in cases if c["scenario"].startswith("c19race-")]),
        "traces_validated_against_impl": len(cases), "model_impl_mismatches": len(mism),
    })
    ctx.notes.append("wall-clock bound timeout+leniency is measured (slack %.0f ms), not proved; the select logic, slot release and gate hand-off are proved" % SLACK_MS)
    ctx.notes.append("requests block in reqLocker.waitIfLock()/instance.Lock() while a renewal is in flight; these waits ignore ctx and the request timeout (bounded by the renewal's own timeout)")
    ctx.conclude(proof_ok, corr_ok, new, detail)
