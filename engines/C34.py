"""C34 — concurrent reads and writes of node values are linearizable.

proof   : Props/C34.v — check_lin / check_lin_keys sound for every history and hint; every history of the
          single-dispatcher model is linearizable (all schedules); a torn whole-request read is not linearizable;
          Gen.SysTables (AST) says the code has one dispatcher goroutine calling handlers synchronously.
tie     : 4 real clients x 2 goroutines hammer 3 nodes of the stock server with unique values; the recorded histories
          (invocation/response instants) are checked by check_lin evaluated inside Coq (vm_compute).  Every third run is
          a group run (one request writes / reads 4 nodes): group_history && untorn inside Coq, then the collapsed
          history (group = one register) through check_lin; every third run is a blob run: the values are 80 KiB
          ByteStrings (multi-chunk requests and responses) carrying a unique id in every word, writers alternate nodes;
          a blob whose words disagree counts as a value nobody wrote; one run in six uses 64-byte ByteString values
          read whole or with IndexRange "8:15" (a ranged read = a read of the register projected on the range).
oracle  : a history check_lin rejects is searched exhaustively (python, per node, Wing-Gong with memoisation); if a
          linearization exists it is handed to check_lin_keys (Coq) as a hint; otherwise the history is the replay.
"""
import json, os, sys
import vf

IMPORTS = ("From Coq Require Import ZArith Bool List.\nFrom Opcua Require Import Model.Lin.\n"
           "Import ListNotations. Open Scope Z_scope.")


def coq_op(o):
    args = "; ".join("(%d%%N, %d)" % (a[0], a[1]) for a in o["args"])
    return "{| o_kind := %s; o_args := [%s]; o_inv := %d; o_res := %d |}" % (
        "KWrite" if o["op"] == "w" else "KRead", args, o["inv"], o["res"])


def coq_hist(ops):
    return "[" + ";\n ".join(coq_op(o) for o in ops) + "]"


def collapse(ops):
    """group history with untorn reads -> one register (node 100)"""
    out = []
    for o in ops:
        vals = {a[1] for a in o["args"]}
        if len(vals) != 1:
            return None
        out.append(dict(o, args=[[100, vals.pop()]]))
    return out


def search_node(ops, limit=2_000_000):
    """Exhaustive linearizability search for single-register ops (list of dict with op, v, inv, res).
    Returns a list of indices (a linearization) or None.  Wing & Gong with memoisation on (done set, value)."""
    n = len(ops)
    order = sorted(range(n), key=lambda i: ops[i]["inv"])
    ops = [ops[i] for i in order]
    seen = set()
    steps = [0]

    sys.setrecursionlimit(max(10000, 4 * n + 100))

    def rec(done, val, lin):
        if len(lin) == n:
            return lin
        key = (done, val)
        if key in seen:
            return None
        seen.add(key)
        steps[0] += 1
        if steps[0] > limit:
            raise RuntimeError("search limit")
        # minimal ops: not done, and no other not-done op responded before their invocation
        minres = min(ops[i]["res"] for i in range(n) if not (done >> i) & 1)
        cands = [i for i in range(n) if not (done >> i) & 1 and ops[i]["inv"] <= minres]
        # reads that match first (always safe), then writes
        for i in cands:
            if ops[i]["op"] == "r" and ops[i]["v"] == val:
                return rec(done | (1 << i), val, lin + [i])
        for i in cands:
            if ops[i]["op"] == "w":
                r = rec(done | (1 << i), ops[i]["v"], lin + [i])
                if r is not None:
                    return r
        return None

    r = rec(0, 0, [])
    return None if r is None else [order[i] for i in r]


def exact_search(ops):
    """ops: single-node operations of one history. Returns (linearizable?, keys or failing node, detail)."""
    by_node = {}
    for idx, o in enumerate(ops):
        by_node.setdefault(o["args"][0][0], []).append((idx, o))
    points = {}
    for node, lst in by_node.items():
        sub = [dict(op=o["op"], v=o["args"][0][1], inv=o["inv"], res=o["res"]) for _, o in lst]
        try:
            lin = search_node(sub)
        except (RuntimeError, RecursionError) as e:
            return None, node, "search gave up: %s" % e
        if lin is None:
            return False, node, [lst[i][1] for i in range(len(lst))]
        # linearization points: a non-decreasing sequence p with inv <= p <= res exists iff real-time is respected;
        # use running max of invocations (what check_lin_keys needs is only an order; position within the node + time)
        t = None
        for pos, i in enumerate(lin):
            o = sub[i]
            t = o["inv"] if t is None else max(t, o["inv"])
            points[lst[i][0]] = (t, node, pos)
    return True, points, None


def small_witness(node_ops):
    """Shrink a non-linearizable single-node history greedily (drop ops while it stays non-linearizable)."""
    cur = list(node_ops)
    if len(cur) > 300:
        return cur
    changed = True
    while changed and len(cur) > 2:
        changed = False
        for i in range(len(cur)):
            cand = cur[:i] + cur[i + 1:]
            if cur[i]["op"] == "w" and any(o["op"] == "r" and o["args"][0][1] == cur[i]["args"][0][1] for o in cand):
                continue  # keep the write of every value that is still read
            sub = [dict(op=o["op"], v=o["args"][0][1], inv=o["inv"], res=o["res"]) for o in cand]
            try:
                if search_node(sub, limit=200000) is None:
                    cur = cand
                    changed = True
                    break
            except (RuntimeError, RecursionError):
                pass
    return cur


def concurrent_ops(hist):
    n = 0
    for ops in hist.values():
        mx = None
        for o in sorted(ops, key=lambda o: o["inv"]):
            if mx is not None and o["inv"] < mx:
                n += 1
            mx = o["res"] if mx is None else max(mx, o["res"])
    return n


def run(ctx):
    proof_ok, detail = True, {}
    ok, out = ctx.regen(["sys"])
    if not ok:
        proof_ok = False
        detail["translator"] = out[-2000:]
        ctx.log("translator failed: " + out[-800:])
    r = ctx.props() if ok else None
    if r is not None and not r["ok"]:
        proof_ok = False
        detail["coq"] = r["failed_at"] or r["log"][-1500:]
    if ctx.thorough() and proof_ok:
        ok2, log = ctx.coqchk()
        if not ok2:
            proof_ok = False
            detail["coqchk"] = log[-1500:]

    h, log = ctx.go_build("sysharness")
    if h is None:
        ctx.broken_tie("harness does not build against /repo", log[-2000:])
        return
    runs, ops = (30, 120) if ctx.thorough() else (6, 90)
    if ctx.replay:
        rp = json.load(open(ctx.replay))
        obs = rp.get("history") or []
        for o in obs:
            o.setdefault("run", 0)
            o.setdefault("mode", rp.get("mode", "single"))
        rc = 0
    else:
        rc, out = vf.sh([h, "-seed", str(ctx.seed), "-n", str(runs), "-ops", str(ops), "c34"], timeout=1200, env=vf.GOENV)
        obs = [json.loads(l) for l in out.splitlines() if l.startswith('{"kind":"c34"')]
        errs = [json.loads(l) for l in out.splitlines() if l.startswith('{"kind":"c34err"')]
        if rc != 0 or not obs or errs:
            ctx.finding("harness-crash", "C34 harness failed (server or client died under concurrent load?)",
                        {"output": out[-3000:], "errors": errs})
            ctx.conclude(proof_ok, False, 1, detail)
            return
    hist = {}
    for o in obs:
        hist.setdefault((o["run"], o["mode"]), []).append(o)
    keys = sorted(hist)
    singles = [k for k in keys if k[1] in ("single", "blob", "range", "idkinds")]
    groups = [k for k in keys if k[1] == "group"]

    new, corr_ok = 0, True
    lin_ok = 0
    model_ready = r is not None and (r["ok"] or os.path.exists(os.path.join(vf.COQ, "Model/Lin.vo")))
    if not model_ready:
        corr_ok = False
    else:
        # (a) single-node histories and collapsed group histories through check_lin
        cases, labels = [], []
        for k in singles:
            cases.append(coq_hist(hist[k]))
            labels.append((k, hist[k]))
        torn = []
        for k in groups:
            c = collapse(hist[k])
            if c is None:
                torn.append(k)
            else:
                cases.append(coq_hist(c))
                labels.append((k, c))
        okc, idx, clog = ctx.eval_cases(IMPORTS, "list op", cases, "  check_lin c", shard=1, timeout=1200)
        if not okc:
            corr_ok = False
            detail["cases"] = clog
            idx = []
        lin_ok = len(cases) - len(idx)
        # (b) whole-request atomicity on the raw group histories
        if groups:
            gcases = [coq_hist(hist[k]) for k in groups]
            okg, gidx, glog = ctx.eval_cases(IMPORTS, "list op", gcases,
                                             "  group_history [0%N; 1%N; 2%N; 3%N] c && untorn [0%N; 1%N; 2%N; 3%N] c",
                                             shard=1, timeout=900, name="Group")
            if not okg:
                corr_ok = False
                detail["group_cases"] = glog
                gidx = []
            for i in gidx:
                k = groups[i]
                tornops = [o for o in hist[k] if o["op"] == "r" and len({a[1] for a in o["args"]}) > 1]
                writes = {a[1] for o in tornops for a in o["args"]}
                wit = tornops[:1] + [o for o in hist[k] if o["op"] == "w" and o["args"][0][1] in {a[1] for a in tornops[0]["args"]}] if tornops else hist[k][:50]
                if ctx.finding("torn-read", "a read of several nodes in one request returned values of two different whole-request writes: the handlers are not atomic (C34_torn_read_not_linearizable)",
                               {"mode": "group", "history": wit, "torn_reads": len(tornops), "run": k[0],
                                "how": "sysharness c34: writers set g0..g3 to one unique value per request, readers read g0..g3 per request"}):
                    new += 1
        # (c) histories check_lin rejected: exhaustive search; a found linearization goes back to Coq as a hint
        recheck, recheck_lab = [], []
        for i in idx:
            k, ops_ = labels[i]
            res, info, extra = exact_search(ops_)
            if res is True:
                ks = ["[%d; %d; %d]" % info[j] for j in range(len(ops_))]
                recheck.append("(%s, [%s])" % (coq_hist(ops_), "; ".join(ks)))
                recheck_lab.append(k)
            elif res is False:
                wit = small_witness(extra)
                if ctx.finding("non-linearizable", "observed history of node %s is not linearizable (exhaustive search; check_lin rejects it too)" % info,
                               {"mode": "single", "node": info, "history": wit, "run": k[0], "full_history_ops": len(ops_),
                                "how": "sysharness c34: 4 clients x 2 goroutines, unique written values; replay = ./check C34 --replay <this file> re-checks the recorded history"}):
                    new += 1
            else:
                corr_ok = False
                detail.setdefault("search_gave_up", []).append({"run": k[0], "why": extra})
        if recheck:
            okr, ridx, rlog = ctx.eval_cases(IMPORTS, "list op * list (list Z)", recheck, "  check_lin_keys (fst c) (snd c)",
                                             shard=2, timeout=1200, name="Hint")
            if not okr or ridx:
                corr_ok = False
                detail["hint_recheck"] = rlog or [recheck_lab[i] for i in ridx]
            else:
                lin_ok += len(recheck)
                ctx.notes.append("%d histories needed the exhaustive-search hint (check_lin's own hint was not good enough); check_lin_keys accepted them" % len(recheck))

    nops = len(obs)
    ctx.coverage.update({
        "evaluations": nops,
        "distinct_nontrivial": len({(o["run"], o["client"], o["inv"]) for o in obs}),
        "rule": "completed read/write operations recorded from 4 real clients x 2 goroutines against the stock server, %d runs (every third a whole-request group run, every third a run with 80 KiB multi-chunk ByteString values); distinct = distinct (run, worker, invocation instant); every run's history is checked inside Coq by check_lin" % len(keys),
        "samples": [{k: o[k] for k in ("run", "mode", "client", "op", "args", "inv", "res")} for o in (obs[:3] + obs[-2:])],
        "histories": len(keys), "histories_accepted_by_check_lin": lin_ok,
        "writes": sum(1 for o in obs if o["op"] == "w"), "reads": sum(1 for o in obs if o["op"] == "r"),
        "ops_invoked_while_another_was_in_flight": concurrent_ops(hist),
        "traces_validated_against_impl": len(keys),
    })
    ctx.conclude(proof_ok, corr_ok, new, detail)
