"""C36 — freedom from data races (scoped: lock discipline of the listed shared fields + race detector on scenarios).

proof   : Props/C36.v — generic lockset theorem (any number of threads, any schedule, exclusive/shared locks) instantiated
          at Gen.LockSites (every syntactic access to the tracked fields with the mutexes held, extracted from the Go AST
          on every run) for the guarded field list; caller-holds-lock contracts (subMux, channel instance lock) checked
          at every call site; Node.val/Node.attr are guarded since the fix of race/Node.val (regression witness kept).
tie     : the concurrent scenarios (requests + channel renewal with a short lifetime + subscription with item churn;
          subscriptions timing out on their own goroutines around a CreateMonitoredItems request; token expiry;
          the C34 and C28 scenarios) run from a binary built with -race; every `WARNING: DATA RACE` report is parsed:
          a report whose access lies on a line the table attributes to a guarded field is a correspondence break;
          any other report is a failure of the property itself, keyed by the function at the root of the race.
"""
import json, os, re
import vf

GUARDED = ["SecureChannel.instances", "SecureChannel.instances[]", "SecureChannel.activeInstance", "SecureChannel.handlers", "SecureChannel.chunks",
           "Client.subs", "Client.pendingAcks", "Node.val", "Node.attr", "MonitoredItemService.Items", "MonitoredItemService.Nodes",
           "MonitoredItemService.Subs", "SubscriptionService.Subs", "sessionBroker.s", "channelBroker.s"]
ROOTS = ["handleOpenSecureChannelRequest", "renew", "SetAttribute", "ChangeNotification"]


def load_sites():
    p = os.path.join(vf.COQ, "Gen", "LockSites.v")
    sites = {}
    if not os.path.exists(p):
        return sites
    for m in re.finditer(r's_loc := "([^"]+)"%string; s_kind := (\w+); s_locks := \[([^\]]*)\] \|\}, "([^"]+)"%string, "([^"]+)"%string, (\d+)', open(p).read()):
        loc, kind, locks, fn, f, line = m.groups()
        sites.setdefault((f, int(line)), []).append({"field": loc, "kind": kind, "fn": fn, "locks": re.findall(r'"([^"]+)"%string', locks)})
    return sites


def parse_reports(text, repo):
    reps = []
    for blk in text.split("=================="):
        if "WARNING: DATA RACE" not in blk:
            continue
        accesses = []
        cur = None
        for ln in blk.splitlines():
            m = re.match(r"^(Write|Read|Previous write|Previous read|Atomic write|Atomic read|Previous atomic \w+) at 0x[0-9a-f]+ by (.*):", ln)
            if m:
                cur = {"op": m.group(1), "by": m.group(2), "frames": []}
                accesses.append(cur)
                continue
            if ln.startswith("Goroutine ") or not ln.strip():
                if ln.startswith("Goroutine "):
                    cur = None
                continue
            if cur is None:
                continue
            m = re.match(r"^  (\S+)\(\)$", ln)
            if m:
                cur["frames"].append({"fn": m.group(1)})
                continue
            m = re.match(r"^      (\S+):(\d+) ", ln)
            if m and cur["frames"]:
                f = m.group(1)
                if f.startswith(repo + "/"):
                    f = f[len(repo) + 1:]
                cur["frames"][-1].update(file=f, line=int(m.group(2)))
        reps.append({"accesses": accesses[:2]})
    return reps


def short(fn):
    fn = fn.replace("github.com/gopcua/opcua/", "").replace("github.com/gopcua/opcua.", "opcua.")
    return fn.replace("(*", "").replace(")", "")


def classify(rep, sites):
    fields, fns, root = set(), [], None
    for a in rep["accesses"]:
        top = None
        for fr in a["frames"]:
            if "file" not in fr or fr["fn"].startswith("runtime.") or fr["file"].startswith("/"):
                continue  # runtime / standard library / harness frames: the access is attributed to the first /repo frame
            if top is None:
                top = fr
            for s in sites.get((fr["file"], fr["line"]), []):
                if fr is top:
                    fields.add(s["field"])
            name = fr["fn"].split(".")[-1]
            if root is None and name in ROOTS and "gopcua" in fr["fn"]:
                root = short(fr["fn"])
            # the server's connection goroutine handling an OpenSecureChannel request (readChunk adopts the policy and the
            # certificate from the header, handleOpenSecureChannelRequest the mode, keys and sizes) = one root cause
            if root is None and name == "readChunk" and any("channelBroker).RegisterConn" in g["fn"] for g in a["frames"]):
                root = "uasc.SecureChannel.handleOpenSecureChannelRequest"
        if top:
            fns.append("%s@%s:%d" % (short(top["fn"]), top.get("file", "?"), top.get("line", 0)))
    return fields, fns, root


def run(ctx):
    proof_ok, detail = True, {}
    ok, out = ctx.regen(["locksites"])
    if not ok:
        proof_ok = False
        detail["translator"] = out[-2000:]
        ctx.log("translator failed: " + out[-800:])
    r = ctx.props() if ok else None
    if r is not None and not r["ok"]:
        proof_ok = False
        detail["coq"] = r["failed_at"] or r["log"][-1500:]
    if ctx.thorough() and proof_ok:
        ok2, log = ctx.coqchk()
        if not ok2:
            proof_ok = False
            detail["coqchk"] = log[-1500:]
    sites = load_sites()

    h, log = ctx.go_build("sysharness", race=True)
    if h is None:
        ctx.broken_tie("race-instrumented harness does not build against /repo", log[-2000:])
        return
    env = dict(vf.GOENV, GORACE="halt_on_error=0")
    if ctx.thorough():
        plan = [["c36expiry"], ["-seed", str(ctx.seed), "-n", "5", "c36subs"]] + [["-seed", str(ctx.seed + i), "-n", "8", "c36renew"] for i in range(4)] + \
               [["-seed", str(ctx.seed), "-n", "9", "-ops", "60", "c34"], ["-seed", str(ctx.seed), "-n", "4", "-ops", "120", "c28"]]
    else:
        plan = [["c36expiry"], ["-seed", str(ctx.seed), "-n", "2", "c36subs"], ["-seed", str(ctx.seed), "-n", "5", "c36renew"], ["-seed", str(ctx.seed), "-n", "3", "-ops", "30", "c34"],
                ["-seed", str(ctx.seed), "-n", "2", "-ops", "60", "c28"]]
    reports, ran, crashed = [], [], []
    for args in plan:
        rc, outp = vf.sh([h] + args, timeout=900, env=env)
        ran.append({"args": " ".join(args), "rc": rc, "races": outp.count("WARNING: DATA RACE")})
        if rc not in (0, 66) or "panic:" in outp or "fatal error:" in outp:
            crashed.append({"args": " ".join(args), "rc": rc, "tail": outp[-1500:]})
        for rep in parse_reports(outp, vf.REPO):
            rep["scenario"] = " ".join(args)
            reports.append(rep)

    new, corr_ok = 0, True
    seen = set()
    n_guarded = 0
    for rep in reports:
        fields, fns, root = classify(rep, sites)
        if not fields and root and root.split(".")[-1] in ("SetAttribute", "ChangeNotification"):
            fields = {"Node.val"}
        guarded_hit = sorted(f for f in fields if f in GUARDED)
        if guarded_hit:
            n_guarded += 1
            corr_ok = False
            key = "race-on-guarded/" + guarded_hit[0]
            what = "the race detector reports a race on %s, which the lockset table calls guarded: %s" % (guarded_hit[0], " vs ".join(fns))
        elif root and root.split(".")[-1] in ("handleOpenSecureChannelRequest", "renew"):
            key = "race/" + root
            what = "data race in the token renewal path (%s): %s" % (", ".join(sorted(fields)) or "untracked field", " vs ".join(fns))
        elif fields:
            key = "race/" + sorted(fields)[0]
            what = "data race on %s (predicted by the lockset table): %s" % (sorted(fields)[0], " vs ".join(fns))
        else:
            key = "race/" + (root or (fns[-1].split("@")[0] if fns else "unknown"))
            what = "data race: %s" % " vs ".join(fns)
        if key in seen:
            continue
        seen.add(key)
        if ctx.finding(key, what, {"scenario": rep["scenario"], "report": rep,
                                   "how": "work/bin/sysharness-race <scenario> with GORACE=halt_on_error=0 (go build -race -tags verif ./cmd/sysharness)"}):
            new += 1
    for c in crashed:
        if ctx.finding("scenario-crash", "race scenario crashed: " + c["args"], c):
            new += 1

    ctx.coverage.update({
        "evaluations": len(sites) and sum(len(v) for v in sites.values()),
        "distinct_nontrivial": len({(k, s["field"], s["kind"]) for k, v in sites.items() for s in v}),
        "rule": "access sites extracted from the Go AST for the tracked fields (distinct = distinct (file:line, field, kind)); plus %d race-instrumented scenario runs whose DATA RACE reports are mapped back to the table by file:line" % len(plan),
        "samples": [dict(where="%s:%d" % k, **v[0]) for k, v in list(sites.items())[:5]],
        "guarded_fields": GUARDED,
        "scenarios": ran,
        "race_reports": len(reports), "race_reports_on_guarded_fields": n_guarded,
        "distinct_race_keys": sorted(seen),
        "traces_validated_against_impl": len(plan),
    })
    ctx.notes.append("scope: lock discipline of the guarded fields only; channelInstance.algo/sequenceNumber, SecureChannel.openingInstance/requestID and all unlisted fields are outside the theorem (the race detector still watches them in the scenarios)")
    ctx.conclude(proof_ok, corr_ok, new, detail)
