"""Shared helpers of the receive-path engines (C09, C10, C12, C13, C17, C20)."""
import json, os
import vf

BAD_DECODING = 0x80070000
BAD_SERVICE_UNSUPPORTED = 0x800B0000
BAD_SECURITY_CHECKS = 0x80130000


def hexN(h):
    """hex string -> Coq list N literal"""
    return "[" + ";".join(str(x) for x in bytes.fromhex(h)) + "]"


def prove(ctx, gens=()):
    """regen (if any Gen target is needed) + Props build (+ coqchk when thorough). Returns (proof_ok, detail)."""
    proof_ok, detail = True, {}
    if gens:
        ok, out = ctx.regen(list(gens))
        if not ok:
            proof_ok = False
            detail["translator"] = out[-2000:]
            ctx.log("translator failed: " + out[-500:])
    r = ctx.props()
    if not r["ok"]:
        proof_ok = False
        detail["coq"] = r["failed_at"] or r["log"][-1500:]
    if ctx.thorough() and proof_ok:
        ok2, log = ctx.coqchk()
        if not ok2:
            proof_ok = False
            detail["coqchk"] = log[-1500:]
    return proof_ok, detail


def harness(ctx, args, timeout=600, name="recvharness"):
    """build + run the Go harness; returns list of JSON observations or None (tie broken, already reported)."""
    h, log = ctx.go_build(name)
    if h is None:
        ctx.broken_tie("harness does not build against /repo", log[-2000:])
        return None
    cmd = [h, "-seed", str(ctx.seed)] + [str(a) for a in args]
    rc, out = vf.sh(cmd, timeout=timeout, env=vf.GOENV)
    obs = []
    for l in out.splitlines():
        if l.startswith("{"):
            try:
                obs.append(json.loads(l))
            except Exception:
                pass
    if rc != 0 or not obs:
        ctx.broken_tie("harness crashed (rc=%d)" % rc, out[-3000:])
        return None
    return obs


def replay_case(ctx):
    """If --replay was given return the parsed replay object, else None."""
    if not ctx.replay:
        return None
    with open(ctx.replay) as f:
        return json.load(f)
